#!/usr/bin/env bash
# Re-run every kept seeded defect against the current checks: the patch is applied to a scratch copy of /repo (skipped
# when it no longer applies or builds), then every check listed in meta.json "detected_by_checks" must report a VIOLATION.
export GOFLAGS=-mod=mod GOPROXY=off GOSUMDB=off GOTOOLCHAIN=local
export GOCACHE=/tmp/verif-gocache-alt
# SHARD=k NSHARDS=n: only every n-th seed starting at k (several shards can run side by side)
idx=0
for d in /verif/seeded/*/; do
  idx=$((idx+1))
  if [ -n "${NSHARDS:-}" ] && [ $((idx % NSHARDS)) -ne "${SHARD:-0}" ]; then continue; fi
  n=$(basename $d)
  [ -f $d/patch.diff ] || continue
  checks=$(python3 -c "import json;print(' '.join(json.load(open('$d/meta.json')).get('detected_by_checks',[])))" 2>/dev/null)
  [ -n "$checks" ] || { echo "$n: no checks listed"; continue; }
  m=/tmp/sr-$$; rm -rf $m; rsync -a --exclude .git /repo/ $m/
  if ! (cd $m && patch -p1 -s --no-backup-if-mismatch < $d/patch.diff >/dev/null 2>&1); then echo "$n: PATCH-NO-LONGER-APPLIES"; rm -rf $m; continue; fi
  if ! (cd $m && go build ./... >/dev/null 2>&1); then echo "$n: NO-BUILD"; rm -rf $m; continue; fi
  for p in $checks; do
    out=$(cd /verif && VERIF_REPO=$m timeout 1500 ./check $p quick 2>&1)
    v=$(echo "$out" | grep -c "^VIOLATION")
    echo "$n vs $p: violations=$v $(echo "$out" | grep "^VIOLATION" | head -1 | grep -o "no-failing-input-found")"
  done
  rm -rf $m
done
[ -n "${NSHARDS:-}" ] || rm -rf /tmp/verif-gocache-alt
