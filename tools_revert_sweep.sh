#!/usr/bin/env bash
# For every fix: commit of /repo: revert it on a scratch worktree and run the check(s) of the property it repaired.
# A fixed entry suppresses nothing: the check must report the violation again when the fix is undone.
export GOFLAGS=-mod=mod GOPROXY=off GOSUMDB=off GOTOOLCHAIN=local
declare -A MAP=( [cb508fd]="C03" [22b1476]="C03" [8f5f4ff]="C01" [33c4179]="C03" [f59e7b5]="C18" [8f5fe9b]="C14" [759417f]="C14"
 [270479a]="C13 C15" [0897711]="C12" [518ae67]="C12 C16" [f73ad70]="C17" [20cbe47]="C20" [f643323]="C20" [00a9e1e]="C10" [85ee5f1]="C10"
 [f7ed7a1]="C17" [50836ee]="C10" [7f137d6]="C10 C14" [10c6b75]="C19" [f3759e2]="C07" [f074f78]="C07" [45707cd]="C20" [619e47e]="C07"
 [08471b8]="C07" [d8a424d]="C20" [946fce4]="C10" [784d281]="C02 C01" [342661a]="C07" [40f95dd]="C04" [5caebc0]="C11"
 [f9673b7]="C02" [780c3ca]="C02" [d7ae7b4]="C18 C07" )
for c in "${!MAP[@]}"; do
  wt=/tmp/rv-$c
  git -C /repo worktree add -q --detach $wt HEAD || continue
  if ! git -C $wt revert --no-commit $c >/dev/null 2>&1; then
    echo "REVERT-CONFLICT $c ($(git -C /repo log --format=%s -1 $c | cut -c1-60))"
    git -C /repo worktree remove --force $wt; continue
  fi
  if ! (cd $wt && go build ./... >/dev/null 2>&1); then echo "REVERT-NOBUILD $c"; git -C /repo worktree remove --force $wt; continue; fi
  for p in ${MAP[$c]}; do
    out=$(cd /verif && VERIF_REPO=$wt timeout 900 ./check $p quick 2>&1 | grep -v WARNING)
    v=$(echo "$out" | grep -c "^VIOLATION")
    echo "revert $c vs $p: violations=$v :: $(echo "$out" | grep "^VIOLATION" | head -1 | sed 's/.*replay=//') :: $(git -C /repo log --format=%s -1 $c | cut -c6-70)"
  done
  git -C /repo worktree remove --force $wt
done
git -C /repo worktree prune
rm -rf /tmp/verif-gocache-alt
