import ShpanVerif.Drive.C01
import ShpanVerif.Drive.C02
import ShpanVerif.Drive.C03
import ShpanVerif.Drive.C04
import ShpanVerif.Drive.C05
import ShpanVerif.Drive.C06
import ShpanVerif.Drive.C07
import ShpanVerif.Drive.C08
import ShpanVerif.Drive.C09
import ShpanVerif.Drive.C10
import ShpanVerif.Drive.C11
import ShpanVerif.Drive.C12
import ShpanVerif.Drive.C13
import ShpanVerif.Drive.C14
import ShpanVerif.Drive.C15
import ShpanVerif.Drive.C16
import ShpanVerif.Drive.C17
import ShpanVerif.Drive.C18
import ShpanVerif.Drive.C19
import ShpanVerif.Drive.C20
/-
Line-protocol driver.  usage: driver <Cxx>   stdin: alternating lines
  case <T|N> <case text>
  obs <observation text>
stdout per pair:
  model <model output in the observation's canonical format>
  spec <1|0> <reason>
-/
open ShpanVerif

def handlers : List (String × (String → String → String × Bool × String)) := [
  ("C01", Drive.C01.handle),
  ("C02", Drive.C02.handle),
  ("C03", Drive.C03.handle),
  ("C04", Drive.C04.handle),
  ("C05", Drive.C05.handle),
  ("C06", Drive.C06.handle),
  ("C07", Drive.C07.handle),
  ("C08", Drive.C08.handle),
  ("C09", Drive.C09.handle),
  ("C10", Drive.C10.handle),
  ("C11", Drive.C11.handle),
  ("C12", Drive.C12.handle),
  ("C13", Drive.C13.handle),
  ("C14", Drive.C14.handle),
  ("C15", Drive.C15.handle),
  ("C16", Drive.C16.handle),
  ("C17", Drive.C17.handle),
  ("C18", Drive.C18.handle),
  ("C19", Drive.C19.handle),
  ("C20", Drive.C20.handle)
]

def dropWord (s : String) : String :=
  match s.splitOn " " with
  | _ :: rest => " ".intercalate rest
  | [] => ""

partial def loop (h : IO.FS.Stream) (out : IO.FS.Stream) (f : String → String → String × Bool × String)
    (cur : Option String) : IO Unit := do
  let line ← h.getLine
  if line.isEmpty then return ()
  let line := if line.endsWith "\n" then (line.dropEnd 1).toString else line
  if line.startsWith "case " then
    -- "case <flag> <text>"
    loop h out f (some (dropWord (dropWord line)))
  else if line.startsWith "obs " then
    match cur with
    | none => out.putStrLn "model -"; out.putStrLn "spec 0 obs-without-case"; loop h out f none
    | some c =>
      let (m, ok, why) := f c (dropWord line)
      out.putStrLn s!"model {m}"
      out.putStrLn s!"spec {if ok then 1 else 0} {why}"
      loop h out f none
  else loop h out f cur

def main (args : List String) : IO UInt32 := do
  match args with
  | [p] =>
    match handlers.lookup p with
    | some f =>
      loop (← IO.getStdin) (← IO.getStdout) f none
      return 0
    | none => IO.eprintln s!"no handler for {p}"; return 2
  | _ => IO.eprintln "usage: driver <Cxx>"; return 2
