import ShpanVerif.Drive.C08
/-
Line-protocol driver.  usage: driver <Cxx>   stdin: alternating lines
  case <T|N> <case text>
  obs <observation text>
stdout per pair:
  model <model output in the observation's canonical format>
  spec <1|0> <reason>
-/
open ShpanVerif

def handlers : List (String × (String → String → String × Bool × String)) := [
  ("C08", Drive.C08.handle)
]

def dropWord (s : String) : String :=
  match s.splitOn " " with
  | _ :: rest => " ".intercalate rest
  | [] => ""

partial def loop (h : IO.FS.Stream) (out : IO.FS.Stream) (f : String → String → String × Bool × String)
    (cur : Option String) : IO Unit := do
  let line ← h.getLine
  if line.isEmpty then return ()
  let line := if line.endsWith "\n" then (line.dropEnd 1).toString else line
  if line.startsWith "case " then
    -- "case <flag> <text>"
    loop h out f (some (dropWord (dropWord line)))
  else if line.startsWith "obs " then
    match cur with
    | none => out.putStrLn "model -"; out.putStrLn "spec 0 obs-without-case"; loop h out f none
    | some c =>
      let (m, ok, why) := f c (dropWord line)
      out.putStrLn s!"model {m}"
      out.putStrLn s!"spec {if ok then 1 else 0} {why}"
      loop h out f none
  else loop h out f cur

def main (args : List String) : IO UInt32 := do
  match args with
  | [p] =>
    match handlers.lookup p with
    | some f =>
      loop (← IO.getStdin) (← IO.getStdout) f none
      return 0
    | none => IO.eprintln s!"no handler for {p}"; return 2
  | _ => IO.eprintln "usage: driver <Cxx>"; return 2
