/-
List-level reference semantics of pipelines ("the same program evaluated over plain slices", C04).
`eval p = none` means the property's precondition does not hold for `p` (cluster input not sorted by
classifier, merge input not sorted, invalid window parameters): nothing is claimed then.
State fields of `Pipe` are ignored: this is the meaning of the stream *description*.
-/
import ShpanVerif.Model.Pipe

namespace ShpanVerif.Spec
open ShpanVerif.Model.Pipe

/-- consecutive runs starting every `step` elements: all full ones, then the first short non-empty one
    unless partial windows are omitted or step = 1 -/
def windows {α : Type} (size step : Nat) (omitLast : Bool) : Nat → List α → List (List α)
  | 0, _ => []
  | fuel+1, l =>
    if l.length ≥ size then l.take size :: windows size step omitLast fuel (l.drop step)
    else if !l.isEmpty && !omitLast && step != 1 then [l]
    else []

/-- rows of ZipN: one row per index present in every input -/
def zipRows : List (List V) → List V
  | [] => []
  | ls =>
    let n := (ls.map List.length).foldl min (ls.headD []).length
    (List.range n).map (fun i => V.arr ((ls.map (fun l => (l[i]?.map V.flat).getD [])).flatten))

def sortedBy (f : V → Int) : List V → Bool
  | [] => true
  | [_] => true
  | a :: b :: l => f a ≤ f b && sortedBy f (b :: l)

/-- maximal runs of equal classifier -/
def runs (k : Int) (l : List V) : List (List V) := l.splitBy (fun a b => classify k a == classify k b)

/-- results of the cluster factories over the runs; `prev` = true last element of the previous run -/
def clusterOut (k : Int) (fac : Fac) : Option V → List (List V) → List V
  | _, [] => []
  | prev, g :: gs =>
    let cls := match g with | x :: _ => classify k x | [] => 0
    let read := match facWant fac with | some n => g.take n | none => g
    facResult fac cls read prev :: clusterOut k fac g.getLast? gs

mutual
def eval : Pipe → Option (List V)
  | .src _ xs _ => some (xs.map V.int)
  | .lc _ p => eval p
  | .map f p => (eval p).map (·.map f.app)
  | .filter g p => (eval p).map (·.filter g.app)
  | .limit n _ p => if n ≤ 0 then some [] else (eval p).map (·.take n.toNat)
  | .skip n _ p => (eval p).map (·.drop n)
  | .concat ps _ _ _ => (evalList ps).map List.flatten
  | .zip ps _ => (evalList ps).map zipRows
  | .merge ps _ _ =>
    match evalList ps with
    | some ls => if ls.all (sortedBy V.key) then some (ls.flatten.mergeSort (fun a b => a.key ≤ b.key)) else none
    | none => none
  | .window s st o _ _ _ p =>
    if !windowParamsOk s st then none
    else (eval p).map (fun l => (windows s st o (l.length + 1) l).map (fun w => V.arr (w.flatMap V.flat)))
  | .cluster k fac _ _ _ _ p =>
    match eval p with
    | some l => if k > 0 && sortedBy (classify k) l then some (clusterOut k fac none (runs k l)) else none
    | none => none
def evalList : PipeList → Option (List (List V))
  | .nil => some []
  | .cons p ps =>
    match eval p, evalList ps with
    | some l, some ls => some (l :: ls)
    | _, _ => none
end

end ShpanVerif.Spec
