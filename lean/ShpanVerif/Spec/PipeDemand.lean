/-
C05: an upper bound, computed from the list-level meaning only, on how many `Emit` calls each probe source
receives when a pipeline's provider is invoked `n` times ("no more than the needed prefix plus the
operators' fixed look-ahead").  `demand p n = none` when the list-level meaning is undefined.
Look-ahead constants per operator: 0 map/filter/limit/skip/concat/zip, 1 per input for merge (and a re-poll
of exhausted inputs on every call), `size` for window's first fill, 1 item for cluster.
-/
import ShpanVerif.Spec.PipeSpec

namespace ShpanVerif.Spec
open ShpanVerif.Model.Pipe

/-- child pulls needed for `n` outputs of a filter over `l`: up to and including the n-th match; past the
    last match every further call costs one more (EOF) pull -/
def filterCalls (g : V → Bool) : List V → Nat → Nat
  | _, 0 => 0
  | [], n => n
  | x :: xs, n+1 => 1 + (if g x then filterCalls g xs n else filterCalls g xs (n+1))

/-- child pulls of `Concat` sub streams for `n` parent calls: sub i is pulled until its EOF (len+1 calls)
    before sub i+1 is opened; returns the per-sub call counts -/
def concatCalls : List Nat → Nat → List Nat
  | [], _ => []
  | _ :: ls, 0 => 0 :: concatCalls ls 0
  | len :: ls, n =>
    if n ≤ len then n :: concatCalls ls 0
    else (len + 1) :: concatCalls ls (n - len)

def addF (f g : Nat → Nat) : Nat → Nat := fun r => f r + g r

mutual
def demand : Pipe → Nat → Option (Nat → Nat)
  | .src r _ _, n => some (fun x => if x = r then n else 0)
  | .lc _ p, n => demand p n
  | .map _ p, n => demand p n
  | .filter g p, n =>
    match eval p with
    | some l => demand p (filterCalls g.app l n)
    | none => none
  | .limit m _ p, n =>
    if m ≤ 0 then some (fun _ => 0)
    else
      match eval p with
      | some l => demand p (if n ≤ m.toNat then n else if l.length ≥ m.toNat then m.toNat else n)
      | none => none
  | .skip m _ p, n => if n = 0 then some (fun _ => 0) else demand p (n + m)
  | .concat ps _ _ _, n =>
    match evalList ps with
    | some ls => demandList ps (concatCalls (ls.map List.length) n)
    | none => none
  | .zip ps _, n => demandList ps (List.replicate ps.length n)
  | .merge ps _ _, n => demandList ps (List.replicate ps.length n)
  | .window s st _ _ _ _ p, n =>
    if !windowParamsOk s st then none
    else if n = 0 then some (fun _ => 0) else demand p (s + (n - 1) * st)
  | .cluster k _ _ _ _ _ p, n =>
    match eval p with
    | some l =>
      if k > 0 && sortedBy (classify k) l then
        demand p (1 + (((runs k l).take n).map List.length).sum)
      else none
    | none => none
def demandList : PipeList → List Nat → Option (Nat → Nat)
  | .nil, _ => some (fun _ => 0)
  | .cons p ps, ns =>
    match demand p (ns.headD 0), demandList ps (ns.drop 1) with
    | some f, some g => some (addF f g)
    | _, _ => none
end

/-- number of provider invocations a terminal makes: all elements plus the final EOF pull -/
def terminalCalls (l : List V) : Nat := l.length + 1

end ShpanVerif.Spec
