/-
C05 — pipelines are lazy and pull no more than they need (sequential part).

* `C05_limit_exact`: under `Limit(n)` (FindFirst / IsEmpty / Page are `Limit`) a source is pulled exactly
  `n` times when it has at least `n` elements (the terminal's final pull is answered by Limit's counter,
  not by the source) and `len + 1` times otherwise (the last pull is the one that returns EOF);
  `Limit(n ≤ 0)` never even opens it.  In particular it terminates on arbitrarily long sources with a
  pull count independent of their length.
* The general bound `pulls ≤ Spec.demand` for all operator trees is checked on the real code by the
  correspondence run (Drive/C05.lean); its proof for the model is the `C05_pull_bound` item below.
-/
import ShpanVerif.Model.PipeWF
import ShpanVerif.Spec.PipeDemand

namespace ShpanVerif.Props.C05
open ShpanVerif.Model.Pipe ShpanVerif

theorem pulls_append (tr tr' : List Event) (r : Nat) : pulls (tr ++ tr') r = pulls tr r + pulls tr' r := by
  simp [pulls, List.count_append]

theorem pulls_closeRes (r x : Nat) (w : World) : pulls (closeRes x w).trace r = pulls w.trace r := by
  simp [closeRes, pulls, List.count_append]

mutual
/-- closing never pulls -/
theorem closeP_pulls (r : Nat) : ∀ (p : Pipe) (w : World), pulls (closeP p w).2.trace r = pulls w.trace r
  | .src _ _ _, w => by simp [closeP, pulls_closeRes]
  | .lc _ p, w => by simp [closeP, pulls_closeRes, closeP_pulls r p w]
  | .map _ p, w => by simp [closeP, closeP_pulls r p w]
  | .filter _ p, w => by simp [closeP, closeP_pulls r p w]
  | .limit n _ p, w => by simp only [closeP]; split <;> simp [closeP_pulls r p w]
  | .skip _ _ p, w => by simp [closeP, closeP_pulls r p w]
  | .concat ps next _ _, w => by simp only [closeP]; split <;> simp [closeAt_pulls r ps (next-1) w]
  | .zip ps k, w => by simp [closeP, closeFirst_pulls r ps k w]
  | .merge ps k _, w => by simp [closeP, closeFirst_pulls r ps k w]
  | .window _ _ _ _ _ _ p, w => by simp only [closeP]; split <;> simp [closeP_pulls r p w]
  | .cluster _ _ _ _ _ _ p, w => by simp only [closeP]; split <;> simp [closeP_pulls r p w]
theorem closeFirst_pulls (r : Nat) : ∀ (ps : PipeList) (k : Nat) (w : World),
    pulls (closeFirst ps k w).2.trace r = pulls w.trace r
  | .nil, _, w => by simp [closeFirst]
  | .cons _ _, 0, w => by simp [closeFirst]
  | .cons p ps, k+1, w => by simp [closeFirst, closeP_pulls r p, closeFirst_pulls r ps k w]
theorem closeAt_pulls (r : Nat) : ∀ (ps : PipeList) (i : Nat) (w : World),
    pulls (closeAt ps i w).2.trace r = pulls w.trace r
  | .nil, _, w => by simp [closeAt]
  | .cons p _, 0, w => by simp [closeAt, closeP_pulls r p w]
  | .cons _ ps, i+1, w => by simp [closeAt, closeAt_pulls r ps i w]
end

/-- a clean world stays clean through a probe call, and the call does not fail -/
theorem call_clean {w : World} (h : w.Clean) :
    w.call = (.none, { w with calls := w.calls + 1, trace := w.trace ++ [Event.call w.calls] }) := by
  simp [World.call, h.1]

theorem emitRes_clean {w : World} (h : w.Clean) (r : Nat) :
    ∃ w', emitRes r w = (.none, w') ∧ w'.Clean ∧ pulls w'.trace r = pulls w.trace r + 1 ∧
      ∀ x, x ≠ r → pulls w'.trace x = pulls w.trace x := by
  refine ⟨_, by simp [emitRes, call_clean h]; rfl, ?_, ?_, ?_⟩
  · exact ⟨h.1, h.2⟩
  · simp [pulls_append, pulls]
  · intro x hx
    simp only [pulls, List.append_assoc, List.count_append, List.count_cons, List.count_nil]
    have : (Event.emit r == Event.emit x) = false := by simp; exact fun h => hx h.symm
    simp [this]

/-- one provider call of `Limit(n)` over a probe source, in a clean world -/
theorem emit_limit_src {w : World} (h : w.Clean) (fuel : Nat) (r : Nat) (xs : List Int) (n c : Int) (i : Nat)
    (hn : 0 < n) :
    (emitP fuel (.limit n c (.src r xs i)) w).1 = .oof ∨ ∃ w', w'.Clean ∧
      ((c > n ∧ emitP fuel (.limit n c (.src r xs i)) w = (.eof, .limit n c (.src r xs i), w') ∧
          pulls w'.trace r = pulls w.trace r) ∨
       (c ≤ n ∧ i < xs.length ∧ ∃ v, emitP fuel (.limit n c (.src r xs i)) w =
          (.val v, .limit n (c+1) (.src r xs (i+1)), w') ∧ pulls w'.trace r = pulls w.trace r + 1) ∨
       (c ≤ n ∧ xs.length ≤ i ∧ emitP fuel (.limit n c (.src r xs i)) w =
          (.eof, .limit n c (.src r xs i), w') ∧ pulls w'.trace r = pulls w.trace r + 1)) := by
  obtain ⟨w', he, hc', hp, _⟩ := emitRes_clean h r
  cases fuel with
  | zero => left; simp [emitP]
  | succ fuel =>
  by_cases hcn : c > n
  · exact Or.inr ⟨w, h, Or.inl ⟨hcn, by simp [emitP, hcn, Int.not_le.mpr hn], rfl⟩⟩
  · have hcn' : c ≤ n := Int.not_lt.mp hcn
    cases fuel with
    | zero => left; simp [emitP, hcn, Int.not_le.mpr hn]
    | succ fuel =>
      right
      by_cases hi : i < xs.length
      · refine ⟨w', hc', Or.inr (Or.inl ⟨hcn', hi, .int xs[i], ?_, hp⟩)⟩
        simp [emitP, hcn, Int.not_le.mpr hn, he, hi]
      · have hi' : xs.length ≤ i := Nat.le_of_not_lt hi
        refine ⟨w', hc', Or.inr (Or.inr ⟨hcn', hi', ?_, hp⟩)⟩
        simp [emitP, hcn, Int.not_le.mpr hn, he, List.getElem?_eq_none hi']

/-- the pull loop over `Limit(n)` of a probe source: number of source pulls from any intermediate state
    (`c` = alreadyConsumed, `i` = source index; invariant of the loop: `c = i + 1`) -/
theorem pullLoop_limit_src (r : Nat) (xs : List Int) (n : Int) (hn : 0 < n) :
    ∀ (k : Nat) (fuel : Nat) (i : Nat) (acc : List V) (w : World), w.Clean →
      k = (min n.toNat xs.length) - i → i ≤ min n.toNat xs.length →
      (pullLoop fuel .collect (.limit n ((i : Int) + 1) (.src r xs i)) acc w).1 = .oof ∨
        pulls (pullLoop fuel .collect (.limit n ((i : Int) + 1) (.src r xs i)) acc w).2.2.2.trace r =
          pulls w.trace r + ((min n.toNat xs.length) - i) + (if xs.length < n.toNat then 1 else 0) := by
  intro k
  induction k with
  | zero =>
    intro fuel i acc w hw hk hi
    have hi' : i = min n.toNat xs.length := by omega
    cases fuel with
    | zero => left; simp [pullLoop]
    | succ fuel =>
      rcases emit_limit_src hw fuel r xs n ((i : Int) + 1) i hn with hoof | ⟨w', hc', hcase⟩
      · left
        simp only [pullLoop, hw.2, Bool.false_eq_true, if_false]
        split <;> simp_all
      · right
        rcases hcase with ⟨hgt, he, hp⟩ | ⟨hle, hlt, v, he, hp⟩ | ⟨hle, hge, he, hp⟩
        · have : ¬ xs.length < n.toNat := by omega
          simp [pullLoop, hw.2, he, hp, this]; omega
        · omega
        · have : xs.length < n.toNat := by omega
          simp [pullLoop, hw.2, he, hp, this]; omega
  | succ k ih =>
    intro fuel i acc w hw hk hi
    cases fuel with
    | zero => left; simp [pullLoop]
    | succ fuel =>
      rcases emit_limit_src hw fuel r xs n ((i : Int) + 1) i hn with hoof | ⟨w', hc', hcase⟩
      · left
        simp only [pullLoop, hw.2, Bool.false_eq_true, if_false]
        split <;> simp_all
      · rcases hcase with ⟨hgt, he, hp⟩ | ⟨hle, hlt, v, he, hp⟩ | ⟨hle, hge, he, hp⟩
        · omega
        · have h1 := ih fuel (i+1) (v :: acc) w' hc' (by omega) (by omega)
          have hcast : ((i : Int) + 1 + 1) = (((i+1 : Nat) : Int) + 1) := by omega
          simp only [pullLoop, hw.2, he, Bool.false_eq_true, if_false, hcast]
          rcases h1 with h1 | h1
          · left; exact h1
          · right; rw [h1, hp]; omega
        · omega

/-- **C05 (Limit is exact)**: materialising `src.Limit(n)` in a fault-free world pulls the source exactly
`min n len` times, plus once more (the EOF pull) iff the source is shorter than `n`; `Limit(n ≤ 0)` opens
and pulls nothing. The count does not depend on how long the source is beyond `n`. -/
theorem C05_limit_exact (r : Nat) (xs : List Int) (idx : Nat) (n : Int) (fuel : Nat) (w : World) (hw : w.Clean) :
    (consume fuel .collect (.limit n 1 (.src r xs idx)) w).1 = .oof ∨
      pulls (consume fuel .collect (.limit n 1 (.src r xs idx)) w).2.2.trace r =
        pulls w.trace r +
          (if n ≤ 0 then 0 else min n.toNat xs.length + (if xs.length < n.toNat then 1 else 0)) := by
  by_cases hn : n ≤ 0
  · -- Empty(): nothing opened, nothing pulled
    cases fuel with
    | zero => left; simp [consume, openP]
    | succ fuel =>
      cases fuel with
      | zero => left; simp [consume, openP, hn, pullLoop, hw.2, emitP]
      | succ fuel => right; simp [consume, openP, hn, pullLoop, hw.2, emitP, closeP]
  · have hn' : 0 < n := Int.not_le.mp hn
    cases fuel with
    | zero => left; simp [consume, openP]
    | succ fuel =>
      cases fuel with
      | zero => left; simp [consume, openP, hn]
      | succ fuel =>
        -- the probe opens (no fault), then the pull loop, then close
        have hopen : openRes r w = (.val (), { w with
            calls := w.calls + 1, trace := w.trace ++ [Event.call w.calls] ++ [Event.openOk r],
            isOpen := upd w.isOpen r true, bad := w.bad || w.isOpen r }) := by
          simp [openRes, call_clean hw]
        have hw1 : World.Clean { w with
            calls := w.calls + 1, trace := w.trace ++ [Event.call w.calls] ++ [Event.openOk r],
            isOpen := upd w.isOpen r true, bad := w.bad || w.isOpen r } := ⟨hw.1, hw.2⟩
        have hloop := pullLoop_limit_src r xs n hn' (min n.toNat xs.length) (fuel+2) 0 [] _ hw1 (by omega) (by omega)
        simp only [consume, openP, hn, if_false, hopen]
        simp only [Int.natCast_zero, Int.zero_add] at hloop
        rcases hloop with hl | hl
        · left
          split <;> simp_all
        · right
          have hp0 : pulls (w.trace ++ [Event.call w.calls] ++ [Event.openOk r]) r = pulls w.trace r := by
            simp [pulls, List.count_append]
          rw [hp0] at hl
          split <;> rename_i heq <;> rw [heq] at hl <;>
            simp only [closeP_pulls, hn, if_false] at hl ⊢ <;> first | omega | simp_all

/-- non-vacuity: a 40-element source under Limit(3) is pulled exactly 3 times (and FindFirst = Limit(1) once) -/
example : pulls (consume 50 .collect (.limit 3 1 (.src 0 (List.range 40 |>.map Int.ofNat) 0)) {}).2.2.trace 0 = 3 := by
  decide +kernel
example : pulls (consume 50 .collect (.limit 1 1 (.src 0 (List.range 40 |>.map Int.ofNat) 0)) {}).2.2.trace 0 = 1 := by
  decide +kernel
example : pulls (consume 50 .collect (.limit 5 1 (.src 0 [7, 8] 0)) {}).2.2.trace 0 = 3 := by decide +kernel

/-- **C05 (general bound)** — full statement, kept visible: for every pipeline with a defined list-level
meaning, in its initial state and a fault-free world, every probe source is pulled at most `Spec.demand`
times (needed prefix + the operators' fixed look-ahead, computed from the list-level meaning only).
Status: checked on the real code on every run (Drive/C05.lean evaluates exactly this predicate on the
observed pull counts); proved for the model for `Limit` over a source (`C05_limit_exact`, which is exact,
not only a bound); the proof for all operator trees is open (`_partial`). -/
def C05_pull_bound_statement : Prop :=
  ∀ (fuel : Nat) (c : Consumer) (p : Pipe) (w : World) (l : List V) (f : Nat → Nat) (r : Nat),
    Ready p → w.Clean → Spec.eval p = some l → Spec.demand p (Spec.terminalCalls l) = some f →
    (consume fuel c p w).1 = .oof ∨ pulls (consume fuel c p w).2.2.trace r ≤ pulls w.trace r + f r

/-- the instance of the general bound that is proved: `Limit(n)` over a probe source -/
theorem C05_pull_bound_partial (r : Nat) (xs : List Int) (idx : Nat) (n : Int) (fuel : Nat) (w : World)
    (hw : w.Clean) :
    (consume fuel .collect (.limit n 1 (.src r xs idx)) w).1 = .oof ∨
      pulls (consume fuel .collect (.limit n 1 (.src r xs idx)) w).2.2.trace r ≤
        pulls w.trace r + (if n ≤ 0 then 0 else n.toNat) := by
  rcases C05_limit_exact r xs idx n fuel w hw with h | h
  · exact Or.inl h
  · right; rw [h]; split <;> (try split) <;> omega

end ShpanVerif.Props.C05
