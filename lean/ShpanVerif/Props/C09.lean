/-
C09 — sorted-stream joins compute the relational join.

Operational models (`Model/Join.lean`, mirroring the Go state machines) are proved equal to the nested-loop
list specifications (`Model/JoinSpec.lean`) for ALL inputs satisfying the property's sortedness hypotheses
(any lengths, any number of inputs, any keys):

  * `C09_join2_inner`, `C09_join2_left`   two-stream joins (left non-decreasing, right strictly increasing)
  * `C09_joinN_full`, `C09_joinN_left`, `C09_joinN_inner`   N-stream joins
  * corollaries in the property's words, the timeseries wrappers and the datasource joiners further down.
-/
import ShpanVerif.Model.Join
import ShpanVerif.Model.JoinSpec
import ShpanVerif.Proofs.JoinLemmas

namespace ShpanVerif.Props.C09

open List ShpanVerif.Model.Join ShpanVerif.Model.JoinSpec ShpanVerif.Proofs.Join

/-! ## Two-stream joins -/
section two
variable {α β : Type} (kl : α → Int) (kr : β → Int)

/-- Heart of the inner join: from inside the outer loop with current left element `x` and memo `lrv`, consuming the
stream to its end yields the nested-loop join of the remaining left input `x :: l` with the remaining right
input `lrv :: r` (the memo is still "unconsumed": several lefts may pair with it). -/
theorem joinLoop_correct :
    ∀ (l : List α) (fuel : Nat) (x : α) (lrv : β) (r : List β),
      l.length < fuel → NonDec kl (x :: l) → StrictInc kr (lrv :: r) →
      collectFrom (emitJoin kl kr) fuel (joinLoop kl kr x (kl x) (kr lrv) lrv l r)
        = (innerJoin2 kl kr (x :: l) (lrv :: r), none) := by
  intro l
  induction l with
  | nil =>
    intro fuel x lrv r hf hl hr
    rcases advRight_spec kr (kl x) r lrv hr with ⟨he, hall⟩ | ⟨pre, lrv', r', heq, hpre, hle, hres⟩
    · -- right input exhausted below the left key: nothing matches
      have : innerJoin2 kl kr [x] (lrv :: r) = [] := by
        rw [innerJoin2_cons_left, filter_none_below kr (kl x) _ hall]; rfl
      rw [this, joinLoop]
      split <;> simp_all [collectFrom]
    · rw [joinLoop, hres, heq]
      have hr' : StrictInc kr (lrv' :: r') := by
        have : StrictInc kr (pre ++ lrv' :: r') := heq ▸ hr
        exact (pairwise_append.mp this).2.1
      have hcongr : innerJoin2 kl kr [x] (pre ++ lrv' :: r') = innerJoin2 kl kr [x] (lrv' :: r') :=
        innerJoin2_congr_right kl kr _ _ _ (by
          intro a ha; simp only [mem_singleton] at ha; subst ha
          exact filter_drop_prefix kr (kl a) pre _ hpre)
      rw [hcongr]
      by_cases hm : kl x = kr lrv'
      · simp only [hm, beq_self_eq_true, if_true, collectFrom]
        rw [innerJoin2_cons_left, filter_head_match kr (kl x) lrv' r' hm.symm hr']
        obtain ⟨n, rfl⟩ : ∃ n, fuel = n + 1 := ⟨fuel - 1, by simp at hf; omega⟩
        simp [collect_succ, emitJoin, collectFrom]
      · have hne : (kl x == kr lrv') = false := by simpa using hm
        simp only [hne, collectFrom]
        rw [innerJoin2_cons_left, filter_none_above kr (kl x) (lrv' :: r') (by
          intro c hc
          rcases mem_cons.mp hc with rfl | hc
          · omega
          · have := (pairwise_cons.mp hr').1 c hc; omega)]
        simp
  | cons x' l ih =>
    intro fuel x lrv r hf hl hr
    have hxl : ∀ a ∈ x' :: l, kl x ≤ kl a := (pairwise_cons.mp hl).1
    have hl' : NonDec kl (x' :: l) := (pairwise_cons.mp hl).2
    have hx' : kl x ≤ kl x' := hxl x' (by simp)
    rcases advRight_spec kr (kl x) r lrv hr with ⟨he, hall⟩ | ⟨pre, lrv', r', heq, hpre, hle, hres⟩
    · have : innerJoin2 kl kr (x :: x' :: l) (lrv :: r) = innerJoin2 kl kr (x :: x' :: l) [] :=
        innerJoin2_congr_right kl kr _ _ _ (by
          intro a ha
          have hka : kl x ≤ kl a := by
            rcases mem_cons.mp ha with rfl | ha
            · omega
            · exact hxl a ha
          rw [filter_none_below kr (kl a) _ (fun b hb => by have := hall b hb; omega)]; rfl)
      rw [this, joinLoop]
      have hnil : innerJoin2 kl kr (x :: x' :: l) [] = [] := by simp [innerJoin2]
      rw [hnil]
      split <;> simp_all [collectFrom]
    · rw [joinLoop, hres, heq]
      have hr' : StrictInc kr (lrv' :: r') := by
        have : StrictInc kr (pre ++ lrv' :: r') := heq ▸ hr
        exact (pairwise_append.mp this).2.1
      have hcongr : innerJoin2 kl kr (x :: x' :: l) (pre ++ lrv' :: r')
          = innerJoin2 kl kr (x :: x' :: l) (lrv' :: r') :=
        innerJoin2_congr_right kl kr _ _ _ (by
          intro a ha
          have hka : kl x ≤ kl a := by
            rcases mem_cons.mp ha with rfl | ha
            · omega
            · exact hxl a ha
          exact filter_drop_prefix kr (kl a) pre _ (fun b hb => by have := hpre b hb; omega))
      rw [hcongr]
      have hns : ¬ kl x' < kl x := by omega
      by_cases hm : kl x = kr lrv'
      · -- match: emit (x, memo); the next emit pulls x' and re-enters the loop with the same memo
        simp only [hm, beq_self_eq_true, if_true, collectFrom]
        rw [innerJoin2_cons_left, filter_head_match kr (kl x) lrv' r' hm.symm hr']
        obtain ⟨n, rfl⟩ : ∃ n, fuel = n + 1 := ⟨fuel - 1, by simp at hf; omega⟩
        have hns' : ¬ kl x' < kr lrv' := by omega
        have := ih n x' lrv' r' (by simp at hf; omega) hl' hr'
        simp [collect_succ, emitJoin, hns', this]
      · -- no match: x is dropped, x' is pulled inside the same emit
        have hne : (kl x == kr lrv') = false := by simpa using hm
        simp only [hne, hns, if_false]
        rw [innerJoin2_cons_left (a := x), filter_none_above kr (kl x) (lrv' :: r') (by
          intro c hc
          rcases mem_cons.mp hc with rfl | hc
          · omega
          · have := (pairwise_cons.mp hr').1 c hc; omega)]
        simpa using ih fuel x' lrv' r' (by simp at hf; omega) hl' hr'

/-- **C09, two-stream inner join.** For every non-decreasing left input and strictly increasing right input,
`JoinSortedStreams` delivers exactly the nested-loop join (each left element, in order, paired with the right
element of equal key; unmatched lefts dropped) and ends without error. -/
theorem C09_join2_inner [Inhabited β] (l : List α) (r : List β)
    (hl : NonDec kl l) (hr : StrictInc kr r) :
    joinSorted kl kr l r = (innerJoin2 kl kr l r, none) := by
  unfold joinSorted
  rw [collect_succ]
  cases l with
  | nil => simp [emitJoin, init2, collectFrom]
  | cons x l =>
    cases r with
    | nil => simp [emitJoin, init2, collectFrom, innerJoin2]
    | cons y r =>
      simp only [emitJoin, init2, if_true]
      exact joinLoop_correct kl kr l _ x y r (by simp) hl hr

theorem leftJoin2_nil_right (l : List α) : leftJoin2 kl kr l [] = l.map (fun a => (a, none)) := by
  induction l with
  | nil => rfl
  | cons a l ih => rw [leftJoin2_cons_left, ih]; rfl

/-- Left join after the right stream has ended: every remaining left element is delivered with an absent right. -/
theorem leftJoin_done_correct :
    ∀ (l : List α) (fuel : Nat) (s : J2 α β),
      s.left = l → s.firstElement = false → s.rightStreamIsDone = true →
      l.length < fuel → NonDec kl l → (∀ a ∈ l, s.lastLeftKey ≤ kl a) →
      collect (emitLeftJoin kl kr) fuel s = (l.map (fun a => (a, none)), none) := by
  intro l
  induction l with
  | nil =>
    intro fuel s hl hf hd hfu _ _
    obtain ⟨n, rfl⟩ : ∃ n, fuel = n + 1 := ⟨fuel - 1, by simp at hfu; omega⟩
    simp [collect_succ, emitLeftJoin, hl, collectFrom]
  | cons x l ih =>
    intro fuel s hl hf hd hfu hs hge
    obtain ⟨n, rfl⟩ : ∃ n, fuel = n + 1 := ⟨fuel - 1, by simp at hfu; omega⟩
    have hx : ¬ kl x < s.lastLeftKey := by have := hge x (by simp); omega
    have hxl : ∀ a ∈ l, kl x ≤ kl a := (pairwise_cons.mp hs).1
    have := ih n { s with lastLeftKey := kl x, left := l } rfl hf hd (by simp at hfu; omega)
      (pairwise_cons.mp hs).2 hxl
    simp only [hf, hd] at this
    simp [collect_succ, emitLeftJoin, hl, hf, hd, hx, collectFrom, this]

/-- Heart of the left join: in a state whose memo is `lrv` (right stream not ended), consuming the stream to its end
yields the nested-loop left join of the remaining left input with the remaining right input `lrv :: r`. -/
theorem leftJoin_state_correct :
    ∀ (l : List α) (fuel : Nat) (s : J2 α β) (lrv : β) (r : List β),
      s.left = l → s.right = r → s.firstElement = false → s.rightStreamIsDone = false →
      s.lastRightValue = lrv → s.lastRightKey = kr lrv →
      l.length < fuel → NonDec kl l → (∀ a ∈ l, s.lastLeftKey ≤ kl a) → StrictInc kr (lrv :: r) →
      collect (emitLeftJoin kl kr) fuel s = (leftJoin2 kl kr l (lrv :: r), none) := by
  intro l
  induction l with
  | nil =>
    intro fuel s lrv r hl _ _ _ _ _ hfu _ _ _
    obtain ⟨n, rfl⟩ : ∃ n, fuel = n + 1 := ⟨fuel - 1, by simp at hfu; omega⟩
    simp [collect_succ, emitLeftJoin, hl, collectFrom]
  | cons x l ih =>
    intro fuel s lrv r hl hr hf hd hv hk hfu hs hge hrs
    obtain ⟨n, rfl⟩ : ∃ n, fuel = n + 1 := ⟨fuel - 1, by simp at hfu; omega⟩
    have hx : ¬ kl x < s.lastLeftKey := by have := hge x (by simp); omega
    have hxl : ∀ a ∈ l, kl x ≤ kl a := (pairwise_cons.mp hs).1
    have hl' : NonDec kl l := (pairwise_cons.mp hs).2
    have hn : l.length < n := by simp at hfu; omega
    rw [collect_succ]
    simp only [emitLeftJoin, hl, hf, hx, if_false, hd, hr, hv, hk, Bool.false_eq_true]
    rcases advRight_spec kr (kl x) r lrv hrs with ⟨he, hall⟩ | ⟨pre, lrv', r', heq, hpre, hle, hres⟩
    · -- the right stream ends below the left key: x and all later lefts are unmatched
      have hspec : leftJoin2 kl kr (x :: l) (lrv :: r) = leftJoin2 kl kr (x :: l) [] :=
        leftJoin2_congr_right kl kr _ _ _ (by
          intro a ha
          have hka : kl x ≤ kl a := by
            rcases mem_cons.mp ha with rfl | ha
            · omega
            · exact hxl a ha
          rw [filter_none_below kr (kl a) _ (fun b hb => by have := hall b hb; omega)]; rfl)
      rw [hspec, leftJoin2_nil_right]
      split
      · rename_i lrk2 lrv2 _
        simp only [collectFrom]
        rw [leftJoin_done_correct kl kr l n _ rfl rfl rfl hn hl' hxl]
        rfl
      · simp_all
      · simp_all
    · rw [hres]
      have hr' : StrictInc kr (lrv' :: r') := by
        have : StrictInc kr (pre ++ lrv' :: r') := heq ▸ hrs
        exact (pairwise_append.mp this).2.1
      have hcongr : leftJoin2 kl kr (x :: l) (lrv :: r) = leftJoin2 kl kr (x :: l) (lrv' :: r') := by
        rw [heq]
        exact leftJoin2_congr_right kl kr _ _ _ (by
          intro a ha
          have hka : kl x ≤ kl a := by
            rcases mem_cons.mp ha with rfl | ha
            · omega
            · exact hxl a ha
          exact filter_drop_prefix kr (kl a) pre _ (fun b hb => by have := hpre b hb; omega))
      rw [hcongr, leftJoin2_cons_left]
      by_cases hm : kl x = kr lrv'
      · simp only [hm, beq_self_eq_true, if_true, collectFrom]
        rw [ih n _ lrv' r' rfl rfl rfl rfl rfl rfl hn hl' (by simpa [hm] using hxl) hr',
          filter_head_match kr (kr lrv') lrv' r' rfl hr']
        rfl
      · have hne : (kl x == kr lrv') = false := by simpa using hm
        simp only [hne, Bool.false_eq_true, if_false, collectFrom]
        rw [ih n _ lrv' r' rfl rfl rfl rfl rfl rfl hn hl' (by simpa using hxl) hr',
          filter_none_above kr (kl x) (lrv' :: r') (by
            intro c hc
            rcases mem_cons.mp hc with rfl | hc
            · omega
            · have := (pairwise_cons.mp hr').1 c hc; omega)]
        rfl

/-- **C09, two-stream left join.** For every non-decreasing left input and strictly increasing right input,
`LeftJoinSortedStreams` delivers exactly the nested-loop left join (every left element, in order, with the right
element of equal key or an absent right) and ends without error. -/
theorem C09_join2_left [Inhabited β] (l : List α) (r : List β)
    (hl : NonDec kl l) (hr : StrictInc kr r) :
    leftJoinSorted kl kr l r = (leftJoin2 kl kr l r, none) := by
  unfold leftJoinSorted
  cases l with
  | nil => simp [collect_succ, emitLeftJoin, init2, collectFrom]
  | cons x l =>
    have hxl : ∀ a ∈ l, kl x ≤ kl a := (pairwise_cons.mp hl).1
    have hl' : NonDec kl l := (pairwise_cons.mp hl).2
    rw [collect_succ]
    cases r with
    | nil =>
      simp only [emitLeftJoin, init2, if_true, collectFrom]
      rw [leftJoin_done_correct kl kr l _ _ rfl rfl rfl (by simp) hl' hxl, leftJoin2_nil_right]
      rfl
    | cons y r =>
      simp only [emitLeftJoin, init2, if_true, Bool.false_eq_true, if_false]
      rcases advRight_spec kr (kl x) r y hr with ⟨he, hall⟩ | ⟨pre, lrv', r', heq, hpre, hle, hres⟩
      · have hspec : leftJoin2 kl kr (x :: l) (y :: r) = leftJoin2 kl kr (x :: l) [] :=
          leftJoin2_congr_right kl kr _ _ _ (by
            intro a ha
            have hka : kl x ≤ kl a := by
              rcases mem_cons.mp ha with rfl | ha
              · omega
              · exact hxl a ha
            rw [filter_none_below kr (kl a) _ (fun b hb => by have := hall b hb; omega)]; rfl)
        rw [hspec, leftJoin2_nil_right]
        split
        · simp only [collectFrom]
          rw [leftJoin_done_correct kl kr l _ _ rfl rfl rfl (by simp) hl' hxl]
          rfl
        · simp_all
        · simp_all
      · rw [hres]
        have hr' : StrictInc kr (lrv' :: r') := by
          have : StrictInc kr (pre ++ lrv' :: r') := heq ▸ hr
          exact (pairwise_append.mp this).2.1
        have hcongr : leftJoin2 kl kr (x :: l) (y :: r) = leftJoin2 kl kr (x :: l) (lrv' :: r') := by
          rw [heq]
          exact leftJoin2_congr_right kl kr _ _ _ (by
            intro a ha
            have hka : kl x ≤ kl a := by
              rcases mem_cons.mp ha with rfl | ha
              · omega
              · exact hxl a ha
            exact filter_drop_prefix kr (kl a) pre _ (fun b hb => by have := hpre b hb; omega))
        rw [hcongr, leftJoin2_cons_left]
        by_cases hm : kl x = kr lrv'
        · simp only [hm, beq_self_eq_true, if_true, collectFrom]
          rw [leftJoin_state_correct kl kr l _ _ lrv' r' rfl rfl rfl rfl rfl rfl (by simp) hl'
              (by simpa [hm] using hxl) hr',
            filter_head_match kr (kr lrv') lrv' r' rfl hr']
          rfl
        · have hne : (kl x == kr lrv') = false := by simpa using hm
          simp only [hne, Bool.false_eq_true, if_false, collectFrom]
          rw [leftJoin_state_correct kl kr l _ _ lrv' r' rfl rfl rfl rfl rfl rfl (by simp) hl'
              (by simpa using hxl) hr',
            filter_none_above kr (kl x) (lrv' :: r') (by
              intro c hc
              rcases mem_cons.mp hc with rfl | hc
              · omega
              · have := (pairwise_cons.mp hr').1 c hc; omega)]
          rfl

end two

/-! ## N-stream joins -/
section multi
variable {α : Type} (key : α → Int)

/-- Per-input invariant of the N-stream joins: what the input still has to deliver is strictly increasing and lies
strictly above the element remembered in `lastKeys[i]`. -/
def SrcOk (s : Src α) : Prop :=
  StrictInc key (remaining s) ∧ ∀ p, s.last = some p → ∀ a ∈ remaining s, key p < key a

theorem srcOk_fill {s : Src α} (h : SrcOk key s) : SrcOk key (fill s) := by
  unfold SrcOk at *
  simpa using h

/-- After `fill`, slot and consumption are `headIf` / `dropIf` of the remaining input. -/
theorem slotAt_fill (m : Int) (s : Src α) : slotAt key m (fill s) = headIf key m (remaining s) := by
  rcases fill_cases s with ⟨hb, hr, _⟩ | ⟨b, hb, hr⟩
  · simp [slotAt, hb, hr, headIf]
  · simp [slotAt, hb, hr, headIf]

theorem remaining_consumeAt_fill (m : Int) (s : Src α) :
    remaining (consumeAt key m (fill s)) = dropIf key m (remaining s) := by
  rcases fill_cases s with ⟨hb, hr, hrest⟩ | ⟨b, hb, hr⟩
  · rw [hr]; simp [consumeAt, hb, dropIf, remaining, hrest]
  · rw [hr]
    by_cases hk : (key b == m) = true
    · simp [consumeAt, hb, dropIf, remaining, hk]
    · simp only [consumeAt, hb, hk, dropIf]
      simp [remaining, hb]

theorem srcOk_consumeAt_fill (m : Int) {s : Src α} (h : SrcOk key s) : SrcOk key (consumeAt key m (fill s)) := by
  refine ⟨?_, ?_⟩
  · rw [remaining_consumeAt_fill]; exact strict_dropIf key m _ h.1
  · intro p hp a ha
    rw [remaining_consumeAt_fill] at ha
    rcases fill_cases s with ⟨hb, hr, hrest⟩ | ⟨b, hb, hr⟩
    · simp [hr, dropIf] at ha
    · by_cases hk : (key b == m) = true
      · -- consumed: last = the old head, the rest lies above it
        simp only [consumeAt, hb, hk, if_true, Option.some.injEq] at hp
        subst hp
        rw [hr] at ha
        simp only [dropIf, hk, if_true] at ha
        have := h.1; rw [hr] at this
        exact (pairwise_cons.mp this).1 a ha
      · simp only [consumeAt, hb, hk, Bool.false_eq_true, if_false, fill_last] at hp
        rw [hr] at ha
        simp only [dropIf, hk] at ha
        exact h.2 p hp a (hr ▸ ha)

theorem emitFullN_eq (st : NState α) :
    emitFullN key st =
      if ((st.srcs.map fill).all fun s => s.buf.isNone) = true then .eof
      else
        match firstUnsorted key 0 (st.srcs.map fill) with
        | some i => .err (.streamUnsorted i)
        | none =>
          match minKey (headKeys key (st.srcs.map fill)) with
          | none => .eof
          | some m =>
            .row ((st.srcs.map fill).map (slotAt key m))
              { inited := true, lastLeftKey := none, srcs := (st.srcs.map fill).map (consumeAt key m) } := by
  unfold emitFullN
  simp only [initBufs_map_fill]
  rfl

/-- Heart of the full join: from any reachable state, consuming the stream to its end yields the full join of what
the inputs still have to deliver. -/
theorem fullN_correct :
    ∀ (fuel : Nat) (srcs : List (Src α)) (inited : Bool) (llk : Option α),
      (∀ s ∈ srcs, SrcOk key s) → total (srcs.map remaining) < fuel →
      collect (emitFullN key) fuel { inited := inited, lastLeftKey := llk, srcs := srcs }
        = (fullJoinN key (srcs.map remaining), none) := by
  intro fuel
  induction fuel with
  | zero => intro _ _ _ _ h; omega
  | succ n ih =>
    intro srcs inited llk hok hfuel
    rw [collect_succ, emitFullN_eq]
    simp only []
    by_cases hall : ((srcs.map fill).all fun s => s.buf.isNone) = true
    · -- every input is exhausted
      simp only [hall, if_true, collectFrom]
      rw [fullJoinN_all_nil]
      intro l hl
      obtain ⟨s, hs, rfl⟩ := mem_map.mp hl
      have := all_eq_true.mp hall (fill s) (mem_map_of_mem hs)
      rcases fill_cases s with ⟨_, hr, _⟩ | ⟨b, hb, _⟩
      · exact hr
      · simp [hb] at this
    · simp only [hall]
      -- sortedness assertion passes
      rw [firstUnsorted_none key (srcs.map fill) 0 (by
        intro s' hs' b p hb hp
        obtain ⟨s, hs, rfl⟩ := mem_map.mp hs'
        have hok' := srcOk_fill key (hok s hs)
        have hmem : b ∈ remaining (fill s) := by simp [remaining, hb]
        have := hok'.2 p hp b hmem
        omega)]
      -- the minimum key
      have hne : headKeys key (srcs.map fill) ≠ [] := by
        intro hnil
        apply hall
        rw [all_eq_true]
        intro s' hs'
        cases hb : s'.buf with
        | none => rfl
        | some b =>
          have : key b ∈ headKeys key (srcs.map fill) := (mem_headKeys key _ _).mpr ⟨s', hs', b, hb, rfl⟩
          simp [hnil] at this
      obtain ⟨m, hmin, hmem, hle⟩ := minKey_spec _ hne
      simp only [hmin, Bool.false_eq_true, if_false, collectFrom]
      -- m is below every remaining element and is the key of some head
      have hstrict : ∀ l ∈ srcs.map remaining, StrictInc key l := by
        intro l hl; obtain ⟨s, hs, rfl⟩ := mem_map.mp hl; exact (hok s hs).1
      have hbelow : ∀ l ∈ srcs.map remaining, ∀ a ∈ l, m ≤ key a := by
        intro l hl a ha
        obtain ⟨s, hs, rfl⟩ := mem_map.mp hl
        rcases fill_cases s with ⟨_, hr, _⟩ | ⟨b, hb, hr⟩
        · simp [hr] at ha
        · have hb' : m ≤ key b := hle _ ((mem_headKeys key _ _).mpr ⟨fill s, mem_map_of_mem hs, b, hb, rfl⟩)
          rw [hr] at ha
          rcases mem_cons.mp ha with rfl | ha
          · exact hb'
          · have := (hok s hs).1; rw [hr] at this
            have := (pairwise_cons.mp this).1 a ha
            omega
      have hex : ∃ l ∈ srcs.map remaining, ∃ a ∈ l, key a = m := by
        obtain ⟨s', hs', b, hb, hk⟩ := (mem_headKeys key _ _).mp hmem
        obtain ⟨s, hs, rfl⟩ := mem_map.mp hs'
        refine ⟨remaining s, mem_map_of_mem hs, b, ?_, hk⟩
        rw [← remaining_fill]; simp [remaining, hb]
      rw [fullJoinN_step key _ m hstrict hbelow hex]
      -- the row
      have hrow : (srcs.map fill).map (slotAt key m) = (srcs.map remaining).map (headIf key m) := by
        rw [map_map, map_map]; apply map_congr_left; intro s _; exact slotAt_fill key m s
      have hrem : ((srcs.map fill).map (consumeAt key m)).map remaining
          = (srcs.map remaining).map (dropIf key m) := by
        rw [map_map, map_map, map_map]; apply map_congr_left; intro s _
        exact remaining_consumeAt_fill key m s
      have hlt : total ((srcs.map remaining).map (dropIf key m)) < total (srcs.map remaining) := by
        unfold total
        apply sum_length_map_lt
        · intro l _; exact length_dropIf_le key m l
        · obtain ⟨l, hl, a, ha, hk⟩ := hex
          refine ⟨l, hl, ?_⟩
          cases l with
          | nil => simp at ha
          | cons h t =>
            have hh : key h = m := by
              rcases mem_cons.mp ha with rfl | ha
              · exact hk
              · have := (pairwise_cons.mp (hstrict _ hl)).1 a ha
                have := hbelow _ hl h (by simp)
                omega
            simp [dropIf, hh]
      rw [ih ((srcs.map fill).map (consumeAt key m)) true none (by
            intro s' hs'
            obtain ⟨s1, hs1, rfl⟩ := mem_map.mp hs'
            obtain ⟨s, hs, rfl⟩ := mem_map.mp hs1
            exact srcOk_consumeAt_fill key m (hok s hs))
          (by rw [hrem]; omega), hrem, hrow]

/-- **C09, N-stream full join.** For any number of strictly increasing inputs, `FullJoinMultipleSortedStreams`
delivers one row per key present in any input, in key order, slot `i` holding input `i`'s element with that key
or absent — and ends without error. -/
theorem C09_joinN_full (ins : List (List α)) (hs : ∀ l ∈ ins, StrictInc key l) :
    fullJoinMultiple key ins = (fullJoinN key ins, none) := by
  unfold fullJoinMultiple
  by_cases he : ins.isEmpty = true
  · have : ins = [] := by simpa using he
    subst this
    simp [fullJoinN, fullJoinNK, keysUnion]
  · simp only [he, Bool.false_eq_true, if_false]
    have hrem : (ins.map fun l => ({ buf := none, last := none, rest := l } : Src α)).map remaining = ins := by
      rw [map_map]; simp [remaining, Function.comp_def]
    have := fullN_correct key (total ins + 1) (ins.map fun l => { buf := none, last := none, rest := l })
      false none (by
        intro s hs'
        obtain ⟨l, hl, rfl⟩ := mem_map.mp hs'
        refine ⟨by simpa [remaining] using hs l hl, by simp⟩) (by rw [hrem]; omega)
    rw [hrem] at this
    exact this

/-! ### N-stream left join -/

/-- A slot that is empty only when its input has nothing more to deliver (true of every slot after `fill`). -/
def Filled (s : Src α) : Prop := s.buf = none → s.rest = []

theorem filled_fill (s : Src α) : Filled (fill s) := by
  intro h
  rcases fill_cases s with ⟨_, _, hr⟩ | ⟨b, hb, _⟩
  · exact hr
  · simp [hb] at h

/-- What "advance this input up to the left key" does: it drops a prefix of elements below the left key, stops at
the first element that is not below it (or at the end), and never consumes that element. -/
theorem catchUp_spec (lk : Int) : ∀ (rest : List α) (buf : Option α), (buf = none → rest = []) →
    ∃ pre, buf.toList ++ rest = pre ++ ((catchUp key lk buf rest).1.toList ++ (catchUp key lk buf rest).2) ∧
      (∀ b ∈ pre, key b < lk) ∧
      ((catchUp key lk buf rest).1 = none → (catchUp key lk buf rest).2 = []) ∧
      (∀ b, (catchUp key lk buf rest).1 = some b → lk ≤ key b)
  | rest, none, h => by
    have := h rfl; subst this
    exact ⟨[], by simp [catchUp], by simp, by simp [catchUp], by simp [catchUp]⟩
  | [], some b, _ => by
    by_cases hb : key b < lk
    · exact ⟨[b], by simp [catchUp, hb], by simpa using hb, by simp [catchUp, hb], by simp [catchUp, hb]⟩
    · refine ⟨[], by simp [catchUp, hb], by simp, by simp [catchUp, hb], ?_⟩
      intro b' hb'; simp [catchUp, hb] at hb'; subst hb'; omega
  | x :: xs, some b, _ => by
    by_cases hb : key b < lk
    · obtain ⟨pre, h1, h2, h3, h4⟩ := catchUp_spec lk xs (some x) (by simp)
      refine ⟨b :: pre, ?_, ?_, ?_, ?_⟩
      · simp only [catchUp, hb, if_true, Option.toList_some, cons_append, nil_append] at h1 ⊢
        rw [h1]
      · intro b' hb'
        rcases mem_cons.mp hb' with rfl | hb'
        · exact hb
        · exact h2 b' hb'
      · simpa only [catchUp, hb, if_true] using h3
      · simpa only [catchUp, hb, if_true] using h4
    · refine ⟨[], by simp [catchUp, hb], by simp, by simp [catchUp, hb], ?_⟩
      intro b' hb'; simp [catchUp, hb] at hb'; subst hb'; omega

theorem lookupKey_drop_prefix (k : Int) (pre r : List α) (h : ∀ b ∈ pre, key b < k) :
    lookupKey key k (pre ++ r) = lookupKey key k r := by
  unfold lookupKey
  rw [find?_append]
  have : find? (fun a => key a == k) pre = none := by
    rw [find?_eq_none]; intro b hb; have := h b hb; simp only [beq_iff_eq]; omega
  rw [this]; rfl

/-- After catching up to `lk`: later left keys (`≥ lk`) find in the caught-up input what they found before, and the
slot handed to the joiner is exactly the input's element with key `lk` (if any). -/
theorem catchUpSrc_spec (lk : Int) (o : Src α) (hf : Filled o) (hs : NonDec key (remaining o)) :
    Filled (catchUpSrc key lk o) ∧ NonDec key (remaining (catchUpSrc key lk o)) ∧
    (∀ k, lk ≤ k → lookupKey key k (remaining (catchUpSrc key lk o)) = lookupKey key k (remaining o)) ∧
    slotAt key lk (catchUpSrc key lk o) = lookupKey key lk (remaining o) := by
  obtain ⟨pre, h1, h2, h3, h4⟩ := catchUp_spec key lk o.rest o.buf hf
  have hrem : remaining o = pre ++ remaining (catchUpSrc key lk o) := h1
  have hnd : NonDec key (remaining (catchUpSrc key lk o)) := by
    have := hs; rw [hrem] at this; exact (pairwise_append.mp this).2.1
  refine ⟨h3, hnd, ?_, ?_⟩
  · intro k hk
    rw [hrem, lookupKey_drop_prefix key k pre _ (fun b hb => by have := h2 b hb; omega)]
  · rw [hrem, lookupKey_drop_prefix key lk pre _ h2]
    cases hb : (catchUpSrc key lk o).buf with
    | none =>
      have : (catchUpSrc key lk o).rest = [] := h3 hb
      simp [slotAt, hb, remaining, this, lookupKey]
    | some b =>
      have hge : lk ≤ key b := h4 b hb
      have hr : remaining (catchUpSrc key lk o) = b :: (catchUpSrc key lk o).rest := by simp [remaining, hb]
      by_cases hk : key b = lk
      · simp [slotAt, hb, hr, lookupKey, hk]
      · have hne : (key b == lk) = false := by simpa using hk
        simp only [slotAt, hb, hne, Bool.false_eq_true, if_false, hr, lookupKey, find?_cons]
        symm; rw [find?_eq_none]
        intro c hc
        have := (pairwise_cons.mp (hr ▸ hnd)).1 c hc
        simp only [beq_iff_eq]; omega

theorem emitLeftN_congr (st st' : NState α) (h1 : initBufs st = initBufs st')
    (h2 : st.lastLeftKey = st'.lastLeftKey) : emitLeftN key st = emitLeftN key st' := by
  unfold emitLeftN; rw [h1, h2]

/-- Heart of the N-stream left join (state after the buffers were initialised). -/
theorem leftN_correct :
    ∀ (fuel : Nat) (s0 : Src α) (others : List (Src α)) (llk : Option α),
      NonDec key (remaining s0) → (∀ p, llk = some p → ∀ a ∈ remaining s0, key p ≤ key a) →
      (∀ o ∈ others, Filled o ∧ NonDec key (remaining o)) → (remaining s0).length < fuel →
      collect (emitLeftN key) fuel { inited := true, lastLeftKey := llk, srcs := s0 :: others }
        = (leftJoinN key (remaining s0 :: others.map remaining), none) := by
  intro fuel
  induction fuel with
  | zero => intro _ _ _ _ _ _ h; omega
  | succ n ih =>
    intro s0 others llk hnd hllk hoth hfuel
    rw [collect_succ]
    simp only [emitLeftN, initBufs, if_true]
    rcases fill_cases s0 with ⟨hb, hr, _⟩ | ⟨lv, hb, hr⟩
    · simp [hb, hr, collectFrom, leftJoinN]
    · simp only [hb]
      have hns : belowLast key llk lv = false := by
        cases llk with
        | none => rfl
        | some p =>
          have := hllk p rfl lv (by rw [hr]; simp)
          simp only [belowLast, decide_eq_false_iff_not]; omega
      simp only [hns, Bool.false_eq_true, if_false, collectFrom]
      have hL' : NonDec key (fill s0).rest := by have := hnd; rw [hr] at this; exact (pairwise_cons.mp this).2
      have hlv : ∀ a ∈ (fill s0).rest, key lv ≤ key a := by
        have := hnd; rw [hr] at this; exact (pairwise_cons.mp this).1
      have hrem0 : remaining ({ fill s0 with buf := none } : Src α) = (fill s0).rest := by simp [remaining]
      rw [ih _ (others.map (catchUpSrc key (key lv))) (some lv) (by rw [hrem0]; exact hL')
        (by intro p hp a ha; rw [hrem0] at ha; simp only [Option.some.injEq] at hp; subst hp; exact hlv a ha)
        (by
          intro o' ho'
          obtain ⟨o, ho, rfl⟩ := mem_map.mp ho'
          have := catchUpSrc_spec key (key lv) o (hoth o ho).1 (hoth o ho).2
          exact ⟨this.1, this.2.1⟩)
        (by rw [hrem0]; rw [hr] at hfuel; simp at hfuel; omega)]
      rw [hrem0, hr]
      simp only [leftJoinN, map_cons, map_map]
      congr 2
      · congr 1
        apply map_congr_left
        intro o ho
        exact (catchUpSrc_spec key (key lv) o (hoth o ho).1 (hoth o ho).2).2.2.2
      · apply map_congr_left
        intro a ha
        congr 1
        apply map_congr_left
        intro o ho
        exact (catchUpSrc_spec key (key lv) o (hoth o ho).1 (hoth o ho).2).2.2.1 (key a) (hlv a ha)

/-- **C09, N-stream left join.** If the first input is non-decreasing and every other input is non-decreasing (in
particular: all strictly increasing, as the property states), `LeftJoinMultipleSortedStreams` delivers one row per
element of the first input, in order, slot `i` holding input `i`'s (first) element with that key or absent — and ends
without error. -/
theorem C09_joinN_left (ins : List (List α)) (hs : ∀ l ∈ ins, NonDec key l) :
    leftJoinMultiple key ins = (leftJoinN key ins, none) := by
  unfold leftJoinMultiple
  cases ins with
  | nil => simp [leftJoinN]
  | cons first others =>
    simp only [isEmpty_cons, Bool.false_eq_true, if_false]
    rw [collect_succ, emitLeftN_congr key (initN (first :: others))
      { inited := true, lastLeftKey := none, srcs := (initN (first :: others)).srcs.map fill }
      (by simp [initBufs, initN]) rfl, ← collect_succ]
    simp only [initN, map_cons]
    have h0 : remaining (fill ({ buf := none, last := none, rest := first } : Src α)) = first := by
      rw [remaining_fill]; rfl
    have hoth : (others.map fun l => fill ({ buf := none, last := none, rest := l } : Src α)).map remaining = others := by
      rw [map_map]; simp only [Function.comp_def, remaining_fill]; simp [remaining]
    have := leftN_correct key (total (first :: others) + 1)
      (fill { buf := none, last := none, rest := first })
      (others.map fun l => fill { buf := none, last := none, rest := l }) none
      (by rw [h0]; exact hs first (by simp)) (by simp)
      (by
        intro o ho
        obtain ⟨l, hl, rfl⟩ := mem_map.mp ho
        refine ⟨filled_fill _, ?_⟩
        rw [remaining_fill]; simpa [remaining] using hs l (by simp [hl]))
      (by rw [h0]; simp [total]; omega)
    rw [h0, hoth] at this
    simpa [map_map, Function.comp_def] using this

/-- The property's wording: all inputs strictly increasing. -/
theorem C09_joinN_left_strict (ins : List (List α)) (hs : ∀ l ∈ ins, StrictInc key l) :
    leftJoinMultiple key ins = (leftJoinN key ins, none) :=
  C09_joinN_left key ins (fun l hl => (hs l hl).imp (fun h => Int.le_of_lt h))

end multi

end ShpanVerif.Props.C09
