/-
C09 — sorted-stream joins compute the relational join.

Operational models (`Model/Join.lean`, mirroring the Go state machines) are proved equal to the nested-loop
list specifications (`Model/JoinSpec.lean`) for ALL inputs satisfying the property's sortedness hypotheses
(any lengths, any number of inputs, any keys):

  * `C09_join2_inner`, `C09_join2_left`   two-stream joins (left non-decreasing, right strictly increasing)
  * `C09_joinN_full`, `C09_joinN_left`, `C09_joinN_inner`   N-stream joins
  * corollaries in the property's words, the timeseries wrappers and the datasource joiners further down.
-/
import ShpanVerif.Model.Join
import ShpanVerif.Model.JoinSpec
import ShpanVerif.Proofs.JoinLemmas

namespace ShpanVerif.Props.C09

open List ShpanVerif.Model.Join ShpanVerif.Model.JoinSpec ShpanVerif.Proofs.Join

/-! ## Two-stream joins -/
section two
variable {α β : Type} (kl : α → Int) (kr : β → Int)

/-- Heart of the inner join: from inside the outer loop with current left element `x` and memo `lrv`, consuming the
stream to its end yields the nested-loop join of the remaining left input `x :: l` with the remaining right
input `lrv :: r` (the memo is still "unconsumed": several lefts may pair with it). -/
theorem joinLoop_correct :
    ∀ (l : List α) (fuel : Nat) (x : α) (lrv : β) (r : List β),
      l.length < fuel → NonDec kl (x :: l) → StrictInc kr (lrv :: r) →
      collectFrom (emitJoin kl kr) fuel (joinLoop kl kr x (kl x) (kr lrv) lrv l r)
        = (innerJoin2 kl kr (x :: l) (lrv :: r), none) := by
  intro l
  induction l with
  | nil =>
    intro fuel x lrv r hf hl hr
    rcases advRight_spec kr (kl x) r lrv hr with ⟨he, hall⟩ | ⟨pre, lrv', r', heq, hpre, hle, hres⟩
    · -- right input exhausted below the left key: nothing matches
      have : innerJoin2 kl kr [x] (lrv :: r) = [] := by
        rw [innerJoin2_cons_left, filter_none_below kr (kl x) _ hall]; rfl
      rw [this, joinLoop]
      split <;> simp_all [collectFrom]
    · rw [joinLoop, hres, heq]
      have hr' : StrictInc kr (lrv' :: r') := by
        have : StrictInc kr (pre ++ lrv' :: r') := heq ▸ hr
        exact (pairwise_append.mp this).2.1
      have hcongr : innerJoin2 kl kr [x] (pre ++ lrv' :: r') = innerJoin2 kl kr [x] (lrv' :: r') :=
        innerJoin2_congr_right kl kr _ _ _ (by
          intro a ha; simp only [mem_singleton] at ha; subst ha
          exact filter_drop_prefix kr (kl a) pre _ hpre)
      rw [hcongr]
      by_cases hm : kl x = kr lrv'
      · simp only [hm, beq_self_eq_true, if_true, collectFrom]
        rw [innerJoin2_cons_left, filter_head_match kr (kl x) lrv' r' hm.symm hr']
        obtain ⟨n, rfl⟩ : ∃ n, fuel = n + 1 := ⟨fuel - 1, by simp at hf; omega⟩
        simp [collect_succ, emitJoin, collectFrom]
      · have hne : (kl x == kr lrv') = false := by simpa using hm
        simp only [hne, collectFrom]
        rw [innerJoin2_cons_left, filter_none_above kr (kl x) (lrv' :: r') (by
          intro c hc
          rcases mem_cons.mp hc with rfl | hc
          · omega
          · have := (pairwise_cons.mp hr').1 c hc; omega)]
        simp
  | cons x' l ih =>
    intro fuel x lrv r hf hl hr
    have hxl : ∀ a ∈ x' :: l, kl x ≤ kl a := (pairwise_cons.mp hl).1
    have hl' : NonDec kl (x' :: l) := (pairwise_cons.mp hl).2
    have hx' : kl x ≤ kl x' := hxl x' (by simp)
    rcases advRight_spec kr (kl x) r lrv hr with ⟨he, hall⟩ | ⟨pre, lrv', r', heq, hpre, hle, hres⟩
    · have : innerJoin2 kl kr (x :: x' :: l) (lrv :: r) = innerJoin2 kl kr (x :: x' :: l) [] :=
        innerJoin2_congr_right kl kr _ _ _ (by
          intro a ha
          have hka : kl x ≤ kl a := by
            rcases mem_cons.mp ha with rfl | ha
            · omega
            · exact hxl a ha
          rw [filter_none_below kr (kl a) _ (fun b hb => by have := hall b hb; omega)]; rfl)
      rw [this, joinLoop]
      have hnil : innerJoin2 kl kr (x :: x' :: l) [] = [] := by simp [innerJoin2]
      rw [hnil]
      split <;> simp_all [collectFrom]
    · rw [joinLoop, hres, heq]
      have hr' : StrictInc kr (lrv' :: r') := by
        have : StrictInc kr (pre ++ lrv' :: r') := heq ▸ hr
        exact (pairwise_append.mp this).2.1
      have hcongr : innerJoin2 kl kr (x :: x' :: l) (pre ++ lrv' :: r')
          = innerJoin2 kl kr (x :: x' :: l) (lrv' :: r') :=
        innerJoin2_congr_right kl kr _ _ _ (by
          intro a ha
          have hka : kl x ≤ kl a := by
            rcases mem_cons.mp ha with rfl | ha
            · omega
            · exact hxl a ha
          exact filter_drop_prefix kr (kl a) pre _ (fun b hb => by have := hpre b hb; omega))
      rw [hcongr]
      have hns : ¬ kl x' < kl x := by omega
      by_cases hm : kl x = kr lrv'
      · -- match: emit (x, memo); the next emit pulls x' and re-enters the loop with the same memo
        simp only [hm, beq_self_eq_true, if_true, collectFrom]
        rw [innerJoin2_cons_left, filter_head_match kr (kl x) lrv' r' hm.symm hr']
        obtain ⟨n, rfl⟩ : ∃ n, fuel = n + 1 := ⟨fuel - 1, by simp at hf; omega⟩
        have hns' : ¬ kl x' < kr lrv' := by omega
        have := ih n x' lrv' r' (by simp at hf; omega) hl' hr'
        simp [collect_succ, emitJoin, hns', this]
      · -- no match: x is dropped, x' is pulled inside the same emit
        have hne : (kl x == kr lrv') = false := by simpa using hm
        simp only [hne, hns, if_false]
        rw [innerJoin2_cons_left (a := x), filter_none_above kr (kl x) (lrv' :: r') (by
          intro c hc
          rcases mem_cons.mp hc with rfl | hc
          · omega
          · have := (pairwise_cons.mp hr').1 c hc; omega)]
        simpa using ih fuel x' lrv' r' (by simp at hf; omega) hl' hr'

/-- **C09, two-stream inner join.** For every non-decreasing left input and strictly increasing right input,
`JoinSortedStreams` delivers exactly the nested-loop join (each left element, in order, paired with the right
element of equal key; unmatched lefts dropped) and ends without error. -/
theorem C09_join2_inner [Inhabited β] (l : List α) (r : List β)
    (hl : NonDec kl l) (hr : StrictInc kr r) :
    joinSorted kl kr l r = (innerJoin2 kl kr l r, none) := by
  unfold joinSorted
  rw [collect_succ]
  cases l with
  | nil => simp [emitJoin, init2, collectFrom]
  | cons x l =>
    cases r with
    | nil => simp [emitJoin, init2, collectFrom, innerJoin2]
    | cons y r =>
      simp only [emitJoin, init2, if_true]
      exact joinLoop_correct kl kr l _ x y r (by simp) hl hr

theorem leftJoin2_nil_right (l : List α) : leftJoin2 kl kr l [] = l.map (fun a => (a, none)) := by
  induction l with
  | nil => rfl
  | cons a l ih => rw [leftJoin2_cons_left, ih]; rfl

/-- Left join after the right stream has ended: every remaining left element is delivered with an absent right. -/
theorem leftJoin_done_correct :
    ∀ (l : List α) (fuel : Nat) (s : J2 α β),
      s.left = l → s.firstElement = false → s.rightStreamIsDone = true →
      l.length < fuel → NonDec kl l → (∀ a ∈ l, s.lastLeftKey ≤ kl a) →
      collect (emitLeftJoin kl kr) fuel s = (l.map (fun a => (a, none)), none) := by
  intro l
  induction l with
  | nil =>
    intro fuel s hl hf hd hfu _ _
    obtain ⟨n, rfl⟩ : ∃ n, fuel = n + 1 := ⟨fuel - 1, by simp at hfu; omega⟩
    simp [collect_succ, emitLeftJoin, hl, collectFrom]
  | cons x l ih =>
    intro fuel s hl hf hd hfu hs hge
    obtain ⟨n, rfl⟩ : ∃ n, fuel = n + 1 := ⟨fuel - 1, by simp at hfu; omega⟩
    have hx : ¬ kl x < s.lastLeftKey := by have := hge x (by simp); omega
    have hxl : ∀ a ∈ l, kl x ≤ kl a := (pairwise_cons.mp hs).1
    have := ih n { s with lastLeftKey := kl x, left := l } rfl hf hd (by simp at hfu; omega)
      (pairwise_cons.mp hs).2 hxl
    simp only [hf, hd] at this
    simp [collect_succ, emitLeftJoin, hl, hf, hd, hx, collectFrom, this]

/-- Heart of the left join: in a state whose memo is `lrv` (right stream not ended), consuming the stream to its end
yields the nested-loop left join of the remaining left input with the remaining right input `lrv :: r`. -/
theorem leftJoin_state_correct :
    ∀ (l : List α) (fuel : Nat) (s : J2 α β) (lrv : β) (r : List β),
      s.left = l → s.right = r → s.firstElement = false → s.rightStreamIsDone = false →
      s.lastRightValue = lrv → s.lastRightKey = kr lrv →
      l.length < fuel → NonDec kl l → (∀ a ∈ l, s.lastLeftKey ≤ kl a) → StrictInc kr (lrv :: r) →
      collect (emitLeftJoin kl kr) fuel s = (leftJoin2 kl kr l (lrv :: r), none) := by
  intro l
  induction l with
  | nil =>
    intro fuel s lrv r hl _ _ _ _ _ hfu _ _ _
    obtain ⟨n, rfl⟩ : ∃ n, fuel = n + 1 := ⟨fuel - 1, by simp at hfu; omega⟩
    simp [collect_succ, emitLeftJoin, hl, collectFrom]
  | cons x l ih =>
    intro fuel s lrv r hl hr hf hd hv hk hfu hs hge hrs
    obtain ⟨n, rfl⟩ : ∃ n, fuel = n + 1 := ⟨fuel - 1, by simp at hfu; omega⟩
    have hx : ¬ kl x < s.lastLeftKey := by have := hge x (by simp); omega
    have hxl : ∀ a ∈ l, kl x ≤ kl a := (pairwise_cons.mp hs).1
    have hl' : NonDec kl l := (pairwise_cons.mp hs).2
    have hn : l.length < n := by simp at hfu; omega
    rw [collect_succ]
    simp only [emitLeftJoin, hl, hf, hx, if_false, hd, hr, hv, hk, Bool.false_eq_true]
    rcases advRight_spec kr (kl x) r lrv hrs with ⟨he, hall⟩ | ⟨pre, lrv', r', heq, hpre, hle, hres⟩
    · -- the right stream ends below the left key: x and all later lefts are unmatched
      have hspec : leftJoin2 kl kr (x :: l) (lrv :: r) = leftJoin2 kl kr (x :: l) [] :=
        leftJoin2_congr_right kl kr _ _ _ (by
          intro a ha
          have hka : kl x ≤ kl a := by
            rcases mem_cons.mp ha with rfl | ha
            · omega
            · exact hxl a ha
          rw [filter_none_below kr (kl a) _ (fun b hb => by have := hall b hb; omega)]; rfl)
      rw [hspec, leftJoin2_nil_right]
      split
      · rename_i lrk2 lrv2 _
        simp only [collectFrom]
        rw [leftJoin_done_correct kl kr l n _ rfl rfl rfl hn hl' hxl]
        rfl
      · simp_all
      · simp_all
    · rw [hres]
      have hr' : StrictInc kr (lrv' :: r') := by
        have : StrictInc kr (pre ++ lrv' :: r') := heq ▸ hrs
        exact (pairwise_append.mp this).2.1
      have hcongr : leftJoin2 kl kr (x :: l) (lrv :: r) = leftJoin2 kl kr (x :: l) (lrv' :: r') := by
        rw [heq]
        exact leftJoin2_congr_right kl kr _ _ _ (by
          intro a ha
          have hka : kl x ≤ kl a := by
            rcases mem_cons.mp ha with rfl | ha
            · omega
            · exact hxl a ha
          exact filter_drop_prefix kr (kl a) pre _ (fun b hb => by have := hpre b hb; omega))
      rw [hcongr, leftJoin2_cons_left]
      by_cases hm : kl x = kr lrv'
      · simp only [hm, beq_self_eq_true, if_true, collectFrom]
        rw [ih n _ lrv' r' rfl rfl rfl rfl rfl rfl hn hl' (by simpa [hm] using hxl) hr',
          filter_head_match kr (kr lrv') lrv' r' rfl hr']
        rfl
      · have hne : (kl x == kr lrv') = false := by simpa using hm
        simp only [hne, Bool.false_eq_true, if_false, collectFrom]
        rw [ih n _ lrv' r' rfl rfl rfl rfl rfl rfl hn hl' (by simpa using hxl) hr',
          filter_none_above kr (kl x) (lrv' :: r') (by
            intro c hc
            rcases mem_cons.mp hc with rfl | hc
            · omega
            · have := (pairwise_cons.mp hr').1 c hc; omega)]
        rfl

/-- **C09, two-stream left join.** For every non-decreasing left input and strictly increasing right input,
`LeftJoinSortedStreams` delivers exactly the nested-loop left join (every left element, in order, with the right
element of equal key or an absent right) and ends without error. -/
theorem C09_join2_left [Inhabited β] (l : List α) (r : List β)
    (hl : NonDec kl l) (hr : StrictInc kr r) :
    leftJoinSorted kl kr l r = (leftJoin2 kl kr l r, none) := by
  unfold leftJoinSorted
  cases l with
  | nil => simp [collect_succ, emitLeftJoin, init2, collectFrom]
  | cons x l =>
    have hxl : ∀ a ∈ l, kl x ≤ kl a := (pairwise_cons.mp hl).1
    have hl' : NonDec kl l := (pairwise_cons.mp hl).2
    rw [collect_succ]
    cases r with
    | nil =>
      simp only [emitLeftJoin, init2, if_true, collectFrom]
      rw [leftJoin_done_correct kl kr l _ _ rfl rfl rfl (by simp) hl' hxl, leftJoin2_nil_right]
      rfl
    | cons y r =>
      simp only [emitLeftJoin, init2, if_true, Bool.false_eq_true, if_false]
      rcases advRight_spec kr (kl x) r y hr with ⟨he, hall⟩ | ⟨pre, lrv', r', heq, hpre, hle, hres⟩
      · have hspec : leftJoin2 kl kr (x :: l) (y :: r) = leftJoin2 kl kr (x :: l) [] :=
          leftJoin2_congr_right kl kr _ _ _ (by
            intro a ha
            have hka : kl x ≤ kl a := by
              rcases mem_cons.mp ha with rfl | ha
              · omega
              · exact hxl a ha
            rw [filter_none_below kr (kl a) _ (fun b hb => by have := hall b hb; omega)]; rfl)
        rw [hspec, leftJoin2_nil_right]
        split
        · simp only [collectFrom]
          rw [leftJoin_done_correct kl kr l _ _ rfl rfl rfl (by simp) hl' hxl]
          rfl
        · simp_all
        · simp_all
      · rw [hres]
        have hr' : StrictInc kr (lrv' :: r') := by
          have : StrictInc kr (pre ++ lrv' :: r') := heq ▸ hr
          exact (pairwise_append.mp this).2.1
        have hcongr : leftJoin2 kl kr (x :: l) (y :: r) = leftJoin2 kl kr (x :: l) (lrv' :: r') := by
          rw [heq]
          exact leftJoin2_congr_right kl kr _ _ _ (by
            intro a ha
            have hka : kl x ≤ kl a := by
              rcases mem_cons.mp ha with rfl | ha
              · omega
              · exact hxl a ha
            exact filter_drop_prefix kr (kl a) pre _ (fun b hb => by have := hpre b hb; omega))
        rw [hcongr, leftJoin2_cons_left]
        by_cases hm : kl x = kr lrv'
        · simp only [hm, beq_self_eq_true, if_true, collectFrom]
          rw [leftJoin_state_correct kl kr l _ _ lrv' r' rfl rfl rfl rfl rfl rfl (by simp) hl'
              (by simpa [hm] using hxl) hr',
            filter_head_match kr (kr lrv') lrv' r' rfl hr']
          rfl
        · have hne : (kl x == kr lrv') = false := by simpa using hm
          simp only [hne, Bool.false_eq_true, if_false, collectFrom]
          rw [leftJoin_state_correct kl kr l _ _ lrv' r' rfl rfl rfl rfl rfl rfl (by simp) hl'
              (by simpa using hxl) hr',
            filter_none_above kr (kl x) (lrv' :: r') (by
              intro c hc
              rcases mem_cons.mp hc with rfl | hc
              · omega
              · have := (pairwise_cons.mp hr').1 c hc; omega)]
          rfl

end two

/-! ## N-stream joins -/
section multi
variable {α : Type} (key : α → Int)

/-- Per-input invariant of the N-stream joins: what the input still has to deliver is strictly increasing and lies
strictly above the element remembered in `lastKeys[i]`. -/
def SrcOk (s : Src α) : Prop :=
  StrictInc key (remaining s) ∧ ∀ p, s.last = some p → ∀ a ∈ remaining s, key p < key a

theorem srcOk_fill {s : Src α} (h : SrcOk key s) : SrcOk key (fill s) := by
  unfold SrcOk at *
  simpa using h

/-- After `fill`, slot and consumption are `headIf` / `dropIf` of the remaining input. -/
theorem slotAt_fill (m : Int) (s : Src α) : slotAt key m (fill s) = headIf key m (remaining s) := by
  rcases fill_cases s with ⟨hb, hr, _⟩ | ⟨b, hb, hr⟩
  · simp [slotAt, hb, hr, headIf]
  · simp [slotAt, hb, hr, headIf]

theorem remaining_consumeAt_fill (m : Int) (s : Src α) :
    remaining (consumeAt key m (fill s)) = dropIf key m (remaining s) := by
  rcases fill_cases s with ⟨hb, hr, hrest⟩ | ⟨b, hb, hr⟩
  · rw [hr]; simp [consumeAt, hb, dropIf, remaining, hrest]
  · rw [hr]
    by_cases hk : (key b == m) = true
    · simp [consumeAt, hb, dropIf, remaining, hk]
    · simp only [consumeAt, hb, hk, dropIf]
      simp [remaining, hb]

theorem srcOk_consumeAt_fill (m : Int) {s : Src α} (h : SrcOk key s) : SrcOk key (consumeAt key m (fill s)) := by
  refine ⟨?_, ?_⟩
  · rw [remaining_consumeAt_fill]; exact strict_dropIf key m _ h.1
  · intro p hp a ha
    rw [remaining_consumeAt_fill] at ha
    rcases fill_cases s with ⟨hb, hr, hrest⟩ | ⟨b, hb, hr⟩
    · simp [hr, dropIf] at ha
    · by_cases hk : (key b == m) = true
      · -- consumed: last = the old head, the rest lies above it
        simp only [consumeAt, hb, hk, if_true, Option.some.injEq] at hp
        subst hp
        rw [hr] at ha
        simp only [dropIf, hk, if_true] at ha
        have := h.1; rw [hr] at this
        exact (pairwise_cons.mp this).1 a ha
      · simp only [consumeAt, hb, hk, Bool.false_eq_true, if_false, fill_last] at hp
        rw [hr] at ha
        simp only [dropIf, hk] at ha
        exact h.2 p hp a (hr ▸ ha)

theorem emitFullN_eq (st : NState α) :
    emitFullN key st =
      if ((st.srcs.map fill).all fun s => s.buf.isNone) = true then .eof
      else
        match firstUnsorted key 0 (st.srcs.map fill) with
        | some i => .err (.streamUnsorted i)
        | none =>
          match minKey (headKeys key (st.srcs.map fill)) with
          | none => .eof
          | some m =>
            .row ((st.srcs.map fill).map (slotAt key m))
              { inited := true, lastLeftKey := none, srcs := (st.srcs.map fill).map (consumeAt key m) } := by
  unfold emitFullN
  simp only [initBufs_map_fill]
  rfl

/-- Heart of the full join: from any reachable state, consuming the stream to its end yields the full join of what
the inputs still have to deliver. -/
theorem fullN_correct :
    ∀ (fuel : Nat) (srcs : List (Src α)) (inited : Bool) (llk : Option α),
      (∀ s ∈ srcs, SrcOk key s) → total (srcs.map remaining) < fuel →
      collect (emitFullN key) fuel { inited := inited, lastLeftKey := llk, srcs := srcs }
        = (fullJoinN key (srcs.map remaining), none) := by
  intro fuel
  induction fuel with
  | zero => intro _ _ _ _ h; omega
  | succ n ih =>
    intro srcs inited llk hok hfuel
    rw [collect_succ, emitFullN_eq]
    simp only []
    by_cases hall : ((srcs.map fill).all fun s => s.buf.isNone) = true
    · -- every input is exhausted
      simp only [hall, if_true, collectFrom]
      rw [fullJoinN_all_nil]
      intro l hl
      obtain ⟨s, hs, rfl⟩ := mem_map.mp hl
      have := all_eq_true.mp hall (fill s) (mem_map_of_mem hs)
      rcases fill_cases s with ⟨_, hr, _⟩ | ⟨b, hb, _⟩
      · exact hr
      · simp [hb] at this
    · simp only [hall]
      -- sortedness assertion passes
      rw [firstUnsorted_none key (srcs.map fill) 0 (by
        intro s' hs' b p hb hp
        obtain ⟨s, hs, rfl⟩ := mem_map.mp hs'
        have hok' := srcOk_fill key (hok s hs)
        have hmem : b ∈ remaining (fill s) := by simp [remaining, hb]
        have := hok'.2 p hp b hmem
        omega)]
      -- the minimum key
      have hne : headKeys key (srcs.map fill) ≠ [] := by
        intro hnil
        apply hall
        rw [all_eq_true]
        intro s' hs'
        cases hb : s'.buf with
        | none => rfl
        | some b =>
          have : key b ∈ headKeys key (srcs.map fill) := (mem_headKeys key _ _).mpr ⟨s', hs', b, hb, rfl⟩
          simp [hnil] at this
      obtain ⟨m, hmin, hmem, hle⟩ := minKey_spec _ hne
      simp only [hmin, Bool.false_eq_true, if_false, collectFrom]
      -- m is below every remaining element and is the key of some head
      have hstrict : ∀ l ∈ srcs.map remaining, StrictInc key l := by
        intro l hl; obtain ⟨s, hs, rfl⟩ := mem_map.mp hl; exact (hok s hs).1
      have hbelow : ∀ l ∈ srcs.map remaining, ∀ a ∈ l, m ≤ key a := by
        intro l hl a ha
        obtain ⟨s, hs, rfl⟩ := mem_map.mp hl
        rcases fill_cases s with ⟨_, hr, _⟩ | ⟨b, hb, hr⟩
        · simp [hr] at ha
        · have hb' : m ≤ key b := hle _ ((mem_headKeys key _ _).mpr ⟨fill s, mem_map_of_mem hs, b, hb, rfl⟩)
          rw [hr] at ha
          rcases mem_cons.mp ha with rfl | ha
          · exact hb'
          · have := (hok s hs).1; rw [hr] at this
            have := (pairwise_cons.mp this).1 a ha
            omega
      have hex : ∃ l ∈ srcs.map remaining, ∃ a ∈ l, key a = m := by
        obtain ⟨s', hs', b, hb, hk⟩ := (mem_headKeys key _ _).mp hmem
        obtain ⟨s, hs, rfl⟩ := mem_map.mp hs'
        refine ⟨remaining s, mem_map_of_mem hs, b, ?_, hk⟩
        rw [← remaining_fill]; simp [remaining, hb]
      rw [fullJoinN_step key _ m hstrict hbelow hex]
      -- the row
      have hrow : (srcs.map fill).map (slotAt key m) = (srcs.map remaining).map (headIf key m) := by
        rw [map_map, map_map]; apply map_congr_left; intro s _; exact slotAt_fill key m s
      have hrem : ((srcs.map fill).map (consumeAt key m)).map remaining
          = (srcs.map remaining).map (dropIf key m) := by
        rw [map_map, map_map, map_map]; apply map_congr_left; intro s _
        exact remaining_consumeAt_fill key m s
      have hlt : total ((srcs.map remaining).map (dropIf key m)) < total (srcs.map remaining) := by
        unfold total
        apply sum_length_map_lt
        · intro l _; exact length_dropIf_le key m l
        · obtain ⟨l, hl, a, ha, hk⟩ := hex
          refine ⟨l, hl, ?_⟩
          cases l with
          | nil => simp at ha
          | cons h t =>
            have hh : key h = m := by
              rcases mem_cons.mp ha with rfl | ha
              · exact hk
              · have := (pairwise_cons.mp (hstrict _ hl)).1 a ha
                have := hbelow _ hl h (by simp)
                omega
            simp [dropIf, hh]
      rw [ih ((srcs.map fill).map (consumeAt key m)) true none (by
            intro s' hs'
            obtain ⟨s1, hs1, rfl⟩ := mem_map.mp hs'
            obtain ⟨s, hs, rfl⟩ := mem_map.mp hs1
            exact srcOk_consumeAt_fill key m (hok s hs))
          (by rw [hrem]; omega), hrem, hrow]

/-- **C09, N-stream full join.** For any number of strictly increasing inputs, `FullJoinMultipleSortedStreams`
delivers one row per key present in any input, in key order, slot `i` holding input `i`'s element with that key
or absent — and ends without error. -/
theorem C09_joinN_full (ins : List (List α)) (hs : ∀ l ∈ ins, StrictInc key l) :
    fullJoinMultiple key ins = (fullJoinN key ins, none) := by
  unfold fullJoinMultiple
  by_cases he : ins.isEmpty = true
  · have : ins = [] := by simpa using he
    subst this
    simp [fullJoinN, fullJoinNK, keysUnion]
  · simp only [he, Bool.false_eq_true, if_false]
    have hrem : (ins.map fun l => ({ buf := none, last := none, rest := l } : Src α)).map remaining = ins := by
      rw [map_map]; simp [remaining, Function.comp_def]
    have := fullN_correct key (total ins + 1) (ins.map fun l => { buf := none, last := none, rest := l })
      false none (by
        intro s hs'
        obtain ⟨l, hl, rfl⟩ := mem_map.mp hs'
        refine ⟨by simpa [remaining] using hs l hl, by simp⟩) (by rw [hrem]; omega)
    rw [hrem] at this
    exact this

/-! ### N-stream left join -/

/-- A slot that is empty only when its input has nothing more to deliver (true of every slot after `fill`). -/
def Filled (s : Src α) : Prop := s.buf = none → s.rest = []

theorem filled_fill (s : Src α) : Filled (fill s) := by
  intro h
  rcases fill_cases s with ⟨_, _, hr⟩ | ⟨b, hb, _⟩
  · exact hr
  · simp [hb] at h

/-- What "advance this input up to the left key" does: it drops a prefix of elements below the left key, stops at
the first element that is not below it (or at the end), and never consumes that element. -/
theorem catchUp_spec (lk : Int) : ∀ (rest : List α) (buf : Option α), (buf = none → rest = []) →
    ∃ pre, buf.toList ++ rest = pre ++ ((catchUp key lk buf rest).1.toList ++ (catchUp key lk buf rest).2) ∧
      (∀ b ∈ pre, key b < lk) ∧
      ((catchUp key lk buf rest).1 = none → (catchUp key lk buf rest).2 = []) ∧
      (∀ b, (catchUp key lk buf rest).1 = some b → lk ≤ key b)
  | rest, none, h => by
    have := h rfl; subst this
    exact ⟨[], by simp [catchUp], by simp, by simp [catchUp], by simp [catchUp]⟩
  | [], some b, _ => by
    by_cases hb : key b < lk
    · exact ⟨[b], by simp [catchUp, hb], by simpa using hb, by simp [catchUp, hb], by simp [catchUp, hb]⟩
    · refine ⟨[], by simp [catchUp, hb], by simp, by simp [catchUp, hb], ?_⟩
      intro b' hb'; simp [catchUp, hb] at hb'; subst hb'; omega
  | x :: xs, some b, _ => by
    by_cases hb : key b < lk
    · obtain ⟨pre, h1, h2, h3, h4⟩ := catchUp_spec lk xs (some x) (by simp)
      refine ⟨b :: pre, ?_, ?_, ?_, ?_⟩
      · simp only [catchUp, hb, if_true, Option.toList_some, cons_append, nil_append] at h1 ⊢
        rw [h1]
      · intro b' hb'
        rcases mem_cons.mp hb' with rfl | hb'
        · exact hb
        · exact h2 b' hb'
      · simpa only [catchUp, hb, if_true] using h3
      · simpa only [catchUp, hb, if_true] using h4
    · refine ⟨[], by simp [catchUp, hb], by simp, by simp [catchUp, hb], ?_⟩
      intro b' hb'; simp [catchUp, hb] at hb'; subst hb'; omega

theorem lookupKey_drop_prefix (k : Int) (pre r : List α) (h : ∀ b ∈ pre, key b < k) :
    lookupKey key k (pre ++ r) = lookupKey key k r := by
  unfold lookupKey
  rw [find?_append]
  have : find? (fun a => key a == k) pre = none := by
    rw [find?_eq_none]; intro b hb; have := h b hb; simp only [beq_iff_eq]; omega
  rw [this]; rfl

/-- After catching up to `lk`: later left keys (`≥ lk`) find in the caught-up input what they found before, and the
slot handed to the joiner is exactly the input's element with key `lk` (if any). -/
theorem catchUpSrc_spec (lk : Int) (o : Src α) (hf : Filled o) (hs : NonDec key (remaining o)) :
    Filled (catchUpSrc key lk o) ∧ NonDec key (remaining (catchUpSrc key lk o)) ∧
    (∀ k, lk ≤ k → lookupKey key k (remaining (catchUpSrc key lk o)) = lookupKey key k (remaining o)) ∧
    slotAt key lk (catchUpSrc key lk o) = lookupKey key lk (remaining o) := by
  obtain ⟨pre, h1, h2, h3, h4⟩ := catchUp_spec key lk o.rest o.buf hf
  have hrem : remaining o = pre ++ remaining (catchUpSrc key lk o) := h1
  have hnd : NonDec key (remaining (catchUpSrc key lk o)) := by
    have := hs; rw [hrem] at this; exact (pairwise_append.mp this).2.1
  refine ⟨h3, hnd, ?_, ?_⟩
  · intro k hk
    rw [hrem, lookupKey_drop_prefix key k pre _ (fun b hb => by have := h2 b hb; omega)]
  · rw [hrem, lookupKey_drop_prefix key lk pre _ h2]
    cases hb : (catchUpSrc key lk o).buf with
    | none =>
      have : (catchUpSrc key lk o).rest = [] := h3 hb
      simp [slotAt, hb, remaining, this, lookupKey]
    | some b =>
      have hge : lk ≤ key b := h4 b hb
      have hr : remaining (catchUpSrc key lk o) = b :: (catchUpSrc key lk o).rest := by simp [remaining, hb]
      by_cases hk : key b = lk
      · simp [slotAt, hb, hr, lookupKey, hk]
      · have hne : (key b == lk) = false := by simpa using hk
        simp only [slotAt, hb, hne, Bool.false_eq_true, if_false, hr, lookupKey, find?_cons]
        symm; rw [find?_eq_none]
        intro c hc
        have := (pairwise_cons.mp (hr ▸ hnd)).1 c hc
        simp only [beq_iff_eq]; omega

theorem emitLeftN_congr (st st' : NState α) (h1 : initBufs st = initBufs st')
    (h2 : st.lastLeftKey = st'.lastLeftKey) : emitLeftN key st = emitLeftN key st' := by
  unfold emitLeftN; rw [h1, h2]

/-- Heart of the N-stream left join (state after the buffers were initialised). -/
theorem leftN_correct :
    ∀ (fuel : Nat) (s0 : Src α) (others : List (Src α)) (llk : Option α),
      NonDec key (remaining s0) → (∀ p, llk = some p → ∀ a ∈ remaining s0, key p ≤ key a) →
      (∀ o ∈ others, Filled o ∧ NonDec key (remaining o)) → (remaining s0).length < fuel →
      collect (emitLeftN key) fuel { inited := true, lastLeftKey := llk, srcs := s0 :: others }
        = (leftJoinN key (remaining s0 :: others.map remaining), none) := by
  intro fuel
  induction fuel with
  | zero => intro _ _ _ _ _ _ h; omega
  | succ n ih =>
    intro s0 others llk hnd hllk hoth hfuel
    rw [collect_succ]
    simp only [emitLeftN, initBufs, if_true]
    rcases fill_cases s0 with ⟨hb, hr, _⟩ | ⟨lv, hb, hr⟩
    · simp [hb, hr, collectFrom, leftJoinN]
    · simp only [hb]
      have hns : belowLast key llk lv = false := by
        cases llk with
        | none => rfl
        | some p =>
          have := hllk p rfl lv (by rw [hr]; simp)
          simp only [belowLast, decide_eq_false_iff_not]; omega
      simp only [hns, Bool.false_eq_true, if_false, collectFrom]
      have hL' : NonDec key (fill s0).rest := by have := hnd; rw [hr] at this; exact (pairwise_cons.mp this).2
      have hlv : ∀ a ∈ (fill s0).rest, key lv ≤ key a := by
        have := hnd; rw [hr] at this; exact (pairwise_cons.mp this).1
      have hrem0 : remaining ({ fill s0 with buf := none } : Src α) = (fill s0).rest := by simp [remaining]
      rw [ih _ (others.map (catchUpSrc key (key lv))) (some lv) (by rw [hrem0]; exact hL')
        (by intro p hp a ha; rw [hrem0] at ha; simp only [Option.some.injEq] at hp; subst hp; exact hlv a ha)
        (by
          intro o' ho'
          obtain ⟨o, ho, rfl⟩ := mem_map.mp ho'
          have := catchUpSrc_spec key (key lv) o (hoth o ho).1 (hoth o ho).2
          exact ⟨this.1, this.2.1⟩)
        (by rw [hrem0]; rw [hr] at hfuel; simp at hfuel; omega)]
      rw [hrem0, hr]
      simp only [leftJoinN, map_cons, map_map]
      congr 2
      · congr 1
        apply map_congr_left
        intro o ho
        exact (catchUpSrc_spec key (key lv) o (hoth o ho).1 (hoth o ho).2).2.2.2
      · apply map_congr_left
        intro a ha
        congr 1
        apply map_congr_left
        intro o ho
        exact (catchUpSrc_spec key (key lv) o (hoth o ho).1 (hoth o ho).2).2.2.1 (key a) (hlv a ha)

/-- **C09, N-stream left join.** If the first input is non-decreasing and every other input is non-decreasing (in
particular: all strictly increasing, as the property states), `LeftJoinMultipleSortedStreams` delivers one row per
element of the first input, in order, slot `i` holding input `i`'s (first) element with that key or absent — and ends
without error. -/
theorem C09_joinN_left (ins : List (List α)) (hs : ∀ l ∈ ins, NonDec key l) :
    leftJoinMultiple key ins = (leftJoinN key ins, none) := by
  unfold leftJoinMultiple
  cases ins with
  | nil => simp [leftJoinN]
  | cons first others =>
    simp only [isEmpty_cons, Bool.false_eq_true, if_false]
    rw [collect_succ, emitLeftN_congr key (initN (first :: others))
      { inited := true, lastLeftKey := none, srcs := (initN (first :: others)).srcs.map fill }
      (by simp [initBufs, initN]) rfl, ← collect_succ]
    simp only [initN, map_cons]
    have h0 : remaining (fill ({ buf := none, last := none, rest := first } : Src α)) = first := by
      rw [remaining_fill]; rfl
    have hoth : (others.map fun l => fill ({ buf := none, last := none, rest := l } : Src α)).map remaining = others := by
      rw [map_map]; simp only [Function.comp_def, remaining_fill]; simp [remaining]
    have := leftN_correct key (total (first :: others) + 1)
      (fill { buf := none, last := none, rest := first })
      (others.map fun l => fill { buf := none, last := none, rest := l }) none
      (by rw [h0]; exact hs first (by simp)) (by simp)
      (by
        intro o ho
        obtain ⟨l, hl, rfl⟩ := mem_map.mp ho
        refine ⟨filled_fill _, ?_⟩
        rw [remaining_fill]; simpa [remaining] using hs l (by simp [hl]))
      (by rw [h0]; simp [total]; omega)
    rw [h0, hoth] at this
    simpa [map_map, Function.comp_def] using this

/-- The property's wording: all inputs strictly increasing. -/
theorem C09_joinN_left_strict (ins : List (List α)) (hs : ∀ l ∈ ins, StrictInc key l) :
    leftJoinMultiple key ins = (leftJoinN key ins, none) :=
  C09_joinN_left key ins (fun l hl => (hs l hl).imp (fun h => Int.le_of_lt h))

/-! ### N-stream inner join -/

theorem refillOrEof_none : ∀ (ss : List (Src α)), (∃ s ∈ ss, remaining s = []) → refillOrEof ss = none
  | [], h => by obtain ⟨s, hs, _⟩ := h; simp at hs
  | s :: ss, h => by
    unfold refillOrEof
    rcases fill_cases s with ⟨hb, hr, _⟩ | ⟨b, hb, hr⟩
    · simp [hb]
    · simp only [hb]
      obtain ⟨s', hs', hr'⟩ := h
      rcases mem_cons.mp hs' with rfl | hs'
      · rw [hr] at hr'; simp at hr'
      · simp [refillOrEof_none ss ⟨s', hs', hr'⟩]

theorem refillOrEof_some : ∀ (ss : List (Src α)), (∀ s ∈ ss, remaining s ≠ []) →
    refillOrEof ss = some (ss.map fill)
  | [], _ => rfl
  | s :: ss, h => by
    unfold refillOrEof
    rcases fill_cases s with ⟨hb, hr, _⟩ | ⟨b, hb, hr⟩
    · exact absurd hr (h s (by simp))
    · simp [hb, refillOrEof_some ss (fun s' hs' => h s' (mem_cons_of_mem _ hs'))]

/-- One input in the "advance the inputs behind the maximum" pass. -/
def adv (M : Int) (s : Src α) : Src α :=
  match s.buf, s.rest with
  | some b, x :: xs => if key b < M then { buf := some x, last := some b, rest := xs } else s
  | _, _ => s

theorem advanceBehind_some (M : Int) : ∀ (ss : List (Src α)),
    (∀ s ∈ ss, ∀ b, s.buf = some b → key b < M → s.rest ≠ []) →
    advanceBehind key M ss = some (ss.map (adv key M))
  | [], _ => rfl
  | ⟨buf, last, rest⟩ :: ss, h => by
    have ih := advanceBehind_some M ss (fun s hs => h s (mem_cons_of_mem _ hs))
    cases buf with
    | none => simp [advanceBehind, ih, adv]
    | some b =>
      by_cases hb : key b < M
      · cases rest with
        | nil => exact absurd rfl (h ⟨some b, last, []⟩ (by simp) b rfl hb)
        | cons x xs => simp [advanceBehind, hb, ih, adv]
      · cases rest <;> simp [advanceBehind, hb, ih, adv]

theorem advanceBehind_none (M : Int) : ∀ (ss : List (Src α)),
    (∃ s ∈ ss, ∃ b, s.buf = some b ∧ key b < M ∧ s.rest = []) → advanceBehind key M ss = none
  | [], h => by obtain ⟨s, hs, _⟩ := h; simp at hs
  | ⟨buf, last, rest⟩ :: ss, h => by
    obtain ⟨s', hs', b', hb', hlt', hr'⟩ := h
    rcases mem_cons.mp hs' with heq | hs'
    · subst heq
      simp only at hb' hr'
      subst hb' hr'
      simp [advanceBehind, hlt']
    · have ih := advanceBehind_none M ss ⟨s', hs', b', hb', hlt', hr'⟩
      cases buf with
      | none => simp [advanceBehind, ih]
      | some b =>
        by_cases hb : key b < M
        · cases rest <;> simp [advanceBehind, hb, ih]
        · simp [advanceBehind, hb, ih]

theorem remaining_adv (M : Int) (s : Src α) (b : α) (hb : s.buf = some b) (hr : key b < M → s.rest ≠ []) :
    remaining (adv key M s) = dropBelow key M (remaining s) := by
  rcases s with ⟨buf, last, rest⟩
  simp only at hb hr; subst hb
  by_cases hlt : key b < M
  · cases rest with
    | nil => exact absurd rfl (hr hlt)
    | cons x xs => simp [adv, hlt, remaining, dropBelow]
  · cases rest <;> simp [adv, hlt, remaining, dropBelow]

theorem srcOk_adv (M : Int) (s : Src α) (b : α) (hb : s.buf = some b) (hok : SrcOk key s) :
    SrcOk key (adv key M s) := by
  rcases s with ⟨buf, last, rest⟩
  simp only at hb; subst hb
  by_cases hlt : key b < M
  · cases rest with
    | nil => simpa [adv] using hok
    | cons x xs =>
      have hst : StrictInc key (b :: x :: xs) := by simpa [remaining] using hok.1
      refine ⟨?_, ?_⟩
      · have : remaining (adv key M ⟨some b, last, x :: xs⟩) = x :: xs := by simp [adv, hlt, remaining]
        rw [this]; exact (pairwise_cons.mp hst).2
      intro p hp a ha
      simp only [adv, hlt, if_true, Option.some.injEq] at hp
      subst hp
      have ha' : a ∈ x :: xs := by simpa [adv, hlt, remaining] using ha
      exact (pairwise_cons.mp hst).1 a ha'
  · cases rest <;> simpa [adv, hlt] using hok

theorem rest_adv_le (M : Int) (s : Src α) : (adv key M s).rest.length ≤ s.rest.length := by
  rcases s with ⟨buf, last, rest⟩
  cases buf with
  | none => simp [adv]
  | some b =>
    cases rest with
    | nil => simp [adv]
    | cons x xs => by_cases hlt : key b < M <;> simp [adv, hlt]

theorem rest_adv_lt (M : Int) (s : Src α) (b : α) (hb : s.buf = some b) (hlt : key b < M) (hr : s.rest ≠ []) :
    (adv key M s).rest.length < s.rest.length := by
  rcases s with ⟨buf, last, rest⟩
  simp only at hb hr; subst hb
  cases rest with
  | nil => exact absurd rfl hr
  | cons x xs => simp [adv, hlt]

theorem rest_fill_le (s : Src α) : (fill s).rest.length ≤ s.rest.length := by
  rcases s with ⟨buf, last, rest⟩
  cases buf <;> cases rest <;> simp [fill]

theorem fill_buf_eq_head (s : Src α) : (fill s).buf = (remaining s).head? := by
  rcases fill_cases s with ⟨hb, hr, _⟩ | ⟨b, hb, hr⟩
  · simp [hb, hr]
  · simp [hb, hr]

theorem emitInnerN_inited (srcs : List (Src α)) (llk : Option α) :
    emitInnerN key { inited := true, lastLeftKey := llk, srcs := srcs } = innerLoop key (totalRest srcs + 1) srcs := by
  simp [emitInnerN, initBufs]

/-- The `for` loop of the inner join, given that `collect` is already known to be right for smaller remainders. -/
theorem innerLoop_correct (n : Nat)
    (ihc : ∀ (srcs : List (Src α)), (∀ s ∈ srcs, SrcOk key s) → srcs ≠ [] → total (srcs.map remaining) < n →
      collect (emitInnerN key) n { inited := true, lastLeftKey := none, srcs := srcs }
        = (innerJoinN key (srcs.map remaining), none)) :
    ∀ (lfuel : Nat) (ss : List (Src α)), (∀ s ∈ ss, SrcOk key s) → ss ≠ [] → totalRest ss < lfuel →
      total (ss.map remaining) ≤ n →
      collectFrom (emitInnerN key) n (innerLoop key lfuel ss) = (innerJoinN key (ss.map remaining), none) := by
  intro lfuel
  induction lfuel with
  | zero => intro _ _ _ h; omega
  | succ f ih =>
    intro ss hok hne hfuel htot
    rw [innerLoop]
    by_cases hemp : ∃ s ∈ ss, remaining s = []
    · -- some input is exhausted: the join is over, and the relational join of the remainders is empty
      rw [refillOrEof_none ss hemp]
      obtain ⟨s, hs, hr⟩ := hemp
      rw [innerJoinN_nil_mem key _ (mem_map.mpr ⟨s, hs, hr⟩)]
      rfl
    · have hnonemp : ∀ s ∈ ss, remaining s ≠ [] := fun s hs hr => hemp ⟨s, hs, hr⟩
      rw [refillOrEof_some ss hnonemp]
      simp only []
      -- from here on: ss1 = the refilled inputs; same remainders, every slot filled
      have hL : (ss.map fill).map remaining = ss.map remaining := by
        rw [map_map]; apply map_congr_left; intro s _; simp
      have hok1 : ∀ s ∈ ss.map fill, SrcOk key s := by
        intro s1 hs1; obtain ⟨s, hs, rfl⟩ := mem_map.mp hs1; exact srcOk_fill key (hok s hs)
      have hbuf1 : ∀ s ∈ ss.map fill, ∃ b, s.buf = some b := by
        intro s1 hs1; obtain ⟨s, hs, rfl⟩ := mem_map.mp hs1
        rcases fill_cases s with ⟨_, hr, _⟩ | ⟨b, hb, _⟩
        · exact absurd hr (hnonemp s hs)
        · exact ⟨b, hb⟩
      have hne1 : ss.map fill ≠ [] := by simpa using hne
      have hrest1 : totalRest (ss.map fill) ≤ totalRest ss := by
        unfold totalRest
        exact sum_map_le (fun s : Src α => s.rest.length) fill ss (fun s _ => rest_fill_le s)
      rw [← hL] at htot ⊢
      generalize ss.map fill = ss1 at *
      have hfuel1 : totalRest ss1 < f + 1 := by omega
      clear hL hnonemp hemp hok hne hrest1 hfuel ss
      have hrem : ∀ s ∈ ss1, ∀ b, s.buf = some b → remaining s = b :: s.rest := by
        intro s _ b hb; simp [remaining, hb]
      -- sortedness assertion passes
      rw [firstUnsorted_none key ss1 0 (by
        intro s hs b p hb hp
        have := (hok1 s hs).2 p hp b (by rw [hrem s hs b hb]; simp)
        omega)]
      simp only []
      have hhk : headKeys key ss1 ≠ [] := by
        cases ss1 with
        | nil => exact absurd rfl hne1
        | cons s0 rest0 =>
          obtain ⟨b, hb⟩ := hbuf1 s0 (by simp)
          simp [headKeys, hb]
      obtain ⟨M, hmax, hmem, hle⟩ := maxKey_spec _ hhk
      rw [hmax]
      simp only []
      have hstrict : ∀ l ∈ ss1.map remaining, StrictInc key l := by
        intro l hl; obtain ⟨s, hs, rfl⟩ := mem_map.mp hl; exact (hok1 s hs).1
      by_cases hall : ((headKeys key ss1).all fun k => k == M) = true
      · -- all heads agree: one row, every input consumed by one element
        simp only [hall, if_true, collectFrom]
        have hh : ∀ l ∈ ss1.map remaining, ∃ h t, l = h :: t ∧ key h = M := by
          intro l hl
          obtain ⟨s, hs, rfl⟩ := mem_map.mp hl
          obtain ⟨b, hb⟩ := hbuf1 s hs
          refine ⟨b, s.rest, hrem s hs b hb, ?_⟩
          have := all_eq_true.mp hall (key b) ((mem_headKeys key _ _).mpr ⟨s, hs, b, hb, rfl⟩)
          simpa using this
        rw [innerJoinN_heads key _ M (by simpa using hne1) hstrict hh]
        have hrow : ss1.filterMap (fun s => s.buf) = (ss1.map remaining).filterMap head? := by
          rw [filterMap_map]
          apply filterMap_congr'
          intro s hs
          obtain ⟨b, hb⟩ := hbuf1 s hs
          simp [hb, hrem s hs b hb]
        have htail : (ss1.map takeBuf).map remaining = (ss1.map remaining).map tail := by
          rw [map_map, map_map]; apply map_congr_left; intro s hs
          obtain ⟨b, hb⟩ := hbuf1 s hs
          simp [takeBuf, remaining, hb]
        have hlt : total ((ss1.map remaining).map tail) < total (ss1.map remaining) := by
          unfold total
          apply sum_length_map_lt
          · intro l _; simp
          · cases ss1 with
            | nil => exact absurd rfl hne1
            | cons s0 rest0 =>
              obtain ⟨b, hb⟩ := hbuf1 s0 (by simp)
              exact ⟨remaining s0, by simp, by rw [hrem s0 (by simp) b hb]; simp⟩
        rw [ihc (ss1.map takeBuf) (by
              intro s' hs'
              obtain ⟨s, hs, rfl⟩ := mem_map.mp hs'
              obtain ⟨b, hb⟩ := hbuf1 s hs
              have hst : StrictInc key (b :: s.rest) := hrem s hs b hb ▸ (hok1 s hs).1
              have hrt : remaining (takeBuf s) = s.rest := by simp [takeBuf, remaining]
              refine ⟨by rw [hrt]; exact (pairwise_cons.mp hst).2, ?_⟩
              intro p hp a ha
              simp only [takeBuf, hb, Option.some.injEq] at hp
              subst hp
              exact (pairwise_cons.mp hst).1 a (by simpa [takeBuf, remaining] using ha))
            (by simpa using hne1) (by rw [htail]; omega), htail, hrow]
      · -- some input is behind the maximum head
        simp only [hall, Bool.false_eq_true, if_false]
        obtain ⟨sj, hsj, bj, hbj, hkj⟩ := (mem_headKeys key _ _).mp hmem
        have hex : ∃ l ∈ ss1.map remaining, ∀ a ∈ l, M ≤ key a := by
          refine ⟨remaining sj, mem_map_of_mem hsj, ?_⟩
          intro a ha
          rw [hrem sj hsj bj hbj] at ha
          rcases mem_cons.mp ha with rfl | ha
          · omega
          · have hst : StrictInc key (bj :: sj.rest) := hrem sj hsj bj hbj ▸ (hok1 sj hsj).1
            have := (pairwise_cons.mp hst).1 a ha
            omega
        rw [innerJoinN_dropBelow key _ M hstrict hex]
        by_cases hadv : ∀ s ∈ ss1, ∀ b, s.buf = some b → key b < M → s.rest ≠ []
        · rw [advanceBehind_some key M ss1 hadv]
          simp only []
          have hdrop : (ss1.map (adv key M)).map remaining = (ss1.map remaining).map (dropBelow key M) := by
            rw [map_map, map_map]; apply map_congr_left; intro s hs
            obtain ⟨b, hb⟩ := hbuf1 s hs
            exact remaining_adv key M s b hb (hadv s hs b hb)
          -- somebody really is behind, so the rests shrink
          have hbehind : ∃ s ∈ ss1, ∃ b, s.buf = some b ∧ key b < M := by
            have : ¬ ∀ k ∈ headKeys key ss1, (k == M) = true := by
              intro h; exact hall (all_eq_true.mpr h)
            have : ∃ k ∈ headKeys key ss1, k ≠ M := by
              apply Classical.byContradiction
              intro hno
              apply this
              intro k hk
              have : ¬ k ≠ M := fun h => hno ⟨k, hk, h⟩
              simpa using this
            obtain ⟨k, hk, hkM⟩ := this
            obtain ⟨s, hs, b, hb, rfl⟩ := (mem_headKeys key _ _).mp hk
            exact ⟨s, hs, b, hb, by have := hle _ hk; omega⟩
          have hrestlt : totalRest (ss1.map (adv key M)) < totalRest ss1 := by
            unfold totalRest
            apply sum_map_lt (fun s : Src α => s.rest.length) (adv key M) ss1
            · intro s _; exact rest_adv_le key M s
            · obtain ⟨s, hs, b, hb, hlt⟩ := hbehind
              exact ⟨s, hs, rest_adv_lt key M s b hb hlt (hadv s hs b hb hlt)⟩
          have htotle : total ((ss1.map remaining).map (dropBelow key M)) ≤ total (ss1.map remaining) := by
            unfold total
            exact sum_map_le List.length (dropBelow key M) _ (fun l _ => length_dropBelow_le key M l)
          rw [ih (ss1.map (adv key M)) (by
                intro s' hs'
                obtain ⟨s, hs, rfl⟩ := mem_map.mp hs'
                obtain ⟨b, hb⟩ := hbuf1 s hs
                exact srcOk_adv key M s b hb (hok1 s hs))
              (by simpa using hne1) (by omega) (by rw [hdrop]; omega), hdrop]
        · -- an input behind the maximum is exhausted: EOF, and indeed nothing more can match
          have hex2 : ∃ s ∈ ss1, ∃ b, s.buf = some b ∧ key b < M ∧ s.rest = [] := by
            apply Classical.byContradiction
            intro hno
            apply hadv
            intro s hs b hb hlt hr
            exact hno ⟨s, hs, b, hb, hlt, hr⟩
          rw [advanceBehind_none key M ss1 hex2]
          obtain ⟨s, hs, b, hb, hlt, hr⟩ := hex2
          rw [innerJoinN_nil_mem key _ (mem_map.mpr ⟨remaining s, mem_map_of_mem hs, by
            rw [hrem s hs b hb, hr]; simp [dropBelow, hlt]⟩)]
          rfl

theorem innerN_correct :
    ∀ (n : Nat) (srcs : List (Src α)), (∀ s ∈ srcs, SrcOk key s) → srcs ≠ [] →
      total (srcs.map remaining) < n →
      collect (emitInnerN key) n { inited := true, lastLeftKey := none, srcs := srcs }
        = (innerJoinN key (srcs.map remaining), none) := by
  intro n
  induction n with
  | zero => intro _ _ _ h; omega
  | succ n ih =>
    intro srcs hok hne htot
    rw [collect_succ, emitInnerN_inited]
    exact innerLoop_correct key n ih _ srcs hok hne (by omega) (by omega)

/-- **C09, N-stream inner join.** For any number of strictly increasing inputs, `JoinMultipleSortedStreams` delivers
one row per key present in every input, in key order, slot `i` holding input `i`'s element with that key — and ends
without error. -/
theorem C09_joinN_inner (ins : List (List α)) (hs : ∀ l ∈ ins, StrictInc key l) :
    joinMultiple key ins = (innerJoinN key ins, none) := by
  unfold joinMultiple
  by_cases he : ins.isEmpty = true
  · have : ins = [] := by simpa using he
    subst this
    simp [innerJoinN]
  · simp only [he, Bool.false_eq_true, if_false]
    have hne : ins ≠ [] := by simpa using he
    rw [collect_succ]
    have hemit : emitInnerN key (initN ins)
        = innerLoop key (totalRest ((initN ins).srcs.map fill) + 1) ((initN ins).srcs.map fill) := by
      simp [emitInnerN, initBufs, initN]
    rw [hemit]
    have hrem : ((initN ins).srcs.map fill).map remaining = ins := by
      rw [map_map]; simp only [Function.comp_def, remaining_fill, initN, map_map]; simp [remaining]
    have := innerLoop_correct key (total ins) (innerN_correct key (total ins)) _ ((initN ins).srcs.map fill)
      (by
        intro s hs'
        obtain ⟨s0, hs0, rfl⟩ := mem_map.mp hs'
        obtain ⟨l, hl, rfl⟩ := mem_map.mp hs0
        exact srcOk_fill key ⟨by simpa [remaining] using hs l hl, by simp⟩)
      (by simpa [initN] using hne) (Nat.lt_succ_self _) (by rw [hrem]; exact Nat.le_refl _)
    rw [hrem] at this
    exact this

end multi

/-! ## The property's clauses as corollaries -/
section corollaries
variable {α β : Type} (kl : α → Int) (kr : β → Int) (key : α → Int)

theorem mem_innerJoin2 (l : List α) (r : List β) (p : α × β) :
    p ∈ innerJoin2 kl kr l r ↔ p.1 ∈ l ∧ p.2 ∈ r ∧ kr p.2 = kl p.1 := by
  rcases p with ⟨a, b⟩
  simp only [innerJoin2, mem_flatMap, mem_map, mem_filter, beq_iff_eq, Prod.mk.injEq]
  constructor
  · rintro ⟨a', ha', b', ⟨hb', hk⟩, rfl, rfl⟩; exact ⟨ha', hb', hk⟩
  · rintro ⟨ha, hb, hk⟩; exact ⟨a, ha, b, ⟨hb, hk⟩, rfl, rfl⟩

/-- Two-stream inner join, in the property's words: the delivered pairs are exactly the pairs (left element, right
element) of equal key — so every element appears only next to elements of its own key. -/
theorem C09_join2_inner_pairs [Inhabited β] (l : List α) (r : List β) (hl : NonDec kl l) (hr : StrictInc kr r)
    (p : α × β) : p ∈ (joinSorted kl kr l r).1 ↔ p.1 ∈ l ∧ p.2 ∈ r ∧ kr p.2 = kl p.1 := by
  rw [C09_join2_inner kl kr l r hl hr]; exact mem_innerJoin2 kl kr l r p

theorem filter_key_length_le_one (k : Int) : ∀ (r : List β), StrictInc kr r →
    (r.filter fun b => kr b == k).length ≤ 1
  | [], _ => by simp
  | b :: t, hs => by
    by_cases hk : kr b = k
    · rw [filter_head_match kr k b t hk hs]; simp
    · have : (kr b == k) = false := by simpa using hk
      rw [filter_cons]; simp only [this, Bool.false_eq_true, if_false]
      exact filter_key_length_le_one k t (pairwise_cons.mp hs).2

theorem leftRows_fst (a : α) (ms : List β) (h : ms.length ≤ 1) : (leftRows a ms).map Prod.fst = [a] := by
  match ms, h with
  | [], _ => rfl
  | [b], _ => rfl

/-- Two-stream left join: every left element is delivered exactly once, in order. -/
theorem C09_join2_left_covers [Inhabited β] (l : List α) (r : List β) (hl : NonDec kl l) (hr : StrictInc kr r) :
    (leftJoinSorted kl kr l r).1.map Prod.fst = l := by
  rw [C09_join2_left kl kr l r hl hr]
  simp only
  induction l with
  | nil => rfl
  | cons a l ih =>
    rw [leftJoin2_cons_left, map_append, ih (pairwise_cons.mp hl).2,
      leftRows_fst a _ (filter_key_length_le_one kr (kl a) r hr)]
    rfl

theorem mem_leftRows (a : α) (ms : List β) (p : α × Option β) :
    p ∈ leftRows a ms ↔ p.1 = a ∧ ((p.2 = none ∧ ms = []) ∨ ∃ b ∈ ms, p.2 = some b) := by
  rcases p with ⟨a', ob⟩
  cases ms with
  | nil => simp [leftRows]
  | cons b ms =>
    simp only [leftRows, mem_map, Prod.mk.injEq]
    constructor
    · rintro ⟨b', hb', rfl, rfl⟩; exact ⟨rfl, Or.inr ⟨b', hb', rfl⟩⟩
    · rintro ⟨rfl, h⟩
      rcases h with ⟨_, h⟩ | ⟨b', hb', rfl⟩
      · simp at h
      · exact ⟨b', hb', rfl, rfl⟩

/-- Two-stream left join: a delivered right element has the left element's key, and an absent right means that no
right element has that key. -/
theorem C09_join2_left_pairs [Inhabited β] (l : List α) (r : List β) (hl : NonDec kl l) (hr : StrictInc kr r)
    (p : α × Option β) (hp : p ∈ (leftJoinSorted kl kr l r).1) :
    p.1 ∈ l ∧ (∀ b, p.2 = some b → b ∈ r ∧ kr b = kl p.1) ∧ (p.2 = none → ∀ b ∈ r, kr b ≠ kl p.1) := by
  rw [C09_join2_left kl kr l r hl hr] at hp
  simp only [leftJoin2, mem_flatMap] at hp
  obtain ⟨a, ha, hp⟩ := hp
  obtain ⟨rfl, h⟩ := (mem_leftRows a _ p).mp hp
  refine ⟨ha, ?_, ?_⟩
  · intro b hb
    rcases h with ⟨hn, _⟩ | ⟨b', hb', hs⟩
    · rw [hn] at hb; simp at hb
    · rw [hs] at hb; simp only [Option.some.injEq] at hb; subst hb
      simpa using mem_filter.mp hb'
  · intro hn b hb hk
    rcases h with ⟨_, hnil⟩ | ⟨b', _, hs⟩
    · have : b ∈ r.filter (fun b => kr b == kl p.1) := mem_filter.mpr ⟨hb, by simpa using hk⟩
      rw [hnil] at this; simp at this
    · rw [hs] at hn; simp at hn

theorem lookupKey_some {k : Int} {l : List α} {a : α} (h : lookupKey key k l = some a) : a ∈ l ∧ key a = k := by
  unfold lookupKey at h
  exact ⟨mem_of_find?_eq_some h, by simpa using find?_some h⟩

/-- Row keys of the full join: strictly increasing, and exactly the keys present in some input. -/
theorem C09_full_keys (ins : List (List α)) :
    ((fullJoinNK key ins).map Prod.fst).Pairwise (· < ·) ∧
    ∀ k, k ∈ (fullJoinNK key ins).map Prod.fst ↔ ∃ l ∈ ins, ∃ a ∈ l, key a = k := by
  have : (fullJoinNK key ins).map Prod.fst = keysUnion key ins := by
    simp [fullJoinNK, Function.comp_def]
  rw [this]
  exact ⟨strict_keysUnion key ins, mem_keysUnion key ins⟩

/-- Every element of a full-join row sits in the slot of its own input and has the row's key. -/
theorem C09_full_row_key (ins : List (List α)) (k : Int) (row : List (Option α))
    (h : (k, row) ∈ fullJoinNK key ins) :
    row.length = ins.length ∧ ∀ (i : Nat) (a : α), row[i]? = some (some a) → ∃ l, ins[i]? = some l ∧ a ∈ l ∧ key a = k := by
  simp only [fullJoinNK, mem_map, Prod.mk.injEq] at h
  obtain ⟨k', _, rfl, rfl⟩ := h
  refine ⟨by simp, ?_⟩
  intro i a hi
  rw [getElem?_map] at hi
  cases hl : ins[i]? with
  | none => simp [hl] at hi
  | some l =>
    simp only [hl, Option.map_some, Option.some.injEq] at hi
    exact ⟨l, rfl, lookupKey_some key hi⟩

/-- Projecting strictly increasing keys through `lookupKey` gives the input back. -/
theorem filterMap_lookupKey : ∀ (ks : List Int) (l : List α), ks.Pairwise (· < ·) → StrictInc key l →
    (∀ a ∈ l, key a ∈ ks) → ks.filterMap (fun k => lookupKey key k l) = l
  | [], l, _, _, h => by
    cases l with
    | nil => rfl
    | cons a t => have := h a (by simp); simp at this
  | k :: ks, l, hk, hs, h => by
    have hks : ∀ k' ∈ ks, k < k' := (pairwise_cons.mp hk).1
    cases l with
    | nil =>
      rw [filterMap_eq_nil_iff]; intro k' _; simp [lookupKey]
    | cons a t =>
      have hat : ∀ b ∈ t, key a < key b := (pairwise_cons.mp hs).1
      by_cases hak : key a = k
      · rw [filterMap_cons]
        have h1 : lookupKey key k (a :: t) = some a := by simp [lookupKey, hak]
        rw [h1]
        simp only []
        congr 1
        have ih := filterMap_lookupKey ks t (pairwise_cons.mp hk).2 (pairwise_cons.mp hs).2 (by
          intro b hb
          have := h b (by simp [hb])
          rcases mem_cons.mp this with h' | h'
          · have := hat b hb; omega
          · exact h')
        refine Eq.trans (filterMap_congr' ks ?_) ih
        intro k' hk'
        have : (key a == k') = false := by
          have := hks k' hk'; simp only [beq_eq_false_iff_ne]; omega
        simp [lookupKey, this]
      · have hgt : ∀ b ∈ a :: t, k < key b := by
          have ha : key a ∈ k :: ks := h a (by simp)
          have hka : k < key a := by
            rcases mem_cons.mp ha with h' | h'
            · exact absurd h' hak
            · exact hks _ h'
          intro b hb
          rcases mem_cons.mp hb with rfl | hb
          · exact hka
          · have := hat b hb; omega
        rw [filterMap_cons, lookupKey_none_of_above key k (a :: t) hgt]
        simp only []
        apply filterMap_lookupKey ks (a :: t) (pairwise_cons.mp hk).2 hs
        intro b hb
        have := h b hb
        rcases mem_cons.mp this with h' | h'
        · have := hgt b hb; omega
        · exact h'

/-- **The full join contains every input element exactly once**: reading slot `i` of the delivered rows from top
to bottom, skipping the absent ones, gives back input `i` — same elements, same order, no repetition. -/
theorem C09_full_slot_projection (ins : List (List α)) (hs : ∀ l ∈ ins, StrictInc key l)
    (i : Nat) (l : List α) (hi : ins[i]? = some l) :
    (fullJoinMultiple key ins).1.filterMap (fun row => (row[i]?).join) = l := by
  rw [C09_joinN_full key ins hs]
  simp only [fullJoinN_eq, filterMap_map]
  have hl : l ∈ ins := mem_of_getElem? hi
  rw [← filterMap_lookupKey key (keysUnion key ins) l (strict_keysUnion key ins) (hs l hl)
    (fun a ha => (mem_keysUnion key ins _).mpr ⟨l, hl, a, ha, rfl⟩)]
  apply filterMap_congr'
  intro k _
  simp [getElem?_map, hi]

/-- Inner join rows: one element per input, all with the key of the row's first element, each from its own input. -/
theorem C09_inner_row_key (ins : List (List α)) (row : List α) (h : row ∈ innerJoinN key ins) :
    row.length = ins.length ∧ ∃ k, ∀ (i : Nat) (a : α), row[i]? = some a → ∃ l, ins[i]? = some l ∧ a ∈ l ∧ key a = k := by
  cases ins with
  | nil => simp [innerJoinN] at h
  | cons first others =>
    simp only [innerJoinN, mem_filterMap, Option.map_eq_some_iff] at h
    obtain ⟨a, ha, v, hv, rfl⟩ := h
    have hvs : ∀ (L : List (Option α)) (v : List α), allSome L = some v → L = v.map some := by
      intro L
      induction L with
      | nil => intro v h; simp [allSome] at h; subst h; rfl
      | cons o L ih =>
        intro v h
        cases o with
        | none => simp [allSome] at h
        | some x =>
          simp only [allSome, Option.map_eq_some_iff] at h
          obtain ⟨v', hv', rfl⟩ := h
          rw [ih v' hv']; rfl
    have hmap := hvs _ _ hv
    have hlen : v.length = others.length := by
      have := congrArg List.length hmap; simpa using this.symm
    refine ⟨by simp [hlen], key a, ?_⟩
    intro i x hx
    cases i with
    | zero => simp at hx; subst hx; exact ⟨first, rfl, ha, rfl⟩
    | succ i =>
      simp only [getElem?_cons_succ] at hx ⊢
      have : (others.map (lookupKey key (key a)))[i]? = some (some x) := by rw [hmap]; simp [hx]
      rw [getElem?_map] at this
      cases hl : others[i]? with
      | none => simp [hl] at this
      | some l =>
        simp only [hl, Option.map_some, Option.some.injEq] at this
        exact ⟨l, rfl, lookupKey_some key this⟩

/-- Inner join: there is a row for an element of the first input iff every other input has its key. -/
theorem C09_inner_rows (first : List α) (others : List (List α)) :
    (innerJoinN key (first :: others)).filterMap head?
      = first.filter (fun a => others.all (fun l => l.any (fun b => key b == key a))) := by
  have hall : ∀ (k : Int) (L : List (List α)),
      (allSome (L.map (lookupKey key k))).isSome = L.all (fun l => l.any (fun b => key b == k)) := by
    intro k L
    induction L with
    | nil => rfl
    | cons l L ih =>
      simp only [map_cons, all_cons]
      cases hl : lookupKey key k l with
      | none =>
        have : l.any (fun b => key b == k) = false := by
          unfold lookupKey at hl
          rw [find?_eq_none] at hl
          rw [any_eq_false]; intro b hb; simpa using hl b hb
        simp [allSome, this]
      | some x =>
        have : l.any (fun b => key b == k) = true := by
          have := lookupKey_some key hl
          rw [any_eq_true]; exact ⟨x, this.1, by simpa using this.2⟩
        simp only [allSome, this, Bool.true_and, ← ih]
        cases allSome (L.map (lookupKey key k)) <;> rfl
  simp only [innerJoinN]
  induction first with
  | nil => rfl
  | cons a t ih =>
    rw [filterMap_cons, filter_cons, ← hall (key a) others]
    cases h : allSome (others.map (lookupKey key (key a))) with
    | none => simpa using ih
    | some v => simpa using ih

/-- Left join rows: the other slots hold elements of their own input with the left element's key. -/
theorem C09_left_row_key (first : List α) (others : List (List α)) (a : α) (os : List (Option α))
    (h : (a, os) ∈ leftJoinN key (first :: others)) :
    a ∈ first ∧ os.length = others.length ∧
    ∀ (i : Nat) (b : α), os[i]? = some (some b) → ∃ l, others[i]? = some l ∧ b ∈ l ∧ key b = key a := by
  simp only [leftJoinN, mem_map, Prod.mk.injEq] at h
  obtain ⟨a', ha', rfl, rfl⟩ := h
  refine ⟨ha', by simp, ?_⟩
  intro i b hi
  rw [getElem?_map] at hi
  cases hl : others[i]? with
  | none => simp [hl] at hi
  | some l =>
    simp only [hl, Option.map_some, Option.some.injEq] at hi
    exact ⟨l, rfl, lookupKey_some key hi⟩

/-- Left join: exactly one row per element of the first input, in order. -/
theorem C09_left_covers (ins : List (List α)) (hs : ∀ l ∈ ins, NonDec key l) (first : List α)
    (h0 : ins.head? = some first) : (leftJoinMultiple key ins).1.map Prod.fst = first := by
  rw [C09_joinN_left key ins hs]
  cases ins with
  | nil => simp at h0
  | cons f others =>
    simp only [head?_cons, Option.some.injEq] at h0; subst h0
    simp [leftJoinN, Function.comp_def]

end corollaries

/-! ## Timeseries wrappers and the datasource joiners -/
section wrappers
variable {ν τ : Type}

/-- The comparator of the wrappers: records are compared by timestamp. -/
abbrev tk : TsRec ν → Int := fun r => r.1

theorem mem_getElem? {γ : Type} {l : List γ} {x : γ} (h : x ∈ l) : ∃ i : Nat, l[i]? = some x := by
  obtain ⟨i, hi, rfl⟩ := mem_iff_getElem.mp h
  exact ⟨i, by simp [hi]⟩

/-- **`FullJoinStreams` stamps each row with the common timestamp**: on strictly increasing inputs the output is
the full join, the record of key `k` is stamped `k`, and every record that went into it carries timestamp `k`. -/
theorem C09_ts_full (joiner : List (Option ν) → τ) (ins : List (List (TsRec ν)))
    (hs : ∀ l ∈ ins, StrictInc (tk (ν := ν)) l) :
    tsFullJoin joiner ins
      = ((fullJoinNK (tk (ν := ν)) ins).map (fun p => (p.1, joiner (p.2.map (fun o => o.map (fun r => r.2))))), none)
    ∧ ∀ p ∈ fullJoinNK (tk (ν := ν)) ins, ∀ r, some r ∈ p.2 → r.1 = p.1 := by
  have hkey : ∀ p ∈ fullJoinNK (tk (ν := ν)) ins, ∀ r, some r ∈ p.2 → r.1 = p.1 := by
    intro p hp r hr
    obtain ⟨i, hi⟩ := mem_getElem? hr
    obtain ⟨_, _, _, h⟩ := (C09_full_row_key tk ins p.1 p.2 hp).2 i r hi
    exact h
  refine ⟨?_, hkey⟩
  unfold tsFullJoin
  rw [C09_joinN_full _ ins hs]
  simp only [fullJoinN, map_map]
  congr 1
  apply map_congr_left
  intro p hp
  simp only [Function.comp_def]
  congr 1
  -- the first present record exists and carries the row's key
  have hmem : p.1 ∈ (fullJoinNK (tk (ν := ν)) ins).map Prod.fst := mem_map_of_mem hp
  obtain ⟨l, hl, a, ha, hka⟩ := ((C09_full_keys tk ins).2 p.1).mp hmem
  have hrow : p.2 = ins.map (lookupKey tk p.1) := by
    simp only [fullJoinNK, mem_map] at hp
    obtain ⟨k, _, rfl⟩ := hp; rfl
  have hsome : ∃ x, lookupKey (tk (ν := ν)) p.1 l = some x := by
    cases h : lookupKey (tk (ν := ν)) p.1 l with
    | some x => exact ⟨x, rfl⟩
    | none =>
      unfold lookupKey at h
      rw [find?_eq_none] at h
      exact absurd (by simpa using hka) (h a ha)
  obtain ⟨x, hx⟩ := hsome
  have hxmem : x ∈ p.2.filterMap id := by
    rw [mem_filterMap]; exact ⟨some x, by rw [hrow]; exact mem_map.mpr ⟨l, hl, hx⟩, rfl⟩
  cases hh : (p.2.filterMap id).head? with
  | none => rw [head?_eq_none_iff] at hh; rw [hh] at hxmem; simp at hxmem
  | some y =>
    have hy : y ∈ p.2.filterMap id := mem_of_mem_head? hh
    rw [mem_filterMap] at hy
    obtain ⟨oy, hoy, hid⟩ := hy
    simp only [id] at hid; subst hid
    simp [hkey p hp y hoy]

/-- **`InnerJoinStreams`**: the inner join, each row stamped with `records[0].Timestamp`, which is the timestamp of
every record of the row. -/
theorem C09_ts_inner (joiner : List ν → τ) (ins : List (List (TsRec ν)))
    (hs : ∀ l ∈ ins, StrictInc (tk (ν := ν)) l) :
    tsInnerJoin joiner ins
      = ((innerJoinN (tk (ν := ν)) ins).map
          (fun row => ((row.head?.map (fun r => r.1)).getD zeroTime, joiner (row.map (fun r => r.2)))), none)
    ∧ ∀ row ∈ innerJoinN (tk (ν := ν)) ins, ∀ r ∈ row, r.1 = (row.head?.map (fun r => r.1)).getD zeroTime := by
  constructor
  · unfold tsInnerJoin; rw [C09_joinN_inner _ ins hs]
  · intro row hrow r hr
    obtain ⟨_, k, hk⟩ := C09_inner_row_key tk ins row hrow
    obtain ⟨i, hi⟩ := mem_getElem? hr
    obtain ⟨_, _, _, hrk⟩ := hk i r hi
    cases row with
    | nil => simp at hr
    | cons x xs =>
      obtain ⟨_, _, _, hxk⟩ := hk 0 x rfl
      simp only [head?_cons, Option.map_some, Option.getD_some]
      simp only [tk] at hrk hxk; omega

/-- **`LeftJoinStreams`**: the left join, each row stamped with the left record's timestamp, which is also the
timestamp of every other record of the row. -/
theorem C09_ts_left (joiner : ν → List (Option ν) → τ) (ins : List (List (TsRec ν)))
    (hs : ∀ l ∈ ins, NonDec (tk (ν := ν)) l) :
    tsLeftJoin joiner ins
      = ((leftJoinN (tk (ν := ν)) ins).map
          (fun row => (row.1.1, joiner row.1.2 (row.2.map (fun o => o.map (fun r => r.2))))), none)
    ∧ ∀ row ∈ leftJoinN (tk (ν := ν)) ins, ∀ r, some r ∈ row.2 → r.1 = row.1.1 := by
  constructor
  · unfold tsLeftJoin; rw [C09_joinN_left _ ins hs]
  · intro row hrow r hr
    cases ins with
    | nil => simp [leftJoinN] at hrow
    | cons first others =>
      obtain ⟨i, hi⟩ := mem_getElem? hr
      obtain ⟨_, _, _, h⟩ := (C09_left_row_key tk first others row.1 row.2 hrow).2.2 i r hi
      exact h

/-- Padding keeps the columns aligned: if side `i` delivers rows of `widths[i]` cells, a joined row has
`widths.sum` cells whichever sides are absent. -/
theorem padded_length : ∀ (widths : List Nat) (values : List (Option (List Cell))),
    widths.length = values.length →
    (∀ (i : Nat) (row : List Cell), values[i]? = some (some row) → widths[i]? = some row.length) →
    (List.zipWith padSide widths values).flatten.length = widths.sum
  | [], [], _, _ => rfl
  | [], _ :: _, h, _ => by simp at h
  | _ :: _, [], h, _ => by simp at h
  | w :: ws, v :: vs, hlen, h => by
    have ih := padded_length ws vs (by simpa using hlen) (fun i row hi => by
      have := h (i+1) row (by simpa using hi); simpa using this)
    have hw : (padSide w v).length = w := by
      cases v with
      | none => simp [padSide]
      | some row => have := h 0 row rfl; simp at this; simp [padSide, this]
    simp only [zipWith_cons_cons, flatten_cons, length_append, sum_cons, ih, hw]

/-- **`JoinDatasource` (full join)**: one row per timestamp present in any source, stamped with it; the cells are the
sources' rows side by side, an absent source contributing `widths[i]` nils. -/
theorem C09_ds_full (widths : List Nat) (ins : List (List (TsRec (List Cell))))
    (hs : ∀ l ∈ ins, StrictInc (tk (ν := List Cell)) l) :
    dsJoin .full widths ins
      = ((fullJoinNK (tk (ν := List Cell)) ins).map (fun p =>
          (p.1, (List.zipWith padSide widths (p.2.map (fun o => o.map (fun r => r.2)))).flatten)), none) :=
  (C09_ts_full (dsFullJoiner widths) ins hs).1

/-- **`JoinDatasource` (inner join)**: rows of the inner join, cells concatenated. -/
theorem C09_ds_inner (widths : List Nat) (ins : List (List (TsRec (List Cell))))
    (hs : ∀ l ∈ ins, StrictInc (tk (ν := List Cell)) l) :
    dsJoin .inner widths ins
      = ((innerJoinN (tk (ν := List Cell)) ins).map (fun row =>
          ((row.head?.map (fun r => r.1)).getD zeroTime, (row.map (fun r => r.2)).flatten)), none) :=
  (C09_ts_inner dsInnerJoiner ins hs).1

/-- **`JoinDatasource` (left join)**: rows of the left join: the left row followed by the other sides, absent ones
padded with `widths[i+1]` nils. -/
theorem C09_ds_left (widths : List Nat) (ins : List (List (TsRec (List Cell))))
    (hs : ∀ l ∈ ins, NonDec (tk (ν := List Cell)) l) :
    dsJoin .left widths ins
      = ((leftJoinN (tk (ν := List Cell)) ins).map (fun row =>
          (row.1.1, row.1.2 ++ (List.zipWith padSide widths.tail (row.2.map (fun o => o.map (fun r => r.2)))).flatten)),
         none) :=
  (C09_ts_left (dsLeftJoiner widths) ins hs).1

end wrappers

/-! ## The driver's domain test is the theorems' hypothesis -/
section domain
variable {α : Type} (key : α → Int)

theorem isNonDec_iff : ∀ (l : List α), isNonDec key l = true ↔ NonDec key l
  | [] => by simp [isNonDec, NonDec]
  | [_] => by simp [isNonDec, NonDec]
  | a :: b :: r => by
    have ih := isNonDec_iff (b :: r)
    simp only [isNonDec, Bool.and_eq_true, decide_eq_true_eq, ih]
    unfold NonDec
    constructor
    · rintro ⟨hab, hbr⟩
      refine pairwise_cons.mpr ⟨?_, hbr⟩
      intro c hc
      rcases mem_cons.mp hc with rfl | hc
      · exact hab
      · have := (pairwise_cons.mp hbr).1 c hc; omega
    · intro h
      exact ⟨(pairwise_cons.mp h).1 b (by simp), (pairwise_cons.mp h).2⟩

theorem isStrictInc_iff : ∀ (l : List α), isStrictInc key l = true ↔ StrictInc key l
  | [] => by simp [isStrictInc, StrictInc]
  | [_] => by simp [isStrictInc, StrictInc]
  | a :: b :: r => by
    have ih := isStrictInc_iff (b :: r)
    simp only [isStrictInc, Bool.and_eq_true, decide_eq_true_eq, ih]
    unfold StrictInc
    constructor
    · rintro ⟨hab, hbr⟩
      refine pairwise_cons.mpr ⟨?_, hbr⟩
      intro c hc
      rcases mem_cons.mp hc with rfl | hc
      · exact hab
      · have := (pairwise_cons.mp hbr).1 c hc; omega
    · intro h
      exact ⟨(pairwise_cons.mp h).1 b (by simp), (pairwise_cons.mp h).2⟩

end domain

/-! ## The sortedness assertions as the error branch: the full join detects every unsorted input -/
section unsorted
variable {α : Type} (key : α → Int)

theorem firstUnsorted_eq_none : ∀ (ss : List (Src α)) (i : Nat), firstUnsorted key i ss = none →
    ∀ s ∈ ss, ∀ b p, s.buf = some b → s.last = some p → ¬ key b < key p
  | [], _, _ => by intro s hs; simp at hs
  | s0 :: ss, i, h => by
    intro s hs b p hb hp
    unfold firstUnsorted at h
    rcases mem_cons.mp hs with rfl | hs
    · simp only [hb, hp] at h
      intro hlt; simp [hlt] at h
    · refine firstUnsorted_eq_none ss (i+1) ?_ s hs b p hb hp
      split at h
      · split at h
        · simp at h
        · exact h
      · exact h

/-- What has been checked once the full join ends without error: the remainder of the input is non-decreasing and
does not start below the remembered `lastKeys[i]`. -/
def Good (s : Src α) : Prop :=
  NonDec key (remaining s) ∧ ∀ p a, s.last = some p → (remaining s).head? = some a → key p ≤ key a

theorem nonDec_cons_of_head (b : α) (rest : List α) (hr : NonDec key rest)
    (hh : ∀ a, rest.head? = some a → key b ≤ key a) : NonDec key (b :: rest) := by
  refine pairwise_cons.mpr ⟨?_, hr⟩
  intro c hc
  cases rest with
  | nil => simp at hc
  | cons x xs =>
    have hbx := hh x rfl
    rcases mem_cons.mp hc with rfl | hc
    · exact hbx
    · have := (pairwise_cons.mp hr).1 c hc; omega

theorem fullN_no_err_good :
    ∀ (fuel : Nat) (srcs : List (Src α)) (inited : Bool) (llk : Option α) (rows : List (List (Option α))),
      collect (emitFullN key) fuel { inited := inited, lastLeftKey := llk, srcs := srcs } = (rows, none) →
      ∀ s ∈ srcs, Good key s := by
  intro fuel
  induction fuel with
  | zero => intro _ _ _ _ h; simp [collect] at h
  | succ n ih =>
    intro srcs inited llk rows h s hs
    rw [collect_succ, emitFullN_eq] at h
    simp only [] at h
    have hempty : (fill s).buf = none → Good key s := by
      intro hb
      rcases fill_cases s with ⟨_, hr, _⟩ | ⟨b, hb', _⟩
      · rw [Good, hr]; exact ⟨Pairwise.nil, by simp⟩
      · rw [hb] at hb'; simp at hb'
    by_cases hall : ((srcs.map fill).all fun s => s.buf.isNone) = true
    · have := all_eq_true.mp hall (fill s) (mem_map_of_mem hs)
      exact hempty (by simpa using this)
    · simp only [hall, Bool.false_eq_true, if_false] at h
      cases hfu : firstUnsorted key 0 (srcs.map fill) with
      | some i => rw [hfu] at h; simp [collectFrom] at h
      | none =>
        rw [hfu] at h
        simp only [] at h
        have hchk := firstUnsorted_eq_none key _ 0 hfu
        cases hmin : minKey (headKeys key (srcs.map fill)) with
        | none =>
          -- not reached; still fine: no head at all
          have hnil : headKeys key (srcs.map fill) = [] := by
            cases hk : headKeys key (srcs.map fill) with
            | nil => rfl
            | cons k ks => rw [hk] at hmin; simp [minKey] at hmin
          apply hempty
          cases hb : (fill s).buf with
          | none => rfl
          | some b =>
            have : key b ∈ headKeys key (srcs.map fill) :=
              (mem_headKeys key _ _).mpr ⟨fill s, mem_map_of_mem hs, b, hb, rfl⟩
            rw [hnil] at this; simp at this
        | some m =>
          rw [hmin] at h
          simp only [collectFrom, Prod.mk.injEq] at h
          obtain ⟨_, herr⟩ := h
          have hgood' := ih ((srcs.map fill).map (consumeAt key m)) true none _ (Prod.ext rfl herr)
            (consumeAt key m (fill s)) (mem_map_of_mem (mem_map_of_mem hs))
          rcases fill_cases s with ⟨hb, _, _⟩ | ⟨b, hb, hr⟩
          · exact hempty hb
          · by_cases hk : (key b == m) = true
            · -- consumed: the IH speaks about the rest, the assertion about `b` vs `lastKeys[i]`
              have hrem' : remaining (consumeAt key m (fill s)) = (fill s).rest := by
                simp [consumeAt, hb, hk, remaining]
              have hlast' : (consumeAt key m (fill s)).last = some b := by simp [consumeAt, hb, hk]
              rw [Good, hrem'] at hgood'
              refine ⟨?_, ?_⟩
              · rw [hr]
                exact nonDec_cons_of_head key b _ hgood'.1 (fun a ha => hgood'.2 b a hlast' ha)
              · intro p a hp ha
                rw [hr] at ha; simp only [head?_cons, Option.some.injEq] at ha; subst ha
                have := hchk (fill s) (mem_map_of_mem hs) b p hb (by simpa using hp)
                omega
            · have : consumeAt key m (fill s) = fill s := by simp [consumeAt, hb, hk]
              rw [this] at hgood'
              simpa [Good] using hgood'

/-- The fuel of `collect` is never the reason the full join ends (for arbitrary, also unsorted, inputs). -/
theorem fullN_never_fuel :
    ∀ (fuel : Nat) (srcs : List (Src α)) (inited : Bool) (llk : Option α),
      total (srcs.map remaining) < fuel →
      (collect (emitFullN key) fuel { inited := inited, lastLeftKey := llk, srcs := srcs }).2 ≠ some .fuel := by
  intro fuel
  induction fuel with
  | zero => intro _ _ _ h; omega
  | succ n ih =>
    intro srcs inited llk hfuel
    rw [collect_succ, emitFullN_eq]
    simp only []
    split
    · simp [collectFrom]
    · split
      · simp [collectFrom]
      · split
        · simp [collectFrom]
        · rename_i m hmin
          simp only [collectFrom]
          apply ih
          have hrem : ((srcs.map fill).map (consumeAt key m)).map remaining
              = (srcs.map remaining).map (dropIf key m) := by
            rw [map_map, map_map, map_map]; apply map_congr_left; intro s _
            exact remaining_consumeAt_fill key m s
          have hne : headKeys key (srcs.map fill) ≠ [] := by
            intro hnil; rw [hnil] at hmin; simp [minKey] at hmin
          obtain ⟨m', hm', hmem, _⟩ := minKey_spec _ hne
          rw [hmin] at hm'; simp only [Option.some.injEq] at hm'; subst hm'
          obtain ⟨s1, hs1, b, hb, hk⟩ := (mem_headKeys key _ _).mp hmem
          obtain ⟨s, hs, rfl⟩ := mem_map.mp hs1
          have hlt : total ((srcs.map remaining).map (dropIf key m)) < total (srcs.map remaining) := by
            unfold total
            apply sum_length_map_lt
            · intro l _; exact length_dropIf_le key m l
            · refine ⟨remaining s, mem_map_of_mem hs, ?_⟩
              rcases fill_cases s with ⟨hb', _, _⟩ | ⟨b', hb', hr⟩
              · rw [hb] at hb'; simp at hb'
              · rw [hb] at hb'; simp only [Option.some.injEq] at hb'; subst hb'
                rw [hr]; simp [dropIf, hk]
          rw [hrem]; omega

theorem fullN_err_cases :
    ∀ (fuel : Nat) (st : NState α) (e : JErr), (collect (emitFullN key) fuel st).2 = some e →
      e = .fuel ∨ ∃ i, e = .streamUnsorted i := by
  intro fuel
  induction fuel with
  | zero => intro st e h; simp [collect] at h; exact Or.inl h.symm
  | succ n ih =>
    intro st e h
    rw [collect_succ, emitFullN_eq] at h
    split at h
    · simp [collectFrom] at h
    · split at h
      · simp only [collectFrom, Option.some.injEq] at h; exact Or.inr ⟨_, h.symm⟩
      · split at h
        · simp [collectFrom] at h
        · exact ih _ e h

/-- **Unsorted input ⇒ error, never a silently wrong result (full join).** If any input of
`FullJoinMultipleSortedStreams` is not non-decreasing, the stream ends with `stream i is not sorted`. -/
theorem C09_full_unsorted_err (ins : List (List α)) (h : ∃ l ∈ ins, ¬ NonDec key l) :
    ∃ i, (fullJoinMultiple key ins).2 = some (.streamUnsorted i) := by
  obtain ⟨l, hl, hnd⟩ := h
  have hne : ins.isEmpty = false := by cases ins with | nil => simp at hl | cons _ _ => rfl
  have hrem : (ins.map fun l => ({ buf := none, last := none, rest := l } : Src α)).map remaining = ins := by
    rw [map_map]; simp [remaining, Function.comp_def]
  unfold fullJoinMultiple
  simp only [hne, Bool.false_eq_true, if_false]
  cases he : (collect (emitFullN key) (total ins + 1) (initN ins)).2 with
  | none =>
    exfalso; apply hnd
    have := fullN_no_err_good key (total ins + 1) _ false none _ (Prod.ext rfl he)
      { buf := none, last := none, rest := l } (mem_map_of_mem hl)
    simpa [Good, remaining] using this.1
  | some e =>
    rcases fullN_err_cases key _ _ e he with rfl | ⟨i, rfl⟩
    · exact absurd he (fullN_never_fuel key (total ins + 1) _ false none (by rw [hrem]; omega))
    · exact ⟨i, rfl⟩

end unsorted

/-! ## The two-stream left join detects an unsorted left input -/
section unsorted2
variable {α β : Type} (kl : α → Int) (kr : β → Int)

theorem emitLeftJoin_row_shape (s s' : J2 α β) (x : α) (l' : List α) (v : α × Option β)
    (hl : s.left = x :: l') (h : emitLeftJoin kl kr s = .row v s') :
    s'.left = l' ∧ s'.lastLeftKey = kl x ∧ s'.firstElement = false ∧
    (s.firstElement = false → s.lastLeftKey ≤ kl x) := by
  unfold emitLeftJoin at h
  rw [hl] at h
  simp only [] at h
  split at h
  · simp at h
  · rename_i s1 hpre
    have hs1 : s1.firstElement = false ∧ (s.firstElement = false → s.lastLeftKey ≤ kl x) := by
      by_cases hf : s.firstElement = true
      · simp only [hf, if_true] at hpre
        split at hpre <;> (simp only [Option.some.injEq] at hpre; subst hpre; simp [hf])
      · simp only [hf, Bool.false_eq_true, if_false] at hpre
        split at hpre
        · simp at hpre
        · simp only [Option.some.injEq] at hpre; subst hpre
          simp_all
    split at h
    · simp only [Step.row.injEq] at h
      obtain ⟨_, rfl⟩ := h
      exact ⟨by simp, by simp, by simp [hs1.1], hs1.2⟩
    · split at h
      · simp only [Step.row.injEq] at h
        obtain ⟨_, rfl⟩ := h
        exact ⟨by simp, by simp, by simp [hs1.1], hs1.2⟩
      · simp at h
      · split at h <;>
        · simp only [Step.row.injEq] at h
          obtain ⟨_, rfl⟩ := h
          exact ⟨by simp, by simp, by simp [hs1.1], hs1.2⟩

theorem emitLeftJoin_not_eof_fuel (s : J2 α β) (x : α) (l' : List α) (hl : s.left = x :: l') :
    emitLeftJoin kl kr s ≠ .eof ∧ emitLeftJoin kl kr s ≠ .err .fuel := by
  unfold emitLeftJoin
  rw [hl]
  simp only []
  split
  · simp
  · split
    · simp
    · split
      · simp
      · simp
      · split <;> simp

/-- If the left join ends without error, every left element was compared with its predecessor: the left input is
non-decreasing. -/
theorem left2_no_err_good :
    ∀ (fuel : Nat) (s : J2 α β) (rows : List (α × Option β)),
      collect (emitLeftJoin kl kr) fuel s = (rows, none) →
      NonDec kl s.left ∧ (s.firstElement = false → ∀ a, s.left.head? = some a → s.lastLeftKey ≤ kl a) := by
  intro fuel
  induction fuel with
  | zero => intro _ _ h; simp [collect] at h
  | succ n ih =>
    intro s rows h
    rw [collect_succ] at h
    cases hl : s.left with
    | nil => exact ⟨Pairwise.nil, by simp⟩
    | cons x l' =>
      cases hemit : emitLeftJoin kl kr s with
      | eof => exact absurd hemit (emitLeftJoin_not_eof_fuel kl kr s x l' hl).1
      | err e => rw [hemit] at h; simp [collectFrom] at h
      | row v s' =>
        rw [hemit] at h
        simp only [collectFrom, Prod.mk.injEq] at h
        obtain ⟨hl', hk, hf, hle⟩ := emitLeftJoin_row_shape kl kr s s' x l' v hl hemit
        have := ih s' _ (Prod.ext rfl h.2)
        rw [hl'] at this
        refine ⟨nonDec_cons_of_head kl x l' this.1 (fun a ha => ?_), ?_⟩
        · have := this.2 hf a ha; omega
        · intro hf' a ha
          simp only [head?_cons, Option.some.injEq] at ha; subst ha
          exact hle hf'

theorem left2_never_fuel :
    ∀ (fuel : Nat) (s : J2 α β), s.left.length < fuel →
      (collect (emitLeftJoin kl kr) fuel s).2 ≠ some .fuel := by
  intro fuel
  induction fuel with
  | zero => intro _ h; omega
  | succ n ih =>
    intro s hfuel
    rw [collect_succ]
    cases hl : s.left with
    | nil => simp [emitLeftJoin, hl, collectFrom]
    | cons x l' =>
      cases hemit : emitLeftJoin kl kr s with
      | eof => simp [collectFrom]
      | err e =>
        simp only [collectFrom, ne_eq, Option.some.injEq]
        rintro rfl
        exact (emitLeftJoin_not_eof_fuel kl kr s x l' hl).2 hemit
      | row v s' =>
        simp only [collectFrom]
        obtain ⟨hl', _, _, _⟩ := emitLeftJoin_row_shape kl kr s s' x l' v hl hemit
        apply ih
        rw [hl']; rw [hl] at hfuel; simp at hfuel; omega

/-- **Unsorted left input ⇒ error (two-stream left join).** `LeftJoinSortedStreams` pulls every left element, so a
left input that is not non-decreasing always ends in one of the sortedness errors — never in a silently wrong result. -/
theorem C09_left2_unsorted_err [Inhabited β] (l : List α) (r : List β) (h : ¬ NonDec kl l) :
    ∃ e, (leftJoinSorted kl kr l r).2 = some e ∧ e ≠ .fuel := by
  unfold leftJoinSorted
  cases he : (collect (emitLeftJoin kl kr) (l.length + 1) (init2 l r)).2 with
  | none =>
    exact absurd (left2_no_err_good kl kr _ _ _ (Prod.ext rfl he)).1 h
  | some e =>
    refine ⟨e, rfl, ?_⟩
    rintro rfl
    exact left2_never_fuel kl kr (l.length + 1) (init2 l r) (by simp [init2]) he

end unsorted2

/-! ## Whatever the inputs (sorted or not), the two-stream joins never pair elements of different keys -/
section soundAny
variable {α β : Type} (kl : α → Int) (kr : β → Int)

theorem collect_rows_inv {σ ρ : Type} (emit : σ → Step σ ρ) (P : σ → Prop) (Q : ρ → Prop)
    (hstep : ∀ s v s', P s → emit s = .row v s' → Q v ∧ P s') :
    ∀ (fuel : Nat) (s : σ), P s → ∀ v ∈ (collect emit fuel s).1, Q v := by
  intro fuel
  induction fuel with
  | zero => intro s _ v hv; simp [collect] at hv
  | succ n ih =>
    intro s hs v hv
    rw [collect_succ] at hv
    cases hemit : emit s with
    | eof => rw [hemit] at hv; simp [collectFrom] at hv
    | err e => rw [hemit] at hv; simp [collectFrom] at hv
    | row v' s' =>
      rw [hemit] at hv
      obtain ⟨hq, hp⟩ := hstep s v' s' hs hemit
      simp only [collectFrom, mem_cons] at hv
      rcases hv with rfl | hv
      · exact hq
      · exact ih s' hp v hv

/-- The memo of the right side stays an element of the right input, with its own key. -/
theorem advRight_any (r0 : List β) (lk : Int) : ∀ (r : List β) (lrk : Int) (lrv : β),
    lrk = kr lrv → lrv ∈ r0 → (∀ b ∈ r, b ∈ r0) →
    (∀ lrk' lrv' r', advRight kr lk lrk lrv r = .stop lrk' lrv' r' →
      lrk' = kr lrv' ∧ lrv' ∈ r0 ∧ ∀ b ∈ r', b ∈ r0)
  | [], lrk, lrv, hk, hm, _ => by
    intro lrk' lrv' r' h
    unfold advRight at h
    split at h
    · simp at h
    · simp only [AdvR.stop.injEq] at h; obtain ⟨rfl, rfl, rfl⟩ := h; exact ⟨hk, hm, by simp⟩
  | y :: r, lrk, lrv, hk, hm, hr => by
    intro lrk' lrv' r' h
    unfold advRight at h
    split at h
    · split at h
      · simp at h
      · exact advRight_any r0 lk r (kr y) y rfl (hr y (by simp)) (fun b hb => hr b (by simp [hb])) lrk' lrv' r' h
    · simp only [AdvR.stop.injEq] at h; obtain ⟨rfl, rfl, rfl⟩ := h; exact ⟨hk, hm, hr⟩

/-- State invariant: everything the operator holds comes from the inputs. -/
def FromInputs (l0 : List α) (r0 : List β) (s : J2 α β) : Prop :=
  (s.firstElement = false → s.lastRightKey = kr s.lastRightValue ∧ s.lastRightValue ∈ r0) ∧
  (∀ a ∈ s.left, a ∈ l0) ∧ (∀ b ∈ s.right, b ∈ r0)

theorem joinLoop_any (l0 : List α) (r0 : List β) : ∀ (l : List α) (x : α) (lrk : Int) (lrv : β) (r : List β)
    (v : α × β) (s' : J2 α β), x ∈ l0 → (∀ a ∈ l, a ∈ l0) → lrk = kr lrv → lrv ∈ r0 → (∀ b ∈ r, b ∈ r0) →
    joinLoop kl kr x (kl x) lrk lrv l r = .row v s' →
    (v.1 ∈ l0 ∧ v.2 ∈ r0 ∧ kl v.1 = kr v.2) ∧ FromInputs kr l0 r0 s' := by
  intro l
  induction l with
  | nil =>
    intro x lrk lrv r v s' hx hl hk hm hr h
    unfold joinLoop at h
    split at h
    · simp at h
    · simp at h
    · rename_i lrk' lrv' r' hadv
      obtain ⟨hk', hm', hr'⟩ := advRight_any kr r0 (kl x) r lrk lrv hk hm hr lrk' lrv' r' hadv
      split at h
      · rename_i heq
        simp only [Step.row.injEq] at h
        obtain ⟨rfl, rfl⟩ := h
        exact ⟨⟨hx, hm', by rw [← hk']; simpa using heq⟩, ⟨fun _ => ⟨hk', hm'⟩, hl, hr'⟩⟩
      · simp at h
  | cons x' l ih =>
    intro x lrk lrv r v s' hx hl hk hm hr h
    unfold joinLoop at h
    split at h
    · simp at h
    · simp at h
    · rename_i lrk' lrv' r' hadv
      obtain ⟨hk', hm', hr'⟩ := advRight_any kr r0 (kl x) r lrk lrv hk hm hr lrk' lrv' r' hadv
      split at h
      · rename_i heq
        simp only [Step.row.injEq] at h
        obtain ⟨rfl, rfl⟩ := h
        exact ⟨⟨hx, hm', by rw [← hk']; simpa using heq⟩, ⟨fun _ => ⟨hk', hm'⟩, hl, hr'⟩⟩
      · simp only [] at h
        split at h
        · simp at h
        · exact ih x' lrk' lrv' r' v s' (hl x' (by simp)) (fun a ha => hl a (by simp [ha])) hk' hm' hr' h

/-- **Never a wrong row (two-stream inner join)**: for arbitrary inputs — unsorted, duplicate keys, anything — every
delivered pair consists of a left and a right element of the inputs with equal keys. -/
theorem C09_join2_inner_sound_any [Inhabited β] (l : List α) (r : List β) (p : α × β)
    (hp : p ∈ (joinSorted kl kr l r).1) : p.1 ∈ l ∧ p.2 ∈ r ∧ kl p.1 = kr p.2 := by
  unfold joinSorted at hp
  refine collect_rows_inv (emitJoin kl kr) (FromInputs kr l r) (fun v => v.1 ∈ l ∧ v.2 ∈ r ∧ kl v.1 = kr v.2)
    ?_ _ (init2 l r) ⟨by simp [init2], by simp [init2], by simp [init2]⟩ p hp
  intro s v s' hs hemit
  obtain ⟨hmemo, hleft, hright⟩ := hs
  unfold emitJoin at hemit
  split at hemit
  · simp at hemit
  · rename_i x l' hl
    have hx : x ∈ l := hleft x (by rw [hl]; simp)
    have hl'' : ∀ a ∈ l', a ∈ l := fun a ha => hleft a (by rw [hl]; simp [ha])
    split at hemit
    · split at hemit
      · simp at hemit
      · rename_i y r' hr
        exact joinLoop_any kl kr l r l' x (kr y) y r' v s' hx hl'' rfl (hright y (by rw [hr]; simp))
          (fun b hb => hright b (by rw [hr]; simp [hb])) hemit
    · rename_i hf
      split at hemit
      · simp at hemit
      · have hmm := hmemo (by simpa using hf)
        exact joinLoop_any kl kr l r l' x s.lastRightKey s.lastRightValue s.right v s' hx hl'' hmm.1 hmm.2 hright hemit

end soundAny

/-! ## Non-vacuity: concrete non-trivial inputs meet the hypotheses, and the model computes what the spec says -/
section examples

abbrev E := Int × Nat
abbrev ek : E → Int := fun e => e.1

/-- left duplicates (2,2), unmatched keys on both sides (1; 0,3), the right side exhausted before the left (7,7). -/
def exL : List E := [(1,0),(2,1),(2,2),(5,3),(7,4),(7,5)]
def exR : List E := [(0,10),(2,11),(3,12),(5,13)]

example : NonDec ek exL ∧ StrictInc ek exR :=
  ⟨(isNonDec_iff ek exL).mp (by decide), (isStrictInc_iff ek exR).mp (by decide)⟩
example : joinSorted ek ek exL exR = ([((2,1),(2,11)), ((2,2),(2,11)), ((5,3),(5,13))], none) := by decide
example : innerJoin2 ek ek exL exR = [((2,1),(2,11)), ((2,2),(2,11)), ((5,3),(5,13))] := by decide
example : leftJoinSorted ek ek exL exR
    = ([((1,0),none), ((2,1),some (2,11)), ((2,2),some (2,11)), ((5,3),some (5,13)), ((7,4),none), ((7,5),none)], none) := by
  decide

/-- three inputs: key 2 in all, 1 and 4 in some, an empty-after-first-element input. -/
def exIns : List (List E) := [[(1,0),(2,1),(4,2)], [(2,3),(3,4),(4,5)], [(2,6)]]

theorem exIns_strict : ∀ l ∈ exIns, StrictInc ek l := by
  intro l hl
  simp only [exIns, mem_cons, not_mem_nil, or_false] at hl
  rcases hl with rfl | rfl | rfl <;> exact (isStrictInc_iff ek _).mp (by decide)
example : joinMultiple ek exIns = ([[(2,1),(2,3),(2,6)]], none) := by decide
example : leftJoinMultiple ek exIns
    = ([((1,0),[none,none]), ((2,1),[some (2,3), some (2,6)]), ((4,2),[some (4,5), none])], none) := by decide
example : fullJoinMultiple ek exIns
    = ([[some (1,0),none,none], [some (2,1),some (2,3),some (2,6)], [none,some (3,4),none],
        [some (4,2),some (4,5),none]], none) := by decide
example : fullJoinN ek exIns
    = [[some (1,0),none,none], [some (2,1),some (2,3),some (2,6)], [none,some (3,4),none],
       [some (4,2),some (4,5),none]] := by decide

/-- the sortedness assertions are the error branch: unsorted inputs end in an error after the rows delivered so far. -/
example : joinSorted ek ek [(1,0),(3,1),(2,2)] [(1,10),(2,11),(3,12)]
    = ([((1,0),(1,10)), ((3,1),(3,12))], some .leftUnsorted) := by decide
example : fullJoinMultiple ek [[(1,0),(3,1),(2,2)], [(2,3)]]
    = ([[some (1,0),none], [none,some (2,3)], [some (3,1),none]], some (.streamUnsorted 0)) := by decide

/-- wrappers: rows stamped with the common timestamp; datasource rows padded with nils. -/
example : tsFullJoin (fun vs => vs) [[(1,100),(2,101)], [(2,200)]]
    = ([(1,[some 100,none]), (2,[some 101,some 200])], none) := by decide
example : dsJoin .full [2,1] [[(1,[some 8,some 9])], [(2,[some 16])]]
    = ([(1,[some 8,some 9,none]), (2,[none,none,some 16])], none) := by decide

end examples

end ShpanVerif.Props.C09
