/-
C01 — every opened resource is closed exactly once, on every exit path.

Main theorem (statement in Props/PipeStatements.lean, proved here at full strength):

  `C01_bracket : C01_statement`
      for every fuel, consumer, pipeline (every composition of src / lifecycle / map / filter / limit / skip /
      concat / zip / merge / window / cluster, any nesting depth) and every world — i.e. every fault kind at
      every call position (Open, Emit, mapper, predicate, cluster factory, consumer), cancelled or not —:
      a terminal operation that starts with the pipeline's resources closed either runs out of model fuel
      or ends with `bad = false` (no Open of an open resource, no Close / Emit of a closed one), the open
      set exactly as before (all resources closed again), and the operator object `Closed`.

Corollaries:
  `C01_rematerialise`     the hypotheses of `C01_bracket` hold again afterwards (next materialisation)
  `C01_open_rollback`     a failed / panicking open phase leaves nothing open (roll-back), at any depth
  `C01_pull_keeps_open`   no pull (whatever it returns) closes or re-opens anything behind the terminal's back:
                          a later close finds exactly what the open phase opened
  `C01_foreign_untouched` resources that do not belong to the pipeline are never touched
Trace-level reading (Proofs/PipeC01Trace.lean: `replay`, `resRun`):
  `replay_call/openRes/closeRes/emitRes`  the probe primitives keep `(isOpen, bad)` = `replay trace`
  `consume_traced`        … hence so does every terminal operation (`consume_inv`: any world predicate kept by
                          the primitives is kept by the whole interpreter)
  `replay_resRun`         `bad = false` ⇔ for EVERY resource the event projection is accepted by the
                          automaton closed —openOk→ open —emit*→ open —close→ closed; and then `isOpen r` =
                          "the projection ends inside a window"
  `C01_trace`             the trace of a terminal operation started with everything closed is accepted for
                          every resource and ends outside every window, i.e. its projection on each resource is
                          in (openOk emit* close)* (failed Opens and call markers skipped): each successful
                          Open has exactly one Close, after it, with all Emits in between; a failed Open none.
  `C01_trace_init`        … in particular from the initial world with ANY fault plan / cancellation.

Proof: Proofs/PipeC01Defs.lean (invariant `Op`/`Cl`/`St`, frame `Keep`), PipeC01Close.lean (`closeP`),
PipeC01Spec/Open/Emit/Main.lean (simultaneous induction on fuel over the ten mutually recursive functions).
-/
import ShpanVerif.Props.PipeStatements
import ShpanVerif.Proofs.PipeC01Main
import ShpanVerif.Proofs.PipeC01Trace

namespace ShpanVerif.Props.C01
open ShpanVerif.Model.Pipe ShpanVerif.Proofs.PipeC01 ShpanVerif.Props

/-- **C01**, full statement. -/
theorem C01_bracket : C01_statement := by
  intro fuel c p w hclosed hn hb hz
  rcases consume_spec fuel c p w ⟨hclosed, hz⟩ hn hb with h | ⟨hid, hk, hcl⟩
  · exact Or.inl h
  · refine Or.inr ⟨hk.bad, fun r => ?_, hcl.1⟩
    by_cases hr : r ∈ ids p
    · rw [hz r hr]; exact hcl.2 r (hid ▸ hr)
    · exact hk.frame r hr

/-- The hypotheses of `C01_bracket` are re-established by every terminal operation, so the theorem applies
to every later materialisation of the same operator object as well (any history). -/
theorem C01_rematerialise (fuel : Nat) (c : Consumer) (p : Pipe) (w : World)
    (hclosed : Closed p) (hn : (ids p).Nodup) (hb : w.bad = false) (hz : ∀ r ∈ ids p, w.isOpen r = false) :
    (consume fuel c p w).1 = .oof ∨
      (Closed (consume fuel c p w).2.1 ∧ ids (consume fuel c p w).2.1 = ids p ∧
        (ids (consume fuel c p w).2.1).Nodup ∧ (consume fuel c p w).2.2.bad = false ∧
        ∀ r ∈ ids (consume fuel c p w).2.1, (consume fuel c p w).2.2.isOpen r = false) := by
  rcases consume_spec fuel c p w ⟨hclosed, hz⟩ hn hb with h | ⟨hid, hk, hcl⟩
  · exact Or.inl h
  · exact Or.inr ⟨hcl.1, hid, hid ▸ hn, hk.bad, hcl.2⟩

/-- Roll-back of the open phase (defect D3 and its relatives): if `doOpenStream` does not succeed — an
`Open` returned an error or panicked, at any element of any nested sub stream, or cluster's first pull
failed — then everything that had been opened before has been closed, exactly once. -/
theorem C01_open_rollback (fuel : Nat) (p : Pipe) (w : World)
    (hclosed : Closed p) (hn : (ids p).Nodup) (hb : w.bad = false) (hz : ∀ r ∈ ids p, w.isOpen r = false) :
    (openP fuel p w).1 = .oof ∨ (openP fuel p w).1 = .val () ∨
      ((openP fuel p w).2.2.bad = false ∧ (∀ r, (openP fuel p w).2.2.isOpen r = w.isOpen r) ∧
        Closed (openP fuel p w).2.1) := by
  have h1 := (allSpec fuel).openP p w ⟨hclosed, hz⟩ hn hb
  generalize openP fuel p w = x at h1
  obtain ⟨res, p1, w1⟩ := x
  have key : res.isOof = false → res.isVal = false →
      w1.bad = false ∧ (∀ r, w1.isOpen r = w.isOpen r) ∧ Closed p1 := by
    intro ho hv
    obtain ⟨hid, hk, hc⟩ := h1 ho
    simp only [hv, Bool.false_eq_true, if_false] at hc
    refine ⟨hk.bad, fun r => ?_, hc.1⟩
    by_cases hr : r ∈ ids p
    · rw [hz r hr]; exact hc.2 r (hid ▸ hr)
    · exact hk.frame r hr
  cases res with
  | val u => exact Or.inr (Or.inl rfl)
  | oof => exact Or.inl rfl
  | eof => exact Or.inr (Or.inr (key rfl rfl))
  | fail e => exact Or.inr (Or.inr (key rfl rfl))
  | panic b => exact Or.inr (Or.inr (key rfl rfl))

/-- Between open and close: after a successful open, any number of pulls — each ending in a value, EOF, an
error or a panic — followed by the deferred close leaves everything closed, `bad` off. (This is the
statement for a caller that drives the provider itself, e.g. an enclosing operator.) -/
theorem C01_pull_keeps_open (fuel1 fuel2 : Nat) (c : Consumer) (p : Pipe) (acc : List V) (w : World)
    (hclosed : Closed p) (hn : (ids p).Nodup) (hb : w.bad = false) (hz : ∀ r ∈ ids p, w.isOpen r = false)
    (hopen : (openP fuel1 p w).1 = .val ()) :
    let p1 := (openP fuel1 p w).2.1
    let w1 := (openP fuel1 p w).2.2
    let x := pullLoop fuel2 c p1 acc w1
    x.1.isOof = true ∨
      ((closeP x.2.2.1 x.2.2.2).2.bad = false ∧ (∀ r, (closeP x.2.2.1 x.2.2.2).2.isOpen r = w.isOpen r) ∧
        Closed (closeP x.2.2.1 x.2.2.2).1) := by
  intro p1 w1 x
  have h1 := (allSpec fuel1).openP p w ⟨hclosed, hz⟩ hn hb
  obtain ⟨hid, hk, hop⟩ := h1 (by rw [hopen]; rfl)
  rw [hopen] at hop
  simp only [Res.isVal, if_true] at hop
  have hn1 : (ids p1).Nodup := hid ▸ hn
  have h2 := pullLoop_spec fuel2 c p1 acc w1 hop hn1 hk.bad
  cases hx : x.1.isOof with
  | true => exact Or.inl rfl
  | false =>
    obtain ⟨hid2, hk2, hop2⟩ := h2 hx
    obtain ⟨hid3, hk3, hcl3⟩ := closeP_spec x.2.2.1 x.2.2.2 hop2 (hid2 ▸ hn1) hk2.bad
    refine Or.inr ⟨hk3.bad, fun r => ?_, hcl3.1⟩
    by_cases hr : r ∈ ids p
    · rw [hz r hr]; exact hcl3.2 r (by rw [hid3, hid2, hid]; exact hr)
    · have hK : Keep (ids p) w (closeP x.2.2.1 x.2.2.2).2 :=
        hk.trans ((hid ▸ hk2).trans (hid ▸ hid2 ▸ hk3))
      exact hK.frame r hr

/-- Resources that are not the pipeline's own are never opened or closed by it (whatever their state). -/
theorem C01_foreign_untouched (fuel : Nat) (c : Consumer) (p : Pipe) (w : World)
    (hclosed : Closed p) (hn : (ids p).Nodup) (hb : w.bad = false) (hz : ∀ r ∈ ids p, w.isOpen r = false) :
    (consume fuel c p w).1 = .oof ∨ ∀ r, r ∉ ids p → (consume fuel c p w).2.2.isOpen r = w.isOpen r := by
  rcases consume_spec fuel c p w ⟨hclosed, hz⟩ hn hb with h | ⟨_, hk, _⟩
  · exact Or.inl h
  · exact Or.inr hk.frame

/-- Trace-level C01: for every resource (of the pipeline or not) the recorded event sequence is accepted by the
per-resource automaton `resRun` and ends in state "closed". -/
theorem C01_trace (fuel : Nat) (c : Consumer) (p : Pipe) (w : World)
    (hclosed : Closed p) (hn : (ids p).Nodup) (htr : Traced w) (hb : w.bad = false)
    (hz : ∀ r, w.isOpen r = false) :
    (consume fuel c p w).1 = .oof ∨ ∀ r, resRun r (consume fuel c p w).2.2.trace = some false := by
  rcases C01_bracket fuel c p w hclosed hn hb (fun r _ => hz r) with h | ⟨hbad, hopen, _⟩
  · exact Or.inl h
  · right
    intro r
    have ht : ((consume fuel c p w).2.2.isOpen, (consume fuel c p w).2.2.bad) =
        replay (consume fuel c p w).2.2.trace := consume_traced fuel c p w htr
    have h2 : (replay (consume fuel c p w).2.2.trace).2 = false := by rw [← ht]; exact hbad
    have h1 : (replay (consume fuel c p w).2.2.trace).1 r = false := by
      rw [← ht]; exact (hopen r).trans (hz r)
    rw [(replay_resRun _).2 h2 r, h1]

/-- … in particular for a terminal operation in the initial world, under any fault plan (any kind at any call
position) and with or without a cancelled context. -/
theorem C01_trace_init (fuel : Nat) (c : Consumer) (p : Pipe) (fault : Option (Nat × FaultKind)) (cancelled : Bool)
    (hclosed : Closed p) (hn : (ids p).Nodup) :
    (consume fuel c p { fault := fault, cancelled := cancelled }).1 = .oof ∨
      ∀ r, resRun r (consume fuel c p { fault := fault, cancelled := cancelled }).2.2.trace = some false :=
  C01_trace fuel c p _ hclosed hn (traced_init fault cancelled 0) rfl (fun _ => rfl)

/-! ### non-vacuity: a three-level pipeline with a panic in an Open position

`lc 9 (concat [zip [src 1, src 2], cluster (src 3)])`.  Call positions: 0 = Open src 1, 1 = Open src 2,
2 = Open lc 9, 3.. = Emits, 8 = Open src 3 (concat switching to its second inner stream, in the middle of a
pull).  The examples are evaluated by the kernel (`decide +kernel`: no compiler, no extra axiom). -/

def exPipe : Pipe :=
  .lc 9 (.concat (.cons (.zip (.cons (.src 1 [1,2] 0) (.cons (.src 2 [3,4] 0) .nil)) 0)
                 (.cons (.cluster 2 .sum none 0 none false (.src 3 [1,2,3,5] 0)) .nil)) 0 false false)

def exWorld (pos : Nat) (k : FaultKind) : World := { fault := some (pos, k) }

def exRun (pos : Nat) (k : FaultKind) : Outcome × Pipe × World := consume 60 .collect exPipe (exWorld pos k)

def Outcome.isErrUser : Outcome → Bool
  | .err .user _ => true
  | _ => false

theorem exPipe_closed : Closed exPipe := by simp [exPipe, Closed, ClosedList]
theorem exPipe_nodup : (ids exPipe).Nodup := by simp [exPipe, ids, idsList]
theorem exWorld_ok (pos k) : (exWorld pos k).bad = false ∧ ∀ r ∈ ids exPipe, (exWorld pos k).isOpen r = false :=
  ⟨rfl, fun _ _ => rfl⟩

/-- the hypotheses of `C01_bracket` are met by a non-trivial input, and the run is not `oof`:
    a panic in the second Open of the zip inside the concat inside the lifecycle wrapper … -/
example : Outcome.isErrUser (exRun 1 .panicErr).1 = true ∧ (exRun 1 .panicErr).2.2.fired = true ∧
    (exRun 1 .panicErr).2.2.bad = false ∧
    (ids exPipe).all (fun r => !(exRun 1 .panicErr).2.2.isOpen r) = true ∧
    (exRun 1 .panicErr).2.2.trace =
      [.call 0, .openOk 1, .call 1, .openFail 2, .close 1] := by decide +kernel

/-- … and a panic in the Open of the cluster's source when concat switches to it in the middle of a pull
    (two rows already delivered): zip's sources were closed at the switch, the lifecycle element at the end. -/
example : Outcome.isErrUser (exRun 8 .panicVal).1 = false ∧ (exRun 8 .panicVal).2.2.fired = true ∧
    (exRun 8 .panicVal).1.delivered.length = 2 ∧
    (exRun 8 .panicVal).2.2.bad = false ∧
    (ids exPipe).all (fun r => !(exRun 8 .panicVal).2.2.isOpen r) = true ∧
    (exRun 8 .panicVal).2.2.trace.filter (fun e => e matches .openOk _ | .openFail _ | .close _) =
      [.openOk 1, .openOk 2, .openOk 9, .close 2, .close 1, .openFail 3, .close 9] := by decide +kernel

/-- the per-resource automaton on that trace: accepted, ends closed (resource 3: only a failed Open) -/
example : [1, 2, 3, 9].map (fun r => resRun r (exRun 8 .panicVal).2.2.trace) =
    [some false, some false, some false, some false] := by decide +kernel

/-- … and it does reject what C01 forbids: a double close, a pull after close, a missing close -/
example : resRun 1 [.openOk 1, .emit 1, .close 1, .close 1] = none ∧
    resRun 1 [.openOk 1, .close 1, .emit 1] = none ∧ resRun 1 [.openOk 1, .openOk 1] = none ∧
    resRun 1 [.openOk 1, .emit 1] = some true ∧ resRun 1 [.openFail 1, .openOk 2, .close 2] = some false := by
  decide

/-- the theorem instantiated at that input: its conclusion, not just its hypotheses -/
example : (exRun 8 .panicVal).2.2.bad = false ∧
    (∀ r, (exRun 8 .panicVal).2.2.isOpen r = (exWorld 8 .panicVal).isOpen r) ∧
    Closed (exRun 8 .panicVal).2.1 := by
  rcases C01_bracket 60 .collect exPipe (exWorld 8 .panicVal) exPipe_closed exPipe_nodup
      (exWorld_ok _ _).1 (exWorld_ok _ _).2 with h | h
  · exact absurd h (by
      have : (match (exRun 8 .panicVal).1 with | .oof => true | _ => false) = false := by decide +kernel
      intro h'; simp only [exRun] at this; rw [h'] at this; exact absurd this (by decide))
  · exact h

end ShpanVerif.Props.C01
