/-
C03 for the asynchronous stages Buffered and JSON pipe: an injected source failure (Open or Emit error) is never
swallowed — over every schedule and cancellation.

Buffered: if a failure was injected and the terminal's result is `nil`, then the downstream had stopped by itself (an
early-stopping terminal never sees what the read-ahead met after it stopped).  JSON pipe: after an injected failure the
write end is never closed cleanly (the reader never sees a well-formed end of document).
-/
import ShpanVerif.Proofs.BufferedLive
import ShpanVerif.Proofs.JsonPipeInv

namespace ShpanVerif.Props.C03
open ShpanVerif.Model.Conc
open ShpanVerif.Model
open ShpanVerif.Proofs

section buffered
open ShpanVerif.Model.Buffered ShpanVerif.Proofs.Buffered

/-- filler pcs on the failure path (or past the end) -/
def failPath : FPc → Bool
  | .closeP false | .closed false | .sendFin .err | .closeCh | .done => true
  | _ => false

structure Surf (s : Buffered.St) : Prop where
  faulted_pc : s.faulted = true → s.fin ≠ some .marker ∧ failPath s.f = true
  ok_clean : s.res = some .ok → s.stopped = false → s.faulted = false ∧ finishedPc s.f = true

set_option maxHeartbeats 4000000 in
theorem surf_step {cfg : Buffered.Cfg} {s s' : Buffered.St} {l : Buffered.Label} (hfix : cfg.fix7 = true)
    (hb : Basic cfg s) (h : Surf s) (hs : Buffered.step cfg s l = some s') : Surf s' := by
  obtain ⟨h1, h2, h3, h4, h5, h6, h7, h8, h9, h10, h10', h10'', h11, h12, h13, h14, h15, h16, h17, h18⟩ := hb
  obtain ⟨a1, a2⟩ := h
  cases l <;> simp only [Buffered.step] at hs <;> (repeat' split at hs) <;> (try (simp at hs)) <;> (try (subst hs)) <;>
    (constructor <;> (try (simp_all [St.ctx1, St.chLen, failPath, finishedPc, okPc])) <;> (try grind))

theorem surf {cfg : Buffered.Cfg} {s : Buffered.St} (hfix : cfg.fix7 = true) (hr : Reachable (Buffered.sys cfg) s) :
    Surf s := by
  have : Basic cfg s ∧ Surf s := by
    refine invariant (sys := Buffered.sys cfg) (P := fun s => Basic cfg s ∧ Surf s) ?_ ?_ s hr
    · exact ⟨basic_init cfg, by constructor <;> simp [Buffered.sys, Buffered.init]⟩
    · intro s l s' h hs
      exact ⟨basic_step h.1 hs, surf_step hfix h.1 h.2 hs⟩
  exact this.2

/-- **Buffered never swallows a source failure**: a failure was injected and the terminal returned `nil` ⇒ the
    downstream stopped by itself.  Every schedule, every cancellation. -/
theorem C03_async_buffered {cfg : Buffered.Cfg} {s : Buffered.St} (hfix : cfg.fix7 = true)
    (hr : Reachable (Buffered.sys cfg) s) (hf : s.faulted = true) (hok : s.res = some .ok) : s.stopped = true := by
  cases hst : s.stopped
  · have := ((surf hfix hr).ok_clean hok hst).1
    simp [hf] at this
  · rfl

/-- non-vacuity: an Emit failure after one delivered element ends in an error -/
example : ∃ s, Reachable (Buffered.sys { n := 3, size := 2, e := 1 }) s ∧
    (s.faulted && s.res == some .errOther && s.delivered == [0]) = true :=
  checkRun_reachable
    (ls := [.fOpenOk, .fCheck, .fEmitVal, .fSend, .cCheck, .cRecv, .cNext, .fCheck, .fEmitErr, .fCloseP, .fClosed,
            .fSendFin, .cCheck, .cRecv]) (by decide)

end buffered

section pipe
open ShpanVerif.Model.JsonPipe ShpanVerif.Proofs.JsonPipe

structure PSurf (s : JsonPipe.St) : Prop where
  faulted_pc : s.faulted = true →
    (s.w = .closeP false ∨ s.w = .closed false ∨ s.w = .cancelC ∨ s.w = .pwClose false ∨ s.w = .done) ∧
    s.pwClosed ≠ some true

set_option maxHeartbeats 4000000 in
theorem psurf_step {cfg : JsonPipe.Cfg} {s s' : JsonPipe.St} {l : JsonPipe.Label} (hb : JsonPipe.Basic cfg s)
    (h : PSurf s) (hs : JsonPipe.step cfg s l = some s') : PSurf s' := by
  obtain ⟨a1⟩ := h
  have hpw := hb.pw_iff
  cases l <;> simp only [JsonPipe.step] at hs <;> (repeat' split at hs) <;> (try (simp at hs)) <;> (try (subst hs)) <;>
    (constructor <;> (try (simp_all)) <;> (try grind))

theorem psurf {cfg : JsonPipe.Cfg} {s : JsonPipe.St} (hr : Reachable (JsonPipe.sys cfg) s) : PSurf s := by
  have : JsonPipe.Basic cfg s ∧ PSurf s := by
    refine invariant (sys := JsonPipe.sys cfg) (P := fun s => JsonPipe.Basic cfg s ∧ PSurf s) ?_ ?_ s hr
    · exact ⟨JsonPipe.basic_init cfg, by constructor; simp [JsonPipe.sys, JsonPipe.init]⟩
    · intro s l s' h hs
      exact ⟨JsonPipe.basic_step h.1 hs, psurf_step h.1 h.2 hs⟩
  exact this.2

/-- **The JSON pipe never presents a failed stream as a complete document**: after an injected source failure the write
    end is never closed cleanly, so the reader gets the error instead of a well-formed end. -/
theorem C03_async_pipe {cfg : JsonPipe.Cfg} {s : JsonPipe.St} (hr : Reachable (JsonPipe.sys cfg) s)
    (hf : s.faulted = true) : s.pwClosed ≠ some true :=
  ((psurf hr).faulted_pc hf).2

end pipe

end ShpanVerif.Props.C03
