/-
C03 for the asynchronous stages Buffered and JSON pipe: an injected source failure (Open or Emit error) is never
swallowed — over every schedule and cancellation.

Buffered: if a failure was injected and the terminal's result is `nil`, then the downstream had stopped by itself (an
early-stopping terminal never sees what the read-ahead met after it stopped).  JSON pipe: after an injected failure the
write end is never closed cleanly (the reader never sees a well-formed end of document).

Concurrent map and concurrent consume (sections `concmap`, `consume`): the same for a source failure or a mapper /
callback failure, any number of them; invariants in Proofs/ConcSurface.lean.
-/
import ShpanVerif.Proofs.BufferedLive
import ShpanVerif.Proofs.JsonPipeInv
import ShpanVerif.Proofs.ConcSurface

namespace ShpanVerif.Props.C03
open ShpanVerif.Model.Conc
open ShpanVerif.Model
open ShpanVerif.Proofs

section buffered
open ShpanVerif.Model.Buffered ShpanVerif.Proofs.Buffered

/-- filler pcs on the failure path (or past the end) -/
def failPath : FPc → Bool
  | .closeP false | .closed false | .sendFin .err | .closeCh | .done => true
  | _ => false

structure Surf (s : Buffered.St) : Prop where
  faulted_pc : s.faulted = true → s.fin ≠ some .marker ∧ failPath s.f = true
  ok_clean : s.res = some .ok → s.stopped = false → s.faulted = false ∧ finishedPc s.f = true

set_option maxHeartbeats 4000000 in
theorem surf_step {cfg : Buffered.Cfg} {s s' : Buffered.St} {l : Buffered.Label} (hfix : cfg.fix7 = true)
    (hb : Basic cfg s) (h : Surf s) (hs : Buffered.step cfg s l = some s') : Surf s' := by
  obtain ⟨h1, h2, h3, h4, h5, h6, h7, h8, h9, h10, h10', h10'', h11, h12, h13, h14, h15, h16, h17, h18⟩ := hb
  obtain ⟨a1, a2⟩ := h
  cases l <;> simp only [Buffered.step] at hs <;> (repeat' split at hs) <;> (try (simp at hs)) <;> (try (subst hs)) <;>
    (constructor <;> (try (simp_all [St.ctx1, St.chLen, failPath, finishedPc, okPc])) <;> (try grind))

theorem surf {cfg : Buffered.Cfg} {s : Buffered.St} (hfix : cfg.fix7 = true) (hr : Reachable (Buffered.sys cfg) s) :
    Surf s := by
  have : Basic cfg s ∧ Surf s := by
    refine invariant (sys := Buffered.sys cfg) (P := fun s => Basic cfg s ∧ Surf s) ?_ ?_ s hr
    · exact ⟨basic_init cfg, by constructor <;> simp [Buffered.sys, Buffered.init]⟩
    · intro s l s' h hs
      exact ⟨basic_step h.1 hs, surf_step hfix h.1 h.2 hs⟩
  exact this.2

/-- **Buffered never swallows a source failure**: a failure was injected and the terminal returned `nil` ⇒ the
    downstream stopped by itself.  Every schedule, every cancellation. -/
theorem C03_async_buffered {cfg : Buffered.Cfg} {s : Buffered.St} (hfix : cfg.fix7 = true)
    (hr : Reachable (Buffered.sys cfg) s) (hf : s.faulted = true) (hok : s.res = some .ok) : s.stopped = true := by
  cases hst : s.stopped
  · have := ((surf hfix hr).ok_clean hok hst).1
    simp [hf] at this
  · rfl

/-- non-vacuity: an Emit failure after one delivered element ends in an error -/
example : ∃ s, Reachable (Buffered.sys { n := 3, size := 2, e := 1 }) s ∧
    (s.faulted && s.res == some .errOther && s.delivered == [0]) = true :=
  checkRun_reachable
    (ls := [.fOpenOk, .fCheck, .fEmitVal, .fSend, .cCheck, .cRecv, .cNext, .fCheck, .fEmitErr, .fCloseP, .fClosed,
            .fSendFin, .cCheck, .cRecv]) (by decide)

end buffered

section pipe
open ShpanVerif.Model.JsonPipe ShpanVerif.Proofs.JsonPipe

structure PSurf (s : JsonPipe.St) : Prop where
  faulted_pc : s.faulted = true →
    (s.w = .closeP false ∨ s.w = .closed false ∨ s.w = .cancelC ∨ s.w = .pwClose false ∨ s.w = .done) ∧
    s.pwClosed ≠ some true

set_option maxHeartbeats 4000000 in
theorem psurf_step {cfg : JsonPipe.Cfg} {s s' : JsonPipe.St} {l : JsonPipe.Label} (hb : JsonPipe.Basic cfg s)
    (h : PSurf s) (hs : JsonPipe.step cfg s l = some s') : PSurf s' := by
  obtain ⟨a1⟩ := h
  have hpw := hb.pw_iff
  cases l <;> simp only [JsonPipe.step] at hs <;> (repeat' split at hs) <;> (try (simp at hs)) <;> (try (subst hs)) <;>
    (constructor <;> (try (simp_all)) <;> (try grind))

theorem psurf {cfg : JsonPipe.Cfg} {s : JsonPipe.St} (hr : Reachable (JsonPipe.sys cfg) s) : PSurf s := by
  have : JsonPipe.Basic cfg s ∧ PSurf s := by
    refine invariant (sys := JsonPipe.sys cfg) (P := fun s => JsonPipe.Basic cfg s ∧ PSurf s) ?_ ?_ s hr
    · exact ⟨JsonPipe.basic_init cfg, by constructor; simp [JsonPipe.sys, JsonPipe.init]⟩
    · intro s l s' h hs
      exact ⟨JsonPipe.basic_step h.1 hs, psurf_step h.1 h.2 hs⟩
  exact this.2

/-- **The JSON pipe never presents a failed stream as a complete document**: after an injected source failure the write
    end is never closed cleanly, so the reader gets the error instead of a well-formed end. -/
theorem C03_async_pipe {cfg : JsonPipe.Cfg} {s : JsonPipe.St} (hr : Reachable (JsonPipe.sys cfg) s)
    (hf : s.faulted = true) : s.pwClosed ≠ some true :=
  ((psurf hr).faulted_pc hf).2

end pipe

section concmap
open ShpanVerif.Model.ConcMap ShpanVerif.Proofs.ConcSurface

/-- **The concurrent map never swallows a failure**: a source failure (Emit error, recovered panic) or a mapper failure
    was injected and the terminal returned `nil` ⇒ the downstream had stopped by itself (Limit / FindFirst: what the
    read-ahead meets after the stop is never seen).  Every schedule, every cancellation, any number of failures.
    Invariant `MSurf` (Proofs/ConcSurface.lean): while the result is undecided and the caller ctx is live the error
    item is in the producer's hand, in srcChan, held by a worker or in tgtChan (channels are FIFO and the consumer
    returns `nil` only on "closed and empty"); it is dropped only at a select whose other branch is a cancelled
    context, and then — with the order of checks of fix 619e47e (`fix24`) — the result is the context's error. -/
theorem C03_async_concmap {cfg : ConcMap.Cfg} {s : ConcMap.St} (hc : 0 < cfg.c) (hfix : cfg.fix24 = true)
    (hr : Reachable (ConcMap.sys cfg) s) (hf : s.faulted = true) (hok : s.res = some .ok) : s.stopped = true := by
  cases hst : s.stopped
  · have := ((msurf hc hfix hr).ok_clean hok hst).1
    simp [hf] at this
  · rfl

/-- the same, read the other way: after an injected failure an undisturbed terminal never reports `nil` -/
theorem C03_async_concmap' {cfg : ConcMap.Cfg} {s : ConcMap.St} (hc : 0 < cfg.c) (hfix : cfg.fix24 = true)
    (hr : Reachable (ConcMap.sys cfg) s) (hf : s.faulted = true) (hns : s.stopped = false) : s.res ≠ some .ok := by
  intro hok
  have := C03_async_concmap hc hfix hr hf hok
  simp [hns] at this

/-- non-vacuity: a source failure travels producer → srcChan → worker → tgtChan → consumer -/
example : ∃ s, Reachable (ConcMap.sys { n := 1, c := 1, e := 1 }) s ∧
    (s.faulted && s.res == some .errOther && !s.stopped) = true :=
  checkRun_reachable (ls := [.cCheck, .pTop, .pEmitErr, .pSend, .wRecv, .wSend .err, .cRecv]) (by decide)

/-- non-vacuity: a mapper failure after one delivered element -/
example : ∃ s, Reachable (ConcMap.sys { n := 2, c := 2 }) s ∧
    (s.faulted && s.res == some .errOther && !s.stopped && s.delivered == [0]) = true :=
  checkRun_reachable
    (ls := [.pTop, .pEmitVal, .pSend, .pTop, .pEmitVal, .pSend, .wRecv, .wRecv, .wMapOk 0, .wMapErr 1, .wSend (.val 0),
            .wSend .err, .cCheck, .cRecv, .cNext, .cCheck, .cRecv]) (by decide)

/-- non-vacuity of the hypotheses (and the `stopped` conclusion is needed): the downstream stops after the first
    element, the read-ahead then meets a source failure that nobody will see -/
example : ∃ s, Reachable (ConcMap.sys { n := 2, c := 1, e := 1 }) s ∧
    (s.faulted && s.res == some .ok && s.stopped) = true :=
  checkRun_reachable
    (ls := [.pTop, .pEmitVal, .pSend, .wRecv, .wMapOk 0, .wSend (.val 0), .cCheck, .cRecv, .cStop, .pTop, .pEmitErr])
    (by decide)

/-- the statement depends on the order of checks of fix 619e47e (finding D24): with the earlier order (eofCtx before
    ctx) a source failure followed by io.EOF, then a cancellation that makes the worker leave the error item in srcChan,
    ends in `nil` — the failure is swallowed. -/
def d24SwallowSchedule : List ConcMap.Label :=
  [.cCheck, .pTop, .pEmitErr, .pSend, .pTop, .pEmitEof, .pStop, .pCloseSrc, .cancel, .wExitCtx, .pWait, .cClosed]

theorem C03_witness_concmap_swallow_prefix :
    ∃ s, Reachable (ConcMap.sys { n := 0, c := 1, e := 1, fix24 := false }) s ∧
      (s.faulted && s.res == some .ok && !s.stopped) = true :=
  checkRun_reachable (ls := d24SwallowSchedule) (by decide)

/-- the same schedule on the code as it is gives the context's error -/
example : ∃ s, Reachable (ConcMap.sys { n := 0, c := 1, e := 1 }) s ∧ (s.faulted && s.res == some .errCtx) = true :=
  checkRun_reachable (ls := d24SwallowSchedule) (by decide)

end concmap

section consume
open ShpanVerif.Model.ConcConsume ShpanVerif.Proofs.ConcSurface

/-- **The concurrent consume terminal never swallows a failure**: after a source failure or a callback failure was
    injected the terminal never returns `nil` (there is no downstream that could stop by itself, so no exception).
    Every schedule, every cancellation.  Invariant `CSurf` (Proofs/ConcSurface.lean): while no error is recorded and the
    caller ctx is live, the error item is in the producer's hand or in itemChan, and a worker exits only when itemChan
    is closed and drained; the item is dropped or drained away only when workerCtx is cancelled, i.e. `firstErr` is set
    (result: that error) or the caller ctx is cancelled (result: the context's error). -/
theorem C03_async_consume {cfg : ConcConsume.Cfg} {s : ConcConsume.St} (hc : 0 < cfg.c)
    (hr : Reachable (ConcConsume.sys cfg) s) (hf : s.faulted = true) : s.res ≠ some .ok := by
  intro hok
  have := (csurf hc hr).ok_clean hok
  simp [hf] at this

/-- non-vacuity: a source failure reaches a worker and becomes the result -/
example : ∃ s, Reachable (ConcConsume.sys { n := 1, c := 1, e := 1 }) s ∧
    (s.faulted && s.res == some .errOther) = true :=
  checkRun_reachable (ls := [.pCheck, .pEmitErr, .pSend, .wRecv, .pClose, .tWaitWg, .tWaitProd, .tResult]) (by decide)

/-- non-vacuity: a callback failure with a second element still queued (it is drained away) -/
example : ∃ s, Reachable (ConcConsume.sys { n := 2, c := 1 }) s ∧
    (s.faulted && s.res == some .errOther && s.called == [0]) = true :=
  checkRun_reachable
    (ls := [.pCheck, .pEmitVal, .pSend, .wRecv, .pCheck, .pEmitVal, .pSend, .wCbErr 0, .pCheck, .pClose, .tWaitWg,
            .tWaitProd, .tResult]) (by decide)

/-- non-vacuity: the error item is dropped at the producer's select because the caller cancelled: the result is the
    context's error, not `nil` -/
example : ∃ s, Reachable (ConcConsume.sys { n := 1, c := 1, e := 1 }) s ∧
    (s.faulted && s.res == some .errCtx) = true :=
  checkRun_reachable
    (ls := [.pCheck, .pEmitErr, .cancel, .pDrop, .pClose, .wToDrain, .wDrainExit, .tWaitWg, .tWaitProd, .tResult])
    (by decide)

end consume

end ShpanVerif.Props.C03
