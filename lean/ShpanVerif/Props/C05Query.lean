/-
C05, tsquery part — planning is pure.

In the model (Model/Query.lean, Model/QueryExec.lean) a plan is data: `planRVal`/`planDVal` return the row function
only on success and never apply it; `execR`/`execD` only compose stream transformers.  The observable content of that
is `C05_planning_pure`: whatever `Execute` returns up to the stream — the error class, or the metadata — is what it
returns for the same query with every input row erased, i.e. no record (and hence no provider) was consulted.
-/
import ShpanVerif.Props.C10

namespace ShpanVerif.Props.C05Query
open ShpanVerif.Model.Query ShpanVerif.Proofs.Query

/-- plans are data: the planning outcome of every query tree of both packages (all filters, joins, bridges, reduction
datasource) is independent of the rows of its static sources -/
theorem C05_planning_pure {D : Type} (O : Ops D) (fix : Bool) (from_ to : Int) :
    (∀ q : RDs D, SameMeta (execR O fix from_ to q) (execR O fix from_ to (eraseR q))) ∧
    (∀ q : DDs D, SameMeta (execD O fix from_ to q) (execD O fix from_ to (eraseD q))) :=
  ShpanVerif.Props.C10.C10_no_pull_on_error O fix from_ to

end ShpanVerif.Props.C05Query
