/-
C17 — derived streams and executed queries never disturb one another (no aliasing).

Substrate (Proofs/SliceLemmas.lean, re-exported here under the registry names):
  * `append_fresh_if_full`, `append_in_place_if_spare`, `clip_append_fresh`, `clip_append_frame`.
Streams (Model/Derive.lean):
  * `C17_stream_immutable`        : for EVERY derivation program (any forest, fan-out, depth, creation order, any
                                    initial capacities, any growth-oracle choices) every stream value denotes its own
                                    derivation path (parent's lifecycle list ++ own element; provider chain).
  * `C17_stream_prefix_stable`    : later derivations never change what an existing stream value denotes.
  * `C17_stream_heap_untouched`   : derivations never write to an existing backing array.
  * `C17_witness_unrepaired_stream` : the pre-repair `append(s.allLifecycleElement, lch)` violates it when len < cap.
  * derivation kinds: WithAdditionalLifecycle / lock (clip + append), Filter / Map / Limit / Skip / Peek (share the slice
    value), concurrent Map (`Kind.concMap`: fresh `[guard]`, then `append` of the parent's list — `cml_spec`).
  * `C17_witness_insert_in_place` : prepending the guard with `slices.Insert(parent's slice, 0, guard)` instead writes
                                    the parent's array when len < cap (the parent loses its last element).
  * `C17_materialise_overlapping` : ANY multiset of stream values of the forest materialised at overlapping times, in
                                    ANY interleaving of their open / close sequences (`Shuffle`; `shuffle_perm`): the
                                    ids opened and the ids closed are, as multisets, the union of the streams' own paths.
Custom-metadata maps: `Props/C17Maps.lean`.
Queries (Model/RowAlias.lean):
  * `C17_query_no_mutation`       : running any row program leaves every pre-existing array — hence every cell seen
                                    through any caller slice, spare capacity included — unchanged.
  * `C17_query_values`            : every register of every row program holds its value-level specification.
  * `C17_capacity_independent`    : same caller values + same program shape ⇒ same results, for all capacities,
                                    layouts and growth-oracle choices.
  * `C17_stage_sharing_irrelevant`: operations run through a pool of shared stage objects = private copies of them
                                    (stages are values in the model; the correspondence check shares the Go objects).
  * `C17_query_prefix_stable`     : whatever is executed later, registers already filled keep their values.
  * `C17_same_pipeline_twice`     : the same source slice + stage list run as two tasks in any interleaving: equal rows.
  * `C17_interleaved`             : any interleaving (schedule) of any number of chain pipelines: every pipeline's
                                    final result is what it would deliver alone; caller arrays untouched.
  * `C17_selectMeta_available`    : what SelectFieldsFilter hands to PrepareField is `meta ++ selected so far`.
  * `C17_witness_unrepaired_rows` : the pre-repair row append violates all of it when len < cap.
  * row operations covered: append / select / left, inner, full join (clip + append or nil slice + append), replace
    (ReplaceField rows, ReplaceField / OverrideFieldMetadata metadata), drop (DropFields), single (SingleField and the
    ToDatasource/FromDatasource bridges), copy (forward fill), combine (interpolation of two rows; delta / rate through
    the bridges) — all `make` + fill; handing a slice on (OverrideFieldMetadata rows, Condition, aligned data periods,
    the aligner's metadata) is no operation at all.  Value suppliers: const, ref, nvl, numeric expression, selector over a
    condition, cast — functions of the row's values.
  * `C17_witness_replace_in_place` : building the replaced row with `append(row[:i], v)`, `append(·, row[i+1:]...)`
                                    overwrites the caller's cell for EVERY capacity.
-/
import ShpanVerif.Model.Derive
import ShpanVerif.Model.RowAlias
import ShpanVerif.Proofs.SliceLemmas

namespace ShpanVerif.Props.C17
open ShpanVerif.Model.Slice ShpanVerif.Model.Derive ShpanVerif.Model.RowAlias
open ShpanVerif.Proofs.SliceLemmas

/-! ## substrate, under the names of the registry -/

theorem append_fresh_if_full {α : Type} [Inhabited α] {h : Heap α} {s : Slice} {v : α} {g : Nat}
    (hfull : s.len = s.cap) :
    append h s v g =
      (h ++ [view h s ++ [v] ++ List.replicate g default],
       { arr := h.length, off := 0, len := s.len + 1, cap := s.len + 1 + g }) :=
  ShpanVerif.Proofs.SliceLemmas.append_fresh_if_full hfull

theorem append_in_place_if_spare {α : Type} [Inhabited α] {h : Heap α} {s : Slice} {v : α} {g : Nat}
    (hsp : s.len < s.cap) :
    append h s v g = (writeRange h s.arr (s.off + s.len) [v], { s with len := s.len + 1 }) :=
  ShpanVerif.Proofs.SliceLemmas.append_in_place_if_spare hsp

/-- After `slices.Clip`, `append` allocates: old heap ++ one new array; every well-formed slice (any other
    stream's, any caller's) reads the same `view` and the same `extent` (spare cells included) as before. -/
theorem clip_append_fresh {α : Type} [Inhabited α] (h : Heap α) (s : Slice) (v : α) (g : Nat) :
    (append h (clip s) v g).1 = h ++ [view h s ++ [v] ++ List.replicate g default] ∧
    (∀ t : Slice, t.WF h →
      view (append h (clip s) v g).1 t = view h t ∧ extent (append h (clip s) v g).1 t = extent h t) :=
  ⟨(ShpanVerif.Proofs.SliceLemmas.clip_append_fresh h s v g).1, fun _ wt => clip_append_frame s v g wt⟩

/-! ## streams -/

/-- Every stream value's lifecycle slice is a valid slice of the heap. -/
def DWF (st : DState) : Prop := ∀ s ∈ st.streams, s.lc.WF st.heap

instance (st : DState) : Decidable (DWF st) := by unfold DWF; infer_instance

theorem wal_spec {h : Heap Nat} {s : StreamV} (l g : Nat) (w : s.lc.WF h) :
    Extends h (withAdditionalLifecycle h s l g).1 ∧
    (withAdditionalLifecycle h s l g).2.lc.WF (withAdditionalLifecycle h s l g).1 ∧
    view (withAdditionalLifecycle h s l g).1 (withAdditionalLifecycle h s l g).2.lc = view h s.lc ++ [l] ∧
    (withAdditionalLifecycle h s l g).2.prov = s.prov := by
  unfold withAdditionalLifecycle append
  refine ⟨(appendMany_owned [l] g (extends_refl h) (owned_clip h s.lc)).1,
    WF_appendMany [l] g (WF_clip w), ?_, rfl⟩
  simpa [view_clip] using view_appendMany [l] g (WF_clip w)

/-- `append([]Lifecycle{guard}, parent's list...)` (concurrent_stream.go:44-47): two fresh arrays at most, no existing
    array written, the result reads `guard :: parent's list`. -/
theorem cml_spec {h : Heap Nat} {s : StreamV} (gd g : Nat) (w : s.lc.WF h) :
    Extends h (concMapLifecycle h s gd g).1 ∧
    (concMapLifecycle h s gd g).2.lc.WF (concMapLifecycle h s gd g).1 ∧
    view (concMapLifecycle h s gd g).1 (concMapLifecycle h s gd g).2.lc = gd :: view h s.lc ∧
    (concMapLifecycle h s gd g).2.prov = s.prov ++ [.concMapAdd10] := by
  have e0 : Extends h (allocWith h [gd] 0).1 := extends_push _ _
  have w0 : (allocWith h [gd] 0).2.WF (allocWith h [gd] 0).1 := by
    simp [allocWith, Slice.WF, arrOf_append_new]
  have v0 : view (allocWith h [gd] 0).1 (allocWith h [gd] 0).2 = [gd] := by
    simp [allocWith, view, arrOf_append_new]
  have o0 : Owned h (allocWith h [gd] 0).2 := Or.inr (Nat.le_refl _)
  have hv : view (allocWith h [gd] 0).1 s.lc = view h s.lc := view_extends e0 w
  unfold concMapLifecycle
  refine ⟨(appendMany_owned _ g e0 o0).1, WF_appendMany _ g w0, ?_, rfl⟩
  show view (appendMany _ _ _ g).1 (appendMany _ _ _ g).2 = _
  rw [view_appendMany _ g w0, v0, hv]
  rfl

theorem obsOf_getElem? (st : DState) (i : Nat) :
    (obsOf st)[i]? = (st.streams[i]?).map (fun s => (view st.heap s.lc, s.prov)) := by
  simp [obsOf]

/-- One derivation: well-formedness is kept, no existing array is written, and the denotations are the
    list-level step. -/
theorem derive_step (st : DState) (hwf : DWF st) (op : DOp) :
    DWF (derive st op) ∧ Extends st.heap (derive st op).heap ∧
    obsOf (derive st op) = specDerive (obsOf st) op := by
  unfold derive deriveWith specDerive
  rw [obsOf_getElem?]
  cases hs : st.streams[op.parent]? with
  | none => exact ⟨hwf, extends_refl _, rfl⟩
  | some s =>
    have hsw : s.lc.WF st.heap := hwf s (List.mem_of_getElem? hs)
    have key : ∀ l : Nat,
        DWF { heap := (withAdditionalLifecycle st.heap s l op.grow).1,
              streams := st.streams ++ [(withAdditionalLifecycle st.heap s l op.grow).2] } ∧
        Extends st.heap (withAdditionalLifecycle st.heap s l op.grow).1 ∧
        obsOf { heap := (withAdditionalLifecycle st.heap s l op.grow).1,
                streams := st.streams ++ [(withAdditionalLifecycle st.heap s l op.grow).2] } =
          obsOf st ++ [(view st.heap s.lc ++ [l], s.prov)] := by
      intro l
      obtain ⟨hext, hw, hv, hp⟩ := wal_spec l op.grow hsw
      refine ⟨?_, hext, ?_⟩
      · intro t ht
        rcases List.mem_append.mp ht with ht | ht
        · exact WF_extends hext (hwf t ht)
        · rw [List.mem_singleton.mp ht]; exact hw
      · simp only [obsOf, List.map_append, List.map_cons, List.map_nil, hv, hp]
        congr 1
        apply List.map_congr_left
        intro t ht
        rw [view_extends hext (hwf t ht)]
    cases op.kind with
    | withLifecycle l => simpa using key l
    | withLock l => simpa using key l
    | share d =>
      refine ⟨?_, extends_refl _, ?_⟩
      · intro t ht
        rcases List.mem_append.mp ht with ht | ht
        · exact hwf t ht
        · rw [List.mem_singleton.mp ht]; exact hsw
      · simp [obsOf]
    | concMap gd =>
      obtain ⟨hext, hw, hv, hp⟩ := cml_spec gd op.grow hsw
      refine ⟨?_, hext, ?_⟩
      · intro t ht
        rcases List.mem_append.mp ht with ht | ht
        · exact WF_extends hext (hwf t ht)
        · rw [List.mem_singleton.mp ht]; exact hw
      · simp only [obsOf, List.map_append, List.map_cons, List.map_nil, hv, hp]
        congr 1
        apply List.map_congr_left
        intro t ht
        rw [view_extends hext (hwf t ht)]

theorem runD_spec (ops : List DOp) : ∀ (st : DState), DWF st →
    DWF (runD st ops) ∧ Extends st.heap (runD st ops).heap ∧ obsOf (runD st ops) = specRun (obsOf st) ops := by
  induction ops with
  | nil => intro st hwf; exact ⟨hwf, extends_refl _, rfl⟩
  | cons op ops ih =>
    intro st hwf
    obtain ⟨h1, h2, h3⟩ := derive_step st hwf op
    obtain ⟨i1, i2, i3⟩ := ih (derive st op) h1
    refine ⟨i1, extends_trans h2 i2, ?_⟩
    simp only [runD, specRun, List.foldl_cons] at i3 ⊢
    rw [i3, h3]

/-- **C17, streams.** For every derivation program — any forest, any fan-out and depth, any creation order,
    any capacities of the roots' slices, any capacities chosen by the growth oracle — the lifecycle ids a stream
    value opens/closes when materialised, and its provider chain, are exactly those of its own derivation path. -/
theorem C17_stream_immutable (st : DState) (hwf : DWF st) (ops : List DOp) :
    obsOf (runD st ops) = specRun (obsOf st) ops :=
  (runD_spec ops st hwf).2.2

theorem specDerive_prefix (ps : List (List Nat × List DataOp)) (op : DOp) :
    ∃ e, specDerive ps op = ps ++ e := by
  unfold specDerive
  cases ps[op.parent]? with
  | none => exact ⟨[], by simp⟩
  | some p => cases op.kind <;> exact ⟨_, rfl⟩

theorem specRun_prefix (ops : List DOp) : ∀ ps, ∃ e, specRun ps ops = ps ++ e := by
  induction ops with
  | nil => intro ps; exact ⟨[], by simp [specRun]⟩
  | cons op ops ih =>
    intro ps
    obtain ⟨e1, h1⟩ := specDerive_prefix ps op
    obtain ⟨e2, h2⟩ := ih (specDerive ps op)
    refine ⟨e1 ++ e2, ?_⟩
    simp only [specRun, List.foldl_cons] at h2 ⊢
    rw [h2, h1, List.append_assoc]

/-- Later derivations (`ops2`) never change what the stream values existing after `ops1` denote:
    parents and all earlier siblings keep opening/closing exactly their own lifecycles. -/
theorem C17_stream_prefix_stable (st : DState) (hwf : DWF st) (ops1 ops2 : List DOp) :
    ∃ e, obsOf (runD st (ops1 ++ ops2)) = obsOf (runD st ops1) ++ e := by
  have h1 := runD_spec ops1 st hwf
  have : runD st (ops1 ++ ops2) = runD (runD st ops1) ops2 := by simp [runD]
  rw [this, C17_stream_immutable _ h1.1 ops2]
  exact specRun_prefix ops2 _

/-- Derivations never write to an existing backing array (so no slice value held by anybody changes). -/
theorem C17_stream_heap_untouched (st : DState) (hwf : DWF st) (ops : List DOp) :
    (runD st ops).heap.take st.heap.length = st.heap :=
  extends_take_eq (runD_spec ops st hwf).2.1

/-- Materialising stream `i` after the whole program opens and closes exactly its path's ids. -/
theorem C17_materialise (st : DState) (hwf : DWF st) (ops : List DOp) (i : Nat) (s : StreamV)
    (hs : (runD st ops).streams[i]? = some s) :
    ∃ p, (specRun (obsOf st) ops)[i]? = some p ∧ materialise (runD st ops).heap s = (p.1, p.1) := by
  have h := C17_stream_immutable st hwf ops
  have := obsOf_getElem? (runD st ops) i
  rw [hs, h] at this
  exact ⟨_, this, rfl⟩

/-! ### overlapping materialisation (both inputs of `ZipN` / a join, or one stream consumed inside another's consumer) -/

/-- `Shuffle ls tr`: the trace `tr` is an interleaving of the lists `ls` — at every step the next event of ONE of the
    lists happens; the order inside every list is kept.  (`ls` = the open sequences, or the close sequences, of the
    materialisations that overlap; any nesting / alternation of them is such an interleaving.) -/
inductive Shuffle {α : Type} : List (List α) → List α → Prop
  | done {ls : List (List α)} : (∀ l ∈ ls, l = []) → Shuffle ls []
  | step {ls : List (List α)} {k : Nat} {x : α} {rest tr : List α} :
      ls[k]? = some (x :: rest) → Shuffle (ls.set k rest) tr → Shuffle ls (x :: tr)

theorem flatten_set_perm {α : Type} (x : α) (rest : List α) :
    ∀ (ls : List (List α)) (k : Nat), ls[k]? = some (x :: rest) →
      ls.flatten.Perm (x :: (ls.set k rest).flatten) := by
  intro ls
  induction ls with
  | nil => intro k h; simp at h
  | cons l ls ih =>
    intro k h
    cases k with
    | zero =>
      simp only [List.getElem?_cons_zero, Option.some.injEq] at h
      subst h
      simp
    | succ k =>
      simp only [List.getElem?_cons_succ] at h
      have := ih k h
      simp only [List.flatten_cons, List.set_cons_succ]
      exact (List.Perm.append_left l this).trans List.perm_middle

/-- Every interleaving of some lists is a permutation of their concatenation. -/
theorem shuffle_perm {α : Type} {ls : List (List α)} {tr : List α} (h : Shuffle ls tr) : tr.Perm ls.flatten := by
  induction h with
  | done hnil => rw [List.flatten_eq_nil_iff.mpr hnil]
  | step hk _ ih => exact (List.Perm.cons _ ih).trans (flatten_set_perm _ _ _ _ hk).symm

/-- **C17, overlapping materialisation.** Take ANY list `is` of stream values of the forest (any multiset: the same
    value may occur several times, parents together with their children, siblings) and materialise them at
    overlapping times.  The model's `materialiseMany` opens and closes the concatenation of the streams' own paths
    (`ps` = their list-level specifications), and EVERY interleaving of the individual open sequences (close
    sequences) — any nesting, any alternation — is a permutation of it: as multisets the ids opened and the ids
    closed are exactly the union of the paths; in particular every id is closed as often as it was opened. -/
theorem C17_materialise_overlapping (st : DState) (hwf : DWF st) (ops : List DOp) (is : List Nat) (ss : List StreamV)
    (hs : is.map (fun i => (runD st ops).streams[i]?) = ss.map some) :
    ∃ ps : List (List Nat × List DataOp),
      is.map (fun i => (specRun (obsOf st) ops)[i]?) = ps.map some ∧
      materialiseMany (runD st ops).heap ss = (ps.flatMap (·.1), ps.flatMap (·.1)) ∧
      ∀ opened closed : List Nat,
        Shuffle (ss.map (fun s => (materialise (runD st ops).heap s).1)) opened →
        Shuffle (ss.map (fun s => (materialise (runD st ops).heap s).2)) closed →
        opened.Perm (ps.flatMap (·.1)) ∧ closed.Perm (ps.flatMap (·.1)) := by
  have h := C17_stream_immutable st hwf ops
  refine ⟨ss.map (fun s => (view (runD st ops).heap s.lc, s.prov)), ?_, ?_, ?_⟩
  · rw [← h]
    have : (fun i : Nat => (obsOf (runD st ops))[i]?) =
        (fun o : Option StreamV => o.map (fun s => (view (runD st ops).heap s.lc, s.prov))) ∘
          (fun i : Nat => (runD st ops).streams[i]?) := by
      funext i; simp [obsOf_getElem?]
    rw [this, ← List.map_map, hs]
    simp [List.map_map, Function.comp_def]
  · simp [materialiseMany, materialise, List.flatMap_map]
  · intro opened closed ho hc
    have e : ∀ (f : StreamV → List Nat), (∀ s, f s = view (runD st ops).heap s.lc) →
        (ss.map f).flatten = (ss.map (fun s => (view (runD st ops).heap s.lc, s.prov))).flatMap (·.1) := by
      intro f hf
      have : f = fun s => view (runD st ops).heap s.lc := funext hf
      subst this
      simp [List.flatMap_def, Function.comp_def]
    exact ⟨e _ (fun _ => rfl) ▸ shuffle_perm ho, e _ (fun _ => rfl) ▸ shuffle_perm hc⟩

/-! ### non-vacuity and the pre-repair witness -/

/-- Root with lifecycle [0] and one spare cell; chain 0→1→2, then two siblings 3,4 under 2 with a growth oracle
    that leaves spare capacity (the D16 shape), a Filter child and a lock child. -/
def exState : DState := initState [([0], 1)]
def exOps : List DOp :=
  [⟨0, .withLifecycle 1, 1⟩, ⟨1, .withLifecycle 2, 2⟩, ⟨2, .withLifecycle 3, 3⟩, ⟨2, .withLifecycle 4, 0⟩,
   ⟨2, .share .filterEven, 0⟩, ⟨5, .withLock 6, 1⟩, ⟨0, .withLifecycle 7, 0⟩,
   -- a concurrent-map child (guard 100) of stream 2 (3 elements, spare capacity), siblings before and after, a
   -- lifecycle below the child, a second concurrent-map child of the same parent
   ⟨2, .concMap 100, 0⟩, ⟨2, .withLifecycle 9, 1⟩, ⟨8, .withLifecycle 10, 2⟩, ⟨2, .concMap 101, 3⟩]

example : DWF exState := by decide
example : (obsOf (runD exState exOps)).map (·.1) =
    [[0], [0, 1], [0, 1, 2], [0, 1, 2, 3], [0, 1, 2, 4], [0, 1, 2], [0, 1, 2, 6], [0, 7],
     [100, 0, 1, 2], [0, 1, 2, 9], [100, 0, 1, 2, 10], [101, 0, 1, 2]] := by decide

/-- overlapping materialisation of a lock child (stream 6) twice, its Filter parent (5), their ancestor (2) and a
    sibling (3): the union of the paths, lock id 6 twice; a nested and an alternating trace are both interleavings -/
example : [2, 5, 6, 6, 3].map (fun i => (runD exState exOps).streams[i]?) =
    ([2, 5, 6, 6, 3].filterMap (fun i => (runD exState exOps).streams[i]?)).map some := by decide
example : materialiseMany (runD exState exOps).heap ([2, 5, 6, 6, 3].filterMap (fun i => (runD exState exOps).streams[i]?)) =
    ([0, 1, 2, 0, 1, 2, 0, 1, 2, 6, 0, 1, 2, 6, 0, 1, 2, 3], [0, 1, 2, 0, 1, 2, 0, 1, 2, 6, 0, 1, 2, 6, 0, 1, 2, 3]) := by decide
example : Shuffle [[0, 1, 6], [0, 1, 6]] [0, 0, 1, 1, 6, 6] :=
  .step (k := 0) rfl (.step (k := 1) rfl (.step (k := 1) rfl (.step (k := 0) rfl (.step (k := 0) rfl (.step (k := 1) rfl
    (.done (by decide)))))))

/-- **Witness (D16, pre-repair code).** Parent with one spare cell, two siblings: after the second derivation the
    FIRST sibling opens the second sibling's lifecycle (5 instead of 4) — immutability fails exactly when len < cap. -/
theorem C17_witness_unrepaired_stream :
    let st := initState [([0, 1], 1)]
    let ops : List DOp := [⟨0, .withLifecycle 4, 0⟩, ⟨0, .withLifecycle 5, 0⟩]
    DWF st ∧
    (obsOf (runDNoClip st ops)).map (·.1) = [[0, 1], [0, 1, 5], [0, 1, 5]] ∧
    (obsOf (runD st ops)).map (·.1) = [[0, 1], [0, 1, 4], [0, 1, 5]] ∧
    obsOf (runDNoClip st ops) ≠ specRun (obsOf st) ops := by
  decide

/-- **Witness (wrong prepend).** `slices.Insert(src.allLifecycleElement, 0, guard)` instead of
    `append([]Lifecycle{guard}, src.allLifecycleElement...)`: a parent `[0,1,2]` with one spare cell loses its last
    element and gains the child's guard as soon as a concurrent-map child is DERIVED (the parent's array is written);
    the modelled code leaves the parent alone.  Fails exactly when len < cap. -/
theorem C17_witness_insert_in_place :
    let st := initState [([0, 1, 2], 1)]
    let ops : List DOp := [⟨0, .concMap 100, 0⟩]
    DWF st ∧
    (obsOf (runDInsert st ops)).map (·.1) = [[100, 0, 1], [100, 0, 1, 2]] ∧
    (runDInsert st ops).heap.take 1 ≠ st.heap ∧
    obsOf (runDInsert st ops) ≠ specRun (obsOf st) ops ∧
    (obsOf (runD st ops)).map (·.1) = [[0, 1, 2], [100, 0, 1, 2]] ∧
    (runD st ops).heap.take 1 = st.heap := by
  decide

/-! ## queries -/

/-- Every register is a valid slice of the heap. -/
def RWF (st : RState) : Prop := ∀ s ∈ st.regs, s.WF st.heap

instance (st : RState) : Decidable (RWF st) := by unfold RWF; infer_instance

theorem reg_WF {st : RState} (hwf : RWF st) (i : Nat) : (st.reg i).WF st.heap := by
  unfold RState.reg
  rw [List.getD_eq_getElem?_getD]
  cases hi : st.regs[i]? with
  | none => exact WF_nil _
  | some s => exact hwf s (List.mem_of_getElem? hi)

theorem vals_getD (st : RState) (i : Nat) : st.vals.getD i [] = view st.heap (st.reg i) := by
  unfold RState.reg RState.vals
  rw [List.getD_eq_getElem?_getD, List.getD_eq_getElem?_getD, List.getElem?_map]
  cases st.regs[i]? with
  | none => simp [view_nil]
  | some s => rfl

@[simp] theorem vals_getElem?_getD (st : RState) (i : Nat) :
    st.vals[i]?.getD [] = view st.heap (st.reg i) := by
  rw [← List.getD_eq_getElem?_getD]; exact vals_getD st i

/-- AppendFieldFilter's row function. -/
theorem appendRow_spec {h : Heap Val} {rec : Slice} (f : ValFn) (g : Nat) (w : rec.WF h) :
    Extends h (appendRow h rec f g).1 ∧ (appendRow h rec f g).2.WF (appendRow h rec f g).1 ∧
    view (appendRow h rec f g).1 (appendRow h rec f g).2 = view h rec ++ [f.eval (view h rec)] := by
  unfold appendRow append
  refine ⟨(appendMany_owned _ g (extends_refl h) (owned_clip h rec)).1, WF_appendMany _ g (WF_clip w), ?_⟩
  simpa [view_clip] using view_appendMany [f.eval (view h rec)] g (WF_clip w)

theorem appendMeta_spec {h : Heap Val} {md : Slice} (u : Val) (g : Nat) (w : md.WF h) :
    Extends h (appendMeta h md u g).1 ∧ (appendMeta h md u g).2.WF (appendMeta h md u g).1 ∧
    view (appendMeta h md u g).1 (appendMeta h md u g).2 = view h md ++ [u] :=
  appendRow_spec (.const u) g w

/-- `make` + fill: one new array, nothing else written; the result reads exactly the cells put in. -/
theorem allocWith_spec {α : Type} [Inhabited α] (h : Heap α) (cells : List α) (sp : Nat) :
    Extends h (allocWith h cells sp).1 ∧ (allocWith h cells sp).2.WF (allocWith h cells sp).1 ∧
    view (allocWith h cells sp).1 (allocWith h cells sp).2 = cells := by
  refine ⟨extends_push _ _, ?_, ?_⟩
  · simp [allocWith, Slice.WF, arrOf_append_new]
  · simp [allocWith, view, arrOf_append_new]

/-- An index write through a slice over the array allocated last stays inside that array. -/
theorem setIdx_fresh {α : Type} [Inhabited α] (h : Heap α) (cells : List α) (i : Nat) (v : α) :
    setIdx (allocWith h cells 0).1 (allocWith h cells 0).2 i v = h ++ [cells.set i v] := by
  unfold setIdx allocWith
  simp only [List.replicate_zero, List.append_nil, Nat.zero_add]
  by_cases hi : i < cells.length
  · simp only [hi, if_true, writeRange, arrOf_append_new]
    rw [List.set_append_right _ _ (Nat.le_refl _)]
    simp [List.set_eq_take_append_cons_drop, hi]
  · simp only [hi, if_false]
    rw [List.set_eq_of_length_le (Nat.le_of_not_lt hi)]

/-- ReplaceFieldFilter's row function (and the metadata function of ReplaceField / OverrideFieldMetadata): the received
    slice is only read; the index write lands in the array made by this call. -/
theorem replaceRow_spec {h : Heap Val} {rec : Slice} (idx : Nat) (f : ValFn) (w : rec.WF h) :
    Extends h (replaceRow h rec idx f).1 ∧ (replaceRow h rec idx f).2.WF (replaceRow h rec idx f).1 ∧
    view (replaceRow h rec idx f).1 (replaceRow h rec idx f).2 = (view h rec).set idx (f.eval (view h rec)) := by
  unfold replaceRow
  simp only [setIdx_fresh]
  have hl : (view h rec).length = rec.len := view_length w
  refine ⟨extends_push _ _, ?_, ?_⟩
  · simp [allocWith, Slice.WF, arrOf_append_new]
  · show view (h ++ [_]) (allocWith h (view h rec) 0).2 = _
    simp only [allocWith, view, arrOf_append_new, List.drop_zero]
    exact List.take_of_length_le (by simp)

theorem dropRow_spec (h : Heap Val) (rec : Slice) (keep : List Nat) :
    Extends h (dropRow h rec keep).1 ∧ (dropRow h rec keep).2.WF (dropRow h rec keep).1 ∧
    view (dropRow h rec keep).1 (dropRow h rec keep).2 = keep.map (fun i => (view h rec).getD i Val.nil) :=
  allocWith_spec h _ 0

theorem singleRow_spec (h : Heap Val) (rec : Slice) (f : ValFn) :
    Extends h (singleRow h rec f).1 ∧ (singleRow h rec f).2.WF (singleRow h rec f).1 ∧
    view (singleRow h rec f).1 (singleRow h rec f).2 = [f.eval (view h rec)] :=
  allocWith_spec h _ 0

theorem copyRow_spec (h : Heap Val) (rec : Slice) :
    Extends h (copyRow h rec).1 ∧ (copyRow h rec).2.WF (copyRow h rec).1 ∧
    view (copyRow h rec).1 (copyRow h rec).2 = view h rec :=
  allocWith_spec h _ 0

theorem combineRow_spec (h : Heap Val) (a b : Slice) (fs : List ValFn) :
    Extends h (combineRow h a b fs).1 ∧ (combineRow h a b fs).2.WF (combineRow h a b fs).1 ∧
    view (combineRow h a b fs).1 (combineRow h a b fs).2 = fs.map (fun f => f.eval (view h a ++ view h b)) :=
  allocWith_spec h _ 0

theorem selectLoop_spec {base : Heap Val} (fs : List ValFn) :
    ∀ (h : Heap Val) (cur : Slice) (gs : List Nat), Extends base h → Owned base cur → cur.WF h →
      Extends base (selectLoop h cur fs gs).1 ∧ (selectLoop h cur fs gs).2.WF (selectLoop h cur fs gs).1 ∧
      view (selectLoop h cur fs gs).1 (selectLoop h cur fs gs).2 = selAcc (view h cur) fs ∧
      (selectLoop h cur fs gs).2.len = cur.len + fs.length := by
  induction fs with
  | nil => intro h cur gs e o w; exact ⟨e, w, rfl, rfl⟩
  | cons f fs ih =>
    intro h cur gs e o w
    have ho := appendMany_owned [f.eval (view h cur)] (hd gs) e o
    have hw := WF_appendMany [f.eval (view h cur)] (hd gs) w
    have hv := view_appendMany [f.eval (view h cur)] (hd gs) w
    have hl : (appendMany h cur [f.eval (view h cur)] (hd gs)).2.len = cur.len + 1 := by
      have a := view_length hw
      rw [hv] at a
      simp [view_length w] at a
      omega
    obtain ⟨i1, i2, i3, i4⟩ := ih _ _ gs.tail ho.1 ho.2 hw
    unfold selectLoop append
    refine ⟨i1, i2, ?_, ?_⟩
    · rw [i3, hv]; rfl
    · rw [i4, hl]; simp; omega

/-- SelectFieldsFilter's row function. -/
theorem selectRow_spec {h : Heap Val} {rec : Slice} (fs : List ValFn) (gs : List Nat) (w : rec.WF h) :
    Extends h (selectRow h rec fs gs).1 ∧ (selectRow h rec fs gs).2.WF (selectRow h rec fs gs).1 ∧
    view (selectRow h rec fs gs).1 (selectRow h rec fs gs).2 = specSelect (view h rec) fs := by
  obtain ⟨e, hw, hv, hl⟩ := selectLoop_spec (base := h) fs h (clip rec) gs (extends_refl h) (owned_clip h rec) (WF_clip w)
  have hlen : rec.len ≤ (selectLoop h (clip rec) fs gs).2.len := by rw [hl]; simp [clip]
  unfold selectRow
  refine ⟨e, WF_reslice hw hlen (Nat.le_refl _), ?_⟩
  show view _ (reslice _ rec.len _) = _
  rw [view_reslice_to_len, hv, view_clip]
  simp [specSelect, view_length w]

/-- value-level meaning of the sides of a join, reading the slices in heap `b`. -/
def sidesVals (b : Heap Val) (os : List (Option Slice × Nat)) : List Val :=
  os.flatMap (fun o => match o.1 with
    | some s => view b s
    | none => List.replicate o.2 Val.nil)

theorem joinLoop_spec {base : Heap Val} (os : List (Option Slice × Nat)) :
    ∀ (h : Heap Val) (ret : Slice) (gs : List Nat), Extends base h → Owned base ret → ret.WF h →
      (∀ o n, (some o, n) ∈ os → o.WF base) →
      Extends base (joinLoop h ret os gs).1 ∧ (joinLoop h ret os gs).2.WF (joinLoop h ret os gs).1 ∧
      view (joinLoop h ret os gs).1 (joinLoop h ret os gs).2 = view h ret ++ sidesVals base os := by
  induction os with
  | nil => intro h ret gs e o w _; exact ⟨e, w, by simp [joinLoop, sidesVals]⟩
  | cons x os ih =>
    intro h ret gs e o w hos
    have hos' : ∀ o n, (some o, n) ∈ os → o.WF base := fun o n hm => hos o n (List.mem_cons_of_mem _ hm)
    obtain ⟨xo, n⟩ := x
    cases xo with
    | some s =>
      have hs : s.WF base := hos s n List.mem_cons_self
      have ho := appendMany_owned (view h s) (hd gs) e o
      have hw := WF_appendMany (view h s) (hd gs) w
      have hv := view_appendMany (view h s) (hd gs) w
      obtain ⟨i1, i2, i3⟩ := ih _ _ gs.tail ho.1 ho.2 hw hos'
      unfold joinLoop
      refine ⟨i1, i2, ?_⟩
      rw [i3, hv, view_extends e hs]
      simp [sidesVals]
    | none =>
      have ho := appendMany_owned (List.replicate n Val.nil) (hd gs) e o
      have hw := WF_appendMany (List.replicate n Val.nil) (hd gs) w
      have hv := view_appendMany (List.replicate n Val.nil) (hd gs) w
      obtain ⟨i1, i2, i3⟩ := ih _ _ gs.tail ho.1 ho.2 hw hos'
      unfold joinLoop
      refine ⟨i1, i2, ?_⟩
      rw [i3, hv]
      simp [sidesVals]

theorem selectMetaLoop_spec {base : Heap Val} {md : Slice} (wmd : md.WF base) (us : List Val) :
    ∀ (h : Heap Val) (nm : Slice) (seen : List (List Val)) (gs : List Nat),
      Extends base h → base.length ≤ nm.arr → nm.WF h →
      Extends base (selectMetaLoop h md nm seen us gs).1 ∧
      (selectMetaLoop h md nm seen us gs).2.1.WF (selectMetaLoop h md nm seen us gs).1 ∧
      view (selectMetaLoop h md nm seen us gs).1 (selectMetaLoop h md nm seen us gs).2.1 = view h nm ++ us ∧
      (selectMetaLoop h md nm seen us gs).2.2 =
        seen ++ (List.range us.length).map (fun k => view base md ++ (view h nm ++ us.take k)) := by
  induction us with
  | nil => intro h nm seen gs e o w; exact ⟨e, w, by simp [selectMetaLoop], by simp [selectMetaLoop]⟩
  | cons u us ih =>
    intro h nm seen gs e o w
    have wmdh : md.WF h := WF_extends e wmd
    -- :46 availableFields
    have a1 := appendMany_owned (view h nm) (hd gs) e (owned_clip base md)
    have a2 := appendMany_owned (view h nm) (hd gs) (extends_refl h) (owned_clip h md)
    have av := view_appendMany (view h nm) (hd gs) (WF_clip wmdh)
    -- :52 newFieldsMeta = append(newFieldsMeta, fm)
    have wnm := WF_extends a2.1 w
    have n1 := appendMany_owned [u] (hd gs.tail) a1.1 (Or.inr o : Owned base nm)
    have nw := WF_appendMany [u] (hd gs.tail) wnm
    have nv := view_appendMany [u] (hd gs.tail) wnm
    have narr : base.length ≤ (appendMany (appendMany h (clip md) (view h nm) (hd gs)).1 nm [u] (hd gs.tail)).2.arr := by
      rcases n1.2 with hfull | hown
      · -- a full result slice of length ≥ 1 over ... : use the two shapes of appendMany
        by_cases hsp : nm.len + [u].length ≤ nm.cap
        · rw [appendMany_in_place hsp]; exact o
        · rw [appendMany_fresh (Nat.lt_of_not_le hsp)]; exact extends_length_le a1.1
      · exact hown
    obtain ⟨i1, i2, i3, i4⟩ := ih _ _ (seen ++ [view _ _]) gs.tail.tail n1.1 narr nw
    unfold selectMetaLoop append
    refine ⟨i1, i2, ?_, ?_⟩
    · rw [i3, nv, view_extends a2.1 w]; simp
    · rw [i4, nv, av, view_clip, view_extends a2.1 w, view_extends e wmd]
      simp only [List.length_cons, List.range_succ_eq_map, List.map_cons, List.map_map, List.take_zero,
        List.append_nil, List.append_assoc]
      simp [Function.comp_def]


/-- SelectFieldsFilter's metadata function: result = the selected urns; every PrepareField call saw
    `meta ++ selected so far`; nothing outside fresh arrays is written. -/
theorem selectMeta_spec {h : Heap Val} {md : Slice} (us : List Val) (gs : List Nat) (w : md.WF h) :
    Extends h (selectMeta h md us gs).1 ∧ (selectMeta h md us gs).2.1.WF (selectMeta h md us gs).1 ∧
    view (selectMeta h md us gs).1 (selectMeta h md us gs).2.1 = us ∧
    (selectMeta h md us gs).2.2 = (List.range us.length).map (fun k => view h md ++ us.take k) := by
  have e0 : Extends h (allocWith h ([] : List Val) us.length).1 := extends_push _ _
  have w0 : (allocWith h ([] : List Val) us.length).2.WF (allocWith h ([] : List Val) us.length).1 := by
    simp [allocWith, Slice.WF, arrOf_append_new]
  have v0 : view (allocWith h ([] : List Val) us.length).1 (allocWith h ([] : List Val) us.length).2 = [] := by
    simp [allocWith, view]
  obtain ⟨i1, i2, i3, i4⟩ := selectMetaLoop_spec w us _ _ [] gs e0 (Nat.le_refl _ : h.length ≤ (allocWith h ([] : List Val) us.length).2.arr) w0
  unfold selectMeta
  refine ⟨i1, i2, ?_, ?_⟩
  · rw [i3, v0]; simp
  · rw [i4, v0]; simp

theorem C17_selectMeta_available {h : Heap Val} {md : Slice} (us : List Val) (gs : List Nat) (w : md.WF h) :
    (selectMeta h md us gs).2.2 = (List.range us.length).map (fun k => view h md ++ us.take k) :=
  (selectMeta_spec us gs w).2.2.2

theorem sidesVals_resolve (st : RState) (os : List (Option Nat × Nat)) :
    sidesVals st.heap (resolve st os) = specSides st.vals os := by
  unfold sidesVals specSides resolve
  rw [List.flatMap_map]
  congr 1
  funext o
  cases h : o.1 with
  | none => simp
  | some r => simp

theorem resolve_WF {st : RState} (hwf : RWF st) (os : List (Option Nat × Nat)) :
    ∀ o n, (some o, n) ∈ resolve st os → o.WF st.heap := by
  intro o n hm
  unfold resolve at hm
  obtain ⟨x, _, hx⟩ := List.mem_map.mp hm
  cases h : x.1 with
  | none => simp [h] at hx
  | some r =>
    simp [h] at hx
    rw [← hx.1]
    exact reg_WF hwf r

/-- Pushing a result register: the invariant and the value list. -/
theorem push_spec {st : RState} (hwf : RWF st) {h' : Heap Val} {s : Slice} {v : List Val}
    (e : Extends st.heap h') (w : s.WF h') (hv : view h' s = v) :
    RWF { heap := h', regs := st.regs ++ [s] } ∧ Extends st.heap h' ∧
    RState.vals { heap := h', regs := st.regs ++ [s] } = st.vals ++ [v] := by
  refine ⟨?_, e, ?_⟩
  · intro t ht
    rcases List.mem_append.mp ht with ht | ht
    · exact WF_extends e (hwf t ht)
    · rw [List.mem_singleton.mp ht]; exact w
  · simp only [RState.vals, List.map_append, List.map_cons, List.map_nil, hv]
    congr 1
    apply List.map_congr_left
    intro t ht
    exact view_extends e (hwf t ht)

/-- One operation of a row program. -/
theorem stepR_spec (st : RState) (hwf : RWF st) (op : ROp) :
    RWF (stepR st op) ∧ Extends st.heap (stepR st op).heap ∧
    (stepR st op).vals = st.vals ++ [specStepR st.vals op] := by
  cases op with
  | appendRow src f g =>
    obtain ⟨e, w, v⟩ := appendRow_spec f g (reg_WF hwf src)
    exact push_spec hwf e w (by rw [v]; simp [specStepR])
  | selectRow src fs gs =>
    obtain ⟨e, w, v⟩ := selectRow_spec fs gs (reg_WF hwf src)
    exact push_spec hwf e w (by rw [v]; simp [specStepR])
  | leftJoin l os gs =>
    obtain ⟨e, w, v⟩ := joinLoop_spec (base := st.heap) (resolve st os) st.heap (clip (st.reg l)) gs
      (extends_refl _) (owned_clip _ _) (WF_clip (reg_WF hwf l)) (resolve_WF hwf os)
    exact push_spec hwf e w (by
      show view (leftJoinRow _ _ _ _).1 (leftJoinRow _ _ _ _).2 = _
      unfold leftJoinRow
      rw [v, view_clip, sidesVals_resolve]; simp [specStepR])
  | concatJoin os gs =>
    obtain ⟨e, w, v⟩ := joinLoop_spec (base := st.heap) (resolve st os) st.heap nilSlice gs
      (extends_refl _) (owned_nil _) (WF_nil _) (resolve_WF hwf os)
    exact push_spec hwf e w (by
      show view (concatJoinRow _ _ _).1 (concatJoinRow _ _ _).2 = _
      unfold concatJoinRow
      rw [v, view_nil, sidesVals_resolve]; simp [specStepR])
  | appendMeta src u g =>
    obtain ⟨e, w, v⟩ := appendMeta_spec u g (reg_WF hwf src)
    exact push_spec hwf e w (by rw [v]; simp [specStepR])
  | selectMeta src us gs =>
    obtain ⟨e, w, v, _⟩ := selectMeta_spec us gs (reg_WF hwf src)
    exact push_spec hwf e w (by rw [v]; simp [specStepR])
  | replaceRow src idx f =>
    obtain ⟨e, w, v⟩ := replaceRow_spec idx f (reg_WF hwf src)
    exact push_spec hwf e w (by rw [v]; simp [specStepR])
  | dropRow src keep =>
    obtain ⟨e, w, v⟩ := dropRow_spec st.heap (st.reg src) keep
    exact push_spec hwf e w (by rw [v]; simp [specStepR])
  | singleRow src f =>
    obtain ⟨e, w, v⟩ := singleRow_spec st.heap (st.reg src) f
    exact push_spec hwf e w (by rw [v]; simp [specStepR])
  | copyRow src =>
    obtain ⟨e, w, v⟩ := copyRow_spec st.heap (st.reg src)
    exact push_spec hwf e w (by rw [v]; simp [specStepR])
  | combineRow a b fs =>
    obtain ⟨e, w, v⟩ := combineRow_spec st.heap (st.reg a) (st.reg b) fs
    exact push_spec hwf e w (by rw [v]; simp [specStepR])

theorem runR_spec (ops : List ROp) : ∀ (st : RState), RWF st →
    RWF (runR st ops) ∧ Extends st.heap (runR st ops).heap ∧ (runR st ops).vals = specRunR st.vals ops := by
  induction ops with
  | nil => intro st hwf; exact ⟨hwf, extends_refl _, rfl⟩
  | cons op ops ih =>
    intro st hwf
    obtain ⟨h1, h2, h3⟩ := stepR_spec st hwf op
    obtain ⟨i1, i2, i3⟩ := ih (stepR st op) h1
    refine ⟨i1, extends_trans h2 i2, ?_⟩
    simp only [runR, specRunR, List.foldl_cons] at i3 ⊢
    rw [i3, h3]

/-- **C17, queries never modify caller data.** Running any row program (append / select / left, inner, full join
    row functions and the append / select metadata functions, in any order, with any fan-out, for every spare
    capacity of every slice and every growth-oracle choice) leaves every array that existed before — i.e. all
    caller-supplied rows and metadata, spare cells included — literally unchanged; in particular every
    well-formed slice reads the same `view` and `extent`. -/
theorem C17_query_no_mutation (st : RState) (hwf : RWF st) (ops : List ROp) :
    (runR st ops).heap.take st.heap.length = st.heap ∧
    ∀ t : Slice, t.WF st.heap →
      view (runR st ops).heap t = view st.heap t ∧ extent (runR st ops).heap t = extent st.heap t := by
  have e := (runR_spec ops st hwf).2.1
  exact ⟨extends_take_eq e, fun t wt => ⟨view_extends e wt, extent_extends e wt⟩⟩

/-- Every register of every row program holds the value-level specification of its operation. -/
theorem C17_query_values (st : RState) (hwf : RWF st) (ops : List ROp) :
    (runR st ops).vals = specRunR st.vals ops :=
  (runR_spec ops st hwf).2.2

theorem specStepR_shape (vals : List (List Val)) (op : ROp) : specStepR vals op.shape = specStepR vals op := by
  cases op <;> rfl

theorem specRunR_shape (ops : List ROp) : ∀ vals, specRunR vals (ops.map ROp.shape) = specRunR vals ops := by
  induction ops with
  | nil => intro _; rfl
  | cons op ops ih =>
    intro vals
    simp only [specRunR, List.map_cons, List.foldl_cons, specStepR_shape] at ih ⊢
    exact ih _

/-- **C17, capacity independence.** Two executions whose caller data have the same VALUES (whatever the
    capacities, offsets, sharing of backing arrays) and whose programs are the same up to the growth oracle's
    choices produce the same values in every register. -/
theorem C17_capacity_independent (st1 st2 : RState) (h1 : RWF st1) (h2 : RWF st2)
    (hv : st1.vals = st2.vals) (ops1 ops2 : List ROp) (hs : ops1.map ROp.shape = ops2.map ROp.shape) :
    (runR st1 ops1).vals = (runR st2 ops2).vals := by
  rw [C17_query_values st1 h1, C17_query_values st2 h2, ← specRunR_shape ops1, ← specRunR_shape ops2, hs, hv]

/-! ### stage objects: sharing and re-execution -/

/-- A program whose operations live in a POOL of stage objects and are named by index: the same pool entry may be
    used any number of times (the same filter in two pipelines, the same pipeline executed again, both sides of a
    join).  Running an entry does not touch the pool — it is not part of the state. -/
def runPool (st : RState) (pool : List ROp) (is : List Nat) : RState :=
  is.foldl (fun s i => match pool[i]? with | some op => stepR s op | none => s) st

/-- **C17, shared stage objects.** Running operations through shared pool entries is the same as running private
    copies of them: whether two occurrences of a stage are "the same object" cannot be observed.  (Trivial here —
    stages are values; the library's stage objects hold maps and slices, and the correspondence check shares one Go
    object between all occurrences so that state kept in it shows as a disagreement with this theorem's model.) -/
theorem C17_stage_sharing_irrelevant (pool : List ROp) (is : List Nat) : ∀ st : RState,
    runPool st pool is = runR st (is.filterMap (pool[·]?)) := by
  induction is with
  | nil => intro st; rfl
  | cons i is ih =>
    intro st
    cases hp : pool[i]? with
    | none => simpa [runPool, runR, hp] using ih st
    | some op => simpa [runPool, runR, hp] using ih (stepR st op)

theorem specRunR_prefix (ops : List ROp) : ∀ vals, ∃ e, specRunR vals ops = vals ++ e := by
  induction ops with
  | nil => intro vals; exact ⟨[], by simp [specRunR]⟩
  | cons op ops ih =>
    intro vals
    obtain ⟨e, he⟩ := ih (vals ++ [specStepR vals op])
    refine ⟨specStepR vals op :: e, ?_⟩
    simp only [specRunR, List.foldl_cons] at he ⊢
    rw [he, List.append_assoc]; rfl

/-- **C17, later executions never change earlier results.** Whatever runs after `ops1` (another pipeline, the same
    pipeline again, a join over its results), every register filled by `ops1` — every row and metadata slice already
    delivered — still reads the same. -/
theorem C17_query_prefix_stable (st : RState) (hwf : RWF st) (ops1 ops2 : List ROp) :
    ∃ e, (runR st (ops1 ++ ops2)).vals = (runR st ops1).vals ++ e := by
  have h1 := runR_spec ops1 st hwf
  have : runR st (ops1 ++ ops2) = runR (runR st ops1) ops2 := by simp [runR]
  rw [this, C17_query_values _ h1.1 ops2]
  exact specRunR_prefix ops2 _

/-! ### interleaved chain pipelines -/

def TWF (h : Heap Val) (ts : List Task) : Prop := ∀ t ∈ ts, t.cur.WF h

instance (h : Heap Val) (ts : List Task) : Decidable (TWF h ts) := by unfold TWF; infer_instance

theorem stepStage_spec {h : Heap Val} {cur : Slice} (s : Stage) (w : cur.WF h) :
    Extends h (stepStage h cur s).1 ∧ (stepStage h cur s).2.WF (stepStage h cur s).1 ∧
    view (stepStage h cur s).1 (stepStage h cur s).2 = specStage (view h cur) s := by
  cases s with
  | append f g => exact appendRow_spec f g w
  | select fs gs => exact selectRow_spec fs gs w
  | replace idx f => exact replaceRow_spec idx f w
  | drop keep => exact dropRow_spec h cur keep
  | single f => exact singleRow_spec h cur f
  | copy => exact copyRow_spec h cur
  | pass => exact ⟨extends_refl _, w, rfl⟩

theorem stepTask_spec {h : Heap Val} (t : Task) (w : t.cur.WF h) :
    Extends h (stepTask h t).1 ∧ (stepTask h t).2.cur.WF (stepTask h t).1 ∧
    finalVal (stepTask h t).1 (stepTask h t).2 = finalVal h t := by
  obtain ⟨cur, todo⟩ := t
  cases todo with
  | nil => exact ⟨extends_refl _, w, rfl⟩
  | cons s rest =>
    obtain ⟨e, w', v⟩ := stepStage_spec s w
    refine ⟨e, w', ?_⟩
    simp only [finalVal, stepTask, specChain, List.foldl_cons] at v ⊢
    rw [v]

theorem runSched_spec (sched : List Nat) : ∀ (h : Heap Val) (ts : List Task), TWF h ts →
    Extends h (runSched h ts sched).1 ∧ TWF (runSched h ts sched).1 (runSched h ts sched).2 ∧
    (runSched h ts sched).2.map (finalVal (runSched h ts sched).1) = ts.map (finalVal h) := by
  induction sched with
  | nil => intro h ts w; exact ⟨extends_refl _, w, rfl⟩
  | cons i sched ih =>
    intro h ts w
    unfold runSched
    cases hi : ts[i]? with
    | none => exact ih h ts w
    | some t =>
      have wt : t.cur.WF h := w t (List.mem_of_getElem? hi)
      obtain ⟨e, w', fv⟩ := stepTask_spec t wt
      have w2 : TWF (stepTask h t).1 (ts.set i (stepTask h t).2) := by
        intro x hx
        rcases List.mem_or_eq_of_mem_set hx with hx | hx
        · exact WF_extends e (w x hx)
        · rw [hx]; exact w'
      obtain ⟨i1, i2, i3⟩ := ih _ _ w2
      refine ⟨extends_trans e i1, i2, ?_⟩
      show List.map _ (runSched (stepTask h t).1 (ts.set i (stepTask h t).2) sched).2 = _
      rw [i3]
      apply List.ext_getElem?
      intro j
      simp only [List.getElem?_map, List.getElem?_set]
      by_cases hj : i = j
      · subst hj
        have hlt : i < ts.length := (List.getElem?_eq_some_iff.mp hi).1
        simp only [if_true, hlt, hi, Option.map_some, fv]
      · simp only [hj, if_false]
        cases hx : ts[j]? with
        | none => rfl
        | some x =>
          simp only [Option.map_some, finalVal]
          rw [view_extends e (w x (List.mem_of_getElem? hx))]

/-- **C17, interleaved consumption.** Any number of chain pipelines (e.g. two pipelines over one shared source
    row, or over rows carved from one backing array) advanced in ANY interleaving: no caller array is written, and at
    every moment each pipeline's eventual result is the one it would deliver when run alone on the original data. -/
theorem C17_interleaved (h : Heap Val) (ts : List Task) (hw : TWF h ts) (sched : List Nat) :
    (runSched h ts sched).1.take h.length = h ∧
    (runSched h ts sched).2.map (finalVal (runSched h ts sched).1) = ts.map (finalVal h) := by
  obtain ⟨e, _, v⟩ := runSched_spec sched h ts hw
  exact ⟨extends_take_eq e, v⟩

/-- … in particular a pipeline that has finished holds exactly `specChain source stages`. -/
theorem C17_interleaved_finished (h : Heap Val) (ts : List Task) (hw : TWF h ts) (sched : List Nat)
    (i : Nat) (t t' : Task) (hi : ts[i]? = some t) (hi' : (runSched h ts sched).2[i]? = some t')
    (hdone : t'.todo = []) :
    view (runSched h ts sched).1 t'.cur = specChain (view h t.cur) t.todo := by
  have v := (C17_interleaved h ts hw sched).2
  have := congrArg (fun l => l[i]?) v
  simp only [List.getElem?_map, hi, hi', Option.map_some, Option.some.injEq] at this
  simpa [finalVal, hdone, specChain] using this

/-- **C17, the same pipeline twice.** Two tasks with the same source slice and the same stage list (one pipeline
    executed twice, or one filter chain used by two pipelines), advanced in any interleaving with any other tasks:
    once both have finished they hold equal rows. -/
theorem C17_same_pipeline_twice (h : Heap Val) (ts : List Task) (hw : TWF h ts) (sched : List Nat)
    (i j : Nat) (t ti tj : Task) (hi : ts[i]? = some t) (hj : ts[j]? = some t)
    (hi' : (runSched h ts sched).2[i]? = some ti) (hj' : (runSched h ts sched).2[j]? = some tj)
    (di : ti.todo = []) (dj : tj.todo = []) :
    view (runSched h ts sched).1 ti.cur = view (runSched h ts sched).1 tj.cur := by
  rw [C17_interleaved_finished h ts hw sched i t ti hi hi' di, C17_interleaved_finished h ts hw sched j t tj hj hj' dj]

/-! ### non-vacuity and the pre-repair witness -/

/-- Caller data: one backing array holding two rows carved without a capacity limit (row 0's spare capacity IS
    row 1), a third row with two spare cells, and a metadata slice with one spare cell. -/
def exHeap : Heap Val := [[.int 1, .int 2, .int 3, .int 4], [.int 5, .nil, .nil], [.int 100, .int 101, .nil]]
def exRegs : List Slice := [⟨0, 0, 2, 4⟩, ⟨0, 2, 2, 2⟩, ⟨1, 0, 1, 3⟩, ⟨2, 0, 2, 3⟩]
def exR : RState := { heap := exHeap, regs := exRegs }
def exProg : List ROp :=
  [.appendRow 0 (.const (.int 7)) 2, .appendRow 0 (.ref 1) 0, .selectRow 2 [.ref 0, .const (.int 9), .ref 2] [1, 0],
   .leftJoin 0 [(some 4, 3), (none, 2), (some 6, 3)] [0, 5], .concatJoin [(some 2, 1), (none, 1), (some 5, 3)] [],
   .appendMeta 3 (.int 102) 1, .appendMeta 3 (.int 103) 0, .selectMeta 3 [.int 200, .int 201] [0, 0, 3],
   -- registers 12..: replace (self-referring value), drop, single field with nvl / selector / cast reading a nil cell,
   -- forward-fill copy, a two-row combination (delta), the metadata twin of replace
   .replaceRow 0 1 (.bin .add (.ref 1) (.ref 1)), .dropRow 0 [1], .singleRow 2 (.nvl (.ref 1) (.const (.int 9))),
   .singleRow 2 (.selGt (.ref 0) (.ref 1) (.cast (.ref 0)) (.ref 1)), .copyRow 0,
   .combineRow 0 1 [.bin .sub (.ref 2) (.ref 0), .bin (.rate 4) (.ref 3) (.ref 1)], .replaceRow 3 0 (.const (.int 104)),
   .appendRow 12 (.ref 1) 0]

/-- a pool whose entry 1 (an append of a reduce-over-named-columns value) is used three times, entry 0 twice -/
def exPool : List ROp :=
  [.singleRow 0 (.redAll .max), .appendRow 0 (.red .sum [0]) 1, .selectRow 0 [.red .avg [0, 1], .ref 0, .redAll .min] [0, 2]]
example : (runPool exR exPool [1, 0, 1, 2, 7, 1, 0]).vals.drop 4 =
    [[.int 1, .int 2, .int 1], [.int 2], [.int 1, .int 2, .int 1], [.int 1, .int 1, .int 1],
     [.int 1, .int 2, .int 1], [.int 2]] := by decide

example : RWF exR := by decide
example : (runR exR exProg).vals.drop 4 =
    [[.int 1, .int 2, .int 7], [.int 1, .int 2, .int 2], [.int 5, .int 9, .int 9],
     [.int 1, .int 2, .int 1, .int 2, .int 7, .nil, .nil, .int 5, .int 9, .int 9],
     [.int 5, .nil, .int 1, .int 2, .int 2],
     [.int 100, .int 101, .int 102], [.int 100, .int 101, .int 103], [.int 200, .int 201],
     [.int 1, .int 4], [.int 2], [.int 9], [.nil], [.int 1, .int 2], [.int 2, .int 1], [.int 104, .int 101],
     [.int 1, .int 4, .int 4]] := by decide
example : (runR exR exProg).heap.take 3 = exHeap := by decide
example : TWF exHeap [⟨⟨0, 0, 2, 4⟩, [.append (.const (.int 7)) 0, .select [.ref 2] []]⟩,
                      ⟨⟨0, 0, 2, 4⟩, [.append (.const (.int 8)) 1]⟩,
                      ⟨⟨0, 0, 2, 4⟩, [.pass, .replace 0 (.bin .add (.ref 0) (.ref 1)), .copy, .drop [1, 0], .single (.ref 1)]⟩] := by
  decide

/-- **Witness (D17, pre-repair code).** One source row `[1]` with one spare cell feeds two append pipelines
    (append 7 / append 8).  With `append(record.Value, v)` the first pipeline's row reads `[1, 8]` after the second
    ran, the caller's array is modified, and with an exact-capacity row the results differ — all three clauses fail
    exactly when len < cap.  The repaired row function gives `[1,7]`, `[1,8]` and leaves the array alone. -/
theorem C17_witness_unrepaired_rows :
    let h : Heap Val := [[.int 1, .nil]]
    let src : Slice := ⟨0, 0, 1, 2⟩
    let a := appendRowNoClip h src (.const (.int 7)) 0
    let b := appendRowNoClip a.1 src (.const (.int 8)) 0
    let a' := appendRow h src (.const (.int 7)) 0
    let b' := appendRow a'.1 src (.const (.int 8)) 0
    src.WF h ∧
    view b.1 a.2 = [.int 1, .int 8] ∧ view b.1 b.2 = [.int 1, .int 8] ∧ b.1.take 1 ≠ h ∧
    view b'.1 a'.2 = [.int 1, .int 7] ∧ view b'.1 b'.2 = [.int 1, .int 8] ∧ b'.1.take 1 = h := by
  decide

/-- **Witness (in-place replace).** `append(record.Value[:replaceIdx], value)` +
    `append(newValue, record.Value[replaceIdx+1:]...)` instead of `make` + `copy`: a source row `[1,2,3]` WITHOUT spare
    capacity, field 1 replaced by `field1 + field1`.  The result of the first execution is right, but it IS the caller's
    slice: the caller's record (and whatever a sibling pipeline or a join reads through it) now holds 4, the array is
    written, and executing the same query again yields 8.  The modelled code gives `[1,4,3]` both times and leaves the
    record alone.  Unlike the append witnesses this one fails for every capacity. -/
theorem C17_witness_replace_in_place :
    let h : Heap Val := [[.int 1, .int 2, .int 3]]
    let src : Slice := ⟨0, 0, 3, 3⟩
    let f : ValFn := .bin .add (.ref 1) (.ref 1)
    let a := replaceRowInPlace h src 1 f 0 0
    let b := replaceRowInPlace a.1 src 1 f 0 0
    let a' := replaceRow h src 1 f
    let b' := replaceRow a'.1 src 1 f
    src.WF h ∧
    view a.1 a.2 = [.int 1, .int 4, .int 3] ∧ a.2 = src ∧ view a.1 src = [.int 1, .int 4, .int 3] ∧ a.1.take 1 ≠ h ∧
    view b.1 b.2 = [.int 1, .int 8, .int 3] ∧
    view b'.1 a'.2 = [.int 1, .int 4, .int 3] ∧ view b'.1 b'.2 = [.int 1, .int 4, .int 3] ∧
    view b'.1 src = [.int 1, .int 2, .int 3] ∧ b'.1.take 1 = h := by
  decide

end ShpanVerif.Props.C17
