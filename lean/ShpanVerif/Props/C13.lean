/-
C13 — alignment emits one (interpolated) point per non-empty period.

Model: `Model/Align.lean` (cluster machine of stream/cluster_sorted_stream.go driven by the aligner factory,
`timeWeightedAverage*` of the four aligners).  Everything below is for an arbitrary period `P` with the
`Tiles` laws, an arbitrary time-sorted input of arbitrary length, and - unless a theorem says otherwise - an
arbitrary interpolation core (hence arbitrary arithmetic: no field law is used before `C13_bounded`).

  * `C13_refines`            aligner = list-level `alignSpec` (records and errors)          [Proofs/AlignLemmas]
  * `C13_total_typed`        AlignStream[N] never fails on a sorted input
  * `C13_one_per_period`     stamps = the distinct period starts of the input, in order, strictly increasing,
                             exactly the periods that contain input, carrying the period's location
  * `C13_first`              the first record carries the first input value
  * `C13_value`              every later record: value of the input lying exactly on the boundary, else the
                             core's interpolation between the last input before and the first input at/after it
  * `C13_value_typed`        … spelled out for AlignStream[N];  `coreUntyped_numeric`, `coreField_typed`,
                             `coreRow_typed`: what the core is for the three `any`-typed aligners on well-typed data
  * `C13_bounded`            exact arithmetic: the interpolated value lies between its two neighbours
  * `C13_int_trunc`          integer kinds: truncation toward zero of the exact interpolation, still between
  * `C13_repr_independent`   the result is a function of (instant, value) of the inputs only - any period, any
                             core, any (also unsorted) input; instantiated for the four aligners
-/
import ShpanVerif.Model.Align
import ShpanVerif.Proofs.AlignLemmas

namespace ShpanVerif.Props.C13
open List ShpanVerif.Model.Align ShpanVerif.Proofs.Align

variable {β : Type}

/-! ## Refinement and totality -/

/-- **C13 (refinement)**: the aligner computes the list-level aligned series. -/
theorem C13_refines {P : Period} (T : Tiles P) (core : Int → Int → β → β → Except Err β)
    (xs : List (Rec β)) (hs : Sorted xs) : alignWith P core xs = alignSpec P core xs :=
  alignWith_eq_spec core T xs hs

theorem specGo_total {P : Period} {core : Int → Int → β → β → Except Err β}
    (hc : ∀ di dt v1 v2, ∃ v, core di dt v1 v2 = .ok v) :
    ∀ (ys : List (Rec β)) (p : Rec β), ∃ L, specGo P core p ys = .ok L := by
  intro ys
  induction ys with
  | nil => intro p; exact ⟨[], rfl⟩
  | cons y ys ih =>
    intro p
    obtain ⟨L, hL⟩ := ih y
    unfold specGo
    by_cases h : P.start y.ts.inst = P.start p.ts.inst
    · exact ⟨L, by rw [if_pos h, hL]⟩
    · rw [if_neg h]
      have : ∃ v, boundaryVal core (P.start y.ts.inst) p y = .ok v := by
        unfold boundaryVal
        by_cases hb : y.ts.inst = P.start y.ts.inst
        · exact ⟨y.val, by rw [if_pos hb]⟩
        · rw [if_neg hb]; exact hc _ _ _ _
      obtain ⟨v, hv⟩ := this
      exact ⟨_, by rw [hv, hL]⟩

/-- `AlignStream[N]` never fails on a time-sorted input (any arithmetic, any numeric kind). -/
theorem C13_total_typed {V N : Type} (A : Arith V) (K : NumKind V N) {P : Period} (T : Tiles P)
    (xs : List (Rec N)) (hs : Sorted xs) : ∃ L, alignStream A K P xs = .ok L := by
  unfold alignStream
  rw [C13_refines T _ xs hs]
  cases xs with
  | nil => exact ⟨[], rfl⟩
  | cons x xs =>
    obtain ⟨L, hL⟩ := specGo_total (P := P) (core := coreTyped A K) (fun _ _ _ _ => ⟨_, rfl⟩) xs x
    exact ⟨outRec P (P.start x.ts.inst) x.val :: L, by simp [alignSpec, hL]⟩

/-! ## One record per non-empty period -/

/-- Remove adjacent duplicates. -/
def dedupAdj : List Int → List Int
  | [] => []
  | [a] => [a]
  | a :: b :: l => if a = b then dedupAdj (b :: l) else a :: dedupAdj (b :: l)

/-- Period starts of the inputs, in input order. -/
def starts (P : Period) (xs : List (Rec β)) : List Int := xs.map (fun r => P.start r.ts.inst)
/-- Instants of the output stamps. -/
def stampsOf (l : List (Rec β)) : List Int := l.map (fun r => r.ts.inst)

theorem mem_dedupAdj (x : Int) : ∀ l, x ∈ dedupAdj l ↔ x ∈ l := by
  intro l
  fun_induction dedupAdj l with
  | case1 => simp
  | case2 a => simp
  | case3 b l ih => simp only [mem_cons] at ih ⊢; rw [ih]; simp
  | case4 a b l h ih => simp [ih]

theorem dedupAdj_strict : ∀ l : List Int, l.Pairwise (· ≤ ·) → (dedupAdj l).Pairwise (· < ·) := by
  intro l
  fun_induction dedupAdj l with
  | case1 => intro _; exact Pairwise.nil
  | case2 a => intro _; simp
  | case3 b l ih => intro hp; exact ih (pairwise_cons.1 hp).2
  | case4 a b l h ih =>
    intro hp
    have hp' := pairwise_cons.1 hp
    refine pairwise_cons.2 ⟨?_, ih hp'.2⟩
    intro x hx
    rw [mem_dedupAdj] at hx
    have hab : a ≤ b := hp'.1 b mem_cons_self
    rcases mem_cons.1 hx with rfl | hx
    · omega
    · have := (pairwise_cons.1 hp'.2).1 x hx
      omega

theorem specGo_stamps {P : Period} {core : Int → Int → β → β → Except Err β} :
    ∀ (ys : List (Rec β)) (p : Rec β) (L : List (Rec β)), specGo P core p ys = .ok L →
      P.start p.ts.inst :: stampsOf L = dedupAdj (P.start p.ts.inst :: starts P ys) ∧
      ∀ r ∈ L, r.ts.loc = P.loc := by
  intro ys
  induction ys with
  | nil =>
    intro p L h
    simp only [specGo, Except.ok.injEq] at h
    subst h
    simp [stampsOf, starts, dedupAdj]
  | cons y ys ih =>
    intro p L h
    unfold specGo at h
    by_cases hst : P.start y.ts.inst = P.start p.ts.inst
    · rw [if_pos hst] at h
      obtain ⟨h1, h2⟩ := ih y L h
      refine ⟨?_, h2⟩
      simp only [starts, map_cons, dedupAdj, hst.symm, if_true]
      simpa [starts] using h1
    · rw [if_neg hst] at h
      cases hb : boundaryVal core (P.start y.ts.inst) p y with
      | error e => simp [hb] at h
      | ok v =>
        cases hr : specGo P core y ys with
        | error e => simp [hb, hr] at h
        | ok rest =>
          simp only [hb, hr, Except.ok.injEq] at h
          subst h
          obtain ⟨h1, h2⟩ := ih y rest hr
          constructor
          · have hne : ¬ P.start p.ts.inst = P.start y.ts.inst := fun e => hst e.symm
            simp only [starts, map_cons, dedupAdj, hne, if_false, stampsOf, outRec]
            simpa [starts, stampsOf] using h1
          · intro r hr'
            rcases mem_cons.1 hr' with rfl | hr'
            · rfl
            · exact h2 r hr'

theorem starts_sorted {P : Period} (T : Tiles P) (xs : List (Rec β)) (hs : Sorted xs) :
    (starts P xs).Pairwise (· ≤ ·) := by
  unfold starts
  rw [pairwise_map]
  exact hs.imp (fun h => T.mono _ _ h)

/-- **C13 (one record per non-empty period)**: the output stamps are the distinct period starts of the
input in input order; they are strictly increasing; a period start occurs iff some input lies in that
period; every stamp carries the period's location. -/
theorem C13_one_per_period {P : Period} (T : Tiles P) (core : Int → Int → β → β → Except Err β)
    (xs L : List (Rec β)) (hs : Sorted xs) (h : alignWith P core xs = .ok L) :
    stampsOf L = dedupAdj (starts P xs) ∧
    (stampsOf L).Pairwise (· < ·) ∧
    (∀ t, t ∈ stampsOf L ↔ ∃ x ∈ xs, P.start x.ts.inst = t) ∧
    (∀ r ∈ L, r.ts.loc = P.loc) := by
  rw [C13_refines T core xs hs] at h
  have key : stampsOf L = dedupAdj (starts P xs) ∧ ∀ r ∈ L, r.ts.loc = P.loc := by
    cases xs with
    | nil =>
      simp only [alignSpec, Except.ok.injEq] at h
      subst h
      simp [stampsOf, starts, dedupAdj]
    | cons x xs =>
      simp only [alignSpec] at h
      cases hr : specGo P core x xs with
      | error e => simp [hr] at h
      | ok rest =>
        simp only [hr, Except.ok.injEq] at h
        subst h
        obtain ⟨h1, h2⟩ := specGo_stamps xs x rest hr
        constructor
        · simpa [stampsOf, starts, outRec] using h1
        · intro r hr'
          rcases mem_cons.1 hr' with rfl | hr'
          · rfl
          · exact h2 r hr'
  refine ⟨key.1, ?_, ?_, key.2⟩
  · rw [key.1]; exact dedupAdj_strict _ (starts_sorted T xs hs)
  · intro t
    rw [key.1, mem_dedupAdj]
    simp [starts]

/-! ## First record -/

/-- **C13 (first)**: the first record is stamped with the first input's period start and carries the
first input's value unchanged. -/
theorem C13_first {P : Period} (T : Tiles P) (core : Int → Int → β → β → Except Err β)
    (x : Rec β) (xs L : List (Rec β)) (hs : Sorted (x :: xs)) (h : alignWith P core (x :: xs) = .ok L) :
    L.head? = some ⟨⟨P.start x.ts.inst, P.loc⟩, x.val⟩ := by
  rw [C13_refines T core _ hs] at h
  simp only [alignSpec] at h
  cases hr : specGo P core x xs with
  | error e => simp [hr] at h
  | ok rest =>
    simp only [hr, Except.ok.injEq] at h
    subst h
    rfl

/-! ## Later records -/

theorem specGo_value {P : Period} {core : Int → Int → β → β → Except Err β} :
    ∀ (ys : List (Rec β)) (p : Rec β) (L : List (Rec β)), specGo P core p ys = .ok L →
      ∀ r ∈ L, ∃ pre q y post v, p :: ys = pre ++ q :: y :: post ∧
        P.start q.ts.inst ≠ P.start y.ts.inst ∧
        boundaryVal core (P.start y.ts.inst) q y = .ok v ∧ r = outRec P (P.start y.ts.inst) v := by
  intro ys
  induction ys with
  | nil =>
    intro p L h r hr
    simp only [specGo, Except.ok.injEq] at h
    subst h
    simp at hr
  | cons y ys ih =>
    intro p L h r hr
    unfold specGo at h
    by_cases hst : P.start y.ts.inst = P.start p.ts.inst
    · rw [if_pos hst] at h
      obtain ⟨pre, q, y', post, v, h1, h2, h3, h4⟩ := ih y L h r hr
      exact ⟨p :: pre, q, y', post, v, by simp [h1], h2, h3, h4⟩
    · rw [if_neg hst] at h
      cases hb : boundaryVal core (P.start y.ts.inst) p y with
      | error e => simp [hb] at h
      | ok v =>
        cases hrr : specGo P core y ys with
        | error e => simp [hb, hrr] at h
        | ok rest =>
          simp only [hb, hrr, Except.ok.injEq] at h
          subst h
          rcases mem_cons.1 hr with rfl | hr
          · exact ⟨[], p, y, ys, v, rfl, fun e => hst e.symm, hb, rfl⟩
          · obtain ⟨pre, q, y', post, v', h1, h2, h3, h4⟩ := ih y rest hrr r hr
            exact ⟨p :: pre, q, y', post, v', by simp [h1], h2, h3, h4⟩

/-- **C13 (value)**: every record after the first sits at a boundary `b` that splits the input into the
inputs strictly before `b` (the last of them is `q`) and the inputs at or after `b` (the first of them is
`y`); it carries `y`'s value when `y` lies exactly on `b`, else the core's interpolation between `q` and
`y` with the durations `b - q.t` and `y.t - q.t`. -/
theorem C13_value {P : Period} (T : Tiles P) (core : Int → Int → β → β → Except Err β)
    (xs L : List (Rec β)) (hs : Sorted xs) (h : alignWith P core xs = .ok L) :
    ∀ r ∈ L.tail, ∃ pre q y post,
      xs = pre ++ q :: y :: post ∧ r.ts.inst = P.start y.ts.inst ∧
      (∀ z ∈ pre ++ [q], z.ts.inst < r.ts.inst) ∧ (∀ z ∈ y :: post, r.ts.inst ≤ z.ts.inst) ∧
      (if y.ts.inst = r.ts.inst then .ok y.val
       else core (r.ts.inst - q.ts.inst) (y.ts.inst - q.ts.inst) q.val y.val) = .ok r.val := by
  rw [C13_refines T core xs hs] at h
  cases xs with
  | nil =>
    simp only [alignSpec, Except.ok.injEq] at h
    subst h
    simp
  | cons x xs =>
    simp only [alignSpec] at h
    cases hr : specGo P core x xs with
    | error e => simp [hr] at h
    | ok rest =>
      simp only [hr, Except.ok.injEq] at h
      subst h
      intro r hr'
      simp only [tail_cons] at hr'
      obtain ⟨pre, q, y, post, v, h1, h2, h3, h4⟩ := specGo_value xs x rest hr r hr'
      refine ⟨pre, q, y, post, h1, by rw [h4]; rfl, ?_, ?_, ?_⟩
      · -- everything up to `q` is strictly before the boundary
        have hs' : Sorted (pre ++ q :: y :: post) := h1 ▸ hs
        have hqy : q.ts.inst ≤ y.ts.inst := by
          have := (pairwise_append.1 hs').2.1
          exact (pairwise_cons.1 this).1 y mem_cons_self
        have hq : q.ts.inst < P.start y.ts.inst := lt_start_of_ne T hqy h2
        intro z hz
        rw [h4]
        show z.ts.inst < P.start y.ts.inst
        rcases mem_append.1 hz with hz | hz
        · have := (pairwise_append.1 hs').2.2 z hz q mem_cons_self
          omega
        · simp only [mem_singleton] at hz; subst hz; exact hq
      · have hs' : Sorted (pre ++ q :: y :: post) := h1 ▸ hs
        have hyp : Sorted (y :: post) := (pairwise_cons.1 (pairwise_append.1 hs').2.1).2
        intro z hz
        rw [h4]
        show P.start y.ts.inst ≤ z.ts.inst
        have hy := T.start_le y.ts.inst
        rcases mem_cons.1 hz with rfl | hz
        · exact hy
        · have := (pairwise_cons.1 hyp).1 z hz
          omega
      · rw [h4]
        unfold boundaryVal at h3
        exact h3

/-- **C13 (value, AlignStream[N])**: the later records of `AlignStream[N]`, with the arithmetic spelled
out: `N(float64(v1) + (float64(v2) - float64(v1)) * (Seconds(b - t1) / Seconds(t2 - t1)))`. -/
theorem C13_value_typed {V N : Type} (A : Arith V) (K : NumKind V N) {P : Period} (T : Tiles P)
    (xs L : List (Rec N)) (hs : Sorted xs) (h : alignStream A K P xs = .ok L) :
    ∀ r ∈ L.tail, ∃ pre q y post,
      xs = pre ++ q :: y :: post ∧ r.ts.inst = P.start y.ts.inst ∧
      (∀ z ∈ pre ++ [q], z.ts.inst < r.ts.inst) ∧ (∀ z ∈ y :: post, r.ts.inst ≤ z.ts.inst) ∧
      r.val = if y.ts.inst = r.ts.inst then y.val
              else K.ofF (A.lerp (K.toF q.val) (K.toF y.val)
                      (A.weight (r.ts.inst - q.ts.inst) (y.ts.inst - q.ts.inst))) := by
  intro r hr
  obtain ⟨pre, q, y, post, h1, h2, h3, h4, h5⟩ := C13_value T (coreTyped A K) xs L hs h r hr
  refine ⟨pre, q, y, post, h1, h2, h3, h4, ?_⟩
  by_cases hb : y.ts.inst = r.ts.inst
  · rw [if_pos hb] at h5 ⊢
    exact (Except.ok.inj h5).symm
  · rw [if_neg hb] at h5 ⊢
    exact (Except.ok.inj h5).symm

/-! ## What the core is for the three `any`-typed aligners on well-typed data -/
section cores
variable {V : Type} (A : Arith V)

/-- the `float64` a numeric cell converts to -/
def numV : Cell V → V
  | .int i => A.ofInt i
  | .flt f => f
  | .other _ => A.ofInt 0

def IsNum : Cell V → Prop
  | .other _ => False
  | _ => True

/-- AlignStreamUntyped on numeric rows of equal length: every field becomes the `float64` interpolation. -/
theorem coreUntyped_numeric (di dt : Int) :
    ∀ (r1 r2 : List (Cell V)), r1.length = r2.length → (∀ c ∈ r1, IsNum c) → (∀ c ∈ r2, IsNum c) →
      coreUntyped A di dt r1 r2 =
        .ok (zipWith (fun c1 c2 => Cell.flt (A.lerp (numV A c1) (numV A c2) (A.weight di dt))) r1 r2) := by
  intro r1
  induction r1 with
  | nil => intro r2 _ _ _; rfl
  | cons c1 r1 ih =>
    intro r2 hl h1 h2
    cases r2 with
    | nil => simp at hl
    | cons c2 r2 =>
      have ih' := ih r2 (by simpa using hl) (fun c hc => h1 c (mem_cons_of_mem _ hc))
        (fun c hc => h2 c (mem_cons_of_mem _ hc))
      have n1 := h1 c1 mem_cons_self
      have n2 := h2 c2 mem_cons_self
      cases c1 <;> cases c2 <;> simp_all [coreUntyped, anyToFloat, numV, IsNum]

/-- a cell of the declared field type -/
def CellHas : DType → Cell V → Prop
  | .integer, .int _ => True
  | .decimal, .flt _ => True
  | _, _ => False

/-- the typed interpolation of one field: integer fields convert with `int64(·)` -/
def fieldLerp (dt : DType) (di dtot : Int) (c1 c2 : Cell V) : Cell V :=
  dtFromFloat A dt (A.lerp (numV A c1) (numV A c2) (A.weight di dtot))

/-- datasource filter on a well-typed field. -/
theorem coreField_typed (dt : DType) (di dtot : Int) (c1 c2 : Cell V)
    (h1 : CellHas dt c1) (h2 : CellHas dt c2) :
    coreField A dt di dtot c1 c2 = .ok (fieldLerp A dt di dtot c1 c2) := by
  cases dt <;> cases c1 <;> cases c2 <;> simp_all [coreField, dtToFloat, fieldLerp, numV, CellHas]

def TypedRow : List DType → List (Cell V) → Prop
  | [], [] => True
  | dt :: dts, c :: r => CellHas dt c ∧ TypedRow dts r
  | _, _ => False

def rowLerp (di dtot : Int) : List DType → List (Cell V) → List (Cell V) → List (Cell V)
  | dt :: dts, c1 :: r1, c2 :: r2 => fieldLerp A dt di dtot c1 c2 :: rowLerp di dtot dts r1 r2
  | _, _, _ => []

/-- report filter on well-typed rows: field-wise typed interpolation. -/
theorem coreRow_typed (di dtot : Int) :
    ∀ (dts : List DType) (r1 r2 : List (Cell V)), TypedRow dts r1 → TypedRow dts r2 →
      coreRow A di dtot dts r1 r2 = .ok (rowLerp A di dtot dts r1 r2) := by
  intro dts
  induction dts with
  | nil =>
    intro r1 r2 h1 h2
    cases r1 with
    | nil => rfl
    | cons _ _ => simp [TypedRow] at h1
  | cons dt dts ih =>
    intro r1 r2 h1 h2
    cases r1 with
    | nil => simp [TypedRow] at h1
    | cons c1 r1 =>
      cases r2 with
      | nil => simp [TypedRow] at h2
      | cons c2 r2 =>
        simp only [TypedRow] at h1 h2
        simp [coreRow, coreField_typed A dt di dtot c1 c2 h1.1 h2.1, ih r1 r2 h1.2 h2.2, rowLerp]

end cores

/-! ## Exact arithmetic: bounded-ness and integer truncation -/

theorem secs_pos {d : Int} (h : 0 < d) : (0:Rat) < ratArith.secs d := by
  show (0:Rat) < (d:Rat) / 1000000000
  rw [Rat.div_def]
  exact Rat.mul_pos (Rat.intCast_pos.2 h) (Rat.inv_pos.2 (by decide))

theorem secs_mono {a b : Int} (h : a ≤ b) : ratArith.secs a ≤ ratArith.secs b := by
  show (a:Rat) / 1000000000 ≤ (b:Rat) / 1000000000
  rw [Rat.div_def, Rat.div_def]
  exact Rat.mul_le_mul_of_nonneg_right (Rat.intCast_le_intCast.2 h) (Rat.le_of_lt (Rat.inv_pos.2 (by decide)))

/-- The interpolation weight at a boundary strictly after `t1` and not after `t2` lies in `[0, 1]`. -/
theorem weight_unit {di dt : Int} (h1 : 0 < di) (h2 : di ≤ dt) :
    0 ≤ ratArith.weight di dt ∧ ratArith.weight di dt ≤ 1 := by
  have ha := secs_pos h1
  have hb : (0:Rat) < ratArith.secs dt := secs_pos (by omega)
  have hab := secs_mono h2
  show 0 ≤ ratArith.secs di / ratArith.secs dt ∧ ratArith.secs di / ratArith.secs dt ≤ 1
  constructor
  · rw [Rat.div_def]; exact Rat.le_of_lt (Rat.mul_pos ha (Rat.inv_pos.2 hb))
  · rw [← Rat.not_lt, Rat.lt_div_iff hb]
    grind

/-- Ordered-field lemma: with `0 ≤ w ≤ 1` the interpolation lies between its end points. -/
theorem lerp_between (v1 v2 w : Rat) (h0 : 0 ≤ w) (h1 : w ≤ 1) :
    (v1 ≤ v2 → v1 ≤ ratArith.lerp v1 v2 w ∧ ratArith.lerp v1 v2 w ≤ v2) ∧
    (v2 ≤ v1 → v2 ≤ ratArith.lerp v1 v2 w ∧ ratArith.lerp v1 v2 w ≤ v1) := by
  show (v1 ≤ v2 → v1 ≤ v1 + (v2 - v1) * w ∧ v1 + (v2 - v1) * w ≤ v2) ∧
    (v2 ≤ v1 → v2 ≤ v1 + (v2 - v1) * w ∧ v1 + (v2 - v1) * w ≤ v1)
  constructor
  · intro h
    have a : 0 ≤ (v2 - v1) * w := Rat.mul_nonneg (by grind) h0
    have b : (v2 - v1) * w ≤ (v2 - v1) * 1 := Rat.mul_le_mul_of_nonneg_left h1 (by grind)
    grind
  · intro h
    have a : 0 ≤ (v1 - v2) * w := Rat.mul_nonneg (by grind) h0
    have b : (v1 - v2) * w ≤ (v1 - v2) * 1 := Rat.mul_le_mul_of_nonneg_left h1 (by grind)
    grind

/-- **C13 (bounded)**: over exact arithmetic, every later record of `AlignStream[float]` lies between
the last input before its boundary and the first input at or after it. -/
theorem C13_bounded {P : Period} (T : Tiles P) (xs L : List (Rec Rat)) (hs : Sorted xs)
    (h : alignStream ratArith (fltKind (V := Rat)) P xs = .ok L) :
    ∀ r ∈ L.tail, ∃ pre q y post,
      xs = pre ++ q :: y :: post ∧ r.ts.inst = P.start y.ts.inst ∧
      (∀ z ∈ pre ++ [q], z.ts.inst < r.ts.inst) ∧ (∀ z ∈ y :: post, r.ts.inst ≤ z.ts.inst) ∧
      (q.val ≤ y.val → q.val ≤ r.val ∧ r.val ≤ y.val) ∧
      (y.val ≤ q.val → y.val ≤ r.val ∧ r.val ≤ q.val) := by
  intro r hr
  obtain ⟨pre, q, y, post, h1, h2, h3, h4, h5⟩ :=
    C13_value_typed ratArith (fltKind (V := Rat)) T xs L hs h r hr
  refine ⟨pre, q, y, post, h1, h2, h3, h4, ?_⟩
  by_cases hb : y.ts.inst = r.ts.inst
  · rw [if_pos hb] at h5
    rw [h5]
    exact ⟨fun h => ⟨h, Rat.le_refl⟩, fun h => ⟨Rat.le_refl, h⟩⟩
  · rw [if_neg hb] at h5
    have hq : q.ts.inst < r.ts.inst := h3 q (by simp)
    have hy : r.ts.inst ≤ y.ts.inst := h4 y (by simp)
    obtain ⟨w0, w1⟩ := weight_unit (di := r.ts.inst - q.ts.inst) (dt := y.ts.inst - q.ts.inst)
      (by omega) (by omega)
    rw [h5]
    exact lerp_between q.val y.val _ w0 w1

/-- Truncation toward zero stays within one of its argument, on the side of zero. -/
theorem ratTrunc_spec (q : Rat) :
    (0 ≤ q → ((ratTrunc q : Int) : Rat) ≤ q ∧ q < ((ratTrunc q + 1 : Int) : Rat)) ∧
    (q < 0 → q ≤ ((ratTrunc q : Int) : Rat) ∧ ((ratTrunc q - 1 : Int) : Rat) < q) := by
  unfold ratTrunc
  constructor
  · intro h
    simp only [h, if_true]
    exact ⟨Rat.floor_le q, Rat.lt_floor_add_one q⟩
  · intro h
    have h' : ¬ 0 ≤ q := Rat.not_le.2 h
    simp only [h', if_false]
    have h1 := Rat.floor_le (-q)
    have h2 := Rat.lt_floor_add_one (-q)
    rw [Rat.intCast_neg]
    constructor
    · grind
    · rw [Rat.intCast_sub, Rat.intCast_neg]
      rw [Rat.intCast_add] at h2
      grind

/-- Truncation toward zero of a value between two integers stays between them. -/
theorem ratTrunc_between (a b : Int) (q : Rat) (h1 : (a:Rat) ≤ q) (h2 : q ≤ (b:Rat)) :
    a ≤ ratTrunc q ∧ ratTrunc q ≤ b := by
  unfold ratTrunc
  by_cases hq : 0 ≤ q
  · simp only [hq, if_true]
    constructor
    · exact Rat.le_floor_iff.2 h1
    · have := Rat.floor_le q
      have : ((q.floor : Int) : Rat) ≤ (b : Rat) := Rat.le_trans this h2
      exact Rat.intCast_le_intCast.1 this
  · simp only [hq, if_false]
    have h3 := Rat.floor_le (-q)
    have h4 : ((-b : Int) : Rat) ≤ -q := by rw [Rat.intCast_neg]; exact Rat.neg_le_neg h2
    have h5 := Rat.le_floor_iff.2 h4
    have h6 : (((-q).floor : Int) : Rat) ≤ ((-a : Int) : Rat) := by
      rw [Rat.intCast_neg]; exact Rat.le_trans h3 (Rat.neg_le_neg h1)
    have h7 := Rat.intCast_le_intCast.1 h6
    omega

/-- **C13 (integer truncation)**: over exact arithmetic, a later record of `AlignStream[int]` that is
not an on-boundary input is the truncation toward zero of the exact interpolation of its two neighbours
(so it differs from it by less than one, on the side of zero) and still lies between the neighbours. -/
theorem C13_int_trunc {P : Period} (T : Tiles P) (xs L : List (Rec Int)) (hs : Sorted xs)
    (h : alignStream ratArith (intKind ratArith) P xs = .ok L) :
    ∀ r ∈ L.tail, ∃ pre q y post,
      xs = pre ++ q :: y :: post ∧ r.ts.inst = P.start y.ts.inst ∧
      (∀ z ∈ pre ++ [q], z.ts.inst < r.ts.inst) ∧ (∀ z ∈ y :: post, r.ts.inst ≤ z.ts.inst) ∧
      (y.ts.inst = r.ts.inst → r.val = y.val) ∧
      (y.ts.inst ≠ r.ts.inst →
        r.val = ratTrunc (ratArith.lerp (q.val : Rat) (y.val : Rat)
                  (ratArith.weight (r.ts.inst - q.ts.inst) (y.ts.inst - q.ts.inst)))) ∧
      (q.val ≤ y.val → q.val ≤ r.val ∧ r.val ≤ y.val) ∧
      (y.val ≤ q.val → y.val ≤ r.val ∧ r.val ≤ q.val) := by
  intro r hr
  obtain ⟨pre, q, y, post, h1, h2, h3, h4, h5⟩ :=
    C13_value_typed ratArith (intKind ratArith) T xs L hs h r hr
  refine ⟨pre, q, y, post, h1, h2, h3, h4, ?_⟩
  by_cases hb : y.ts.inst = r.ts.inst
  · rw [if_pos hb] at h5
    refine ⟨fun _ => h5, fun hne => absurd hb hne, ?_, ?_⟩ <;> intro hle <;> omega
  · rw [if_neg hb] at h5
    have hq : q.ts.inst < r.ts.inst := h3 q (by simp)
    have hy : r.ts.inst ≤ y.ts.inst := h4 y (by simp)
    obtain ⟨w0, w1⟩ := weight_unit (di := r.ts.inst - q.ts.inst) (dt := y.ts.inst - q.ts.inst)
      (by omega) (by omega)
    have hlb := lerp_between (q.val : Rat) (y.val : Rat) _ w0 w1
    refine ⟨fun he => absurd he hb, fun _ => h5, ?_, ?_⟩
    · intro hle
      have := hlb.1 (Rat.intCast_le_intCast.2 hle)
      rw [h5]
      exact ratTrunc_between _ _ _ this.1 this.2
    · intro hle
      have := hlb.2 (Rat.intCast_le_intCast.2 hle)
      rw [h5]
      exact ratTrunc_between _ _ _ this.1 this.2

/-! ## Representation independence -/

/-- **C13 (representation independence)**: the aligner's result is a function of the instants and values
of the input only.  Two inputs that agree position by position on (instant, value) - whatever Location
their timestamps carry - give the same result: same records (stamps carry the period's location), same
error.  Holds for every period (no `Tiles` needed), every core (so every interpretation of the arithmetic
operations: no field identity is used), every input (sorted or not). -/
theorem C13_repr_independent (P : Period) (core : Int → Int → β → β → Except Err β)
    (xs xs' : List (Rec β))
    (h : xs.map (fun r => (r.ts.inst, r.val)) = xs'.map (fun r => (r.ts.inst, r.val))) :
    alignWith P core xs = alignWith P core xs' := by
  let norm : Rec β → Rec β := fun r => ⟨⟨r.ts.inst, 0⟩, r.val⟩
  have hn : ∀ r, (norm r).ts.inst = r.ts.inst ∧ (norm r).val = r.val := fun r => ⟨rfl, rfl⟩
  have e1 := alignFrom_map P core norm hn none xs
  have e2 := alignFrom_map P core norm hn none xs'
  have hmap : xs.map norm = xs'.map norm := by
    have : norm = (fun (p : Int × β) => (⟨⟨p.1, 0⟩, p.2⟩ : Rec β)) ∘ (fun r => (r.ts.inst, r.val)) := rfl
    rw [this, ← map_map, ← map_map, h]
  unfold alignWith
  simp only [Option.map_none] at e1 e2
  rw [← e1, ← e2, hmap]

/-- relocating every timestamp by an arbitrary function of the record -/
def relocate (ρ : Rec β → Nat) (r : Rec β) : Rec β := ⟨⟨r.ts.inst, ρ r⟩, r.val⟩

theorem C13_repr_independent_relocate (P : Period) (core : Int → Int → β → β → Except Err β)
    (ρ : Rec β → Nat) (xs : List (Rec β)) :
    alignWith P core (xs.map (relocate ρ)) = alignWith P core xs :=
  C13_repr_independent P core _ _ (by simp [relocate, Function.comp_def])

/-- the four aligners, any arithmetic `A` (no laws) -/
theorem C13_repr_independent_all {V N : Type} (A : Arith V) (K : NumKind V N) (P : Period) :
    (∀ xs xs' : List (Rec N), xs.map (fun r => (r.ts.inst, r.val)) = xs'.map (fun r => (r.ts.inst, r.val)) →
      alignStream A K P xs = alignStream A K P xs') ∧
    (∀ xs xs' : List (Rec (List (Cell V))),
      xs.map (fun r => (r.ts.inst, r.val)) = xs'.map (fun r => (r.ts.inst, r.val)) →
      alignUntyped A P xs = alignUntyped A P xs') ∧
    (∀ dt (xs xs' : List (Rec (Cell V))),
      xs.map (fun r => (r.ts.inst, r.val)) = xs'.map (fun r => (r.ts.inst, r.val)) →
      alignField A dt P xs = alignField A dt P xs') ∧
    (∀ dts (xs xs' : List (Rec (List (Cell V)))),
      xs.map (fun r => (r.ts.inst, r.val)) = xs'.map (fun r => (r.ts.inst, r.val)) →
      alignRows A dts P xs = alignRows A dts P xs') :=
  ⟨fun xs xs' h => C13_repr_independent P _ xs xs' h,
   fun xs xs' h => C13_repr_independent P _ xs xs' h,
   fun _ xs xs' h => C13_repr_independent P _ xs xs' h,
   fun _ xs xs' h => C13_repr_independent P _ xs xs' h⟩

/-! ## Non-vacuity: a concrete period meeting `Tiles`, concrete inputs meeting every hypothesis -/

/-- Fixed-duration periods (any `d > 0`, any epoch) satisfy `Tiles`. -/
theorem fixed_tiles (d : Int) (hd : 0 < d) (epoch : Int) (loc : Nat) : Tiles (fixedPeriod d epoch loc) where
  start_le := by
    intro t
    show epoch + d * ((t - epoch) / d) ≤ t
    have := Int.mul_ediv_self_le (x := t - epoch) (k := d) (by omega)
    omega
  lt_stop := by
    intro t
    show t < epoch + d * ((t - epoch) / d) + d
    have := Int.lt_mul_ediv_self_add (x := t - epoch) hd
    omega
  start_idem := by
    intro t
    show epoch + d * ((epoch + d * ((t - epoch) / d) - epoch) / d) = epoch + d * ((t - epoch) / d)
    have : epoch + d * ((t - epoch) / d) - epoch = d * ((t - epoch) / d) := by omega
    rw [this, Int.mul_ediv_cancel_left _ (by omega : d ≠ 0)]
  start_stop := by
    intro t
    show epoch + d * ((epoch + d * ((t - epoch) / d) + d - epoch) / d) = epoch + d * ((t - epoch) / d) + d
    have : epoch + d * ((t - epoch) / d) + d - epoch = d * ((t - epoch) / d + 1) := by
      rw [Int.mul_add]; omega
    rw [this, Int.mul_ediv_cancel_left _ (by omega : d ≠ 0), Int.mul_add]; omega
  mono := by
    intro t u h
    show epoch + d * ((t - epoch) / d) ≤ epoch + d * ((u - epoch) / d)
    have := Int.ediv_le_ediv hd (show t - epoch ≤ u - epoch by omega)
    have := Int.mul_le_mul_of_nonneg_left this (Int.le_of_lt hd)
    omega

/-- an "hour" of 3600 ticks -/
def exP : Period := fixedPeriod 3600
theorem exP_tiles : Tiles exP := fixed_tiles 3600 (by decide) 0 0

/-- several per period, one exactly on a boundary (7200), a multi-period gap, timestamps in four locations -/
def exRat : List (Rec Rat) :=
  [⟨⟨600, 1⟩, 1⟩, ⟨⟨1800, 2⟩, 5⟩, ⟨⟨5400, 0⟩, 3⟩, ⟨⟨7200, 3⟩, 10⟩, ⟨⟨7300, 3⟩, 11⟩, ⟨⟨18000, 3⟩, -4⟩, ⟨⟨19000, 1⟩, 6⟩,
   ⟨⟨23400, 1⟩, -5⟩]
def exInt : List (Rec Int) := [⟨⟨600, 1⟩, 1⟩, ⟨⟨1800, 2⟩, -7⟩, ⟨⟨5400, 0⟩, 3⟩, ⟨⟨9000, 0⟩, 4⟩]

theorem exRat_sorted : Sorted exRat := by unfold Sorted exRat; decide
theorem exInt_sorted : Sorted exInt := by unfold Sorted exInt; decide

/-- the hypotheses of every theorem above are met by `exP`, `exRat`, and the result is not trivial:
interpolated (4 = 5 + (3-5)/2), on-boundary (10), after a multi-period gap, and -5/2·… -/
example : alignStream ratArith (fltKind (V := Rat)) exP exRat =
    .ok [⟨⟨0, 0⟩, 1⟩, ⟨⟨3600, 0⟩, 4⟩, ⟨⟨7200, 0⟩, 10⟩, ⟨⟨18000, 0⟩, -4⟩, ⟨⟨21600, 0⟩, -1/2⟩] := by decide +kernel
/-- integer kind: -7 + (3+7)·(1800/3600) = -2 exactly; 3 + (4-3)·(1800/3600) = 3.5 truncates to 3 -/
example : alignStream ratArith (intKind ratArith) exP exInt =
    .ok [⟨⟨0, 0⟩, 1⟩, ⟨⟨3600, 0⟩, -2⟩, ⟨⟨7200, 0⟩, 3⟩] := by decide +kernel
/-- truncation is toward zero, not floor: -7 → 2 at weight 1/4 is -4.75, emitted as -4 -/
example : alignStream ratArith (intKind ratArith) exP [⟨⟨2700, 0⟩, -7⟩, ⟨⟨6300, 0⟩, 2⟩] =
    .ok [⟨⟨0, 0⟩, -7⟩, ⟨⟨3600, 0⟩, -4⟩] := by decide +kernel
/-- representation independence is not vacuous: the same instants in other locations -/
example : alignStream ratArith (fltKind (V := Rat)) exP (exRat.map (relocate (fun r => r.ts.loc + 7))) =
    alignStream ratArith (fltKind (V := Rat)) exP exRat :=
  C13_repr_independent_relocate exP _ _ exRat
/-- an unsorted input is answered with the out-of-bounds error of `timeWeightedAverage` (model branch) -/
example : alignStream ratArith (fltKind (V := Rat)) exP [⟨⟨5400, 0⟩, 1⟩, ⟨⟨600, 0⟩, 2⟩] = .error .outOfBounds := by
  decide +kernel
/-- the untyped aligner turns an interpolated integer field into a float64 (here over `Rat`) -/
example : alignUntyped ratArith exP [⟨⟨1800, 0⟩, [.int 1]⟩, ⟨⟨5400, 0⟩, [.int 3]⟩] =
    .ok [⟨⟨0, 0⟩, [.int 1]⟩, ⟨⟨3600, 0⟩, [.flt 2]⟩] := by decide +kernel
/-- the report filter truncates integer fields and keeps decimal fields -/
example : alignRows ratArith [.integer, .decimal] exP
      [⟨⟨1800, 0⟩, [.int 1, .flt 1]⟩, ⟨⟨5400, 0⟩, [.int 4, .flt 4]⟩] =
    .ok [⟨⟨0, 0⟩, [.int 1, .flt 1]⟩, ⟨⟨3600, 0⟩, [.int 2, .flt (5/2)]⟩] := by decide +kernel

end ShpanVerif.Props.C13
