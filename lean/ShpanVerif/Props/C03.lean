/-
C03 — failures surface as errors: never swallowed, never faked values, never a crash (sequential part).

Model: `Model/Pipe.lean` (tied to the Go code by the C03 correspondence check: every fault kind injected at
every call position of thousands of pipelines).  Statements: `Props/PipeStatements.lean` (not weakened).

  `C03_surface`            if the plan `(pos, k)`, k ≠ cancel, fires during a terminal operation, the outcome
                           is `err (expectedRoot k) d` — never `ok`, never another error class
  `C03_injected_in_chain`  the same in the property's words: the injected error is in the chain
                           (`Root.user`, what `errors.Is(err, injected)` observes) exactly for the kinds
                           err / io.EOF-as-error / panic(error); a panic with a plain value surfaces as the
                           recovered-value error
  `C03_prefix`             for EVERY fault kind (cancel included) and position, what was delivered before
                           the fault is a prefix of the fault-free delivery: nothing invented, nothing
                           reordered, no stand-in for the failed element or the end-of-stream marker
  `C03_no_panic_escapes`   `consume` always returns an `Outcome`; a `Res.panic` below never escapes

The asynchronous part of C03 (Buffered, concurrent map, concurrent consume) is modelled separately in the
concurrency family (`Model/Conc*.lean`).

Proof architecture (`Proofs/PipeC03Base.lean`, `PipeC03Surface.lean`, `PipeC03Couple.lean`):
* surfacing: a one-run invariant `Step` proved for all ten functions of the mutual block simultaneously by
  induction on the fuel: the plan stays in place, and the ghost flag `fired` is unchanged or the result is
  the injected failure; (i) `World.call` is the only place that sets `fired`, and then answers err/panic,
  (ii) every function hands a callee's `fail`/`panic` up unchanged (cluster's nested terminal turns
  `panic b` into `fail (recovered b)`: same root), `closeP` makes no call;
* prefix: a two-run coupling `Rel` (fault-free world vs. the same world with the plan) with two phases —
  before the plan fires (same call counter, same cancellation flag) and, for cancel, after it fired (run 2
  is cancelled and follows run 1 until its next ctx check) — proved for all ten functions the same way:
  run 2 stops (`fail`/`panic`) or both runs return the same result and state in related worlds.
-/
import ShpanVerif.Props.PipeStatements
import ShpanVerif.Proofs.PipeC03Surface
import ShpanVerif.Proofs.PipeC03Couple

namespace ShpanVerif.Props.C03
open ShpanVerif.Model.Pipe ShpanVerif.Proofs.PipeC03 ShpanVerif.Props

/-- **C03 (surfacing)**, full statement. -/
theorem C03_surface : C03_surface_statement := by
  intro fuel c p w pos k hf hk h0
  rcases consume_step (pos := pos) (k := k) fuel c p w ⟨hf, hk⟩ with h | h | h
  · exact .inl h
  · refine .inr fun hfired => ?_
    rw [h, h0] at hfired; cases hfired
  · refine .inr fun _ => ?_
    generalize (consume fuel c p w).1 = o at h
    cases o with
    | ok d => cases h
    | oof => cases h
    | err e d => exact ⟨d, by rw [show e = expectedRoot k from h]⟩

/-- **C03 (surfacing) in the property's words**: once the plan fired, the terminal returned an error, and
`errors.Is(err, injected)` (`Root.user`) holds exactly when the fault was a returned error, a returned
`io.EOF`, or a panic with the error; a panic with a plain value surfaces as the recovered-value error. -/
theorem C03_injected_in_chain (fuel : Nat) (c : Consumer) (p : Pipe) (w : World) (pos : Nat) (k : FaultKind)
    (hf : w.fault = some (pos, k)) (hk : k ≠ .cancel) (h0 : w.fired = false) :
    (consume fuel c p w).1 = .oof ∨
      ((consume fuel c p w).2.2.fired = true →
        ∃ e d, (consume fuel c p w).1 = .err e d ∧ (e = .user ↔ k ≠ .panicVal) ∧
          (e = .panicVal ↔ k = .panicVal)) := by
  rcases C03_surface fuel c p w pos k hf hk h0 with h | h
  · exact .inl h
  · refine .inr fun hfired => ?_
    obtain ⟨d, hd⟩ := h hfired
    refine ⟨expectedRoot k, d, hd, ?_, ?_⟩ <;> cases k <;> simp [expectedRoot] at hk ⊢

/-- **C03 (prefix)**, full statement: every fault kind, cancel included. -/
theorem C03_prefix : C03_prefix_statement := by
  intro fuel c p w pos k hf
  exact consume_coup fuel c p w _ (Rel_start w hf)

/-- **C03 (no crash)**: a terminal operation always returns — success, an error, or (model only) out of
fuel.  By typing: `consume` maps `Res.panic b` from `openP` and from the pull loop to
`.err (recovered b) …` (Go: the deferred `recover` of ConsumeWithErrAndCtx, shpan_stream.go:107-118), and
the cluster factory's nested terminal does the same (`clusterRead`: `.panic b ↦ .fail (recovered b)`). -/
theorem C03_no_panic_escapes (fuel : Nat) (c : Consumer) (p : Pipe) (w : World) :
    (∃ d, (consume fuel c p w).1 = .ok d) ∨ (∃ e d, (consume fuel c p w).1 = .err e d) ∨
      (consume fuel c p w).1 = .oof := by
  cases (consume fuel c p w).1 <;> simp

/-! ### non-vacuity: concrete pipelines whose plan fires -/

/-- Bool-valued check of an outcome (the model's `Outcome` has no `DecidableEq`) -/
def isErr (o : Outcome) (r : Root) (d : List V) : Bool :=
  match o with
  | .err e d' => e == r && d' == d
  | _ => false

def isOk (o : Outcome) (d : List V) : Bool :=
  match o with
  | .ok d' => d' == d
  | _ => false

/-- `Map(+1)` over the probe source [1,2,3]; call positions: 0 = Open, 1 = Emit, 2 = mapper, 3 = Emit, … -/
def demo : Pipe := .map (.add 1) (.src 0 [1, 2, 3] 0)

/-- fault-free: delivers [2,3,4] -/
example : isOk (consume 10 .collect demo {}).1 [.int 2, .int 3, .int 4] = true := by decide +kernel

/-- error at the second Emit (position 3): the plan fires, hypotheses of `C03_surface` hold, the outcome is
    `err user` after delivering [2] — a proper prefix of [2,3,4] -/
example : ({ fault := some (3, .err) } : World).fired = false ∧
    (consume 10 .collect demo { fault := some (3, .err) }).2.2.fired = true ∧
    isErr (consume 10 .collect demo { fault := some (3, .err) }).1 .user [.int 2] = true := by decide +kernel

/-- the mapper panics with a plain value at its second invocation (position 4) -/
example : (consume 10 .collect demo { fault := some (4, .panicVal) }).2.2.fired = true ∧
    isErr (consume 10 .collect demo { fault := some (4, .panicVal) }).1 .panicVal [.int 2] = true := by decide +kernel

/-- the probe's Open panics with the error (position 0): nothing delivered, the error is in the chain -/
example : (consume 10 .collect demo { fault := some (0, .panicErr) }).2.2.fired = true ∧
    isErr (consume 10 .collect demo { fault := some (0, .panicErr) }).1 .user [] = true := by decide +kernel

/-- a user callback returns io.EOF at position 2: an error, not a short successful stream -/
example : isErr (consume 10 .collect demo { fault := some (2, .errEof) }).1 .user [] = true := by decide +kernel

/-- cancel at the first mapper call (position 2): the element in flight is still delivered, the next ctx
    check fails the run: [2] is a prefix of [2,3,4] (the second phase of the coupling is exercised) -/
example : isErr (consume 10 .collect demo { fault := some (2, .cancel) }).1 .ctx [.int 2] = true := by decide +kernel

/-- a plan beyond the last call position never fires: the run succeeds (the `fired → …` implication of
    `C03_surface` is not vacuous in either direction) -/
example : (consume 10 .collect demo { fault := some (99, .err) }).2.2.fired = false ∧
    isOk (consume 10 .collect demo { fault := some (99, .err) }).1 [.int 2, .int 3, .int 4] = true := by decide +kernel

/-- a cluster pipeline whose factory's nested terminal recovers a panic of the source: root preserved -/
def demoCluster : Pipe := .cluster 10 .sum none 0 none false (.src 0 [1, 2, 11] 0)

example : (consume 20 .user demoCluster { fault := some (3, .panicVal) }).2.2.fired = true ∧
    isErr (consume 20 .user demoCluster { fault := some (3, .panicVal) }).1 .panicVal [] = true := by decide +kernel

end ShpanVerif.Props.C03
