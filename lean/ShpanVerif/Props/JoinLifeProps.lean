/-
C01 / C03 / C09 / C18 for the sorted-stream joins inside the probe world — over the executable model `Model/JoinLife.lean`:

    terminal( [Limit k]( Join( probe source r0 over xs0 , probe source r1 over xs1 [, …] ) ) )

The theorems are about the *frame* (`openIns`, `closeIns`, `openC`, `closeFunc`, `emitT`, `pullLoopJ`, `consumeJ` = what
`newUnsafeStream` / `NewDownMultiStream` / `Limit` / `ConsumeWithErrAndCtx` do) around ANY emit program `prog : σ → Prog σ`
over ANY number of inputs: they hold for `join2 kf F` (JoinSortedStreams), `leftJoin2 kf F` (LeftJoinSortedStreams),
`joinN kf N F` (JoinMultipleSortedStreams) — and for every other emit function that only checks the context, pulls its
inputs, calls a callback and returns.  For ALL input lists (sorted or not), ALL key functions, ALL limits, both consumers,
ALL worlds (any fault kind — err / io.EOF-as-error / panic(err) / panic(value) / cancel — at any call position: an Open, an
Emit of any input, the joiner, the consumer; cancelled or not), ALL fuel values, and ALL values of the join's captured
variables (so: after any history of earlier materialisations).

Reading guide: `consumeJ prog fuel kc lim c w` = one terminal operation on the operator object `c` in world `w`;
`Rested c` = nothing opened, every input rewound, distinct resource ids (what `Obj.mk0` is: `mk0_rested`);
`Shape a b` = same resources and contents.  `JOutcome.oof` = the model ran out of fuel.
-/
import ShpanVerif.Proofs.JoinLifeClean
import ShpanVerif.Proofs.JoinLifeTie
import ShpanVerif.Proofs.JoinLifeTieLeft
import ShpanVerif.Proofs.JoinLifeTieN

namespace ShpanVerif.Props.JoinLife
open ShpanVerif.Model.Pipe ShpanVerif.Model.JoinLife ShpanVerif.Proofs.JoinLife
open ShpanVerif.Proofs.PipeC01 (Traced traced_init replay resRun replay_resRun traced_prim)

/-! ### the freshly constructed join is at rest -/

theorem mk0_rested {σ : Type} (srcs : List (Nat × List Int)) (s0 : σ) (hn : (srcs.map (·.1)).Nodup) :
    Rested (Obj.mk0 srcs s0) := by
  refine ⟨rfl, ?_, ?_⟩
  · intro p hp
    simp only [Obj.mk0, List.mem_map] at hp
    obtain ⟨q, _, rfl⟩ := hp
    rfl
  · simpa [Obj.mk0, rids, Function.comp_def] using hn

/-! ### C01 — every opened input is closed exactly once -/

/-- **C01_join** (state level): in EVERY world a materialisation that starts at rest with its inputs' resources closed
returns with `bad` off (no resource opened while open, closed while closed, pulled while closed: every successful Open is
matched by exactly one Close, a failed or never attempted Open by none, no Emit outside an open window), the open set
exactly as it was before (every input closed again, foreign resources untouched), and the operator object at rest again
with the same inputs — or the model ran out of fuel. -/
theorem C01_join {σ : Type} (prog : σ → Prog σ) (fuel : Nat) (kc : Consumer) (lim : Option Int) (c : Obj σ) (w : World)
    (hr : Rested c) (hc : ∀ r ∈ rids c.ins, w.isOpen r = false) (hb : w.bad = false) :
    (consumeJ prog fuel kc lim c w).1 = .oof ∨
    ((consumeJ prog fuel kc lim c w).2.2.bad = false ∧
     (∀ r, (consumeJ prog fuel kc lim c w).2.2.isOpen r = w.isOpen r) ∧
     Rested (consumeJ prog fuel kc lim c w).2.1 ∧ Shape c.ins (consumeJ prog fuel kc lim c w).2.1.ins) :=
  consumeJ_spec prog fuel kc lim c w hr hc hb

/-- **C01_join** (trace level): for every resource the recorded event sequence is accepted by the per-resource automaton
closed —openOk→ open —emit*→ open —close→ closed (`resRun`; a failed Open changes nothing, anything else is rejected)
and ends closed: every input whose Open succeeded is closed exactly once, after it, with all its Emits in between; an
input whose Open failed or was never attempted is never closed and never pulled. -/
theorem C01_join_trace {σ : Type} (prog : σ → Prog σ) (fuel : Nat) (kc : Consumer) (lim : Option Int) (c : Obj σ)
    (w : World) (hr : Rested c) (htr : Traced w) (hb : w.bad = false) (hz : ∀ r, w.isOpen r = false) :
    (consumeJ prog fuel kc lim c w).1 = .oof ∨ ∀ r, resRun r (consumeJ prog fuel kc lim c w).2.2.trace = some false := by
  rcases C01_join prog fuel kc lim c w hr (fun r _ => hz r) hb with h | ⟨hbad, hopen, _⟩
  · exact Or.inl h
  · right
    intro r
    have ht : ((consumeJ prog fuel kc lim c w).2.2.isOpen, (consumeJ prog fuel kc lim c w).2.2.bad) =
        replay (consumeJ prog fuel kc lim c w).2.2.trace := consumeJ_prim traced_prim prog fuel kc lim c w htr
    have h2 : (replay (consumeJ prog fuel kc lim c w).2.2.trace).2 = false := by rw [← ht]; exact hbad
    have h1 : (replay (consumeJ prog fuel kc lim c w).2.2.trace).1 r = false := by
      rw [← ht]; exact (hopen r).trans (hz r)
    rw [(replay_resRun _).2 h2 r, h1]

/-- … in particular in the initial world, under any fault plan and with or without a cancelled context -/
theorem C01_join_trace_init {σ : Type} (prog : σ → Prog σ) (fuel : Nat) (kc : Consumer) (lim : Option Int) (c : Obj σ)
    (fault : Option (Nat × FaultKind)) (cancelled : Bool) (hr : Rested c) :
    (consumeJ prog fuel kc lim c { fault := fault, cancelled := cancelled }).1 = .oof ∨
    ∀ r, resRun r (consumeJ prog fuel kc lim c { fault := fault, cancelled := cancelled }).2.2.trace = some false :=
  C01_join_trace prog fuel kc lim c _ hr (traced_init fault cancelled 0) rfl (fun _ => rfl)

/-- while the materialisation runs, every input stays open and `bad` stays off: the emit program (whatever it is) cannot
    change the open set -/
theorem C01_join_emit_keeps_open {σ : Type} (prog : σ → Prog σ) (c : Obj σ) (w : World) (h : Live c w) :
    Live (emitJ prog c w).2.1 (emitJ prog c w).2.2 ∧ (emitJ prog c w).2.2.isOpen = w.isOpen :=
  ⟨(emitJ_spec prog c w h).1, (emitJ_spec prog c w h).2.1⟩

/-! ### C03 — failures surface; what was delivered is a prefix -/

/-- **C03_join_surface**: a fired non-cancel fault makes the terminal return an error whose root is the injected one
(`user` for err / io.EOF-as-error / panic(err), `panicVal` for panic(value)) -/
theorem C03_join_surface {σ : Type} (prog : σ → Prog σ) (fuel : Nat) (kc : Consumer) (lim : Option Int) (c : Obj σ)
    (w : World) (pos : Nat) (k : FaultKind) (hf : w.fault = some (pos, k)) (hk : k ≠ .cancel) (hnf : w.fired = false) :
    (consumeJ prog fuel kc lim c w).1 = .oof ∨
    ((consumeJ prog fuel kc lim c w).2.2.fired = true →
      ∃ d, (consumeJ prog fuel kc lim c w).1 = .err (expectedRoot k) d) :=
  consumeJ_surface prog fuel kc lim c w hf hk hnf

/-- **C03_join_prefix**: whatever the fault (any kind, cancel included, any position), the delivered rows are a prefix of
the fault-free run's -/
theorem C03_join_prefix {σ : Type} (prog : σ → Prog σ) (fuel : Nat) (kc : Consumer) (lim : Option Int) (c : Obj σ)
    (w : World) (pos : Nat) (k : FaultKind) (hf : w.fault = none) (hc : w.cancelled = false) :
    (consumeJ prog fuel kc lim c w).1 = .oof ∨
    (consumeJ prog fuel kc lim c { w with fault := some (pos, k) }).1.delivered <+:
      (consumeJ prog fuel kc lim c w).1.delivered :=
  consumeJ_prefix prog fuel kc lim c { w with fault := some (pos, k) } w ⟨hf, hc⟩

/-- the same against ANY world (e.g. one whose context is cancelled from the start) -/
theorem C03_join_prefix_any {σ : Type} (prog : σ → Prog σ) (fuel : Nat) (kc : Consumer) (lim : Option Int) (c : Obj σ)
    (w wc : World) (hc : wc.Clean) :
    (consumeJ prog fuel kc lim c wc).1 = .oof ∨
    (consumeJ prog fuel kc lim c w).1.delivered <+: (consumeJ prog fuel kc lim c wc).1.delivered :=
  consumeJ_prefix prog fuel kc lim c w wc hc

/-! ### C09 — fault-free, the delivered rows are those of the C09 model -/

/-- **C09_join_refines, step 1 (any program)**: in a fault-free world the terminal returns exactly what the same emit
program returns over plain lists (`runL`: no world, no context, no callbacks; `collectL` = call it until it does not
return a row) -/
theorem C09_join_erase {σ : Type} (prog : σ → Prog σ) (fuel : Nat) (kc : Consumer) (c : Obj σ) (w : World)
    (hw : w.Clean) :
    (consumeJ prog fuel kc none c w).1 = outcomeL (collectL prog fuel c.js (c.ins.map (·.xs))) :=
  consumeJ_clean prog fuel kc c w hw

/-- **C09_join_refines (JoinSortedStreams)**: erasing the probe world from the lifecycle model gives the C09 model: over
plain lists `join2` does, call by call, what `Join.emitJoin` does (`join2_emitJoin`: same rows, same captured variables, same
read positions, same error), so the fault-free terminal delivers exactly the rows of `Join.collect (Join.emitJoin kf kf)`
— for all inputs, sorted or not; hence, by the C09 theorems, the nested-loop join when the inputs are sorted. -/
theorem C09_join_refines (kf : Int → Int) (F fuel : Nat) (kc : Consumer) (l r : List Int) (r0 r1 : Nat) (w : World)
    (hw : w.Clean) (hF : l.length + r.length + 2 ≤ F) :
    (consumeJ (join2 kf F) fuel kc none (Obj.mk0 [(r0, l), (r1, r)] ({} : J2)) w).1 =
      outcomeJ2 (Model.Join.collect (Model.Join.emitJoin kf kf) fuel (Model.Join.init2 l r)) := by
  rw [C09_join_erase _ _ _ _ _ hw]
  exact collectL_join2 kf F fuel l r hF

/-- **C09_leftjoin_refines (LeftJoinSortedStreams)**: over plain lists `leftJoin2` does, call by call, what
`Join.emitLeftJoin` does (`leftJoin2_emitLeftJoin`: same rows, same captured variables — `rightStreamIsDone` included —,
same read positions, same error, from ANY values of the captured variables), so the fault-free terminal delivers exactly
the rows (and the error, if any) of `Join.collect (Join.emitLeftJoin kf kf)` — for all inputs, sorted or not; hence, by
`C09_join2_left`, the nested-loop left join when the inputs are sorted.  `F` (the bound of the inner `for`) only has to
exceed the length of the right input. -/
theorem C09_leftjoin_refines (kf : Int → Int) (F fuel : Nat) (kc : Consumer) (l r : List Int) (r0 r1 : Nat) (w : World)
    (hw : w.Clean) (hF : r.length < F) :
    (consumeJ (leftJoin2 kf F) fuel kc none (Obj.mk0 [(r0, l), (r1, r)] ({} : J2)) w).1 =
      outcomeLJ2 (Model.Join.collect (Model.Join.emitLeftJoin kf kf) fuel (Model.Join.init2 l r)) := by
  rw [C09_join_erase _ _ _ _ _ hw]
  exact collectL_leftJoin2 kf F fuel l r hF

/-- **C09_joinN_refines (JoinMultipleSortedStreams)**: over plain lists `joinN` — index loops over `nextBuffer` /
`lastKeys` — does, call by call, what `Join.emitInnerN` — structural recursion over per-input records — does
(`joinN_emitInnerN_first`, `joinN_emitInnerN`: same rows, same buffers, same `lastKeys`, same read positions, same
error), so the fault-free terminal delivers exactly the rows (and the error, if any) of
`Join.collect (Join.emitInnerN kf)` — for ANY number of inputs (zero included), all inputs, sorted or not; hence, by
`C09_joinN_inner`, the relational N-way join when the inputs are strictly increasing.  `F` (the bound of the `for` loop)
only has to exceed the total number of input elements: every round that does not return pulls an element. -/
theorem C09_joinN_refines (kf : Int → Int) (F fuel : Nat) (kc : Consumer) (srcs : List (Nat × List Int)) (w : World)
    (hw : w.Clean) (hF : Model.Join.total (srcs.map (·.2)) < F) :
    (consumeJ (joinN kf srcs.length F) fuel kc none (Obj.mk0 srcs ({} : NS)) w).1 =
      outcomeJN (Model.Join.collect (Model.Join.emitInnerN kf) fuel (Model.Join.initN (srcs.map (·.2)))) := by
  rw [C09_join_erase _ _ _ _ _ hw]
  have h := collectL_joinN kf F fuel (srcs.map (·.2)) hF
  simp only [List.length_map] at h
  have hins : (Obj.mk0 srcs ({} : NS)).ins.map (·.xs) = srcs.map (·.2) := by
    simp [Obj.mk0, Function.comp_def]
  rw [hins]
  exact h

/-! ### C18 — histories -/

/-- one earlier materialisation: fuel, consumer, optional `Limit`, and an arbitrary world with the inputs closed -/
structure PastRun where
  fuel : Nat
  consumer : Consumer
  lim : Option Int
  world : World

/-- run a history on the operator object; `none` if the model ran out of fuel somewhere -/
def afterHistory {σ : Type} (prog : σ → Prog σ) : Obj σ → List PastRun → Option (Obj σ)
  | c, [] => some c
  | c, r :: rs =>
    match consumeJ prog r.fuel r.consumer r.lim c r.world with
    | (.oof, _, _) => none
    | (_, c', _) => afterHistory prog c' rs

/-- **C18_join_history (what holds)**: the joins keep `firstElement` / `lastLeftKey` / `lastRightKey` / `nextBuffer` /
`lastKeys` across materialisations, so a later materialisation need not return what a fresh join returns (witness below).
What holds after ANY history (each run complete, stopped early, failed or cancelled — any fault plan): the operator object is
at rest again with the same inputs, so C01 (state and trace level), C03 surfacing and C03 prefix apply to the NEXT run as
well — every run of every history brackets its resources. -/
theorem C18_join_history {σ : Type} (prog : σ → Prog σ) : ∀ (hist : List PastRun) (c c' : Obj σ), Rested c →
    (∀ r ∈ hist, r.world.bad = false ∧ ∀ x, r.world.isOpen x = false) →
    afterHistory prog c hist = some c' → Rested c' ∧ Shape c.ins c'.ins
  | [], c, c', h, _, he => by simp [afterHistory] at he; subst he; exact ⟨h, Shape.refl _⟩
  | r :: rs, c, c', h, hw, he => by
      have hr := hw r (by simp)
      have hc := consumeJ_spec prog r.fuel r.consumer r.lim c r.world h (fun x _ => hr.2 x) hr.1
      simp only [afterHistory] at he
      generalize consumeJ prog r.fuel r.consumer r.lim c r.world = x at *
      obtain ⟨o, c1, w1⟩ := x
      have step : Rested c1 → Shape c.ins c1.ins → afterHistory prog c1 rs = some c' → Rested c' ∧ Shape c.ins c'.ins := by
        intro h1 h2 h3
        have := C18_join_history prog rs c1 c' h1 (fun r' hr' => hw r' (by simp [hr'])) h3
        exact ⟨this.1, h2.trans this.2⟩
      cases o with
      | oof => simp at he
      | ok d =>
        rcases hc with hc | ⟨_, _, h1, h2⟩
        · simp at hc
        · exact step h1 h2 he
      | err e d =>
        rcases hc with hc | ⟨_, _, h1, h2⟩
        · simp at hc
        · exact step h1 h2 he

/-- key of an element in the examples (and in the harness): `x / 10` -/
def exKf (x : Int) : Int := x.ediv 10

/-- the left join over `[0, 1, 12]` and `[3, 14]` (keys 0,0,1 and 0,1) -/
def exLeft : Obj J2 := Obj.mk0 [(0, [0, 1, 12]), (1, [3, 14])] {}

/-- **C18_join_history (what does not hold)**: a second fault-free materialisation of the same `LeftJoinSortedStreams`
value does not return what the first one returned: the first delivers three rows; the second compares the first left key
(0) with the `lastLeftKey` the first run left behind (1) and fails its own sortedness check, delivering nothing.
(Reproduced on the real code by the `JL ljoin2 0:0,1,12 1:3,14 || collect all nofault || collect all nofault` case.) -/
theorem C18_join_history_witness :
    (consumeJ (leftJoin2 exKf 20) 20 .collect none exLeft {}).1 =
      .ok [[some 0, some 3], [some 1, some 3], [some 12, some 14]] ∧
    (consumeJ (leftJoin2 exKf 20) 20 .collect none (consumeJ (leftJoin2 exKf 20) 20 .collect none exLeft {}).2.1 {}).1 =
      .err (.lib "left-unsorted") [] ∧
    (consumeJ (leftJoin2 exKf 20) 20 .collect none (consumeJ (leftJoin2 exKf 20) 20 .collect none exLeft {}).2.1 {}).2.2.bad
      = false := by
  refine ⟨by decide +kernel, by decide +kernel, by decide +kernel⟩

/-! ### non-vacuity: concrete joins meet the hypotheses of every theorem, with non-trivial content -/

def exInner : Obj J2 := Obj.mk0 [(0, [0, 1, 12, 23]), (1, [3, 14, 15, 26])] {}
def exN : Obj NS := Obj.mk0 [(0, [0, 11, 22]), (1, [1, 12, 23]), (2, [2, 13])] {}

theorem exInner_rested : Rested exInner := mk0_rested _ _ (by decide)
theorem exLeft_rested : Rested exLeft := mk0_rested _ _ (by decide)
theorem exN_rested : Rested exN := mk0_rested _ _ (by decide)

/-- C09: the fault-free rows of the three joins -/
example : (consumeJ (join2 exKf 20) 20 .collect none exInner {}).1 =
    .ok [[some 0, some 3], [some 1, some 3], [some 12, some 14], [some 23, some 26]] := by decide +kernel
example : (consumeJ (joinN exKf 3 20) 20 .user none exN {}).1 =
    .ok [[some 0, some 1, some 2], [some 11, some 12, some 13]] := by decide +kernel
example : (8 : Nat) + 2 ≤ 20 ∧ (Model.Join.collect (Model.Join.emitJoin exKf exKf) 20 (Model.Join.init2 [0, 1, 12, 23] [3, 14, 15, 26])).1.length = 4 := by
  decide +kernel

/-- C09 (left join, N-way): the hypotheses of `C09_leftjoin_refines` / `C09_joinN_refines` are met by the examples, the
C09 model delivers non-trivial rows on them (sorted inputs: 3 rows with a `nil` slot, 2 rows), and on unsorted inputs both
sides end in the same sortedness error after the same rows -/
example : ([3, 14] : List Int).length < 20 ∧
    Model.Join.collect (Model.Join.emitLeftJoin exKf exKf) 20 (Model.Join.init2 [0, 1, 12, 23] [3, 24]) =
      ([(0, some 3), (1, some 3), (12, none), (23, some 24)], none) := by decide +kernel
example : (consumeJ (leftJoin2 exKf 20) 20 .collect none (Obj.mk0 [(0, [0, 1, 12, 23]), (1, [3, 24])] {}) {}).1 =
    .ok [[some 0, some 3], [some 1, some 3], [some 12, none], [some 23, some 24]] := by decide +kernel
example : Model.Join.total ([(0, [0, 11, 22]), (1, [1, 12, 23]), (2, [2, 13])].map (·.2)) < 20 ∧
    Model.Join.collect (Model.Join.emitInnerN exKf) 20 (Model.Join.initN [[0, 11, 22], [1, 12, 23], [2, 13]]) =
      ([[0, 1, 2], [11, 12, 13]], none) := by decide +kernel
example : (consumeJ (leftJoin2 exKf 20) 20 .collect none (Obj.mk0 [(0, [0, 21, 12]), (1, [3])] {}) {}).1 =
      .err (.lib "left-unsorted") [[some 0, some 3], [some 21, none]] ∧
    outcomeLJ2 (Model.Join.collect (Model.Join.emitLeftJoin exKf exKf) 20 (Model.Join.init2 [0, 21, 12] [3])) =
      .err (.lib "left-unsorted") [[some 0, some 3], [some 21, none]] := by decide +kernel
example : (consumeJ (joinN exKf 2 20) 20 .collect none (Obj.mk0 [(0, [0, 11, 22]), (1, [1, 12, 3, 24])] {}) {}).1 =
      .err (.lib "stream-unsorted") [[some 0, some 1], [some 11, some 12]] ∧
    outcomeJN (Model.Join.collect (Model.Join.emitInnerN exKf) 20 (Model.Join.initN [[0, 11, 22], [1, 12, 3, 24]])) =
      .err (.lib "stream-unsorted") [[some 0, some 1], [some 11, some 12]] := by decide +kernel

/-- C01: a panic in the second Open (call position 1): the first input is rolled back, the second never closed -/
example : (consumeJ (join2 exKf 20) 20 .collect none exInner { fault := some (1, .panicVal) }).2.2.trace =
    [.call 0, .openOk 0, .call 1, .openFail 1, .close 0] := by decide +kernel
/-- C01: an error in the third input's Emit of the N-way join: all three closed in reverse order -/
example : ((consumeJ (joinN exKf 3 20) 20 .collect none exN { fault := some (5, .err) }).2.2.trace.drop 12) =
    [.close 2, .close 1, .close 0] ∧
    (consumeJ (joinN exKf 3 20) 20 .collect none exN { fault := some (5, .err) }).2.2.fired = true := by decide +kernel

/-- C03: a fault in the joiner (call position 6) surfaces as a recovered panic; a cancellation at position 7 leaves a
strict non-empty prefix -/
example : (consumeJ (joinN exKf 3 20) 20 .collect none exN { fault := some (6, .err) }).1 = .err .user [] := by decide +kernel
example : (consumeJ (joinN exKf 3 20) 20 .collect none exN { fault := some (7, .cancel) }).1 =
    .err .ctx [[some 0, some 1, some 2]] := by decide +kernel
example : (consumeJ (join2 exKf 20) 20 .user (some 3) exInner { fault := some (9, .panicErr) }).1 =
    .err .user [[some 0, some 3], [some 1, some 3]] := by decide +kernel

/-- C18: a three-run history (early stop, panic in an Open, cancellation) is a history in the sense of the theorem -/
def exHist : List PastRun :=
  [⟨20, .collect, some 1, {}⟩, ⟨20, .user, none, { fault := some (1, .panicErr) }⟩, ⟨20, .collect, none, { fault := some (4, .cancel) }⟩]

example : (afterHistory (join2 exKf 20) exInner exHist).isSome = true := by decide +kernel
example : ∀ r ∈ exHist, r.world.bad = false ∧ ∀ x, r.world.isOpen x = false := by
  intro r hr; simp [exHist] at hr; rcases hr with rfl | rfl | rfl <;> exact ⟨rfl, fun _ => rfl⟩

end ShpanVerif.Props.JoinLife
