/-
C02 over histories: the property quantifies over every source provider, and a stream value can be materialised again
and again over the same provider.  `Model/ConcHistory.lean` composes the single-materialisation systems into a history
(all materialisations started so far may still take steps; the caller starts the next one only after the previous
terminal returned).  With confinement (`C02_*_confined`: fixes 784d281, f9673b7, 780c3ca) every history keeps at most
one goroutine inside the provider's Emit; without it (the JSON pipe before fix 780c3ca) a two-materialisation history
has two.
-/
import ShpanVerif.Props.C02
import ShpanVerif.Proofs.ConcHistory

namespace ShpanVerif.Props.C02
open ShpanVerif.Model.Conc
open ShpanVerif.Model
open ShpanVerif.Proofs
open ShpanVerif.Proofs.ConcHistory

/-! ### `returned` is stable in each system -/

theorem buffered_ret_stable {cfg : Buffered.Cfg} {s s' : Buffered.St} {l : Buffered.Label}
    (h : s.cons = .ret) (hs : Buffered.step cfg s l = some s') : s'.cons = .ret := by
  cases l <;> simp only [Buffered.step] at hs <;> (repeat' split at hs) <;> simp_all <;> (subst hs; simp_all)

theorem pipe_ret_stable {cfg : JsonPipe.Cfg} {s s' : JsonPipe.St} {l : JsonPipe.Label}
    (h : s.t = .ret) (hs : JsonPipe.step cfg s l = some s') : s'.t = .ret := by
  cases l <;> simp only [JsonPipe.step] at hs <;> (repeat' split at hs) <;> simp_all <;> (subst hs; simp_all)

theorem consume_ret_stable {cfg : ConcConsume.Cfg} {s s' : ConcConsume.St} {l : ConcConsume.Label}
    (h : s.term = .ret) (hs : ConcConsume.step cfg s l = some s') : s'.term = .ret := by
  cases l <;> simp only [ConcConsume.step] at hs <;> (repeat' split at hs) <;> simp_all <;> (subst hs; simp_all)

theorem concmap_ret_stable {cfg : ConcMap.Cfg} {s s' : ConcMap.St} {l : ConcMap.Label}
    (h : s.cons = .ret) (hs : ConcMap.step cfg s l = some s') : s'.cons = .ret := by
  cases l <;> simp only [ConcMap.step] at hs <;> (repeat' split at hs) <;> simp_all <;> (subst hs; simp_all)

/-! ### the observations and their confinement -/

def bufObs : RunObs Buffered.St := { emitting := (·.emitting), returned := fun s => s.cons == .ret }
def pipeObs : RunObs JsonPipe.St := { emitting := (·.emitting), returned := fun s => s.t == .ret }
def consumeObs : RunObs ConcConsume.St := { emitting := (·.emitting), returned := fun s => s.term == .ret }
def cmapObs : RunObs ConcMap.St := { emitting := (·.emitting), returned := fun s => s.cons == .ret }

theorem buffered_confinedSys (cfg : Buffered.Cfg) (hfix : cfg.fixJoin = true) : Confined (Buffered.sys cfg) bufObs where
  exclusive s hr := (C02_buffered hr).2.1
  confined s hr h := (C02_buffered_confined hfix hr (by simpa [bufObs] using h)).2
  stable s l s' _ h hs := by
    have := buffered_ret_stable (by simpa [bufObs] using h) hs
    simp [bufObs, this]

theorem pipe_confinedSys (cfg : JsonPipe.Cfg) (hfix : cfg.fixJoin = true) : Confined (JsonPipe.sys cfg) pipeObs where
  exclusive s hr := (C02_pipe hr).2.1
  confined s hr h := (C02_pipe_confined hfix hr (by simpa [pipeObs] using h)).2
  stable s l s' _ h hs := by
    have := pipe_ret_stable (by simpa [pipeObs] using h) hs
    simp [pipeObs, this]

theorem consume_confinedSys (cfg : ConcConsume.Cfg) : Confined (ConcConsume.sys cfg) consumeObs where
  exclusive s hr := (C02_consume hr).2.1
  confined s hr h := (C02_consume_confined hr (by simpa [consumeObs] using h)).2
  stable s l s' _ h hs := by
    have := consume_ret_stable (by simpa [consumeObs] using h) hs
    simp [consumeObs, this]

theorem concmap_confinedSys (cfg : ConcMap.Cfg) (hfix : cfg.fix5 = true) : Confined (ConcMap.sys cfg) cmapObs where
  exclusive s hr := C02_exclusive_concmap hr
  confined s hr h := (C02_concmap_confined hfix hr (by simpa [cmapObs] using h)).2
  stable s l s' _ h hs := by
    have := concmap_ret_stable (by simpa [cmapObs] using h) hs
    simp [cmapObs, this]

/-! ### C02, exclusivity clause, over every history of materialisations of one stream value -/

/-- **Buffered**: however often the same stream value is materialised, whatever each materialisation's schedule,
    early stop, failure or cancellation, and however long earlier goroutines linger: never two goroutines inside the
    provider's Emit. -/
theorem C02_history_buffered (cfg : Buffered.Cfg) (hfix : cfg.fixJoin = true) {rs : List Buffered.St}
    (hr : Reachable (History (Buffered.sys cfg) bufObs) rs) : totalEmitting bufObs rs ≤ 1 :=
  history_exclusive (buffered_confinedSys cfg hfix) hr

/-- Buffered before fix f9673b7 (`fixJoin = false`): early stop while the filler is inside Emit, the terminal returns, the
    same stream value is materialised again and its filler enters Emit: two goroutines inside the provider. -/
theorem C02_witness_history_buffered :
    ∃ rs, Reachable (History (Buffered.sys { n := 3, size := 2, fixJoin := false }) bufObs) rs ∧
      totalEmitting bufObs rs = 2 :=
  let ⟨rs, hr, hp⟩ := checkRun_reachable (sys := History (Buffered.sys { n := 3, size := 2, fixJoin := false }) bufObs)
    (ls := [.start] ++ ([.fOpenOk, .fCheck, .fEmitVal, .fSend, .cCheck, .cRecv, .fCheck, .cStop, .cClose2].map (HLabel.inner 0))
            ++ [.start, .inner 0 .fOpenOk, .inner 0 .fCheck])
    (p := fun rs => totalEmitting bufObs rs == 2) (by decide)
  ⟨rs, hr, by simpa using hp⟩

theorem C02_history_pipe (cfg : JsonPipe.Cfg) (hfix : cfg.fixJoin = true) {rs : List JsonPipe.St}
    (hr : Reachable (History (JsonPipe.sys cfg) pipeObs) rs) : totalEmitting pipeObs rs ≤ 1 :=
  history_exclusive (pipe_confinedSys cfg hfix) hr

theorem C02_history_consume (cfg : ConcConsume.Cfg) {rs : List ConcConsume.St}
    (hr : Reachable (History (ConcConsume.sys cfg) consumeObs) rs) : totalEmitting consumeObs rs ≤ 1 :=
  history_exclusive (consume_confinedSys cfg) hr

theorem C02_history_concmap (cfg : ConcMap.Cfg) (hfix : cfg.fix5 = true) {rs : List ConcMap.St}
    (hr : Reachable (History (ConcMap.sys cfg) cmapObs) rs) : totalEmitting cmapObs rs ≤ 1 :=
  history_exclusive (concmap_confinedSys cfg hfix) hr

/-- The JSON pipe before fix 780c3ca (`fixJoin = false`): the consumer of the first materialisation returns while the
    writer is inside Emit; the function returns; the second materialisation's writer enters Emit: two goroutines inside
    the provider (the history of corpus/C02/confined.case). -/
theorem C02_witness_history_pipe :
    ∃ rs, Reachable (History (JsonPipe.sys { n := 2, fixJoin := false }) pipeObs) rs ∧ totalEmitting pipeObs rs = 2 :=
  let ⟨rs, hr, hp⟩ := checkRun_reachable (sys := History (JsonPipe.sys { n := 2, fixJoin := false }) pipeObs)
    (ls := [.start, .inner 0 .wOpenOk, .inner 0 .wCheck, .inner 0 .rReturn, .inner 0 .tPrClose, .inner 0 .tCancelS,
            .start, .inner 0 .wOpenOk, .inner 0 .wCheck])
    (p := fun rs => totalEmitting pipeObs rs == 2) (by decide)
  ⟨rs, hr, by simpa using hp⟩

/-- non-vacuity on the code as it is: a second materialisation after an early-stopped first one is reachable -/
example : ∃ rs, Reachable (History (Buffered.sys { n := 3, size := 2 }) bufObs) rs ∧
    (rs.length == 2 && totalEmitting bufObs rs == 1) = true :=
  checkRun_reachable
    (ls := ([.start] ++ ([.fOpenOk, .fCheck, .fEmitVal, .fSend, .cCheck, .cRecv, .fCheck, .cStop, .cClose2, .fEmitVal, .fSkip,
            .fCheck, .fCloseP, .fClosed, .fDropFin, .fCloseCh, .cJoin].map (HLabel.inner 0)) ++
            [.start, .inner 0 .fOpenOk, .inner 0 .fCheck])) (by decide)

end ShpanVerif.Props.C02
