/-
C16 — gap filling yields a gap-free aligned series that preserves the data.

Model: `Model/GapFill.lean` (the state machine of utils/timeseries/ts_gap_filler_stream.go and the fill wrappers
of the two tsquery aligner filters).  Everything below is for an arbitrary period `P` satisfying the `Tiles`
laws and `NoStartInside` (periods partition the line), an arbitrary sparse aligned input (timestamps are period
starts, strictly increasing) of arbitrary length with arbitrarily long gaps, arbitrary `interpolateFn` /
`copyFn` (hence arbitrary arithmetic), and every step budget.

  * `C16_refines`         the machine under any budget above the output length returns exactly `fillSpec`, and EOF
  * `C16_terminates`      … in particular it ends: budget = (number of periods from first to last) + 1 suffices
  * `C16_grid`            stamps: start at the first data period, each next stamp is `stop` of the previous one
                          (no gap, no duplicate), end at the last data period; strictly increasing
  * `C16_data_unchanged`  every data point is in the output, and it is the only record at its stamp
  * `C16_fill`            every other record lies strictly between two adjacent data points and carries `fillAt`
  * `C16_ffill`, `C16_linear`  what that is for the two modes (`copyFn prev` / `interpolateFn t prev next`);
    `C16_linear_twa`      with the filters' `timeWeightedAverage` the time checks never fire: value = the core
  * `C16_total`           if every fill succeeds (always, for forwardFill) the result is not an error
  * `C16_after_align`     the aligned series of C13 is a sparse aligned series: the filters' composition is in scope
-/
import ShpanVerif.Model.GapFill
import ShpanVerif.Proofs.GapFillLemmas
import ShpanVerif.Props.C13

namespace ShpanVerif.Props.C16
open List ShpanVerif.Model.Align ShpanVerif.Model.GapFill ShpanVerif.Proofs.GapFill

variable {β : Type}

/-- Each next stamp is the end (= the next period start) of the previous one. -/
def Consecutive (P : Period) : List Int → Prop
  | [] => True
  | [_] => True
  | a :: b :: l => b = P.stop a ∧ Consecutive P (b :: l)

def stamps (l : List (Pt β)) : List Int := l.map (fun r => r.1)

/-! ## Refinement and termination -/

/-- **C16 (refinement)**: on a sparse aligned series, under every step budget above the length of the
list-level result, `NewTsGapFillerStream` returns exactly that result and then EOF (flag `true`). -/
theorem C16_refines {P : Period} (T : Tiles P) (N : NoStartInside P) (mode : FillMode)
    (interp : Int → Int → β → Int → β → Except Err β) (copy : β → β) (xs L : List (Pt β))
    (hg : OnGrid P xs) (hs : StrictInc xs) (h : fillSpec mode interp copy P xs = .ok L) :
    ∀ budget, L.length < budget → gapFill P mode interp copy budget xs = .ok (L, true) := by
  obtain ⟨s', h1, h2⟩ := run_spec mode interp copy T N xs L hg hs h
  exact gcollect_of_runTo P mode interp copy h1 h2

/-- Under a budget equal to the output length the stream is reported as cut (the detector's other side). -/
theorem C16_budget_cut {P : Period} (T : Tiles P) (N : NoStartInside P) (mode : FillMode)
    (interp : Int → Int → β → Int → β → Except Err β) (copy : β → β) (xs L : List (Pt β))
    (hg : OnGrid P xs) (hs : StrictInc xs) (h : fillSpec mode interp copy P xs = .ok L) :
    gapFill P mode interp copy L.length xs = .ok (L, false) := by
  obtain ⟨s', h1, _⟩ := run_spec mode interp copy T N xs L hg hs h
  exact gcollect_cut P mode interp copy h1

/-! ## The grid -/

theorem between_consecutive {P : Period} (T : Tiles P) (N : NoStartInside P) (b : Int) (hb : P.start b = b) :
    ∀ (n : Nat) (t t0 : Int), P.start t = t → t ≤ b → (b - t).toNat ≤ n → P.stop t0 = t →
      Consecutive P (t0 :: (between P n t b ++ [b])) := by
  intro n
  induction n with
  | zero =>
    intro t t0 ht htb hn h0
    have : t = b := by omega
    subst this
    simp [between, Consecutive, h0]
  | succ n ih =>
    intro t t0 ht htb hn h0
    by_cases hlt : t < b
    · simp only [between, hlt, if_true, cons_append, Consecutive, h0, true_and]
      have hstop := stop_le_of_start_lt T N ht hb hlt
      have := T.lt_stop t
      exact ih (P.stop t) t (T.start_stop t) hstop (by omega) rfl
    · have : t = b := by omega
      subst this
      simp [between, Consecutive, h0]

theorem between_mem {P : Period} (T : Tiles P) (b : Int) :
    ∀ (n : Nat) (t : Int), ∀ t' ∈ between P n t b, t ≤ t' ∧ t' < b := by
  intro n
  induction n with
  | zero => intro t t' h; simp [between] at h
  | succ n ih =>
    intro t t' h
    by_cases hlt : t < b
    · simp only [between, hlt, if_true, mem_cons] at h
      rcases h with rfl | h
      · exact ⟨Int.le_refl _, hlt⟩
      · have := ih (P.stop t) t' h
        have := T.lt_stop t
        omega
    · simp [between, hlt] at h

section seg
variable (mode : FillMode) (interp : Int → Int → β → Int → β → Except Err β) (copy : β → β)

theorem fillSeg_spec (p n : Pt β) :
    ∀ (ts : List Int) (seg : List (Pt β)), fillSeg mode interp copy p n ts = .ok seg →
      stamps seg = ts ∧ ∀ r ∈ seg, fillAt mode interp copy p n r.1 = .ok r.2 := by
  intro ts
  induction ts with
  | nil =>
    intro seg h
    simp only [fillSeg, Except.ok.injEq] at h
    subst h
    simp [stamps]
  | cons t ts ih =>
    intro seg h
    simp only [fillSeg] at h
    cases hv : fillAt mode interp copy p n t with
    | error e => simp [hv] at h
    | ok v =>
      cases hr : fillSeg mode interp copy p n ts with
      | error e => simp [hv, hr] at h
      | ok rest =>
        simp only [hv, hr, Except.ok.injEq] at h
        subst h
        obtain ⟨h1, h2⟩ := ih rest hr
        constructor
        · simp only [stamps, map_cons] at h1 ⊢; rw [h1]
        · intro r hr'
          rcases mem_cons.1 hr' with rfl | hr'
          · exact hv
          · exact h2 r hr'

end seg

theorem consecutive_glue (P : Period) (a : Int) (m : List Int) :
    ∀ l : List Int, Consecutive P (l ++ [a]) → Consecutive P (a :: m) → Consecutive P (l ++ a :: m) := by
  intro l
  induction l with
  | nil => intro _ h; exact h
  | cons x l ih =>
    intro h1 h2
    cases l with
    | nil =>
      simp only [nil_append, cons_append, Consecutive] at h1 ⊢
      exact ⟨h1.1, h2⟩
    | cons y l =>
      simp only [cons_append, Consecutive] at h1 ⊢
      exact ⟨h1.1, ih h1.2 h2⟩

theorem consecutive_strict {P : Period} (T : Tiles P) :
    ∀ l : List Int, Consecutive P l → l.Pairwise (· < ·) := by
  intro l
  induction l with
  | nil => intro _; exact Pairwise.nil
  | cons a l ih =>
    intro h
    cases l with
    | nil => simp
    | cons b l =>
      simp only [Consecutive] at h
      have hp := ih h.2
      refine pairwise_cons.2 ⟨?_, hp⟩
      intro x hx
      have hab : a < b := by rw [h.1]; exact T.lt_stop a
      rcases mem_cons.1 hx with rfl | hx
      · exact hab
      · have := (pairwise_cons.1 hp).1 x hx
        omega

theorem fillSpec_grid {P : Period} (T : Tiles P) (N : NoStartInside P) (mode : FillMode)
    (interp : Int → Int → β → Int → β → Except Err β) (copy : β → β) :
    ∀ (rest : List (Pt β)) (x : Pt β) (L : List (Pt β)), OnGrid P (x :: rest) → StrictInc (x :: rest) →
      fillSpec mode interp copy P (x :: rest) = .ok L →
      Consecutive P (stamps L) ∧ L.head? = some x ∧ L.getLast? = (x :: rest).getLast? := by
  intro rest
  induction rest with
  | nil =>
    intro x L _ _ h
    simp only [fillSpec, Except.ok.injEq] at h
    subst h
    simp [stamps, Consecutive]
  | cons y rest ih =>
    intro x L hg hs h
    rw [fillSpec] at h
    cases hseg : fillSeg mode interp copy x y (between P (y.1 - x.1).toNat (P.stop x.1) y.1) with
    | error e => simp [hseg] at h
    | ok seg =>
      cases htail : fillSpec mode interp copy P (y :: rest) with
      | error e => simp [hseg, htail] at h
      | ok tail =>
        simp only [hseg, htail, Except.ok.injEq] at h
        subst h
        have hx : P.start x.1 = x.1 := hg x (by simp)
        have hy : P.start y.1 = y.1 := hg y (by simp)
        have hxy : x.1 < y.1 := (pairwise_cons.1 hs).1 y (by simp)
        have hs' : StrictInc (y :: rest) := (pairwise_cons.1 hs).2
        have hg' : OnGrid P (y :: rest) := fun w hw => hg w (mem_cons_of_mem _ hw)
        obtain ⟨c1, c2, c3⟩ := ih y tail hg' hs' htail
        obtain ⟨tl, htl⟩ : ∃ tl, tail = y :: tl := by
          cases tail with
          | nil => simp at c2
          | cons a tl => simp only [head?_cons, Option.some.injEq] at c2; exact ⟨tl, by rw [c2]⟩
        subst htl
        have hst := (fillSeg_spec mode interp copy x y _ seg hseg).1
        have hbc := between_consecutive T N y.1 hy (y.1 - x.1).toNat (P.stop x.1) x.1 (T.start_stop _)
          (stop_le_of_start_lt T N hx hy hxy) (by have := T.lt_stop x.1; omega) rfl
        refine ⟨?_, rfl, ?_⟩
        · have : stamps (x :: (seg ++ y :: tl)) = (x.1 :: stamps seg) ++ y.1 :: stamps tl := by
            simp [stamps]
          rw [this, hst]
          exact consecutive_glue P y.1 (stamps tl) _ hbc (by simpa [stamps] using c1)
        · have e : x :: (seg ++ y :: tl) = (x :: seg) ++ (y :: tl) := rfl
          rw [e, getLast?_cons_cons, ← c3, getLast?_append]
          simp [getLast?_cons]

/-- **C16 (grid)**: the output stamps start at the first data period, every next stamp is `stop` of the
previous one - no gap, no duplicate -, they end at the last data period, and they are strictly
increasing; first and last records are the first and last data points themselves. -/
theorem C16_grid {P : Period} (T : Tiles P) (N : NoStartInside P) (mode : FillMode)
    (interp : Int → Int → β → Int → β → Except Err β) (copy : β → β) (xs L : List (Pt β))
    (hg : OnGrid P xs) (hs : StrictInc xs) (h : fillSpec mode interp copy P xs = .ok L) :
    Consecutive P (stamps L) ∧ L.head? = xs.head? ∧ L.getLast? = xs.getLast? ∧
    (stamps L).Pairwise (· < ·) := by
  cases xs with
  | nil =>
    simp only [fillSpec, Except.ok.injEq] at h
    subst h
    simp [stamps, Consecutive]
  | cons x rest =>
    obtain ⟨h1, h2, h3⟩ := fillSpec_grid T N mode interp copy rest x L hg hs h
    exact ⟨h1, by simpa using h2, h3, consecutive_strict T _ h1⟩

/-- **C16 (terminates)**: the stream ends; a step budget of (number of output periods) + 1 is enough, and
the output has exactly one record per period from the first to the last data period (`C16_grid`). -/
theorem C16_terminates {P : Period} (T : Tiles P) (N : NoStartInside P) (mode : FillMode)
    (interp : Int → Int → β → Int → β → Except Err β) (copy : β → β) (xs L : List (Pt β))
    (hg : OnGrid P xs) (hs : StrictInc xs) (h : fillSpec mode interp copy P xs = .ok L) :
    gapFill P mode interp copy (L.length + 1) xs = .ok (L, true) :=
  C16_refines T N mode interp copy xs L hg hs h _ (Nat.lt_succ_self _)

/-! ## Values -/

theorem fillSpec_members {P : Period} (T : Tiles P) (mode : FillMode)
    (interp : Int → Int → β → Int → β → Except Err β) (copy : β → β) :
    ∀ (rest : List (Pt β)) (x : Pt β) (L : List (Pt β)),
      fillSpec mode interp copy P (x :: rest) = .ok L →
      (∀ d ∈ x :: rest, d ∈ L) ∧
      ∀ r ∈ L, r ∈ x :: rest ∨ ∃ pre p n post, x :: rest = pre ++ p :: n :: post ∧
        P.stop p.1 ≤ r.1 ∧ r.1 < n.1 ∧ fillAt mode interp copy p n r.1 = .ok r.2 := by
  intro rest
  induction rest with
  | nil =>
    intro x L h
    simp only [fillSpec, Except.ok.injEq] at h
    subst h
    exact ⟨fun d hd => hd, fun r hr => Or.inl hr⟩
  | cons y rest ih =>
    intro x L h
    rw [fillSpec] at h
    cases hseg : fillSeg mode interp copy x y (between P (y.1 - x.1).toNat (P.stop x.1) y.1) with
    | error e => simp [hseg] at h
    | ok seg =>
      cases htail : fillSpec mode interp copy P (y :: rest) with
      | error e => simp [hseg, htail] at h
      | ok tail =>
        simp only [hseg, htail, Except.ok.injEq] at h
        subst h
        obtain ⟨i1, i2⟩ := ih y tail htail
        obtain ⟨s1, s2⟩ := fillSeg_spec mode interp copy x y _ seg hseg
        constructor
        · intro d hd
          rcases mem_cons.1 hd with rfl | hd
          · exact mem_cons_self
          · exact mem_cons_of_mem _ (mem_append_right _ (i1 d hd))
        · intro r hr
          rcases mem_cons.1 hr with rfl | hr
          · exact Or.inl mem_cons_self
          · rcases mem_append.1 hr with hr | hr
            · right
              have hm : r.1 ∈ between P (y.1 - x.1).toNat (P.stop x.1) y.1 := by
                rw [← s1]; exact mem_map_of_mem hr
              have := between_mem T y.1 _ _ r.1 hm
              exact ⟨[], x, y, rest, rfl, this.1, this.2, s2 r hr⟩
            · rcases i2 r hr with h' | ⟨pre, p, n, post, e, b1, b2, b3⟩
              · exact Or.inl (mem_cons_of_mem _ h')
              · exact Or.inr ⟨x :: pre, p, n, post, by rw [e]; rfl, b1, b2, b3⟩

theorem unique_at_stamp : ∀ (L : List (Pt β)), (stamps L).Pairwise (· < ·) →
    ∀ t v v', (t, v) ∈ L → (t, v') ∈ L → v = v' := by
  intro L
  induction L with
  | nil => intro _ t v v' h; simp at h
  | cons a L ih =>
    intro hp t v v' h1 h2
    simp only [stamps, map_cons] at hp
    have hp' := pairwise_cons.1 hp
    rcases mem_cons.1 h1 with e1 | h1 <;> rcases mem_cons.1 h2 with e2 | h2
    · rw [← e2] at e1; exact (Prod.mk.inj e1).2
    · have := hp'.1 t (mem_map_of_mem (f := fun r => r.1) h2)
      rw [← e1] at this; simp at this
    · have := hp'.1 t (mem_map_of_mem (f := fun r => r.1) h1)
      rw [← e2] at this; simp at this
    · exact ih hp'.2 t v v' h1 h2

/-- **C16 (data unchanged)**: every data point appears in the output with its value, and it is the only
record at its timestamp. -/
theorem C16_data_unchanged {P : Period} (T : Tiles P) (N : NoStartInside P) (mode : FillMode)
    (interp : Int → Int → β → Int → β → Except Err β) (copy : β → β) (xs L : List (Pt β))
    (hg : OnGrid P xs) (hs : StrictInc xs) (h : fillSpec mode interp copy P xs = .ok L) :
    ∀ d ∈ xs, d ∈ L ∧ ∀ v, (d.1, v) ∈ L → v = d.2 := by
  intro d hd
  cases xs with
  | nil => simp at hd
  | cons x rest =>
    have hm := (fillSpec_members T mode interp copy rest x L h).1 d hd
    refine ⟨hm, fun v hv => ?_⟩
    have hu := (C16_grid T N mode interp copy _ L hg hs h).2.2.2
    exact unique_at_stamp L hu d.1 v d.2 hv hm

/-- **C16 (fills)**: a record of the output is either a data point, or it lies strictly between two
adjacent data points `p`, `n` (after `p`'s period, before `n`) and carries `fillAt p n`. -/
theorem C16_fill {P : Period} (T : Tiles P) (mode : FillMode)
    (interp : Int → Int → β → Int → β → Except Err β) (copy : β → β) (xs L : List (Pt β))
    (h : fillSpec mode interp copy P xs = .ok L) :
    ∀ r ∈ L, r ∈ xs ∨ ∃ pre p n post, xs = pre ++ p :: n :: post ∧
      p.1 < r.1 ∧ r.1 < n.1 ∧ fillAt mode interp copy p n r.1 = .ok r.2 := by
  intro r hr
  cases xs with
  | nil =>
    simp only [fillSpec, Except.ok.injEq] at h
    subst h
    simp at hr
  | cons x rest =>
    rcases (fillSpec_members T mode interp copy rest x L h).2 r hr with h' | ⟨pre, p, n, post, e, b1, b2, b3⟩
    · exact Or.inl h'
    · exact Or.inr ⟨pre, p, n, post, e, by have := T.lt_stop p.1; omega, b2, b3⟩

/-- **C16 (forward fill)**: a record at a period without data carries `copyFn` of the previous data value. -/
theorem C16_ffill {P : Period} (T : Tiles P)
    (interp : Int → Int → β → Int → β → Except Err β) (copy : β → β) (xs L : List (Pt β))
    (h : fillSpec .forwardFill interp copy P xs = .ok L) :
    ∀ r ∈ L, (∀ d ∈ xs, d.1 ≠ r.1) → ∃ pre p n post, xs = pre ++ p :: n :: post ∧
      p.1 < r.1 ∧ r.1 < n.1 ∧ r.2 = copy p.2 := by
  intro r hr hnd
  rcases C16_fill T .forwardFill interp copy xs L h r hr with h' | ⟨pre, p, n, post, e, b1, b2, b3⟩
  · exact absurd rfl (hnd r h')
  · exact ⟨pre, p, n, post, e, b1, b2, by simp only [fillAt, Except.ok.injEq] at b3; exact b3.symm⟩

/-- **C16 (linear)**: a record at a period without data carries `interpolateFn` at its own stamp between
the neighbouring data points. -/
theorem C16_linear {P : Period} (T : Tiles P)
    (interp : Int → Int → β → Int → β → Except Err β) (copy : β → β) (xs L : List (Pt β))
    (h : fillSpec .linear interp copy P xs = .ok L) :
    ∀ r ∈ L, (∀ d ∈ xs, d.1 ≠ r.1) → ∃ pre p n post, xs = pre ++ p :: n :: post ∧
      p.1 < r.1 ∧ r.1 < n.1 ∧ interp r.1 p.1 p.2 n.1 n.2 = .ok r.2 := by
  intro r hr hnd
  rcases C16_fill T .linear interp copy xs L h r hr with h' | ⟨pre, p, n, post, e, b1, b2, b3⟩
  · exact absurd rfl (hnd r h')
  · exact ⟨pre, p, n, post, e, b1, b2, b3⟩

/-- Strictly between its end points the time checks of `timeWeightedAverage` do not fire. -/
theorem twa_between (core : Int → Int → β → β → Except Err β) (t t1 : Int) (v1 : β) (t2 : Int) (v2 : β)
    (h1 : t1 < t) (h2 : t < t2) : twa core t t1 v1 t2 v2 = core (t - t1) (t2 - t1) v1 v2 := by
  unfold twa
  have a : ¬ t1 = t2 := by omega
  have b : ¬ (t < t1 ∨ t > t2) := by omega
  simp [a, b]

/-- **C16 (linear, tsquery filters)**: with the filters' own `timeWeightedAverage` as `interpolateFn` the
filled value is the core's interpolation with the durations `t - prev.t` and `next.t - prev.t`. -/
theorem C16_linear_twa {P : Period} (T : Tiles P) (core : Int → Int → β → β → Except Err β)
    (copy : β → β) (xs L : List (Pt β)) (h : fillSpec .linear (twa core) copy P xs = .ok L) :
    ∀ r ∈ L, (∀ d ∈ xs, d.1 ≠ r.1) → ∃ pre p n post, xs = pre ++ p :: n :: post ∧
      p.1 < r.1 ∧ r.1 < n.1 ∧ core (r.1 - p.1) (n.1 - p.1) p.2 n.2 = .ok r.2 := by
  intro r hr hnd
  obtain ⟨pre, p, n, post, e, b1, b2, b3⟩ := C16_linear T (twa core) copy xs L h r hr hnd
  exact ⟨pre, p, n, post, e, b1, b2, by rw [← twa_between core r.1 p.1 p.2 n.1 n.2 b1 b2]; exact b3⟩

/-! ## Totality -/

theorem fillSeg_total (mode : FillMode) (interp : Int → Int → β → Int → β → Except Err β) (copy : β → β)
    (p n : Pt β) : ∀ ts : List Int, (∀ t ∈ ts, ∃ v, fillAt mode interp copy p n t = .ok v) →
      ∃ seg, fillSeg mode interp copy p n ts = .ok seg := by
  intro ts
  induction ts with
  | nil => intro _; exact ⟨[], rfl⟩
  | cons t ts ih =>
    intro h
    obtain ⟨v, hv⟩ := h t mem_cons_self
    obtain ⟨seg, hseg⟩ := ih (fun t' ht' => h t' (mem_cons_of_mem _ ht'))
    exact ⟨(t, v) :: seg, by simp [fillSeg, hv, hseg]⟩

/-- **C16 (total)**: if every fill strictly between two data points succeeds, the result is not an error. -/
theorem C16_total {P : Period} (T : Tiles P) (mode : FillMode)
    (interp : Int → Int → β → Int → β → Except Err β) (copy : β → β)
    (hfill : ∀ (p n : Pt β) (t : Int), p.1 < t → t < n.1 → ∃ v, fillAt mode interp copy p n t = .ok v) :
    ∀ xs : List (Pt β), ∃ L, fillSpec mode interp copy P xs = .ok L := by
  intro xs
  cases xs with
  | nil => exact ⟨[], rfl⟩
  | cons x rest =>
    induction rest generalizing x with
    | nil => exact ⟨[x], rfl⟩
    | cons y rest ih =>
      obtain ⟨tail, htail⟩ := ih y
      obtain ⟨seg, hseg⟩ := fillSeg_total mode interp copy x y
        (between P (y.1 - x.1).toNat (P.stop x.1) y.1) (by
          intro t ht
          have := between_mem T y.1 _ _ t ht
          have := T.lt_stop x.1
          exact hfill x y t (by omega) (by omega))
      exact ⟨x :: (seg ++ tail), by rw [fillSpec, hseg, htail]⟩

/-- forward fill never fails -/
theorem C16_total_ffill {P : Period} (T : Tiles P) (interp : Int → Int → β → Int → β → Except Err β)
    (copy : β → β) (xs : List (Pt β)) : ∃ L, fillSpec .forwardFill interp copy P xs = .ok L :=
  C16_total T .forwardFill interp copy (fun p _ _ _ _ => ⟨copy p.2, rfl⟩) xs

/-! ## After the aligner (the two tsquery filters) -/

/-- **C16 (scope of the filters)**: the aligned series produced by the aligner of C13 from any time-sorted
input is a sparse aligned series - on the grid and strictly increasing - so everything above applies to
`NewInterpolatingAlignerFilter` in both packages. -/
theorem C16_after_align {P : Period} (T : Tiles P) (core : Int → Int → β → β → Except Err β)
    (xs al : List (Rec β)) (hs : ShpanVerif.Proofs.Align.Sorted xs) (h : alignWith P core xs = .ok al) :
    OnGrid P (toPts al) ∧ StrictInc (toPts al) := by
  obtain ⟨h1, h2, h3, _⟩ := ShpanVerif.Props.C13.C13_one_per_period T core xs al hs h
  constructor
  · intro p hp
    simp only [toPts, mem_map] at hp
    obtain ⟨r, hr, rfl⟩ := hp
    have : r.ts.inst ∈ ShpanVerif.Props.C13.stampsOf al := mem_map_of_mem (f := fun r => r.ts.inst) hr
    obtain ⟨x, _, hx⟩ := (h3 _).1 this
    show P.start r.ts.inst = r.ts.inst
    rw [← hx, T.start_idem]
  · unfold StrictInc toPts
    rw [pairwise_map]
    simp only [ShpanVerif.Props.C13.stampsOf, pairwise_map] at h2
    exact h2

/-- Observation: the `exhausted` flag is redundant.  After the last data point `y` the machine answers EOF
even with `exhausted = false`: `nextPoint` is nil and `prevPoint` lies before `expectedTs`, so the exit at
ts_gap_filler_stream.go:77 fires.  (Hence "drop the flag" is an equivalent mutant.) -/
theorem exhausted_redundant {P : Period} (T : Tiles P) (mode : FillMode)
    (interp : Int → Int → β → Int → β → Except Err β) (copy : β → β) (y : Pt β) :
    (gemit P mode interp copy ⟨some y, none, P.stop y.1, true, false, []⟩).1 = none := by
  have h : ¬ y.1 = P.stop y.1 := by have := T.lt_stop y.1; omega
  simp [gemit, advance, h]

/-! ## Non-vacuity -/

/-- Fixed-duration periods partition the line. -/
theorem fixed_noStartInside (d : Int) (hd : 0 < d) (epoch : Int) (loc : Nat) :
    NoStartInside (fixedPeriod d epoch loc) := by
  intro t u h1 h2
  show epoch + d * ((u - epoch) / d) = epoch + d * ((t - epoch) / d)
  have h1' : epoch + d * ((t - epoch) / d) ≤ u := h1
  have h2' : u < epoch + d * ((t - epoch) / d) + d := h2
  have a : (t - epoch) / d ≤ (u - epoch) / d := by
    rw [Int.le_ediv_iff_mul_le hd, Int.mul_comm]; omega
  have b : (u - epoch) / d < (t - epoch) / d + 1 := by
    rw [Int.ediv_lt_iff_lt_mul hd, Int.add_mul, Int.mul_comm]; omega
  have : (u - epoch) / d = (t - epoch) / d := by omega
  rw [this]

open ShpanVerif.Props.C13 in
theorem exP_noStartInside : NoStartInside exP := fixed_noStartInside 3600 (by decide) 0 0

/-- data in periods 0, 3 and 4 of an "hour" of 3600 ticks: two periods to fill, then adjacent data -/
def exPts : List (Pt Rat) := [(0, 1), (10800, 7), (14400, -2)]

open ShpanVerif.Props.C13 in
theorem exPts_scope : OnGrid exP exPts ∧ StrictInc exPts := by
  constructor
  · intro x hx
    simp only [exPts, mem_cons, not_mem_nil, or_false] at hx
    rcases hx with rfl | rfl | rfl <;> decide
  · unfold StrictInc exPts; decide

open ShpanVerif.Props.C13 in
/-- linear fill with the filters' interpolation over exact arithmetic: 1 → 7 over three periods gives 3, 5 -/
example : gapFill exP .linear (twa (coreTyped ratArith (fltKind (V := Rat)))) id 10 exPts =
    .ok ([(0, 1), (3600, 3), (7200, 5), (10800, 7), (14400, -2)], true) := by decide +kernel
open ShpanVerif.Props.C13 in
example : gapFill exP .forwardFill (twa (coreTyped ratArith (fltKind (V := Rat)))) id 10 exPts =
    .ok ([(0, 1), (3600, 1), (7200, 1), (10800, 7), (14400, -2)], true) := by decide +kernel
open ShpanVerif.Props.C13 in
example : fillSpec .linear (twa (coreTyped ratArith (fltKind (V := Rat)))) id exP exPts =
    .ok [(0, 1), (3600, 3), (7200, 5), (10800, 7), (14400, -2)] := by decide +kernel
open ShpanVerif.Props.C13 in
/-- the budget detector: a budget equal to the output length reports the stream as cut -/
example : gapFill exP .forwardFill (twa (coreTyped ratArith (fltKind (V := Rat)))) id 5 exPts =
    .ok ([(0, 1), (3600, 1), (7200, 1), (10800, 7), (14400, -2)], false) := by decide +kernel
/-- `NoStartInside` is needed: on the overlapping "period" `start = id, stop t = t + 2` (which satisfies the
four `Tiles` laws) the filler walks past the data point at 3 and drops it. -/
example : gapFill (⟨id, fun t => t + 2, 0⟩ : Period) .forwardFill (fun _ _ v _ _ => .ok v) id 10
    [((0 : Int), (1 : Int)), (3, 2)] = .ok ([(0, 1), (2, 1)], true) := by decide +kernel
/-- a period that does not advance (`stop t = t`, violating `t < stop t`) makes the stream endless: the
budget is reached -/
example : (gapFill (⟨id, id, 0⟩ : Period) .forwardFill (fun _ _ v _ _ => .ok v) id 6
    [((0 : Int), (1 : Int)), (3, 2)]).map (fun r => r.2) = .ok false := by decide +kernel

end ShpanVerif.Props.C16
