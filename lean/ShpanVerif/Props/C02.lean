/-
C02 — provider calls are serialised and confined to the open window.

For each of the four asynchronous mechanisms the transition system carries three ghost observations of the source
provider P, updated by the step function itself:
  `emitting`    number of goroutines currently inside P.Emit
  `badWindow`   sticky; set by the step that STARTS an Emit when P.Close was already called (or P.Open has not
                returned yet)
  `badOverlap`  sticky; set by the step that CALLS P.Close while `emitting > 0`
so that the three clauses of the property are the state predicates
  window    : badWindow = false        exclusive : emitting ≤ 1        no close during emit : badOverlap = false
and "holds for every schedule, early stop, failure and cancellation" = invariant over `Reachable` (all labels).

Results (code as it is: every variant switch `true`)
  * `C02_concmap`, `C02_consume`, `C02_buffered`, `C02_pipe` — all three clauses, for every history, for each of the
    four mechanisms.  For the concurrent map this rests on the guard element of fix 784d281: the terminal's close
    sequence first cancels producerCtx and waits for `producerStopped`, only then closes the source's own elements
    (`C02_concmap_close_after_join`).
  * the unrepaired variant (`fix5 = false`: no guard, the producer runs on the materialisation ctx, which is cancelled
    only after the lifecycle elements were closed) violates two clauses (finding D5): `C02_witness_concmap` (Close while
    the producer is inside Emit) and `C02_witness_concmap_window` (an Emit started after Close), both on explicit
    11-step schedules with `Limit(1)`; `C02_concmap_unrepaired_false` refutes the statement for that variant.  What
    did hold there: `C02_concmap_partial` (histories in which the consumer drains the stage) — still true, now subsumed.
-/
import ShpanVerif.Proofs.ConcMapLive
import ShpanVerif.Proofs.ConcConsumeLive
import ShpanVerif.Proofs.BufferedLive
import ShpanVerif.Proofs.JsonPipeInv

namespace ShpanVerif.Props.C02
open ShpanVerif.Model.Conc
open ShpanVerif.Model
open ShpanVerif.Proofs

/-! ### concurrent map -/
section concmap
variable {cfg : ConcMap.Cfg} {s : ConcMap.St}

/-- At most one goroutine (the producer) is ever inside the source's Emit — every history. -/
theorem C02_exclusive_concmap (hr : Reachable (ConcMap.sys cfg) s) : s.emitting ≤ 1 := by
  have := (ConcMap.basic hr).emitting_eq
  split at this <;> omega

/-- **C02 for the concurrent map** (code as it is): window, exclusivity and no-close-during-emit for every schedule,
    early stop, failure and cancellation. -/
theorem C02_concmap (hfix : cfg.fix5 = true) (hr : Reachable (ConcMap.sys cfg) s) :
    s.badWindow = false ∧ s.emitting ≤ 1 ∧ s.badOverlap = false :=
  ⟨(ConcMap.noBad hfix hr).1, C02_exclusive_concmap hr, (ConcMap.noBad hfix hr).2⟩

/-- The mechanism: the source's Close is called only after the producer signalled that it left the source for good
    (it is past `close(producerStopped)`), so it is neither inside Emit nor going to call it again. -/
theorem C02_concmap_close_after_join (hfix : cfg.fix5 = true) (hr : Reachable (ConcMap.sys cfg) s)
    (hc : s.srcClosed = true) :
    (s.prod = .closing ∨ s.prod = .waiting ∨ s.prod = .done) ∧ s.emitting = 0 := by
  have hb := ConcMap.basic hr
  have hcons := hb.closed_iff.mp hc
  have hst := hb.joined hfix (by rcases hcons with h | h | h <;> simp [h])
  have hp := hb.pStop_iff.mp hst
  refine ⟨hp, ?_⟩
  have he := hb.emitting_eq
  rcases hp with h | h | h <;> simpa [h] using he

/-- Non-vacuity: the D5 recipe on the code as it is — Limit(1) satisfied while the producer is inside its second
    Emit; the consumer's close sequence waits (`closeW`) until the producer has left, then closes the source. -/
example : ∃ s, Reachable (ConcMap.sys { n := 2, c := 1 }) s ∧
    (s.srcClosed && !s.badOverlap && !s.badWindow && s.res == some .ok && s.delivered == [0]) = true :=
  checkRun_reachable
    (ls := [.pTop, .pEmitVal, .pSend, .pTop, .wRecv, .wMapOk 0, .wSend (.val 0), .cCheck, .cRecv, .cStop, .cClose0,
            .pEmitVal, .pDrop, .pStop, .cCloseW, .cCloseP]) (by decide)

/-- The statement for the unrepaired variant (fix5 = false). -/
def C02_concmap_unrepaired_statement : Prop :=
  ∀ (cfg : ConcMap.Cfg) (s : ConcMap.St), cfg.fix5 = false → 0 < cfg.c → Reachable (ConcMap.sys cfg) s →
    s.badWindow = false ∧ s.emitting ≤ 1 ∧ s.badOverlap = false

/-- D5, first shape (unrepaired variant): `Map(src, id, WithConcurrentMapOption(1)).Limit(1)` over a 2-element source.
    The producer has started its second Emit; element 0 is mapped, delivered, Limit(1) ends the stream with success; the
    terminal's deferred close calls the source's Close while that Emit is still running. -/
def d5Schedule : List ConcMap.Label :=
  [.pTop, .pEmitVal, .pSend, .pTop, .wRecv, .wMapOk 0, .wSend (.val 0), .cCheck, .cRecv, .cStop, .cClose0, .cCloseP]

theorem C02_witness_concmap :
    ∃ s, Reachable (ConcMap.sys { n := 2, c := 1, fix5 := false }) s ∧
      (s.badOverlap && s.emitting == 1 && s.res == some .ok && s.delivered == [0]) = true :=
  checkRun_reachable (ls := d5Schedule) (by decide)

/-- D5, second shape (unrepaired variant): the producer is between two pulls when Close is called, and starts an Emit
    afterwards (the materialisation ctx is cancelled only after the lifecycle elements were closed). -/
def d5ScheduleWindow : List ConcMap.Label :=
  [.pTop, .pEmitVal, .pSend, .wRecv, .wMapOk 0, .wSend (.val 0), .cCheck, .cRecv, .cStop, .cClose0, .cCloseP, .pTop]

theorem C02_witness_concmap_window :
    ∃ s, Reachable (ConcMap.sys { n := 2, c := 1, fix5 := false }) s ∧
      (s.badWindow && s.srcClosed && s.emitting == 1) = true :=
  checkRun_reachable (ls := d5ScheduleWindow) (by decide)

theorem C02_concmap_unrepaired_false : ¬ C02_concmap_unrepaired_statement := by
  intro h
  obtain ⟨s, hr, hs⟩ := C02_witness_concmap
  have := (h { n := 2, c := 1, fix5 := false } s rfl (by decide) hr).2.2
  simp [this] at hs

/-- Both variants: before Close is called nothing is wrong, and in every history in which the consumer drained the
    stage (its pull saw the result channel closed — the producer has exited by then) Close neither overlaps nor
    precedes an Emit. -/
theorem C02_concmap_partial (hr : Reachable (ConcMap.sys cfg) s) :
    (s.srcClosed = false → s.badWindow = false ∧ s.badOverlap = false) ∧
    (s.drained = true → s.badWindow = false ∧ s.badOverlap = false ∧ s.prod = .done ∧ s.emitting = 0) := by
  have hw := ConcMap.win hr
  have hb := ConcMap.basic hr
  refine ⟨hw.pre, fun hd => ?_⟩
  have hdone := (hb.drained_done hd).1
  refine ⟨(hw.drained hd).1, (hw.drained hd).2, hdone, ?_⟩
  simpa [hdone] using hb.emitting_eq

/-- Non-vacuity of the partial theorem: a failure-free run to the end reaches Close with `drained`. -/
example : ∃ s, Reachable (ConcMap.sys { n := 1, c := 1, fix5 := false }) s ∧
    (s.drained && s.srcClosed && !s.badOverlap) = true :=
  checkRun_reachable
    (ls := [.pTop, .pEmitVal, .pSend, .wRecv, .wMapOk 0, .wSend (.val 0), .pTop, .pEmitEof, .pStop, .pCloseSrc,
            .wExitClosed, .pWait, .cCheck, .cRecv, .cNext, .cCheck, .cClosed, .cClose0, .cCloseP]) (by decide)

/-- **Confinement** (code as it is): when the terminal has returned, the producer — the only caller of the source's
    Emit — has left the source for good: it is past `close(producerStopped)`, not inside Emit, and will not call it
    again.  This is what makes a second materialisation of the same stream value safe: its reader cannot meet the
    previous one inside the provider. -/
theorem C02_concmap_confined (hfix : cfg.fix5 = true) (hr : Reachable (ConcMap.sys cfg) s) (h : s.cons = .ret) :
    (s.prod = .closing ∨ s.prod = .waiting ∨ s.prod = .done) ∧ s.emitting = 0 :=
  C02_concmap_close_after_join hfix hr ((ConcMap.basic hr).closed_iff.mpr (Or.inr (Or.inr h)))

end concmap

/-! ### concurrent consume -/
section consume
variable {cfg : ConcConsume.Cfg} {s : ConcConsume.St}

/-- Concurrent consume: all three clauses, for every schedule, failure and cancellation.  Moreover Close is called
    only after the producer (the only caller of Emit) has exited and every worker has returned. -/
theorem C02_consume (hr : Reachable (ConcConsume.sys cfg) s) :
    s.badWindow = false ∧ s.emitting ≤ 1 ∧ s.badOverlap = false ∧
      (s.srcClosed = true → s.prod = .done ∧ s.wExit = cfg.c) := by
  have hb := ConcConsume.basic hr
  refine ⟨hb.noBadW, ?_, hb.noBadO, fun hc => ?_⟩
  · have := hb.emitting_eq
    split at this <;> omega
  · have ht := hb.closed_iff.mp hc
    have h1 : s.term ≠ .waitWg := by rcases ht with h | h <;> simp [h]
    have h2 : s.term ≠ .waitProd := by rcases ht with h | h <;> simp [h]
    exact ⟨hb.term_prod h1 h2, hb.term_wg h1⟩

example : ∃ s, Reachable (ConcConsume.sys { n := 1, c := 1 }) s ∧ (s.srcClosed && s.called == [0]) = true :=
  checkRun_reachable
    (ls := [.pCheck, .pEmitVal, .pSend, .wRecv, .wCbOk 0, .pCheck, .pEmitEof, .pClose, .wExitClosed, .tWaitWg,
            .tWaitProd, .tResult, .tCancelW, .tClose0]) (by decide)

/-- **Confinement**: when the terminal has returned, the producer goroutine has exited. -/
theorem C02_consume_confined (hr : Reachable (ConcConsume.sys cfg) s) (h : s.term = .ret) :
    s.prod = .done ∧ s.emitting = 0 := by
  have hb := ConcConsume.basic hr
  have hp := hb.term_prod (by simp [h]) (by simp [h])
  exact ⟨hp, by simpa [hp] using hb.emitting_eq⟩

end consume

/-! ### Buffered -/
section buffered
variable {cfg : Buffered.Cfg} {s : Buffered.St}

/-- Buffered: all three clauses, every history (the filler goroutine opens, pulls and closes P by itself). -/
theorem C02_buffered (hr : Reachable (Buffered.sys cfg) s) :
    s.badWindow = false ∧ s.emitting ≤ 1 ∧ s.badOverlap = false := by
  have hb := Buffered.basic hr
  refine ⟨hb.noBadW, ?_, hb.noBadO⟩
  have := hb.emitting_eq
  split at this <;> omega

example : ∃ s, Reachable (Buffered.sys { n := 2, size := 2 }) s ∧ (s.pClosed && s.stopped && s.ctx0) = true :=
  checkRun_reachable
    (ls := [.fOpenOk, .fCheck, .fEmitVal, .fSend, .cCheck, .cRecv, .fCheck, .fEmitVal, .cStop, .cancel, .fSkip,
            .fCheck, .fCloseP]) (by decide)

/-- **Confinement** (fix B2, `stopBuffering`): when the terminal has returned, the filler goroutine — the only goroutine
    that touches P — has finished.  Before the fix the terminal returned right after cancelling the materialisation
    context, with the filler possibly still inside P.Emit; a second materialisation of the same stream value then put two
    goroutines inside the provider (corpus/C02/confined.case). -/
theorem C02_buffered_confined (hfix : cfg.fixJoin = true) (hr : Reachable (Buffered.sys cfg) s) (h : s.cons = .ret) :
    s.f = .done ∧ s.emitting = 0 := by
  have hb := Buffered.basic hr
  have hd := hb.ret_done hfix h
  exact ⟨hd, by simpa [hd] using hb.emitting_eq⟩

/-- non-vacuity: early stop while the filler is inside Emit; the close sequence waits (`cJoin` is not enabled before
    the filler is done) and then returns -/
example : ∃ s, Reachable (Buffered.sys { n := 3, size := 2 }) s ∧ (s.cons == .ret && s.stopped && s.f == .done) = true :=
  checkRun_reachable
    (ls := [.fOpenOk, .fCheck, .fEmitVal, .fSend, .cCheck, .cRecv, .fCheck, .cStop, .cClose2, .fEmitVal, .fSkip,
            .fCheck, .fCloseP, .fClosed, .fDropFin, .fCloseCh, .cJoin]) (by decide)

example : (Buffered.step { n := 3, size := 2 }
    { (Buffered.init { n := 3, size := 2 }) with cons := .join, term1 := true, f := .inEmit } .cJoin).isNone = true := by
  decide

/-- The earlier code (`fixJoin = false`, before fix f9673b7): the terminal has returned after an early stop and the filler
    is inside P.Emit. -/
theorem C02_witness_buffered_unconfined :
    ∃ s, Reachable (Buffered.sys { n := 3, size := 2, fixJoin := false }) s ∧
      (s.cons == .ret && s.f == .inEmit && s.emitting == 1) = true :=
  checkRun_reachable
    (ls := [.fOpenOk, .fCheck, .fEmitVal, .fSend, .cCheck, .cRecv, .fCheck, .cStop, .cClose2]) (by decide)

end buffered

/-! ### JSON pipe -/
section pipe
variable {cfg : JsonPipe.Cfg} {s : JsonPipe.St}

/-- JSON pipe: all three clauses, every history (the writer goroutine opens, pulls and closes P by itself). -/
theorem C02_pipe (hr : Reachable (JsonPipe.sys cfg) s) :
    s.badWindow = false ∧ s.emitting ≤ 1 ∧ s.badOverlap = false := by
  have hb := JsonPipe.basic hr
  refine ⟨hb.noBadW, ?_, hb.noBadO⟩
  have := hb.emitting_eq
  split at this <;> omega

example : ∃ s, Reachable (JsonPipe.sys { n := 2 }) s ∧ (s.pClosed && s.prClosed && s.dropped) = true :=
  checkRun_reachable
    (ls := [.wOpenOk, .wCheck, .wEmitVal, .rRead, .rReturn, .tPrClose, .wWrFail, .wCloseP]) (by decide)

/-- **Confinement** (fix B3, `<-writerDone`): when `StreamJsonAsReaderAndReturn` has returned, the writer goroutine — the
    only goroutine that touches P — has finished. -/
theorem C02_pipe_confined (hfix : cfg.fixJoin = true) (hr : Reachable (JsonPipe.sys cfg) s) (h : s.t = .ret) :
    s.w = .done ∧ s.emitting = 0 := by
  have hb := JsonPipe.basic hr
  have hd := hb.ret_done hfix h
  exact ⟨hd, by simpa [hd] using hb.emitting_eq⟩

/-- The earlier code (`fixJoin = false`): the function has returned and the writer is inside P.Emit. -/
theorem C02_witness_pipe_unconfined :
    ∃ s, Reachable (JsonPipe.sys { n := 1, fixJoin := false }) s ∧ (s.t == .ret && s.w == .inEmit && s.emitting == 1) = true :=
  checkRun_reachable (ls := [.wOpenOk, .wCheck, .rReturn, .tPrClose, .tCancelS]) (by decide)

example : ∃ s, Reachable (JsonPipe.sys { n := 1 }) s ∧ (s.t == .ret && s.w == .done) = true :=
  checkRun_reachable (ls := [.wOpenOk, .wCheck, .rReturn, .tPrClose, .tCancelS, .wEmitVal, .wWrFail, .wCloseP, .wClosed,
    .wCancelC, .wPwClose, .tJoin]) (by decide)

end pipe

end ShpanVerif.Props.C02
