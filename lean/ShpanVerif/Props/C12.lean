/-
C12 — alignment periods tile the timeline.

Model: `Model/Period.lean` (alignment_period.go as it is now + the parts of Go's `time` it uses).
Instants are Unix NANOSECONDS (`Int`); zone tables and calendar arithmetic are in seconds.

The property's laws for a pair (start, end) of functions on instants are `TilesOn R start end` (Proofs/PeriodLemmas):
  le        start t ≤ t                      lt        t < end t
  idem      start (start t) = start t        endStart  start (end t) = end t
  mono      t ≤ t' → start t ≤ start t'
  same      start t ≤ u < end t → start u = start t      (periods do not overlap; `end t` is the NEXT period start)
for all instants of `R`;  `Tiles = TilesOn (everything)`.

Main theorems
  * `C12_day`, `C12_week`, `C12_month`, `C12_quarter`, `C12_half`, `C12_year` (all instances of `C12_calendar`):
    `Tiles (start k z) (end k z)` for EVERY zone `z` with `MidnightsOK z k` and every instant.
    `MidnightsOK z k` : every local midnight that starts a period of kind `k` is well behaved in `z` (`MidOK`:
    `time.Date` returns an instant showing exactly 00:00:00 of that day, and the local date is ≥ that day exactly from
    that instant on) and, for weeks, the `AddDate(0,0,-weekday+1)` intermediate stays on its Monday (`WeekInterOK`).
    This is the hypothesis that excludes exactly the known finding D14.
  * `fixed_offset_MidnightsOK` : every zone without transitions (UTC, time.FixedZone, Etc/GMT±h) satisfies it, for
    every kind — so `C12_calendar_fixed_offset` is unconditional.
  * `dstZone_MidnightsOK` : a zone WITH a transition (UTC → UTC+1 at 02:00) satisfies the hypothesis for every kind
    (non-vacuity beyond fixed offsets).
  * `C12_at` : the four pointwise laws at one instant `t` from the EXECUTABLE per-instance check
    `checkAt k z t = true` (`checkMid_sound`); this is the form the correspondence driver evaluates on every case.
  * `C12_fixed` : fixed durations, every zone, every `d > 0`, all instants of `FixedRange z d`
    (`t.Sub(epoch)` must not saturate: Duration is an int64 of nanoseconds, ±292 years around the zone's 1970 epoch;
    `C12_fixed_1900_2100` instantiates the range; `C12_witness_fixed_saturation` shows the laws fail beyond it).
  * `C12_stream` : `alignedTimestamps` = exactly the period starts in `[start from, to)`, strictly increasing, and the
    loop terminates (the result is the same for every fuel ≥ `to - start from`), for any functions satisfying
    `TilesOn R` on the range it visits; `C12_stream_calendar`, `C12_stream_fixed` instantiate it.
  * `C12_full_statement` (the property for every zone without the midnight hypothesis) is FALSE on the current code:
    `C12_witness_D14_idempotence`, `C12_witness_D14_stream_diverges`, `C12_full_statement_fails` (finding D14).
-/
import ShpanVerif.Model.Period
import ShpanVerif.Proofs.PeriodLemmas

namespace ShpanVerif.Props.C12

open ShpanVerif.Model.Period ShpanVerif.Proofs.Period

/-! ## hypotheses -/

/-- `P` is the first day of a period of kind `k` -/
def IsStartDay (k : Kind) (P : Int) : Prop := (gridOf k).gs P = P

/-- Every period-start local midnight of kind `k` is well behaved in zone `z`. -/
def MidnightsOK (z : Zone) (k : Kind) : Prop :=
  (∀ P, IsStartDay k P → MidOK z P) ∧ (k = .week → WeekInterOK z)

/-- The instants for which `t.Sub(epoch)` does not saturate and `aligned -= d` does not wrap, with the margin that
keeps `start t` and `end t` inside as well. -/
def FixedRange (z : Zone) (d : Int) (t : Int) : Prop :=
  minI64 + 2 * d ≤ t - fixedEpoch z ∧ t - fixedEpoch z + d ≤ maxI64

/-- the four laws at one instant -/
def PointLaws (S E : Int → Int) (t : Int) : Prop :=
  S t ≤ t ∧ t < E t ∧ S (S t) = S t ∧ S (E t) = E t

/-- The property as stated (every zone, every kind, every instant, no hypothesis on midnights).  It does NOT hold
for the code as it is (D14): see `C12_full_statement_fails`. -/
def C12_full_statement : Prop :=
  ∀ (z : Zone) (k : Kind), (∀ d, k = .fixed d → 0 < d) → ZoneSorted z → Tiles (start k z) («end» k z)

/-! ## calendar kinds -/

theorem TilesOn.congr {R : Int → Prop} {S E S' E' : Int → Int} (h : TilesOn R S E)
    (hS : ∀ t, S t = S' t) (hE : ∀ t, E t = E' t) : TilesOn R S' E' := by
  have e1 : S = S' := funext hS
  have e2 : E = E' := funext hE
  subst e1; subst e2; exact h

theorem gridOf_laws (k : Kind) : GridLaws (gridOf k) := by
  cases k with
  | fixed d => exact dayGrid_laws
  | day => exact dayGrid_laws
  | week => exact weekGrid_laws
  | month => exact monthsGrid_laws 1 (by omega)
  | quarter => exact monthsGrid_laws 3 (by omega)
  | half => exact monthsGrid_laws 6 (by omega)
  | year => exact monthsGrid_laws 12 (by omega)

/-- Under `MidnightsOK` the code computes the grid's period start … -/
theorem startSec_grid {k : Kind} (hk : ∀ d, k ≠ .fixed d) {z : Zone} (h : MidnightsOK z k) (s : Int) :
    startSec k z s = mid z ((gridOf k).gs (localDay z s)) := by
  cases k with
  | fixed d => exact absurd rfl (hk d)
  | day => exact dayStartSec_eq z s
  | week => exact weekStartSec_eq (h.2 rfl) s
  | month => exact monthStartSec_eq z s
  | quarter => exact quarterStartSec_eq z s
  | half => exact halfStartSec_eq z s
  | year => exact yearStartSec_eq z s

/-- … and the next period's start. -/
theorem endSec_grid {k : Kind} (hk : ∀ d, k ≠ .fixed d) {z : Zone} (h : MidnightsOK z k) (s : Int) :
    endSec k z s = mid z ((gridOf k).gn ((gridOf k).gs (localDay z s))) := by
  have hm : MidOK z ((gridOf k).gs (localDay z s)) := h.1 _ ((gridOf_laws k).idem _)
  cases k with
  | fixed d => exact absurd rfl (hk d)
  | day => exact dayEndSec_eq hm
  | week => exact weekEndSec_eq (h.2 rfl) hm
  | month => exact monthEndSec_eq hm
  | quarter => exact quarterEndSec_eq hm
  | half => exact halfEndSec_eq hm
  | year => exact yearEndSec_eq hm

theorem start_calendar {k : Kind} (hk : ∀ d, k ≠ .fixed d) (z : Zone) (t : Int) :
    start k z t = startSec k z (t / NS) * NS := by
  cases k with
  | fixed d => exact absurd rfl (hk d)
  | _ => rfl

theorem end_calendar {k : Kind} (hk : ∀ d, k ≠ .fixed d) (z : Zone) (t : Int) :
    «end» k z t = endSec k z (t / NS) * NS := by
  cases k with
  | fixed d => exact absurd rfl (hk d)
  | _ => rfl

/-- **C12 for every calendar kind**: in every zone whose period-start midnights are well behaved, the periods tile
the timeline (all six laws, every instant). -/
theorem C12_calendar {k : Kind} (hk : ∀ d, k ≠ .fixed d) (z : Zone) (h : MidnightsOK z k) :
    Tiles (start k z) («end» k z) := by
  have base := tiles_lift_ns (tiles_of_grid (gridOf k) (gridOf_laws k) z h.1)
  refine TilesOn.congr base (fun t => ?_) (fun t => ?_)
  · rw [start_calendar hk, startSec_grid hk h]
  · rw [end_calendar hk, endSec_grid hk h]

theorem C12_day (z : Zone) (h : MidnightsOK z .day) : Tiles (start .day z) («end» .day z) :=
  C12_calendar (by intro d; exact Kind.noConfusion) z h
theorem C12_week (z : Zone) (h : MidnightsOK z .week) : Tiles (start .week z) («end» .week z) :=
  C12_calendar (by intro d; exact Kind.noConfusion) z h
theorem C12_month (z : Zone) (h : MidnightsOK z .month) : Tiles (start .month z) («end» .month z) :=
  C12_calendar (by intro d; exact Kind.noConfusion) z h
theorem C12_quarter (z : Zone) (h : MidnightsOK z .quarter) : Tiles (start .quarter z) («end» .quarter z) :=
  C12_calendar (by intro d; exact Kind.noConfusion) z h
theorem C12_half (z : Zone) (h : MidnightsOK z .half) : Tiles (start .half z) («end» .half z) :=
  C12_calendar (by intro d; exact Kind.noConfusion) z h
theorem C12_year (z : Zone) (h : MidnightsOK z .year) : Tiles (start .year z) («end» .year z) :=
  C12_calendar (by intro d; exact Kind.noConfusion) z h

/-- Every zone without transitions (UTC, `time.FixedZone`, `Etc/GMT±h`, …) has well-behaved midnights. -/
theorem fixed_offset_MidnightsOK (o : Int) (k : Kind) : MidnightsOK ⟨o, []⟩ k :=
  ⟨fun P _ => fixed_MidOK o P, fun _ => fixed_WeekInterOK o⟩

/-- C12 for calendar kinds in fixed-offset zones, unconditionally. -/
theorem C12_calendar_fixed_offset {k : Kind} (hk : ∀ d, k ≠ .fixed d) (o : Int) :
    Tiles (start k ⟨o, []⟩) («end» k ⟨o, []⟩) :=
  C12_calendar hk _ (fixed_offset_MidnightsOK o k)

/-- non-vacuity: UTC and UTC+05:30 meet the hypothesis; the theorem speaks about every instant of them -/
example : MidnightsOK ⟨0, []⟩ .week ∧ MidnightsOK ⟨19800, []⟩ .month :=
  ⟨fixed_offset_MidnightsOK 0 _, fixed_offset_MidnightsOK 19800 _⟩

/-! ### non-vacuity with a zone that has a transition -/

/-- a DST-like zone: UTC until 1970-01-01T02:00Z, then UTC+1 (02:00 → 03:00 local, far from midnight) -/
def dstZone : Zone := ⟨0, [(7200, 3600)]⟩

theorem dstZone_offsetAt (s : Int) : dstZone.offsetAt s = if s < 7200 then 0 else 3600 := by
  unfold Zone.offsetAt Zone.lookup dstZone lookupFrom
  simp only
  split <;> rfl

theorem dstZone_goDateSec (u : Int) : goDateSec dstZone u = if u < 7200 then u else if u < 10800 then u else u - 3600 := by
  rw [goDateSec_eq_offsets dstZone (by unfold ZoneSorted dstZone sortedFrom alpha; simp [sortedFrom])]
  simp only [dstZone_offsetAt]
  split
  · simp only [Int.sub_zero]; rw [if_pos ‹_›]; omega
  · split
    · rw [if_pos (by omega)]; omega
    · rw [if_neg (by omega)]

theorem dstZone_MidnightsOK (k : Kind) : MidnightsOK dstZone k := by
  refine ⟨fun D _ => ⟨?_, fun s => ?_⟩, fun _ P c _ h0 h1 => ?_⟩
  · unfold mid localSecs
    rw [dstZone_goDateSec, dstZone_offsetAt]
    repeat' split
    all_goals omega
  · unfold mid localDay localSecs
    rw [dstZone_goDateSec, dstZone_offsetAt]
    repeat' split
    all_goals omega
  · unfold localDay localSecs
    rw [dstZone_goDateSec, dstZone_offsetAt]
    repeat' split
    all_goals omega

/-- so all six laws hold for every instant of that zone, for every calendar kind -/
example : Tiles (start .week dstZone) («end» .week dstZone) := C12_week dstZone (dstZone_MidnightsOK _)
example : Tiles (start .month dstZone) («end» .month dstZone) := C12_month dstZone (dstZone_MidnightsOK _)

/-! ## the pointwise, executable form -/

/-- **C12 at one instant from the executable check**: if `checkAt k z t` evaluates to `true` (the local midnights of
the period's first day and of the next period's first day are well behaved, `checkMid`; for weeks the `AddDate`
intermediate of `t` stays on its Monday) then the four laws hold at `t` — for any zone table whatsoever. -/
theorem C12_at (k : Kind) (hk : ∀ d, k ≠ .fixed d) (z : Zone) (t : Int) (h : checkAt k z t = true) :
    PointLaws (start k z) («end» k z) t := by
  have hg := gridOf_laws k
  -- unpack the check
  have hcheck : checkMid z ((gridOf k).gs (localDay z (t / NS))) = true ∧
      checkMid z ((gridOf k).gn ((gridOf k).gs (localDay z (t / NS)))) = true ∧
      (k = .week → localDay z (goDateSec z ((gridOf k).gs (localDay z (t / NS)) * 86400 + secOfDay z (t / NS)))
        = (gridOf k).gs (localDay z (t / NS))) := by
    cases k with
    | fixed d => exact absurd rfl (hk d)
    | week =>
      simp only [checkAt, Bool.and_eq_true, Bool.or_eq_true, bne_iff_ne, ne_eq, not_true_eq_false, false_or,
        beq_iff_eq] at h
      exact ⟨h.1.1, h.1.2, fun _ => h.2⟩
    | day | month | quarter | half | year =>
      simp only [checkAt, Bool.and_eq_true, Bool.or_eq_true] at h
      exact ⟨h.1.1, h.1.2, fun hw => by cases hw⟩
  obtain ⟨c1, c2, c3⟩ := hcheck
  have mP := checkMid_sound c1
  have mN := checkMid_sound c2
  generalize hs : t / NS = s at *
  generalize hP : (gridOf k).gs (localDay z s) = P at *
  generalize hN : (gridOf k).gn P = N at *
  have hPfix : (gridOf k).gs P = P := by rw [← hP]; exact hg.idem _
  have hNfix : (gridOf k).gs N = N := by rw [← hN, ← hP]; exact hg.nextStart _
  -- seconds-level values of start / end at s, at mid P and at mid N
  have startAt : ∀ s', (k = .week → localDay z (goDateSec z ((gridOf k).gs (localDay z s') * 86400 + secOfDay z s'))
        = (gridOf k).gs (localDay z s')) → startSec k z s' = mid z ((gridOf k).gs (localDay z s')) := by
    intro s' hw
    cases k with
    | fixed d => exact absurd rfl (hk d)
    | day => exact dayStartSec_eq z s'
    | week => exact weekStartSec_eq_at (hw rfl)
    | month => exact monthStartSec_eq z s'
    | quarter => exact quarterStartSec_eq z s'
    | half => exact halfStartSec_eq z s'
    | year => exact yearStartSec_eq z s'
  have endAt : endSec k z s = mid z N := by
    rw [← hN, ← hP]
    have mP' : MidOK z ((gridOf k).gs (localDay z s)) := by rw [hP]; exact mP
    cases k with
    | fixed d => exact absurd rfl (hk d)
    | day => exact dayEndSec_eq mP'
    | week => exact weekEndSec_eq_at (by have := c3 rfl; rw [← hP] at this; exact this) mP'
    | month => exact monthEndSec_eq mP'
    | quarter => exact quarterEndSec_eq mP'
    | half => exact halfEndSec_eq mP'
    | year => exact yearEndSec_eq mP'
  have hS : startSec k z s = mid z P := by rw [startAt s (by rw [hP]; exact c3), hP]
  have interMid : ∀ D, (gridOf k).gs D = D → MidOK z D → k = .week →
      localDay z (goDateSec z ((gridOf k).gs (localDay z (mid z D)) * 86400 + secOfDay z (mid z D)))
        = (gridOf k).gs (localDay z (mid z D)) := by
    intro D hD mD hw
    subst hw
    exact week_inter_at_mid hD mD
  have hSS : startSec k z (mid z P) = mid z P := by
    rw [startAt _ (interMid P hPfix mP), mP.localDay_mid, hPfix]
  have hSE : startSec k z (mid z N) = mid z N := by
    rw [startAt _ (interMid N hNfix mN), mN.localDay_mid, hNfix]
  have hdiv : ∀ x : Int, x * NS / NS = x := by intro x; unfold NS; omega
  have hle : mid z P ≤ s := (mP.2 s).1 (by rw [← hP]; exact hg.le _)
  have hlt : s < mid z N := by
    by_cases hc : mid z N ≤ s
    · have := (mN.2 s).2 hc
      have := hg.lt (localDay z s)
      rw [hP, hN] at this; omega
    · omega
  unfold PointLaws
  rw [start_calendar hk, end_calendar hk, hs, hS, endAt]
  refine ⟨?_, ?_, ?_, ?_⟩
  · unfold NS at *; omega
  · unfold NS at *; omega
  · rw [start_calendar hk, hdiv, hSS]
  · rw [start_calendar hk, hdiv, hSE]

/-- non-vacuity of `C12_at`: an America/New_York window (EST → EDT on 2024-03-10), the day containing the change -/
example : checkAt .day ⟨-18000, [(1710054000, -14400), (1730613600, -18000)]⟩ (1710054000 * NS + 5) = true := by decide

/-! ## fixed durations -/

/-- **C12 for fixed durations**: every zone, every `d > 0`, every instant for which `t.Sub(epoch)` does not saturate. -/
theorem C12_fixed (z : Zone) (d : Int) (hd : 0 < d) :
    TilesOn (FixedRange z d) (start (.fixed d) z) («end» (.fixed d) z) := by
  have hS : ∀ t, minI64 + d ≤ t - fixedEpoch z → t - fixedEpoch z ≤ maxI64 →
      start (.fixed d) z t = fixedEpoch z + floorTo d (t - fixedEpoch z) := fun t a b => fixedStart_eq hd a b
  have hE : ∀ t, «end» (.fixed d) z t = start (.fixed d) z t + d := fun _ => rfl
  unfold FixedRange
  generalize fixedEpoch z = e at *
  have fl := fun x => floorTo_le hd x
  have fu := fun x => lt_floorTo_add hd x
  refine ⟨?_, ?_, ?_, ?_, ?_, ?_⟩
  · intro t ⟨a, b⟩
    rw [hS t (by omega) (by omega)]; have := fl (t - e); omega
  · intro t ⟨a, b⟩
    rw [hE, hS t (by omega) (by omega)]; have := fu (t - e); omega
  · intro t ⟨a, b⟩
    have := fl (t - e); have := fu (t - e)
    rw [hS t (by omega) (by omega), hS _ (by omega) (by omega)]
    have e1 : e + floorTo d (t - e) - e = floorTo d (t - e) := by omega
    rw [e1, floorTo_floorTo hd]
  · intro t ⟨a, b⟩
    have := fl (t - e); have := fu (t - e)
    rw [hE, hS t (by omega) (by omega), hS _ (by omega) (by omega)]
    have e1 : e + floorTo d (t - e) + d - e = floorTo d (t - e) + d := by omega
    rw [e1, floorTo_add_self hd]; omega
  · intro t t' ⟨a, b⟩ ⟨a', b'⟩ htt
    rw [hS t (by omega) (by omega), hS t' (by omega) (by omega)]
    have := floorTo_mono hd (show t - e ≤ t' - e by omega); omega
  · intro t u ⟨a, b⟩ ⟨a', b'⟩ h1 h2
    rw [hE, hS t (by omega) (by omega)] at h2
    rw [hS t (by omega) (by omega)] at h1
    rw [hS t (by omega) (by omega), hS u (by omega) (by omega)]
    rw [floorTo_eq_of_between hd (x := t - e) (u := u - e) (by omega) (by omega)]

/-- The range of `C12_fixed` covers 1900–2100 for every duration up to 7 days in every zone whose 1970 epoch is
within a day of 1970-01-01T00:00Z (every real zone: offsets are below 24 h). -/
theorem C12_fixed_1900_2100 (z : Zone) (d t : Int) (hd : d ≤ 7 * 86400 * NS)
    (he : -86400 * NS ≤ fixedEpoch z ∧ fixedEpoch z ≤ 86400 * NS)
    (ht : -2208988800 * NS ≤ t ∧ t ≤ 4102444800 * NS) : FixedRange z d t := by
  unfold FixedRange minI64 maxI64 NS at *; omega

/-- non-vacuity: New York's epoch is 1970-01-01T05:00Z; one hour periods; an instant in 1969 is in range -/
example : FixedRange ⟨-18000, []⟩ (3600 * NS) (-1000000 * NS) := by
  unfold FixedRange; decide

/-! ## the timestamp generator -/

/-- **C12 (stream)**: for functions that tile on the range the loop visits, `AlignedTimestampsStream(from, to)` emits
exactly the period starts (`start x = x`) lying in `[start from, to)`, strictly increasing, and terminates: with any
fuel of at least `to - start from` pulls the result is the same list (the fuel is never the reason to stop). -/
theorem C12_stream {R : Int → Prop} {S E : Int → Int} (h : TilesOn R S E) (from_ to : Int)
    (hRf : R from_) (hR : ∀ t, S from_ ≤ t → t < to → R t) (fuel : Nat) (hf : (to - S from_).toNat ≤ fuel) :
    (alignedTimestamps S E from_ to fuel).Pairwise (· < ·) ∧
    (∀ x, x ∈ alignedTimestamps S E from_ to fuel ↔ (S x = x ∧ S from_ ≤ x ∧ x < to)) ∧
    (∀ fuel', (to - S from_).toNat ≤ fuel' →
      alignedTimestamps S E from_ to fuel' = alignedTimestamps S E from_ to fuel) := by
  unfold alignedTimestamps
  have hfix : S (S from_) = S from_ := h.idem from_ hRf
  obtain ⟨a, b⟩ := alignedFrom_spec h to fuel (S from_) hfix hR hf
  exact ⟨a, b, fun fuel' hf' => alignedFrom_fuel_irrel h to fuel' fuel (S from_) hfix hR hf' hf⟩

theorem C12_stream_calendar {k : Kind} (hk : ∀ d, k ≠ .fixed d) (z : Zone) (hm : MidnightsOK z k)
    (from_ to : Int) (fuel : Nat) (hf : (to - start k z from_).toNat ≤ fuel) :
    (alignedTimestamps (start k z) («end» k z) from_ to fuel).Pairwise (· < ·) ∧
    (∀ x, x ∈ alignedTimestamps (start k z) («end» k z) from_ to fuel ↔
      (start k z x = x ∧ start k z from_ ≤ x ∧ x < to)) ∧
    (∀ fuel', (to - start k z from_).toNat ≤ fuel' →
      alignedTimestamps (start k z) («end» k z) from_ to fuel' =
        alignedTimestamps (start k z) («end» k z) from_ to fuel) :=
  C12_stream (C12_calendar hk z hm) from_ to trivial (fun _ _ _ => trivial) fuel hf

theorem C12_stream_fixed (z : Zone) (d : Int) (hd : 0 < d) (from_ to : Int)
    (hRf : FixedRange z d from_) (hR : ∀ t, start (.fixed d) z from_ ≤ t → t < to → FixedRange z d t)
    (fuel : Nat) (hf : (to - start (.fixed d) z from_).toNat ≤ fuel) :
    (alignedTimestamps (start (.fixed d) z) («end» (.fixed d) z) from_ to fuel).Pairwise (· < ·) ∧
    (∀ x, x ∈ alignedTimestamps (start (.fixed d) z) («end» (.fixed d) z) from_ to fuel ↔
      (start (.fixed d) z x = x ∧ start (.fixed d) z from_ ≤ x ∧ x < to)) ∧
    (∀ fuel', (to - start (.fixed d) z from_).toNat ≤ fuel' →
      alignedTimestamps (start (.fixed d) z) («end» (.fixed d) z) from_ to fuel' =
        alignedTimestamps (start (.fixed d) z) («end» (.fixed d) z) from_ to fuel) :=
  C12_stream (C12_fixed z d hd) from_ to hRf hR fuel hf

/-- non-vacuity / sanity: three UTC days -/
example : alignedTimestamps (start .day ⟨0, []⟩) («end» .day ⟨0, []⟩) (86400 * NS + 7) (3 * 86400 * NS + 1) 10
    = [86400 * NS, 2 * 86400 * NS, 3 * 86400 * NS] := by decide

/-! ## finding D14: witnesses (the full statement fails on the code as it is) -/

/-- A two-offset zone: UTC-3 until 1970-01-01T03:00Z, then UTC-2 — the clocks jump from 00:00 to 01:00 local on
1970-01-01, so that local midnight does not exist (the shape of America/Sao_Paulo or America/Havana DST starts). -/
def witnessZone : Zone := ⟨-10800, [(10800, -7200)]⟩

/-- t = 01:00 local on the day whose midnight is skipped.  `GetStartTime` answers 23:00 of the previous day … -/
theorem C12_witness_D14_start : start .day witnessZone (10800 * NS) = 7200 * NS := by decide
/-- … and applying it again moves to the previous day's midnight: `start (start t) ≠ start t`. -/
theorem C12_witness_D14_idempotence :
    start .day witnessZone (start .day witnessZone (10800 * NS)) ≠ start .day witnessZone (10800 * NS) := by decide

/-- The zone is a legal sorted table, and the executable check rejects the instant (so `C12_at` does not apply). -/
theorem C12_witness_D14_sorted : ZoneSorted witnessZone := by
  unfold ZoneSorted witnessZone sortedFrom alpha; simp [sortedFrom]
theorem C12_witness_D14_checkAt : checkAt .day witnessZone (10800 * NS) = false := by decide

/-- In that zone `GetEndTime` of the emitted instant is the instant itself, so the generator never advances:
`AlignedTimestampsStream` emits the same timestamp forever (every fuel is used up). -/
theorem C12_witness_D14_stream_diverges (fuel : Nat) :
    alignedTimestamps (start .day witnessZone) («end» .day witnessZone) (10800 * NS) (86400 * NS) fuel
      = List.replicate fuel (7200 * NS) := by
  have hE : «end» .day witnessZone (7200 * NS) = 7200 * NS := by decide
  have hlt : (7200 * NS : Int) < 86400 * NS := by decide
  unfold alignedTimestamps
  rw [C12_witness_D14_start]
  induction fuel with
  | zero => rfl
  | succ n ih =>
    unfold alignedFrom
    rw [if_pos hlt, hE, ih, List.replicate_succ]

theorem C12_full_statement_fails : ¬ C12_full_statement := by
  intro h
  have := (h witnessZone .day (fun d hd => by cases hd) C12_witness_D14_sorted).idem (10800 * NS) trivial
  exact C12_witness_D14_idempotence this

/-! ## Duration saturation (fixed kinds outside `FixedRange`) -/

/-- 1 s periods in UTC at t = 10^19 ns (year 2286): `t.Sub(epoch)` saturates at 2^63-1 ns, `end t` lies before `t`. -/
theorem C12_witness_fixed_saturation :
    ¬ (10000000000000000000 < «end» (.fixed NS) ⟨0, []⟩ 10000000000000000000) := by decide

end ShpanVerif.Props.C12
