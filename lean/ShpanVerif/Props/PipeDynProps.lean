/-
C01 / C03 / C04 / C05 / C18 for `stream.FlatMap` (dynamic `Concat`), with `Peek` / `Map` / `Filter` on the outer stream,
`FromIterator` / probe / Just / Empty / Error inner streams and an optional `Limit` on top — over the executable model
`Model/PipeDyn.lean`, for ALL outer lists `xs`, ALL operator lists `ops`, ALL mapper functions `g : V → Inner`
(every function, not only the ones the driver's DSL can write), ALL limits, ALL consumers, ALL worlds (any fault
kind at any call position, cancelled or not), unbounded.

Reading guide: `consume fuel kc lim c w` = one terminal operation `[Limit lim](FlatMap(ops(src r0 xs), g)).Consume…` on
the operator object `c` in world `w`; `Rested c w` = object and world at rest (everything closed, `bad` off, source
rewound — what `Obj.mk0` is in a world with nothing open: `mk0_rested`); `Same c c'` = same description.
`Outcome.oof` = the model ran out of fuel; `fuelNeed c` is enough in fault-free worlds (`C04_flatmap`).
-/
import ShpanVerif.Proofs.PipeDynPullsAll
import ShpanVerif.Proofs.PipeDynC03
import ShpanVerif.Proofs.PipeDynCouple

namespace ShpanVerif.Props.PipeDyn
open ShpanVerif.Model.Pipe ShpanVerif.Model.PipeDyn ShpanVerif.Proofs.PipeDyn

/-! ### the freshly constructed pipeline is at rest -/

theorem mk0_rested (r0 : Nat) (xs : List Int) (ops : List OOp) (g : V → Inner) (hd : ∀ v, ires (g v) ≠ some r0)
    (w : World) (hb : w.bad = false) (hc : ∀ r, w.isOpen r = false) (ht : w.trace = []) :
    Rested (Obj.mk0 r0 xs ops g) w := by
  refine ⟨⟨hb, ?_, ?_, List.suffix_refl _, hd, fun _ => rfl, TI_fresh r0 w ht hc⟩, rfl, rfl, rfl⟩
  · intro r; simp [Obj.mk0, hc]
  · intro s hs; simp [Obj.mk0] at hs

/-- `Rested` looks at the world only through `bad` and the open set -/
theorem rested_world {c : Obj} {w w' : World} (h : Rested c w) (hb : w'.bad = false) (hc : ∀ r, w'.isOpen r = false)
    (ht : w'.trace = []) : Rested c w' := by
  obtain ⟨⟨h1, h2, h3, h4, h6, h7, h8⟩, ho, hco, hr⟩ := h
  exact ⟨⟨hb, by intro r; rw [hc r]; simp [ho, hco], h3, h4, h6, h7, TI_fresh c.r0 w' ht hc⟩, ho, hco, hr⟩

/-- the outer source's contents change while the pipeline is at rest: still at rest -/
theorem rested_setContents {c : Obj} {w : World} (h : Rested c w) (xs' : List Int) : Rested (c.setContents xs') w := by
  obtain ⟨⟨h1, h2, h3, h4, h6, h7, h8⟩, ho, hco, hr⟩ := h
  exact ⟨⟨h1, h2, h3, List.suffix_refl _, h6, fun _ => rfl, h8⟩, ho, hco, rfl⟩

/-! ### C04 — the result is the list-level meaning -/

/-- **C04_flatmap** (with termination): in a fault-free world, with `fuelNeed c` fuel or more, the terminal returns exactly
the list-level meaning: the concatenation of the inner streams' elements over the outer list, up to the first `Error`
stream (then that error, after the elements before it), cut to the first `n` under `Limit(n)`.  Holds for every operator
object that is at rest, not only a fresh one. -/
theorem C04_flatmap (fuel : Nat) (kc : Consumer) (lim : Option Int) (c : Obj) (w : World)
    (hw : w.Clean) (hf : fuelNeed c ≤ fuel) :
    (consume fuel kc lim c w).1 = specOutcome lim (flatSpec c.g (outerDen c.ops c.xs)) :=
  consume_clean fuel kc lim c w hw hf

theorem flatSpec_noerror (g : V → Inner) (hg : ∀ v, (g v).isError = false) :
    ∀ vs, flatSpec g vs = (vs.flatMap (fun v => (g v).elems), false)
  | [] => rfl
  | v :: vs => by simp [flatSpec, hg v, flatSpec_noerror g hg vs]

/-- the property's wording: without `Error` streams the result is `xs.flatMap (den g)` (its first `n` elements under Limit) -/
theorem C04_flatmap_flatMap (fuel : Nat) (kc : Consumer) (lim : Option Int) (r0 : Nat) (xs : List Int) (ops : List OOp)
    (g : V → Inner) (w : World) (hg : ∀ v, (g v).isError = false) (hw : w.Clean)
    (hf : fuelNeed (Obj.mk0 r0 xs ops g) ≤ fuel) :
    (consume fuel kc lim (Obj.mk0 r0 xs ops g) w).1 =
      .ok (match lim with
           | none => (outerDen ops xs).flatMap (fun v => (g v).elems)
           | some n => ((outerDen ops xs).flatMap (fun v => (g v).elems)).take n.toNat) := by
  rw [C04_flatmap fuel kc lim _ w hw hf]
  simp only [Obj.mk0, flatSpec_noerror g hg, specOutcome]
  cases lim with
  | none => simp
  | some n =>
    simp only [Bool.false_eq_true, if_false]
    split
    · rfl
    · rw [List.take_of_length_le (by omega)]

theorem specOutcome_ne_oof (lim : Option Int) (d : List V × Bool) : specOutcome lim d ≠ .oof := by
  unfold specOutcome
  cases lim with
  | none => simp only []; split <;> simp
  | some n =>
    simp only []
    split
    · simp
    · split <;> simp

/-- enough fuel exists -/
theorem C04_flatmap_terminates (kc : Consumer) (lim : Option Int) (c : Obj) (w : World) (hw : w.Clean) :
    ∃ fuel0, ∀ fuel, fuel0 ≤ fuel → (consume fuel kc lim c w).1 ≠ .oof :=
  ⟨fuelNeed c, fun fuel hf => by rw [C04_flatmap fuel kc lim c w hw hf]; exact specOutcome_ne_oof _ _⟩

/-- **termination in EVERY world**: `fuelNeed c` fuel is enough whatever the fault plan and the cancellation flag are — a
run under a fault plan ends no later than the run without it (lockstep coupling, `consume_no_oof`) -/
theorem C04_flatmap_terminates_all (fuel : Nat) (kc : Consumer) (lim : Option Int) (c : Obj) (w : World)
    (hf : fuelNeed c ≤ fuel) : (consume fuel kc lim c w).1 ≠ .oof := by
  have hclean : ({ w with fault := none, cancelled := false } : World).Clean := ⟨rfl, rfl⟩
  have h0 : (consume fuel kc lim c { w with fault := none, cancelled := false }).1 ≠ .oof := by
    rw [C04_flatmap fuel kc lim c _ hclean hf]; exact specOutcome_ne_oof _ _
  exact consume_no_oof fuel kc lim c { w with fault := none, cancelled := false } w ⟨rfl, rfl, rfl⟩ h0

/-! ### C01 — every opened resource is closed exactly once -/

/-- **C01_flatmap**: in EVERY world (any fault kind at any call position — Open / Emit of the outer source, Peek / Map /
Filter callbacks, the mapper, Open / Emit of inner probe sources, an iterator's acquisition, the consumer — cancelled or not)
a materialisation that starts at rest returns with `bad` off (no resource opened while open, closed or pulled while
closed: every successful Open matched by exactly one Close, a failed or never attempted Open by none), every resource
closed, and the operator object at rest again with the same description — or the model ran out of fuel. -/
theorem C01_flatmap (fuel : Nat) (kc : Consumer) (lim : Option Int) (c : Obj) (w : World) (h : Rested c w) :
    (consume fuel kc lim c w).1 = .oof ∨
    ((consume fuel kc lim c w).2.2.bad = false ∧ (∀ r, (consume fuel kc lim c w).2.2.isOpen r = false) ∧
      Rested (consume fuel kc lim c w).2.1 (consume fuel kc lim c w).2.2 ∧ Same c (consume fuel kc lim c w).2.1) := by
  rcases consume_any fuel kc lim c w h with ho | ⟨hr, hs⟩
  · exact Or.inl ho
  · exact Or.inr ⟨hr.1.bad, hr.allClosed, hr, hs⟩

/-- C01 without the fuel disjunct: with `fuelNeed c` fuel the terminal returns, and everything is closed -/
theorem C01_flatmap_total (fuel : Nat) (kc : Consumer) (lim : Option Int) (c : Obj) (w : World) (h : Rested c w)
    (hf : fuelNeed c ≤ fuel) :
    (consume fuel kc lim c w).2.2.bad = false ∧ (∀ r, (consume fuel kc lim c w).2.2.isOpen r = false) ∧
      Rested (consume fuel kc lim c w).2.1 (consume fuel kc lim c w).2.2 := by
  rcases C01_flatmap fuel kc lim c w h with ho | ⟨h1, h2, h3, _⟩
  · exact absurd ho (C04_flatmap_terminates_all fuel kc lim c w hf)
  · exact ⟨h1, h2, h3⟩

/-- **at most one inner stream is open at any time** (trace level): replaying the recorded event trace of the whole
materialisation, no resource other than the outer source is ever opened while another resource other than the outer source
is open (`runT`: the flag of the replay; `runT_open_none` spells it out: at every `openOk r`, `r ≠ r0`, of the trace the
replay has no inner resource open) — in every world -/
theorem C01_flatmap_one_at_a_time (fuel : Nat) (kc : Consumer) (lim : Option Int) (c : Obj) (w : World) (h : Rested c w) :
    (consume fuel kc lim c w).1 = .oof ∨
    ((runT c.r0 (consume fuel kc lim c w).2.2.trace).1 = true ∧
     ∀ a b r, r ≠ c.r0 → (consume fuel kc lim c w).2.2.trace = a ++ [.openOk r] ++ b → (runT c.r0 a).2 = none) := by
  rcases consume_any fuel kc lim c w h with ho | ⟨hr, hs⟩
  · exact Or.inl ho
  · have ht := hr.1.trc
    rw [hs.1] at ht
    refine Or.inr ⟨ht.1, ?_⟩
    intro a b r hr' he
    have := ht.1; rw [he] at this
    exact (runT_open_none c.r0 a b r hr' this).1

/-- **at most one inner stream is open**: in every state the invariant describes — i.e. after the open phase and after
every provider call (`openC_any`, `emitC_any`, `pullLoop_any` preserve `Inv` in every world) — the open resources are the
outer source (at most) and the resource of the ONE current inner stream (at most) -/
theorem C01_flatmap_one_inner {c : Obj} {w : World} (h : Inv c w) (r1 r2 : Nat) (h1 : r1 ≠ c.r0) (h2 : r2 ≠ c.r0)
    (o1 : w.isOpen r1 = true) (o2 : w.isOpen r2 = true) : r1 = r2 := by
  rw [h.opn r1] at o1; rw [h.opn r2] at o2
  have e1 : (r1 == c.r0) = false := by simpa using h1
  have e2 : (r2 == c.r0) = false := by simpa using h2
  simp only [e1, e2, Bool.and_false, Bool.false_or, Bool.and_eq_true] at o1 o2
  cases hc : c.cur with
  | none => simp [hc, holdsO] at o1
  | some s =>
    simp only [hc, holdsO] at o1 o2
    cases s with
    | probe r ys rest => simp [holdsS] at o1 o2; rw [o1.2, o2.2]
    | iter r ys st =>
        cases st with
        | running rest => simp [holdsS] at o1 o2; rw [o1.2, o2.2]
        | fresh => simp [holdsS] at o1
        | done => simp [holdsS] at o1
    | just ys rest => simp [holdsS] at o1
    | empty => simp [holdsS] at o1
    | error => simp [holdsS] at o1

/-- the invariant holds throughout a materialisation: after a successful open, and after every pull, in every world -/
theorem C01_flatmap_inv_open (c : Obj) (w : World) (h : Rested c w) (hv : (openC c w).1 = .val ()) :
    Inv (openC c w).2.1 (openC c w).2.2 ∧ Run (openC c w).2.1 := by
  rcases openC_any c w h with ⟨_, h1, h2, _⟩ | ⟨hn, _⟩
  · exact ⟨h1, h2⟩
  · exact absurd hv hn

theorem C01_flatmap_inv_emit (fuel : Nat) (c : Obj) (w : World) (h : Inv c w) (hr : Run c) :
    Inv (emitC fuel c w).2.1 (emitC fuel c w).2.2 ∧ Run (emitC fuel c w).2.1 :=
  ⟨(emitC_any fuel c w h hr).1, (emitC_any fuel c w h hr).2.1⟩

/-! ### C03 — failures surface; what was delivered is a prefix -/

/-- **C03_flatmap (surfacing)**: a fired non-cancel fault makes the terminal return an error whose root is the injected one -/
theorem C03_flatmap_surface (fuel : Nat) (kc : Consumer) (lim : Option Int) (c : Obj) (w : World) (pos : Nat) (k : FaultKind)
    (hf : w.fault = some (pos, k)) (hk : k ≠ .cancel) (hnf : w.fired = false) :
    (consume fuel kc lim c w).1 = .oof ∨
    ((consume fuel kc lim c w).2.2.fired = true → ∃ d, (consume fuel kc lim c w).1 = .err (expectedRoot k) d) :=
  consume_surface fuel kc lim c w hf hk hnf

/-- **C03_flatmap (prefix)**: whatever the fault (any kind, cancel included, any position), the delivered elements are a
prefix of the fault-free run's -/
theorem C03_flatmap_prefix (fuel : Nat) (kc : Consumer) (lim : Option Int) (c : Obj) (w : World) (pos : Nat) (k : FaultKind)
    (hf : w.fault = none) (hc : w.cancelled = false) :
    (consume fuel kc lim c w).1 = .oof ∨
    (consume fuel kc lim c { w with fault := some (pos, k) }).1.delivered <+: (consume fuel kc lim c w).1.delivered :=
  consume_prefix fuel kc lim c w (some (pos, k)) hf hc

/-! ### C05 — pulls of the outer source -/

/-- **C05_flatmap**: a fault-free materialisation pulls the outer probe source exactly `demand lim c` times: the list-level
number of source elements that must be gone through to deliver the first `n` elements (`needPulls`), nothing for
`Limit(n ≤ 0)`; never more than `xs.length + 1`.  (Nothing is pulled at construction: `Obj.mk0` is data, no world is
involved; on the real code this is the observed `pre=0`.) -/
theorem C05_flatmap (fuel : Nat) (kc : Consumer) (lim : Option Int) (c : Obj) (w : World)
    (hw : w.Clean) (hd : Distinct c) (hf : fuelNeed c ≤ fuel) :
    pulls (consume fuel kc lim c w).2.2.trace c.r0 = pulls w.trace c.r0 + demand lim c ∧
    demand lim c ≤ c.xs.length + 1 := by
  refine ⟨consume_P fuel kc lim c w hw hd hf, ?_⟩
  unfold demand
  cases lim with
  | none => exact needPulls_le _ _ _ _
  | some n =>
    simp only []
    split
    · omega
    · exact needPulls_le _ _ _ _

/-- under `Limit(n)`, `n ≥ 1`: exactly the pulls needed for `n` elements -/
theorem C05_flatmap_limit (fuel : Nat) (kc : Consumer) (n : Int) (hn : 1 ≤ n) (c : Obj) (w : World)
    (hw : w.Clean) (hd : Distinct c) (hf : fuelNeed c ≤ fuel) :
    pulls (consume fuel kc (some n) c w).2.2.trace c.r0 = pulls w.trace c.r0 + needPulls c.ops c.g n.toNat c.xs := by
  have := (C05_flatmap fuel kc (some n) c w hw hd hf).1
  rw [this]; simp only [demand]; rw [if_neg (by omega)]

/-- **C05_flatmap in EVERY world**: whatever the fault plan and the cancellation flag, the outer probe source is pulled at most
`needPulls ops g n xs` times under `Limit(n)`, `n ≥ 1` (the list-level number of source elements needed for `n` elements), not
at all under `Limit(n ≤ 0)`, at most `xs.length + 1` times without a Limit — a failure or a cancellation can only cut the
pulling short, never cause extra pulls; for any fuel -/
theorem C05_flatmap_all (fuel : Nat) (kc : Consumer) (lim : Option Int) (c : Obj) (w : World)
    (hd : Distinct c) :
    pulls (consume fuel kc lim c w).2.2.trace c.r0 ≤ pulls w.trace c.r0 + boundAll lim c :=
  consume_P_all fuel kc lim c w hd

/-! ### C18 — re-materialisation -/

/-- one earlier materialisation: fuel, consumer, optional `Limit`, and an arbitrary world (any fault plan, cancellation) -/
structure PastRun where
  fuel : Nat
  consumer : Consumer
  lim : Option Int
  world : World

/-- run a history on the operator object; `none` if the model ran out of fuel somewhere -/
def afterHistory : Obj → List PastRun → Option Obj
  | c, [] => some c
  | c, r :: rs =>
    match consume r.fuel r.consumer r.lim c r.world with
    | (.oof, _, _) => none
    | (_, c', _) => afterHistory c' rs

theorem afterHistory_rested : ∀ (hist : List PastRun) (c c' : Obj) (w0 : World), Rested c w0 →
    (∀ r ∈ hist, r.world.bad = false ∧ (∀ x, r.world.isOpen x = false) ∧ r.world.trace = []) →
    afterHistory c hist = some c' → ∃ w', Rested c' w' ∧ Same c c'
  | [], c, c', w0, h, _, he => by simp [afterHistory] at he; subst he; exact ⟨w0, h, Same.refl' c⟩
  | r :: rs, c, c', w0, h, hw, he => by
      have hr := hw r (by simp)
      have h1 := rested_world h hr.1 hr.2.1 hr.2.2
      have hc := consume_any r.fuel r.consumer r.lim c r.world h1
      simp only [afterHistory] at he
      generalize consume r.fuel r.consumer r.lim c r.world = x at *
      obtain ⟨o, c1, w1⟩ := x
      cases o with
      | oof => simp at he
      | ok d =>
          simp only at he hc
          rcases hc with hc | ⟨hc1, hc2⟩
          · simp at hc
          · obtain ⟨w', h3, h4⟩ := afterHistory_rested rs c1 c' w1 hc1 (fun r' hr' => hw r' (by simp [hr'])) he
            exact ⟨w', h3, hc2.trans' h4⟩
      | err e d =>
          simp only at he hc
          rcases hc with hc | ⟨hc1, hc2⟩
          · simp at hc
          · obtain ⟨w', h3, h4⟩ := afterHistory_rested rs c1 c' w1 hc1 (fun r' hr' => hw r' (by simp [hr'])) he
            exact ⟨w', h3, hc2.trans' h4⟩

/-- **C18_flatmap**: after ANY history of earlier materialisations of the same operator object (any number; each complete,
stopped early by a Limit, failed or cancelled — any fault plan), a fault-free materialisation returns what a fresh
pipeline of the same description returns (`C04_flatmap`): the list-level meaning.  The provider left in
`cp.currProviderFunc` by an earlier run is never consulted: `cp.open` forgets it first (repair 2541325). -/
theorem C18_flatmap (c c' : Obj) (w0 : World) (hist : List PastRun) (fuel : Nat) (kc : Consumer) (lim : Option Int) (w : World)
    (h : Rested c w0) (hw : ∀ r ∈ hist, r.world.bad = false ∧ (∀ x, r.world.isOpen x = false) ∧ r.world.trace = [])
    (he : afterHistory c hist = some c') (hc : w.Clean) (hf : fuelNeed c ≤ fuel) :
    (consume fuel kc lim c' w).1 = specOutcome lim (flatSpec c.g (outerDen c.ops c.xs)) ∧
    (consume fuel kc lim c' w).1 = (consume fuel kc lim c w).1 := by
  obtain ⟨w', hr, hs⟩ := afterHistory_rested hist c c' w0 h hw he
  have hfn : fuelNeed c' = fuelNeed c := by unfold fuelNeed; rw [hs.2.2.2, hs.2.2.1, hs.2.1]
  have h1 := C04_flatmap fuel kc lim c' w hc (by rw [hfn]; exact hf)
  rw [hs.2.2.2, hs.2.2.1, hs.2.1] at h1
  exact ⟨h1, by rw [h1, C04_flatmap fuel kc lim c w hc hf]⟩

/-! ### C18 for a source whose contents CHANGE between materialisations -/

/-- same description up to the contents of the outer source -/
def Desc (c c' : Obj) : Prop := c'.r0 = c.r0 ∧ c'.ops = c.ops ∧ c'.g = c.g

/-- one earlier materialisation over its own contents of the outer source -/
structure PastRunV where
  contents : List Int
  fuel : Nat
  consumer : Consumer
  lim : Option Int
  world : World

/-- run a history with changing contents on the operator object (the source takes its contents when it is opened) -/
def afterHistoryV : Obj → List PastRunV → Option Obj
  | c, [] => some c
  | c, r :: rs =>
    match consume r.fuel r.consumer r.lim (c.setContents r.contents) r.world with
    | (.oof, _, _) => none
    | (_, c', _) => afterHistoryV c' rs

/-- C01 along such a history: every run ends at rest (everything closed, `bad` off), whatever its contents and world -/
theorem afterHistoryV_rested : ∀ (hist : List PastRunV) (c c' : Obj) (w0 : World), Rested c w0 →
    (∀ r ∈ hist, r.world.bad = false ∧ (∀ x, r.world.isOpen x = false) ∧ r.world.trace = []) →
    afterHistoryV c hist = some c' → ∃ w', Rested c' w' ∧ Desc c c'
  | [], c, c', w0, h, _, he => by simp [afterHistoryV] at he; subst he; exact ⟨w0, h, rfl, rfl, rfl⟩
  | r :: rs, c, c', w0, h, hw, he => by
      have hr := hw r (by simp)
      have h1 := rested_setContents (rested_world h hr.1 hr.2.1 hr.2.2) r.contents
      have hc := consume_any r.fuel r.consumer r.lim (c.setContents r.contents) r.world h1
      simp only [afterHistoryV] at he
      generalize consume r.fuel r.consumer r.lim (c.setContents r.contents) r.world = x at *
      obtain ⟨o, c1, w1⟩ := x
      have step : ∀ (_ : Rested c1 w1) (hs : Same (c.setContents r.contents) c1), ∃ w', Rested c' w' ∧ Desc c c' := by
        intro hc1 hc2
        obtain ⟨w', h3, h4⟩ := afterHistoryV_rested rs c1 c' w1 hc1 (fun r' hr' => hw r' (by simp [hr'])) (by
          cases o <;> simp_all)
        exact ⟨w', h3, by rw [h4.1, hc2.1]; rfl, by rw [h4.2.1, hc2.2.2.1]; rfl, by rw [h4.2.2, hc2.2.2.2]; rfl⟩
      cases o with
      | oof => simp at he
      | ok d =>
          simp only at hc
          rcases hc with hc | ⟨hc1, hc2⟩
          · simp at hc
          · exact step hc1 hc2
      | err e d =>
          simp only at hc
          rcases hc with hc | ⟨hc1, hc2⟩
          · simp at hc
          · exact step hc1 hc2

/-- **C18_flatmap_any_contents**: after ANY history of earlier materialisations of the same operator object — any number;
each complete, stopped early by a Limit, failed or cancelled (any fault plan); each over ANY contents of the outer source —
a fault-free materialisation over contents `xs'` returns exactly what a FRESH pipeline over `xs'` returns: the list-level
meaning of `xs'`.  In particular over `xs' = []` after an early-stopped run: nothing (the witness below shows what the
code did before `cp.currProviderFunc = nil` became the first statement of `concatProvider.open`). -/
theorem C18_flatmap_any_contents (c c' : Obj) (w0 : World) (hist : List PastRunV) (xs' : List Int)
    (fuel : Nat) (kc : Consumer) (lim : Option Int) (w : World)
    (h : Rested c w0) (hw : ∀ r ∈ hist, r.world.bad = false ∧ (∀ x, r.world.isOpen x = false) ∧ r.world.trace = [])
    (he : afterHistoryV c hist = some c') (hc : w.Clean) (hf : fuelNeed (Obj.mk0 c.r0 xs' c.ops c.g) ≤ fuel) :
    (consume fuel kc lim (c'.setContents xs') w).1 = specOutcome lim (flatSpec c.g (outerDen c.ops xs')) ∧
    (consume fuel kc lim (c'.setContents xs') w).1 = (consume fuel kc lim (Obj.mk0 c.r0 xs' c.ops c.g) w).1 := by
  obtain ⟨w', _, hd⟩ := afterHistoryV_rested hist c c' w0 h hw he
  have hfn : fuelNeed (c'.setContents xs') = fuelNeed (Obj.mk0 c.r0 xs' c.ops c.g) := by
    unfold fuelNeed Obj.setContents Obj.mk0; simp only []; rw [hd.2.2, hd.2.1]
  have h1 := C04_flatmap fuel kc lim (c'.setContents xs') w hc (by rw [hfn]; exact hf)
  have h2 := C04_flatmap fuel kc lim (Obj.mk0 c.r0 xs' c.ops c.g) w hc hf
  have e1 : (c'.setContents xs').g = c.g := hd.2.2
  have e2 : (c'.setContents xs').ops = c.ops := hd.2.1
  have e3 : (c'.setContents xs').xs = xs' := rfl
  rw [e1, e2, e3] at h1
  exact ⟨h1, by rw [h1, h2]; rfl⟩

/-! ### why the reset in `concatProvider.open` is needed: the code before the repair 2541325

Before the repair `concatProvider.open` left `cp.currProviderFunc` as it was when the outer stream was empty
(it returned right after the EOF of the outer stream), and nothing else resets it.  `cpOpenOld` is that variant.  After an
early-stopped materialisation over `[1]`, a materialisation over the now EMPTY source pulled the provider of the earlier
materialisation's (closed) inner stream: its elements were delivered (`bad`: pulled while closed) and the run failed on the
stale stream handle ("stream index out of range: 1;len=1" on the real code; found by this model, reproduced, repaired). -/

/-- `concatProvider.open` before the repair: no `cp.currProviderFunc = nil` -/
def cpOpenOld (c : Obj) (w : World) : Res Unit × Obj × World :=
  match openOuter c w with
  | (.val _, c, w) =>
    match pullOuter c w with
    | (.val s, c, w) => openNext c s w
    | (.eof, c, w) => (.val (), c, w)          -- `currProviderFunc` stays what it was
    | (res, c, w) => (castRes res, c, w)
  | (res, c, w) => (res, c, w)

def openCOld (c : Obj) (w : World) : Res Unit × Obj × World :=
  match cpOpenOld c w with
  | (.val _, c, w) => (.val (), c, w)
  | (res, c, w) => let (c, w) := closeFunc c w; (res, c, w)

/-- the terminal over the unrepaired `open` -/
def consumeOld (fuel : Nat) (k : Consumer) (lim : Option Int) (c : Obj) (w : World) : Outcome × Obj × World :=
  if limOff lim then
    (if w.cancelled then .err .ctx [] else .ok [], c, w)
  else
    match openCOld c w with
    | (.val _, c, w) =>
      match pullLoop fuel k lim 1 c [] w with
      | (.oof, _, c, w) => (.oof, c, w)
      | (res, acc, c, w) => let (c, w) := closeFunc c w; (outcomeOf res acc, c, w)
    | (.fail e, c, w) => (.err e [], c, w)
    | (.panic b, c, w) => (.err (recovered b) [], c, w)
    | (_, c, w) => (.oof, c, w)

/-- the operator object after an early-stopped materialisation over `[1]`, its source now being empty -/
def staleObj : Obj :=
  ((consume 20 .collect (some 1) (Obj.mk0 0 [1] [] (fun v => .probe 5 [v, .int (v.key + 1)])) {}).2.1).setContents []

/-- the unrepaired `open` delivers the elements of the earlier run's closed inner stream (and pulls it while closed);
    the repaired one delivers nothing, as a fresh pipeline over the empty source does -/
theorem C18_flatmap_changed_source_witness :
    staleObj.cur.isSome = true ∧
    (consumeOld 20 .collect none staleObj {}).1.delivered = [.int 1, .int 2] ∧
    (consumeOld 20 .collect none staleObj {}).2.2.bad = true ∧
    (consume 20 .collect none staleObj {}).1.delivered = [] ∧
    (consume 20 .collect none staleObj {}).2.2.bad = false := by
  refine ⟨by decide +kernel, by decide +kernel, by decide +kernel, by decide +kernel, by decide +kernel⟩

/-! ### non-vacuity: a concrete pipeline meets the hypotheses of every theorem, with non-trivial content

`FlatMap(src 0 [1,2,3,4].Peek.Filter(x mod 2 = 1 or …), g)` with `g v` = a probe source on resource 7 over `[v, v+10]` for
even keys, a FromIterator stream holding resource 8 over `[v]` for odd keys. -/

def exG : V → Inner := fun v =>
  if v.key % 2 == 0 then .probe 7 [v, .int (v.key + 10)] else .iter 8 [v]

def exObj : Obj := Obj.mk0 0 [1, 2, 3, 4] [.peek, .filter (.lt 4)] exG

theorem exG_distinct : ∀ v, ires (exG v) ≠ some 0 := by
  intro v; unfold exG; split <;> simp [ires]

theorem exObj_rested : Rested exObj {} := mk0_rested 0 _ _ exG exG_distinct {} rfl (fun _ => rfl) rfl

/-- C04: hypotheses hold (clean world, fuel) and the result is the non-trivial list `[1, 2, 12, 3]` -/
example : (consume 20 .collect none exObj {}).1.delivered = [.int 1, .int 2, .int 12, .int 3] := by decide +kernel
example : fuelNeed exObj ≤ 20 := by decide +kernel
example : (consume 20 .user (some 2) exObj {}).1.delivered = [.int 1, .int 2] :=
  by rw [C04_flatmap 20 .user (some 2) exObj {} ⟨rfl, rfl⟩ (by decide +kernel)]; decide +kernel

/-- C01: a world with a panic inside the iterator's acquisition (call position 5): events happened, the fault fired -/
example : (consume 20 .collect none exObj { fault := some (5, .panicVal) }).2.2.trace.length = 10 ∧
    (consume 20 .collect none exObj { fault := some (5, .panicVal) }).2.2.fired = true := by decide +kernel
example : Rested exObj { fault := some (5, .panicVal) } :=
  mk0_rested 0 _ _ exG exG_distinct _ rfl (fun _ => rfl) rfl

/-- C03: the fault fires and surfaces; the faulty run delivered a strict, non-empty prefix -/
example : (consume 20 .collect none exObj { fault := some (12, .panicVal) }).1.delivered = [.int 1, .int 2] := by
  decide +kernel
example : (consume 20 .collect none exObj { fault := some (5, .cancel) }).1.delivered = [.int 1] := by decide +kernel

/-- C05: `Limit(2)` needs 2 of the 4 source elements; without a Limit all 4 and the EOF pull -/
example : needPulls exObj.ops exObj.g 2 exObj.xs = 2 ∧ demand none exObj = 5 := by decide +kernel
example : pulls (consume 20 .collect (some 2) exObj {}).2.2.trace 0 = 2 := by decide +kernel

/-- C05 in a faulty world: cancelled at the first inner Emit, `Limit(3)`: 1 pull of the 2 the bound allows -/
example : pulls (consume 20 .collect (some 3) exObj { fault := some (5, .cancel) }).2.2.trace 0 = 1 ∧
    boundAll (some 3) exObj = 2 := by decide +kernel

/-- C18: a three-run history (early stop, panic, cancellation) is a history in the sense of the theorem, and changes nothing -/
def exHist : List PastRun :=
  [⟨20, .collect, some 1, {}⟩, ⟨20, .user, none, { fault := some (7, .panicErr) }⟩, ⟨20, .collect, some 3, { fault := some (5, .cancel) }⟩]

example : (afterHistory exObj exHist).isSome = true := by decide +kernel
example : ∀ r ∈ exHist, r.world.bad = false ∧ (∀ x, r.world.isOpen x = false) ∧ r.world.trace = [] := by
  intro r hr; simp [exHist] at hr; rcases hr with rfl | rfl | rfl <;> exact ⟨rfl, fun _ => rfl, rfl⟩
/-- the trace of the example has inner opens (resources 8, 7, 8 one after the other): the replay is not vacuous -/
example : (runT 0 (consume 20 .collect none exObj {}).2.2.trace) = (true, none) ∧
    ((consume 20 .collect none exObj {}).2.2.trace.filter (fun e => e == .openOk 8 || e == .openOk 7)).length = 3 := by
  decide +kernel
/-- the early-stopped first run leaves a stale provider behind (`cur ≠ none` at rest); `cp.open` forgets it -/
example : ((consume 20 .collect (some 1) exObj {}).2.1.cur).isSome = true := by decide +kernel

/-- C18 with changing contents: early stop over `[1,2,3,4]`, a panicking run over `[2]`, a cancelled run over `[]`;
    then a run over `[]` delivers nothing and a run over `[2,1]` delivers `[2, 12, 1]` -/
def exHistV : List PastRunV :=
  [⟨[1, 2, 3, 4], 20, .collect, some 1, {}⟩, ⟨[2], 20, .user, none, { fault := some (4, .panicErr) }⟩,
   ⟨[], 20, .collect, some 3, { fault := some (1, .cancel) }⟩]

example : (afterHistoryV exObj exHistV).isSome = true := by decide +kernel
example : ∀ r ∈ exHistV, r.world.bad = false ∧ (∀ x, r.world.isOpen x = false) ∧ r.world.trace = [] := by
  intro r hr; simp [exHistV] at hr; rcases hr with rfl | rfl | rfl <;> exact ⟨rfl, fun _ => rfl, rfl⟩
example : (match afterHistoryV exObj exHistV with
    | some c' => ((consume 20 .collect none (c'.setContents []) {}).1.delivered,
                  (consume 20 .collect none (c'.setContents [2, 1]) {}).1.delivered)
    | none => ([], [])) = ([], [.int 2, .int 12, .int 1]) := by decide +kernel

end ShpanVerif.Props.PipeDyn
