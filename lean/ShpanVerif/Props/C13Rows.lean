/-
C13 — multi-field report rows: every field of an aligned row carries the interpolation of ITS OWN column.

`report.NewAlignerFilter` interpolates a whole row at a time (`timeWeightedAverageArr`, model `coreRow`).  The
theorems below say that this is the same as aligning every column on its own with the single-field aligner
(`datasource.NewAlignerFilter`, model `coreField`): projecting the aligned rows on column `j` gives the aligned
column `j` - for every period with the `Tiles` laws, every time-sorted input of any length, every arithmetic, every
list of field types.  In particular a column that does not change between two readings, or that precedes / follows
one, cannot stop the others from being interpolated (seeded defect C13r10-2: `break` for `continue` in the field loop).

  * `specGo_proj` / `alignSpec_proj`   naturality of the list-level aligned series in the item type, for any
                                        projection `g` that the cores respect on the values that occur
  * `coreRow_get`                       `coreRow` computes `coreField` in every column
  * `C13_rows_fieldwise`                aligned rows, projected on column j = aligned column j
  * `C13_rows_width`                    every aligned row is as wide as the input rows
-/
import ShpanVerif.Model.Align
import ShpanVerif.Proofs.AlignLemmas
import ShpanVerif.Props.C13

namespace ShpanVerif.Props.C13
open List ShpanVerif.Model.Align ShpanVerif.Proofs.Align

variable {β γ : Type}

/-- apply a function to the value of a record, keep its time stamp -/
def mapVal (g : β → γ) (r : Rec β) : Rec γ := ⟨r.ts, g r.val⟩

theorem boundaryVal_proj (I : β → Prop) (g : β → γ)
    (core : Int → Int → β → β → Except Err β) (core' : Int → Int → γ → γ → Except Err γ)
    (hc : ∀ di dt a b v, I a → I b → core di dt a b = .ok v → core' di dt (g a) (g b) = .ok (g v))
    (b : Int) (p y : Rec β) (hp : I p.val) (hy : I y.val) (v : β)
    (h : boundaryVal core b p y = .ok v) :
    boundaryVal core' b (mapVal g p) (mapVal g y) = .ok (g v) := by
  unfold boundaryVal at *
  simp only [mapVal]
  by_cases hb : y.ts.inst = b
  · simp only [hb, if_true] at h ⊢
    cases h; rfl
  · simp only [hb, if_false] at h ⊢
    exact hc _ _ _ _ _ hp hy h

/-- **naturality of the aligned series (tail)**: a projection that the cores respect commutes with `specGo`. -/
theorem specGo_proj (P : Period) (I : β → Prop) (g : β → γ)
    (core : Int → Int → β → β → Except Err β) (core' : Int → Int → γ → γ → Except Err γ)
    (hc : ∀ di dt a b v, I a → I b → core di dt a b = .ok v → core' di dt (g a) (g b) = .ok (g v)) :
    ∀ (ys : List (Rec β)) (p : Rec β) (L : List (Rec β)), I p.val → (∀ y ∈ ys, I y.val) →
      specGo P core p ys = .ok L →
      specGo P core' (mapVal g p) (ys.map (mapVal g)) = .ok (L.map (mapVal g)) := by
  intro ys
  induction ys with
  | nil =>
    intro p L _ _ h
    simp only [specGo] at h
    cases h
    simp [specGo]
  | cons y ys ih =>
    intro p L hp hys h
    have hy : I y.val := hys y (by simp)
    have hys' : ∀ z ∈ ys, I z.val := fun z hz => hys z (by simp [hz])
    simp only [List.map_cons, specGo] at h ⊢
    have hts : (mapVal g y).ts = y.ts := rfl
    have htp : (mapVal g p).ts = p.ts := rfl
    rw [hts, htp]
    by_cases hsame : P.start y.ts.inst = P.start p.ts.inst
    · simp only [hsame, if_true] at h ⊢
      exact ih y L hy hys' h
    · simp only [hsame, if_false] at h ⊢
      cases hb : boundaryVal core (P.start y.ts.inst) p y with
      | error e => rw [hb] at h; cases h
      | ok v =>
        rw [hb] at h
        rw [boundaryVal_proj I g core core' hc _ p y hp hy v hb]
        cases hr : specGo P core y ys with
        | error e => rw [hr] at h; cases h
        | ok rest =>
          rw [hr] at h
          cases h
          rw [ih y rest hy hys' hr]
          simp [outRec, mapVal]

/-- **naturality of the aligned series**. -/
theorem alignSpec_proj (P : Period) (I : β → Prop) (g : β → γ)
    (core : Int → Int → β → β → Except Err β) (core' : Int → Int → γ → γ → Except Err γ)
    (hc : ∀ di dt a b v, I a → I b → core di dt a b = .ok v → core' di dt (g a) (g b) = .ok (g v))
    (xs L : List (Rec β)) (hI : ∀ x ∈ xs, I x.val) (h : alignSpec P core xs = .ok L) :
    alignSpec P core' (xs.map (mapVal g)) = .ok (L.map (mapVal g)) := by
  cases xs with
  | nil =>
    simp only [alignSpec] at h
    cases h
    simp [alignSpec]
  | cons x xs =>
    have hx : I x.val := hI x (by simp)
    have hxs : ∀ z ∈ xs, I z.val := fun z hz => hI z (by simp [hz])
    simp only [List.map_cons, alignSpec] at h ⊢
    cases hr : specGo P core x xs with
    | error e => rw [hr] at h; cases h
    | ok rest =>
      rw [hr] at h
      cases h
      rw [specGo_proj P I g core core' hc xs x rest hx hxs hr]
      simp [outRec, mapVal]

section rows
variable {V : Type} (A : Arith V)

/-- `coreRow` computes `coreField` in every column, and keeps the width of its first row. -/
theorem coreRow_get (di dtot : Int) :
    ∀ (dts : List DType) (r1 r2 out : List (Cell V)), coreRow A di dtot dts r1 r2 = .ok out →
      out.length = r1.length ∧
      ∀ (j : Nat) (dt : DType) (c1 c2 : Cell V), dts[j]? = some dt → r1[j]? = some c1 → r2[j]? = some c2 →
        ∃ c, coreField A dt di dtot c1 c2 = .ok c ∧ out[j]? = some c := by
  intro dts
  induction dts with
  | nil =>
    intro r1 r2 out h
    cases r1 with
    | nil =>
      simp only [coreRow] at h
      cases h
      exact ⟨rfl, by intro j dt c1 c2 hd; simp at hd⟩
    | cons c r => simp [coreRow] at h
  | cons d dts ih =>
    intro r1 r2 out h
    cases r1 with
    | nil =>
      simp only [coreRow] at h
      cases h
      exact ⟨rfl, by intro j dt c1 c2 _ h1; simp at h1⟩
    | cons a r1 =>
      cases r2 with
      | nil => simp [coreRow] at h
      | cons b r2 =>
        simp only [coreRow] at h
        cases hf : coreField A d di dtot a b with
        | error e => rw [hf] at h; cases h
        | ok c =>
          rw [hf] at h
          cases hr : coreRow A di dtot dts r1 r2 with
          | error e => rw [hr] at h; cases h
          | ok rest =>
            rw [hr] at h
            cases h
            obtain ⟨hl, hget⟩ := ih r1 r2 rest hr
            refine ⟨by simp [hl], ?_⟩
            intro j dt c1 c2 hd h1 h2
            cases j with
            | zero =>
              simp only [List.getElem?_cons_zero, Option.some.injEq] at hd h1 h2
              subst hd; subst h1; subst h2
              exact ⟨c, hf, by simp⟩
            | succ j =>
              simp only [List.getElem?_cons_succ] at hd h1 h2 ⊢
              exact hget j dt c1 c2 hd h1 h2

/-- column `j` of a row (`d` where the row is too short: never the case under the hypotheses below) -/
def col (j : Nat) (d : Cell V) (r : List (Cell V)) : Cell V := (r[j]?).getD d

/-- **C13 (rows are aligned column by column)**: for every period with the `Tiles` laws, every time-sorted list of
rows as wide as the list of field types, and every column `j`: the report aligner's result, projected on column `j`,
is the single-field aligner's result on column `j` of the input. -/
theorem C13_rows_fieldwise {P : Period} (T : Tiles P) (dts : List DType) (xs L : List (Rec (List (Cell V))))
    (hs : Sorted xs) (hw : ∀ x ∈ xs, x.val.length = dts.length)
    (j : Nat) (dt : DType) (hj : dts[j]? = some dt) (d : Cell V)
    (h : alignRows A dts P xs = .ok L) :
    alignField A dt P (xs.map (mapVal (col j d))) = .ok (L.map (mapVal (col j d))) := by
  have hsorted : Sorted (xs.map (mapVal (col j d))) := by
    unfold Sorted at *
    rw [List.pairwise_map]
    exact hs.imp (fun h => h)
  unfold alignRows at h
  unfold alignField
  rw [alignWith_eq_spec _ T xs hs] at h
  rw [alignWith_eq_spec _ T _ hsorted]
  refine alignSpec_proj P (fun r => r.length = dts.length) (col j d) _ _ ?_ xs L hw h
  intro di dtot a b v ha hb hv
  have hjlt : j < dts.length := by
    rcases Nat.lt_or_ge j dts.length with hlt | hge
    · exact hlt
    · rw [List.getElem?_eq_none (by omega)] at hj; cases hj
  have ha' : a[j]? = some a[j] := List.getElem?_eq_getElem (by omega)
  have hb' : b[j]? = some b[j] := List.getElem?_eq_getElem (by omega)
  obtain ⟨_, hget⟩ := coreRow_get A di dtot dts a b v hv
  obtain ⟨c, hc, hout⟩ := hget j dt a[j] b[j] hj ha' hb'
  simp only [col, ha', hb', hout, Option.getD_some]
  exact hc

/-- **C13 (no field is lost)**: every aligned row is as wide as the input rows. -/
theorem C13_rows_width {P : Period} (T : Tiles P) (dts : List DType) (xs L : List (Rec (List (Cell V))))
    (hs : Sorted xs) (hw : ∀ x ∈ xs, x.val.length = dts.length)
    (h : alignRows A dts P xs = .ok L) : ∀ r ∈ L, r.val.length = dts.length := by
  unfold alignRows at h
  rw [alignWith_eq_spec _ T xs hs] at h
  -- the width, seen as a projection to `Nat` that `coreRow` respects
  have hp := alignSpec_proj P (fun r => r.length = dts.length) (fun r : List (Cell V) => r.length)
    (fun di dt => coreRow A di dt dts) (fun _ _ a _ => .ok a) (by
      intro di dtot a b v ha hb hv
      obtain ⟨hl, _⟩ := coreRow_get A di dtot dts a b v hv
      simp [hl]) xs L hw h
  -- … and under which the aligned series of constant-width rows is a series of that constant
  have hconst : ∀ (ys : List (Rec Nat)) (p : Rec Nat) (M : List (Rec Nat)), p.val = dts.length →
      (∀ y ∈ ys, y.val = dts.length) → specGo P (fun _ _ a _ => .ok a) p ys = .ok M → ∀ m ∈ M, m.val = dts.length := by
    intro ys
    induction ys with
    | nil => intro p M _ _ hM; simp only [specGo] at hM; cases hM; simp
    | cons y ys ih =>
      intro p M hpv hys hM
      have hy := hys y (by simp)
      have hys' : ∀ z ∈ ys, z.val = dts.length := fun z hz => hys z (by simp [hz])
      simp only [specGo] at hM
      by_cases hsame : P.start y.ts.inst = P.start p.ts.inst
      · simp only [hsame, if_true] at hM; exact ih y M hy hys' hM
      · simp only [hsame, if_false] at hM
        have hbv : ∃ v, boundaryVal (fun _ _ (a : Nat) _ => Except.ok a) (P.start y.ts.inst) p y = .ok v ∧ v = dts.length := by
          unfold boundaryVal
          by_cases hb : y.ts.inst = P.start y.ts.inst
          · exact ⟨y.val, by simp [← hb], hy⟩
          · exact ⟨p.val, by simp [hb], hpv⟩
        obtain ⟨v, hv1, hv2⟩ := hbv
        rw [hv1] at hM
        cases hr : specGo P (fun _ _ (a : Nat) _ => Except.ok a) y ys with
        | error e => rw [hr] at hM; cases hM
        | ok rest =>
          rw [hr] at hM
          cases hM
          intro m hm
          rcases List.mem_cons.1 hm with rfl | hm
          · simpa [outRec] using hv2
          · exact ih y rest hy hys' hr m hm
  intro r hr
  cases xs with
  | nil =>
    simp only [alignSpec] at h
    cases h
    simp at hr
  | cons x xs =>
    have hx := hw x (by simp)
    simp only [List.map_cons, alignSpec] at hp
    cases hg : specGo P (fun _ _ (a : Nat) _ => Except.ok a) (mapVal (fun r : List (Cell V) => r.length) x)
        (xs.map (mapVal (fun r : List (Cell V) => r.length))) with
    | error e => rw [hg] at hp; cases hp
    | ok rest =>
      rw [hg] at hp
      have hall : ∀ m ∈ (L.map (mapVal (fun r : List (Cell V) => r.length))), m.val = dts.length := by
        have := Except.ok.inj hp
        rw [← this]
        intro m hm
        rcases List.mem_cons.1 hm with rfl | hm
        · simpa [outRec, mapVal] using hx
        · exact hconst _ _ rest (by simpa [mapVal] using hx)
            (by intro y hy; rcases List.mem_map.1 hy with ⟨z, hz, rfl⟩; simpa [mapVal] using hw z (by simp [hz])) hg m hm
      have := hall (mapVal (fun r : List (Cell V) => r.length) r) (List.mem_map.2 ⟨r, hr, rfl⟩)
      simpa [mapVal] using this

end rows

/-! ### the hypotheses are satisfiable: a concrete three-column series interpolated over one boundary; the first
column does not change, the other two do - and they are interpolated all the same -/

def exRows : List (Rec (List (Cell Rat))) :=
  [⟨⟨1800, 0⟩, [.int 7, .flt 1, .int 10]⟩, ⟨⟨5400, 0⟩, [.int 7, .flt 3, .int 20]⟩]
def exDts : List DType := [.integer, .decimal, .integer]

theorem exRows_sorted : Sorted exRows := by unfold Sorted exRows; decide
theorem exRows_width : ∀ x ∈ exRows, x.val.length = exDts.length := by
  intro x hx; simp [exRows] at hx; rcases hx with rfl | rfl <;> rfl

def exAligned : List (Rec (List (Cell Rat))) :=
  [⟨⟨0, 0⟩, [.int 7, .flt 1, .int 10]⟩, ⟨⟨3600, 0⟩, [.int 7, .flt 2, .int 15]⟩]

theorem exRows_aligned : alignRows ratArith exDts exP exRows = .ok exAligned := by decide +kernel
/-- the third column on its own, through `C13_rows_fieldwise` -/
example : alignField ratArith .integer exP (exRows.map (mapVal (col 2 (.other 0)))) =
    .ok [⟨⟨0, 0⟩, .int 10⟩, ⟨⟨3600, 0⟩, .int 15⟩] :=
  C13_rows_fieldwise ratArith exP_tiles exDts exRows exAligned exRows_sorted exRows_width 2 .integer rfl (.other 0)
    exRows_aligned

end ShpanVerif.Props.C13
