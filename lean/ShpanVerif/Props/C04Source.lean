/-
C04 — slice-sourced streams are snapshots: `stream.Just(xs...)` and `stream.FromSlice(xs)` keep `slices.Clone(xs)`
(stream/slice_sourced_stream.go:11,15), so "the same program over plain slices" means the slice AS IT WAS when the
stream was built.  In the heap model of Go slices (`Model/Slice.lean`):

  * `C04_source_isolated`   after the stream was built from the caller's slice `s`, ANY sequence of writes the caller
                            makes through `s` (any indices, any values, any number) leaves what the stream's own slice
                            shows equal to `s`'s contents at construction - for every heap and every valid slice
  * `C04_source_snapshot`   … also writes through any other slice of the caller's heap (sub-slices, the spare capacity,
                            other arrays): nothing that existed before the stream was built reaches the stream's array
  * `C04_witness_aliased`   the variant without the copy (seeded defect C04r9-1 = C18r9-2: `slc: slice`) shows the
                            caller's later writes

The correspondence check overwrites the caller's buffer after building the stream (`L src slice` / `L src just`
cases, and the pipe family's `concat`, which hands its slice of streams to `Just`).
-/
import ShpanVerif.Model.Slice
import ShpanVerif.Proofs.SliceLemmas

namespace ShpanVerif.Props.C04Source
open ShpanVerif.Model.Slice ShpanVerif.Proofs.SliceLemmas

variable {α : Type} [Inhabited α]

/-- `stream.Just(xs...)` / `stream.FromSlice(xs)`: the provider's slice is a clone of the caller's. -/
def justSource (h : Heap α) (s : Slice) : Heap α × Slice := clone h s

/-- the seeded variant: the provider keeps the caller's slice itself -/
def justSourceAliased (h : Heap α) (s : Slice) : Heap α × Slice := (h, s)

/-- one write the caller makes later: `t[i] = v` through some slice `t` it holds -/
structure Write (α : Type) where
  through : Slice
  idx : Nat
  val : α

def applyWrites (h : Heap α) (ws : List (Write α)) : Heap α :=
  ws.foldl (fun h w => setIdx h w.through w.idx w.val) h

omit [Inhabited α] in
theorem length_writeRange (h : Heap α) (a i : Nat) (vs : List α) : (writeRange h a i vs).length = h.length := by
  simp [writeRange]

omit [Inhabited α] in
theorem length_setIdx (h : Heap α) (s : Slice) (i : Nat) (v : α) : (setIdx h s i v).length = h.length := by
  unfold setIdx; split <;> simp [length_writeRange]

omit [Inhabited α] in
theorem arrOf_setIdx_ne (h : Heap α) (s : Slice) (i : Nat) (v : α) {b : Nat} (hne : s.arr ≠ b) :
    arrOf (setIdx h s i v) b = arrOf h b := by
  unfold setIdx
  split
  · unfold writeRange; exact arrOf_set_ne hne
  · rfl

omit [Inhabited α] in
/-- writes through slices whose arrays all existed before array `b` was allocated leave array `b` alone -/
theorem arrOf_applyWrites (b : Nat) :
    ∀ (ws : List (Write α)) (h : Heap α), (∀ w ∈ ws, w.through.arr < b) → arrOf (applyWrites h ws) b = arrOf h b := by
  intro ws
  induction ws with
  | nil => intro h _; rfl
  | cons w ws ih =>
    intro h hall
    have hw := hall w (by simp)
    simp only [applyWrites, List.foldl_cons]
    have := ih (setIdx h w.through w.idx w.val) (fun x hx => hall x (by simp [hx]))
    simp only [applyWrites] at this
    rw [this, arrOf_setIdx_ne h w.through w.idx w.val (Nat.ne_of_lt hw)]

/-- **C04 (a slice-sourced stream is a snapshot)**: whatever the caller writes afterwards through slices of the heap it
had when it built the stream (`through.arr < h.length`: every array that existed then), the stream's slice still shows
the contents the caller's slice had at construction. -/
theorem C04_source_snapshot (h : Heap α) (s : Slice) (ws : List (Write α))
    (hold : ∀ w ∈ ws, w.through.arr < h.length) :
    view (applyWrites (justSource h s).1 ws) (justSource h s).2 = view h s := by
  unfold justSource clone
  generalize hc : view h s = cells
  have hfst : (allocWith h cells 0).1 = h ++ [cells] := by simp [allocWith]
  have hsnd : (allocWith h cells 0).2 = { arr := h.length, off := 0, len := cells.length, cap := cells.length } := by
    simp [allocWith]
  rw [hfst, hsnd]
  unfold view
  dsimp only
  rw [arrOf_applyWrites h.length ws _ hold, arrOf_append_new, List.drop_zero]
  exact List.take_of_length_le (Nat.le_refl _)

/-- **C04 (… in particular writes through the very slice the stream was built from)**, for every valid slice. -/
theorem C04_source_isolated (h : Heap α) (s : Slice) (w : s.WF h) (ws : List (Nat × α)) :
    view (applyWrites (justSource h s).1 (ws.map (fun p => ⟨s, p.1, p.2⟩))) (justSource h s).2 = view h s := by
  by_cases hlt : s.arr < h.length
  · exact C04_source_snapshot h s _ (by intro x hx; rcases List.mem_map.1 hx with ⟨p, _, rfl⟩; exact hlt)
  · -- a slice over no array is empty: its writes are no-ops
    have hdeg := WF_degenerate w (Nat.le_of_not_lt hlt)
    have hnop : ∀ (ws : List (Nat × α)) (h' : Heap α),
        applyWrites h' (ws.map (fun p => (⟨s, p.1, p.2⟩ : Write α))) = h' := by
      intro ws
      induction ws with
      | nil => intro h'; rfl
      | cons p ws ih =>
        intro h'
        simp only [List.map_cons, applyWrites, List.foldl_cons]
        have : setIdx h' s p.1 p.2 = h' := by
          unfold setIdx
          have : ¬ p.1 < s.len := by omega
          simp [this]
        rw [this]
        exact ih h'
    rw [hnop]
    have := (allocWith_view h (view h s))
    exact this
where
  allocWith_view (h : Heap α) (cells : List α) : view (allocWith h cells 0).1 (allocWith h cells 0).2 = cells := by
    simp [allocWith, view, arrOf_append_new]

/-- **Witness (no copy)**: caller's slice `[1,2,3]`; the stream is built; the caller then writes 90, 91, 92.  The
modelled source still shows `[1,2,3]`, the aliased variant shows `[90,91,92]`. -/
theorem C04_witness_aliased :
    let h : Heap Nat := [[1, 2, 3]]
    let s : Slice := { arr := 0, off := 0, len := 3, cap := 3 }
    let ws : List (Write Nat) := [⟨s, 0, 90⟩, ⟨s, 1, 91⟩, ⟨s, 2, 92⟩]
    s.WF h ∧
    view (applyWrites (justSource h s).1 ws) (justSource h s).2 = [1, 2, 3] ∧
    view (applyWrites (justSourceAliased h s).1 ws) (justSourceAliased h s).2 = [90, 91, 92] := by
  decide

end ShpanVerif.Props.C04Source
