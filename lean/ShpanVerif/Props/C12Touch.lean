/-
C12 — the class lemma behind `MidnightsOK` (closes the "NOT proved" item of Props/C12.lean / notes/C12.md).

`MidnightsOK z k` (hypothesis of `C12_calendar`) was so far established per zone by hand (`fixed_offset_MidnightsOK`,
`dstZone_MidnightsOK`) or per instant by the executable `checkMid`.  Here it is derived for a whole CLASS of zone tables
from three decidable conditions on the finite transition list (definitions in Proofs/PeriodTouch.lean):

  * `NoTouch z`  : for every offset change `(w, x → y)` the skipped (`y > x`) / repeated (`y < x`) local interval
                   `[min (w+x) (w+y), max (w+x) (w+y))` contains no local midnight `L * 86400`, for any day `L`
                   (`noTouchTr_iff`).  Half-open is the exact shape for Go's two-lookup `time.Date`: a midnight AT
                   the lower end is skipped resp. resolved to the second occurrence (D14); a midnight at the upper end
                   exists exactly once and Go finds it.
  * `Spaced B z` : every offset lies strictly between `-B` and `B` and consecutive transitions are `≥ 2B` seconds apart
                   (`B = 86400`: offsets below 24 h, transitions at least 48 h apart).
  * `NoSpill z`  : (week kind only) for every skip of `Δ = y - x` seconds that begins on a Monday: `time.Date` resolves
                   a wall clock `v` inside the skipped interval to an instant showing `v + Δ` (if `v ≥ w`) or `v - Δ`
                   (if `v < w`); that reading is still on the Monday which `t.AddDate(0,0,-weekday+1)` asks for
                   (`noSpillTr_iff`).

Main theorems
  * `no_midnight_touch_MidnightsOK` : `ZoneSorted z → Spaced B z → NoTouch z → ∀ k, (k = .week → NoSpill z) →
                                       MidnightsOK z k`
  * `no_period_start_touch_MidnightsOK` : the same per kind from `NoTouchStarts z k` (only the midnights that START a
                                       period of kind `k` must be untouched; decided by `noTouchStarts (gridOf k) z`).
  * `C12_calendar_noTouch`, `C12_calendar_noTouchStarts` : … `→ Tiles (start k z) (end k z)`, every calendar kind,
                                       every instant.
  * `C12_stream_calendar_noTouch`   : the generator emits exactly the period starts and terminates, same hypotheses.
Both extra hypotheses are NECESSARY (the statements without them are kept as `def … : Prop` and refuted):
  * `no_midnight_touch_unspaced_statement_fails` : a sorted table with transitions 2 h apart, `NoTouch`, `NoSpill`,
     offsets below 24 h, in which `time.Date(1970-01-01 00:00)` answers an instant showing 01:00.
  * `no_midnight_touch_week_statement_fails`     : a sorted, spaced, `NoTouch` table (UTC+1 → UTC+2, 22:30 → 23:30 on a
     Monday) in which the week period of a Wednesday 23:00 starts on TUESDAY and `start (start t) ≠ start t`
     (`week_spill_idempotence_fails`; the "latent" finding of notes/C12.md, now with a model-level witness).
Non-vacuity: `nyZone` (America/New_York 2023–2024, four transitions) satisfies all hypotheses by `decide`; the D14
witness zone does not satisfy `NoTouch`.
-/
import ShpanVerif.Props.C12
import ShpanVerif.Proofs.PeriodTouch

namespace ShpanVerif.Props.C12

open ShpanVerif.Model.Period ShpanVerif.Proofs.Period

/-! ## the class lemma -/

/-- No offset change's skipped/repeated local interval `[min, max)` contains a local midnight that starts a period of
kind `k`. -/
def NoTouchStarts (z : Zone) (k : Kind) : Prop := ∀ P, IsStartDay k P → NoTouchAt z P

theorem NoTouchStarts.of_noTouch {z : Zone} (h : NoTouch z) (k : Kind) : NoTouchStarts z k := fun P _ => h.at P

/-- executable form: `noTouchStarts (gridOf k) z = true` decides `NoTouchStarts z k` (soundly) -/
theorem NoTouchStarts.of_check {z : Zone} {k : Kind} (h : noTouchStarts (gridOf k) z = true) : NoTouchStarts z k :=
  fun P hP => noTouchStarts_sound h P hP

/-- **The class lemma, per kind**: a sorted, spaced zone none of whose offset changes touches a local midnight that is
a period start of kind `k` has well-behaved period-start midnights (for weeks: plus `NoSpill` for the `AddDate`
intermediate). -/
theorem no_period_start_touch_MidnightsOK {B : Int} {z : Zone} {k : Kind} (hs : ZoneSorted z) (hsp : Spaced B z)
    (hn : NoTouchStarts z k) (hw : k = .week → NoSpill z) : MidnightsOK z k :=
  ⟨fun P hP => noTouchAt_MidOK hs hsp (hn P hP),
   fun hk => by subst hk; exact noSpill_WeekInterOK hs hsp (fun P hP => hn P hP) (hw rfl)⟩

/-- **Zones none of whose offset changes touches a local midnight have well-behaved midnights** — every day, hence
every period start of every kind.  `Spaced B z` is the separation hypothesis (needed, see below); for weeks the `AddDate`
intermediate additionally needs `NoSpill z` (needed, see below). -/
theorem no_midnight_touch_MidnightsOK {B : Int} {z : Zone} (hs : ZoneSorted z) (hsp : Spaced B z) (hn : NoTouch z)
    (k : Kind) (hw : k = .week → NoSpill z) : MidnightsOK z k :=
  no_period_start_touch_MidnightsOK hs hsp (NoTouchStarts.of_noTouch hn k) hw

/-- all kinds at once -/
theorem no_midnight_touch_MidnightsOK_all {B : Int} {z : Zone} (hs : ZoneSorted z) (hsp : Spaced B z) (hn : NoTouch z)
    (hw : NoSpill z) : ∀ k, MidnightsOK z k :=
  fun k => no_midnight_touch_MidnightsOK hs hsp hn k (fun _ => hw)

/-- the kinds other than week need no `NoSpill` -/
theorem no_midnight_touch_MidnightsOK_nonweek {B : Int} {z : Zone} (hs : ZoneSorted z) (hsp : Spaced B z)
    (hn : NoTouch z) {k : Kind} (hk : k ≠ .week) : MidnightsOK z k :=
  no_midnight_touch_MidnightsOK hs hsp hn k (fun h => absurd h hk)

/-- **C12 for every calendar kind in every zone of the class**: all six tiling laws, every instant. -/
theorem C12_calendar_noTouch {B : Int} {k : Kind} (hk : ∀ d, k ≠ .fixed d) (z : Zone) (hs : ZoneSorted z)
    (hsp : Spaced B z) (hn : NoTouch z) (hw : k = .week → NoSpill z) : Tiles (start k z) («end» k z) :=
  C12_calendar hk z (no_midnight_touch_MidnightsOK hs hsp hn k hw)

/-- the per-kind form: only the period-start midnights of kind `k` must be untouched -/
theorem C12_calendar_noTouchStarts {B : Int} {k : Kind} (hk : ∀ d, k ≠ .fixed d) (z : Zone) (hs : ZoneSorted z)
    (hsp : Spaced B z) (hn : NoTouchStarts z k) (hw : k = .week → NoSpill z) : Tiles (start k z) («end» k z) :=
  C12_calendar hk z (no_period_start_touch_MidnightsOK hs hsp hn hw)

/-- … and the timestamp generator emits exactly the period starts of `[start from, to)` and terminates. -/
theorem C12_stream_calendar_noTouch {B : Int} {k : Kind} (hk : ∀ d, k ≠ .fixed d) (z : Zone) (hs : ZoneSorted z)
    (hsp : Spaced B z) (hn : NoTouch z) (hw : k = .week → NoSpill z)
    (from_ to : Int) (fuel : Nat) (hf : (to - start k z from_).toNat ≤ fuel) :
    (alignedTimestamps (start k z) («end» k z) from_ to fuel).Pairwise (· < ·) ∧
    (∀ x, x ∈ alignedTimestamps (start k z) («end» k z) from_ to fuel ↔
      (start k z x = x ∧ start k z from_ ≤ x ∧ x < to)) ∧
    (∀ fuel', (to - start k z from_).toNat ≤ fuel' →
      alignedTimestamps (start k z) («end» k z) from_ to fuel' =
        alignedTimestamps (start k z) («end» k z) from_ to fuel) :=
  C12_stream_calendar hk z (no_midnight_touch_MidnightsOK hs hsp hn k hw) from_ to fuel hf

/-! ## non-vacuity: a realistic DST table -/

/-- America/New_York 2023–2024: EST (−18000) before 2023-03-12T07:00Z, then EDT (−14400), back to EST at
2023-11-05T06:00Z, EDT from 2024-03-10T07:00Z, EST from 2024-11-03T06:00Z
(02:00 → 03:00 and 02:00 → 01:00 local: far from midnight). -/
def nyZone : Zone :=
  ⟨-18000, [(1678604400, -14400), (1699164000, -18000), (1710054000, -14400), (1730613600, -18000)]⟩

theorem nyZone_sorted : ZoneSorted nyZone := by
  unfold ZoneSorted nyZone alpha; simp [sortedFrom]

/-- offsets below 24 h and transitions ≥ 48 h apart; also with the tighter `B` = 16 h (transitions ≥ 32 h apart) -/
theorem nyZone_spaced : Spaced 86400 nyZone ∧ Spaced 57600 nyZone := by decide
theorem nyZone_noTouch : NoTouch nyZone := by decide
theorem nyZone_noSpill : NoSpill nyZone := by decide

theorem nyZone_MidnightsOK (k : Kind) : MidnightsOK nyZone k :=
  no_midnight_touch_MidnightsOK_all nyZone_sorted nyZone_spaced.1 nyZone_noTouch nyZone_noSpill k

/-- all six laws hold at every instant of that zone, for every calendar kind -/
example : Tiles (start .day nyZone) («end» .day nyZone) ∧ Tiles (start .week nyZone) («end» .week nyZone) ∧
    Tiles (start .year nyZone) («end» .year nyZone) :=
  ⟨C12_day _ (nyZone_MidnightsOK _), C12_week _ (nyZone_MidnightsOK _), C12_year _ (nyZone_MidnightsOK _)⟩

/-- Antarctica/Troll 2024 (UTC+0 ⇄ UTC+2: local 01:00 → 03:00 on Sunday 2024-03-31, 03:00 → 01:00 on 2024-10-27): a
two-hour skip; the skipped wall clocks are resolved two hours later, still on the same day. -/
example : ∀ k, MidnightsOK ⟨0, [(1711846800, 7200), (1729990800, 0)]⟩ k :=
  no_midnight_touch_MidnightsOK_all (B := 57600)
    (by unfold ZoneSorted alpha; simp [sortedFrom]) (by decide) (by decide) (by decide)

/-- the hand-proved `dstZone_MidnightsOK` is an instance of the class lemma -/
example (k : Kind) : MidnightsOK dstZone k :=
  no_midnight_touch_MidnightsOK_all (B := 86400)
    (by unfold ZoneSorted dstZone alpha; simp [sortedFrom]) (by decide) (by decide) (by decide) k

/-- the D14 witness zone (local 00:00 → 01:00) is outside the class: its skipped interval `[0, 3600)` of 1970-01-01
contains that day's midnight … -/
theorem witnessZone_touches : ¬ NoTouch witnessZone := by decide
/-- … although it is sorted (`C12_witness_D14_sorted`) and spaced: `NoTouch` is the hypothesis that excludes D14. -/
example : Spaced 86400 witnessZone := by decide

/-- Per kind: the skipped midnight of the D14 witness zone is 1970-01-01, a Thursday — it starts a day, month, quarter,
half-year and year, but not a week.  So the WEEK periods of that zone do tile (all six laws, every instant) … -/
theorem witnessZone_week_ok : Tiles (start .week witnessZone) («end» .week witnessZone) :=
  C12_calendar_noTouchStarts (B := 86400) (by intro d; exact Kind.noConfusion) witnessZone C12_witness_D14_sorted
    (by decide) (NoTouchStarts.of_check (by decide)) (fun _ => by decide)
/-- … while the executable per-kind check rejects the other kinds. -/
example : noTouchStarts (gridOf .day) witnessZone = false ∧ noTouchStarts (gridOf .month) witnessZone = false ∧
    noTouchStarts (gridOf .year) witnessZone = false := by decide

/-- The same skip (local 00:00 → 01:00) on 1970-01-02 touches no month start: months, quarters, half-years, years and
weeks tile; days do not. -/
example : Tiles (start .month ⟨-10800, [(97200, -7200)]⟩) («end» .month ⟨-10800, [(97200, -7200)]⟩) :=
  C12_calendar_noTouchStarts (B := 86400) (by intro d; exact Kind.noConfusion) _
    (by unfold ZoneSorted alpha; simp [sortedFrom]) (by decide) (NoTouchStarts.of_check (by decide))
    (fun h => by cases h)

/-- The upper end of the interval is open: a skip that ENDS at midnight (23:00 → 00:00) is inside the class … -/
example : NoTouch ⟨-3600, [(0, 0)]⟩ := by decide
/-- … a skip that STARTS at midnight (00:00 → 01:00, D14) or a repeat reaching back TO midnight (01:00 → 00:00) is not. -/
example : ¬ NoTouch ⟨0, [(0, 3600)]⟩ ∧ ¬ NoTouch ⟨3600, [(0, 0)]⟩ := by decide

/-! ## the separation hypothesis is needed -/

/-- The class lemma without `Spaced` (even with offsets below 24 h and `NoSpill`). -/
def no_midnight_touch_unspaced_statement : Prop :=
  ∀ z : Zone, ZoneSorted z → offsBounded 86400 z = true → NoTouch z → NoSpill z → ∀ k, MidnightsOK z k

/-- UTC−3 until 02:00Z, UTC−6 until 04:00Z, then UTC−5 (local 23:00 → 20:00, then 22:00 → 23:00 on 1969-12-31):
no local midnight is touched, the local date is monotone, local midnight of 1970-01-01 exists exactly once (05:00Z);
but `time.Date`'s first lookup (at 00:00Z: UTC−3) and second lookup (at 03:00Z: UTC−6) both miss the offset in effect
at the answer, so it returns 06:00Z = 01:00 local. -/
def closeZone : Zone := ⟨-10800, [(7200, -21600), (14400, -18000)]⟩

theorem closeZone_facts : ZoneSorted closeZone ∧ offsBounded 86400 closeZone = true ∧ NoTouch closeZone ∧
    NoSpill closeZone ∧ ¬ Spaced 86400 closeZone := by
  refine ⟨by unfold ZoneSorted closeZone alpha; simp [sortedFrom], by decide, by decide, by decide, by decide⟩

theorem closeZone_mid : mid closeZone 0 = 21600 ∧ localSecs closeZone (mid closeZone 0) = 3600 := by decide

theorem no_midnight_touch_unspaced_statement_fails : ¬ no_midnight_touch_unspaced_statement := by
  intro h
  obtain ⟨a, b, c, d, _⟩ := closeZone_facts
  have := ((h closeZone a b c d .day).1 0 rfl).1
  rw [closeZone_mid.2] at this
  exact absurd this (by decide)

/-! ## `NoSpill` is needed for weeks (latent defect of the week start, no instance in the tz database) -/

/-- The class lemma for weeks without `NoSpill`. -/
def no_midnight_touch_week_statement : Prop :=
  ∀ (B : Int) (z : Zone), ZoneSorted z → Spaced B z → NoTouch z → MidnightsOK z .week

/-- UTC+1 until Monday 1970-01-05 21:30Z, then UTC+2: local 22:30 → 23:30 on that Monday, no midnight touched. -/
def spillZone : Zone := ⟨3600, [(423000, 7200)]⟩

theorem spillZone_facts : ZoneSorted spillZone ∧ Spaced 86400 spillZone ∧ NoTouch spillZone ∧ ¬ NoSpill spillZone := by
  refine ⟨by unfold ZoneSorted spillZone alpha; simp [sortedFrom], by decide, by decide, by decide⟩

/-- Monday (day 4) 23:00 lies in the skipped interval; `time.Date` resolves it to Tuesday 00:00 (day 5). -/
theorem spillZone_resolve : localDay spillZone (goDateSec spillZone (4 * 86400 + 82800)) = 5 := by decide

theorem no_midnight_touch_week_statement_fails : ¬ no_midnight_touch_week_statement := by
  intro h
  obtain ⟨a, b, c, _⟩ := spillZone_facts
  have := (h 86400 spillZone a b c).2 rfl 4 82800 (by decide) (by decide) (by decide)
  rw [spillZone_resolve] at this
  exact absurd this (by decide)

/-- The consequence for the code: `t` = Wednesday 1970-01-07 23:00 local.  `GetStartTime` = Tuesday 00:00 local (not
Monday), and applying it again gives Monday 00:00: idempotence fails, no midnight being skipped or repeated. -/
theorem week_spill_start :
    start .week spillZone (594000 * NS) = 424800 * NS ∧ start .week spillZone (424800 * NS) = 342000 * NS := by decide

theorem week_spill_idempotence_fails :
    start .week spillZone (start .week spillZone (594000 * NS)) ≠ start .week spillZone (594000 * NS) := by
  rw [week_spill_start.1, week_spill_start.2]; decide

theorem week_spill_not_tiles : ¬ Tiles (start .week spillZone) («end» .week spillZone) :=
  fun h => week_spill_idempotence_fails (h.idem (594000 * NS) trivial)

end ShpanVerif.Props.C12
