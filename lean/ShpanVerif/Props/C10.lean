/-
C10 — tsquery is type-sound: rows match the declared schema; ill-typed queries are rejected.

Model: Model/Query.lean (values, operator tables), Model/QueryExec.lean (filters, joins, datasources).
All theorems hold for every float carrier `D` and every `Ops D` (type soundness does not depend on arithmetic).

Main theorems
* `C10_evalVal_tag_report`, `C10_evalVal_tag_datasource` — a planned field value only yields values of its declared type,
  nil only if declared optional (all ten value kinds, both packages).
* `C10_sound` (= `C10_full_statement_holds`) — for EVERY query tree of the modelled language (both packages, all
  row-wise filters, the stream filters: aligner of both packages with and without fill mode, delta and rate filter;
  the three joins, FromDatasource/ToDatasource, the reduction datasource with its aligner and its
  empty-source fallback): over schema-conforming inputs `Execute` is an error or yields a result whose metadata has
  unique non-empty URNs and valid types, whose delivered rows all conform, and whose timestamps are strictly
  increasing.  `C10_collected_rows_conform`: what the terminal returns is either a failure or conforming rows.
* `C10_rejects_*` — each documented typing rule as an explicit implication.
* `C10_no_pull_on_error` — the outcome of planning (error class or metadata) is the same for the query with all its
  input rows erased: no record is consulted before `Execute` returns.
* `C10_filter_chain` — `NewFilteredDataSource(ds, f1, …, fn)` with row-wise and stream filters mixed is the
  sequential application of the filters, and is sound.
Not in the model (hence not in the theorems): StaticStructDatasource (reflection), calendar alignment periods (only
fixed periods; a zero-value `AlignerFilter{}` without a period is not constructible through the constructors and is
not modelled), FilteredMulti*/FilterAware*.
-/
import ShpanVerif.Proofs.QueryJoinSound
import ShpanVerif.Proofs.QueryNoPull
import ShpanVerif.Proofs.QueryReduce
import ShpanVerif.Proofs.QueryXFilters

namespace ShpanVerif.Props.C10
open ShpanVerif.Model.Query ShpanVerif.Proofs.Query List

variable {D : Type} (O : Ops D)

/-- some `Ops` instance for the concrete examples (they do no float arithmetic) -/
def unitOps : Ops Unit where
  add := fun _ _ => ()
  sub := fun _ _ => ()
  mul := fun _ _ => ()
  div := fun _ _ => ()
  eq := fun _ _ => true
  lt := fun _ _ => false
  le := fun _ _ => true
  ofInt := fun _ => ()
  toInt := fun _ => 0
  un := fun _ _ => ()
  fmt := fun _ => ""
  parse := fun _ => none
  secs := fun _ => ()
  parseTime := fun _ => none
  sprintDec := fun _ => ""
  sprintTime := fun _ => ""

/-! ## value level -/

/-- `evalVal_tag`, report package -/
theorem C10_evalVal_tag_report (v : RVal D) (fms : List FieldMeta) (vm : ValueMeta) (f : RowFn (List (Val D)) D)
    (h : planRVal O v fms = .ok (vm, f)) (row : List (Val D)) (hrow : Conforms fms row) (x : Val D)
    (hx : f row = some x) : tagOk vm.dt vm.required x :=
  planRVal_sound O v h row hrow x hx

/-- `evalVal_tag`, datasource package -/
theorem C10_evalVal_tag_datasource (v : DVal D) (fm : FieldMeta) (vm : ValueMeta) (f : RowFn (Val D) D)
    (h : planDVal O v fm = .ok (vm, f)) (cell : Val D) (hcell : tagOk fm.dt fm.required cell) (x : Val D)
    (hx : f cell = some x) : tagOk vm.dt vm.required x :=
  planDVal_sound O v h cell hcell x hx

/-! ## query level -/

mutual
  /-- every static input of the tree is schema-conforming (valid metadata, conforming rows, increasing timestamps);
  every fixed alignment period is positive (`NewFixedAlignmentPeriod` panics otherwise) -/
  def WfR : RDs D → Prop
    | .static metas rows => StaticOkR metas rows
    | .filtered ds _ => WfR ds
    | .xfiltered ds f => WfR ds ∧ f.periodOk
    | .join _ srcs => WfRL srcs
    | .fromDs d => WfD d
  def WfRL : RDsL D → Prop
    | .nil => True
    | .cons d l => WfR d ∧ WfRL l
  def WfD : DDs D → Prop
    | .static fm rows => StaticOkD fm rows
    | .filtered d _ => WfD d
    | .xfiltered d f => WfD d ∧ f.periodOk
    | .reduction _ _ _ _ srcs => WfDL srcs
    | .fromReport r _ => WfR r
  def WfDL : DDsL D → Prop
    | .nil => True
    | .cons d l => WfD d ∧ WfDL l
end

mutual
  /-- the tree contains no reduction datasource and no stream filter (aligner / delta / rate): the fragment that has
  a reference semantics (C11) -/
  def NoRedR : RDs D → Prop
    | .static _ _ => True
    | .filtered ds _ => NoRedR ds
    | .xfiltered _ _ => False
    | .join _ srcs => NoRedRL srcs
    | .fromDs d => NoRedD d
  def NoRedRL : RDsL D → Prop
    | .nil => True
    | .cons d l => NoRedR d ∧ NoRedRL l
  def NoRedD : DDs D → Prop
    | .static _ _ => True
    | .filtered d _ => NoRedD d
    | .xfiltered _ _ => False
    | .reduction _ _ _ _ _ => False
    | .fromReport r _ => NoRedR r
end

/-- the property, for every tree (including reduction datasources) -/
def C10_full_statement : Prop :=
  ∀ (D : Type) (O : Ops D) (fix : Bool) (from_ to : Int),
    (∀ (q : RDs D) (res : RResult D), WfR q → execR O fix from_ to q = .ok res → RSound res) ∧
    (∀ (q : DDs D) (res : DResult D), WfD q → execD O fix from_ to q = .ok res → DSound res)

mutual
  theorem soundR (fix : Bool) (from_ to : Int) : ∀ (q : RDs D) (res : RResult D), WfR q →
      execR O fix from_ to q = .ok res → RSound res
    | .static metas rows, res, hw, h => by
      simp only [execR] at h
      split at h
      · simp at h
      · split at h
        · simp at h
        · rename_i hdup
          simp only [Except.ok.injEq] at h; subst h
          exact staticR_sound hw (by simpa using hdup)
    | .filtered ds fs, res, hw, h => by
      simp only [execR, bind, Except.bind] at h
      split at h
      · simp at h
      · rename_i r1 h1
        exact applyRFs_sound O fs (soundR fix from_ to ds r1 hw h1) h
    | .xfiltered ds f, res, hw, h => by
      simp only [execR, bind, Except.bind] at h
      split at h
      · simp at h
      · rename_i r1 h1
        exact applyRXF_sound O hw.2 (soundR fix from_ to ds r1 hw.1 h1) h
    | .join jt srcs, res, hw, h => by
      simp only [execR] at h
      split at h
      · simp at h
      · rename_i results hres
        split at h
        · simp at h
        · rename_i metas hmetas
          simp only [Except.ok.injEq] at h; subst h
          exact join_sound (soundRL fix from_ to srcs results hw hres) hmetas
    | .fromDs d, res, hw, h => by
      simp only [execR] at h
      split at h
      · simp at h
      · rename_i m s hd
        simp only [Except.ok.injEq] at h; subst h
        exact fromDs_sound (soundD fix from_ to d (m, s) hw hd)
  theorem soundRL (fix : Bool) (from_ to : Int) : ∀ (l : RDsL D) (results : List (RResult D)), WfRL l →
      execRL O fix from_ to l = .ok results → ∀ r ∈ results, RSound r
    | .nil, results, _, h => by
      simp only [execRL, Except.ok.injEq] at h; subst h; simp
    | .cons d l, results, hw, h => by
      simp only [execRL] at h
      split at h
      · simp at h
      · rename_i r hr
        split at h
        · simp at h
        · rename_i rs hrs
          simp only [Except.ok.injEq] at h; subst h
          intro r' hr'
          rcases mem_cons.mp hr' with rfl | hr'
          · exact soundR fix from_ to d _ hw.1 hr
          · exact soundRL fix from_ to l rs hw.2 hrs r' hr'
  theorem soundD (fix : Bool) (from_ to : Int) : ∀ (q : DDs D) (res : DResult D), WfD q →
      execD O fix from_ to q = .ok res → DSound res
    | .static fm rows, res, hw, h => by
      simp only [execD, Except.ok.injEq] at h; subst h
      exact staticD_sound hw
    | .filtered d fs, res, hw, h => by
      simp only [execD, bind, Except.bind] at h
      split at h
      · simp at h
      · rename_i r1 h1
        exact applyDFs_sound O fs (soundD fix from_ to d r1 hw h1) h
    | .xfiltered d f, res, hw, h => by
      simp only [execD, bind, Except.bind] at h
      split at h
      · simp at h
      · rename_i r1 h1
        exact applyDXF_sound O hw.2 (soundD fix from_ to d r1 hw.1 h1) h
    | .reduction rt period afm fb srcs, res, hw, h => by
      simp only [execD] at h
      split at h
      · simp at h
      rename_i hper
      have hp : 0 < period := by omega
      split at h
      · simp at h
      cases hal : execDLAligned O fix from_ to period srcs with
      | error e => simp [hal] at h
      | ok results =>
        have hall := soundDL fix from_ to period hp srcs results hw hal
        rw [hal] at h
        cases results with
        | nil => exact reductionFallback_sound O hp h
        | cons r0 rest =>
          simp only at h
          split at h
          · simp at h
          rename_i fm dt hmeta
          split at h
          · simp at h
          rename_i rf hrf
          obtain ⟨hnum, hmetas, hfdt, hfreq, hne, hv⟩ := reductionMeta_ok hmeta
          have hsrt : Srt (fun r : DRec D => r.ts) (((r0 :: rest).map (·.2)).map okRows) := by
            intro l hl
            simp only [map_map, mem_map, Function.comp] at hl
            obtain ⟨r, hr, rfl⟩ := hl
            exact (hall r hr).incr
          cases rest with
          | nil =>
            simp only at h
            split at h
            · rename_i hid
              simp only [Except.ok.injEq] at h; subst h
              have hs0 := hall r0 (by simp)
              have hm0 := hmetas r0.1 (by simp)
              have hdt : fm.dt = dt := by
                simp only [Bool.and_eq_true, beq_iff_eq] at hid; exact hid.2
              refine ⟨⟨hne, hv⟩, ?_, hs0.incr⟩
              intro r hr
              have := hs0.rows r hr
              rw [hm0.1, hm0.2] at this
              rw [hdt, hfreq]
              exact this
            · simp only [Except.ok.injEq] at h; subst h
              exact reduceStreams_sound O hnum hrf hfdt ⟨hne, hv⟩ (by simpa using hsrt)
          | cons r1 rest' =>
            simp only [Except.ok.injEq] at h; subst h
            exact reduceStreams_sound O hnum hrf hfdt ⟨hne, hv⟩ hsrt
    | .fromReport r urn, res, hw, h => by
      simp only [execD] at h
      split at h
      · simp at h
      · rename_i metas s hr
        split at h
        · simp at h
        · rename_i m idx hf
          simp only [Except.ok.injEq] at h; subst h
          exact toDs_sound (soundR fix from_ to r (metas, s) hw hr) hf
  theorem soundDL (fix : Bool) (from_ to period : Int) (hp : 0 < period) : ∀ (l : DDsL D) (results : List (DResult D)),
      WfDL l → execDLAligned O fix from_ to period l = .ok results → ∀ r ∈ results, DSound r
    | .nil, results, _, h => by
      simp only [execDLAligned, Except.ok.injEq] at h; subst h; simp
    | .cons d l, results, hw, h => by
      simp only [execDLAligned] at h
      split at h
      · simp at h
      · rename_i m s hd
        split at h
        · simp at h
        · split at h
          · simp at h
          · rename_i rs hrs
            simp only [Except.ok.injEq] at h; subst h
            intro r' hr'
            rcases mem_cons.mp hr' with rfl | hr'
            · exact alignStream_sound O hp (soundD fix from_ to d (m, s) hw.1 hd)
            · exact soundDL fix from_ to period hp l rs hw.2 hrs r' hr'
end

/-- **C10** for every query tree of both packages (values, all row-wise filters, the stream filters — aligner with and
without fill mode, delta, rate —, the three joins, the bridges, the reduction datasource with its aligner and its
empty-source fallback) -/
theorem C10_sound (fix : Bool) (from_ to : Int) :
    (∀ (q : RDs D) (res : RResult D), WfR q → execR O fix from_ to q = .ok res → RSound res) ∧
    (∀ (q : DDs D) (res : DResult D), WfD q → execD O fix from_ to q = .ok res → DSound res) :=
  ⟨soundR O fix from_ to, soundD O fix from_ to⟩

theorem C10_full_statement_holds : C10_full_statement :=
  fun _ O fix from_ to => C10_sound O fix from_ to

/-- what `RSound` gives for what the terminal returns: if `Collect` succeeds, every collected row conforms and the
timestamps are strictly increasing; a data-dependent failure is an error of the terminal (`collect = none`),
never a malformed row -/
theorem C10_collected_rows_conform {res : RResult D} (hs : RSound res) {rows : List (Row D)}
    (hc : collect res.2 = some rows) :
    (∀ r ∈ rows, Conforms res.1 r.vals) ∧ (rows.map (·.ts)).Pairwise (· < ·) := by
  have key : ∀ (s : RStream D) (rows : List (Row D)), collect s = some rows → rows = okRows s := by
    intro s
    induction s with
    | nil => intro rows h; simp [collect] at h; subst h; rfl
    | cons e s ih =>
      intro rows h
      cases e with
      | none => simp [collect] at h
      | some a =>
        simp only [collect, Option.map_eq_some_iff] at h
        obtain ⟨rs, hrs, rfl⟩ := h
        have := ih rs hrs
        simp [okRows] at this ⊢
        exact this
  have := key res.2 rows hc
  subst this
  exact ⟨hs.rows, hs.incr⟩


/-! ## `C10_rejects`: the documented typing rules, each as an explicit implication -/

/-- numeric expression: operands of different types are rejected -/
theorem C10_rejects_num_operand_mismatch (op : BinOp) (a b : RVal D) (fms : List FieldMeta)
    (pa pb : Planned (List (Val D)) D) (ha : planRVal O a fms = .ok pa) (hb : planRVal O b fms = .ok pb)
    (hne : pa.1.dt ≠ pb.1.dt) : ∃ e, planRVal O (.num op a b) fms = .error e := by
  simp only [planRVal, ha, hb, bind, Except.bind, numK]
  split
  · exact ⟨_, rfl⟩
  · split
    · exact ⟨_, rfl⟩
    · simp [hne]

/-- numeric expression: a non-numeric operand is rejected -/
theorem C10_rejects_num_non_numeric (op : BinOp) (a b : RVal D) (fms : List FieldMeta)
    (pa pb : Planned (List (Val D)) D) (ha : planRVal O a fms = .ok pa) (hb : planRVal O b fms = .ok pb)
    (hnn : pa.1.dt.isNumeric = false ∨ pb.1.dt.isNumeric = false) : ∃ e, planRVal O (.num op a b) fms = .error e := by
  simp only [planRVal, ha, hb, bind, Except.bind, numK]
  rcases hnn with h | h
  · simp [h]
  · split
    · exact ⟨_, rfl⟩
    · simp [h]

/-- condition value: operands of different types are rejected -/
theorem C10_rejects_cond_operand_mismatch (op : CondOp) (a b : RVal D) (fms : List FieldMeta)
    (pa pb : Planned (List (Val D)) D) (ha : planRVal O a fms = .ok pa) (hb : planRVal O b fms = .ok pb)
    (hne : pa.1.dt ≠ pb.1.dt) : planRVal O (.cond op a b) fms = .error .condTypeMismatch := by
  simp [planRVal, ha, hb, bind, Except.bind, condK, hne]

/-- logical expression: a non-boolean or optional operand is rejected -/
theorem C10_rejects_logic_operand (op : LogicOp) (a b : RVal D) (fms : List FieldMeta)
    (pa pb : Planned (List (Val D)) D) (ha : planRVal O a fms = .ok pa) (hb : planRVal O b fms = .ok pb)
    (hbad : pa.1.required = false ∨ pb.1.required = false ∨ pa.1.dt ≠ .boolean ∨ pb.1.dt ≠ .boolean) :
    ∃ e, planRVal O (.logic op a b) fms = .error e := by
  simp only [planRVal, ha, hb, bind, Except.bind, logicK]
  repeat (split; · exact ⟨_, rfl⟩)
  rename_i h1 h2 h3 h4
  simp only [Bool.not_eq_true, Bool.not_eq_false, ne_eq, Decidable.not_not] at h1 h2 h3 h4
  rcases hbad with h | h | h | h <;> simp_all

/-- condition filter: a non-boolean or optional condition is rejected -/
theorem C10_rejects_where_condition (fix : Bool) (v : RVal D) (res : RResult D) (p : Planned (List (Val D)) D)
    (hp : planRVal O v res.1 = .ok p) (hbad : p.1.dt ≠ .boolean ∨ p.1.required = false) :
    ∃ e, applyRF O fix (.where_ v) res = .error e := by
  simp only [applyRF, whereRF, hp]
  rcases hbad with h | h
  · simp [h]
  · split
    · exact ⟨_, rfl⟩
    · simp [h]

/-- nvl: an optional alternative is rejected (a required operand is demanded) -/
theorem C10_rejects_nvl_optional_alternative (s alt : RVal D) (fms : List FieldMeta)
    (ps pa : Planned (List (Val D)) D) (hs : planRVal O s fms = .ok ps) (ha : planRVal O alt fms = .ok pa)
    (hopt : pa.1.required = false) : ∃ e, planRVal O (.nvl s alt) fms = .error e := by
  simp only [planRVal, hs, ha, bind, Except.bind, nvlK]
  split
  · exact ⟨_, rfl⟩
  · simp [hopt]

/-- selector: a non-boolean or optional selector is rejected -/
theorem C10_rejects_selector (c t f : RVal D) (fms : List FieldMeta) (pc pt pf : Planned (List (Val D)) D)
    (hc : planRVal O c fms = .ok pc) (ht : planRVal O t fms = .ok pt) (hf : planRVal O f fms = .ok pf)
    (hbad : pc.1.dt ≠ .boolean ∨ pc.1.required = false) : ∃ e, planRVal O (.sel c t f) fms = .error e := by
  simp only [planRVal, hc, ht, hf, bind, Except.bind, selK]
  rcases hbad with h | h
  · simp [h]
  · split
    · exact ⟨_, rfl⟩
    · simp [h]

/-- an unknown URN is rejected -/
theorem C10_rejects_unknown_urn (urn : String) (fms : List FieldMeta) (h : ∀ m ∈ fms, m.urn ≠ urn) :
    planRVal O (.ref urn) fms = .error .refNotFound := by
  have : findField urn fms = none := by
    cases hf : findField urn fms with
    | none => rfl
    | some p =>
      obtain ⟨m, i⟩ := p
      obtain ⟨hm, hu⟩ := findField_spec hf
      exact absurd hu (h m (mem_of_getElem? hm))
  simp [planRVal, refR, this]

/-- an unsupported cast (to/from boolean or timestamp, or an invalid type) is rejected -/
theorem C10_rejects_cast (s : RVal D) (t : DataType) (fms : List FieldMeta) (ps : Planned (List (Val D)) D)
    (hs : planRVal O s fms = .ok ps) (hne : ps.1.dt ≠ t)
    (hbad : ps.1.dt = .boolean ∨ t = .boolean ∨ ps.1.dt = .timestamp ∨ t = .timestamp) :
    planRVal O (.cast s t) fms = .error .castUnsupported := by
  have : castFunc O ps.1.dt t = none := by
    simp only [castFunc, hne, if_false]
    rcases hbad with h | h | h | h
    · simp [h]
    · simp [h]
    · split
      · rfl
      · simp [h]
    · split
      · rfl
      · simp [h]
  simp [planRVal, hs, bind, Except.bind, castK, this]

/-- append: a URN that already exists is rejected -/
theorem C10_rejects_append_duplicate_urn (v : RVal D) (afm : AddFieldMeta) (res : RResult D)
    (h : hasField res.1 afm.urn = true) : ∃ e, appendF O v afm res = .error e := by
  simp only [appendF]
  split
  · exact ⟨_, rfl⟩
  · simp [h]

/-- replace (fix 946fce4): a new URN that collides with another existing field is rejected -/
theorem C10_rejects_replace_duplicate_urn (urn : String) (v : RVal D) (afm : AddFieldMeta) (res : RResult D)
    (hne : afm.urn ≠ urn) (h : hasField res.1 afm.urn = true) : ∃ e, replaceF O urn v afm res = .error e := by
  simp only [replaceF]
  split
  · exact ⟨_, rfl⟩
  · split
    · exact ⟨_, rfl⟩
    · rename_i fm fn hp
      obtain ⟨hu, _⟩ := planPrepare_sound O hp
      simp [hu, hne, h]

/-- a field added with an empty URN is rejected -/
theorem C10_rejects_empty_urn (v : RVal D) (afm : AddFieldMeta) (fms : List FieldMeta) (h : afm.urn = "") :
    ∃ e, (planRVal O v fms >>= prepareK afm) = .error e := by
  simp only [bind, Except.bind]
  split
  · exact ⟨_, rfl⟩
  · simp [prepareK, newFieldMeta, h]

/-- select: two selected fields with the same URN are rejected -/
theorem C10_rejects_select_duplicate_urn (v1 v2 : RVal D) (a1 a2 : AddFieldMeta) (rest : List (RVal D × AddFieldMeta))
    (res : RResult D) (h : a2.urn = a1.urn) : ∃ e, selectF O ((v1, a1) :: (v2, a2) :: rest) res = .error e := by
  simp only [selectF, isEmpty_cons, Bool.false_eq_true, ↓reduceIte, selectPlan, contains_nil]
  split
  · exact ⟨_, rfl⟩
  · rename_i hs
    split at hs
    · simp at hs
    · simp [selectPlan, h] at hs

/-- static datasource: duplicate URNs in the declared schema are rejected -/
theorem C10_rejects_static_duplicate_urn (fix : Bool) (from_ to : Int) (metas : List FieldMeta) (rows : List (Row D))
    (h : ¬ (metas.map (·.urn)).Nodup) : ∃ e, execR O fix from_ to (.static metas rows) = .error e := by
  simp only [execR]
  split
  · exact ⟨_, rfl⟩
  · split
    · exact ⟨_, rfl⟩
    · rename_i hd
      exact absurd (hasDupUrn_false (by simpa using hd)).1 h

theorem relaxB_urns : ∀ (nbs : List Bool) (lists : List (List FieldMeta)), nbs.length = lists.length →
    (relaxB nbs lists).flatten.map (·.urn) = lists.flatten.map (·.urn)
  | [], [], _ => rfl
  | nb :: nbs, f :: fs, h => by
    simp only [relaxB, flatten_cons, map_append, map_map]
    rw [relaxB_urns nbs fs (by simpa using h)]
    congr 1
    exact map_congr_left fun m _ => relax_urn nb m
  | [], _ :: _, h => by simp at h
  | _ :: _, [], h => by simp at h

/-- join: sources that share a URN are rejected (D18) -/
theorem C10_rejects_join_shared_urn (jt : JoinType) (results : List (RResult D))
    (h : ¬ ((results.map (·.1)).flatten.map (·.urn)).Nodup) :
    ∃ e, joinMetas jt results.length 0 (results.map (·.1)) [] = .error e := by
  cases hj : joinMetas jt results.length 0 (results.map (·.1)) [] with
  | error e => exact ⟨e, rfl⟩
  | ok out =>
    obtain ⟨rfl, hnd, _⟩ := joinMetas_ok jt results.length 0 _ [] out hj
    rw [relaxB_urns _ _ (by simp [flagsFrom_length])] at hnd
    exact absurd hnd h

theorem reduceCheckRest_ok {dt : DataType} : ∀ {ms : List FieldMeta}, reduceCheckRest dt ms = .ok () →
    ∀ m ∈ ms, m.dt = dt ∧ m.required = true
  | [], _, m, hm => by simp at hm
  | m0 :: ms, h, m, hm => by
    simp only [reduceCheckRest] at h
    split at h
    · simp at h
    · split at h
      · simp at h
      · rename_i h1 h2
        rcases mem_cons.mp hm with rfl | hm
        · exact ⟨by simpa using h1, by simpa using h2⟩
        · exact reduceCheckRest_ok h m hm

/-- reduce: a non-numeric or optional field among the reduced ones is rejected -/
theorem C10_rejects_reduce_non_numeric_or_optional (rt : RedType) (urns : Option (List String)) (fms : List FieldMeta)
    (h : ∃ p ∈ reducePick urns fms, p.1.dt.isNumeric = false ∨ p.1.required = false) :
    ∃ e, reduceR O rt urns fms = .error e := by
  cases hr : reduceR O rt urns fms with
  | error e => exact ⟨e, rfl⟩
  | ok p =>
    exfalso
    obtain ⟨m0, i0, rest, rf, unit, hpick, hnum, hreq, hrest, _, _⟩ := reduceR_ok O hr
    obtain ⟨q, hq, hbad⟩ := h
    rw [hpick] at hq
    rcases mem_cons.mp hq with rfl | hq
    · rcases hbad with hb | hb <;> simp_all
    · have := reduceCheckRest_ok hrest q.1 (mem_map.mpr ⟨q, hq, rfl⟩)
      rcases hbad with hb | hb
      · rw [this.1, hnum] at hb; simp at hb
      · rw [this.2] at hb; simp at hb

/-- reduction datasource / aligner: a non-numeric source is rejected -/
theorem C10_rejects_align_non_numeric (fix : Bool) (from_ to period : Int) (d : DDs D) (l : DDsL D) (res : DResult D)
    (hd : execD O fix from_ to d = .ok res) (h : res.1.dt.isNumeric = false) :
    execDLAligned O fix from_ to period (.cons d l) = .error .alignNonNumeric := by
  obtain ⟨m, s⟩ := res
  simp only at h
  simp [execDLAligned, hd, h]

/-- datasource aligner filter (stand-alone, with or without fill mode): a non-numeric field is rejected -/
theorem C10_rejects_align_filter_non_numeric (p : PeriodK) (fill : Option FillMode) (res : DResult D)
    (h : res.1.dt.isNumeric = false) : applyDXF O (.align p fill) res = .error .alignNonNumeric := by
  simp [applyDXF, alignDF, h]

/-- report aligner filter: one non-numeric field among the fields is enough to be rejected -/
theorem C10_rejects_align_report_non_numeric (p : PeriodK) (fill : Option FillMode) (res : RResult D)
    (h : ∃ m ∈ res.1, m.dt.isNumeric = false) : applyRXF O (.align p fill) res = .error .alignNonNumeric := by
  obtain ⟨m, hm, hn⟩ := h
  have : res.1.any (fun m => !m.dt.isNumeric) = true := by
    simp only [any_eq_true]
    exact ⟨m, hm, by simp [hn]⟩
  simp [applyRXF, alignRF, this]

/-- delta filter: a non-numeric field is rejected; an optional numeric field is rejected -/
theorem C10_rejects_delta (nn : Bool) (maxC : D) (res : DResult D) :
    (res.1.dt.isNumeric = false → applyDXF O (.delta nn maxC) res = .error .deltaNonNumeric) ∧
    (res.1.dt.isNumeric = true → res.1.required = false →
      applyDXF O (.delta nn maxC) res = .error .deltaOptional) := by
  constructor
  · intro h; simp [applyDXF, deltaF, h]
  · intro h1 h2; simp [applyDXF, deltaF, h1, h2]

/-- rate filter: a non-numeric field is rejected; an optional numeric field is rejected -/
theorem C10_rejects_rate (unit : String) (ps : Int) (nn : Bool) (maxC : D) (res : DResult D) :
    (res.1.dt.isNumeric = false → applyDXF O (.rate unit ps nn maxC) res = .error .rateNonNumeric) ∧
    (res.1.dt.isNumeric = true → res.1.required = false →
      applyDXF O (.rate unit ps nn maxC) res = .error .rateOptional) := by
  constructor
  · intro h; simp [applyDXF, rateF, h]
  · intro h1 h2; simp [applyDXF, rateF, h1, h2]

/-- what the accepted stream filters declare: aligner and delta keep the metadata (the aligner keeps `required` as it
is — an optional field stays optional, its nils are forwarded or fail the interpolation); rate declares a required
decimal field with the override unit, same urn and custom metadata, for every `perSeconds` (≤ 0 counts as 1) -/
theorem C10_stream_filter_metadata (f : DXFilter D) (res res' : DResult D) (h : applyDXF O f res = .ok res') :
    match f with
    | .align _ _ => res'.1 = res.1 ∧ res.1.dt.isNumeric = true
    | .delta _ _ => res'.1 = res.1 ∧ res.1.dt.isNumeric = true ∧ res.1.required = true
    | .rate unit _ _ _ =>
      res'.1 = { urn := res.1.urn, dt := .decimal, unit := unit, required := true, custom := res.1.custom } ∧
        res.1.dt.isNumeric = true ∧ res.1.required = true := by
  cases f with
  | align p fill =>
    simp only [applyDXF, alignDF] at h
    split at h
    · simp at h
    · rename_i hn
      simp only [Except.ok.injEq] at h; subst h
      exact ⟨rfl, by simpa using hn⟩
  | delta nn maxC => exact deltaF_ok_meta O h
  | rate unit ps nn maxC => exact rateF_ok_meta O h

/-- `NewFilteredDataSource(ds, f1, …, fn)` with row-wise and stream filters mixed (the tree `chainD ds stages`):
its `Execute` is `ds.Execute` followed by the filters one after the other, and — by `C10_sound` — every accepted
result is sound.  Same for package `report`. -/
theorem C10_filter_chain (fix : Bool) (from_ to : Int) :
    (∀ (ds : RDs D) (stages : List (RStage D)),
      execR O fix from_ to (chainR ds stages) = execR O fix from_ to ds >>= applyRStages O fix stages) ∧
    (∀ (ds : DDs D) (stages : List (DStage D)),
      execD O fix from_ to (chainD ds stages) = execD O fix from_ to ds >>= applyDStages O stages) :=
  ⟨fun ds st => execR_chainR O fix from_ to st ds, fun ds st => execD_chainD O fix from_ to st ds⟩

/-- nullable sides of left/full joins are declared not required (D18) -/
theorem C10_join_nullable_sides_optional (n idx : Nat) (jt : JoinType) (hnull : nullableAt jt n idx = true)
    (fms : List FieldMeta) (seen : List String) (out : List FieldMeta) (seen' : List String)
    (h : joinMetasOne (nullableAt jt n idx) fms seen = .ok (out, seen')) : ∀ m ∈ out, m.required = false := by
  obtain ⟨rfl, _⟩ := joinMetasOne_ok _ h
  intro m hm
  simp only [mem_map] at hm
  obtain ⟨m0, _, rfl⟩ := hm
  rw [hnull]
  exact relax_true_required m0


/-! ## no record is consulted before `Execute` returns -/

/-- The outcome of `Execute` up to the stream — the error class, or the metadata — is the same for the query with
every input row erased (`eraseR`/`eraseD` replace the rows of all static datasources by none): planning cannot have
looked at any record.  (At value level this holds by construction: `planRVal`/`planDVal` hand out the row function
only on success, and never apply it.)  Covers the whole modelled language, reduction datasource included. -/
theorem C10_no_pull_on_error (fix : Bool) (from_ to : Int) :
    (∀ q : RDs D, SameMeta (execR O fix from_ to q) (execR O fix from_ to (eraseR q))) ∧
    (∀ q : DDs D, SameMeta (execD O fix from_ to q) (execD O fix from_ to (eraseD q))) :=
  ⟨execR_sameMeta O fix from_ to, execD_sameMeta O fix from_ to⟩

/-- in particular: two queries that differ only in their input rows are rejected alike -/
theorem C10_reject_independent_of_rows (fix : Bool) (from_ to : Int) (q q' : RDs D) (h : eraseR q = eraseR q')
    (e : PlanErr) (he : execR O fix from_ to q = .error e) : execR O fix from_ to q' = .error e := by
  rcases execR_sameMeta O fix from_ to q with ⟨e1, h1, h2⟩ | ⟨m, s, s', h1, _⟩
  · rw [he] at h1
    simp only [Except.error.injEq] at h1; subst h1
    rcases execR_sameMeta O fix from_ to q' with ⟨e2, h3, h4⟩ | ⟨m, s, s', h3, h4⟩
    · rw [← h, h2] at h4
      simp only [Except.error.injEq] at h4; subst h4
      exact h3
    · rw [← h, h2] at h4; simp at h4
  · rw [he] at h1; simp at h1


/-! ## non-vacuity: concrete inputs that meet the hypotheses of the main theorems -/

/-- a required and an optional integer column, two rows (one nil); a field `c = a + b` is appended -/
def exTable : RDs Unit :=
  .static [⟨"a", .integer, "", true, none⟩, ⟨"b", .integer, "", false, none⟩]
    [⟨1, [.int 1, .nil]⟩, ⟨2, [.int 2, .int 5]⟩]

def exQuery : RDs Unit :=
  .filtered exTable [.append (.num .add (.ref "a") (.ref "b")) ⟨"c", none, ""⟩]

/-- a left join whose nullable side has a REQUIRED field and no partner for timestamp 1 (the D18 shape) -/
def exJoin : RDs Unit :=
  .join .left (.cons exQuery (.cons (.static [⟨"x", .string, "", true, none⟩] [⟨2, [.str "p"]⟩]) .nil))

theorem exTable_wf : WfR exTable := by
  simp only [exTable, WfR]
  refine ⟨?_, ?_, ?_⟩
  · intro m hm; simp at hm; rcases hm with rfl | rfl <;> simp [DataType.valid]
  · intro r hr; simp at hr; rcases hr with rfl | rfl <;> simp [Conforms, tagOk]
  · simp

theorem exJoin_wf : WfR exJoin := by
  simp only [exJoin, WfR, WfRL, exQuery, and_true]
  refine ⟨exTable_wf, ?_, ?_, ?_⟩
  · intro m hm; simp at hm; subst hm; simp [DataType.valid]
  · intro r hr; simp at hr; subst hr; simp [Conforms, tagOk]
  · simp

/-- `C10_sound` applies to `exQuery`: accepted, three fields, the appended one optional, nil in row 1 -/
example : WfR exQuery ∧ NoRedR exQuery ∧
    execR unitOps false 0 10 exQuery = .ok
      ([⟨"a", .integer, "", true, none⟩, ⟨"b", .integer, "", false, none⟩, ⟨"c", .integer, "", false, none⟩],
       [some ⟨1, [.int 1, .nil, .nil]⟩, some ⟨2, [.int 2, .int 5, .int 7]⟩]) :=
  ⟨exTable_wf, trivial, rfl⟩

/-- … and to `exJoin`: the required field `x` of the nullable side is declared not required and padded with nil -/
example : WfR exJoin ∧ NoRedR exJoin ∧
    execR unitOps false 0 10 exJoin = .ok
      ([⟨"a", .integer, "", true, none⟩, ⟨"b", .integer, "", false, none⟩, ⟨"c", .integer, "", false, none⟩,
        ⟨"x", .string, "", false, none⟩],
       [some ⟨1, [.int 1, .nil, .nil, .nil]⟩, some ⟨2, [.int 2, .int 5, .int 7, .str "p"]⟩]) :=
  ⟨exJoin_wf, by simp [exJoin, exQuery, exTable, NoRedR, NoRedRL], rfl⟩

/-- `C10_rejects_num_operand_mismatch` fires: integer + string -/
example : ∃ e, planRVal unitOps (.num .add (.ref "a") (.ref "s"))
    [⟨"a", .integer, "", true, none⟩, ⟨"s", .string, "", true, none⟩] = .error e :=
  C10_rejects_num_operand_mismatch unitOps .add _ _ _ _ _ rfl rfl (by decide)

/-- `C10_rejects_where_condition` fires: an optional boolean condition -/
example : ∃ e, applyRF unitOps false (.where_ (.ref "o"))
    (([⟨"o", .boolean, "", false, none⟩] : List FieldMeta), ([] : RStream Unit)) = .error e :=
  C10_rejects_where_condition unitOps false _ _ _ rfl (Or.inr rfl)

/-- `C10_rejects_join_shared_urn` fires (D18): two sources both named `a` -/
example : ∃ e, joinMetas .inner 2 0
    [[⟨"a", .integer, "", true, none⟩], [⟨"a", .decimal, "", true, none⟩]] [] = .error e :=
  C10_rejects_join_shared_urn (D := Unit) .inner
    [([⟨"a", .integer, "", true, none⟩], []), ([⟨"a", .decimal, "", true, none⟩], [])] (by decide)

/-- `C10_rejects_replace_duplicate_urn` fires (R1) -/
example : ∃ e, replaceF unitOps "a" (.ref "a") ⟨"b", none, ""⟩
    (([⟨"a", .integer, "", true, none⟩, ⟨"b", .integer, "", true, none⟩] : List FieldMeta), ([] : RStream Unit)) =
      .error e :=
  C10_rejects_replace_duplicate_urn unitOps "a" _ _ _ (by decide) rfl

/-- a required integer counter; `NewFilteredDataSource(counter, DeltaFilter, FieldValueFilter(ref + 1),
InterpolatingAlignerFilter(10ns, forwardFill))`: stream filters and a row-wise filter in ONE filter list -/
def exCounter : DDs Unit := .static ⟨"c", .integer, "", true, none⟩ [⟨1, .int 5⟩, ⟨2, .int 7⟩, ⟨33, .int 12⟩]

def exStream : DDs Unit :=
  chainD exCounter [.x (.delta false ()),
    .plain (.fval (.num .add .ref (.const ⟨.integer, "", true, none⟩ (.int 1))) ⟨"d", none, ""⟩),
    .x (.align (.fixed 10) (some .forwardFill))]

theorem exCounter_wf : WfD exCounter := by
  simp only [exCounter, WfD]
  refine ⟨⟨by decide, rfl⟩, ?_, ?_⟩
  · intro r hr; simp at hr; rcases hr with rfl | rfl | rfl <;> simp [tagOk]
  · simp

theorem exStream_wf : WfD exStream := by
  simp only [exStream, chainD, WfD, DXFilter.periodOk, and_true]
  exact ⟨exCounter_wf, show (0 : Int) < 10 by decide⟩

/-- `C10_sound` applies to `exStream`: accepted; deltas 2 and 5, plus one, aligned to the periods 0 and 30 (the second
value interpolated: with the unit carrier every float is `()` and `int64(())` is 0), the gap at 10 and 20 forward-filled -/
example : WfD exStream ∧ execD unitOps false 0 100 exStream = .ok
    (⟨"d", .integer, "", true, none⟩,
      [some ⟨0, .int 3⟩, some ⟨10, .int 3⟩, some ⟨20, .int 3⟩, some ⟨30, .int 0⟩]) :=
  ⟨exStream_wf, rfl⟩

/-- the rate filter over the same counter: a required decimal field with the override unit (a carrier in which
`timeDiff == 0` is false, so that rows are emitted) -/
example : execD { unitOps with eq := fun _ _ => false } false 0 100 (.xfiltered exCounter (.rate "kb/s" 0 true ())) =
    .ok (⟨"c", .decimal, "kb/s", true, none⟩, [some ⟨2, .dec ()⟩, some ⟨33, .dec ()⟩]) ∧
    WfD (.xfiltered exCounter (.rate "kb/s" 0 true ())) :=
  ⟨rfl, exCounter_wf, trivial⟩

/-- `C10_rejects_delta` / `C10_rejects_rate` / `C10_rejects_align_filter_non_numeric` fire: a string field, and an
optional integer field -/
example : applyDXF unitOps (.delta true ()) ((⟨"s", .string, "", true, none⟩ : FieldMeta), ([] : DStream Unit)) =
    .error .deltaNonNumeric := (C10_rejects_delta unitOps true () _).1 rfl
example : applyDXF unitOps (.rate "" 1 false ()) ((⟨"o", .integer, "", false, none⟩ : FieldMeta), ([] : DStream Unit)) =
    .error .rateOptional := (C10_rejects_rate unitOps "" 1 false () _).2 rfl rfl
example : applyDXF unitOps (.align (.fixed 10) (some .linear)) ((⟨"b", .boolean, "", true, none⟩ : FieldMeta), ([] : DStream Unit)) =
    .error .alignNonNumeric := C10_rejects_align_filter_non_numeric unitOps (.fixed 10) _ _ rfl

/-- `C10_rejects_align_report_non_numeric` fires: one string column among numeric ones -/
example : applyRXF unitOps (.align (.fixed 10) none)
    (([⟨"a", .integer, "", true, none⟩, ⟨"s", .string, "", true, none⟩] : List FieldMeta), ([] : RStream Unit)) =
      .error .alignNonNumeric :=
  C10_rejects_align_report_non_numeric unitOps (.fixed 10) none _ ⟨⟨"s", .string, "", true, none⟩, by simp, rfl⟩

end ShpanVerif.Props.C10
