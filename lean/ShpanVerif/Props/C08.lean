/-
C08 — MergeSortedStreams is a stable sorted merge.

Property theorems (for every number of inputs, every input list, every comparator that is a strict weak order):
  * `C08_eq_stable_sort` : merge = stable sort (core `List.mergeSort`) of the concatenation of the inputs
  * `C08_perm`, `C08_sorted`, `C08_stable_sublist`, `C08_ties_lower_index_first` : the property's clauses, as corollaries.
-/
import ShpanVerif.Model.Merge
import ShpanVerif.Proofs.SortLemmas

namespace ShpanVerif.Props.C08

open List ShpanVerif.Model.Merge ShpanVerif.Proofs

variable {α : Type}

/-- What the comparator is assumed to be: `lt a b` ↔ `cmp(a,b) < 0` for a total preorder. -/
structure StrictWeak (lt : α → α → Bool) : Prop where
  asymm : ∀ a b, lt a b = true → lt b a = false
  le_trans : ∀ a b c, lt b a = false → lt c b = false → lt c a = false

/-- `le a b` ↔ `cmp(a,b) ≤ 0`. -/
def leOf (lt : α → α → Bool) : α → α → Bool := fun a b => !lt b a

section order
variable {lt : α → α → Bool} (sw : StrictWeak lt)
include sw

theorem le_trans' : ∀ a b c, leOf lt a b → leOf lt b c → leOf lt a c := by
  intro a b c h1 h2
  simp only [leOf, Bool.not_eq_eq_eq_not, Bool.not_true] at *
  exact sw.le_trans a b c h1 h2

theorem le_total' : ∀ a b, leOf lt a b || leOf lt b a := by
  intro a b
  simp only [leOf, Bool.or_eq_true, Bool.not_eq_eq_eq_not, Bool.not_true]
  cases h : lt b a
  · simp
  · simp [sw.asymm b a h]

theorem lt_of_lt_of_le {a b c : α} (h1 : lt a b = true) (h2 : lt c b = false) : lt a c = true := by
  cases h : lt a c
  · have := sw.le_trans b c a h2 h
    simp [h1] at this
  · rfl

theorem lt_trans' {a b c : α} (h1 : lt a b = true) (h2 : lt b c = true) : lt a c = true :=
  lt_of_lt_of_le sw h1 (sw.asymm b c h2)

end order

/-- All buffered heads of `l` are weakly above `m`. -/
def AllGe (lt : α → α → Bool) (l : List (Input α)) (m : α) : Prop :=
  ∀ x ∈ l, ∀ v, x.1 = some v → lt v m = false
/-- All buffered heads of `l` are strictly above `m`. -/
def AllGt (lt : α → α → Bool) (l : List (Input α)) (m : α) : Prop :=
  ∀ x ∈ l, ∀ v, x.1 = some v → lt m v = true

/-- Loop invariant of the scan, for both shapes of the accumulator. -/
theorem scan_spec {lt : α → α → Bool} (sw : StrictWeak lt) :
    ∀ (st : List (Input α)) (i : Nat),
      ((scanMin lt i st none = none ∧ ∀ x ∈ st, x.1 = none) ∨
        ∃ pre m r post, st = pre ++ (some m, r) :: post ∧
          scanMin lt i st none = some (i + pre.length, m) ∧ AllGt lt pre m ∧ AllGe lt post m) ∧
      (∀ j0 m0, (scanMin lt i st (some (j0, m0)) = some (j0, m0) ∧ AllGe lt st m0) ∨
        ∃ pre m r post, st = pre ++ (some m, r) :: post ∧
          scanMin lt i st (some (j0, m0)) = some (i + pre.length, m) ∧ lt m m0 = true ∧
          AllGt lt pre m ∧ AllGe lt post m)
  | [], i => by
      refine ⟨Or.inl ⟨rfl, by simp⟩, fun j0 m0 => Or.inl ⟨rfl, ?_⟩⟩
      intro x hx; simp at hx
  | (none, r0) :: st, i => by
      obtain ⟨ih1, ih2⟩ := scan_spec sw st (i+1)
      constructor
      · rcases ih1 with ⟨h, hall⟩ | ⟨pre, m, r, post, hst, hres, hgt, hge⟩
        · exact Or.inl ⟨by simpa [scanMin] using h, by
            intro x hx; rcases mem_cons.mp hx with rfl | hx
            · rfl
            · exact hall x hx⟩
        · refine Or.inr ⟨(none, r0) :: pre, m, r, post, by simp [hst], ?_, ?_, hge⟩
          · simp only [scanMin, hres, length_cons]; congr 2; omega
          · intro x hx v hv
            rcases mem_cons.mp hx with rfl | hx
            · simp at hv
            · exact hgt x hx v hv
      · intro j0 m0
        rcases ih2 j0 m0 with ⟨h, hall⟩ | ⟨pre, m, r, post, hst, hres, hlt, hgt, hge⟩
        · refine Or.inl ⟨by simpa [scanMin] using h, ?_⟩
          intro x hx v hv
          rcases mem_cons.mp hx with rfl | hx
          · simp at hv
          · exact hall x hx v hv
        · refine Or.inr ⟨(none, r0) :: pre, m, r, post, by simp [hst], ?_, hlt, ?_, hge⟩
          · simp only [scanMin, hres, length_cons]; congr 2; omega
          · intro x hx v hv
            rcases mem_cons.mp hx with rfl | hx
            · simp at hv
            · exact hgt x hx v hv
  | (some v, r0) :: st, i => by
      obtain ⟨_, ih2⟩ := scan_spec sw st (i+1)
      constructor
      · -- accumulator empty: `v` becomes the minimum
        refine Or.inr ?_
        rcases ih2 i v with ⟨h, hall⟩ | ⟨pre, m, r, post, hst, hres, hlt, hgt, hge⟩
        · exact ⟨[], v, r0, st, rfl, by simpa [scanMin] using h, by intro x hx; simp at hx, hall⟩
        · refine ⟨(some v, r0) :: pre, m, r, post, by simp [hst], ?_, ?_, hge⟩
          · simp only [scanMin, hres, length_cons]; congr 2; omega
          · intro x hx w hw
            rcases mem_cons.mp hx with rfl | hx
            · simp only [Option.some.injEq] at hw; subst hw; exact hlt
            · exact hgt x hx w hw
      · intro j0 m0
        by_cases hv : lt v m0 = true
        · -- replaced
          refine Or.inr ?_
          rcases ih2 i v with ⟨h, hall⟩ | ⟨pre, m, r, post, hst, hres, hlt, hgt, hge⟩
          · exact ⟨[], v, r0, st, rfl, by simpa [scanMin, hv] using h, hv,
              by intro x hx; simp at hx, hall⟩
          · refine ⟨(some v, r0) :: pre, m, r, post, by simp [hst], ?_, lt_trans' sw hlt hv, ?_, hge⟩
            · simp only [scanMin, hv, if_true, hres, length_cons]; congr 2; omega
            · intro x hx w hw
              rcases mem_cons.mp hx with rfl | hx
              · simp only [Option.some.injEq] at hw; subst hw; exact hlt
              · exact hgt x hx w hw
        · -- kept
          have hv' : lt v m0 = false := by simpa using hv
          rcases ih2 j0 m0 with ⟨h, hall⟩ | ⟨pre, m, r, post, hst, hres, hlt, hgt, hge⟩
          · refine Or.inl ⟨by simpa [scanMin, hv'] using h, ?_⟩
            intro x hx w hw
            rcases mem_cons.mp hx with rfl | hx
            · simp only [Option.some.injEq] at hw; subst hw; exact hv'
            · exact hall x hx w hw
          · refine Or.inr ⟨(some v, r0) :: pre, m, r, post, by simp [hst], ?_, hlt, ?_, hge⟩
            · simp only [scanMin, hv', Bool.false_eq_true, if_false, hres, length_cons]; congr 2; omega
            · intro x hx w hw
              rcases mem_cons.mp hx with rfl | hx
              · simp only [Option.some.injEq] at hw; subst hw
                exact lt_of_lt_of_le sw hlt hv'
              · exact hgt x hx w hw

/-- The elements an input still holds, in order: buffered head then the rest. -/
def view (x : Input α) : List α := x.1.toList ++ x.2

def views (st : List (Input α)) : List α := st.flatMap view

/-- After `refill`: an empty slot means the input is exhausted. -/
def Filled (st : List (Input α)) : Prop := ∀ x ∈ st, x.1 = none → x.2 = []

theorem view_refill1 (x : Input α) : view (refill1 x) = view x := by
  rcases x with ⟨_ | v, _ | ⟨y, ys⟩⟩ <;> simp [refill1, view]

theorem views_refill (st : List (Input α)) : views (refill st) = views st := by
  induction st with
  | nil => rfl
  | cons x st ih => simp_all [views, refill, view_refill1]

theorem filled_refill (st : List (Input α)) : Filled (refill st) := by
  intro x hx hnone
  simp only [refill, mem_map] at hx
  obtain ⟨y, _, rfl⟩ := hx
  rcases y with ⟨_ | v, _ | ⟨z, zs⟩⟩ <;> simp_all [refill1]

theorem clearSlot_at (pre : List (Input α)) (s : Option α) (r : List α) (post : List (Input α)) :
    clearSlot pre.length (pre ++ (s, r) :: post) = pre ++ (none, r) :: post := by
  induction pre with
  | nil => rfl
  | cons x pre ih => simp [clearSlot, ih]

/-- Every input (buffered head + rest) is sorted. -/
def SortedInputs (lt : α → α → Bool) (st : List (Input α)) : Prop :=
  ∀ x ∈ st, (view x).Pairwise (fun a b => leOf lt a b = true)

theorem sorted_refill {lt : α → α → Bool} {st : List (Input α)} (h : SortedInputs lt st) :
    SortedInputs lt (refill st) := by
  intro x hx
  simp only [refill, mem_map] at hx
  obtain ⟨y, hy, rfl⟩ := hx
  rw [view_refill1]; exact h y hy

def size (st : List (Input α)) : Nat := (views st).length

/-- Core refinement: the operational collect equals the stable sort of what the inputs still hold. -/
theorem collect_eq_mergeSort {lt : α → α → Bool} (sw : StrictWeak lt) :
    ∀ (fuel : Nat) (st : List (Input α)), size st < fuel → SortedInputs lt st →
      collect lt fuel st = mergeSort (views st) (leOf lt)
  | 0, _, h, _ => by omega
  | fuel+1, st, hfuel, hsorted => by
      have hF := filled_refill st
      have hS := sorted_refill hsorted
      have hV := views_refill st
      simp only [collect, emit]
      rcases (scan_spec sw (refill st) 0).1 with ⟨hnone, hall⟩ | ⟨pre, m, r, post, hst, hres, hgt, hge⟩
      · -- nothing buffered: every input is exhausted
        rw [hnone]
        have : views (refill st) = [] := by
          simp only [views, flatMap_eq_nil_iff]
          intro x hx
          have h1 := hall x hx
          have h2 := hF x hx h1
          simp [view, h1, h2]
        rw [← hV, this]; simp
      · rw [hres]
        simp only [Nat.zero_add]
        rw [hst, clearSlot_at]
        have hview : views (refill st) = views pre ++ m :: (r ++ views post) := by
          rw [hst]; simp [views, view]
        have hview' : views (pre ++ (none, r) :: post) = views pre ++ (r ++ views post) := by
          simp [views, view]
        -- ordering facts for the extraction lemma
        have hpre : ∀ p ∈ views pre, leOf lt p m = false := by
          intro p hp
          simp only [views, mem_flatMap] at hp
          obtain ⟨x, hx, hpx⟩ := hp
          have hxin : x ∈ refill st := by rw [hst]; simp [hx]
          cases hx1 : x.1 with
          | none =>
            have := hF x hxin hx1
            simp [view, hx1, this] at hpx
          | some v =>
            have hmv := hgt x hx v hx1
            have hsx := hS x hxin
            simp only [view, hx1, Option.toList_some, singleton_append] at hpx hsx
            rcases mem_cons.mp hpx with rfl | hp'
            · simp [leOf, hmv]
            · have : leOf lt v p = true := rel_of_pairwise_cons hsx hp'
              simp only [leOf, Bool.not_eq_eq_eq_not, Bool.not_true] at this
              simp [leOf, lt_of_lt_of_le sw hmv this]
        have hpost : ∀ q ∈ r ++ views post, leOf lt m q = true := by
          intro q hq
          rcases mem_append.mp hq with hq | hq
          · have hxin : (some m, r) ∈ refill st := by rw [hst]; simp
            have hsx := hS _ hxin
            simp only [view, Option.toList_some, singleton_append] at hsx
            exact rel_of_pairwise_cons hsx hq
          · simp only [views, mem_flatMap] at hq
            obtain ⟨x, hx, hqx⟩ := hq
            have hxin : x ∈ refill st := by rw [hst]; simp [hx]
            cases hx1 : x.1 with
            | none =>
              have := hF x hxin hx1
              simp [view, hx1, this] at hqx
            | some v =>
              have hvm := hge x hx v hx1
              have hsx := hS x hxin
              simp only [view, hx1, Option.toList_some, singleton_append] at hqx hsx
              rcases mem_cons.mp hqx with rfl | hq'
              · simp [leOf, hvm]
              · have : leOf lt v q = true := rel_of_pairwise_cons hsx hq'
                exact le_trans' sw m v q (by simp [leOf, hvm]) this
        have hext := mergeSort_extract_min (le_trans' sw) (le_total' sw) m (views pre) (r ++ views post) hpre hpost
        -- recursive call
        have hsize : size (pre ++ (none, r) :: post) < fuel := by
          have : size st = size (pre ++ (none, r) :: post) + 1 := by
            simp only [size, ← hV, hview, hview', length_append, length_cons]; omega
          omega
        have hsorted' : SortedInputs lt (pre ++ (none, r) :: post) := by
          intro x hx
          rcases mem_append.mp hx with hx | hx
          · exact hS x (by rw [hst]; simp [hx])
          · rcases mem_cons.mp hx with rfl | hx
            · have := hS (some m, r) (by rw [hst]; simp)
              simp only [view, Option.toList_some, singleton_append] at this
              simpa [view] using this.tail
            · exact hS x (by rw [hst]; simp [hx])
        rw [collect_eq_mergeSort sw fuel _ hsize hsorted', ← hV, hview, hext, hview']

theorem views_init (ins : List (List α)) : views (init ins) = ins.flatten := by
  induction ins with
  | nil => rfl
  | cons l ins ih => simp_all [views, init, view]

/-- **C08**: for any number of inputs, each sorted by the comparator, MergeSortedStreams equals the
stable sort of the inputs' concatenation. -/
theorem C08_eq_stable_sort {lt : α → α → Bool} (sw : StrictWeak lt) (ins : List (List α))
    (hs : ∀ l ∈ ins, l.Pairwise (fun a b => leOf lt a b = true)) :
    mergeStreams lt ins = mergeSort ins.flatten (leOf lt) := by
  unfold mergeStreams
  rw [collect_eq_mergeSort sw]
  · rw [views_init]
  · simp only [size, views_init, total]
    have : ins.flatten.length = (ins.map length).sum := by simp [length_flatten]
    omega
  · intro x hx
    simp only [init, mem_map] at hx
    obtain ⟨l, hl, rfl⟩ := hx
    simpa [view] using hs l hl

/-- Conservation: exactly the elements of all inputs, as a multiset. -/
theorem C08_perm {lt : α → α → Bool} (sw : StrictWeak lt) (ins : List (List α))
    (hs : ∀ l ∈ ins, l.Pairwise (fun a b => leOf lt a b = true)) :
    (mergeStreams lt ins).Perm ins.flatten := by
  rw [C08_eq_stable_sort sw ins hs]; exact mergeSort_perm _ _

/-- The output is sorted. -/
theorem C08_sorted {lt : α → α → Bool} (sw : StrictWeak lt) (ins : List (List α))
    (hs : ∀ l ∈ ins, l.Pairwise (fun a b => leOf lt a b = true)) :
    (mergeStreams lt ins).Pairwise (fun a b => leOf lt a b = true) := by
  rw [C08_eq_stable_sort sw ins hs]
  exact pairwise_mergeSort (le_trans' sw) (le_total' sw) _

/-- Each input keeps its internal order: it is a subsequence of the output. -/
theorem C08_stable_sublist {lt : α → α → Bool} (sw : StrictWeak lt) (ins : List (List α))
    (hs : ∀ l ∈ ins, l.Pairwise (fun a b => leOf lt a b = true)) (l : List α) (hl : l ∈ ins) :
    l.Sublist (mergeStreams lt ins) := by
  rw [C08_eq_stable_sort sw ins hs]
  exact sublist_mergeSort (le_trans' sw) (le_total' sw) (hs l hl) (sublist_flatten_of_mem hl)

/-- On ties the lower-indexed input goes first: if `a` occurs before `b` in the concatenation and
`a ≤ b`, then `a` is still before `b` in the output. -/
theorem C08_ties_lower_index_first {lt : α → α → Bool} (sw : StrictWeak lt) (ins : List (List α))
    (hs : ∀ l ∈ ins, l.Pairwise (fun a b => leOf lt a b = true)) (a b : α)
    (hab : leOf lt a b = true) (h : [a, b].Sublist ins.flatten) :
    [a, b].Sublist (mergeStreams lt ins) := by
  rw [C08_eq_stable_sort sw ins hs]
  exact pair_sublist_mergeSort (le_trans' sw) (le_total' sw) hab h

/-! Non-vacuity: a concrete comparator and inputs meeting every hypothesis, with a tie. -/
def ltKey : (Int × Nat) → (Int × Nat) → Bool := fun a b => a.1 < b.1

theorem ltKey_sw : StrictWeak ltKey := by
  constructor
  · intro a b h; simp only [ltKey, decide_eq_true_eq, decide_eq_false_iff_not] at *; omega
  · intro a b c h1 h2; simp only [ltKey, decide_eq_false_iff_not] at *; omega

example : mergeStreams ltKey [[(1,0),(3,1)], [], [(1,2),(2,3)]] = [(1,0),(1,2),(2,3),(3,1)] := by decide

end ShpanVerif.Props.C08
