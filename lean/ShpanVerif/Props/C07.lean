/-
C07 — terminals terminate, honour cancellation, and leave no goroutines behind.

For each asynchronous mechanism (concurrent map, concurrent consume, Buffered, JSON pipe) over `Reachable` of its
transition system — every stream length, concurrency / buffer size, schedule, completion order, and every point at
which the environment cancels the caller ctx, injects a failure or makes the consumer stop:

  `C07_progress_*`   deadlock freedom: in every reachable state that is not final (terminal returned AND every library
                     goroutine exited) some *owed* transition is enabled.  Owed = library steps, the return of the
                     source's Emit, the return of an in-flight callback (the property's proviso: providers and
                     callbacks return, at the latest when their ctx is cancelled).  Never owed: cancel, injected
                     failures, the consumer's decisions to stop / re-pull / read.
  `C07_measure_*`    a natural-number measure strictly decreases on EVERY transition (owed or not), hence
  `C07_bounded_*`    no schedule from `s` is longer than `mu s`, and
  `C07_terminates_*` from every reachable state the owed transitions alone reach a final state within `mu s` steps:
                     the terminal returns and all goroutines exit without further input — no deadlock, no leak.
  `C07_returned_ctx_*` once the terminal has returned, the ctx handed to the source's Emit and to the callbacks is
                     cancelled (so the proviso applies to whatever is still in flight; for the pipe also: the read end
                     is closed, so a pending Write fails).
  `C07_cancel_error_*` a `nil` result is complete: unless the downstream itself ended the stream (Limit, FindFirst,
                     consumer error) — or, for the two concurrent stages, a failure was injected (then C03 speaks) —
                     every source element was delivered / handed to the callback.  In particular a cancellation that
                     cut delivery short never yields `nil`.  For the pipe: a clean EOF on the read end means every
                     element was written and read.

Variant witnesses (the model carries a switch for each repaired finding; `true` = code as it is):
  `C07_witness_concmap_cancel_ok` (fix24 = false, D24), `C07_witness_buffered_cancel_ok` (fix7 = false, D7),
  `C07_witness_pipe_leak` (fix25 = false, D25): the statements above fail on the unrepaired variants.
-/
import ShpanVerif.Proofs.ConcLive
import ShpanVerif.Proofs.ConcMapLive
import ShpanVerif.Proofs.ConcConsumeLive
import ShpanVerif.Proofs.BufferedLive
import ShpanVerif.Proofs.JsonPipeInv

namespace ShpanVerif.Props.C07
open ShpanVerif.Model.Conc
open ShpanVerif.Model
open ShpanVerif.Proofs

/-! ### concurrent map -/
section concmap
variable {cfg : ConcMap.Cfg} {s : ConcMap.St}

theorem C07_progress_concmap (hc : 0 < cfg.c) (hr : Reachable (ConcMap.sys cfg) s) (hnf : ConcMap.final cfg s = false) :
    ∃ l, ConcMap.obliged l = true ∧ (ConcMap.step cfg s l).isSome = true :=
  ConcMap.progress hc (ConcMap.basic hr) hnf

theorem C07_measure_concmap {s' : ConcMap.St} {l : ConcMap.Label} (hs : ConcMap.step cfg s l = some s') :
    ConcMap.mu cfg s' < ConcMap.mu cfg s :=
  ConcMap.mu_step hs

theorem C07_bounded_concmap {s' : ConcMap.St} (ls : List ConcMap.Label) (h : run (ConcMap.step cfg) s ls = some s') :
    ls.length ≤ ConcMap.mu cfg s := by
  have := ConcMap.run_length_le ls s s' h
  omega

theorem C07_terminates_concmap (hc : 0 < cfg.c) (hr : Reachable (ConcMap.sys cfg) s) :
    ∃ ls s', (∀ l ∈ ls, ConcMap.obliged l = true) ∧ run (ConcMap.step cfg) s ls = some s' ∧
      ConcMap.final cfg s' = true ∧ ls.length ≤ ConcMap.mu cfg s :=
  ConcLive.terminates (ConcMap.sys cfg) (ConcMap.mu cfg) (ConcMap.final cfg) ConcMap.obliged
    (fun _ hr hnf => ConcMap.progress hc (ConcMap.basic hr) hnf) (fun _ _ _ _ hs => ConcMap.mu_step hs)
    (ConcMap.mu cfg s) s hr (Nat.le_refl _)

theorem C07_returned_ctx_concmap (hr : Reachable (ConcMap.sys cfg) s) (h : s.cons = .ret) : s.ctx1 = true := by
  have := (ConcMap.basic hr).ret_term.mp h
  simp [ConcMap.St.ctx1, this]

/-- The code as it is (`fix24 = true`): `nil` ⇒ the downstream stopped by itself, or a failure was injected, or every
    element was delivered. -/
theorem C07_cancel_error_concmap (hc : 0 < cfg.c) (hfix : cfg.fix24 = true) (hr : Reachable (ConcMap.sys cfg) s)
    (hok : s.res = some .ok) :
    s.stopped = true ∨ s.faulted = true ∨ ∀ i, i < cfg.n → s.delivered.count i = 1 :=
  ConcMap.okComplete hc hfix hr hok

/-- Reading of the above as in the property text: if an element is undelivered (and the consumer did not stop, no
    failure was injected) the result — once there is one — is an error. -/
theorem C07_cancel_error_concmap' (hc : 0 < cfg.c) (hfix : cfg.fix24 = true) (hr : Reachable (ConcMap.sys cfg) s)
    (hns : s.stopped = false) (hnf : s.faulted = false) {i : Nat} (hi : i < cfg.n) (hund : i ∉ s.delivered)
    (r : ConcMap.Res) (hres : s.res = some r) : r ≠ .ok := by
  intro hr'
  subst hr'
  rcases C07_cancel_error_concmap hc hfix hr hres with h | h | h
  · simp [hns] at h
  · simp [hnf] at h
  · have := h i hi
    have h0 : s.delivered.count i = 0 := List.count_eq_zero.mpr hund
    omega

/-- D24 on the unrepaired variant: source EOF, then cancel; the worker leaves without taking the queued element, the
    result channel is closed, and the consumer's pull (already past the terminal's ctx check) reports end of stream:
    `nil` with nothing delivered of one element. -/
def d24Schedule : List ConcMap.Label :=
  [.pTop, .pEmitVal, .pSend, .pTop, .pEmitEof, .cCheck, .cancel, .wExitCtx, .pStop, .pCloseSrc, .pWait, .cClosed]

theorem C07_witness_concmap_cancel_ok :
    ∃ s, Reachable (ConcMap.sys { n := 1, c := 1, fix24 := false }) s ∧
      (s.res == some .ok && !s.stopped && !s.faulted && s.ctx0 && s.delivered == []) = true :=
  checkRun_reachable (ls := d24Schedule) (by decide)

/-- the same schedule on the code as it is gives the context's error -/
example : ∃ s, Reachable (ConcMap.sys { n := 1, c := 1 }) s ∧ (s.res == some .errCtx) = true :=
  checkRun_reachable (ls := d24Schedule) (by decide)

end concmap

/-! ### concurrent consume -/
section consume
variable {cfg : ConcConsume.Cfg} {s : ConcConsume.St}

theorem C07_progress_consume (hc : 0 < cfg.c) (hr : Reachable (ConcConsume.sys cfg) s)
    (hnf : ConcConsume.final cfg s = false) :
    ∃ l, ConcConsume.obliged l = true ∧ (ConcConsume.step cfg s l).isSome = true :=
  ConcConsume.progress hc (ConcConsume.basic hr) hnf

theorem C07_measure_consume {s' : ConcConsume.St} {l : ConcConsume.Label} (hs : ConcConsume.step cfg s l = some s') :
    ConcConsume.mu cfg s' < ConcConsume.mu cfg s :=
  ConcConsume.mu_step hs

theorem C07_bounded_consume {s' : ConcConsume.St} (ls : List ConcConsume.Label)
    (h : run (ConcConsume.step cfg) s ls = some s') : ls.length ≤ ConcConsume.mu cfg s := by
  have := ConcConsume.run_length_le ls s s' h
  omega

theorem C07_terminates_consume (hc : 0 < cfg.c) (hr : Reachable (ConcConsume.sys cfg) s) :
    ∃ ls s', (∀ l ∈ ls, ConcConsume.obliged l = true) ∧ run (ConcConsume.step cfg) s ls = some s' ∧
      ConcConsume.final cfg s' = true ∧ ls.length ≤ ConcConsume.mu cfg s :=
  ConcLive.terminates (ConcConsume.sys cfg) (ConcConsume.mu cfg) (ConcConsume.final cfg) ConcConsume.obliged
    (fun _ hr hnf => ConcConsume.progress hc (ConcConsume.basic hr) hnf) (fun _ _ _ _ hs => ConcConsume.mu_step hs)
    (ConcConsume.mu cfg s) s hr (Nat.le_refl _)

/-- When the terminal returns, the producer and all workers have ALREADY exited (it joins them), and workerCtx is
    cancelled. -/
theorem C07_returned_ctx_consume (hr : Reachable (ConcConsume.sys cfg) s) (h : s.term = .ret) :
    s.wctx = true ∧ s.prod = .done ∧ s.wExit = cfg.c := by
  have hb := ConcConsume.basic hr
  refine ⟨?_, hb.term_prod (by simp [h]) (by simp [h]), hb.term_wg (by simp [h])⟩
  have := hb.wcancel_iff.mpr (Or.inr (Or.inr (Or.inr h)))
  simp [ConcConsume.St.wctx, this]

theorem C07_cancel_error_consume (hc : 0 < cfg.c) (hr : Reachable (ConcConsume.sys cfg) s) (hok : s.res = some .ok) :
    s.faulted = true ∨ ((∀ i, i < cfg.n → s.called.count i = 1) ∧ s.wCb = []) :=
  ConcConsume.okComplete hc hr hok

/-- Non-vacuity: cancel while a callback is in flight and an element is queued; the result is the ctx error. -/
example : ∃ s, Reachable (ConcConsume.sys { n := 3, c := 1 }) s ∧
    (s.res == some .errCtx && s.called == [0] && ConcConsume.final { n := 3, c := 1 } s) = true :=
  checkRun_reachable
    (ls := [.pCheck, .pEmitVal, .pSend, .wRecv, .pCheck, .pEmitVal, .pSend, .cancel, .pCheck, .pClose, .wCbOk 0,
            .wToDrain, .wDrainRecv, .wDrainExit, .tWaitWg, .tWaitProd, .tResult, .tCancelW, .tClose0, .tClose1])
    (by decide)

end consume

/-! ### Buffered -/
section buffered
variable {cfg : Buffered.Cfg} {s : Buffered.St}

theorem C07_progress_buffered (hsz : 2 ≤ cfg.size) (hr : Reachable (Buffered.sys cfg) s)
    (hnf : Buffered.final s = false) :
    ∃ l, Buffered.obliged l = true ∧ (Buffered.step cfg s l).isSome = true :=
  Buffered.progress hsz (Buffered.basic hr) hnf

theorem C07_measure_buffered {s' : Buffered.St} {l : Buffered.Label} (hr : Reachable (Buffered.sys cfg) s)
    (hs : Buffered.step cfg s l = some s') : Buffered.mu cfg s' < Buffered.mu cfg s :=
  Buffered.mu_step (Buffered.basic hr) hs

theorem C07_bounded_buffered {s' : Buffered.St} (hr : Reachable (Buffered.sys cfg) s) (ls : List Buffered.Label)
    (h : run (Buffered.step cfg) s ls = some s') : ls.length ≤ Buffered.mu cfg s := by
  have := Buffered.run_length_le ls s s' hr h
  omega

theorem C07_terminates_buffered (hsz : 2 ≤ cfg.size) (hr : Reachable (Buffered.sys cfg) s) :
    ∃ ls s', (∀ l ∈ ls, Buffered.obliged l = true) ∧ run (Buffered.step cfg) s ls = some s' ∧
      Buffered.final s' = true ∧ ls.length ≤ Buffered.mu cfg s :=
  ConcLive.terminates (Buffered.sys cfg) (Buffered.mu cfg) Buffered.final Buffered.obliged
    (fun _ hr hnf => Buffered.progress hsz (Buffered.basic hr) hnf)
    (fun _ _ _ hr hs => Buffered.mu_step (Buffered.basic hr) hs)
    (Buffered.mu cfg s) s hr (Nat.le_refl _)

theorem C07_returned_ctx_buffered (hr : Reachable (Buffered.sys cfg) s) (h : s.cons = .ret) : s.ctx1 = true := by
  have := (Buffered.basic hr).ret_term.mp (Or.inr h)
  simp [Buffered.St.ctx1, this]

/-- The code as it is (`fix7 = true`): `nil` ⇒ the downstream stopped by itself or every element was delivered —
    whatever failures and cancellations happened. -/
theorem C07_cancel_error_buffered (hfix : cfg.fix7 = true) (hr : Reachable (Buffered.sys cfg) s)
    (hok : s.res = some .ok) : s.stopped = true ∨ ∀ i, i < cfg.n → s.delivered.count i = 1 :=
  Buffered.okComplete hfix hr hok

/-- D7 on the unrepaired variant: cancel after the terminal's ctx check; the filler winds down and closes the channel
    without the marker; the pull takes the closed-channel branch: `nil` with nothing delivered of one element. -/
def d7Schedule : List Buffered.Label :=
  [.fOpenOk, .cCheck, .cancel, .fCheck, .fCloseP, .fClosed, .fDropFin, .fCloseCh, .cClosed]

theorem C07_witness_buffered_cancel_ok :
    ∃ s, Reachable (Buffered.sys { n := 1, size := 2, fix7 := false }) s ∧
      (s.res == some .ok && !s.stopped && s.ctx0 && s.delivered == []) = true :=
  checkRun_reachable (ls := d7Schedule) (by decide)

example : ∃ s, Reachable (Buffered.sys { n := 1, size := 2 }) s ∧ (s.res == some .errCtx) = true :=
  checkRun_reachable (ls := d7Schedule) (by decide)

end buffered

/-! ### JSON pipe -/
section pipe
variable {cfg : JsonPipe.Cfg} {s : JsonPipe.St}

theorem C07_progress_pipe (hr : Reachable (JsonPipe.sys cfg) s) (hnf : JsonPipe.final s = false) :
    ∃ l, JsonPipe.obliged l = true ∧ (JsonPipe.step cfg s l).isSome = true :=
  JsonPipe.progress (JsonPipe.basic hr) hnf

theorem C07_measure_pipe {s' : JsonPipe.St} {l : JsonPipe.Label} (hs : JsonPipe.step cfg s l = some s') :
    JsonPipe.mu cfg s' < JsonPipe.mu cfg s :=
  JsonPipe.mu_step hs

theorem C07_bounded_pipe {s' : JsonPipe.St} (ls : List JsonPipe.Label) (h : run (JsonPipe.step cfg) s ls = some s') :
    ls.length ≤ JsonPipe.mu cfg s := by
  have := JsonPipe.run_length_le ls s s' h
  omega

theorem C07_terminates_pipe (hr : Reachable (JsonPipe.sys cfg) s) :
    ∃ ls s', (∀ l ∈ ls, JsonPipe.obliged l = true) ∧ run (JsonPipe.step cfg) s ls = some s' ∧
      JsonPipe.final s' = true ∧ ls.length ≤ JsonPipe.mu cfg s :=
  ConcLive.terminates (JsonPipe.sys cfg) (JsonPipe.mu cfg) JsonPipe.final JsonPipe.obliged
    (fun _ hr hnf => JsonPipe.progress (JsonPipe.basic hr) hnf) (fun _ _ _ _ hs => JsonPipe.mu_step hs)
    (JsonPipe.mu cfg s) s hr (Nat.le_refl _)

/-- The code as it is (`fix25 = true`): after the function returned, the read end is closed (a pending Write fails)
    AND the stream ctx is cancelled (a source blocked inside Emit is released, by the proviso). -/
theorem C07_returned_ctx_pipe (hfix : cfg.fix25 = true) (hr : Reachable (JsonPipe.sys cfg) s) (h : s.t = .ret) :
    s.sctx = true ∧ s.prClosed = true := by
  have hb := JsonPipe.basic hr
  have := hb.ret_s hfix (Or.inr h)
  exact ⟨by simp [JsonPipe.St.sctx, this], hb.prClosed_iff.mpr (Or.inr (Or.inr h))⟩

/-- A clean EOF on the read end ⇒ every element was written and read (a cut-short stream ends with an error). -/
theorem C07_cancel_error_pipe (hr : Reachable (JsonPipe.sys cfg) s) (h : s.pwClosed = some true) :
    ∀ i, i < cfg.n → s.written.count i = 1 :=
  JsonPipe.clean_complete hr h

/-- D25 on the unrepaired variant: the consumer returns while the writer is inside the source's Emit; the function
    returns; the stream ctx is NOT cancelled and no library transition is enabled: the writer goroutine stays, blocked
    in a ctx-honouring Emit, for ever. -/
theorem C07_witness_pipe_leak :
    ∃ s, Reachable (JsonPipe.sys { n := 1, fix25 := false, fixJoin := false }) s ∧
      (s.t == .ret && s.w == .inEmit && !s.sctx &&
        (JsonPipe.internalLabels s).all (fun l => (JsonPipe.step { n := 1, fix25 := false, fixJoin := false } s l).isNone)) = true :=
  checkRun_reachable (ls := [.wOpenOk, .wCheck, .rReturn, .tPrClose, .tCancelS]) (by decide)

/-- the same schedule on the code as it is: the stream ctx is cancelled -/
example : ∃ s, Reachable (JsonPipe.sys { n := 1 }) s ∧ (s.t == .join && s.w == .inEmit && s.sctx) = true :=
  checkRun_reachable (ls := [.wOpenOk, .wCheck, .rReturn, .tPrClose, .tCancelS]) (by decide)

end pipe

end ShpanVerif.Props.C07
