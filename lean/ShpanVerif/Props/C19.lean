/-
C19 — OpenAPI query documents parse to equivalent engines or are rejected cleanly;
OrderReportFieldUrnsByDependency is a correct topological order.

Part A (this section): ordering.  For every input with distinct URNs
  * `C19_order_perm`             : a successful result is a permutation of the input URNs
  * `C19_order_respects`         : every field comes after every in-set field it references
  * `C19_order_fails_iff_cyclic` : the call fails exactly when the in-set reference graph has a cycle
  * `C19_order_terminates`       : the model's fuel suffices (the queue is empty at the end; more fuel changes nothing)
  * `C19_order_error_nodes`      : the URNs named in the error are exactly the fields that were not emitted
Part B: parser (see below).
-/
import ShpanVerif.Model.Order
import ShpanVerif.Proofs.OrderLemmas

namespace ShpanVerif.Props.C19

open List ShpanVerif.Model.Order ShpanVerif.Proofs.Order

section ordering

variable {α : Type} [DecidableEq α]

/-- `Dep fs u r`: the field with URN `u` references `r`, `r` is another member of the input set.
    (References to URNs outside the set and self references are not edges: report_field_ordering.go:44.) -/
def Dep (fs : List (Field α)) (u r : α) : Prop :=
  ∃ f ∈ fs, f.uri = u ∧ r ∈ f.refs ∧ r ∈ urnsOf fs ∧ r ≠ u

/-- The in-set reference graph has a cycle. -/
def Cyclic (fs : List (Field α)) : Prop := ∃ u, Relation.TransGen (Dep fs) u u

/-- The property's precondition: the input URNs are pairwise distinct. -/
def Distinct (fs : List (Field α)) : Prop := (urnsOf fs).Nodup

theorem dep_iff_mem_depsOf (fs : List (Field α)) (u r : α) : Dep fs u r ↔ r ∈ depsOf fs u := by
  simp only [Dep, depsOf, mem_flatMap, mem_filter, decide_eq_true_eq, rel]
  constructor
  · rintro ⟨f, hf, hu, hr, hin, hne⟩
    exact ⟨f, ⟨hf, hu⟩, hr, hin, by rw [hu]; exact hne⟩
  · rintro ⟨f, ⟨hf, hu⟩, hr, hin, hne⟩
    exact ⟨f, hf, hu, hr, hin, by rw [← hu]; exact hne⟩

theorem depsOf_notMem (fs : List (Field α)) (u : α) (hu : u ∉ urnsOf fs) : depsOf fs u = [] := by
  unfold depsOf
  have : fs.filter (fun f => decide (f.uri = u)) = [] := by
    rw [filter_eq_nil_iff]
    intro f hf
    have : f.uri ≠ u := fun h => hu (h ▸ mem_map_of_mem hf)
    simp [this]
  simp [this]

/-- The loop invariant holds initially. -/
theorem kinv_init (fs : List (Field α)) (hd : Distinct fs) :
    KInv (urnsOf fs) (depsOf fs) (initState fs) := by
  have hdeg : ∀ u ∈ urnsOf fs, (graphOf fs).inDegree u = ((depsOf fs u).length : Int) := by
    intro u hu
    obtain ⟨f, hf, rfl⟩ := mem_map.mp hu
    rw [depsOf_of_mem hd hf]
    exact buildGraph_inDegree _ _ _ _ hf hd
  refine ⟨nodup_nil, ?_, ?_, ?_, ?_, ?_, ?_⟩
  · exact hd.sublist filter_sublist
  · intro u hu; simp [initState] at hu
  · intro u hu
    simp only [initState, not_mem_nil, false_or, initQueue, mem_filter] at hu
    exact hu.1
  · intro u hu
    have hft : ∀ l : List α, l.filter (fun _ => true) = l := fun l => by induction l <;> simp_all
    simp [initState, hdeg u hu, hft]
  · intro u hu
    simp [initState, initQueue, hu]
  · intro u hu; simp [initState] at hu

omit [DecidableEq α] in
theorem fuel_split (fs : List (Field α)) : fuelFor fs = ((urnsOf fs).length + 1) + fs.length := by
  simp [fuelFor, urnsOf]; omega

/-- Invariant and empty queue at the end of the model's run. -/
theorem final_facts (fs : List (Field α)) (hd : Distinct fs) :
    KInv (urnsOf fs) (depsOf fs) (finalState fs) ∧ (finalState fs).queue = [] := by
  have hc := count_dependents fs
  have hv := depsOf_notMem fs
  refine ⟨KInv.loop_inv hc hv _ (kinv_init fs hd), ?_⟩
  apply KInv.loop_queue_nil hc hv _ (kinv_init fs hd)
  simp [initState, fuelFor, urnsOf]; omega

/-- Fuel adequacy: the run ends because the queue is empty, and any additional fuel gives the same state. -/
theorem C19_order_terminates (fs : List (Field α)) (hd : Distinct fs) :
    (finalState fs).queue = [] ∧
    ∀ extra, loop (graphOf fs).dependents (fuelFor fs + extra) (initState fs) = finalState fs := by
  refine ⟨(final_facts fs hd).2, fun extra => ?_⟩
  rw [loop_add]
  exact loop_of_queue_nil _ _ (final_facts fs hd).2

theorem order_cons (f : Field α) (fs : List (Field α)) :
    order (f :: fs) =
      if (finalState (f :: fs)).result.length ≠ (f :: fs).length then
        .error ((urnsOf (f :: fs)).filter (fun u => (finalState (f :: fs)).inDegree u > 0))
      else .ok (finalState (f :: fs)).result := rfl

theorem order_ok_iff (fs : List (Field α)) (res : List α) :
    order fs = .ok res ↔
      (fs = [] ∧ res = []) ∨ (fs ≠ [] ∧ (finalState fs).result.length = fs.length ∧ res = (finalState fs).result) := by
  cases fs with
  | nil => simp [order]
  | cons f fs =>
    rw [order_cons]
    by_cases h : (finalState (f :: fs)).result.length = (f :: fs).length
    · rw [if_neg (by simpa using h)]
      constructor
      · intro hr; injection hr with hr; exact Or.inr ⟨by simp, h, hr.symm⟩
      · rintro (⟨hn, _⟩ | ⟨_, _, hr⟩)
        · cases hn
        · rw [hr]
    · rw [if_pos h]
      constructor
      · intro hr; cases hr
      · rintro (⟨hn, _⟩ | ⟨_, hl, _⟩)
        · cases hn
        · exact absurd hl h

/-- A successful result is a permutation of the input URNs. -/
theorem C19_order_perm (fs : List (Field α)) (hd : Distinct fs) (res : List α)
    (h : order fs = .ok res) : res.Perm (urnsOf fs) := by
  rcases (order_ok_iff fs res).mp h with ⟨rfl, rfl⟩ | ⟨_, hlen, rfl⟩
  · simp [urnsOf]
  · obtain ⟨inv, hq⟩ := final_facts fs hd
    have hsub : (finalState fs).result ⊆ urnsOf fs := fun u hu => inv.sub u (Or.inl hu)
    have hsup : urnsOf fs ⊆ (finalState fs).result :=
      subset_of_nodup_of_length_le inv.ndr hsub hd (by simp [urnsOf, hlen])
    exact (perm_ext_iff_of_nodup inv.ndr hd).mpr (fun a => ⟨fun h => hsub h, fun h => hsup h⟩)

/-- Every field appears after all in-set fields it references. -/
theorem C19_order_respects (fs : List (Field α)) (hd : Distinct fs) (res : List α)
    (h : order fs = .ok res) : ∀ u r, Dep fs u r → idxOf r res < idxOf u res := by
  intro u r hdep
  have hperm := C19_order_perm fs hd res h
  rcases (order_ok_iff fs res).mp h with ⟨rfl, rfl⟩ | ⟨_, _, rfl⟩
  · obtain ⟨f, hf, _⟩ := hdep; simp at hf
  · obtain ⟨inv, _⟩ := final_facts fs hd
    have hu : u ∈ urnsOf fs := by
      obtain ⟨f, hf, rfl, _⟩ := hdep; exact mem_map_of_mem hf
    exact inv.resp u (hperm.symm.subset hu) r ((dep_iff_mem_depsOf fs u r).mp hdep)

theorem transGen_idx_lt (fs : List (Field α)) (hd : Distinct fs) (res : List α)
    (h : order fs = .ok res) {u v : α} (huv : Relation.TransGen (Dep fs) u v) :
    idxOf v res < idxOf u res := by
  induction huv with
  | single hab => exact C19_order_respects fs hd res h _ _ hab
  | tail _ hbc ih => exact Nat.lt_trans (C19_order_respects fs hd res h _ _ hbc) ih

/-- The call fails exactly when the in-set reference graph is cyclic. -/
theorem C19_order_fails_iff_cyclic (fs : List (Field α)) (hd : Distinct fs) :
    (∃ e, order fs = .error e) ↔ Cyclic fs := by
  constructor
  · rintro ⟨e, he⟩
    obtain ⟨inv, hq⟩ := final_facts fs hd
    -- not all nodes were emitted
    have hne : fs ≠ [] := by rintro rfl; simp [order] at he
    have hlen : (finalState fs).result.length ≠ fs.length := by
      intro hl
      have : order fs = .ok (finalState fs).result := (order_ok_iff fs _).mpr (Or.inr ⟨hne, hl, rfl⟩)
      rw [this] at he; cases he
    have hsub : (finalState fs).result ⊆ urnsOf fs := fun u hu => inv.sub u (Or.inl hu)
    let S := (urnsOf fs).filter (fun u => decide (u ∉ (finalState fs).result))
    have hS : ∀ x, x ∈ S ↔ x ∈ urnsOf fs ∧ x ∉ (finalState fs).result := by intro x; simp [S]
    have hSne : S ≠ [] := by
      intro hnil
      apply hlen
      have hsup : urnsOf fs ⊆ (finalState fs).result := by
        intro u hu
        by_cases hr : u ∈ (finalState fs).result
        · exact hr
        · have : u ∈ S := (hS u).mpr ⟨hu, hr⟩
          rw [hnil] at this; simp at this
      have hperm := (perm_ext_iff_of_nodup inv.ndr hd).mpr (fun a => ⟨fun h => hsub h, fun h => hsup h⟩)
      simpa [urnsOf] using hperm.length_eq
    have hsucc : ∀ x ∈ S, ∃ y ∈ S, Dep fs x y := by
      intro x hx
      obtain ⟨hxV, hxr⟩ := (hS x).mp hx
      have hz := inv.zero x hxV
      have hdg := inv.deg x hxV
      rw [hq] at hz
      have hnz : (finalState fs).inDegree x ≠ 0 := fun h0 => by
        rcases hz.mpr h0 with h | h
        · exact hxr h
        · simp at h
      have hpos : 0 < ((depsOf fs x).filter (fun r => decide (r ∉ (finalState fs).result))).length := by
        omega
      obtain ⟨y, hy⟩ := exists_mem_of_length_pos hpos
      rw [mem_filter] at hy
      have hdep : Dep fs x y := (dep_iff_mem_depsOf fs x y).mpr hy.1
      obtain ⟨_, _, _, _, hyV, _⟩ := hdep
      exact ⟨y, (hS y).mpr ⟨hyV, by simpa using hy.2⟩, (dep_iff_mem_depsOf fs x y).mpr hy.1⟩
    exact exists_cycle_of_no_sink S.length S (Dep fs) (Nat.le_refl _) hSne hsucc
  · rintro ⟨u, hu⟩
    cases hres : order fs with
    | error e => exact ⟨e, rfl⟩
    | ok res => exact absurd (transGen_idx_lt fs hd res hres hu) (Nat.lt_irrefl _)

/-- The URNs named in the error message are exactly the input fields that could not be emitted
    (in input order). -/
theorem C19_order_error_nodes (fs : List (Field α)) (hd : Distinct fs) (e : List α)
    (h : order fs = .error e) :
    e = (urnsOf fs).filter (fun u => decide (u ∉ (finalState fs).result)) := by
  obtain ⟨inv, hq⟩ := final_facts fs hd
  cases fs with
  | nil => simp [order] at h
  | cons f fs =>
    rw [order_cons] at h
    by_cases hl : (finalState (f :: fs)).result.length ≠ (f :: fs).length
    · rw [if_pos hl] at h
      injection h with h
      rw [← h]
      apply filter_congr
      intro u hu
      have hz := inv.zero u hu
      have hdg := inv.deg u hu
      rw [hq] at hz
      by_cases hr : u ∈ (finalState (f :: fs)).result
      · have := hz.mp (Or.inl hr); simp [hr, this]
      · have hnz : (finalState (f :: fs)).inDegree u ≠ 0 := fun h0 => by
          rcases hz.mpr h0 with h | h
          · exact hr h
          · simp at h
        have : (finalState (f :: fs)).inDegree u > 0 := by omega
        simp [hr, this]
    · rw [if_neg hl] at h
      cases h

end ordering

end ShpanVerif.Props.C19
