/-
C19 — OpenAPI query documents parse to equivalent engines or are rejected cleanly;
OrderReportFieldUrnsByDependency is a correct topological order.

Part A (this section): ordering.  For every input with distinct URNs
  * `C19_order_perm`             : a successful result is a permutation of the input URNs
  * `C19_order_respects`         : every field comes after every in-set field it references
  * `C19_order_fails_iff_cyclic` : the call fails exactly when the in-set reference graph has a cycle
  * `C19_order_terminates`       : the model's fuel suffices (the queue is empty at the end; more fuel changes nothing)
  * `C19_order_terminates_all`   : the same for every input, duplicate URNs included (decreasing measure)
  * `C19_order_error_nodes`      : the URNs named in the error are exactly the fields that were not emitted
Part B: parser (see below).
-/
import ShpanVerif.Model.Order
import ShpanVerif.Model.Parser
import ShpanVerif.Proofs.OrderLemmas
import ShpanVerif.Proofs.ParserLemmas
import ShpanVerif.Proofs.ParserRoundtrip

namespace ShpanVerif.Props.C19

open List ShpanVerif.Model.Order ShpanVerif.Proofs.Order

section ordering

variable {α : Type} [DecidableEq α]

/-- `Dep fs u r`: the field with URN `u` references `r`, `r` is another member of the input set.
    (References to URNs outside the set and self references are not edges: report_field_ordering.go:44.) -/
def Dep (fs : List (Field α)) (u r : α) : Prop :=
  ∃ f ∈ fs, f.uri = u ∧ r ∈ f.refs ∧ r ∈ urnsOf fs ∧ r ≠ u

/-- The in-set reference graph has a cycle. -/
def Cyclic (fs : List (Field α)) : Prop := ∃ u, Relation.TransGen (Dep fs) u u

/-- The property's precondition: the input URNs are pairwise distinct. -/
def Distinct (fs : List (Field α)) : Prop := (urnsOf fs).Nodup

theorem dep_iff_mem_depsOf (fs : List (Field α)) (u r : α) : Dep fs u r ↔ r ∈ depsOf fs u := by
  simp only [Dep, depsOf, mem_flatMap, mem_filter, decide_eq_true_eq, rel]
  constructor
  · rintro ⟨f, hf, hu, hr, hin, hne⟩
    exact ⟨f, ⟨hf, hu⟩, hr, hin, by rw [hu]; exact hne⟩
  · rintro ⟨f, ⟨hf, hu⟩, hr, hin, hne⟩
    exact ⟨f, hf, hu, hr, hin, by rw [← hu]; exact hne⟩

theorem depsOf_notMem (fs : List (Field α)) (u : α) (hu : u ∉ urnsOf fs) : depsOf fs u = [] := by
  unfold depsOf
  have : fs.filter (fun f => decide (f.uri = u)) = [] := by
    rw [filter_eq_nil_iff]
    intro f hf
    have : f.uri ≠ u := fun h => hu (h ▸ mem_map_of_mem hf)
    simp [this]
  simp [this]

/-- The loop invariant holds initially. -/
theorem kinv_init (fs : List (Field α)) (hd : Distinct fs) :
    KInv (urnsOf fs) (depsOf fs) (initState fs) := by
  have hdeg : ∀ u ∈ urnsOf fs, (graphOf fs).inDegree u = ((depsOf fs u).length : Int) := by
    intro u hu
    obtain ⟨f, hf, rfl⟩ := mem_map.mp hu
    rw [depsOf_of_mem hd hf]
    exact buildGraph_inDegree _ _ _ _ hf hd
  refine ⟨nodup_nil, ?_, ?_, ?_, ?_, ?_, ?_⟩
  · exact hd.sublist filter_sublist
  · intro u hu; simp [initState] at hu
  · intro u hu
    simp only [initState, not_mem_nil, false_or, initQueue, mem_filter] at hu
    exact hu.1
  · intro u hu
    have hft : ∀ l : List α, l.filter (fun _ => true) = l := fun l => by induction l <;> simp_all
    simp [initState, hdeg u hu, hft]
  · intro u hu
    simp [initState, initQueue, hu]
  · intro u hu; simp [initState] at hu

omit [DecidableEq α] in
theorem fuel_split (fs : List (Field α)) : fuelFor fs = ((urnsOf fs).length + 1) + fs.length := by
  simp [fuelFor, urnsOf]; omega

/-- Invariant and empty queue at the end of the model's run. -/
theorem final_facts (fs : List (Field α)) (hd : Distinct fs) :
    KInv (urnsOf fs) (depsOf fs) (finalState fs) ∧ (finalState fs).queue = [] := by
  have hc := count_dependents fs
  have hv := depsOf_notMem fs
  refine ⟨KInv.loop_inv hc hv _ (kinv_init fs hd), ?_⟩
  apply KInv.loop_queue_nil hc hv _ (kinv_init fs hd)
  simp [initState, fuelFor, urnsOf]; omega

/-- Fuel adequacy: the run ends because the queue is empty, and any additional fuel gives the same state. -/
theorem C19_order_terminates (fs : List (Field α)) (hd : Distinct fs) :
    (finalState fs).queue = [] ∧
    ∀ extra, loop (graphOf fs).dependents (fuelFor fs + extra) (initState fs) = finalState fs := by
  refine ⟨(final_facts fs hd).2, fun extra => ?_⟩
  rw [loop_add]
  exact loop_of_queue_nil _ _ (final_facts fs hd).2

/-- Fuel adequacy for EVERY input, duplicate URNs included: the model's run ends on an empty queue
    (so `finalState` is the state at which the Go `for len(queue) > 0` loop exits), by the decreasing
    measure `len(queue) + #{keys with positive in-degree}`. -/
theorem C19_order_terminates_all (fs : List (Field α)) :
    (finalState fs).queue = [] ∧
    ∀ extra, loop (graphOf fs).dependents (fuelFor fs + extra) (initState fs) = finalState fs := by
  refine ⟨finalState_queue_nil fs, fun extra => ?_⟩
  rw [loop_add]
  exact loop_of_queue_nil _ _ (finalState_queue_nil fs)

theorem order_cons (f : Field α) (fs : List (Field α)) :
    order (f :: fs) =
      if (finalState (f :: fs)).result.length ≠ (f :: fs).length then
        .error ((urnsOf (f :: fs)).filter (fun u => (finalState (f :: fs)).inDegree u > 0))
      else .ok (finalState (f :: fs)).result := rfl

theorem order_ok_iff (fs : List (Field α)) (res : List α) :
    order fs = .ok res ↔
      (fs = [] ∧ res = []) ∨ (fs ≠ [] ∧ (finalState fs).result.length = fs.length ∧ res = (finalState fs).result) := by
  cases fs with
  | nil => simp [order]
  | cons f fs =>
    rw [order_cons]
    by_cases h : (finalState (f :: fs)).result.length = (f :: fs).length
    · rw [if_neg (by simpa using h)]
      constructor
      · intro hr; injection hr with hr; exact Or.inr ⟨by simp, h, hr.symm⟩
      · rintro (⟨hn, _⟩ | ⟨_, _, hr⟩)
        · cases hn
        · rw [hr]
    · rw [if_pos h]
      constructor
      · intro hr; cases hr
      · rintro (⟨hn, _⟩ | ⟨_, hl, _⟩)
        · cases hn
        · exact absurd hl h

/-- A successful result is a permutation of the input URNs. -/
theorem C19_order_perm (fs : List (Field α)) (hd : Distinct fs) (res : List α)
    (h : order fs = .ok res) : res.Perm (urnsOf fs) := by
  rcases (order_ok_iff fs res).mp h with ⟨rfl, rfl⟩ | ⟨_, hlen, rfl⟩
  · simp [urnsOf]
  · obtain ⟨inv, hq⟩ := final_facts fs hd
    have hsub : (finalState fs).result ⊆ urnsOf fs := fun u hu => inv.sub u (Or.inl hu)
    have hsup : urnsOf fs ⊆ (finalState fs).result :=
      subset_of_nodup_of_length_le inv.ndr hsub hd (by simp [urnsOf, hlen])
    exact (perm_ext_iff_of_nodup inv.ndr hd).mpr (fun a => ⟨fun h => hsub h, fun h => hsup h⟩)

/-- Every field appears after all in-set fields it references. -/
theorem C19_order_respects (fs : List (Field α)) (hd : Distinct fs) (res : List α)
    (h : order fs = .ok res) : ∀ u r, Dep fs u r → idxOf r res < idxOf u res := by
  intro u r hdep
  have hperm := C19_order_perm fs hd res h
  rcases (order_ok_iff fs res).mp h with ⟨rfl, rfl⟩ | ⟨_, _, rfl⟩
  · obtain ⟨f, hf, _⟩ := hdep; simp at hf
  · obtain ⟨inv, _⟩ := final_facts fs hd
    have hu : u ∈ urnsOf fs := by
      obtain ⟨f, hf, rfl, _⟩ := hdep; exact mem_map_of_mem hf
    exact inv.resp u (hperm.symm.subset hu) r ((dep_iff_mem_depsOf fs u r).mp hdep)

theorem transGen_idx_lt (fs : List (Field α)) (hd : Distinct fs) (res : List α)
    (h : order fs = .ok res) {u v : α} (huv : Relation.TransGen (Dep fs) u v) :
    idxOf v res < idxOf u res := by
  induction huv with
  | single hab => exact C19_order_respects fs hd res h _ _ hab
  | tail _ hbc ih => exact Nat.lt_trans (C19_order_respects fs hd res h _ _ hbc) ih

/-- The call fails exactly when the in-set reference graph is cyclic. -/
theorem C19_order_fails_iff_cyclic (fs : List (Field α)) (hd : Distinct fs) :
    (∃ e, order fs = .error e) ↔ Cyclic fs := by
  constructor
  · rintro ⟨e, he⟩
    obtain ⟨inv, hq⟩ := final_facts fs hd
    -- not all nodes were emitted
    have hne : fs ≠ [] := by rintro rfl; simp [order] at he
    have hlen : (finalState fs).result.length ≠ fs.length := by
      intro hl
      have : order fs = .ok (finalState fs).result := (order_ok_iff fs _).mpr (Or.inr ⟨hne, hl, rfl⟩)
      rw [this] at he; cases he
    have hsub : (finalState fs).result ⊆ urnsOf fs := fun u hu => inv.sub u (Or.inl hu)
    let S := (urnsOf fs).filter (fun u => decide (u ∉ (finalState fs).result))
    have hS : ∀ x, x ∈ S ↔ x ∈ urnsOf fs ∧ x ∉ (finalState fs).result := by intro x; simp [S]
    have hSne : S ≠ [] := by
      intro hnil
      apply hlen
      have hsup : urnsOf fs ⊆ (finalState fs).result := by
        intro u hu
        by_cases hr : u ∈ (finalState fs).result
        · exact hr
        · have : u ∈ S := (hS u).mpr ⟨hu, hr⟩
          rw [hnil] at this; simp at this
      have hperm := (perm_ext_iff_of_nodup inv.ndr hd).mpr (fun a => ⟨fun h => hsub h, fun h => hsup h⟩)
      simpa [urnsOf] using hperm.length_eq
    have hsucc : ∀ x ∈ S, ∃ y ∈ S, Dep fs x y := by
      intro x hx
      obtain ⟨hxV, hxr⟩ := (hS x).mp hx
      have hz := inv.zero x hxV
      have hdg := inv.deg x hxV
      rw [hq] at hz
      have hnz : (finalState fs).inDegree x ≠ 0 := fun h0 => by
        rcases hz.mpr h0 with h | h
        · exact hxr h
        · simp at h
      have hpos : 0 < ((depsOf fs x).filter (fun r => decide (r ∉ (finalState fs).result))).length := by
        omega
      obtain ⟨y, hy⟩ := exists_mem_of_length_pos hpos
      rw [mem_filter] at hy
      have hdep : Dep fs x y := (dep_iff_mem_depsOf fs x y).mpr hy.1
      obtain ⟨_, _, _, _, hyV, _⟩ := hdep
      exact ⟨y, (hS y).mpr ⟨hyV, by simpa using hy.2⟩, (dep_iff_mem_depsOf fs x y).mpr hy.1⟩
    exact exists_cycle_of_no_sink S.length S (Dep fs) (Nat.le_refl _) hSne hsucc
  · rintro ⟨u, hu⟩
    cases hres : order fs with
    | error e => exact ⟨e, rfl⟩
    | ok res => exact absurd (transGen_idx_lt fs hd res hres hu) (Nat.lt_irrefl _)

/-- The URNs named in the error message are exactly the input fields that could not be emitted
    (in input order). -/
theorem C19_order_error_nodes (fs : List (Field α)) (hd : Distinct fs) (e : List α)
    (h : order fs = .error e) :
    e = (urnsOf fs).filter (fun u => decide (u ∉ (finalState fs).result)) := by
  obtain ⟨inv, hq⟩ := final_facts fs hd
  cases fs with
  | nil => simp [order] at h
  | cons f fs =>
    rw [order_cons] at h
    by_cases hl : (finalState (f :: fs)).result.length ≠ (f :: fs).length
    · rw [if_pos hl] at h
      injection h with h
      rw [← h]
      apply filter_congr
      intro u hu
      have hz := inv.zero u hu
      have hdg := inv.deg u hu
      rw [hq] at hz
      by_cases hr : u ∈ (finalState (f :: fs)).result
      · have := hz.mp (Or.inl hr); simp [hr, this]
      · have hnz : (finalState (f :: fs)).inDegree u ≠ 0 := fun h0 => by
          rcases hz.mpr h0 with h | h
          · exact hr h
          · simp at h
        have : (finalState (f :: fs)).inDegree u > 0 := by omega
        simp [hr, this]
    · rw [if_neg hl] at h
      cases h

/-- The same three clauses for real field values (`GetReferencedUrns` followed by the ordering). -/
theorem C19_orderExprs_spec (fs : List (α × FieldExpr α))
    (hd : Distinct (fs.map (fun f => (⟨f.1, refsOf f.2⟩ : Field α)))) :
    let fs' := fs.map (fun f => (⟨f.1, refsOf f.2⟩ : Field α))
    (∀ res, orderExprs fs = .ok res →
        res.Perm (fs.map (·.1)) ∧ ∀ u r, Dep fs' u r → idxOf r res < idxOf u res) ∧
    ((∃ e, orderExprs fs = .error e) ↔ Cyclic fs') := by
  intro fs'
  refine ⟨fun res h => ⟨?_, C19_order_respects fs' hd res h⟩, C19_order_fails_iff_cyclic fs' hd⟩
  have := C19_order_perm fs' hd res h
  simpa [fs', urnsOf, Function.comp_def] using this

end ordering

/-! #### non-vacuity (ordering) -/

/-- a diamond with a duplicate reference, a self reference and a reference outside the set -/
def exFields : List (Field Nat) := [⟨0, [1, 2, 2]⟩, ⟨1, [3, 1]⟩, ⟨2, [3, 9]⟩, ⟨3, []⟩]
example : Distinct exFields := by simp [Distinct, urnsOf, exFields]
example : order exFields = .ok [3, 1, 2, 0] := by rfl
example : Dep exFields 0 2 := ⟨⟨0, [1, 2, 2]⟩, by simp [exFields], rfl, by decide, by simp [exFields, urnsOf], by decide⟩
/-- a cyclic input: the hypothesis side of `fails_iff_cyclic` is inhabited, and the call fails -/
def exCyclic : List (Field Nat) := [⟨0, [1]⟩, ⟨1, [2]⟩, ⟨2, [0]⟩, ⟨3, [0]⟩, ⟨4, []⟩]
example : Distinct exCyclic := by simp [Distinct, urnsOf, exCyclic]
example : order exCyclic = .error [0, 1, 2, 3] := by rfl
example : Cyclic exCyclic :=
  ⟨0, .tail (.tail (.single ⟨⟨0, [1]⟩, by simp [exCyclic], rfl, by decide, by simp [exCyclic, urnsOf], by decide⟩)
      ⟨⟨1, [2]⟩, by simp [exCyclic], rfl, by decide, by simp [exCyclic, urnsOf], by decide⟩)
      ⟨⟨2, [0]⟩, by simp [exCyclic], rfl, by decide, by simp [exCyclic, urnsOf], by decide⟩⟩

/-! ## Part B — the parser

  * `C19_total`            : for every JSON value (any fuel, any zone oracle) every entry point returns an engine
                             tree or an error — the modelled planning-time panic (`NewFixedAlignmentPeriod`) is unreachable
  * `C19_duration_guard`   : every `durationInMillis` is rejected, or accepted with a positive nanosecond duration
                             computed without int64 wrap-around (the D21 repair)
  * `C19_drop_plan_total`  : the drop filter's planning step never panics (the D23 repair)
  * `C19_roundtrip`        : `parse (serialize q) = ok (norm q)` for every valid datasource / report tree,
                             at the document entry points (fuel = JSON depth + 1)
  * `C19_roundtrip_normal` : `= ok q` when `q` contains no filtered datasource with an empty filter list
  * `C19_equiv_of_eval`    : hence any observation of engines that is insensitive to `norm` agrees between the
                             parsed and the directly constructed engine
-/

section parser

open ShpanVerif.Model.Parser ShpanVerif.Proofs.Parser

/-- No entry point of the parser panics, whatever the document, the fuel and the zone database. -/
theorem C19_total (zoneOk : String → Bool) :
    (∀ j, parseDatasourceDoc zoneOk j ≠ .panic) ∧ (∀ j, parseReportDoc zoneOk j ≠ .panic) ∧
    (∀ n j, parseDS zoneOk n j ≠ .panic) ∧ (∀ n j, parseMDS zoneOk n j ≠ .panic) ∧
    (∀ n j, parseRDS zoneOk n j ≠ .panic) ∧ (∀ n j, parseRMDS zoneOk n j ≠ .panic) ∧
    (∀ n j, parseFilter zoneOk n j ≠ .panic) ∧ (∀ n j, parseRFilter zoneOk n j ≠ .panic) ∧
    (∀ n j, parseQField n j ≠ .panic) ∧ (∀ n j, parseRField n j ≠ .panic) ∧
    (∀ j, parsePeriod zoneOk j ≠ .panic) :=
  ⟨fun j => (np_all zoneOk _).1 j, fun j => (np_all zoneOk _).2.2.1 j,
   fun n j => (np_all zoneOk n).1 j, fun n j => (np_all zoneOk n).2.1 j,
   fun n j => (np_all zoneOk n).2.2.1 j, fun n j => (np_all zoneOk n).2.2.2 j,
   np_parseFilter zoneOk, np_parseRFilter zoneOk, np_parseQField, np_parseRField, np_parsePeriod zoneOk⟩

/-- For every `durationInMillis` (any integer, in particular every int64): the custom period is rejected,
    or it is accepted and then the duration `ms · 10^6` ns is positive, fits int64, and is what the wrapping
    Go multiplication computes. -/
theorem C19_duration_guard (zoneOk : String → Bool) (ms : Int) (zone : String) :
    parseCustomPeriod zoneOk ms zone = .reject ∨
      (parseCustomPeriod zoneOk ms zone = .ok (.custom ms zone) ∧ zoneOk zone = true ∧
        0 < ms * nsPerMs ∧ ms * nsPerMs ≤ maxInt64 ∧ wrap64 (wrap64 ms * nsPerMs) = ms * nsPerMs) :=
  parseCustomPeriod_spec zoneOk ms zone

/-- Without the guard the constructor's panic is reachable: the D21 witness wraps to a negative duration. -/
example : newFixedAlignmentPeriod (wrap64 (wrap64 9223372036855 * nsPerMs)) (.custom 9223372036855 "UTC") = .panic := by
  rfl
/-- … and the guard rejects it, while the largest representable duration is accepted. -/
example : parseCustomPeriod (fun _ => true) 9223372036855 "UTC" = .reject := by rfl
example : parseCustomPeriod (fun _ => true) 9223372036854 "UTC" = .ok (.custom 9223372036854 "UTC") := by rfl

/-- The drop filter's planning step returns fields or an error for every field list and URN list. -/
theorem C19_drop_plan_total (fields urns : List String) : planDrop fields urns ≠ .panic :=
  np_planDrop fields urns

/-- the D23 witness: one field, an existing and an unknown URN — an error, not a `makeslice` panic -/
example : planDrop ["a"] ["a", "ghost"] = .reject := by rfl
example : makeSliceCap ((["a"].length : Int) - (["a", "ghost"].length : Int)) = .panic := by rfl

/-- Round trip at the document entry points. -/
theorem C19_roundtrip (zoneOk : String → Bool) :
    (∀ q : DS, ValidDS zoneOk q → parseDatasourceDoc zoneOk (serDS q) = .ok (normDS q)) ∧
    (∀ q : RDS, ValidRDS zoneOk q → parseReportDoc zoneOk (serRDS q) = .ok (normRDS q)) :=
  ⟨fun q hv => rt_ds zoneOk q _ hv (by have := dsDepth_le q; omega),
   fun q hv => rt_rds zoneOk q _ hv (by have := rdsDepth_le q; omega)⟩

/-- Any amount of fuel above the tree's depth gives the same answer. -/
theorem C19_roundtrip_fuel (zoneOk : String → Bool) (q : DS) (hv : ValidDS zoneOk q) (n : Nat)
    (hn : dsDepth q ≤ n) : parseDS zoneOk n (serDS q) = .ok (normDS q) := rt_ds zoneOk q n hv hn

theorem C19_roundtrip_normal (zoneOk : String → Bool) (q : DS) (hv : ValidDS zoneOk q) (hn : normDS q = q) :
    parseDatasourceDoc zoneOk (serDS q) = .ok q := by
  rw [(C19_roundtrip zoneOk).1 q hv, hn]

/-- Equivalence with direct construction, for any observation `eval` of typed trees that does not see the
    difference between a datasource and the same datasource wrapped in an empty filter list. -/
theorem C19_equiv_of_eval {Obs : Type} (zoneOk : String → Bool) (eval : DS → Obs)
    (hnorm : ∀ q, eval (normDS q) = eval q) (q : DS) (hv : ValidDS zoneOk q) :
    ∃ q', parseDatasourceDoc zoneOk (serDS q) = .ok q' ∧ eval q' = eval q :=
  ⟨normDS q, (C19_roundtrip zoneOk).1 q hv, hnorm q⟩

/-- The complete property (engine level): it needs the semantics of the engines (C10/C11), which this
    file does not model; it is carried by `C19_roundtrip` + the Go-vs-Go differential of the
    correspondence check.  `run` stands for `Execute` + collecting metadata and rows. -/
def C19_full_statement (Engine Obs : Type) (construct : DS → Option Engine) (run : Engine → Obs)
    (zoneOk : String → Bool) : Prop :=
  ∀ q : DS, match parseDatasourceDoc zoneOk (serDS q), construct q with
    | .ok q', some e => ∃ e', construct q' = some e' ∧ run e' = run e
    | .reject, none => True
    | _, _ => False

/-! #### non-vacuity (parser) -/

def exZone : String → Bool := fun z => z == "UTC"

/-- a reduction over two filtered static sources, wrapped in a report and back -/
def exQuery : DS :=
  .fromReport
    (.filtered
      (.fromDatasource
        (.reduction "sum" ⟨.custom 1800000 "UTC", some "linear"⟩
          (.list [
            .filtered (.static ⟨"a", "decimal", true, "kWh", []⟩ [⟨"2025-01-01T00:00:00Z", .num 15 1⟩])
              [.delta true ⟨100, 0⟩, .fieldValue (.numeric "-" .ref (.constant "decimal" (.num 1 0) true "")) ⟨"b", "", []⟩],
            .static ⟨"c", "decimal", true, "", [("site", .str "x")]⟩ []])
          ⟨"s", "", []⟩ (some (.nil "decimal" ""))))
      [.appendField (.reduce [] "max") ⟨"m", "", []⟩, .dropFields ["s"]])
    "m"

example : ValidDS exZone exQuery := by
  simp [exQuery, exZone, ValidDS, ValidRDS, ValidMDS, ValidDSs, ValidAligner, ValidPeriod, ValidFilter, ValidRFilter,
    ValidFieldMeta, ValidDec, counterRuleOk, fillModes, dataTypes]

example : normDS exQuery = exQuery := by
  simp [exQuery, normDS, normRDS, normMDS, normDSs]

end parser

end ShpanVerif.Props.C19
