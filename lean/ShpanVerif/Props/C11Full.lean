/-
C11 — `C11_plan_eq_ref`: the executable model agrees with the independent reference interpreter
(Model/QueryRef.lean) on EVERY reduction-free query tree: all ten value kinds (named `reduce` included), all seven
report filters (`drop`, `select` included), all datasource-package filters, statics, the three joins, both bridges.
This proves `C11_plan_eq_ref_full_statement` of Props/C11.lean.

The steps, each a theorem of its own (usable independently, every one extends the sub-language of the previous):
* `C11_plan_eq_ref_partial_1` — values: all ten kinds over ANY field list (duplicate urns included);
* `C11_plan_eq_ref_partial_2` — one report filter / a filter chain over a sound result (adds `drop`, `select`, named
  `reduce` to `C11_plan_eq_ref_partial`'s filters), exact: `collect` of the stream = reference rows or failure;
* `C11_plan_eq_ref_partial_3` — join-free, reduction-free trees with every filter and value, exact;
* `C11_plan_eq_ref_partial_4` — the three join machines on failure-free strictly increasing sources compute the
  relational joins (C09's list-level specification), and the join datasource's stream is the reference's `joinTables`;
* `C11_plan_eq_ref` (+ `_datasource`) — every reduction-free tree, with the lazy-failure reading for joins.

History (fix 5caebc0): while proving the named `reduce` the model and the reference were found to DIFFER inside a
`select` whose earlier entry re-uses an existing urn: the code compared the NUMBER of picked fields with the size of
the urn set, so over the field list `[a, a']` it accepted `reduce sum {a, b}` (b unknown) and rejected
`reduce sum {a}`.  The code was repaired (distinct found urns are counted), the model follows the repaired code, and
the two queries are now corpus witnesses (`corpus/C1{0,1}/R2-*.case`); `exShadowUnknown` / `exShadowKnown` below.
-/
import ShpanVerif.Proofs.QueryRefFull5

namespace ShpanVerif.Props.C11
open ShpanVerif.Model.Query ShpanVerif.Model.Query.Ref ShpanVerif.Model.JoinSpec ShpanVerif.Proofs.Query
  ShpanVerif.Props.C10 List

variable {D : Type} (O : Ops D)

/-- step 1, values: every value kind of the report package (named `reduce` included) over any field list -/
theorem C11_plan_eq_ref_partial_1 (v : RVal D) (fms : List FieldMeta) :
    match planRVal O v fms with
    | .ok p => typeR O v fms = some p.1 ∧ ∀ row, Conforms fms row → p.2 row = evalR O v fms row
    | .error _ => typeR O v fms = none := by
  have := planRVal_refN O v fms
  cases h : planRVal O v fms with
  | ok p => rw [h] at this; exact this
  | error e => rw [h] at this; exact this

/-- step 2, filters: any chain of report filters (append / drop / select / replace / single / override / where, any
values) applied to a sound result: rejected alike, or same metadata and `collect` of the stream = reference rows
(`none` = failure on both sides) -/
theorem C11_plan_eq_ref_partial_2 (fix : Bool) (fs : List (RFilter D)) {fms : List FieldMeta} {s : RStream D}
    (hs : RSound (fms, s)) :
    ResRef (applyRFs O fix fs (fms, s)) (filtersR O fix fs (fms, collect s)) :=
  applyRFs_refN O fix fs hs

/-- step 3, join-free trees (no join, no reduction datasource; everything else): exact equality with the reference -/
theorem C11_plan_eq_ref_partial_3 (fix : Bool) (from_ to : Int) :
    (∀ q : RDs D, WfR q → JoinFreeR q → ResRef (execR O fix from_ to q) (semR O fix from_ to q)) ∧
    (∀ q : DDs D, WfD q → JoinFreeD q → ResRefD (execD O fix from_ to q) (semD O fix from_ to q)) :=
  ⟨execR_refN O fix from_ to, execD_refN O fix from_ to⟩

/-- step 4, joins: on failure-free strictly increasing sources the three look-ahead machines deliver exactly the
relational joins, and the join datasource's stream is the reference's `joinTables` -/
theorem C11_plan_eq_ref_partial_4 {α : Type} (key : α → Int) (ls : List (List α)) (hs : ∀ l ∈ ls, StrictInc key l) :
    innerJoin key (ls.map (·.map some)) = (innerJoinN key ls).map some ∧
    leftJoin key (ls.map (·.map some)) = (leftJoinN key ls).map some ∧
    fullJoin key (ls.map (·.map some)) = (fullJoinN key ls).map some :=
  ⟨innerJoin_pure key ls hs, leftJoin_pure key ls hs, fullJoin_pure key ls hs⟩

theorem C11_join_streams (jt : JoinType) (tables : List (List FieldMeta × List (Row D)))
    (hs : ∀ t ∈ tables, StrictInc (fun r : Row D => r.ts) t.2) :
    collect (joinStreams jt (tables.map fun t => (t.1, t.2.map some))) = some (joinTables jt tables) :=
  joinStreams_pure jt tables hs

/-- **`C11_plan_eq_ref`**: the full statement of Props/C11.lean — every reduction-free tree (joins, drop, select,
named reduce included): `Execute` is rejected iff the reference rejects; otherwise the metadata are equal, and
whenever the reference produces rows the terminal returns exactly those rows -/
theorem C11_plan_eq_ref : C11_plan_eq_ref_full_statement :=
  fun _ O fix from_ to q hw hn => execR_lazy O fix from_ to q hw hn

/-- the same for trees of the datasource package (result read as a one-field table) -/
theorem C11_plan_eq_ref_datasource (fix : Bool) (from_ to : Int) (q : DDs D) (hw : WfD q) (hn : NoRedD q) :
    ResRefLazyD (execD O fix from_ to q) (semD O fix from_ to q) :=
  execD_lazy O fix from_ to q hw hn

/-! ## non-vacuity -/

/-- `C11_plan_eq_ref` applies to the inner join of C10's example tables -/
example : WfR exJoin ∧ NoRedR exJoin := ⟨exJoin_wf, by simp [exJoin, exQuery, exTable, NoRedR, NoRedRL]⟩

def exShadowTable : RDs Unit := .static [⟨"a", .integer, "", true, none⟩] [⟨1, [.int 5]⟩, ⟨2, [.int 7]⟩]

/-- select re-uses urn `a`, then reduces over `{a, b}`: `b` names no field (the shape of fix 5caebc0) -/
def exShadowUnknown : RDs Unit :=
  .filtered exShadowTable [.select [(.ref "a", ⟨"a", none, ""⟩), (.reduce .sum (some ["a", "b"]), ⟨"c", none, ""⟩)]]

/-- select re-uses urn `a`, then reduces over `{a}`: both fields named `a` are summed -/
def exShadowKnown : RDs Unit :=
  .filtered exShadowTable [.select [(.ref "a", ⟨"a", none, ""⟩), (.reduce .sum (some ["a"]), ⟨"c", none, ""⟩)]]

theorem exShadowTable_wf : WfR exShadowTable := by
  refine ⟨?_, ?_, ?_⟩
  · intro m hm
    simp only [List.mem_cons, List.not_mem_nil, or_false] at hm
    subst hm
    exact ⟨by decide, rfl⟩
  · intro r hr
    simp only [List.mem_cons, List.not_mem_nil, or_false] at hr
    rcases hr with rfl | rfl <;> exact ⟨rfl, trivial⟩
  · simp

/-- both are in the scope of `C11_plan_eq_ref`; model and reference reject the first and accept the second -/
example : WfR exShadowUnknown ∧ NoRedR exShadowUnknown ∧
    execR unitOps false 0 10 exShadowUnknown = .error .reduceMissing ∧
    semR unitOps false 0 10 exShadowUnknown = none :=
  ⟨exShadowTable_wf, trivial, rfl, rfl⟩

example : WfR exShadowKnown ∧ NoRedR exShadowKnown ∧
    (semR unitOps false 0 10 exShadowKnown).isSome = true :=
  ⟨exShadowTable_wf, trivial, rfl⟩

end ShpanVerif.Props.C11
