/-
C14 — reductions compute sum / avg / min / max / count of exactly the grouped values.

Main theorems (all inputs, all periods satisfying `Tiles`, all numbers of datasources / fields):
  * `C14_clusters`, `C14_groups_exact`     AlignReduceStream emits one record per maximal run of equal period
                                           start; for time-sorted input the runs are exactly the periods'
                                           contents (`filter`), each value in exactly one
  * `C14_sum_int/_rat`, `C14_avg`, `C14_min_*`, `C14_max_*`   the emitted value is List.sum / arithmetic mean /
                                           minimum / maximum of exactly the period's values
  * `C14_stream_minmax_*`                  stream.Min/Max = true extremum (zero value on the empty stream)
  * `C14_result_type`, `C14_reducer_dynamic_type`, `C14_count`, `C14_reducer_values_*`   tsquery tables / reducers
  * `C14_reduce_field`                     ReduceFieldValue = reducer of exactly the selected fields
  * `C14_join_rows`, `C14_reduction_rows`, `C14_reduction_type_sound`   ReductionDatasource
Decimal arithmetic is `Rat` here (the driver runs the same definitions over `Float`).
-/
import ShpanVerif.Model.Reduce
import ShpanVerif.Proofs.ClusterLemmas1415
import ShpanVerif.Proofs.ReduceLemmas
import ShpanVerif.Proofs.JoinLemmas1415
import ShpanVerif.Proofs.AlignFilterLemmas1415

namespace ShpanVerif.Props.C14
open List ShpanVerif.Model.TsB ShpanVerif.Model.Reduce
open ShpanVerif.Proofs.Cl1415 ShpanVerif.Proofs.Red ShpanVerif.Proofs.Join1415

variable {ν δ : Type}

/-- Records sorted by time (instants; equal instants allowed). -/
def TimeSorted (xs : List (Rec ν)) : Prop := xs.Pairwise (fun a b => a.ts.inst ≤ b.ts.inst)

/-- The values of the records of `xs` whose timestamp lies in the period starting at `s`. -/
def periodValues (p : Period) (xs : List (Rec ν)) (s : Int) : List ν :=
  (xs.filter (fun x => p.start x.ts.inst == s)).map (·.v)

theorem tiles_mono {p : Period} (hT : Tiles p) {u t : Int} (h : u ≤ t) : p.start u ≤ p.start t := by
  by_cases hlt : p.start u ≤ p.start t
  · exact hlt
  · have h1 := hT.start_le u
    have := hT.same_start t u (by omega) h
    omega

theorem timeSorted_keys {p : Period} (hT : Tiles p) {xs : List (Rec ν)} (hs : TimeSorted xs) :
    xs.Pairwise (fun a b => p.start a.ts.inst ≤ p.start b.ts.inst) :=
  hs.imp (fun h => tiles_mono hT h)

/-- **AlignReduceStream, any input**: one record per maximal run of equal period start, stamped with that
start (in the period's location), carrying the reducer's value over exactly the run's values. -/
theorem C14_clusters (p : Period) (N : Num ν δ) (red : TsReducer) (xs : List (Rec ν)) :
    alignReduce p N red xs =
      (runs (fun (r : Rec ν) => p.start r.ts.inst) xs).map
        (fun kg => { ts := ⟨kg.1, p.loc⟩, v := applyTsReducer N red (kg.2.map (·.v)) }) := by
  unfold alignReduce
  rw [clustersAll_eq_runs]
  generalize runs (fun (r : Rec ν) => p.start r.ts.inst) xs = rs
  generalize (none : Option (Rec ν)) = lp
  induction rs generalizing lp with
  | nil => rfl
  | cons r rs ih => obtain ⟨k, g⟩ := r; simp [attachPrev, ih]

/-- **The clusters of a time-sorted series under a tiling period are exactly the periods' contents**:
they partition the input (every record in exactly one, in order), their starts strictly increase and are
exactly the period starts that contain input, and each cluster is the `filter` of the input by its period. -/
theorem C14_groups_exact {p : Period} (hT : Tiles p) {xs : List (Rec ν)} (hs : TimeSorted xs) :
    let rs := runs (fun (r : Rec ν) => p.start r.ts.inst) xs
    rs.flatMap (·.2) = xs ∧
    (rs.map (·.1)).Pairwise (· < ·) ∧
    (∀ s, s ∈ rs.map (·.1) ↔ ∃ x ∈ xs, p.start x.ts.inst = s) ∧
    ∀ kg ∈ rs, kg.2 ≠ [] ∧ kg.2 = xs.filter (fun x => p.start x.ts.inst == kg.1) := by
  intro rs
  obtain ⟨hlt, hfilt⟩ := runs_sorted (fun (r : Rec ν) => p.start r.ts.inst) xs (timeSorted_keys hT hs)
  have hkeys := runs_keys (fun (r : Rec ν) => p.start r.ts.inst) xs
  refine ⟨runs_flatten _ xs, hlt, ?_, fun kg hkg => ⟨(hkeys kg hkg).1, hfilt kg hkg⟩⟩
  intro s
  constructor
  · intro hmem
    obtain ⟨kg, hkg, rfl⟩ := mem_map.mp hmem
    obtain ⟨hne, hall⟩ := hkeys kg hkg
    obtain ⟨y, hy⟩ := exists_mem_of_ne_nil _ hne
    exact ⟨y, mem_of_mem_runs _ xs kg hkg y hy, hall y hy⟩
  · rintro ⟨x, hx, rfl⟩
    obtain ⟨kg, hkg, hxkg⟩ := mem_runs_of_mem (fun (r : Rec ν) => p.start r.ts.inst) xs x hx
    exact mem_map.mpr ⟨kg, hkg, ((hkeys kg hkg).2 x hxkg).symm⟩

/-- **AlignReduceStream on a time-sorted series**: there is a strictly increasing list of period starts —
exactly those whose period contains input — and the output is, for each of them in order, the reducer's
value over exactly the values of that period. -/
theorem C14_align_reduce_exact {p : Period} (hT : Tiles p) (N : Num ν δ) (red : TsReducer)
    {xs : List (Rec ν)} (hs : TimeSorted xs) :
    ∃ starts : List Int, starts.Pairwise (· < ·) ∧
      (∀ s, s ∈ starts ↔ ∃ x ∈ xs, p.start x.ts.inst = s) ∧
      (∀ s ∈ starts, periodValues p xs s ≠ []) ∧
      alignReduce p N red xs =
        starts.map (fun s => { ts := ⟨s, p.loc⟩, v := applyTsReducer N red (periodValues p xs s) }) := by
  obtain ⟨_, hlt, hmem, hfilt⟩ := C14_groups_exact hT hs
  refine ⟨(runs (fun (r : Rec ν) => p.start r.ts.inst) xs).map (·.1), hlt, hmem, ?_, ?_⟩
  · intro s hs'
    obtain ⟨kg, hkg, rfl⟩ := mem_map.mp hs'
    obtain ⟨hne, heq⟩ := hfilt kg hkg
    unfold periodValues
    rw [← heq]
    simpa using hne
  · rw [C14_clusters, map_map]
    apply map_congr_left
    intro kg hkg
    simp only [Function.comp, periodValues, ← (hfilt kg hkg).2]

/-- Replace the reducer by a list-level function that agrees with it on non-empty groups. -/
theorem align_reduce_with {p : Period} (hT : Tiles p) (N : Num ν δ) (red : TsReducer)
    (f : List ν → ν) (hf : ∀ g, g ≠ [] → applyTsReducer N red g = f g)
    {xs : List (Rec ν)} (hs : TimeSorted xs) :
    ∃ starts : List Int, starts.Pairwise (· < ·) ∧
      (∀ s, s ∈ starts ↔ ∃ x ∈ xs, p.start x.ts.inst = s) ∧
      alignReduce p N red xs = starts.map (fun s => { ts := ⟨s, p.loc⟩, v := f (periodValues p xs s) }) := by
  obtain ⟨starts, h1, h2, h3, h4⟩ := C14_align_reduce_exact hT N red hs
  refine ⟨starts, h1, h2, ?_⟩
  rw [h4]
  apply map_congr_left
  intro s hs'
  rw [hf _ (h3 s hs')]

/-- **C14_sum (int64)**: the emitted value is the sum of exactly the period's values. -/
theorem C14_sum_int {p : Period} (hT : Tiles p) (D : Dec δ) {xs : List (Rec Int)} (hs : TimeSorted xs) :
    ∃ starts : List Int, starts.Pairwise (· < ·) ∧
      (∀ s, s ∈ starts ↔ ∃ x ∈ xs, p.start x.ts.inst = s) ∧
      alignReduce p (Num.int D) .sum xs =
        starts.map (fun s => { ts := ⟨s, p.loc⟩, v := (periodValues p xs s).sum }) :=
  align_reduce_with hT (Num.int D) .sum List.sum (fun g _ => tsSum_int D g) hs

/-- **C14_sum (decimal, exact arithmetic)**. -/
theorem C14_sum_rat {p : Period} (hT : Tiles p) {xs : List (Rec Rat)} (hs : TimeSorted xs) :
    ∃ starts : List Int, starts.Pairwise (· < ·) ∧
      (∀ s, s ∈ starts ↔ ∃ x ∈ xs, p.start x.ts.inst = s) ∧
      alignReduce p (Num.dec Dec.rat) .sum xs =
        starts.map (fun s => { ts := ⟨s, p.loc⟩, v := (periodValues p xs s).sum }) :=
  align_reduce_with hT (Num.dec Dec.rat) .sum List.sum (fun g _ => tsSum_rat g) hs

/-- The running update `avg = avg*count/(count+1) + v/(count+1); count++` computes the arithmetic mean. -/
theorem C14_running_average (g : List Rat) (_hg : g ≠ []) :
    tsAvg (Num.dec Dec.rat) g = g.sum / (g.length : Rat) := by
  unfold tsAvg
  have h := avg_fold_rat g 0 0 (fun _ => rfl)
  have hz : (Num.dec Dec.rat).zero = (0 : Rat) := rfl
  rw [hz, h]
  simp [Rat.zero_add]

/-- **C14_avg**: the emitted value is the arithmetic mean of exactly the period's values. -/
theorem C14_avg {p : Period} (hT : Tiles p) {xs : List (Rec Rat)} (hs : TimeSorted xs) :
    ∃ starts : List Int, starts.Pairwise (· < ·) ∧
      (∀ s, s ∈ starts ↔ ∃ x ∈ xs, p.start x.ts.inst = s) ∧
      alignReduce p (Num.dec Dec.rat) .avg xs =
        starts.map (fun s => { ts := ⟨s, p.loc⟩,
                               v := (periodValues p xs s).sum / ((periodValues p xs s).length : Rat) }) :=
  align_reduce_with hT (Num.dec Dec.rat) .avg (fun g => g.sum / (g.length : Rat))
    (fun g hg => C14_running_average g hg) hs

/-! ### stream.Min / Max -/

/-- `m` is a maximum of `xs` for the strict order `lt`. -/
def IsMaxOf (lt : ν → ν → Bool) (xs : List ν) (m : ν) : Prop := m ∈ xs ∧ ∀ y ∈ xs, lt m y = false
/-- `m` is a minimum of `xs`. -/
def IsMinOf (lt : ν → ν → Bool) (xs : List ν) (m : ν) : Prop := m ∈ xs ∧ ∀ y ∈ xs, lt y m = false

/-- **C14_stream_minmax** (any ordered type without NaN): `stream.Max/MaxLazy` of a non-empty stream is an
element of it that no element exceeds; `stream.Min/MinLazy` dually; the empty stream gives the zero value. -/
theorem C14_stream_minmax (N : Num ν δ) (hlt : StrictTotal N.lt) (xs : List ν) :
    (xs ≠ [] → IsMaxOf N.lt xs (streamMax N xs) ∧ IsMinOf N.lt xs (streamMin N xs)) ∧
    (xs = [] → streamMax N xs = N.zero ∧ streamMin N xs = N.zero) := by
  constructor
  · intro hne
    obtain ⟨x, r, rfl⟩ := exists_cons_of_ne_nil hne
    simp only [streamMax, streamMin, streamExtremum, foldl_extremumStep, Option.getD_some]
    exact ⟨foldl_goMax hlt r x, foldl_goMin hlt r x⟩
  · rintro rfl
    simp [streamMax, streamMin, streamExtremum]

theorem goMax_int (D : Dec δ) (a b : Int) : goMax (Num.int D).lt a b = max a b := by
  simp only [goMax, Num.int, decide_eq_true_eq, Int.max_def]; split <;> split <;> omega

theorem goMin_int (D : Dec δ) (a b : Int) : goMin (Num.int D).lt a b = min a b := by
  simp only [goMin, Num.int, decide_eq_true_eq, Int.min_def]; split <;> split <;> omega

theorem goMax_rat (a b : Rat) : goMax (Num.dec Dec.rat).lt a b = max a b := by
  simp only [goMax, Num.dec, Dec.rat, decide_eq_true_eq, Rat.max_def]; split <;> split <;> grind

theorem goMin_rat (a b : Rat) : goMin (Num.dec Dec.rat).lt a b = min a b := by
  simp only [goMin, Num.dec, Dec.rat, decide_eq_true_eq, Rat.min_def]; split <;> split <;> grind

/-- **C14_stream_minmax (int64)**: `stream.Max = List.max?`, `stream.Min = List.min?`, 0 on the empty stream. -/
theorem C14_stream_minmax_int (D : Dec δ) (xs : List Int) :
    streamMax (Num.int D) xs = xs.max?.getD 0 ∧ streamMin (Num.int D) xs = xs.min?.getD 0 := by
  cases xs with
  | nil => simp [streamMax, streamMin, streamExtremum, Num.int]
  | cons x r =>
    simp only [streamMax, streamMin, streamExtremum, foldl_extremumStep, Option.getD_some, max?_cons',
      min?_cons']
    exact ⟨foldl_congr_fun _ _ (goMax_int D) r x, foldl_congr_fun _ _ (goMin_int D) r x⟩

/-- **C14_stream_minmax (float64 as exact rationals)**. -/
theorem C14_stream_minmax_rat (xs : List Rat) :
    streamMax (Num.dec Dec.rat) xs = xs.max?.getD 0 ∧ streamMin (Num.dec Dec.rat) xs = xs.min?.getD 0 := by
  cases xs with
  | nil => simp [streamMax, streamMin, streamExtremum, Num.dec, Dec.rat]
  | cons x r =>
    simp only [streamMax, streamMin, streamExtremum, foldl_extremumStep, Option.getD_some, max?_cons',
      min?_cons']
    exact ⟨foldl_congr_fun _ _ goMax_rat r x, foldl_congr_fun _ _ goMin_rat r x⟩

/-- **C14_max (int64)**: the emitted value is the maximum of exactly the period's values. -/
theorem C14_max_int {p : Period} (hT : Tiles p) (D : Dec δ) {xs : List (Rec Int)} (hs : TimeSorted xs) :
    ∃ starts : List Int, starts.Pairwise (· < ·) ∧
      (∀ s, s ∈ starts ↔ ∃ x ∈ xs, p.start x.ts.inst = s) ∧
      alignReduce p (Num.int D) .max xs =
        starts.map (fun s => { ts := ⟨s, p.loc⟩, v := (periodValues p xs s).max?.getD 0 }) :=
  align_reduce_with hT (Num.int D) .max (fun g => g.max?.getD 0)
    (fun g _ => (C14_stream_minmax_int D g).1) hs

/-- **C14_min (int64)**. -/
theorem C14_min_int {p : Period} (hT : Tiles p) (D : Dec δ) {xs : List (Rec Int)} (hs : TimeSorted xs) :
    ∃ starts : List Int, starts.Pairwise (· < ·) ∧
      (∀ s, s ∈ starts ↔ ∃ x ∈ xs, p.start x.ts.inst = s) ∧
      alignReduce p (Num.int D) .min xs =
        starts.map (fun s => { ts := ⟨s, p.loc⟩, v := (periodValues p xs s).min?.getD 0 }) :=
  align_reduce_with hT (Num.int D) .min (fun g => g.min?.getD 0)
    (fun g _ => (C14_stream_minmax_int D g).2) hs

/-- **C14_max (decimal)**. -/
theorem C14_max_rat {p : Period} (hT : Tiles p) {xs : List (Rec Rat)} (hs : TimeSorted xs) :
    ∃ starts : List Int, starts.Pairwise (· < ·) ∧
      (∀ s, s ∈ starts ↔ ∃ x ∈ xs, p.start x.ts.inst = s) ∧
      alignReduce p (Num.dec Dec.rat) .max xs =
        starts.map (fun s => { ts := ⟨s, p.loc⟩, v := (periodValues p xs s).max?.getD 0 }) :=
  align_reduce_with hT (Num.dec Dec.rat) .max (fun g => g.max?.getD 0)
    (fun g _ => (C14_stream_minmax_rat g).1) hs

/-- **C14_min (decimal)**. -/
theorem C14_min_rat {p : Period} (hT : Tiles p) {xs : List (Rec Rat)} (hs : TimeSorted xs) :
    ∃ starts : List Int, starts.Pairwise (· < ·) ∧
      (∀ s, s ∈ starts ↔ ∃ x ∈ xs, p.start x.ts.inst = s) ∧
      alignReduce p (Num.dec Dec.rat) .min xs =
        starts.map (fun s => { ts := ⟨s, p.loc⟩, v := (periodValues p xs s).min?.getD 0 }) :=
  align_reduce_with hT (Num.dec Dec.rat) .min (fun g => g.min?.getD 0)
    (fun g _ => (C14_stream_minmax_rat g).2) hs

/-- The extremum reported for a period is a true extremum of the period's values (any numeric type). -/
theorem C14_minmax_true_extremum (N : Num ν δ) (hlt : StrictTotal N.lt) (g : List ν) (hg : g ≠ []) :
    IsMaxOf N.lt g (applyTsReducer N .max g) ∧ IsMinOf N.lt g (applyTsReducer N .min g) :=
  (C14_stream_minmax N hlt g).1 hg

/-! ### tsquery tables and reducer functions -/

/-- **C14_result_type**: decimal for avg, integer for count, the input type otherwise (whole table). -/
theorem C14_result_type (r : Reduction) (dt : DType) :
    r.resultType dt = (match r with | .avg => DType.decimal | .count => DType.integer | _ => dt) := by
  cases r <;> rfl

/-- The identity table: only `count` changes a single value. -/
theorem C14_identity_table (r : Reduction) : r.useIdentity = true ↔ r ≠ .count := by
  cases r <;> simp [Reduction.useIdentity]

theorem mapM_asInt (ns : List Int) : (ns.map (Val.i (δ := δ))).mapM asInt = .ok ns := by
  induction ns with
  | nil => rfl
  | cons n ns ih => simp [mapM_cons, asInt, ih]; rfl

theorem mapM_asInt' (ns : List Int) : ns.mapM (asInt (δ := δ) ∘ Val.i) = .ok ns := by
  induction ns with
  | nil => rfl
  | cons n ns ih => simp [mapM_cons, asInt, ih]; rfl

theorem mapM_asDec' (xs : List δ) : xs.mapM (asDec ∘ Val.d) = .ok xs := by
  induction xs with
  | nil => rfl
  | cons n ns ih => simp [mapM_cons, asDec, ih]; rfl

theorem mapM_asDec (xs : List δ) : (xs.map Val.d).mapM asDec = .ok xs := by
  induction xs with
  | nil => rfl
  | cons n ns ih => simp [mapM_cons, asDec, ih]; rfl

/-- Values whose dynamic type is `integer` are `int64`s. -/
theorem all_int (vs : List (Val δ)) (h : ∀ v ∈ vs, v.dtype = .integer) : ∃ ns : List Int, vs = ns.map Val.i := by
  induction vs with
  | nil => exact ⟨[], rfl⟩
  | cons v vs ih =>
    obtain ⟨ns, rfl⟩ := ih (fun x hx => h x (by simp [hx]))
    cases v with
    | i n => exact ⟨n :: ns, rfl⟩
    | d x => have := h (.d x) (by simp); simp [Val.dtype] at this

theorem all_dec (vs : List (Val δ)) (h : ∀ v ∈ vs, v.dtype = .decimal) : ∃ xs : List δ, vs = xs.map Val.d := by
  induction vs with
  | nil => exact ⟨[], rfl⟩
  | cons v vs ih =>
    obtain ⟨ns, rfl⟩ := ih (fun x hx => h x (by simp [hx]))
    cases v with
    | d x => exact ⟨x :: ns, rfl⟩
    | i n => have := h (.i n) (by simp); simp [Val.dtype] at this

theorem foldl_min_int (ns : List Int) (m : Int) :
    ns.foldl (fun m x => if x < m then x else m) m = ns.foldl min m :=
  foldl_congr_fun _ _ (fun b a => by simp only [Int.min_def]; split <;> split <;> omega) ns m

theorem foldl_max_int (ns : List Int) (m : Int) :
    ns.foldl (fun m x => if x > m then x else m) m = ns.foldl max m :=
  foldl_congr_fun _ _ (fun b a => by simp only [Int.max_def]; split <;> split <;> omega) ns m

theorem foldl_min_rat (ns : List Rat) (m : Rat) :
    ns.foldl (fun m x => if Dec.rat.lt x m then x else m) m = ns.foldl min m :=
  foldl_congr_fun _ _
    (fun b a => by simp only [Dec.rat, decide_eq_true_eq, Rat.min_def]; split <;> split <;> grind) ns m

theorem foldl_max_rat (ns : List Rat) (m : Rat) :
    ns.foldl (fun m x => if Dec.rat.lt m x then x else m) m = ns.foldl max m :=
  foldl_congr_fun _ _
    (fun b a => by simp only [Dec.rat, decide_eq_true_eq, Rat.max_def]; split <;> split <;> grind) ns m

/-- **C14_count**: `count` yields the number of values as an integer, whatever they are. -/
theorem C14_count (D : Dec δ) (dt : DType) (vs : List (Val δ)) :
    reducerFunc D .count dt vs = .ok (.i vs.length) := rfl

/-- **Reducer values over int64 inputs**: sum = List.sum, avg = sum / length (as a decimal),
min / max = List.min? / max?. -/
theorem C14_reducer_values_int (ns : List Int) :
    reducerFunc Dec.rat .sum .integer (ns.map Val.i) = .ok (.i ns.sum) ∧
    reducerFunc Dec.rat .avg .integer (ns.map Val.i) = .ok (.d ((ns.sum : Int) / (ns.length : Rat))) ∧
    (ns ≠ [] → reducerFunc Dec.rat .min .integer (ns.map Val.i) = .ok (.i (ns.min?.getD 0)) ∧
               reducerFunc Dec.rat .max .integer (ns.map Val.i) = .ok (.i (ns.max?.getD 0))) := by
  refine ⟨?_, ?_, ?_⟩
  · simp [reducerFunc, sumInt, mapM_asInt', bind, Except.bind, pure, Except.pure, List.sum_eq_foldl]
  · simp [reducerFunc, avgInt, mapM_asInt', bind, Except.bind, pure, Except.pure, List.sum_eq_foldl, Dec.rat,
      Rat.intCast_natCast]
  · intro hne
    obtain ⟨n, r, rfl⟩ := exists_cons_of_ne_nil hne
    rw [max?_cons', min?_cons']
    simp [reducerFunc, minInt, maxInt, mapM_asInt', asInt, bind, Except.bind, pure, Except.pure,
      foldl_min_int, foldl_max_int]

/-- **Reducer values over decimal inputs** (exact arithmetic). -/
theorem C14_reducer_values_rat (xs : List Rat) :
    reducerFunc Dec.rat .sum .decimal (xs.map Val.d) = .ok (.d xs.sum) ∧
    reducerFunc Dec.rat .avg .decimal (xs.map Val.d) = .ok (.d (xs.sum / (xs.length : Rat))) ∧
    (xs ≠ [] → reducerFunc Dec.rat .min .decimal (xs.map Val.d) = .ok (.d (xs.min?.getD 0)) ∧
               reducerFunc Dec.rat .max .decimal (xs.map Val.d) = .ok (.d (xs.max?.getD 0))) := by
  have hsum : ∀ (l : List Rat), l.foldl Dec.rat.add Dec.rat.zero = l.sum := by
    intro l; simp [Dec.rat, List.sum_eq_foldl]
  refine ⟨?_, ?_, ?_⟩
  · simp [reducerFunc, sumDecimal, mapM_asDec', bind, Except.bind, pure, Except.pure, hsum]
  · simp [reducerFunc, avgDecimal, mapM_asDec', bind, Except.bind, pure, Except.pure, hsum]
    simp [Dec.rat, Rat.intCast_natCast]
  · intro hne
    obtain ⟨n, r, rfl⟩ := exists_cons_of_ne_nil hne
    rw [max?_cons', min?_cons']
    simp [reducerFunc, minDecimal, maxDecimal, mapM_asDec', asDec, bind, Except.bind, pure, Except.pure,
      foldl_min_rat, foldl_max_rat]

/-- **C14_reducer_dynamic_type**: on at least one value, all of the declared numeric type, every reducer
function succeeds (no failed type assertion) and the DYNAMIC type of its result is the documented result
type: decimal for avg, integer for count, the input type otherwise. -/
theorem C14_reducer_dynamic_type (D : Dec δ) (r : Reduction) (dt : DType) (hnum : dt.isNumeric = true)
    (vs : List (Val δ)) (hne : vs ≠ []) (hty : ∀ v ∈ vs, v.dtype = dt) :
    ∃ v, reducerFunc D r dt vs = .ok v ∧ v.dtype = r.resultType dt := by
  cases dt <;> simp [DType.isNumeric] at hnum
  · obtain ⟨ns, rfl⟩ := all_int vs hty
    obtain ⟨n, ns, rfl⟩ := exists_cons_of_ne_nil (by simpa using hne : ns ≠ [])
    cases r <;>
      simp [reducerFunc, sumInt, avgInt, minInt, maxInt, countValues, mapM_asInt', asInt, bind, Except.bind,
        pure, Except.pure, Val.dtype, Reduction.resultType]
  · obtain ⟨ns, rfl⟩ := all_dec vs hty
    obtain ⟨n, ns, rfl⟩ := exists_cons_of_ne_nil (by simpa using hne : ns ≠ [])
    cases r <;>
      simp [reducerFunc, sumDecimal, avgDecimal, minDecimal, maxDecimal, countValues, mapM_asDec', asDec, bind,
        Except.bind, pure, Except.pure, Val.dtype, Reduction.resultType]

/-! ### acceptance checks -/

theorem checkMetasTail_ok (dt : DType) (ms : List FMeta) :
    checkMetasTail dt ms = .ok () ↔ ∀ m ∈ ms, m.dtype = dt ∧ m.required = true := by
  induction ms with
  | nil => simp [checkMetasTail]
  | cons m ms ih =>
    simp only [checkMetasTail]
    by_cases h1 : m.dtype = dt
    · by_cases h2 : m.required = true
      · simp [h1, h2, ih]
      · simp [h1, h2]
    · simp [h1]

/-- A list of metas is accepted iff it is non-empty, numeric, of one type, and all required. -/
theorem checkMetas_ok (ms : List FMeta) (dt : DType) :
    checkMetas ms = .ok dt ↔ ms ≠ [] ∧ dt.isNumeric = true ∧ ∀ m ∈ ms, m.dtype = dt ∧ m.required = true := by
  cases ms with
  | nil => simp [checkMetas]
  | cons m ms =>
    simp only [checkMetas]
    by_cases h1 : m.dtype.isNumeric = true
    · by_cases h2 : m.required = true
      · simp only [h1, h2, Bool.not_true, Bool.false_eq_true, if_false]
        cases ht : checkMetasTail m.dtype ms with
        | error e =>
          simp only [bind, Except.bind, ne_eq, reduceCtorEq, not_false_eq_true, mem_cons, forall_eq_or_imp,
            true_and, false_iff, not_and]
          intro _ hdt hrest
          obtain ⟨hdt, _⟩ := hdt
          subst hdt
          have := (checkMetasTail_ok m.dtype ms).mpr hrest
          rw [ht] at this; cases this
        | ok u =>
          have := (checkMetasTail_ok m.dtype ms).mp (by rw [ht])
          simp only [bind, Except.bind, pure, Except.pure, Except.ok.injEq, ne_eq, reduceCtorEq,
            not_false_eq_true, mem_cons, forall_eq_or_imp, true_and]
          constructor
          · rintro rfl; exact ⟨h1, ⟨rfl, h2⟩, this⟩
          · rintro ⟨_, ⟨h, _⟩, _⟩; exact h
      · simp only [h1, h2, Bool.not_true, Bool.false_eq_true, if_false, Bool.not_false, if_true, reduceCtorEq,
          false_iff, not_and]
        intro _ _ h; exact absurd (h m (by simp)).2 h2
    · simp only [h1, Bool.not_false, if_true, reduceCtorEq, false_iff, not_and]
      intro _ hn h
      rw [(h m (by simp)).1] at h1
      exact absurd hn h1

/-! ### ReduceFieldValue -/

/-- The fields a selection picks: all of them, or those whose urn was requested. -/
def selected (sel : Option (List Nat)) (im : Nat × FMeta) : Bool :=
  match sel with
  | none => true
  | some urns => urns.contains im.2.urn

theorem pickFields_spec (sel : Option (List Nat)) (fields : List FMeta) (idx : List (Nat × FMeta))
    (h : pickFields sel fields = .ok idx) :
    idx = (List.zip (List.range fields.length) fields).filter (selected sel) ∧ idx ≠ [] := by
  unfold pickFields at h
  cases sel with
  | none =>
    simp only at h
    split at h
    · simp at h
    · rename_i hne
      simp only [Except.ok.injEq] at h; subst h
      refine ⟨?_, by simpa using hne⟩
      symm; rw [filter_eq_self]; intro a _; rfl
  | some urns =>
    simp only at h
    split at h
    · simp at h
    · split at h
      · simp at h
      · rename_i hne
        simp only [Except.ok.injEq] at h; subst h
        refine ⟨?_, by simpa using hne⟩
        apply filter_congr
        intro im _
        simp only [selected]
        rw [Bool.eq_iff_iff, contains_iff_mem, contains_iff_mem, mem_eraseDups]

/-- **C14_reduce_field**: when ReduceFieldValue accepts, the selected fields are exactly those picked by urn
(all of them without a selection), at least one, all required and of one numeric type `dt`; the declared
result type is the documented one; and every row's value is the reducer function over exactly the selected
fields' values, in field order. -/
theorem C14_reduce_field (D : Dec δ) (r : Reduction) (sel : Option (List Nat)) (fields : List FMeta)
    (rt : DType) (f : List (Val δ) → Except Err (Val δ))
    (h : reduceFieldExecute D r sel fields = .ok (rt, f)) :
    ∃ dt, let idx := (List.zip (List.range fields.length) fields).filter (selected sel)
      idx ≠ [] ∧ dt.isNumeric = true ∧ (∀ im ∈ idx, im.2.dtype = dt ∧ im.2.required = true) ∧
      rt = r.resultType dt ∧
      ∀ row, f row = reducerFunc D r dt (idx.map (fun im => row.getD im.1 (.i 0))) := by
  unfold reduceFieldExecute at h
  cases hp : pickFields sel fields with
  | error e => simp [hp] at h
  | ok idx =>
    obtain ⟨hidx, hne⟩ := pickFields_spec sel fields idx hp
    simp only [hp] at h
    cases hc : checkMetas (idx.map (·.2)) with
    | error e => simp [hc] at h
    | ok dt =>
      simp only [hc, Except.ok.injEq, Prod.mk.injEq] at h
      obtain ⟨rfl, rfl⟩ := h
      obtain ⟨_, hnum, hall⟩ := (checkMetas_ok _ dt).mp hc
      refine ⟨dt, ?_⟩
      simp only
      rw [← hidx]
      exact ⟨hne, hnum, fun im him => hall im.2 (mem_map.mpr ⟨im, him, rfl⟩), trivial, fun _ => rfl⟩

/-- … and on a row whose selected cells hold values of the declared type, the value has the documented
result type as its dynamic type (decimal for avg, integer for count, the input type otherwise). -/
theorem C14_reduce_field_type_sound (D : Dec δ) (r : Reduction) (sel : Option (List Nat)) (fields : List FMeta)
    (rt : DType) (f : List (Val δ) → Except Err (Val δ))
    (h : reduceFieldExecute D r sel fields = .ok (rt, f)) (row : List (Val δ))
    (hrow : ∀ im ∈ (List.zip (List.range fields.length) fields).filter (selected sel),
      (row.getD im.1 (.i 0)).dtype = im.2.dtype) :
    ∃ v, f row = .ok v ∧ v.dtype = rt := by
  obtain ⟨dt, hne, hnum, hall, rfl, hf⟩ := C14_reduce_field D r sel fields rt f h
  rw [hf row]
  apply C14_reducer_dynamic_type D r dt hnum
  · simpa using hne
  · intro v hv
    obtain ⟨im, him, rfl⟩ := mem_map.mp hv
    rw [hrow im him, (hall im him).1]

/-! ### ReductionDatasource -/

/-- the join key of aligned records: the instant of the timestamp -/
abbrev tsKey (x : Rec (Val δ)) : Int := x.ts.inst

theorem lookups_mem {α : Type} (key : α → Int) (k : Int) :
    ∀ (rest : List (List α)) (ys : List α), lookups key k rest = some ys →
      ys.length = rest.length ∧ ∀ y ∈ ys, key y = k ∧ ∃ t ∈ rest, y ∈ t := by
  intro rest
  induction rest with
  | nil => intro ys h; simp [lookups] at h; subst h; simp
  | cons t ts ih =>
    intro ys h
    simp only [lookups] at h
    split at h
    · rename_i y ys' hf hl
      simp only [Option.some.injEq] at h; subst h
      obtain ⟨i1, i2⟩ := ih ys' hl
      refine ⟨by simp [i1], ?_⟩
      intro z hz
      rcases mem_cons.mp hz with rfl | hz
      · exact ⟨by simpa using find?_some hf, t, by simp, mem_of_find?_eq_some hf⟩
      · obtain ⟨h1, t', ht', hz'⟩ := i2 z hz
        exact ⟨h1, t', by simp [ht'], hz'⟩
    · simp at h

/-- Every row of `commonRows` consists of one record from every input, all with the same key, the first
input's record first. -/
theorem commonRows_mem {α : Type} (key : α → Int) (s : List α) (rest : List (List α)) (hs : List α)
    (h : hs ∈ commonRows key (s :: rest)) :
    ∃ x ys, hs = x :: ys ∧ x ∈ s ∧ ys.length = rest.length ∧ ∀ y ∈ ys, key y = key x ∧ ∃ t ∈ rest, y ∈ t := by
  simp only [commonRows, mem_filterMap] at h
  obtain ⟨x, hx, hrow⟩ := h
  cases hl : lookups key (key x) rest with
  | none => simp [hl] at hrow
  | some ys =>
    simp only [hl, Option.map_some, Option.some.injEq] at hrow
    obtain ⟨h1, h2⟩ := lookups_mem key (key x) rest ys hl
    exact ⟨x, ys, hrow.symm, hx, h1, h2⟩

theorem mapUntilErr_ok {α β : Type} (f : α → Except Err β) (P : β → Prop) (l : List α)
    (h : ∀ a ∈ l, ∃ b, f a = .ok b ∧ P b) :
    ∃ bs, mapUntilErr f l = (bs, none) ∧ bs.length = l.length ∧ ∀ b ∈ bs, P b := by
  induction l with
  | nil => exact ⟨[], rfl, rfl, by simp⟩
  | cons a l ih =>
    obtain ⟨b, hb, hP⟩ := h a (by simp)
    obtain ⟨bs, h1, h2, h3⟩ := ih (fun x hx => h x (by simp [hx]))
    refine ⟨b :: bs, by simp [mapUntilErr, hb, h1], by simp [h2], ?_⟩
    intro x hx
    rcases mem_cons.mp hx with rfl | hx
    · exact hP
    · exact h3 x hx

/-- **C14_join_rows**: the inner join of aligned streams (strictly increasing timestamps) delivers exactly
one row per timestamp of the first stream that is present in ALL streams, in order, made of the records
with that timestamp, and then ends normally. -/
theorem C14_join_rows (as : List (List (Rec (Val δ)))) (hne : as ≠ [])
    (hsorted : ∀ a ∈ as, StrictKeys tsKey a) :
    joinStreams tsKey as = (commonRows tsKey as, none) :=
  joinStreams_spec tsKey as hne hsorted

theorem joinedData_eq (D : Dec δ) (r : Reduction) (dt : DType) (as : List (List (Rec (Val δ)))) (hne : as ≠ [])
    (hsorted : ∀ a ∈ as, StrictKeys tsKey a) :
    joinedData D r dt (as.map (fun a => (a, none))) = mapUntilErr (rowOf D r dt) (commonRows tsKey as) := by
  unfold joinedData
  have hfind : (as.map (fun a => ((a, none) : SRes (Rec (Val δ))))).find? (fun a => a.2.isSome) = none := by
    rw [find?_eq_none]; intro x hx; obtain ⟨a, _, rfl⟩ := mem_map.mp hx; simp
  have hjoin : joinStreams (fun (x : Rec (Val δ)) => x.ts.inst) as
      = (commonRows (fun (x : Rec (Val δ)) => x.ts.inst) as, none) := C14_join_rows as hne hsorted
  simp only [hfind, map_map, Function.comp_def, map_id', hjoin]
  show (_, _) = mapUntilErr (rowOf D r dt) (commonRows (fun (x : Rec (Val δ)) => x.ts.inst) as)
  generalize mapUntilErr (rowOf D r dt) (commonRows (fun (x : Rec (Val δ)) => x.ts.inst) as) = out
  obtain ⟨o1, o2⟩ := out
  cases o2 <;> rfl

/-- A reduction that may use the single-datasource shortcut does not change a well-typed single value. -/
theorem identity_single (r : Reduction) (dt : DType) (v : Val Rat) (hid : r.useIdentity = true)
    (hrt : r.resultType dt = dt) (hnum : dt.isNumeric = true) (hv : v.dtype = dt) :
    reducerFunc Dec.rat r dt [v] = .ok v := by
  cases dt <;> simp [DType.isNumeric] at hnum <;> cases v <;> simp [Val.dtype] at hv <;> cases r <;>
    simp [Reduction.useIdentity, Reduction.resultType] at hid hrt <;>
    simp [reducerFunc, sumInt, minInt, maxInt, sumDecimal, avgDecimal, minDecimal, maxDecimal, asInt, asDec,
      bind, Except.bind, pure, Except.pure, Dec.rat, Rat.zero_add] <;> grind

/-- **C14_reduction_rows**: over aligned datasources (strictly increasing timestamps, values of the declared
numeric type) the data of the ReductionDatasource is one row per timestamp present in ALL datasources, in
order, stamped with it, whose value is the reducer function over exactly the datasources' values at that
timestamp in datasource order — also when the single-datasource shortcut is taken. -/
theorem C14_reduction_rows (r : Reduction) (dt : DType) (as : List (List (Rec (Val Rat)))) (hne : as ≠ [])
    (hsorted : ∀ a ∈ as, StrictKeys tsKey a) (hnum : dt.isNumeric = true)
    (hty : ∀ a ∈ as, ∀ x ∈ a, x.v.dtype = dt) :
    reductionData Dec.rat r dt (as.map (fun a => (a, none))) =
      mapUntilErr (rowOf Dec.rat r dt) (commonRows tsKey as) := by
  unfold reductionData
  match as, hne with
  | [a], _ =>
    simp only [map_cons, map_nil]
    split
    · rename_i hcond
      simp only [Bool.and_eq_true, beq_iff_eq] at hcond
      simp only [commonRows, lookups, Option.map_some]
      have hta := hty a (by simp)
      clear hsorted hty hne
      rename_i hne'
      clear hne'
      induction a with
      | nil => rfl
      | cons x a ih =>
        have hx := identity_single r dt x.v hcond.1 hcond.2 hnum (hta x (by simp))
        simp only [filterMap_cons, mapUntilErr, rowOf, map_cons, map_nil, hx, Except.map]
        rw [← ih (fun y hy => hta y (by simp [hy]))]
    · exact joinedData_eq Dec.rat r dt [a] (by simp) hsorted
  | a :: b :: rest, _ =>
    exact joinedData_eq Dec.rat r dt (a :: b :: rest) (by simp) hsorted

/-- **C14_reduction_type_sound**: … and no row fails, every row value has the documented result type as its
dynamic type (this is what D11 violated: avg over a single integer datasource). -/
theorem C14_reduction_type_sound (r : Reduction) (dt : DType) (as : List (List (Rec (Val Rat)))) (hne : as ≠ [])
    (hsorted : ∀ a ∈ as, StrictKeys tsKey a) (hnum : dt.isNumeric = true)
    (hty : ∀ a ∈ as, ∀ x ∈ a, x.v.dtype = dt) :
    ∃ rows, reductionData Dec.rat r dt (as.map (fun a => (a, none))) = (rows, none) ∧
      rows.length = (commonRows tsKey as).length ∧ ∀ x ∈ rows, x.v.dtype = r.resultType dt := by
  rw [C14_reduction_rows r dt as hne hsorted hnum hty]
  apply mapUntilErr_ok
  intro hs hhs
  obtain ⟨a, rest, rfl⟩ := exists_cons_of_ne_nil hne
  obtain ⟨x, ys, rfl, hx, _, hys⟩ := commonRows_mem tsKey a rest hs hhs
  obtain ⟨v, hv, hvt⟩ := C14_reducer_dynamic_type Dec.rat r dt hnum ((x :: ys).map (·.v)) (by simp) (by
    intro w hw
    obtain ⟨y, hy, rfl⟩ := mem_map.mp hw
    rcases mem_cons.mp hy with rfl | hy
    · exact hty a (by simp) y hx
    · obtain ⟨_, t, ht, hyt⟩ := hys y hy
      exact hty t (by simp [ht]) y hyt)
  simp only [map_cons] at hv
  exact ⟨⟨x.ts, v⟩, by simp [rowOf, hv, Except.map], hvt⟩

/-- **C14_reduction_accept**: `Execute` accepts iff there is at least one datasource and all are numeric, of
one type and required; it then declares the documented result type and its data is `reductionData` over the
aligned datasources. -/
theorem C14_reduction_accept (D : Dec δ) (p : Period) (r : Reduction) (dss : List (DS δ)) (rt : DType)
    (data : SRes (Rec (Val δ))) :
    reductionDatasource D p r dss = .ok (rt, data) ↔
      ∃ dt, dss ≠ [] ∧ dt.isNumeric = true ∧ (∀ ds ∈ dss, ds.dtype = dt ∧ ds.required = true) ∧
        rt = r.resultType dt ∧
        data = reductionData D r dt (dss.map (fun ds => alignFilter D p ds.dtype ds.recs)) := by
  unfold reductionDatasource
  constructor
  · intro h
    split at h
    · simp at h
    · split at h
      · simp at h
      · rename_i hne
        cases hc : checkMetas (dss.map (fun ds => ⟨1, ds.dtype, ds.required⟩)) with
        | error e => simp [hc] at h
        | ok dt =>
          simp only [hc, Except.ok.injEq, Prod.mk.injEq] at h
          obtain ⟨_, hnum, hall⟩ := (checkMetas_ok _ dt).mp hc
          refine ⟨dt, by simpa using hne, hnum, ?_, h.1.symm, h.2.symm⟩
          intro ds hds
          exact hall ⟨1, ds.dtype, ds.required⟩ (mem_map.mpr ⟨ds, hds, rfl⟩)
  · rintro ⟨dt, hne, hnum, hall, rfl, rfl⟩
    have h1 : dss.any (fun ds => !ds.dtype.isNumeric) = false := by
      rw [any_eq_false]; intro ds hds; rw [(hall ds hds).1, hnum]; simp
    have h2 : dss.isEmpty = false := by cases dss <;> simp_all
    have hc : checkMetas (dss.map (fun ds => ⟨1, ds.dtype, ds.required⟩)) = .ok dt := by
      rw [checkMetas_ok]
      refine ⟨by simpa using hne, hnum, ?_⟩
      intro m hm
      obtain ⟨ds, hds, rfl⟩ := mem_map.mp hm
      exact hall ds hds
    simp [h1, h2, hc]

/-- The aligned datasources of a valid reduction over time-sorted, well-typed inputs: no aligner fails,
each aligned stream has strictly increasing timestamps (period starts of its input) and keeps the type. -/
theorem aligned_inputs {p : Period} (hT : Tiles p) (dt : DType) (hnum : dt.isNumeric = true) :
    ∀ (dss : List (DS Rat)), (∀ ds ∈ dss, ds.dtype = dt) →
      (∀ ds ∈ dss, ShpanVerif.Proofs.AF1415.TimeSortedV ds.recs) → (∀ ds ∈ dss, ∀ x ∈ ds.recs, x.v.dtype = dt) →
      ∃ as : List (List (Rec (Val Rat))),
        dss.map (fun ds => alignFilter Dec.rat p ds.dtype ds.recs) = as.map (fun a => (a, none)) ∧
        as.length = dss.length ∧ (∀ a ∈ as, StrictKeys tsKey a) ∧ (∀ a ∈ as, ∀ x ∈ a, x.v.dtype = dt) := by
  intro dss
  induction dss with
  | nil => intro _ _ _; exact ⟨[], rfl, rfl, by simp, by simp⟩
  | cons ds dss ih =>
    intro hm hs hty
    obtain ⟨as, h1, h2, h3, h4⟩ := ih (fun d hd => hm d (by simp [hd])) (fun d hd => hs d (by simp [hd]))
      (fun d hd => hty d (by simp [hd]))
    obtain ⟨a, e1, e2, e3⟩ := ShpanVerif.Proofs.AF1415.alignFilter_sorted Dec.rat hT dt hnum ds.recs
      (hs ds (by simp)) (hty ds (by simp))
    refine ⟨a :: as, by simp [h1, hm ds (by simp), e1], by simp [h2], ?_, ?_⟩
    · intro b hb
      rcases mem_cons.mp hb with rfl | hb
      · exact e2
      · exact h3 b hb
    · intro b hb x hx
      rcases mem_cons.mp hb with rfl | hb
      · exact (e3 x hx).1
      · exact h4 b hb x hx

/-- **C14_reduction_datasource** (end to end): for at least one datasource, all required and of one numeric
type, holding time-sorted values of that type, under a tiling period: `Execute` succeeds with the documented
result type; its data ends normally and is one row per aligned timestamp present in ALL datasources, whose
value is the reducer function over exactly those aligned values (`commonRows` / `rowOf`), with the documented
result type as dynamic type. -/
theorem C14_reduction_datasource {p : Period} (hT : Tiles p) (r : Reduction) (dt : DType)
    (hnum : dt.isNumeric = true) (dss : List (DS Rat)) (hne : dss ≠ [])
    (hmeta : ∀ ds ∈ dss, ds.dtype = dt ∧ ds.required = true)
    (hs : ∀ ds ∈ dss, ShpanVerif.Proofs.AF1415.TimeSortedV ds.recs)
    (hty : ∀ ds ∈ dss, ∀ x ∈ ds.recs, x.v.dtype = dt) :
    ∃ (as : List (List (Rec (Val Rat)))) (rows : List (Rec (Val Rat))),
      dss.map (fun ds => alignFilter Dec.rat p ds.dtype ds.recs) = as.map (fun a => (a, none)) ∧
      (∀ a ∈ as, StrictKeys tsKey a) ∧
      reductionDatasource Dec.rat p r dss = .ok (r.resultType dt, (rows, none)) ∧
      mapUntilErr (rowOf Dec.rat r dt) (commonRows tsKey as) = (rows, none) ∧
      rows.length = (commonRows tsKey as).length ∧
      ∀ x ∈ rows, x.v.dtype = r.resultType dt := by
  obtain ⟨as, h1, h2, h3, h4⟩ := aligned_inputs hT dt hnum dss (fun d hd => (hmeta d hd).1) hs hty
  have hasne : as ≠ [] := by
    intro h; subst h; simp at h2; exact hne (length_eq_zero_iff.mp h2.symm)
  obtain ⟨rows, e1, e2, e3⟩ := C14_reduction_type_sound r dt as hasne h3 hnum h4
  refine ⟨as, rows, h1, h3, ?_, ?_, e2, e3⟩
  · rw [C14_reduction_accept]
    exact ⟨dt, hne, hnum, hmeta, rfl, by rw [h1, e1]⟩
  · rw [← C14_reduction_rows r dt as hasne h3 hnum h4, e1]

/-! ### Non-vacuity: concrete inputs meeting the hypotheses, and the witnesses of the repaired defects -/

/-- a period satisfying `Tiles` exists for every positive duration (the one the driver uses) -/
example : Tiles (fixedPeriod 3600000000000 0) := tiles_fixed _ (by decide) 0

def exXs : List (Rec Int) := [⟨⟨1, 0⟩, -3⟩, ⟨⟨4, 1⟩, -1⟩, ⟨⟨12, 0⟩, 5⟩, ⟨⟨35, 2⟩, 2⟩, ⟨⟨39, 0⟩, 7⟩]
example : TimeSorted exXs := by simp [TimeSorted, exXs]
-- three non-empty periods of length 10; an all-negative group (D9: Max must be -1, not 0)
example : alignReduce (fixedPeriod 10 0) (Num.int Dec.rat) .max exXs
    = [⟨⟨0, 0⟩, -1⟩, ⟨⟨10, 0⟩, 5⟩, ⟨⟨30, 0⟩, 7⟩] := by decide
example : alignReduce (fixedPeriod 10 0) (Num.int Dec.rat) .sum exXs
    = [⟨⟨0, 0⟩, -4⟩, ⟨⟨10, 0⟩, 5⟩, ⟨⟨30, 0⟩, 9⟩] := by decide
-- D9 witnesses on the repaired model
example : streamMax (Num.int Dec.rat) [-3, -1] = -1 := by decide
example : streamMin (Num.int Dec.rat) [3, 1] = 1 := by decide
-- D10 witness: the mean of 1, 2, 6 is 3 (the defective code returned the last value, 6)
example : tsAvg (Num.dec Dec.rat) [1, 2, 6] = 3 := by
  rw [C14_running_average _ (by simp)]; simp; grind
-- D11 witness: avg over a single integer datasource goes through the reducer and yields a decimal
example : reductionData Dec.rat .avg .integer [([⟨⟨0, 0⟩, .i 5⟩], none)] = ([⟨⟨0, 0⟩, .d 5⟩], none) := by
  have h := C14_reduction_rows .avg .integer [[⟨⟨0, 0⟩, .i 5⟩]] (by simp) (by simp [StrictKeys]) rfl
    (by simp [Val.dtype])
  simp only [map_cons, map_nil] at h
  rw [h]
  simp [commonRows, lookups, mapUntilErr, rowOf, reducerFunc, avgInt, asInt, bind, Except.bind, pure,
    Except.pure, Except.map, Dec.rat]
  grind
-- a two-datasource join: only the timestamp present in both yields a row
example : commonRows (tsKey (δ := Rat)) [[⟨⟨0, 0⟩, .i 1⟩, ⟨⟨10, 0⟩, .i 2⟩], [⟨⟨10, 3⟩, .i 5⟩, ⟨⟨20, 0⟩, .i 6⟩]]
    = [[⟨⟨10, 0⟩, .i 2⟩, ⟨⟨10, 3⟩, .i 5⟩]] := by decide

end ShpanVerif.Props.C14
