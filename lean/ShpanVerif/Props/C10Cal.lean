/-
C10 over CALENDAR alignment periods: the aligner filters of both packages (with and without fill mode) over
day / week / month / quarter / half-year / year periods in a time zone.

The query model (Model/QueryExec.lean) carries an alignment period as `PeriodK = fixed p | cal unit zone`, interpreted
by `PeriodK.start / PeriodK.end_`; the calendar constructors are interpreted by `Model.Period.start / «end»` — the very
functions the C12 theorems are about.  `C10_sound` (Props/C10.lean) asks of every alignment period of the tree
`PeriodK.ok`: a fixed period is positive; a calendar period obeys the two laws the stream machines use for their
output order (`PeriodLaws`: `GetStartTime` monotone — aligner; `t < GetEndTime t` — gap filler).  Type soundness
itself (metadata, tags, nil only where optional) does not depend on the period at all.

This file derives `PeriodK.ok` for calendar periods from C12:
* `periodOk_cal` — every zone with well-behaved period-start midnights (`MidnightsOK z kind`, the hypothesis of
  `C12_calendar`, i.e. every zone outside known finding D14);
* `periodOk_cal_fixed_offset` — every zone without transitions (UTC, FixedZone, Etc/GMT±h): unconditional;
* `periodOk_cal_noTouch` — every sorted, spaced zone none of whose offset changes touches a local midnight
  (`no_midnight_touch_MidnightsOK`; weeks: + `NoSpill`).
and restates C10 with C12's hypothesis in place of the laws:
* `C10_sound_calendar` — for every query tree whose static inputs are schema-conforming, whose fixed periods are
  positive and whose calendar periods live in zones with `MidnightsOK` (`WfRC` / `WfDC`): `Execute` is an error or yields
  a sound result (unique non-empty URNs, valid types, conforming rows, strictly increasing timestamps).
* `C10_calendar_aligner_sound` — the two aligner filters alone, same hypothesis.
* `C10_witness_D14_gapfill` — the hypothesis is needed: in the D14 witness zone of C12 (local midnight skipped) the
  gap filler over day periods never advances (`GetEndTime x = x`): the model's output repeats one timestamp for the
  whole step budget, so the timestamps are NOT strictly increasing (on the real code: an endless stream).
* `C10_gapfill_terminates` — gap-fill termination for every lawful period (fixed and calendar): the model's step budget
  is never what ends the gap filler's stream (Proofs/QueryGapFuel.lean; consecutive period ends are at least
  `periodGap` apart: the duration / one second).
-/
import ShpanVerif.Props.C10
import ShpanVerif.Props.C12
import ShpanVerif.Props.C12Touch
import ShpanVerif.Proofs.QueryGapFuel

namespace ShpanVerif.Props.C10
open ShpanVerif.Model.Query ShpanVerif.Proofs.Query List
open ShpanVerif.Model.Period (Zone Kind NS)
open ShpanVerif.Proofs.Period (Tiles TilesOn ZoneSorted Spaced NoTouch NoSpill)
open ShpanVerif.Props.C12 (MidnightsOK C12_calendar fixed_offset_MidnightsOK no_midnight_touch_MidnightsOK
  dstZone dstZone_MidnightsOK nyZone nyZone_MidnightsOK witnessZone)

variable {D : Type} (O : Ops D)

/-! ## the period laws from C12 -/

theorem calUnit_kind_not_fixed (u : CalUnit) : ∀ d, u.kind ≠ .fixed d := by
  cases u <;> intro d h <;> cases h

/-- C12's six tiling laws contain the two laws the stream machines need -/
theorem periodLaws_of_tiles {S E : Int → Int} (h : Tiles S E) : PeriodLaws S E :=
  ⟨fun a b hab => h.mono a b trivial trivial hab, fun t => h.lt t trivial⟩

/-- **calendar periods are lawful in every zone satisfying C12's hypothesis** -/
theorem periodOk_cal (u : CalUnit) (z : Zone) (h : MidnightsOK z u.kind) : (PeriodK.cal u z).ok :=
  periodLaws_of_tiles (C12_calendar (calUnit_kind_not_fixed u) z h)

/-- zones without transitions (UTC, `time.FixedZone`, `Etc/GMT±h`): unconditionally -/
theorem periodOk_cal_fixed_offset (u : CalUnit) (o : Int) : (PeriodK.cal u ⟨o, []⟩).ok :=
  periodOk_cal u _ (fixed_offset_MidnightsOK o _)

/-- the class of zones none of whose offset changes touches a local midnight (C12's class lemma) -/
theorem periodOk_cal_noTouch {B : Int} (u : CalUnit) (z : Zone) (hs : ZoneSorted z) (hsp : Spaced B z) (hn : NoTouch z)
    (hw : u = .week → NoSpill z) : (PeriodK.cal u z).ok :=
  periodOk_cal u z (no_midnight_touch_MidnightsOK hs hsp hn u.kind (fun hk => hw (by cases u <;> first | rfl | cases hk)))

/-! ## C10 with C12's hypothesis -/

/-- what C12 asks of an alignment period: fixed — positive; calendar — the zone's period-start midnights are well behaved -/
def periodOkC12 : PeriodK → Prop
  | .fixed p => 0 < p
  | .cal u z => MidnightsOK z u.kind

theorem periodOk_of_C12 {P : PeriodK} (h : periodOkC12 P) : P.ok := by
  cases P with
  | fixed p => exact h
  | cal u z => exact periodOk_cal u z h

def rxOkC12 : RXFilter → Prop
  | .align p _ => periodOkC12 p

def dxOkC12 : DXFilter D → Prop
  | .align p _ => periodOkC12 p
  | _ => True

mutual
  /-- `WfR` with C12's hypothesis on the calendar periods in place of the laws -/
  def WfRC : RDs D → Prop
    | .static metas rows => StaticOkR metas rows
    | .filtered ds _ => WfRC ds
    | .xfiltered ds f => WfRC ds ∧ rxOkC12 f
    | .join _ srcs => WfRLC srcs
    | .fromDs d => WfDC d
  def WfRLC : RDsL D → Prop
    | .nil => True
    | .cons d l => WfRC d ∧ WfRLC l
  def WfDC : DDs D → Prop
    | .static fm rows => StaticOkD fm rows
    | .filtered d _ => WfDC d
    | .xfiltered d f => WfDC d ∧ dxOkC12 f
    | .reduction _ _ _ _ srcs => WfDLC srcs
    | .fromReport r _ => WfRC r
  def WfDLC : DDsL D → Prop
    | .nil => True
    | .cons d l => WfDC d ∧ WfDLC l
end

mutual
  theorem wfR_of_C12 : ∀ (q : RDs D), WfRC q → WfR q
    | .static _ _, h => by simpa only [WfRC, WfR] using h
    | .filtered ds _, h => by
      simp only [WfRC] at h; simp only [WfR]; exact wfR_of_C12 ds h
    | .xfiltered ds f, h => by
      simp only [WfRC] at h; simp only [WfR]
      refine ⟨wfR_of_C12 ds h.1, ?_⟩
      cases f with
      | align p fill => exact periodOk_of_C12 h.2
    | .join _ srcs, h => by
      simp only [WfRC] at h; simp only [WfR]; exact wfRL_of_C12 srcs h
    | .fromDs d, h => by
      simp only [WfRC] at h; simp only [WfR]; exact wfD_of_C12 d h
  theorem wfRL_of_C12 : ∀ (l : RDsL D), WfRLC l → WfRL l
    | .nil, _ => by simp only [WfRL]
    | .cons d l, h => by
      simp only [WfRLC] at h; simp only [WfRL]; exact ⟨wfR_of_C12 d h.1, wfRL_of_C12 l h.2⟩
  theorem wfD_of_C12 : ∀ (q : DDs D), WfDC q → WfD q
    | .static _ _, h => by simpa only [WfDC, WfD] using h
    | .filtered d _, h => by
      simp only [WfDC] at h; simp only [WfD]; exact wfD_of_C12 d h
    | .xfiltered d f, h => by
      simp only [WfDC] at h; simp only [WfD]
      refine ⟨wfD_of_C12 d h.1, ?_⟩
      cases f with
      | align p fill => exact periodOk_of_C12 h.2
      | delta _ _ => trivial
      | rate _ _ _ _ => trivial
    | .reduction _ _ _ _ srcs, h => by
      simp only [WfDC] at h; simp only [WfD]; exact wfDL_of_C12 srcs h
    | .fromReport r _, h => by
      simp only [WfDC] at h; simp only [WfD]; exact wfR_of_C12 r h
  theorem wfDL_of_C12 : ∀ (l : DDsL D), WfDLC l → WfDL l
    | .nil, _ => by simp only [WfDL]
    | .cons d l, h => by
      simp only [WfDLC] at h; simp only [WfDL]; exact ⟨wfD_of_C12 d h.1, wfDL_of_C12 l h.2⟩
end

/-- **C10 for query trees with calendar aligners**: in every zone satisfying C12's hypothesis (`MidnightsOK`, i.e.
outside known finding D14) — and for every fixed positive period — every accepted query yields sound results:
metadata with unique non-empty URNs and valid types, conforming rows, strictly increasing timestamps. -/
theorem C10_sound_calendar (fix : Bool) (from_ to : Int) :
    (∀ (q : RDs D) (res : RResult D), WfRC q → execR O fix from_ to q = .ok res → RSound res) ∧
    (∀ (q : DDs D) (res : DResult D), WfDC q → execD O fix from_ to q = .ok res → DSound res) :=
  ⟨fun q res hw h => (C10_sound O fix from_ to).1 q res (wfR_of_C12 q hw) h,
   fun q res hw h => (C10_sound O fix from_ to).2 q res (wfD_of_C12 q hw) h⟩

/-- the aligner filters alone (datasource/aligner_filter.go, report/aligner_report_filter.go), with or without fill
mode, over a calendar period in a zone satisfying C12's hypothesis -/
theorem C10_calendar_aligner_sound (u : CalUnit) (z : Zone) (hz : MidnightsOK z u.kind) (fill : Option FillMode) :
    (∀ (res res' : DResult D), DSound res → applyDXF O (.align (.cal u z) fill) res = .ok res' → DSound res') ∧
    (∀ (res res' : RResult D), RSound res → applyRXF O (.align (.cal u z) fill) res = .ok res' → RSound res') :=
  ⟨fun _ _ hs h => alignDF_sound O (periodOk_cal u z hz) hs h,
   fun _ _ hs h => alignRF_sound O (periodOk_cal u z hz) hs h⟩

/-- the typing rule of the aligners does not depend on the period: a non-numeric field is rejected for calendar periods
as well (instances of `C10_rejects_align_filter_non_numeric` / `C10_rejects_align_report_non_numeric`) -/
theorem C10_rejects_calendar_align_non_numeric (u : CalUnit) (z : Zone) (fill : Option FillMode) :
    (∀ res : DResult D, res.1.dt.isNumeric = false →
      applyDXF O (.align (.cal u z) fill) res = .error .alignNonNumeric) ∧
    (∀ res : RResult D, (∃ m ∈ res.1, m.dt.isNumeric = false) →
      applyRXF O (.align (.cal u z) fill) res = .error .alignNonNumeric) :=
  ⟨fun res h => C10_rejects_align_filter_non_numeric O _ fill res h,
   fun res h => C10_rejects_align_report_non_numeric O _ fill res h⟩

/-! ## non-vacuity: a day aligner with forward fill across the America/New_York DST switch of 2024-03-10 -/

/-- readings on 2024-03-09 16:00Z, 2024-03-10 19:46:40Z and 2024-03-13 03:20Z (= 2024-03-12 23:20 EDT) -/
def exCalCounter : DDs Unit :=
  .static ⟨"c", .integer, "", true, none⟩
    [⟨1710000000 * NS + 5, .int 5⟩, ⟨1710100000 * NS, .int 7⟩, ⟨1710300000 * NS, .int 12⟩]

def exCalStream : DDs Unit :=
  .xfiltered exCalCounter (.align (.cal .day nyZone) (some .forwardFill))

theorem exCalCounter_wf : WfDC exCalCounter := by
  simp only [exCalCounter, WfDC]
  refine ⟨⟨by decide, rfl⟩, ?_, ?_⟩
  · intro r hr; simp at hr; rcases hr with rfl | rfl | rfl <;> simp [tagOk]
  · decide

theorem exCalStream_wf : WfDC exCalStream :=
  ⟨exCalCounter_wf, nyZone_MidnightsOK _⟩

/-- `C10_sound_calendar` applies to `exCalStream`; its result: one record per New York day from 2024-03-09 to
2024-03-12 — local midnights 05:00Z (EST), 05:00Z, 04:00Z (EDT: the day of the switch lasts 23 h), 04:00Z — the day
without a reading (03-11) forward-filled -/
example : WfDC exCalStream ∧ execD unitOps false 0 (2000000000 * NS) exCalStream = .ok
    (⟨"c", .integer, "", true, none⟩,
      [some ⟨1709960400 * NS, .int 5⟩, some ⟨1710046800 * NS, .int 0⟩, some ⟨1710129600 * NS, .int 0⟩,
       some ⟨1710216000 * NS, .int 0⟩]) :=
  ⟨exCalStream_wf, rfl⟩

/-! ## gap-fill termination -/

/-- the least distance between two consecutive period ends: the duration of a fixed period; one second for a calendar
period (its ends are whole seconds) -/
def periodGap : PeriodK → Int
  | .fixed p => p
  | .cal _ _ => NS

theorem periodGap_pos {P : PeriodK} (h : P.ok) : 0 < periodGap P := by
  cases P with
  | fixed p => exact h
  | cal u z => show (0 : Int) < NS; decide

theorem periodSteps_ok (P : PeriodK) (span : Int) : (span / periodGap P).toNat ≤ P.steps span := by
  cases P <;> exact Nat.le_refl _

theorem periodEnd_end {P : PeriodK} (h : P.ok) (t : Int) : P.end_ t + periodGap P ≤ P.end_ (P.end_ t) := by
  cases P with
  | fixed p =>
    have hp : 0 < p := h
    simp only [PeriodK.end_, periodGap]
    have : periodStart p (periodStart p t + p) = periodStart p t + p := by
      rw [periodStart_eq p t]
      simp only [periodStart]
      have : (p * (t / p) + p) % p = 0 := by
        rw [show p * (t / p) + p = p * (t / p + 1) by rw [Int.mul_add, Int.mul_one]]
        exact Int.mul_emod_right _ _
      omega
    omega
  | cal u z =>
    have hlt := h.lt (ShpanVerif.Model.Period.«end» u.kind z t)
    simp only [PeriodK.end_, periodGap]
    have e1 : ∀ x, ShpanVerif.Model.Period.«end» u.kind z x =
        ShpanVerif.Model.Period.endSec u.kind z (x / NS) * NS := by
      intro x; cases u <;> rfl
    rw [e1 t, e1 (_ * NS)] at hlt ⊢
    unfold NS at *
    omega

/-- **gap-fill termination for every lawful alignment period** (fixed or calendar): the step budget `gapFillStream`
runs the gap filler's loop with is never what ends the stream — any larger budget gives the same result.  (The real
`NewTsGapFillerStream` has no budget; in a D14 zone it does not terminate: `C10_witness_D14_gapfill`.) -/
theorem C10_gapfill_terminates {α β : Type} (ts : α → Int) (val : α → β) (mk : Int → β → α) {P : PeriodK} (h : P.ok)
    {mode : FillMode} {interp : Int → Int → β → Int → β → Option β} (first : α) (rest : List (Option α)) (fuel' : Nat)
    (hf : P.steps (maxTs ts rest (ts first) - ts first) + (some first :: rest).length + 3 ≤ fuel') :
    fillLoop ts val mk P.end_ mode interp fuel' none (some first) (ts first) rest =
      gapFillStream ts val mk P.end_ P.steps mode interp (some first :: rest) :=
  gapFillStream_fuel_irrel ts val mk (periodGap_pos h) (fun t => Int.le_of_lt ((PeriodK.ok_laws h).lt t))
    (periodEnd_end h) (periodSteps_ok P) first rest fuel' hf

/-! ## a period whose end does not advance: the gap filler is stuck -/

section stuck
variable {α β : Type} (ts : α → Int) (val : α → β) (mk : Int → β → α)

/-- a period whose `GetEndTime` does not advance at `e` (`E e = e`): once the gap filler expects `e` and holds an
aligned point stamped `e`, it emits that point for as long as it is asked to — here: for the whole step budget -/
theorem fillLoop_stuck {E : Int → Int} {mode : FillMode} {interp : Int → Int → β → Int → β → Option β}
    {e : Int} (hE : E e = e) {pp n : α} (hpp : ts pp = e) (hn : e < ts n) :
    ∀ fuel, fillLoop ts val mk E mode interp fuel (some pp) (some n) e [] =
      List.replicate fuel (some (mk e (val pp)))
  | 0 => rfl
  | fuel + 1 => by
    have hadv : fillAdvance ts e (some pp) (some n) [] = some (some pp, some n, []) := by
      simp only [fillAdvance]
      rw [if_neg (by omega)]
    simp only [fillLoop, hadv, hpp, ↓reduceIte, hE]
    rw [fillLoop_stuck hE hpp hn fuel, List.replicate_succ]

theorem fillLoop_first {E : Int → Int} {mode : FillMode} {interp : Int → Int → β → Int → β → Option β}
    {a n : α} (hn : ts a < ts n) (fuel : Nat) :
    fillLoop ts val mk E mode interp (fuel + 1) none (some a) (ts a) [some n] =
      some (mk (ts a) (val a)) :: fillLoop ts val mk E mode interp fuel (some a) (some n) (E (ts a)) [] := by
  have hadv : fillAdvance ts (ts a) none (some a) [some n] = some (some a, some n, []) := by
    simp only [fillAdvance, Int.le_refl, ↓reduceIte]
    rw [if_neg (by omega)]
  simp only [fillLoop, hadv, ↓reduceIte]

theorem gapFillStream_stuck {E : Int → Int} {steps : Int → Nat} {mode : FillMode}
    {interp : Int → Int → β → Int → β → Option β} {a n : α} (hE : E (ts a) = ts a) (hn : ts a < ts n) :
    gapFillStream ts val mk E steps mode interp [some a, some n] =
      List.replicate (steps (maxTs ts [some n] (ts a) - ts a) + 2 + 3) (some (mk (ts a) (val a))) := by
  simp only [gapFillStream, List.length_cons, List.length_nil]
  rw [show steps (maxTs ts [some n] (ts a) - ts a) + (0 + 1 + 1) + 3 =
    (steps (maxTs ts [some n] (ts a) - ts a) + 4) + 1 by omega, fillLoop_first ts val mk hn, hE,
    fillLoop_stuck ts val mk hE rfl hn, ← List.replicate_succ]

end stuck
/-! ## the hypothesis is needed: the D14 witness zone -/

/-- a sound two-record result: 1970-01-01 03:00Z (01:00 local in C12's witness zone, the day whose local midnight is
skipped) and a reading on the next local day -/
def d14Res : DResult Unit :=
  (⟨"c", .integer, "", true, none⟩, [some ⟨10800 * NS, .int 5⟩, some ⟨100000 * NS, .int 7⟩])

theorem d14Res_sound : DSound d14Res := by
  refine ⟨⟨by decide, rfl⟩, ?_, ?_⟩
  · intro r hr
    simp only [d14Res, okRows, filterMap_cons, id_eq, filterMap_nil, mem_cons, not_mem_nil, or_false] at hr
    rcases hr with rfl | rfl <;> simp [d14Res, tagOk]
  · decide

/-- **C10 needs the period laws for calendar periods (known finding D14)**: day periods in the witness zone of C12
(UTC-3 -> UTC-2 at local 00:00: that local midnight does not exist) violate `t < GetEndTime t`
(`GetEndTime (02:00Z) = 02:00Z`), and the forward-filling day aligner over a SOUND input is accepted and delivers the
same timestamp again and again (for the whole step budget of the model; endlessly on the real code): its result is
NOT sound. -/
theorem C10_witness_D14_gapfill :
    ¬ (PeriodK.cal .day witnessZone).ok ∧ DSound d14Res ∧
    ∃ res', applyDXF unitOps (.align (.cal .day witnessZone) (some .forwardFill)) d14Res = .ok res' ∧
      ¬ DSound res' := by
  have hE : (PeriodK.cal .day witnessZone).end_ (7200 * NS) = 7200 * NS := by decide
  refine ⟨fun h => absurd (h.lt (7200 * NS)) (by rw [show ShpanVerif.Model.Period.«end» CalUnit.day.kind witnessZone (7200 * NS) = 7200 * NS from hE]; omega),
    d14Res_sound, _, rfl, ?_⟩
  intro hs
  have hal : alignStream unitOps .integer (.cal .day witnessZone)
      [some ⟨10800 * NS, .int 5⟩, some ⟨100000 * NS, .int 7⟩] =
      [some ⟨7200 * NS, .int 5⟩, some ⟨93600 * NS, .int 0⟩] := rfl
  have hincr := hs.incr
  simp only [d14Res, fillStream, hal] at hincr
  rw [gapFillStream_stuck (fun r : DRec Unit => r.ts) (fun r => r.val) (fun t v => ({ ts := t, val := v } : DRec Unit))
    (a := ⟨7200 * NS, .int 5⟩) (n := ⟨93600 * NS, .int 0⟩) hE (by decide)] at hincr
  simp only [List.replicate_succ, okRows, filterMap_cons, id_eq, map_cons, pairwise_cons, mem_cons] at hincr
  exact absurd (hincr.1 _ (Or.inl rfl)) (by omega)

end ShpanVerif.Props.C10
