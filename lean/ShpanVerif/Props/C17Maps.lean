/-
C17, custom-metadata maps (Model/MetaMap.lean): executing (planning) queries never writes to a caller-supplied map.

  * `C17_merge_fresh`          : the two-non-nil branch of MergeCustomMeta allocates: old heap ++ one new map object holding
                                 the value-level merge; in the other branches the heap is unchanged.
  * `C17_maps_no_mutation`     : for EVERY metadata program (append / select / replace stages with ref / constant / numeric
                                 expression values of any nesting, joins; any number of pipelines over shared sources,
                                 planned any number of times in any order) every map object that existed before — all
                                 caller maps: source fields', AddFieldMeta's, constants' — is literally unchanged.
  * `C17_maps_values`          : every result field's custom metadata is its value-level specification (base overridden
                                 by override; no heap, no references).
  * `C17_maps_prefix_stable`   : what the registers existing after `ops1` denote is not changed by running `ops2` after it
                                 (pipeline P's result metadata is not affected by planning Q).
  * `C17_witness_merge_in_place` : with `result := base; maps.Copy(result, override)` a caller map is written, the source
                                 field changes under the first pipeline's feet and the sibling pipeline sees its keys.
-/
import ShpanVerif.Model.MetaMap
import ShpanVerif.Proofs.SliceLemmas

namespace ShpanVerif.Props.C17Maps
open ShpanVerif.Model.Slice ShpanVerif.Model.MetaMap
open ShpanVerif.Proofs.SliceLemmas

/-- The reference is nil or points to an existing map object. -/
def RefWF (n : Nat) : MRef → Prop
  | none => True
  | some i => i < n

instance (n : Nat) (r : MRef) : Decidable (RefWF n r) := by
  cases r <;> simp only [RefWF] <;> infer_instance

def ExprWF (n : Nat) : MExpr → Prop
  | .ref _ => True
  | .const cm => RefWF n cm
  | .num a b => ExprWF n a ∧ ExprWF n b

def ItemsWF (n : Nat) : List (MExpr × MRef) → Prop
  | [] => True
  | it :: rest => (ExprWF n it.1 ∧ RefWF n it.2) ∧ ItemsWF n rest

/-- Every literal map reference inside the operation is one of the first `n` (the caller's) map objects. -/
def OpWF (n : Nat) : MOp → Prop
  | .appendField _ e cm => ExprWF n e ∧ RefWF n cm
  | .selectFields _ items => ItemsWF n items
  | .replaceField _ _ e cm => ExprWF n e ∧ RefWF n cm
  | .concat _ _ => True

def FieldsWF (n : Nat) (fs : List MRef) : Prop := ∀ r ∈ fs, RefWF n r

/-- Every reference held by a register points into the heap. -/
def MWF (st : MState) : Prop := ∀ fs ∈ st.regs, FieldsWF st.heap.length fs

instance (n : Nat) (fs : List MRef) : Decidable (FieldsWF n fs) := by unfold FieldsWF; infer_instance
instance (st : MState) : Decidable (MWF st) := by unfold MWF; infer_instance

theorem RefWF_mono {n m : Nat} (hnm : n ≤ m) {r : MRef} (w : RefWF n r) : RefWF m r := by
  cases r with
  | none => trivial
  | some i => exact Nat.lt_of_lt_of_le w hnm

theorem FieldsWF_mono {n m : Nat} (hnm : n ≤ m) {fs : List MRef} (w : FieldsWF n fs) : FieldsWF m fs :=
  fun r hr => RefWF_mono hnm (w r hr)

theorem deref_extends {h h' : MHeap} (e : Extends h h') {r : MRef} (w : RefWF h.length r) :
    deref h' r = deref h r := by
  cases r with
  | none => rfl
  | some i => simp only [deref, Option.map_some]; rw [extends_arrOf e w]

theorem map_deref_extends {h h' : MHeap} (e : Extends h h') {fs : List MRef} (w : FieldsWF h.length fs) :
    fs.map (deref h') = fs.map (deref h) :=
  List.map_congr_left (fun r hr => deref_extends e (w r hr))

theorem getD_WF {n : Nat} {fs : List MRef} (w : FieldsWF n fs) (i : Nat) : RefWF n (fs.getD i none) := by
  rw [List.getD_eq_getElem?_getD]
  cases hi : fs[i]? with
  | none => trivial
  | some r => exact w r (List.mem_of_getElem? hi)

theorem getD_map_deref (h : MHeap) (fs : List MRef) (i : Nat) :
    (fs.map (deref h)).getD i none = deref h (fs.getD i none) := by
  rw [List.getD_eq_getElem?_getD, List.getD_eq_getElem?_getD, List.getElem?_map]
  cases fs[i]? <;> rfl

/-- MergeCustomMeta: no existing map object is written; the result denotes the value-level merge. -/
theorem merge_spec {h : MHeap} {b o : MRef} (wb : RefWF h.length b) (wo : RefWF h.length o) :
    Extends h (mergeCustomMeta h b o).1 ∧
    RefWF (mergeCustomMeta h b o).1.length (mergeCustomMeta h b o).2 ∧
    deref (mergeCustomMeta h b o).1 (mergeCustomMeta h b o).2 = specMerge (deref h b) (deref h o) := by
  cases b with
  | none =>
    cases o with
    | none => exact ⟨extends_refl _, trivial, rfl⟩
    | some j => exact ⟨extends_refl _, wo, rfl⟩
  | some i =>
    cases o with
    | none => exact ⟨extends_refl _, wb, rfl⟩
    | some j =>
      refine ⟨extends_push _ _, ?_, ?_⟩
      · simp [mergeCustomMeta, RefWF]
      · simp [mergeCustomMeta, deref, specMerge, arrOf_append_new]

/-- **The merge allocates.** With both maps present the heap grows by exactly one map object holding the merged
    contents and the result is that new object; otherwise the heap is unchanged (the result is one of the arguments). -/
theorem C17_merge_fresh (h : MHeap) (b o : MRef) :
    (∀ i j, b = some i → o = some j →
      mergeCustomMeta h b o = (h ++ [mergeVal (arrOf h i) (arrOf h j)], some h.length)) ∧
    ((b = none ∨ o = none) → (mergeCustomMeta h b o).1 = h ∧
      ((mergeCustomMeta h b o).2 = b ∨ (mergeCustomMeta h b o).2 = o)) := by
  constructor
  · intro i j hb ho; subst hb ho; rfl
  · intro hn
    cases b <;> cases o <;> simp_all [mergeCustomMeta]

theorem evalExpr_spec {base : MHeap} (e : MExpr) :
    ∀ (h : MHeap) (fields : List MRef), Extends base h → FieldsWF h.length fields → ExprWF base.length e →
      Extends h (evalExpr h fields e).1 ∧
      RefWF (evalExpr h fields e).1.length (evalExpr h fields e).2 ∧
      deref (evalExpr h fields e).1 (evalExpr h fields e).2 = specExpr (deref base) (fields.map (deref h)) e := by
  induction e with
  | ref i =>
    intro h fields _ wf _
    exact ⟨extends_refl _, getD_WF wf i, (getD_map_deref h fields i).symm⟩
  | const cm =>
    intro h fields eb _ we
    exact ⟨extends_refl _, RefWF_mono (extends_length_le eb) we, deref_extends eb we⟩
  | num a b iha ihb =>
    intro h fields eb wf we
    obtain ⟨ea, wa, va⟩ := iha h fields eb wf we.1
    have wf1 : FieldsWF (evalExpr h fields a).1.length fields := FieldsWF_mono (extends_length_le ea) wf
    obtain ⟨eb2, wb, vb⟩ := ihb (evalExpr h fields a).1 fields (extends_trans eb ea) wf1 we.2
    have wa2 : RefWF (evalExpr (evalExpr h fields a).1 fields b).1.length (evalExpr h fields a).2 :=
      RefWF_mono (extends_length_le eb2) wa
    obtain ⟨em, wm, vm⟩ := merge_spec wb wa2
    have key : specMerge
        (deref (evalExpr (evalExpr h fields a).1 fields b).1 (evalExpr (evalExpr h fields a).1 fields b).2)
        (deref (evalExpr (evalExpr h fields a).1 fields b).1 (evalExpr h fields a).2) =
        specExpr (deref base) (fields.map (deref h)) (.num a b) := by
      rw [vb, deref_extends eb2 wa, va, map_deref_extends ea wf]
      rfl
    exact ⟨extends_trans ea (extends_trans eb2 em), wm, vm.trans key⟩

theorem prepareField_spec {base h : MHeap} {fields : List MRef} (e : MExpr) (cm : MRef)
    (eb : Extends base h) (wf : FieldsWF h.length fields) (we : ExprWF base.length e) (wc : RefWF base.length cm) :
    Extends h (prepareField h fields e cm).1 ∧
    RefWF (prepareField h fields e cm).1.length (prepareField h fields e cm).2 ∧
    deref (prepareField h fields e cm).1 (prepareField h fields e cm).2 =
      specPrepare (deref base) (fields.map (deref h)) e cm := by
  obtain ⟨ee, wr, vr⟩ := evalExpr_spec e h fields eb wf we
  have wc1 : RefWF (evalExpr h fields e).1.length cm :=
    RefWF_mono (Nat.le_trans (extends_length_le eb) (extends_length_le ee)) wc
  obtain ⟨em, wm, vm⟩ := merge_spec wr wc1
  have key : specMerge (deref (evalExpr h fields e).1 (evalExpr h fields e).2) (deref (evalExpr h fields e).1 cm) =
      specPrepare (deref base) (fields.map (deref h)) e cm := by
    rw [vr, deref_extends (extends_trans eb ee) wc]
    rfl
  exact ⟨extends_trans ee em, wm, vm.trans key⟩

theorem selectFieldsLoop_spec {base : MHeap} (items : List (MExpr × MRef)) :
    ∀ (h : MHeap) (fields sel : List MRef), Extends base h → FieldsWF h.length fields → FieldsWF h.length sel →
      ItemsWF base.length items →
      Extends h (selectFieldsLoop h fields sel items).1 ∧
      FieldsWF (selectFieldsLoop h fields sel items).1.length (selectFieldsLoop h fields sel items).2 ∧
      (selectFieldsLoop h fields sel items).2.map (deref (selectFieldsLoop h fields sel items).1) =
        specSelectLoop (deref base) (fields.map (deref h)) (sel.map (deref h)) items := by
  induction items with
  | nil => intro h fields sel _ _ ws _; exact ⟨extends_refl _, ws, rfl⟩
  | cons it rest ih =>
    intro h fields sel eb wf ws wi
    obtain ⟨e, cm⟩ := it
    have wfs : FieldsWF h.length (fields ++ sel) := fun r hr => by
      rcases List.mem_append.mp hr with hr | hr
      · exact wf r hr
      · exact ws r hr
    obtain ⟨ep, wp, vp⟩ := prepareField_spec e cm eb wfs wi.1.1 wi.1.2
    have hle := extends_length_le ep
    have ws' : FieldsWF (prepareField h (fields ++ sel) e cm).1.length (sel ++ [(prepareField h (fields ++ sel) e cm).2]) :=
      fun r hr => by
        rcases List.mem_append.mp hr with hr | hr
        · exact RefWF_mono hle (ws r hr)
        · rw [List.mem_singleton.mp hr]; exact wp
    obtain ⟨i1, i2, i3⟩ := ih _ fields _ (extends_trans eb ep) (FieldsWF_mono hle wf) ws' wi.2
    have key : specSelectLoop (deref base) (fields.map (deref (prepareField h (fields ++ sel) e cm).1))
        ((sel ++ [(prepareField h (fields ++ sel) e cm).2]).map (deref (prepareField h (fields ++ sel) e cm).1)) rest =
        specSelectLoop (deref base) (fields.map (deref h)) (sel.map (deref h)) ((e, cm) :: rest) := by
      rw [List.map_append, List.map_cons, List.map_nil, vp, map_deref_extends ep wf, map_deref_extends ep ws,
        List.map_append]
      rfl
    exact ⟨extends_trans ep i1, i2, i3.trans key⟩

theorem reg_WF {st : MState} (hwf : MWF st) (i : Nat) : FieldsWF st.heap.length (st.reg i) := by
  unfold MState.reg
  rw [List.getD_eq_getElem?_getD]
  cases hi : st.regs[i]? with
  | none => intro r hr; simp at hr
  | some fs => exact hwf fs (List.mem_of_getElem? hi)

theorem vals_getD (st : MState) (i : Nat) : st.vals.getD i [] = (st.reg i).map (deref st.heap) := by
  unfold MState.reg MState.vals
  rw [List.getD_eq_getElem?_getD, List.getD_eq_getElem?_getD, List.getElem?_map]
  cases st.regs[i]? <;> rfl

theorem vals_getElem?_getD (st : MState) (i : Nat) :
    st.vals[i]?.getD [] = (st.reg i).map (deref st.heap) := by
  rw [← List.getD_eq_getElem?_getD]; exact vals_getD st i

/-- Pushing a result register. -/
theorem push_spec {st : MState} (hwf : MWF st) {h' : MHeap} {fs : List MRef} {v : List CMV}
    (e : Extends st.heap h') (w : FieldsWF h'.length fs) (hv : fs.map (deref h') = v) :
    MWF { heap := h', regs := st.regs ++ [fs] } ∧ Extends st.heap h' ∧
    MState.vals { heap := h', regs := st.regs ++ [fs] } = st.vals ++ [v] := by
  refine ⟨?_, e, ?_⟩
  · intro t ht
    rcases List.mem_append.mp ht with ht | ht
    · exact FieldsWF_mono (extends_length_le e) (hwf t ht)
    · rw [List.mem_singleton.mp ht]; exact w
  · simp only [MState.vals, List.map_append, List.map_cons, List.map_nil, hv]
    congr 1
    apply List.map_congr_left
    intro t ht
    exact map_deref_extends e (hwf t ht)

/-- One operation of a metadata program; `base` = the heap the caller's literal maps live in. -/
theorem stepM_spec {base : MHeap} (st : MState) (eb : Extends base st.heap) (hwf : MWF st) (op : MOp)
    (wop : OpWF base.length op) :
    MWF (stepM st op) ∧ Extends st.heap (stepM st op).heap ∧
    (stepM st op).vals = st.vals ++ [specStepM (deref base) st.vals op] := by
  cases op with
  | appendField src e cm =>
    obtain ⟨ep, wp, vp⟩ := prepareField_spec e cm eb (reg_WF hwf src) wop.1 wop.2
    have w : FieldsWF (prepareField st.heap (st.reg src) e cm).1.length
        (st.reg src ++ [(prepareField st.heap (st.reg src) e cm).2]) := by
      intro r hr
      rcases List.mem_append.mp hr with hr | hr
      · exact RefWF_mono (extends_length_le ep) (reg_WF hwf src r hr)
      · rw [List.mem_singleton.mp hr]; exact wp
    have hv : (st.reg src ++ [(prepareField st.heap (st.reg src) e cm).2]).map
        (deref (prepareField st.heap (st.reg src) e cm).1) =
        specStepM (deref base) st.vals (.appendField src e cm) := by
      rw [List.map_append, List.map_cons, List.map_nil, vp, map_deref_extends ep (reg_WF hwf src)]
      simp [specStepM, vals_getElem?_getD]
    exact push_spec hwf ep w hv
  | selectFields src items =>
    obtain ⟨es, ws, vs⟩ := selectFieldsLoop_spec (base := base) items st.heap (st.reg src) [] eb (reg_WF hwf src)
      (fun r hr => by simp at hr) wop
    have hv : (selectFieldsLoop st.heap (st.reg src) [] items).2.map
        (deref (selectFieldsLoop st.heap (st.reg src) [] items).1) =
        specStepM (deref base) st.vals (.selectFields src items) := by
      rw [vs]
      simp [specStepM, vals_getElem?_getD]
    exact push_spec hwf es ws hv
  | replaceField src idx e cm =>
    obtain ⟨ep, wp, vp⟩ := prepareField_spec e cm eb (reg_WF hwf src) wop.1 wop.2
    have w : FieldsWF (prepareField st.heap (st.reg src) e cm).1.length
        ((st.reg src).set idx (prepareField st.heap (st.reg src) e cm).2) := by
      intro r hr
      rcases List.mem_or_eq_of_mem_set hr with hr | hr
      · exact RefWF_mono (extends_length_le ep) (reg_WF hwf src r hr)
      · rw [hr]; exact wp
    have hv : ((st.reg src).set idx (prepareField st.heap (st.reg src) e cm).2).map
        (deref (prepareField st.heap (st.reg src) e cm).1) =
        specStepM (deref base) st.vals (.replaceField src idx e cm) := by
      rw [List.map_set, vp, map_deref_extends ep (reg_WF hwf src)]
      simp [specStepM, vals_getElem?_getD]
    exact push_spec hwf ep w hv
  | concat a b =>
    have w : FieldsWF st.heap.length (st.reg a ++ st.reg b) := by
      intro r hr
      rcases List.mem_append.mp hr with hr | hr
      · exact reg_WF hwf a r hr
      · exact reg_WF hwf b r hr
    have hv : (st.reg a ++ st.reg b).map (deref st.heap) = specStepM (deref base) st.vals (.concat a b) := by
      simp [specStepM, vals_getElem?_getD]
    exact push_spec hwf (extends_refl _) w hv

def OpsWF (n : Nat) (ops : List MOp) : Prop := ∀ op ∈ ops, OpWF n op

theorem runM_spec {base : MHeap} (ops : List MOp) : ∀ (st : MState), Extends base st.heap → MWF st →
    OpsWF base.length ops →
    MWF (runM st ops) ∧ Extends st.heap (runM st ops).heap ∧
    (runM st ops).vals = specRunM (deref base) st.vals ops := by
  induction ops with
  | nil => intro st _ hwf _; exact ⟨hwf, extends_refl _, rfl⟩
  | cons op ops ih =>
    intro st eb hwf wops
    obtain ⟨h1, h2, h3⟩ := stepM_spec st eb hwf op (wops op List.mem_cons_self)
    obtain ⟨i1, i2, i3⟩ := ih (stepM st op) (extends_trans eb h2) h1 (fun o ho => wops o (List.mem_cons_of_mem _ ho))
    refine ⟨i1, extends_trans h2 i2, ?_⟩
    simp only [runM, specRunM, List.foldl_cons] at i3 ⊢
    rw [i3, h3]

/-- **C17, custom-metadata maps are never written.** For every metadata program whose literal maps are the caller's
    (`OpsWF`), started with the caller's sources in the registers: every map object that existed before — the custom
    metadata maps of the source fields, of every `AddFieldMeta`, of every constant — is literally unchanged, so every
    reference anybody holds denotes what it denoted before. -/
theorem C17_maps_no_mutation (st : MState) (hwf : MWF st) (ops : List MOp) (wops : OpsWF st.heap.length ops) :
    (runM st ops).heap.take st.heap.length = st.heap ∧
    ∀ r : MRef, RefWF st.heap.length r → deref (runM st ops).heap r = deref st.heap r := by
  have e := (runM_spec ops st (extends_refl _) hwf wops).2.1
  exact ⟨extends_take_eq e, fun r wr => deref_extends e wr⟩

/-- **Results are the value-level merge.** Every register (the custom metadata of the fields of every intermediate
    and final result) holds exactly `specRunM`: base overridden by override, computed on contents only. -/
theorem C17_maps_values (st : MState) (hwf : MWF st) (ops : List MOp) (wops : OpsWF st.heap.length ops) :
    (runM st ops).vals = specRunM (deref st.heap) st.vals ops :=
  (runM_spec ops st (extends_refl _) hwf wops).2.2

theorem specRunM_prefix (lit : MRef → CMV) (ops : List MOp) : ∀ vals, ∃ e, specRunM lit vals ops = vals ++ e := by
  induction ops with
  | nil => intro vals; exact ⟨[], by simp [specRunM]⟩
  | cons op ops ih =>
    intro vals
    obtain ⟨e2, h2⟩ := ih (vals ++ [specStepM lit vals op])
    refine ⟨[specStepM lit vals op] ++ e2, ?_⟩
    simp only [specRunM, List.foldl_cons] at h2 ⊢
    rw [h2, List.append_assoc]

/-- **Later planning never changes an earlier result.** What the registers existing after `ops1` (say pipeline P's
    result metadata) denote is unchanged by running `ops2` (pipeline Q, or P again) afterwards. -/
theorem C17_maps_prefix_stable (st : MState) (hwf : MWF st) (ops1 ops2 : List MOp)
    (w1 : OpsWF st.heap.length ops1) (w2 : OpsWF st.heap.length ops2) :
    ∃ e, (runM st (ops1 ++ ops2)).vals = (runM st ops1).vals ++ e := by
  obtain ⟨m1, e1, v1⟩ := runM_spec ops1 st (extends_refl _) hwf w1
  have hrun : runM st (ops1 ++ ops2) = runM (runM st ops1) ops2 := by simp [runM]
  obtain ⟨_, _, v2⟩ := runM_spec (base := st.heap) ops2 (runM st ops1) e1 m1 w2
  rw [hrun, v2]
  exact specRunM_prefix _ ops2 _

/-! ### non-vacuity and the witness -/

/-- Caller maps: 0 = source field s0 `{1:5}`, 1 = source field s1 `{1:6, 2:7}`, 2 = an AddFieldMeta map `{3:1}`,
    3 = another AddFieldMeta map `{1:9}` (collides with key 1), 4 = a constant's map `{4:4}`; source field s2 has nil. -/
def exHeap : MHeap := [[(1, 5)], [(1, 6), (2, 7)], [(3, 1)], [(1, 9)], [(4, 4)]]
def exSt : MState := { heap := exHeap, regs := [[some 0, some 1, none]] }
/-- P = append ref s0 with map 2; Q = append (s0 + s1) with map 3; select (const with map 4) @nil, (ref to the first
    selected + s2) @ map 2; replace field 1 by ref s1 @nil; join of P's and the select's results. -/
def exProg : List MOp :=
  [.appendField 0 (.ref 0) (some 2),
   .appendField 0 (.num (.ref 0) (.ref 1)) (some 3),
   .selectFields 0 [(.const (some 4), none), (.num (.ref 3) (.ref 2), some 2)],
   .replaceField 0 1 (.ref 1) none,
   .concat 1 3]

example : MWF exSt := by decide
example : OpsWF exSt.heap.length exProg := by
  intro op hop
  simp only [exProg, List.mem_cons, List.not_mem_nil, or_false] at hop
  rcases hop with rfl | rfl | rfl | rfl | rfl <;> simp [OpWF, ItemsWF, ExprWF, RefWF, exSt, exHeap]
example : (runM exSt exProg).vals.drop 1 =
    [[some [(1, 5)], some [(1, 6), (2, 7)], none, some [(1, 5), (3, 1)]],
     [some [(1, 5)], some [(1, 6), (2, 7)], none, some [(1, 9), (2, 7)]],
     [some [(4, 4)], some [(3, 1), (4, 4)]],
     [some [(1, 5)], some [(1, 6), (2, 7)], none],
     [some [(1, 5)], some [(1, 6), (2, 7)], none, some [(1, 5), (3, 1)], some [(4, 4)], some [(3, 1), (4, 4)]]] := by
  decide
example : (runM exSt exProg).heap.take 5 = exHeap := by decide

/-- **Witness (in-place merge).** Source field s0 carries `{1:5}`; pipeline P appends `ref s0` with AddFieldMeta map
    `{3:1}`, sibling pipeline Q appends `ref s0` with `{7:7}`.  With `result := base; maps.Copy(result, override)` the
    caller's map 0 is written (`{1:5,3:1,7:7}` in the end), P's own source field changes, and Q's new field carries P's
    key 3; the modelled code leaves the three caller maps alone and gives `{1:5,3:1}` / `{1:5,7:7}`. -/
theorem C17_witness_merge_in_place :
    let st : MState := { heap := [[(1, 5)], [(3, 1)], [(7, 7)]], regs := [[some 0]] }
    let ops : List MOp := [.appendField 0 (.ref 0) (some 1), .appendField 0 (.ref 0) (some 2)]
    MWF st ∧
    (runMInPlace st ops).heap.take 3 ≠ st.heap ∧
    (runMInPlace st ops).vals = [[some [(1, 5), (3, 1), (7, 7)]],
                                 [some [(1, 5), (3, 1), (7, 7)], some [(1, 5), (3, 1), (7, 7)]],
                                 [some [(1, 5), (3, 1), (7, 7)], some [(1, 5), (3, 1), (7, 7)]]] ∧
    (runM st ops).heap.take 3 = st.heap ∧
    (runM st ops).vals = [[some [(1, 5)]], [some [(1, 5)], some [(1, 5), (3, 1)]],
                          [some [(1, 5)], some [(1, 5), (7, 7)]]] := by
  decide

end ShpanVerif.Props.C17Maps
