/-
C11 — tsquery evaluation matches the reference semantics; datasource/report twins agree.

* `C11_twins_values`, `C11_twins` — a datasource-API filter chain and the same chain written against the report API
  (B: over `FromDatasource` with `SingleFieldFilter`; C: with `ReplaceFieldFilter`, read back through `ToDatasource`)
  give the same error, or identical metadata and identical streams — for the repaired override filter (`fixD22 = true`),
  and for the code as it is (`fixD22 = false`) whenever every override filter is given non-empty custom metadata
  (`C11_twins_partial`).  `C11_twins_full_statement` is the unrestricted claim for the code as it is; it is FALSE
  today: `C11_D22_witness` (known finding D22).
* `C11_range_half_open` — static datasources select exactly the records with `from ≤ t < to`.
* `C11_plan_eq_ref_*` — see Proofs/QueryRefEq.lean: the executable model agrees with the independent reference
  interpreter (Model/QueryRef.lean) on values, filters and join-free query trees.
-/
import ShpanVerif.Proofs.QueryTwins
import ShpanVerif.Proofs.QueryRefTree

namespace ShpanVerif.Props.C11
open ShpanVerif.Model.Query ShpanVerif.Model.Query.Ref ShpanVerif.Proofs.Query ShpanVerif.Props.C10 List

variable {D : Type} (O : Ops D)

/-- value level: a datasource-package value and its report-package lift are rejected alike, or yield the same
metadata and the same value on every cell -/
theorem C11_twins_values (v : DVal D) (fm : FieldMeta) :
    (∃ e, planDVal O v fm = .error e ∧ planRVal O (liftVal fm.urn v) [fm] = .error e) ∨
    ∃ vm f g, planDVal O v fm = .ok (vm, f) ∧ planRVal O (liftVal fm.urn v) [fm] = .ok (vm, g) ∧ ∀ x, g [x] = f x := by
  rcases planDVal_twin O fm v with ⟨e, h1, h2⟩ | ⟨p, q, h1, h2, hm, hf⟩
  · exact Or.inl ⟨e, h1, h2⟩
  · refine Or.inr ⟨p.1, p.2, q.2, h1, ?_, hf⟩
    rw [h2, hm]

/-- the three renderings of one single-field query over a base datasource `d0` whose result field is `urn0` -/
def formA (fix : Bool) (from_ to : Int) (d0 : DDs D) (fs : List (DFilter D)) : Except PlanErr (DResult D) :=
  execD O fix from_ to (.filtered d0 fs)
def formB (fix : Bool) (from_ to : Int) (d0 : DDs D) (urn0 : String) (fs : List (DFilter D)) :
    Except PlanErr (RResult D) :=
  execR O fix from_ to (.filtered (.fromDs d0) (liftFilters urn0 fs))
def formC (fix : Bool) (from_ to : Int) (d0 : DDs D) (urn0 : String) (fs : List (DFilter D)) :
    Except PlanErr (DResult D) :=
  execD O fix from_ to (.fromReport (.filtered (.fromDs d0) (liftFiltersC urn0 fs)) (finalUrn urn0 fs))

/-- twins agree: B is the one-field view of A (same error, or metadata `[A.meta]` and the same records), and C = A -/
def TwinsAgree (fix : Bool) (from_ to : Int) (d0 : DDs D) (fs : List (DFilter D)) : Prop :=
  ∀ fm s, execD O fix from_ to d0 = .ok (fm, s) →
    TwinRes (formA O fix from_ to d0 fs) (formB O fix from_ to d0 fm.urn fs) ∧
    formC O fix from_ to d0 fm.urn fs = formA O fix from_ to d0 fs

theorem twins_core (fix : Bool) (from_ to : Int) (d0 : DDs D) (fs : List (DFilter D))
    (hfs : fix = true ∨ ∀ f ∈ fs, GivesCustom f) : TwinsAgree O fix from_ to d0 fs := by
  intro fm s h0
  have hw : Wrap (fm, s) ([fm], wrapStream s) := ⟨rfl, rfl⟩
  constructor
  · simp only [formA, formB, execD, execR, h0, bind, Except.bind]
    exact applyDFs_twinB O fix fs hfs hw
  · simp only [formA, formC, execD, execR, h0, bind, Except.bind]
    rcases applyDFs_twinC O fix fs hfs hw with ⟨e, e1, e2⟩ | ⟨d, r, e1, e2, hwr⟩
    · simp only at e1 e2
      have e2' : applyRFs O fix (liftFiltersC fm.urn fs) ([fm], map (fun e => Option.map (fun r => { ts := r.ts, vals := [r.val] }) e) s) = .error e := e2
      rw [e1, e2']
    · simp only at e1 e2
      have e2' : applyRFs O fix (liftFiltersC fm.urn fs) ([fm], map (fun e => Option.map (fun r => { ts := r.ts, vals := [r.val] }) e) s) = .ok r := e2
      rw [e1, e2']
      obtain ⟨rm, rs⟩ := r
      obtain ⟨h1, h2⟩ := hwr
      simp only at h1 h2; subst h1; subst h2
      have hu := finalUrn_eq O fs e1
      simp only at hu
      simp only [hu, findField, if_true]
      congr 1
      exact Prod.ext rfl (unwrap_wrap d.2)

/-- `C11_twins` for the repaired override filter: unconditional -/
theorem C11_twins (from_ to : Int) (d0 : DDs D) (fs : List (DFilter D)) : TwinsAgree O true from_ to d0 fs :=
  twins_core O true from_ to d0 fs (Or.inl rfl)

/-- `C11_twins` for the code as it is, excluding exactly the region of D22: every override filter of the chain is
given non-empty custom metadata (chains without override filters included) -/
theorem C11_twins_partial (from_ to : Int) (d0 : DDs D) (fs : List (DFilter D)) (h : ∀ f ∈ fs, GivesCustom f) :
    TwinsAgree O false from_ to d0 fs :=
  twins_core O false from_ to d0 fs (Or.inr h)

/-- the unrestricted claim for the code as it is -/
def C11_twins_full_statement : Prop :=
  ∀ (D : Type) (O : Ops D) (from_ to : Int) (d0 : DDs D) (fs : List (DFilter D)), TwinsAgree O false from_ to d0 fs

/-- D22: a field with custom metadata, `override` with nothing given — the datasource twin keeps `{k:v}`, the report
twin drops it -/
def d22Field : FieldMeta := { urn := "a", dt := .integer, unit := "", required := true, custom := some [("k", "v")] }

theorem C11_D22_witness (O : Ops Unit) :
    ¬ TwinsAgree O false 0 10 (.static d22Field []) [.override none none none] := by
  intro h
  have := (h d22Field [] (by simp [execD])).1
  simp only [formA, formB, execD, execR, applyDFs, applyDF, overrideDF, liftFilters, liftFilter, applyRFs, applyRF,
    overrideRF, overrideUrn, overrideCustom, keepCustom, findField, newFieldMeta, d22Field, bind, Except.bind,
    DataType.valid] at this
  rcases this with ⟨e, h1, _⟩ | ⟨d, r, h1, h2, hw⟩
  · simp at h1
  · simp only [filter_nil, map_nil, Option.getD_none, String.reduceEq, ↓reduceIte, Bool.not_true,
      Bool.false_eq_true, Except.ok.injEq] at h1 h2
    subst h1; subst h2
    have := hw.1
    simp at this

theorem C11_twins_full_statement_false : ¬ C11_twins_full_statement := fun h =>
  C11_D22_witness unitOps (h Unit unitOps 0 10 _ _)

/-- static datasources select the half-open range `[from, to)` (both packages) -/
theorem C11_range_half_open (fix : Bool) (from_ to : Int) (metas : List FieldMeta) (rows : List (Row D))
    (res : RResult D) (h : execR O fix from_ to (.static metas rows) = .ok res) :
    res.1 = metas ∧ collect res.2 = some (rows.filter fun r => decide (from_ ≤ r.ts ∧ r.ts < to)) := by
  simp only [execR] at h
  split at h
  · simp at h
  · split at h
    · simp at h
    · simp only [Except.ok.injEq] at h; subst h
      refine ⟨rfl, ?_⟩
      have : ∀ l : List (Row D), collect (l.map some) = some l := by
        intro l; induction l with
        | nil => rfl
        | cons a l ih => simp [collect, ih]
      rw [this]
      congr 2
      funext r
      simp [inRange]

theorem C11_range_half_open_datasource (fix : Bool) (from_ to : Int) (fm : FieldMeta) (rows : List (DRec D)) :
    ∃ s, execD O fix from_ to (.static fm rows) = .ok (fm, s) ∧
      collect s = some (rows.filter fun r => decide (from_ ≤ r.ts ∧ r.ts < to)) := by
  refine ⟨_, rfl, ?_⟩
  have : ∀ l : List (DRec D), collect (l.map some) = some l := by
    intro l; induction l with
    | nil => rfl
    | cons a l ih => simp [collect, ih]
  rw [this]
  congr 2
  funext r
  simp [inRange]


/-! ## evaluation = reference semantics -/

/-- `C11_plan_eq_ref`, value level (all value kinds of the report package; `reduce` over all fields; `reduce` over an
explicit urn list is outside): the planned value has the metadata the reference type checker computes and evaluates
to what the reference evaluator computes on every conforming row; a rejected value is rejected by the reference. -/
theorem C11_plan_eq_ref_values (v : RVal D) (hn : NoNamedReduce v) (fms : List FieldMeta) :
    match planRVal O v fms with
    | .ok p => typeR O v fms = some p.1 ∧ ∀ row, Conforms fms row → p.2 row = evalR O v fms row
    | .error _ => typeR O v fms = none := by
  have := planRVal_ref O v hn fms
  cases h : planRVal O v fms with
  | ok p => rw [h] at this; exact this
  | error e => rw [h] at this; exact this

/-- the same for the datasource package, through the documented relation `liftVal` (and `C11_twins_values`) -/
theorem C11_plan_eq_ref_values_datasource (v : DVal D) (fm : FieldMeta) :
    match planDVal O v fm with
    | .ok p => typeD O v fm = some p.1 ∧ ∀ x, tagOk fm.dt fm.required x → p.2 x = evalD O v fm x
    | .error _ => typeD O v fm = none := by
  have href := planRVal_ref O (liftVal fm.urn v) (liftVal_noNamedReduce fm.urn v) [fm]
  rcases planDVal_twin O fm v with ⟨e, h1, h2⟩ | ⟨p, q, h1, h2, hm, hf⟩
  · rw [h1]; rw [h2] at href; exact href
  · rw [h1]; rw [h2] at href
    obtain ⟨hty, hev⟩ := href
    refine ⟨by rw [hm]; exact hty, fun x hx => ?_⟩
    rw [← hf x]
    exact hev [x] (Conforms.single hx)

/-- `C11_plan_eq_ref` for whole query trees without join and reduction datasources, with report filters
append / replace / single / override / where (values without named `reduce`), every datasource-package filter,
static datasources, FromDatasource and ToDatasource: `Execute` is rejected iff the reference rejects, and otherwise
the metadata are equal and the collected rows (or the failure) are those of the reference. -/
theorem C11_plan_eq_ref_partial (fix : Bool) (from_ to : Int) :
    (∀ q : RDs D, WfR q → RefTreeR q → ResRef (execR O fix from_ to q) (semR O fix from_ to q)) ∧
    (∀ q : DDs D, WfD q → RefTreeD q → ResRefD (execD O fix from_ to q) (semD O fix from_ to q)) :=
  ⟨execR_ref O fix from_ to, execD_ref O fix from_ to⟩

/-- rejected alike; accepted → same metadata, and whenever the reference produces rows the terminal returns exactly
those (a join may end before it pulls a failing row, so a reference failure does not force a terminal failure) -/
def ResRefLazy (r : Except PlanErr (RResult D)) (ref : RRes D) : Prop :=
  match r with
  | .ok (fms, s) => ∃ rows, ref = some (fms, rows) ∧ ∀ l, rows = some l → collect s = some l
  | .error _ => ref = none

/-- the full claim: every reduction-free tree (joins, drop, select, named reduce included);
proved as `C11_plan_eq_ref` in Props/C11Full.lean -/
def C11_plan_eq_ref_full_statement : Prop :=
  ∀ (D : Type) (O : Ops D) (fix : Bool) (from_ to : Int) (q : RDs D), WfR q → NoRedR q →
    ResRefLazy (execR O fix from_ to q) (semR O fix from_ to q)


/-! ## non-vacuity -/

/-- a datasource-API chain: rename + compute, filter, override with custom metadata -/
def exStatic : DDs Unit := .static ⟨"a", .integer, "kb", true, some [("k", "v")]⟩ [⟨1, .int 1⟩, ⟨2, .int 2⟩, ⟨12, .int 3⟩]

def exChain : List (DFilter Unit) :=
  [.fval (.num .add .ref .ref) ⟨"b", none, ""⟩, .where_ (.cond .gt .ref (.const ⟨.integer, "", true, none⟩ (.int 2))),
   .override (some "c") none (some [("x", "y")])]

/-- `C11_twins_partial` applies to `exChain` (its override gives custom metadata) and the chain is accepted -/
example : (∀ f ∈ exChain, GivesCustom f) ∧
    formA unitOps false 0 10 exStatic exChain =
      .ok (⟨"c", .integer, "kb", true, some [("x", "y")]⟩, [some ⟨2, .int 4⟩]) := by
  refine ⟨?_, rfl⟩
  intro f hf
  simp only [exChain, List.mem_cons, List.not_mem_nil, or_false] at hf
  rcases hf with rfl | rfl | rfl
  · trivial
  · trivial
  · exact ⟨_, rfl, by simp⟩

/-- `C11_plan_eq_ref_partial` applies to `exQuery` of C10 (an append filter over a static table) -/
example : WfR exQuery ∧ RefTreeR exQuery :=
  ⟨exTable_wf, trivial, by
    intro f hf
    simp only [List.mem_cons, List.not_mem_nil, or_false] at hf
    subst hf
    exact ⟨trivial, trivial⟩⟩

end ShpanVerif.Props.C11
