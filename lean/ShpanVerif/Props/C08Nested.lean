/-
C08 — nested merges: a merged stream is itself a sorted input, and stability composes.

The check runs `mergeN` / `mergeR` cases (`harness/run/c08.go`, `Drive/C08.lean`): the first / last two inputs are merged
first and the merged stream is one input of the outer merge.  Behind them:

  * `C08_nested_block`   for inputs sorted by a strict weak order, merging ANY consecutive block of inputs first and
                         handing the merged stream to the outer merge in the block's place gives the same stream as the
                         flat merge of all inputs:
                         `mergeStreams lt (pre ++ [mergeStreams lt blk] ++ post) = mergeStreams lt (pre ++ blk ++ post)`
  * `C08_nested_first`   the `mergeN` shape (`blk = [a, b]`, `pre = []`)
  * `C08_nested_last`    the `mergeR` shape (`blk = [a, b]`, `post = []`)
  * `C08_nested_eq_stable_sort`  what the check's spec predicate evaluates for these cases: the nested merge is the stable
                         sort of the concatenation of the ORIGINAL inputs
  * `C08_merged_is_sorted_input` the merged stream meets the outer merge's hypothesis (it is sorted)
  * `C08_nested_twice`   two levels of nesting (a merged stream of merged streams)

All are corollaries of `C08_eq_stable_sort` and of `mergeSort_nested` (Proofs/SortNestLemmas.lean: sorting a block first
does not change core's stable sort, for all lists).
-/
import ShpanVerif.Props.C08
import ShpanVerif.Proofs.SortNestLemmas

namespace ShpanVerif.Props.C08

open List ShpanVerif.Model.Merge ShpanVerif.Proofs

variable {α : Type}

/-- Every input of the list is sorted by the comparator. -/
abbrev AllSorted (lt : α → α → Bool) (ins : List (List α)) : Prop :=
  ∀ l ∈ ins, l.Pairwise (fun a b => leOf lt a b = true)

/-- A merged stream is a legal input of another merge: it is sorted. -/
theorem C08_merged_is_sorted_input {lt : α → α → Bool} (sw : StrictWeak lt) (blk : List (List α))
    (hb : AllSorted lt blk) : AllSorted lt [mergeStreams lt blk] := by
  intro l hl
  simp only [mem_singleton] at hl
  subst hl
  exact C08_sorted sw blk hb

theorem allSorted_nested {lt : α → α → Bool} (sw : StrictWeak lt) (pre blk post : List (List α))
    (hp : AllSorted lt pre) (hb : AllSorted lt blk) (hq : AllSorted lt post) :
    AllSorted lt (pre ++ [mergeStreams lt blk] ++ post) := by
  intro l hl
  simp only [append_assoc, mem_append, mem_cons, not_mem_nil, or_false] at hl
  rcases hl with h | h | h
  · exact hp l h
  · subst h; exact C08_sorted sw blk hb
  · exact hq l h

/-- **C08 (nested merges)**: merging any consecutive block of the inputs first, and giving the merged stream to the
outer merge in the block's place, yields the stream of the flat merge - for any number of inputs before, inside and
after the block. -/
theorem C08_nested_block {lt : α → α → Bool} (sw : StrictWeak lt) (pre blk post : List (List α))
    (hp : AllSorted lt pre) (hb : AllSorted lt blk) (hq : AllSorted lt post) :
    mergeStreams lt (pre ++ [mergeStreams lt blk] ++ post) = mergeStreams lt (pre ++ blk ++ post) := by
  have hflat : AllSorted lt (pre ++ blk ++ post) := by
    intro l hl
    simp only [append_assoc, mem_append] at hl
    rcases hl with h | h | h
    · exact hp l h
    · exact hb l h
    · exact hq l h
  rw [C08_eq_stable_sort sw _ (allSorted_nested sw pre blk post hp hb hq),
    C08_eq_stable_sort sw _ hflat, C08_eq_stable_sort sw blk hb]
  simp only [flatten_append, flatten_cons, flatten_nil, append_nil]
  exact mergeSort_nested (le_trans' sw) (le_total' sw) _ _ _

/-- What the spec predicate of the `mergeN` / `mergeR` cases evaluates: the nested merge is the stable sort of the
concatenation of the original inputs. -/
theorem C08_nested_eq_stable_sort {lt : α → α → Bool} (sw : StrictWeak lt) (pre blk post : List (List α))
    (hp : AllSorted lt pre) (hb : AllSorted lt blk) (hq : AllSorted lt post) :
    mergeStreams lt (pre ++ [mergeStreams lt blk] ++ post) = mergeSort (pre ++ blk ++ post).flatten (leOf lt) := by
  rw [C08_nested_block sw pre blk post hp hb hq]
  apply C08_eq_stable_sort sw
  intro l hl
  simp only [append_assoc, mem_append] at hl
  rcases hl with h | h | h
  · exact hp l h
  · exact hb l h
  · exact hq l h

/-- `mergeN`: the first two inputs merged first. -/
theorem C08_nested_first {lt : α → α → Bool} (sw : StrictWeak lt) (a b : List α) (rest : List (List α))
    (ha : a.Pairwise (fun x y => leOf lt x y = true)) (hb : b.Pairwise (fun x y => leOf lt x y = true))
    (hr : AllSorted lt rest) :
    mergeStreams lt (mergeStreams lt [a, b] :: rest) = mergeStreams lt (a :: b :: rest) := by
  have := C08_nested_block sw [] [a, b] rest (by intro l hl; simp at hl)
    (by
      intro l hl
      simp only [mem_cons, not_mem_nil, or_false] at hl
      rcases hl with rfl | rfl
      · exact ha
      · exact hb) hr
  simpa using this

/-- `mergeR`: the last two inputs merged first. -/
theorem C08_nested_last {lt : α → α → Bool} (sw : StrictWeak lt) (pre : List (List α)) (a b : List α)
    (hp : AllSorted lt pre)
    (ha : a.Pairwise (fun x y => leOf lt x y = true)) (hb : b.Pairwise (fun x y => leOf lt x y = true)) :
    mergeStreams lt (pre ++ [mergeStreams lt [a, b]]) = mergeStreams lt (pre ++ [a, b]) := by
  have := C08_nested_block sw pre [a, b] [] hp
    (by
      intro l hl
      simp only [mem_cons, not_mem_nil, or_false] at hl
      rcases hl with rfl | rfl
      · exact ha
      · exact hb) (by intro l hl; simp at hl)
  simpa using this

/-- Two levels: a block that itself contains a merged block. -/
theorem C08_nested_twice {lt : α → α → Bool} (sw : StrictWeak lt) (pre p2 blk q2 post : List (List α))
    (hp : AllSorted lt pre) (hp2 : AllSorted lt p2) (hb : AllSorted lt blk) (hq2 : AllSorted lt q2)
    (hq : AllSorted lt post) :
    mergeStreams lt (pre ++ [mergeStreams lt (p2 ++ [mergeStreams lt blk] ++ q2)] ++ post)
      = mergeStreams lt (pre ++ (p2 ++ blk ++ q2) ++ post) := by
  rw [C08_nested_block sw p2 blk q2 hp2 hb hq2]
  apply C08_nested_block sw pre (p2 ++ blk ++ q2) post hp _ hq
  intro l hl
  simp only [append_assoc, mem_append] at hl
  rcases hl with h | h | h
  · exact hp2 l h
  · exact hb l h
  · exact hq2 l h

/-! Non-vacuity: concrete inputs with ties across the block boundary meet every hypothesis, and both sides are the
    stable order (ties by input index: tags 0,1 of input 0 before tag 2 of input 1 before tag 4 of input 2). -/
theorem allSorted_example :
    AllSorted ltKey [[(1,0),(1,1),(3,9)], [(1,2),(2,3)], [(0,5),(1,4)]] := by
  intro l hl
  simp only [mem_cons, not_mem_nil, or_false] at hl
  rcases hl with rfl | rfl | rfl <;> decide

example : mergeStreams ltKey (mergeStreams ltKey [[(1,0),(1,1),(3,9)], [(1,2),(2,3)]] :: [[(0,5),(1,4)]])
    = [(0,5),(1,0),(1,1),(1,2),(1,4),(2,3),(3,9)] := by decide
example : mergeStreams ltKey [[(1,0),(1,1),(3,9)], [(1,2),(2,3)], [(0,5),(1,4)]]
    = [(0,5),(1,0),(1,1),(1,2),(1,4),(2,3),(3,9)] := by decide
example : mergeStreams ltKey ([[(1,0),(1,1),(3,9)]] ++ [mergeStreams ltKey [[(1,2),(2,3)], [(0,5),(1,4)]]])
    = [(0,5),(1,0),(1,1),(1,2),(1,4),(2,3),(3,9)] := by decide
/-- the hypotheses of `C08_nested_first` hold for the example (instance of the theorem, not a computation) -/
example : mergeStreams ltKey (mergeStreams ltKey [[(1,0),(1,1),(3,9)], [(1,2),(2,3)]] :: [[(0,5),(1,4)]])
    = mergeStreams ltKey ([(1,0),(1,1),(3,9)] :: [(1,2),(2,3)] :: [[(0,5),(1,4)]]) :=
  C08_nested_first ltKey_sw _ _ _ (by decide) (by decide) (by intro l hl; simp at hl; subst hl; decide)
end ShpanVerif.Props.C08
