/-
C03 / C01 / C04 — the value terminals `FindFirstAndLast`, `FindLast`, `Count` (harness terminals `ffl` / `flast` / `count`).

Model: `Model/PipeTerminals.lean` (`valueTerminal fuel t p w` = `Consume` with the collecting callback that keeps first /
last / a counter, then the terminal's own code, which tests `err` BEFORE "nothing seen").  Everything here is a corollary
of the pipeline theorems `C03_surface`, `C01_bracket`, `C04_pipe` - for EVERY pipeline, world and value terminal.

  * `seenOf_eq`                        the captured variables after the run = `head?` / `getLast?` / `length` of the delivered list
  * `Post.app_ok` / `Post.app_err`     closed form of the terminals (what the driver used to define directly)
  * `C03_value_terminal_surface`       a fired non-cancel fault surfaces with the injected root and hands back NO value
  * `C03_value_terminal_never_fakes`   whatever the fault (cancel included): an error comes with no value, a value comes with no error
                                       and is the value of a prefix of the fault-free run (nothing invented)
  * `C01_value_terminal`               the C01 statement for the value terminals
  * `C01_value_terminal_as_collect`    ... because operator object and world (whole event trace) are those of Collect
  * `C04_value_terminals`              fault-free the answer is `first/last`, `last`, `length` of the list-level meaning
  * `C04_value_terminal_firstLast/_last/_count`  the three answers spelled out
  * `C03_witness_nothing_seen_first`   the variant testing "nothing seen" before `err` (seeded C03r14-1) swallows every failure
                                       that happens before the first element: it reports an empty stream
  * `C03_seeded_only_before_first`     ... and only those (once an element was seen the variant agrees with the code)
-/
import ShpanVerif.Model.PipeTerminals
import ShpanVerif.Props.C01
import ShpanVerif.Props.C03
import ShpanVerif.Props.C04

namespace ShpanVerif.Props.C03Terminals
open ShpanVerif.Model.Pipe ShpanVerif ShpanVerif.Props

/-! ### the closures' captured variables -/

theorem foldl_step (d : List V) : ∀ (s : Seen),
    (d.foldl Seen.step s).first = (match s.first with | none => d.head? | some a => some a) ∧
    (d.foldl Seen.step s).last = (match d.getLast? with | some b => some b | none => s.last) ∧
    (d.foldl Seen.step s).count = s.count + d.length := by
  induction d with
  | nil => intro s; cases h : s.first <;> simp [h]
  | cons v d ih =>
    intro s
    obtain ⟨h1, h2, h3⟩ := ih (s.step v)
    simp only [List.foldl_cons, List.head?_cons, List.length_cons]
    refine ⟨?_, ?_, ?_⟩
    · rw [h1]; cases h : s.first <;> simp [Seen.step, h]
    · rw [h2]
      cases d with
      | nil => simp [Seen.step]
      | cons x d =>
        have : (x :: d).getLast? = some ((x :: d).getLast (by simp)) := List.getLast?_eq_some_getLast _
        simp only [List.getLast?_cons_cons, this]
    · rw [h3]; simp only [Seen.step]; omega

/-- after `Consume` returned, `first` / `last` / `count` are the head, the last element and the number of the delivered
    elements -/
theorem seenOf_eq (d : List V) :
    (seenOf d).first = d.head? ∧ (seenOf d).last = d.getLast? ∧ (seenOf d).count = d.length := by
  obtain ⟨h1, h2, h3⟩ := foldl_step d Seen.init
  refine ⟨by simpa [seenOf, Seen.init] using h1, ?_, by simpa [seenOf, Seen.init] using h3⟩
  rw [seenOf, h2]
  cases d.getLast? <;> simp [Seen.init]

/-- a successful `Consume`: the terminal answers the list-level function of what was delivered -/
theorem Post.app_ok (t : Post) (d : List V) : t.app (.ok d) = .ok (t.answer d) := by
  obtain ⟨h1, h2, h3⟩ := seenOf_eq d
  cases t <;> simp only [Post.app, Post.finish, Post.answer, h1, h2, h3]
  · cases d.head? <;> cases d.getLast? <;> rfl
  · cases d.getLast? <;> rfl

/-- a failed `Consume`: the error, and no value - whatever had been seen -/
theorem Post.app_err (t : Post) (ht : t ≠ .asIs) (e : Root) (d : List V) : t.app (.err e d) = .err e [] := by
  cases t <;> simp_all [Post.app, Post.finish]

theorem Post.app_oof (t : Post) : t.app .oof = .oof := by cases t <;> rfl

theorem Post.app_eq_oof (t : Post) (o : Outcome) : t.app o = .oof ↔ o = .oof := by
  constructor
  · intro h
    cases o with
    | oof => rfl
    | ok d => rw [Post.app_ok] at h; cases h
    | err e d =>
      cases t with
      | asIs => simp [Post.app] at h
      | firstLast => rw [Post.app_err _ (by decide)] at h; cases h
      | last => rw [Post.app_err _ (by decide)] at h; cases h
      | count => rw [Post.app_err _ (by decide)] at h; cases h
  · rintro rfl; exact Post.app_oof t

/-! ### projections of `valueTerminal` -/

theorem valueTerminal_fst (fuel : Nat) (t : Post) (p : Pipe) (w : World) :
    (valueTerminal fuel t p w).1 = t.app (consume fuel .collect p w).1 := rfl

/-- **C01 (value terminals, "exactly as for Collect")**: the operator object and the world - open set, `bad` flag, call
    counter, the whole event trace - after a value terminal are those after `Collect` on the same object in the same
    world. -/
theorem C01_value_terminal_as_collect (fuel : Nat) (t : Post) (p : Pipe) (w : World) :
    (valueTerminal fuel t p w).2 = (consume fuel .collect p w).2 := rfl

/-! ### C03 -/

/-- **C03 (value terminals surface)**: for every pipeline, every value terminal and every world whose fault plan is not
    a cancellation: if the plan fires, the terminal returns the error with the injected root and NO value - never an
    empty answer, never a first / last / count of what had been seen. -/
theorem C03_value_terminal_surface (fuel : Nat) (t : Post) (ht : t ≠ .asIs) (p : Pipe) (w : World)
    (pos : Nat) (k : FaultKind) (hf : w.fault = some (pos, k)) (hk : k ≠ .cancel) (hfired : w.fired = false) :
    (valueTerminal fuel t p w).1 = .oof ∨
      ((valueTerminal fuel t p w).2.2.fired = true →
        (valueTerminal fuel t p w).1 = .err (expectedRoot k) []) := by
  rw [valueTerminal_fst, C01_value_terminal_as_collect]
  rcases C03.C03_surface fuel .collect p w pos k hf hk hfired with h | h
  · exact Or.inl (by rw [h]; exact Post.app_oof t)
  · refine Or.inr (fun hfi => ?_)
    obtain ⟨d, hd⟩ := h hfi
    rw [hd]; exact Post.app_err t ht _ _

/-- **C03 (value terminals never fake a value)**: in every world (any fault kind incl. cancel, any position) the
    terminal either fails with no value, or answers the value of a list `d` that is a prefix of what the fault-free
    run delivers. -/
theorem C03_value_terminal_never_fakes (fuel : Nat) (t : Post) (ht : t ≠ .asIs) (p : Pipe) (w : World)
    (pos : Nat) (k : FaultKind) (hw : w.fault = none) :
    (valueTerminal fuel t p w).1 = .oof ∨ (valueTerminal fuel t p { w with fault := some (pos, k) }).1 = .oof ∨
      (∃ e, (valueTerminal fuel t p { w with fault := some (pos, k) }).1 = .err e []) ∨
      (∃ d, (valueTerminal fuel t p { w with fault := some (pos, k) }).1 = .ok (t.answer d) ∧
          d <+: (consume fuel .collect p w).1.delivered) := by
  simp only [valueTerminal_fst]
  rcases C03.C03_prefix fuel .collect p w pos k hw with h | h | h
  · exact Or.inl (by rw [h]; exact Post.app_oof t)
  · exact Or.inr (Or.inl (by rw [h]; exact Post.app_oof t))
  · cases hc : (consume fuel .collect p { w with fault := some (pos, k) }).1 with
    | oof => exact Or.inr (Or.inl (Post.app_oof t))
    | ok d =>
      exact Or.inr (Or.inr (Or.inr ⟨d, Post.app_ok t d, by simpa [hc, Outcome.delivered] using h⟩))
    | err e d => exact Or.inr (Or.inr (Or.inl ⟨e, Post.app_err t ht e d⟩))

/-! ### C01 -/

/-- **C01 (value terminals)**: the C01 statement with a value terminal in the place of the consumer: every resource the
    terminal opened is closed exactly once when it returns, on every exit path (any fault kind at any position, cancelled
    or not), and the operator object is at rest again. -/
theorem C01_value_terminal (fuel : Nat) (t : Post) (p : Pipe) (w : World)
    (hc : Closed p) (hn : (ids p).Nodup) (hb : w.bad = false) (ho : ∀ r ∈ ids p, w.isOpen r = false) :
    (valueTerminal fuel t p w).1 = .oof ∨
      ((valueTerminal fuel t p w).2.2.bad = false ∧
       (∀ r, (valueTerminal fuel t p w).2.2.isOpen r = w.isOpen r) ∧
       Closed (valueTerminal fuel t p w).2.1) := by
  rw [valueTerminal_fst, C01_value_terminal_as_collect]
  rcases C01.C01_bracket fuel .collect p w hc hn hb ho with h | h
  · exact Or.inl (by rw [h]; exact Post.app_oof t)
  · exact Or.inr h

/-! ### C04 -/

/-- **C04 (value terminals)**: fault-free, on every pipeline with a list-level meaning `l`, the three terminals answer
    `first/last`, `last`, `length` of `l` (`Post.answer`). -/
theorem C04_value_terminals (fuel : Nat) (t : Post) (p : Pipe) (l : List V) (w : World)
    (hr : Ready p) (he : Spec.eval p = some l) (hw : w.Clean) :
    (valueTerminal fuel t p w).1 = .oof ∨ (valueTerminal fuel t p w).1 = .ok (t.answer l) := by
  rw [valueTerminal_fst]
  rcases C04.C04_pipe fuel .collect p l w hr he hw with h | h
  · exact Or.inl (by rw [h]; exact Post.app_oof t)
  · exact Or.inr (by rw [h]; exact Post.app_ok t l)

/-- FindFirstAndLast on a non-empty meaning: the pair (first, last); one element: the same element twice -/
theorem C04_value_terminal_firstLast (a : V) (l : List V) :
    Post.answer .firstLast (a :: l) = [a, (a :: l).getLast (by simp)] := by
  simp [Post.answer, List.getLast?_eq_some_getLast]

theorem C04_value_terminal_firstLast_empty : Post.answer .firstLast [] = [] := rfl

/-- FindLast -/
theorem C04_value_terminal_last (a : V) (l : List V) :
    Post.answer .last (a :: l) = [(a :: l).getLast (by simp)] := by
  simp [Post.answer, List.getLast?_eq_some_getLast]

/-- Count -/
theorem C04_value_terminal_count (l : List V) : Post.answer .count l = [V.int l.length] := rfl

/-! ### the seeded variant: "nothing seen" tested before `err` -/

/-- **Witness (C03r14-1)**: the variant of FindFirstAndLast that tests `first == nil` before `err != nil` answers "empty
    stream, no error" for EVERY run that failed before its first element - the failure is swallowed - whereas the code
    returns the error. -/
theorem C03_witness_nothing_seen_first (e : Root) :
    Post.appSeeded .firstLast (.err e []) = .ok [] ∧ Post.app .firstLast (.err e []) = .err e [] := by
  constructor <;> rfl

/-- ... and only those: once an element was seen the variant agrees with the code, on every outcome. -/
theorem C03_seeded_only_before_first (t : Post) (o : Outcome) (h : o.delivered ≠ [] ∨ ∃ d, o = .ok d) :
    t.appSeeded o = t.app o := by
  cases t with
  | asIs => cases o <;> rfl
  | last => cases o <;> rfl
  | count => cases o <;> rfl
  | firstLast =>
    cases o with
    | oof => rfl
    | ok d =>
      obtain ⟨h1, h2, _⟩ := seenOf_eq d
      simp only [Post.appSeeded, Post.app, Post.finishSeeded, Post.finish, h1, h2]
      cases d with
      | nil => rfl
      | cons a d => simp [List.getLast?_eq_some_getLast]
    | err e d =>
      obtain ⟨h1, _, _⟩ := seenOf_eq d
      cases d with
      | nil => rcases h with h | ⟨d', h⟩ <;> simp [Outcome.delivered] at h
      | cons a d => simp [Post.appSeeded, Post.app, Post.finishSeeded, Post.finish, h1]

/-! ### non-vacuity: `Map(+1)` over the probe source [1,2,3] (call positions: 0 = Open, 1 = Emit, 2 = mapper, 3 = Emit, …) -/

open C03 in
/-- fault-free: (2,4), 4, 3 -/
example : isOk (valueTerminal 10 .firstLast demo {}).1 [.int 2, .int 4] = true ∧
    isOk (valueTerminal 10 .last demo {}).1 [.int 4] = true ∧
    isOk (valueTerminal 10 .count demo {}).1 [.int 3] = true := by decide +kernel

open C03 in
/-- an error at the second Emit (position 3, after element 2 was seen): the plan fires, the hypotheses of
    `C03_value_terminal_surface` hold, and all three hand back the error and no value (not `(2,2)`, `2`, `1`) -/
example : ({ fault := some (3, .err) } : World).fired = false ∧
    (valueTerminal 10 .firstLast demo { fault := some (3, .err) }).2.2.fired = true ∧
    isErr (valueTerminal 10 .firstLast demo { fault := some (3, .err) }).1 .user [] = true ∧
    isErr (valueTerminal 10 .last demo { fault := some (3, .err) }).1 .user [] = true ∧
    isErr (valueTerminal 10 .count demo { fault := some (3, .err) }).1 .user [] = true := by decide +kernel

open C03 in
/-- the seeded scenario on a concrete run: the first Emit fails (position 1), nothing was seen; the code answers the error,
    the seeded variant "ok, empty" -/
example : (consume 10 .collect demo { fault := some (1, .err) }).2.2.fired = true ∧
    isErr (Post.app .firstLast (consume 10 .collect demo { fault := some (1, .err) }).1) .user [] = true ∧
    isOk (Post.appSeeded .firstLast (consume 10 .collect demo { fault := some (1, .err) }).1) [] = true := by
  decide +kernel

open C03 in
/-- a panic in Open (position 0) and in the mapper on element 0 (position 2): the other two places "before the first element" -/
example : isOk (Post.appSeeded .firstLast (consume 10 .collect demo { fault := some (0, .panicErr) }).1) [] = true ∧
    isOk (Post.appSeeded .firstLast (consume 10 .collect demo { fault := some (2, .panicVal) }).1) [] = true ∧
    isErr (valueTerminal 10 .firstLast demo { fault := some (0, .panicErr) }).1 .user [] = true ∧
    isErr (valueTerminal 10 .firstLast demo { fault := some (2, .panicVal) }).1 .panicVal [] = true := by
  decide +kernel

/-- C01: the resources of the example pipeline of Props/C01.lean under a value terminal: its hypotheses hold and the
    world's trace is Collect's -/
example : (valueTerminal 60 .count C01.exPipe (C01.exWorld 3 .panicVal)).2.2.trace
    = (C01.exRun 3 .panicVal).2.2.trace := rfl

end ShpanVerif.Props.C03Terminals
