/-
C05, asynchronous clause — Buffered(size) and the concurrent map with concurrency c never run ahead of the consumer
by more than a bound that depends only on size / c.

"pulled" = number of source Emit calls that returned a value (`cursor`); "delivered" = number of elements the stage's
own Emit has returned to its downstream (`delivered.length`; the element the consumer currently holds counts as
delivered).

  * `C05_runahead_buffered`  every history (any schedule, cancel, early stop, failure): pulled − delivered ≤ size
                             (size−1 queued + 1 in the filler's hand; an element dropped on cancellation replaces the
                             one in hand).  `C05_runahead_buffered_tight`: the bound is attained.
  * `C05_runahead_concmap`   failure-free histories (no cancellation, no injected failure, no early stop):
                             pulled − delivered ≤ 3c + 1  (c in srcChan, c in the workers, c in tgtChan, 1 in the producer's
                             hand), with the exact accounting `C05_concmap_accounting`.
                             `C05_runahead_concmap_tight`: attained (c = 1: 4 pulled, none delivered).
-/
import ShpanVerif.Proofs.ConcMapInv
import ShpanVerif.Proofs.ConcConsumeInv
import ShpanVerif.Proofs.BufferedInv

namespace ShpanVerif.Props.C05Async
open ShpanVerif.Model.Conc
open ShpanVerif.Model
open ShpanVerif.Proofs

/-! ### Buffered -/
section buffered
open ShpanVerif.Model.Buffered ShpanVerif.Proofs.Buffered

/-- one-step case analysis (own name: the per-model `step_cases` macros share one syntax and clash when two models
    are imported) -/
macro "bf_cases" hs:ident : tactic =>
  `(tactic| (cases ‹Buffered.Label› <;> simp only [Buffered.step] at $hs:ident <;> (repeat' split at $hs:ident) <;>
      (try (simp at $hs:ident)) <;> (try (subst $hs:ident))))

def inHandN : FPc → Nat
  | .cb _ => 1
  | _ => 0

/-- exact accounting of pulled elements, every history -/
def Account (s : Buffered.St) : Prop :=
  s.cursor = s.delivered.length + s.ch.length + inHandN s.f + (if s.dropped then 1 else 0) ∧
  (s.dropped = true → inHandN s.f = 0)

set_option maxHeartbeats 2000000 in
theorem account_step {cfg : Buffered.Cfg} {s s' : Buffered.St} {l : Buffered.Label}
    (hb : Buffered.Basic cfg s) (h : Account s) (hs : Buffered.step cfg s l = some s') : Account s' := by
  have hd := hb.dropped_pc
  obtain ⟨a1, a2⟩ := h
  unfold Account
  bf_cases hs <;> simp_all [inHandN, livePc] <;> grind

theorem account {cfg : Buffered.Cfg} {s : Buffered.St} (hr : Reachable (Buffered.sys cfg) s) : Account s := by
  have : Buffered.Basic cfg s ∧ Account s := by
    refine invariant (sys := Buffered.sys cfg) (P := fun s => Buffered.Basic cfg s ∧ Account s) ?_ ?_ s hr
    · exact ⟨Buffered.basic_init cfg, by simp [Account, Buffered.sys, Buffered.init, inHandN]⟩
    · intro s l s' h hs
      exact ⟨Buffered.basic_step h.1 hs, account_step h.1 h.2 hs⟩
  exact this.2

/-- **Buffered(size) never runs ahead of its consumer by more than `size`** — every schedule, cancellation, early stop
    and failure. -/
theorem C05_runahead_buffered {cfg : Buffered.Cfg} {s : Buffered.St} (hsz : 1 ≤ cfg.size)
    (hr : Reachable (Buffered.sys cfg) s) : s.cursor ≤ s.delivered.length + cfg.size := by
  obtain ⟨h1, h2⟩ := account hr
  have hcap := (Buffered.basic hr).cap
  simp only [Buffered.St.chLen, Buffered.Cfg.cap] at hcap
  have hin : inHandN s.f ≤ 1 := by cases s.f <;> simp [inHandN]
  by_cases hd : s.dropped = true
  · have := h2 hd
    simp only [hd, ↓reduceIte] at h1
    split at hcap <;> omega
  · simp only [hd, Bool.false_eq_true, ↓reduceIte] at h1
    split at hcap <;> omega

/-- The bound is attained: Buffered(2) over a source of 2: two pulled, none delivered. -/
theorem C05_runahead_buffered_tight :
    ∃ s, Reachable (Buffered.sys { n := 2, size := 2 }) s ∧ (s.cursor == 2 && s.delivered.length == 0) = true :=
  checkRun_reachable (ls := [.fOpenOk, .fCheck, .fEmitVal, .fSend, .fCheck, .fEmitVal]) (by decide)

end buffered

/-! ### concurrent map -/
section concmap
open ShpanVerif.Model.ConcMap ShpanVerif.Proofs.ConcMap

macro "cm_cases" hs:ident : tactic =>
  `(tactic| (cases ‹ConcMap.Label› <;> simp only [ConcMap.step] at $hs:ident <;> (repeat' split at $hs:ident) <;>
      (try (simp at $hs:ident)) <;> (try (subst $hs:ident))))

def handN : PPc → Nat
  | .have _ => 1
  | _ => 0

/-- exact accounting of pulled elements in failure-free histories -/
def AccountFF (s : ConcMap.St) : Prop :=
  s.cursor = handN s.prod + s.srcChan.length + s.wMap.length + s.wHold.length + s.tgtChan.length + s.delivered.length

set_option maxHeartbeats 4000000 in
theorem accountFF_step {cfg : ConcMap.Cfg} {s s' : ConcMap.St} {l : ConcMap.Label}
    (hb : ConcMap.Basic cfg s) (he : ConcMap.FF s → ConcMap.Exact cfg s) (h : ConcMap.FF s → AccountFF s)
    (hs : ConcMap.step cfg s l = some s') : ConcMap.FF s' → AccountFF s' := by
  intro hff
  unfold AccountFF at *
  obtain ⟨b1, b2, b3, b4, b5, b6, b7, b8, b9, b10, b11, b12, b13, b14, b15, b16, b17, b18, b19, b20, b21⟩ := hb
  cm_cases hs <;> simp only [ConcMap.FF] at hff <;> (try (simp at hff; done)) <;>
    (have hff0 : ConcMap.FF s := by simpa [ConcMap.FF] using hff) <;>
    (have a := h hff0) <;> (obtain ⟨e1, e0, e2, e3, e4, e5, e6, e7, e8⟩ := he hff0) <;>
    simp_all [handN, List.length_erase_of_mem, St.pctx, St.ctx1] <;> grind [List.length_pos_of_mem]

theorem accountFF {cfg : ConcMap.Cfg} {s : ConcMap.St} (hr : Reachable (ConcMap.sys cfg) s) :
    ConcMap.FF s → AccountFF s := by
  have : ConcMap.Basic cfg s ∧ (ConcMap.FF s → ConcMap.Exact cfg s) ∧ (ConcMap.FF s → AccountFF s) := by
    refine invariant (sys := ConcMap.sys cfg)
      (P := fun s => ConcMap.Basic cfg s ∧ (ConcMap.FF s → ConcMap.Exact cfg s) ∧ (ConcMap.FF s → AccountFF s)) ?_ ?_ s hr
    · refine ⟨ConcMap.basic_init cfg, fun _ => ?_, fun _ => ?_⟩
      · constructor <;> simp [ConcMap.sys, ConcMap.init, ConcMap.cnt, ConcMap.inHand]
      · simp [AccountFF, ConcMap.sys, ConcMap.init, handN]
    · intro s l s' h hs
      exact ⟨ConcMap.basic_step h.1 hs, ConcMap.exact_step h.1 h.2.1 hs, accountFF_step h.1 h.2.1 h.2.2 hs⟩
  exact this.2.2

theorem C05_concmap_accounting {cfg : ConcMap.Cfg} {s : ConcMap.St} (hr : Reachable (ConcMap.sys cfg) s)
    (hff : ConcMap.FF s) : AccountFF s := accountFF hr hff

/-- **The concurrent map never runs ahead of its consumer by more than 3c + 1** (failure-free histories). -/
theorem C05_runahead_concmap {cfg : ConcMap.Cfg} {s : ConcMap.St} (hr : Reachable (ConcMap.sys cfg) s)
    (hff : ConcMap.FF s) : s.cursor ≤ s.delivered.length + (3 * cfg.c + 1) := by
  have h := accountFF hr hff
  have hb := ConcMap.basic hr
  have h1 := hb.srcCap
  have h2 := hb.tgtCap
  have h3 := hb.workers
  have h4 : handN s.prod ≤ 1 := by cases s.prod <;> simp [handN]
  unfold AccountFF at h
  omega

/-- The bound is attained (c = 1): 4 elements pulled, none delivered — one in tgtChan, one inside the mapper, one in
    srcChan, one in the producer's hand. -/
theorem C05_runahead_concmap_tight :
    ∃ s, Reachable (ConcMap.sys { n := 4, c := 1 }) s ∧
      (s.cursor == 4 && s.delivered.length == 0 && !s.ctx0 && !s.faulted && !s.stopped) = true :=
  checkRun_reachable
    (ls := [.pTop, .pEmitVal, .pSend, .wRecv, .wMapOk 0, .wSend (.val 0), .pTop, .pEmitVal, .pSend, .wRecv,
            .pTop, .pEmitVal, .pSend, .pTop, .pEmitVal]) (by decide)

end concmap

/-! ### concurrent consume -/
section consume

def handC : ConcConsume.PPc → Nat
  | .have _ => 1
  | _ => 0

/-- while nothing was cancelled and no failure was injected, every pulled element is in the producer's hand, in the item
    channel, or was handed to the callback -/
def AccountC (s : ConcConsume.St) : Prop :=
  s.wctx = false → s.faulted = false → s.cursor = handC s.prod + s.ch.length + s.called.length

set_option maxHeartbeats 4000000 in
theorem accountC_step {cfg : ConcConsume.Cfg} {s s' : ConcConsume.St} {l : ConcConsume.Label}
    (hb : ConcConsume.Basic cfg s) (h : AccountC s) (hs : ConcConsume.step cfg s l = some s') : AccountC s' := by
  unfold AccountC at *
  obtain ⟨b1, b2, b3, b4, b5, b6, b7, b8, b9, b10, b11, b12, b13, b14, b15⟩ := hb
  cases l <;> simp only [ConcConsume.step] at hs <;> (repeat' split at hs) <;> (try (simp at hs)) <;> (try (subst hs)) <;>
    simp_all [handC, ConcConsume.St.wctx, List.length_erase_of_mem] <;> grind [List.length_pos_of_mem]

theorem accountC {cfg : ConcConsume.Cfg} {s : ConcConsume.St} (hr : Reachable (ConcConsume.sys cfg) s) : AccountC s := by
  have : ConcConsume.Basic cfg s ∧ AccountC s := by
    refine invariant (sys := ConcConsume.sys cfg) (P := fun s => ConcConsume.Basic cfg s ∧ AccountC s) ?_ ?_ s hr
    · exact ⟨ConcConsume.basic_init cfg, by simp [AccountC, ConcConsume.sys, ConcConsume.init, handC]⟩
    · intro s l s' h hs
      exact ⟨ConcConsume.basic_step h.1 hs, accountC_step h.1 h.2 hs⟩
  exact this.2

/-- **The concurrent consume terminal never reads ahead of its callbacks by more than c + 1** (histories without failure
    or cancellation): at most `c` elements wait in the item channel and one is in the producer's hand. -/
theorem C05_runahead_consume {cfg : ConcConsume.Cfg} {s : ConcConsume.St} (hr : Reachable (ConcConsume.sys cfg) s)
    (hw : s.wctx = false) (hf : s.faulted = false) : s.cursor ≤ s.called.length + (cfg.c + 1) := by
  have h := accountC hr hw hf
  have hb := ConcConsume.basic hr
  have h1 := hb.cap
  have h2 : handC s.prod ≤ 1 := by cases s.prod <;> simp [handC]
  omega

/-- The bound is attained (c = 1): three elements pulled, one handed to a callback. -/
theorem C05_runahead_consume_tight :
    ∃ s, Reachable (ConcConsume.sys { n := 3, c := 1 }) s ∧ (s.cursor == 3 && s.called.length == 1 && !s.wctx) = true :=
  checkRun_reachable
    (ls := [.pCheck, .pEmitVal, .pSend, .wRecv, .pCheck, .pEmitVal, .pSend, .pCheck, .pEmitVal]) (by decide)

end consume

end ShpanVerif.Props.C05Async
