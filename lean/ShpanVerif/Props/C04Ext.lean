import ShpanVerif.Model.Lazy
import ShpanVerif.Model.LazyDsl
import ShpanVerif.Model.Terminals
import ShpanVerif.Proofs.C04ExtLemmas
/-
C04, second part: the lazy package, FromLazy, the terminals, the collectors, random sampling, Iterator and
the remaining sources agree with plain options / lists.

Part A  Lazy combinators = `Except Err (Option α)` terms, which supplier each keeps, algebraic laws,
        `C04x_lazy_tree` (every well-formed combinator tree of the DSL, every context).
Part B  FromLazy and the sources.
Part C  terminals = list functions of what the stream delivers.
Part D  collectors (association semantics, duplicate-key error iff a duplicate exists, group counts).
Part E  random sampling, for EVERY oracle: length = min k n, sub-multiset, identity when n ≤ k.
Part F  Iterator / IndexedIterator: the loop body sees exactly the prefix up to the break.
-/
namespace ShpanVerif.Props.C04Ext
open ShpanVerif.Model.Lazy ShpanVerif.Model.LazyDsl ShpanVerif.Model.Terminals ShpanVerif.Proofs.C04Ext

/-! ## Part A — Lazy -/

section LazyLaws
variable {α β γ : Type}

/-- the option-level meaning of `Get`: the fetched value, or the lazy's own empty-value error -/
def getSpec (r : Except Err (Option α)) (emptyErr : Err) : Except Err α :=
  r >>= fun o => match o with | some v => pure v | none => throw emptyErr

/-- Get / GetOptional / OrElse / OrElseGet / IsEmpty and the Must forms as terms over the fetch result. -/
theorem C04x_lazy_readers (l : Lazy α) (ctx : Ctx) (d : α) :
    l.get ctx = getSpec (l.fetcher ctx) l.emptyErr ∧
    l.getOptional ctx = l.fetcher ctx ∧
    l.orElse ctx d = (l.fetcher ctx).map (·.getD d) ∧
    (l.orElseGet ctx (fun _ => d)).1 = (l.fetcher ctx).map (·.getD d) ∧
    ((l.orElseGet ctx (fun _ => d)).2 = 1 ↔ l.fetcher ctx = .ok none) ∧
    l.isEmpty ctx = (l.fetcher ctx).map (·.isNone) ∧
    l.mustGet = (match l.get .background with | .ok v => .ret v | .error e => .panic e) ∧
    l.mustGetOptional = (match l.fetcher .background with | .ok v => .ret v | .error e => .panic e) ∧
    l.mustOrElse d = (match l.orElse .background d with | .ok v => .ret v | .error e => .panic e) ∧
    (l.mustOrElseGet (fun _ => d)).1 = (match l.orElse .background d with | .ok v => .ret v | .error e => .panic e) ∧
    l.mustIsEmpty = (match l.isEmpty .background with | .ok v => .ret v | .error e => .panic e) := by
  refine ⟨?_, rfl, ?_, ?_, ?_, ?_, ?_, ?_, ?_, ?_, ?_⟩
  all_goals
    simp only [Lazy.get, Lazy.orElse, Lazy.orElseGet, Lazy.isEmpty, Lazy.getOptional, Lazy.mustGet,
      Lazy.mustGetOptional, Lazy.mustOrElse, Lazy.mustOrElseGet, Lazy.mustIsEmpty, getSpec]
    rcases h : l.fetcher ctx with e | (_ | v) <;> rcases h' : l.fetcher Ctx.background with e' | (_ | v') <;>
      simp [Except.map, bind, Except.bind, pure, Except.pure, throw, throwThe, MonadExceptOf.throw]

theorem C04x_lazy_get (l : Lazy α) (ctx : Ctx) : l.get ctx = getSpec (l.fetcher ctx) l.emptyErr := by
  simp only [Lazy.get, getSpec]
  rcases l.fetcher ctx with e | (_ | v) <;> rfl

/-- `Get` fails with the lazy's OWN empty-value error exactly when the fetch succeeds with no value. -/
theorem C04x_lazy_get_empty (l : Lazy α) (ctx : Ctx) (h : l.fetcher ctx = .ok none) :
    l.get ctx = .error l.emptyErr := by
  simp [Lazy.get, h]

/-- Map / MapWithErr / MapWithErrAndCtx. -/
theorem C04x_lazy_map (l : Lazy α) (ctx : Ctx) (f : α → β) (fe : α → Except Err β)
    (fc : Ctx → α → Except Err β) :
    (l.map f).fetcher ctx = (l.fetcher ctx).map (Option.map f) ∧
    (l.mapWithErr fe).fetcher ctx = (l.fetcher ctx >>= Option.mapM fe) ∧
    (l.mapWithErrAndCtx fc).fetcher ctx = (l.fetcher ctx >>= Option.mapM (fc ctx)) := by
  refine ⟨?_, ?_, ?_⟩ <;>
    simp only [Lazy.map, Lazy.mapWithErr, Lazy.mapWithErrAndCtx, Lazy.newLazy, Lazy.getOptional] <;>
    rcases l.fetcher ctx with e | (_ | v) <;>
    simp [Except.map, bind, Except.bind, Option.mapM, pure, Except.pure, Functor.map]
  · rcases fe v with e | b <;> rfl
  · rcases fc ctx v with e | b <;> rfl

/-- Filter / FilterWithErr / FilterWithErrAndCtx: the value is kept iff the predicate says true; an empty
lazy never calls the predicate. -/
theorem C04x_lazy_filter (l : Lazy α) (ctx : Ctx) (p : α → Bool) (pe : α → Except Err Bool)
    (pc : Ctx → α → Except Err Bool) :
    (l.filter p).fetcher ctx = (l.fetcher ctx).map (Option.filter p) ∧
    (l.filterWithErr pe).fetcher ctx =
      (l.fetcher ctx >>= fun o => match o with
        | none => pure none
        | some v => pe v >>= fun b => pure (if b then some v else none)) ∧
    (l.filterWithErrAndCtx pc).fetcher ctx =
      (l.fetcher ctx >>= fun o => match o with
        | none => pure none
        | some v => pc ctx v >>= fun b => pure (if b then some v else none)) := by
  refine ⟨?_, ?_, ?_⟩ <;>
    simp only [Lazy.filter, Lazy.filterWithErr, Lazy.filterWithErrAndCtx, Lazy.newLazy] <;>
    rcases l.fetcher ctx with e | (_ | v) <;>
    simp [Except.map, bind, Except.bind, pure, Except.pure, Option.filter]
  · cases p v <;> rfl
  · rcases pe v with e | (_ | _) <;> rfl
  · rcases pc ctx v with e | (_ | _) <;> rfl

/-- MapWhileFiltering (three variants) and FlatMap. -/
theorem C04x_lazy_mwf_flatMap (l : Lazy α) (ctx : Ctx) (f : α → Option β) (fe : α → Except Err (Option β))
    (fc : Ctx → α → Except Err (Option β)) (g : α → Lazy β) :
    (l.mapWhileFiltering f).fetcher ctx = (l.fetcher ctx).map (·.bind f) ∧
    (l.mapWhileFilteringWithErr fe).fetcher ctx =
      (l.fetcher ctx >>= fun o => match o with | none => pure none | some v => fe v) ∧
    (l.mapWhileFilteringWithErrAndCtx fc).fetcher ctx =
      (l.fetcher ctx >>= fun o => match o with | none => pure none | some v => fc ctx v) ∧
    (l.flatMap g).fetcher ctx =
      (l.fetcher ctx >>= fun o => match o with | none => pure none | some v => (g v).fetcher ctx) := by
  refine ⟨?_, ?_, ?_, ?_⟩ <;>
    simp only [Lazy.mapWhileFiltering, Lazy.mapWhileFilteringWithErr, Lazy.mapWhileFilteringWithErrAndCtx,
      Lazy.flatMap, Lazy.newLazy, Lazy.getOptional] <;>
    rcases l.fetcher ctx with e | (_ | v) <;>
    simp [Except.map, bind, Except.bind, pure, Except.pure]

/-- Or: the receiver's value if it has one, its error if it fails, otherwise whatever the alternative gives. -/
theorem C04x_lazy_or (l alt : Lazy α) (ctx : Ctx) :
    (l.or alt).fetcher ctx = (l.fetcher ctx >>= fun o => if o.isSome then pure o else alt.fetcher ctx) := by
  simp only [Lazy.or, Lazy.newLazy]
  rcases l.fetcher ctx with e | (_ | v) <;> simp [bind, Except.bind, pure, Except.pure]

/-- Which empty-value error supplier every constructor / combinator keeps. -/
theorem C04x_lazy_suppliers (l alt : Lazy α) (sup : Err) (v : α) (ov : Option α) (oe : Option Err) (e : Err)
    (f : Ctx → Except Err (Option α)) (fn : Ctx → Except Err α)
    (p : Ctx → α → Except Err Bool) (m : Ctx → α → Except Err β) (w : Ctx → α → Except Err (Option β))
    (g : α → Lazy β) :
    (Lazy.newLazyOptional f).emptyErr = .emptyDefault ∧
    (Lazy.newLazyOptionalOrElseThrow f sup).emptyErr = sup ∧
    (Lazy.new fn).emptyErr = .emptyDefault ∧
    (Lazy.just v).emptyErr = .emptyDefault ∧ (Lazy.justWithErr v oe).emptyErr = .emptyDefault ∧
    (Lazy.justOptional ov).emptyErr = .emptyDefault ∧ (Lazy.justOptionalWithErr ov oe).emptyErr = .emptyDefault ∧
    (Lazy.justOptionalOrElseThrow ov sup).emptyErr = sup ∧
    (Lazy.empty : Lazy α).emptyErr = .emptyDefault ∧ (Lazy.error e : Lazy α).emptyErr = .emptyDefault ∧
    (l.orElseThrow sup).emptyErr = sup ∧
    (l.filterWithErrAndCtx p).emptyErr = l.emptyErr ∧
    (l.mapWithErrAndCtx m).emptyErr = l.emptyErr ∧
    (l.mapWhileFilteringWithErrAndCtx w).emptyErr = l.emptyErr ∧
    (l.flatMap g).emptyErr = l.emptyErr ∧
    (l.or alt).emptyErr = alt.emptyErr := by
  simp [Lazy.newLazyOptional, Lazy.newLazyOptionalOrElseThrow, Lazy.new, Lazy.just, Lazy.justWithErr,
    Lazy.justOptional, Lazy.justOptionalWithErr, Lazy.justOptionalOrElseThrow, Lazy.empty, Lazy.error,
    Lazy.orElseThrow, Lazy.filterWithErrAndCtx, Lazy.mapWithErrAndCtx, Lazy.mapWhileFilteringWithErrAndCtx,
    Lazy.flatMap, Lazy.or, Lazy.newLazy]

theorem Lazy.ext' {a b : Lazy α} (h1 : ∀ c, a.fetcher c = b.fetcher c) (h2 : a.emptyErr = b.emptyErr) : a = b := by
  cases a; cases b; simp only [Lazy.mk.injEq]; exact ⟨funext h1, h2⟩

/-- Algebraic laws (equalities of lazies: fetcher AND supplier), where they are true. -/
theorem C04x_lazy_laws (l a b c : Lazy α) (f : α → β) (g : β → γ) (p q : α → Bool) (e : Err) (v : α)
    (h : α → Lazy β) (k : β → Lazy γ) :
    l.map id = l ∧
    (l.map f).map g = l.map (g ∘ f) ∧
    (Lazy.empty : Lazy α).map f = Lazy.empty ∧
    (Lazy.error e : Lazy α).map f = Lazy.error e ∧
    (Lazy.just v).map f = Lazy.just (f v) ∧
    (Lazy.empty : Lazy α).filter p = Lazy.empty ∧
    (Lazy.error e : Lazy α).filter p = Lazy.error e ∧
    l.filter (fun _ => true) = l ∧
    (l.filter p).filter q = l.filter (fun x => p x && q x) ∧
    (Lazy.empty : Lazy α).or a = a ∧
    (Lazy.just v).or a = (Lazy.just v).orElseThrow a.emptyErr ∧
    (Lazy.error e : Lazy α).or a = (Lazy.error e : Lazy α).orElseThrow a.emptyErr ∧
    (a.or b).or c = a.or (b.or c) ∧
    l.or Lazy.empty = l.orElseThrow .emptyDefault ∧
    l.flatMap Lazy.just = l ∧
    (l.flatMap h).flatMap k = l.flatMap (fun x => (h x).flatMap k) ∧
    (Lazy.just v).flatMap h = ((h v).orElseThrow .emptyDefault) ∧
    l.mapWhileFiltering (fun x => some (f x)) = l.map f ∧
    l.mapWhileFiltering (fun x => if p x then some x else none) = l.filter p := by
  refine ⟨?_, ?_, ?_, ?_, ?_, ?_, ?_, ?_, ?_, ?_, ?_, ?_, ?_, ?_, ?_, ?_, ?_, ?_, ?_⟩
  all_goals
    apply Lazy.ext'
    · intro ctx
      simp only [Lazy.map, Lazy.filter, Lazy.or, Lazy.flatMap, Lazy.mapWithErrAndCtx, Lazy.filterWithErrAndCtx,
        Lazy.mapWhileFilteringWithErrAndCtx, Lazy.mapWhileFiltering, Lazy.newLazy, Lazy.getOptional, Lazy.empty,
        Lazy.error, Lazy.just, Lazy.orElseThrow, Function.comp, id]
      try rfl
      try (rcases l.fetcher ctx with e' | (_ | v') <;> simp <;> (try cases p v' <;> simp))
      try (rcases a.fetcher ctx with e' | (_ | v') <;> simp)
    · simp [Lazy.map, Lazy.filter, Lazy.or, Lazy.flatMap, Lazy.mapWithErrAndCtx, Lazy.filterWithErrAndCtx,
        Lazy.mapWhileFilteringWithErrAndCtx, Lazy.mapWhileFiltering, Lazy.newLazy, Lazy.empty,
        Lazy.error, Lazy.just, Lazy.orElseThrow]


/-! ### every combinator tree of the DSL -/

theorem Pred.eval_pure (p : Pred) (h : p.level = 0) (c : Ctx) (x : Int) : p.eval c x = .ok (p.pure x) := by
  cases p <;> simp [Pred.level] at h <;> rfl
theorem Pred.eval_bg (p : Pred) (h : p.level ≤ 1) (c : Ctx) (x : Int) : p.eval c x = p.eval .background x := by
  cases p <;> simp [Pred.level] at h <;> rfl
theorem Fn.eval_pure (f : Fn) (h : f.level = 0) (c : Ctx) (x : Int) : f.eval c x = .ok (f.pure x) := by
  cases f <;> simp [Fn.level] at h <;> rfl
theorem Fn.eval_bg (f : Fn) (h : f.level ≤ 1) (c : Ctx) (x : Int) : f.eval c x = f.eval .background x := by
  cases f <;> simp [Fn.level] at h <;> rfl
theorem PFn.eval_pure (f : PFn) (h : f.level = 0) (c : Ctx) (x : Int) : f.eval c x = .ok (f.pure x) := by
  cases f <;> simp [PFn.level] at h <;> rfl
theorem PFn.eval_bg (f : PFn) (h : f.level ≤ 1) (c : Ctx) (x : Int) : f.eval c x = f.eval .background x := by
  cases f <;> simp [PFn.level] at h <;> rfl
theorem LFn.eval_den (f : LFn) (x : Int) (c : Ctx) : (f.eval x).fetcher c = f.den x := by
  cases f <;> simp [LFn.eval, LFn.den, Lazy.just, Lazy.empty, Lazy.error, Lazy.justOptionalOrElseThrow, Lazy.newLazy]
  split <;> rfl

theorem LExpr.wf_iff (e : LExpr) : e.wf = true ↔ e.WF := by
  induction e <;> simp_all [LExpr.wf, LExpr.WF]

/-- **Every well-formed lazy expression tree** (any nesting of OrElseThrow / Filter* / Map* /
MapWhileFiltering* / FlatMap / Or over all the constructors), in every context: the model lazy built with the
mirrored combinators fetches exactly the option-level meaning `den`, and reports `sup` as its empty-value
error.  (The three API variants of a combinator therefore agree whenever the user function fits all of them.) -/
theorem C04x_lazy_tree (e : LExpr) (h : e.WF) (ctx : Ctx) :
    e.build.fetcher ctx = e.den ctx ∧ e.build.emptyErr = e.sup := by
  induction e with
  | just v => exact ⟨rfl, rfl⟩
  | jwe v e => cases e <;> exact ⟨rfl, rfl⟩
  | jopt v => exact ⟨rfl, rfl⟩
  | jowe v e => cases e <;> exact ⟨rfl, rfl⟩
  | joet v t => exact ⟨rfl, rfl⟩
  | new r => rcases r with e | v <;> exact ⟨rfl, rfl⟩
  | newc =>
    refine ⟨?_, rfl⟩
    simp only [LExpr.build, Lazy.new, Lazy.newLazy, LExpr.den]
    cases ctx.err <;> rfl
  | nopt r => exact ⟨rfl, rfl⟩
  | noet r t => exact ⟨rfl, rfl⟩
  | empty => exact ⟨rfl, rfl⟩
  | error e => exact ⟨rfl, rfl⟩
  | oet t x ih => exact ⟨(ih h).1, rfl⟩
  | filter v p x ih =>
    obtain ⟨hl, hx⟩ := h
    obtain ⟨ih1, ih2⟩ := ih hx
    have key : ∀ (q : Ctx → Int → Except Err Bool), (∀ y, q ctx y = p.eval ctx y) →
        (x.build.filterWithErrAndCtx q).fetcher ctx = (LExpr.filter v p x).den ctx := by
      intro q hq
      rw [(C04x_lazy_filter x.build ctx (fun _ => true) (fun _ => .ok true) q).2.2, ih1]
      simp only [LExpr.den]
      congr 1; funext o; cases o with
      | none => rfl
      | some y => simp only [LExpr.optFilterM, hq]
    cases v with
    | plain =>
      refine ⟨?_, ih2⟩
      simp only [LExpr.build, Lazy.filter]
      exact key _ (fun y => (Pred.eval_pure p (by simpa [Variant.level] using hl) ctx y).symm)
    | err =>
      refine ⟨?_, ih2⟩
      simp only [LExpr.build, Lazy.filterWithErr]
      exact key _ (fun y => (Pred.eval_bg p (by simpa [Variant.level] using hl) ctx y).symm)
    | ctx => exact ⟨key _ (fun _ => rfl), ih2⟩
  | map v f x ih =>
    obtain ⟨hl, hx⟩ := h
    obtain ⟨ih1, ih2⟩ := ih hx
    have key : ∀ (q : Ctx → Int → Except Err Int), (∀ y, q ctx y = f.eval ctx y) →
        (x.build.mapWithErrAndCtx q).fetcher ctx = (LExpr.map v f x).den ctx := by
      intro q hq
      rw [(C04x_lazy_map x.build ctx id (fun y => .ok y) q).2.2, ih1]
      simp only [LExpr.den]
      congr 1; funext o; cases o with
      | none => rfl
      | some y => simp only [Option.mapM, hq]
    cases v with
    | plain =>
      refine ⟨?_, ih2⟩
      simp only [LExpr.build, Lazy.map]
      exact key _ (fun y => (Fn.eval_pure f (by simpa [Variant.level] using hl) ctx y).symm)
    | err =>
      refine ⟨?_, ih2⟩
      simp only [LExpr.build, Lazy.mapWithErr]
      exact key _ (fun y => (Fn.eval_bg f (by simpa [Variant.level] using hl) ctx y).symm)
    | ctx => exact ⟨key _ (fun _ => rfl), ih2⟩
  | mwf v f x ih =>
    obtain ⟨hl, hx⟩ := h
    obtain ⟨ih1, ih2⟩ := ih hx
    have key : ∀ (q : Ctx → Int → Except Err (Option Int)), (∀ y, q ctx y = f.eval ctx y) →
        (x.build.mapWhileFilteringWithErrAndCtx q).fetcher ctx = (LExpr.mwf v f x).den ctx := by
      intro q hq
      rw [(C04x_lazy_mwf_flatMap x.build ctx (fun _ => none) (fun _ => .ok none) q (fun _ => Lazy.empty)).2.2.1, ih1]
      simp only [LExpr.den]
      congr 1; funext o; cases o with
      | none => rfl
      | some y => simp only [hq]
    cases v with
    | plain =>
      refine ⟨?_, ih2⟩
      simp only [LExpr.build, Lazy.mapWhileFiltering]
      exact key _ (fun y => (PFn.eval_pure f (by simpa [Variant.level] using hl) ctx y).symm)
    | err =>
      refine ⟨?_, ih2⟩
      simp only [LExpr.build, Lazy.mapWhileFilteringWithErr]
      exact key _ (fun y => (PFn.eval_bg f (by simpa [Variant.level] using hl) ctx y).symm)
    | ctx => exact ⟨key _ (fun _ => rfl), ih2⟩
  | flatMap f x ih =>
    obtain ⟨ih1, ih2⟩ := ih h
    refine ⟨?_, ih2⟩
    simp only [LExpr.build]
    rw [(C04x_lazy_mwf_flatMap x.build ctx (fun _ => (none : Option Int)) (fun _ => .ok none) (fun _ _ => .ok none) f.eval).2.2.2, ih1]
    simp only [LExpr.den]
    congr 1; funext o; cases o with
    | none => rfl
    | some y => simp only [LFn.eval_den]
  | or x y ihx ihy =>
    obtain ⟨hx, hy⟩ := h
    refine ⟨?_, (ihy hy).2⟩
    simp only [LExpr.build]
    rw [C04x_lazy_or, (ihx hx).1, (ihy hy).1]
    rfl

/-- Non-vacuity: a depth-3 tree mixing all variant kinds is well formed; `Or` reports the ALTERNATIVE's
empty-value error even when the receiver carries its own. -/
example : (LExpr.or (.oet 3 (.filter .err .failodd (.map .plain .add1 (.just 1)))) (.mwf .ctx .ctx (.joet none 4))).WF :=
  (LExpr.wf_iff _).1 rfl
example : (LExpr.or (.oet 3 .empty) (.joet none 4)).build.get ⟨false⟩ = .error (.emptyCustom 4) := rfl
example : (LExpr.or (.oet 3 .empty) .empty).build.get ⟨false⟩ = .error .emptyDefault := rfl

/-- The law `l.Or(Empty()) = l` does NOT hold for `Get`: the receiver's supplier is lost (Or keeps alt's). -/
theorem C04x_lazy_or_empty_right_supplier_lost :
    ∃ l : Lazy Int, (l.or Lazy.empty).get ⟨false⟩ ≠ l.get ⟨false⟩ ∧
      ∀ c, (l.or Lazy.empty).getOptional c = l.getOptional c :=
  ⟨(Lazy.empty : Lazy Int).orElseThrow (.emptyCustom 1), ⟨(by intro h; cases h), fun _ => rfl⟩⟩

/-- Likewise FlatMap reports the SOURCE's empty-value error, also when it is the inner lazy that is empty. -/
theorem C04x_lazy_flatMap_supplier_is_source :
    ((Lazy.just (1 : Int)).flatMap (fun _ => Lazy.justOptionalOrElseThrow (none : Option Int) (.emptyCustom 5))).get ⟨false⟩
      = .error .emptyDefault := rfl

/-- Consume*: the consumer is called with the value iff there is one (never on empty / error), and its error
is what Consume returns. -/
theorem C04x_lazy_consume (l : Lazy α) (ctx : Ctx) (f : Ctx → α → Option Err) :
    l.consumeWithErrAndCtx ctx f =
      (match l.fetcher ctx with
       | .error e => ([], some e)
       | .ok o => (o.toList, o.bind (f ctx))) ∧
    l.consume ctx = (match l.fetcher ctx with | .error e => ([], some e) | .ok o => (o.toList, none)) ∧
    l.mustConsume = (match l.fetcher .background with | .error e => ([], .panic e) | .ok o => (o.toList, .ret ())) := by
  refine ⟨?_, ?_, ?_⟩ <;> simp only [Lazy.consumeWithErrAndCtx, Lazy.consume, Lazy.mustConsume]
  · rcases l.fetcher ctx with e | (_ | v) <;> rfl
  · rcases l.fetcher ctx with e | (_ | v) <;> rfl
  · rcases l.fetcher Ctx.background with e | (_ | v) <;> rfl

end LazyLaws

/-! ## Part B — FromLazy and the sources -/

section Sources
variable {α β κ ν : Type}

/-- FromLazy denotes `[]` / `[x]` / the lazy's error (whatever that error is — io.EOF included, repaired). -/
theorem C04x_fromLazy (l : Lazy α) (ctx : Ctx) (h : ctx.cancelled = false) :
    (Src.fromLazy l ctx).collect ctx = (l.fetcher ctx).map Option.toList ∧
    (Src.fromLazy l ctx).count ctx = (l.fetcher ctx).map (fun o => o.toList.length) := by
  have hc : ctx.err = none := by simp [Ctx.err, h]
  refine ⟨?_, ?_⟩ <;>
    simp only [Src.collect, Src.count, consume_eq, Src.fromLazy, Lazy.getOptional] <;>
    rcases l.fetcher ctx with e | (_ | v) <;> simp [hc, Except.map]

/-- In particular an error lazy whose error is io.EOF is an error stream, not an empty one (finding L1, repaired). -/
example : (Src.fromLazy (Lazy.error .eof : Lazy Int) ⟨false⟩).collect ⟨false⟩ = .error .eof := rfl
example : (Src.fromLazy (Lazy.just (5 : Int)) ⟨false⟩).collect ⟨false⟩ = .ok [5] := rfl
example : (Src.fromLazy (Lazy.empty : Lazy Int) ⟨false⟩).collect ⟨false⟩ = .ok [] := rfl

/-- Every ordered source delivers its list; Empty nothing; Error its error (also under a cancelled context,
because opening fails first).  Map sources deliver a permutation of the map's keys / values / entries,
whatever order the runtime iterates in. -/
theorem C04x_sources (xs : List α) (ctx : Ctx) (e : Err) (m order : List (κ × ν)) (hperm : order.Perm m) :
    outcome (Src.fromSlice xs) ctx = (match ctx.err with | some e => .error e | none => .ok xs) ∧
    Src.just xs = Src.fromSlice xs ∧ Src.fromIterator xs = Src.fromSlice xs ∧ Src.fromChannel xs = Src.fromSlice xs ∧
    Src.fromIterator2 m = Src.fromSlice m ∧
    outcome (Src.empty : Src α) ctx = (match ctx.err with | some e => .error e | none => .ok []) ∧
    outcome (Src.error e : Src α) ctx = .error e ∧
    (Src.fromMapKeys order).elems.Perm (m.map (·.1)) ∧
    (Src.fromMapValues order).elems.Perm (m.map (·.2)) ∧
    (Src.fromMapEntries order).elems.Perm m ∧
    (Src.fromMapKeys order).fail = none ∧ (Src.fromMapKeys order).openErr = none := by
  refine ⟨?_, rfl, rfl, rfl, rfl, ?_, rfl, hperm.map _, hperm.map _, hperm, rfl, rfl⟩ <;>
    simp only [outcome, Src.fromSlice, Src.empty] <;> cases ctx.err <;> rfl

/-- every terminal that reads the stream to its end is a function of `outcome` (see Part C), and `collect` is it -/
theorem C04x_collect (s : Src α) (ctx : Ctx) : s.collect ctx = outcome s ctx := by
  simp only [Src.collect, consume_eq, outcome, foldl_snoc_eq]
  cases s.openErr <;> cases ctx.err <;> cases s.fail <;> simp

theorem C04x_mustCollect (s : Src α) :
    s.mustCollect = (match outcome s .background with | .ok l => .ret l | .error e => .panic e) := by
  simp only [Src.mustCollect, consume_eq, outcome, foldl_snoc_eq]
  cases s.openErr <;> cases s.fail <;> simp [Ctx.err, Ctx.background]

theorem mapLoop_pure (f : α → β) (xs : List α) (fail : Option Err) :
    Src.mapLoop (fun v => .ok (f v)) xs fail = (xs.map f, fail) := by
  induction xs with
  | nil => rfl
  | cons x xs ih => simp [Src.mapLoop, ih]

theorem filterLoop_pure (p : α → Bool) (xs : List α) (fail : Option Err) :
    Src.filterLoop (fun v => .ok (p v)) xs fail = (xs.filter p, fail) := by
  induction xs with
  | nil => rfl
  | cons x xs ih => simp only [Src.filterLoop, ih, List.filter_cons]

theorem mapLoop_ok (f : α → Except Err β) (xs : List α) (fail : Option Err) (ys : List β)
    (h : xs.mapM f = .ok ys) : Src.mapLoop f xs fail = (ys, fail) := by
  induction xs generalizing ys with
  | nil =>
    have : ys = [] := by simpa [pure, Except.pure] using h.symm
    subst this; rfl
  | cons x xs ih =>
    simp only [List.mapM_cons, bind, Except.bind] at h
    rcases hx : f x with e | y
    · simp [hx] at h
    · simp only [hx] at h
      rcases hxs : xs.mapM f with e | ys'
      · simp [hxs] at h
      · simp only [hxs, pure, Except.pure, Except.ok.injEq] at h
        subst h
        simp [Src.mapLoop, hx, ih ys' hxs]


theorem mapLoop_err (f : α → Except Err β) (xs : List α) (fail : Option Err) (e : Err)
    (h : xs.mapM f = .error e) : (Src.mapLoop f xs fail).2 = some e := by
  induction xs with
  | nil => simp [pure, Except.pure] at h
  | cons x xs ih =>
    simp only [List.mapM_cons, bind, Except.bind] at h
    rcases hx : f x with e' | y
    · simp only [hx, Except.error.injEq] at h; subst h; simp [Src.mapLoop, hx]
    · simp only [hx] at h
      rcases hxs : xs.mapM f with e' | ys'
      · simp only [hxs, Except.error.injEq] at h; subst h
        simp [Src.mapLoop, hx, ih hxs]
      · simp [hxs, pure, Except.pure] at h

/-- Map with a mapper that can fail = `mapM`: all mapped values and the source's own end, or the mapper's
first error (the values before it are still delivered, see `Src.mapLoop`). -/
theorem C04x_mapE (s : Src α) (f : α → Except Err β) :
    (∀ ys, s.elems.mapM f = .ok ys → (s.mapE f).elems = ys ∧ (s.mapE f).fail = s.fail) ∧
    (∀ e, s.elems.mapM f = .error e → (s.mapE f).fail = some e) ∧
    (s.mapE f).openErr = s.openErr := by
  refine ⟨fun ys h => ?_, fun e h => ?_, rfl⟩
  · simp [Src.mapE, mapLoop_ok f s.elems s.fail ys h]
  · simp [Src.mapE, mapLoop_err f s.elems s.fail e h]

/-- Peek, Untyped, Map, Filter, MapWhileFiltering (pure functions), Limit / Skip / Page, FlatMap (inner streams
that do not fail) on the delivered list: the list functions. -/
theorem C04x_thin_ops (s : Src α) (f : α → β) (p : α → Bool) (w : α → Option β) [Inhabited β]
    (g : α → List β) (n : Int) :
    s.peek = s ∧ s.untyped = s ∧
    (s.mapE (fun v => .ok (f v))).elems = s.elems.map f ∧ (s.mapE (fun v => .ok (f v))).fail = s.fail ∧
    (s.filterE (fun v => .ok (p v))).elems = s.elems.filter p ∧ (s.filterE (fun v => .ok (p v))).fail = s.fail ∧
    (s.mapWhileFilteringE (fun v => .ok (w v))).elems = s.elems.filterMap w ∧
    (s.mapWhileFilteringE (fun v => .ok (w v))).fail = s.fail ∧
    (s.skip n).elems = s.elems.drop n.toNat ∧
    (0 < n → (s.limit n).elems = s.elems.take n.toNat) ∧
    (n ≤ 0 → s.limit n = Src.empty) ∧
    (s.flatMap (fun v => Src.fromSlice (g v))).elems = s.elems.flatMap g ∧
    (s.flatMap (fun v => Src.fromSlice (g v))).fail = s.fail := by
  have hflat : ∀ (xs : List α) (fail : Option Err),
      Src.flatLoop (fun v => Src.fromSlice (g v)) xs fail = (xs.flatMap g, fail) := by
    intro xs fail
    induction xs with
    | nil => rfl
    | cons x xs ih =>
      simp only [Src.fromSlice] at ih
      simp [Src.flatLoop, Src.fromSlice, ih]
  have hid : ∀ (xs : List α) (fail : Option Err), Src.mapLoop (fun v => Except.ok v) xs fail = (xs, fail) := by
    intro xs fail
    have := mapLoop_pure (fun v : α => v) xs fail
    simpa using this
  have hmwf : ∀ (xs : List α), ((xs.map w).filter (fun o => o.isSome)).map (fun o => o.getD default) = xs.filterMap w := by
    intro xs
    induction xs with
    | nil => rfl
    | cons x xs ih =>
      simp only [List.map_cons, List.filter_cons, List.filterMap_cons]
      cases hw : w x <;> simp [ih]
  refine ⟨?_, ?_, ?_, ?_, ?_, ?_, ?_, ?_, rfl, ?_, ?_, ?_, ?_⟩
  · cases s; simp [Src.peek, Src.mapE, hid]
  · cases s; simp [Src.untyped, Src.mapE, hid]
  · simp [Src.mapE, mapLoop_pure]
  · simp [Src.mapE, mapLoop_pure]
  · simp [Src.filterE, filterLoop_pure]
  · simp [Src.filterE, filterLoop_pure]
  · simp only [Src.mapWhileFilteringE, Src.mapE, Src.filterE, mapLoop_pure, filterLoop_pure]; exact hmwf _
  · simp only [Src.mapWhileFilteringE, Src.mapE, Src.filterE, mapLoop_pure, filterLoop_pure]
  · intro h; simp [Src.limit, Int.not_le.2 h]
  · intro h; simp [Src.limit, h]
  · simp [Src.flatMap, hflat]
  · simp [Src.flatMap, hflat]

/-- Page(p, size) of a stream that does not fail: `(l.drop (p*size)).take size`; nothing for invalid arguments. -/
theorem C04x_page (s : Src α) (ctx : Ctx) (pn ps : Int) (h : s.fail = none) :
    outcome (s.page pn ps) ctx =
      (if pn < 0 ∨ ps ≤ 0 then (match ctx.err with | some e => .error e | none => .ok [])
       else (outcome s ctx).map (fun l => (l.drop (pn * ps).toNat).take ps.toNat)) := by
  by_cases hinv : pn < 0 ∨ ps ≤ 0
  · simp only [Src.page, hinv, if_true, outcome, Src.empty]; cases ctx.err <;> rfl
  · have hps : ¬ ps ≤ 0 := fun hh => hinv (Or.inr hh)
    have hpn : ¬ pn < 0 := fun hh => hinv (Or.inl hh)
    simp only [Src.page, hpn, hps, or_self, if_false, Src.limit, Src.skip, outcome, h]
    cases s.openErr <;> cases ctx.err <;> simp [Except.map]

example : outcome ((Src.fromSlice [0, 1, 2, 3, 4] : Src Int).page 1 2) ⟨false⟩ = .ok [2, 3] := rfl
example : outcome ((Src.fromSlice [0, 1, 2] : Src Int).page 5 2) ⟨false⟩ = .ok [] := rfl
example : outcome ((Src.error (.user 1) : Src Int).page (-1) 2) ⟨false⟩ = .ok [] := rfl

end Sources

/-! ## Part C — terminals -/

section Terminals
variable {α ρ : Type}

/-- Count = length. -/
theorem C04x_count (s : Src α) (ctx : Ctx) : s.count ctx = (outcome s ctx).map List.length := by
  simp only [Src.count, consume_eq, outcome, foldl_count]
  cases s.openErr <;> cases ctx.err <;> cases s.fail <;> simp [Except.map]

/-- FindLast = getLast?, with its own empty-value error. -/
theorem C04x_findLast (s : Src α) (ctx : Ctx) :
    (s.findLast).getOptional ctx = (outcome s ctx).map List.getLast? ∧
    (s.findLast).get ctx = getSpec ((outcome s ctx).map List.getLast?) .noLast := by
  have h1 : (s.findLast).fetcher ctx = (outcome s ctx).map List.getLast? := by
    simp only [Src.findLast, Lazy.orElseThrow, Lazy.newLazyOptional, Lazy.newLazy, consume_eq, outcome, foldl_last]
    cases s.openErr <;> cases ctx.err <;> cases s.fail <;> simp [Except.map]
    cases s.elems.getLast? <;> rfl
  exact ⟨h1, by rw [C04x_lazy_get, h1]; rfl⟩

/-- FindFirst = head? of what `Limit(1)` delivers: the first element if there is one — EVEN IF the stream
would fail later —, otherwise the provider's error or "empty". -/
theorem C04x_findFirst (s : Src α) (ctx : Ctx) :
    (s.findFirst).getOptional ctx = (outcome (s.limit 1) ctx).map List.head? ∧
    (s.findFirst).get ctx = getSpec ((outcome (s.limit 1) ctx).map List.head?) .noFirst ∧
    (s.fail = none → (s.findFirst).getOptional ctx = (outcome s ctx).map List.head?) ∧
    (Runs s ctx → ∀ x xs, s.elems = x :: xs → (s.findFirst).get ctx = .ok x) := by
  have h1 : (s.findFirst).fetcher ctx = (outcome (s.limit 1) ctx).map List.head? := by
    simp only [Src.findFirst, Lazy.orElseThrow, Lazy.newLazyOptional, Lazy.newLazy, C04x_collect]
    rcases outcome (s.limit 1) ctx with e | (_ | ⟨x, xs⟩) <;> rfl
  have h2 : s.fail = none → outcome (s.limit 1) ctx = (outcome s ctx).map (List.take 1) := by
    intro hf
    simp only [outcome, Src.limit, hf]
    cases s.openErr <;> cases ctx.err <;> simp [Except.map]
  refine ⟨h1, by rw [C04x_lazy_get, h1]; rfl, ?_, ?_⟩
  · intro hf
    show (s.findFirst).fetcher ctx = _
    rw [h1, h2 hf]
    rcases outcome s ctx with e | (_ | ⟨x, xs⟩) <;> rfl
  · intro hr x xs hx
    rw [C04x_lazy_get, h1]
    simp only [outcome, Src.limit, hr.1, hr.ctxErr, hx]
    simp [getSpec, Except.map, bind, Except.bind, pure, Except.pure]

/-- FindFirstAndLast = (head, last) of a non-empty list. -/
theorem C04x_findFirstAndLast (s : Src α) (ctx : Ctx) :
    (Src.findFirstAndLast s).getOptional ctx =
      (outcome s ctx).map (fun l => match l.head?, l.getLast? with
        | some a, some b => some (a, b) | _, _ => none) ∧
    (Src.findFirstAndLast s).emptyErr = .noFirstLast := by
  refine ⟨?_, rfl⟩
  show (Src.findFirstAndLast s).fetcher ctx = _
  simp only [Src.findFirstAndLast, Lazy.orElseThrow, Lazy.newLazyOptional, Lazy.newLazy, consume_eq, outcome,
    foldl_firstLast]
  cases s.openErr <;> cases ctx.err <;> cases s.fail <;> simp [Except.map]
  rcases s.elems with _ | ⟨x, xs⟩
  · rfl
  · cases h : (x :: xs).getLast? with
    | none => simp at h
    | some v => simp

/-- IsEmpty: true iff nothing is delivered (decided on the first provider call). -/
theorem C04x_isEmpty (s : Src α) (ctx : Ctx) :
    s.isEmpty ctx = (outcome (s.limit 1) ctx).map List.isEmpty ∧
    (s.fail = none → s.isEmpty ctx = (outcome s ctx).map List.isEmpty) := by
  have h0 : s.isEmpty ctx = ((s.findFirst).fetcher ctx).map (·.isNone) := by
    simp only [Src.isEmpty, Lazy.isEmpty, Lazy.getOptional]
    rcases (s.findFirst).fetcher ctx with e | (_ | v) <;> rfl
  refine ⟨?_, ?_⟩
  · rw [h0, show (s.findFirst).fetcher ctx = _ from (C04x_findFirst s ctx).1]
    rcases outcome (s.limit 1) ctx with e | (_ | ⟨x, xs⟩) <;> rfl
  · intro hf
    rw [h0, show (s.findFirst).fetcher ctx = _ from (C04x_findFirst s ctx).2.2.1 hf]
    rcases outcome s ctx with e | (_ | ⟨x, xs⟩) <;> rfl

/-- Reduce = foldl (every accumulator type, every function). -/
theorem C04x_reduce (s : Src α) (ctx : Ctx) (init : ρ) (f : ρ → α → ρ) :
    s.reduce ctx init f = (outcome s ctx).map (List.foldl f init) ∧
    s.mustReduce init f = (match (outcome s .background).map (List.foldl f init) with
      | .ok r => .ret r | .error e => .panic e) ∧
    (s.reduceLazy init f).get ctx = (outcome s ctx).map (List.foldl f init) ∧
    (s.reduceLazy init f).getOptional ctx = (outcome s ctx).map (fun l => some (l.foldl f init)) := by
  have h1 : ∀ c, s.reduce c init f = (outcome s c).map (List.foldl f init) := by
    intro c
    have := consume_eq s c f init
    simp only [Src.consume] at this
    simp only [Src.reduce, Src.reduceWithErr, Src.reduceWithErrAndCtx, this, outcome]
    cases s.openErr <;> cases c.err <;> cases s.fail <;> simp [Except.map]
  have h2 : (s.reduceLazy init f).fetcher ctx = (s.reduce ctx init f).map some := by
    simp only [Src.reduceLazy, Src.reduceLazyWithErrAndCtx, Lazy.new, Lazy.newLazy, Src.reduce, Src.reduceWithErr]
    rcases s.reduceWithErrAndCtx ctx init _ with e | v <;> rfl
  refine ⟨h1 ctx, ?_, ?_, ?_⟩
  · simp only [Src.mustReduce, h1]
    rcases outcome s Ctx.background with e | l <;> rfl
  · rw [C04x_lazy_get, h2, h1]
    rcases outcome s ctx with e | l <;> rfl
  · show (s.reduceLazy init f).fetcher ctx = _
    rw [h2, h1]
    rcases outcome s ctx with e | l <;> rfl

/-- ReduceWithErr(AndCtx) = foldlM: the first error of the reducer wins, then the provider's own end. -/
theorem C04x_reduceWithErr (s : Src α) (ctx : Ctx) (init : ρ) (f : Ctx → ρ → α → Except Err ρ) (h : Runs s ctx) :
    s.reduceWithErrAndCtx ctx init f =
      (match s.elems.foldlM (f ctx) init with
       | .error e => .error e
       | .ok r => match s.fail with | some e => .error e | none => .ok r) := by
  obtain ⟨l1, l2⟩ := consumeLoop_foldlM (f ctx) s.elems s.fail init
  simp only [Src.reduceWithErrAndCtx, Src.consumeWithErr, h.1, h.ctxErr]
  rcases hf : s.elems.foldlM (f ctx) init with e | r
  · rw [hf] at l1
    rcases hc : Src.consumeLoop (fun ret v => f ctx ret v) s.elems s.fail init with ⟨st, oe⟩
    rw [hc] at l1; simp only at l1; subst l1; rfl
  · rw [hf] at l1
    have l2' := l2 r hf
    rcases hc : Src.consumeLoop (fun ret v => f ctx ret v) s.elems s.fail init with ⟨st, oe⟩
    rw [hc] at l1 l2'; simp only at l1 l2'; subst l1 l2'
    cases s.fail <;> rfl

/-- Max / Min over Int: the true extremum of a non-empty stream — an element of it that bounds all the
others (so the maximum of negative values is negative: D9 repaired) — and the zero value on an empty one. -/
theorem C04x_min_max (s : Src Int) (ctx : Ctx) :
    s.max ctx = (outcome s ctx).map (fun l => l.max?.getD 0) ∧
    s.min ctx = (outcome s ctx).map (fun l => l.min?.getD 0) ∧
    (∀ m, s.max ctx = .ok m → (s.elems = [] ∧ m = 0) ∨ (m ∈ s.elems ∧ ∀ x ∈ s.elems, x ≤ m)) ∧
    (∀ m, s.min ctx = .ok m → (s.elems = [] ∧ m = 0) ∨ (m ∈ s.elems ∧ ∀ x ∈ s.elems, m ≤ x)) := by
  have hmax : s.max ctx = (outcome s ctx).map (fun l => l.max?.getD 0) := by
    simp only [Src.max, (C04x_reduce s ctx none (Src.extremumReduce Max.max)).1]
    rcases outcome s ctx with e | (_ | ⟨x, xs⟩)
    · rfl
    · rfl
    · simp only [Except.map, List.foldl_cons]
      rw [show Src.extremumReduce Max.max none x = some x from rfl, foldl_extremum]; rfl
  have hmin : s.min ctx = (outcome s ctx).map (fun l => l.min?.getD 0) := by
    simp only [Src.min, (C04x_reduce s ctx none (Src.extremumReduce Min.min)).1]
    rcases outcome s ctx with e | (_ | ⟨x, xs⟩)
    · rfl
    · rfl
    · simp only [Except.map, List.foldl_cons]
      rw [show Src.extremumReduce Min.min none x = some x from rfl, foldl_extremum]; rfl
  have hout : ∀ l, outcome s ctx = .ok l → l = s.elems := by
    intro l
    simp only [outcome]
    cases s.openErr <;> cases ctx.err <;> cases s.fail <;> simp
    exact fun h => h.symm
  refine ⟨hmax, hmin, ?_, ?_⟩
  · intro m hm
    rw [hmax] at hm
    rcases ho : outcome s ctx with e | l
    · simp [ho, Except.map] at hm
    · have hl := hout l ho
      subst hl
      simp only [ho, Except.map, Except.ok.injEq] at hm
      rcases hs : s.elems with _ | ⟨x, xs⟩
      · left; simp [hs, List.max?] at hm; exact ⟨rfl, hm.symm⟩
      · right
        simp only [hs, List.max?, Option.getD_some] at hm
        obtain ⟨a1, a2, a3⟩ := foldl_max_spec xs x
        subst hm
        refine ⟨?_, ?_⟩
        · rcases a1 with a | a
          · rw [a]; exact List.mem_cons_self
          · exact List.mem_cons_of_mem _ a
        · intro y hy
          rcases List.mem_cons.1 hy with rfl | hy
          · exact a2
          · exact a3 y hy
  · intro m hm
    rw [hmin] at hm
    rcases ho : outcome s ctx with e | l
    · simp [ho, Except.map] at hm
    · have hl := hout l ho
      subst hl
      simp only [ho, Except.map, Except.ok.injEq] at hm
      rcases hs : s.elems with _ | ⟨x, xs⟩
      · left; simp [hs, List.min?] at hm; exact ⟨rfl, hm.symm⟩
      · right
        simp only [hs, List.min?, Option.getD_some] at hm
        obtain ⟨a1, a2, a3⟩ := foldl_min_spec xs x
        subst hm
        refine ⟨?_, ?_⟩
        · rcases a1 with a | a
          · rw [a]; exact List.mem_cons_self
          · exact List.mem_cons_of_mem _ a
        · intro y hy
          rcases List.mem_cons.1 hy with rfl | hy
          · exact a2
          · exact a3 y hy

/-- MaxLazy / MinLazy / MustMax / MustMin / MustCount are the same functions behind a Lazy / a panic. -/
theorem C04x_min_max_forms (s : Src Int) (ctx : Ctx) :
    (s.maxLazy).get ctx = s.max ctx ∧ (s.minLazy).get ctx = s.min ctx ∧
    (s.maxLazy).getOptional ctx = (s.max ctx).map some ∧ (s.minLazy).getOptional ctx = (s.min ctx).map some ∧
    s.mustMax = (match s.max .background with | .ok v => .ret v | .error e => .panic e) ∧
    s.mustMin = (match s.min .background with | .ok v => .ret v | .error e => .panic e) ∧
    s.mustCount = (match s.count .background with | .ok v => .ret v | .error e => .panic e) := by
  have hx : (s.maxLazy).fetcher ctx = (s.max ctx).map some := by
    simp only [Src.maxLazy, Src.max, Src.reduceLazy, Src.reduceLazyWithErrAndCtx, Lazy.map, Lazy.mapWithErrAndCtx,
      Lazy.new, Lazy.newLazy, Lazy.getOptional, Src.reduce, Src.reduceWithErr]
    rcases s.reduceWithErrAndCtx ctx none _ with e | v <;> rfl
  have hn : (s.minLazy).fetcher ctx = (s.min ctx).map some := by
    simp only [Src.minLazy, Src.min, Src.reduceLazy, Src.reduceLazyWithErrAndCtx, Lazy.map, Lazy.mapWithErrAndCtx,
      Lazy.new, Lazy.newLazy, Lazy.getOptional, Src.reduce, Src.reduceWithErr]
    rcases s.reduceWithErrAndCtx ctx none _ with e | v <;> rfl
  refine ⟨?_, ?_, hx, hn, ?_, ?_, ?_⟩
  · rw [C04x_lazy_get, hx]; rcases s.max ctx with e | v <;> rfl
  · rw [C04x_lazy_get, hn]; rcases s.min ctx with e | v <;> rfl
  · simp only [Src.mustMax]; rcases s.max Ctx.background with e | v <;> rfl
  · simp only [Src.mustMin]; rcases s.min Ctx.background with e | v <;> rfl
  · simp only [Src.mustCount]; rcases s.count Ctx.background with e | v <;> rfl

/-- Non-vacuity: a stream of negative values, a stream failing after two elements, an empty stream. -/
example : (Src.fromSlice [-3, -1, -2] : Src Int).max ⟨false⟩ = .ok (-1) := rfl
example : (Src.fromSlice ([] : List Int)).min ⟨false⟩ = .ok 0 := rfl
example : ({ elems := [4, 5], fail := some (.user 1) } : Src Int).findFirst.get ⟨false⟩ = .ok 4 := rfl
example : ({ elems := [4, 5], fail := some (.user 1) } : Src Int).findLast.get ⟨false⟩ = .error (.user 1) := rfl
example : (Src.fromSlice ([] : List Int)).findFirst.get ⟨false⟩ = .error .noFirst := rfl
example : (Src.fromSlice ([] : List Int)).findFirst.getOptional ⟨false⟩ = .ok none := rfl
example : (Src.fromSlice [1, 2, 3] : Src Int).reduce ⟨false⟩ 0 (fun a v => a * 10 + v) = .ok 123 := rfl
example : (Src.fromSlice [1, 2, 3] : Src Int).count ⟨true⟩ = .error .cancelled := rfl

end Terminals

/-! ## Part D — collectors -/

section Collectors
variable {α κ ν : Type} [DecidableEq κ]

/-- CollectToMap: fails with the duplicate-key error IFF two elements produce the same key; otherwise the
map holds exactly the produced associations (and each key once). -/
theorem C04x_collectToMap (s : Src α) (ctx : Ctx) (kv : α → κ × ν) (h : Runs s ctx) (hf : s.fail = none) :
    ((s.elems.map (fun x => (kv x).1)).Nodup →
      ∃ m, s.collectToMap ctx kv = .ok m ∧ m.keys.Nodup ∧
        ∀ k v, m.get? k = some v ↔ ∃ x ∈ s.elems, kv x = (k, v)) ∧
    (¬ (s.elems.map (fun x => (kv x).1)).Nodup → s.collectToMap ctx kv = .error .dupKey) := by
  constructor
  · intro hnd
    obtain ⟨m', h1, h2, h3⟩ := toMap_loop_ok kv s.elems s.fail ([] : GoMap κ ν) hnd (by simp [GoMap.keys])
    refine ⟨m', ?_, h3 (by simp [GoMap.keys]), ?_⟩
    · simp only [Src.collectToMap, Src.consumeWithErr, h.1, h.ctxErr, h1]; rw [hf]
    · intro k v; rw [h2]; simp [GoMap.get?]
  · intro hnd
    have := toMap_loop_dup kv s.elems s.fail ([] : GoMap κ ν) (fun hh => hnd hh.1)
    simp only [Src.collectToMap, Src.consumeWithErr, h.1, h.ctxErr]
    rcases hc : Src.consumeLoop (Src.collectToMapStep kv) s.elems s.fail [] with ⟨st, oe⟩
    rw [hc] at this; simp only at this; subst this; rfl

/-- CollectToSet: duplicate-key error IFF an element occurs twice; otherwise exactly the elements, mapped to true. -/
theorem C04x_collectToSet (s : Src κ) (ctx : Ctx) (h : Runs s ctx) (hf : s.fail = none) :
    (s.elems.Nodup → ∃ m, s.collectToSet ctx = .ok m ∧ m.keys.Nodup ∧
        ∀ k b, m.get? k = some b ↔ (k ∈ s.elems ∧ b = true)) ∧
    (¬ s.elems.Nodup → s.collectToSet ctx = .error .dupKey) ∧
    s.mustCollectToSet = (match s.collectToSet .background with | .ok m => .ret m | .error e => .panic e) := by
  have hstep : (Src.collectToSetStep : GoMap κ Bool → κ → _) = Src.collectToMapStep (fun k => (k, true)) := by
    funext m k; simp only [Src.collectToSetStep, Src.collectToMapStep]; cases m.get? k <;> rfl
  have heq : s.collectToSet ctx = s.collectToMap ctx (fun k => (k, true)) := by
    simp only [Src.collectToSet, Src.collectToMap, hstep]
    rcases s.consumeWithErr ctx (Src.collectToMapStep fun k => (k, true)) [] with ⟨st, _ | e⟩ <;> rfl
  obtain ⟨a, b⟩ := C04x_collectToMap s ctx (fun k => (k, true)) h hf
  simp only [List.map_id'] at a b
  refine ⟨?_, ?_, ?_⟩
  · intro hnd
    obtain ⟨m, h1, h2, h3⟩ := a hnd
    refine ⟨m, heq ▸ h1, h2, ?_⟩
    intro k bb; rw [h3]
    constructor
    · rintro ⟨x, hx, hxe⟩; simp only [Prod.mk.injEq] at hxe; exact ⟨hxe.1 ▸ hx, hxe.2.symm⟩
    · rintro ⟨hk, rfl⟩; exact ⟨k, hk, rfl⟩
  · intro hnd; rw [heq]; exact b hnd
  · simp only [Src.mustCollectToSet]; rcases s.collectToSet Ctx.background with e | v <;> rfl

/-- CollectCountGroupedBy: every key maps to the number of elements of its group; keys without elements are absent. -/
theorem C04x_collectCountGroupedBy (s : Src α) (ctx : Ctx) (g : α → κ) (h : Runs s ctx) (hf : s.fail = none) :
    ∃ m, s.collectCountGroupedBy ctx g = .ok m ∧ m.keys.Nodup ∧
      ∀ k, m.get? k = (if s.elems.countP (fun v => g v = k) = 0 then none
                       else some (s.elems.countP (fun v => g v = k))) := by
  refine ⟨s.elems.foldl (Src.countStep g) [], ?_, keys_foldl_count_nodup g _ _ (by simp [GoMap.keys]), ?_⟩
  · simp only [Src.collectCountGroupedBy, consume_eq, h.1, h.ctxErr, hf]
  · intro k; rw [get?_foldl_count]; simp [GoMap.get?]

/-- CollectToMapOverrideDuplicates: every key maps to the LAST element of its group. -/
theorem C04x_collectOverride (s : Src α) (ctx : Ctx) (g : α → κ) (h : Runs s ctx) (hf : s.fail = none) :
    ∃ m, s.collectToMapOverrideDuplicates ctx g = .ok m ∧ m.keys.Nodup ∧
      ∀ k, m.get? k = s.elems.reverse.find? (fun v => g v = k) := by
  refine ⟨s.elems.foldl (Src.overrideStep g) [], ?_, ?_, ?_⟩
  · simp only [Src.collectToMapOverrideDuplicates, consume_eq, h.1, h.ctxErr, hf]
  · exact keys_foldl_nodup g id _ _ (by simp [GoMap.keys])
  · intro k
    have := get?_foldl_override g id s.elems ([] : GoMap κ α) k
    simp only [id] at this
    show GoMap.get? (s.elems.foldl (fun (m : GoMap κ α) v => GoMap.set m (g v) v) []) k = _
    rw [this]
    cases s.elems.reverse.find? (fun v => decide (g v = k)) <;> rfl

/-- A failing / cancelled / unopenable stream makes every collector return that error. -/
theorem C04x_collectors_error (s : Src α) (ctx : Ctx) (kv : α → κ × ν) (g : α → κ) (e : Err)
    (h : s.openErr = some e ∨ (s.openErr = none ∧ ctx.err = some e)) :
    s.collectToMap ctx kv = .error e ∧ s.collectCountGroupedBy ctx g = .error e ∧
    s.collectToMapOverrideDuplicates ctx g = .error e := by
  rcases h with h | ⟨h1, h2⟩
  · simp [Src.collectToMap, Src.collectCountGroupedBy, Src.collectToMapOverrideDuplicates, Src.consume,
      Src.consumeWithErr, h]
  · simp [Src.collectToMap, Src.collectCountGroupedBy, Src.collectToMapOverrideDuplicates, Src.consume,
      Src.consumeWithErr, h1, h2]

example : (Src.fromSlice [3, 4, 6] : Src Int).collectToMap ⟨false⟩ (fun x => (x.tmod 3, x)) = .error .dupKey := rfl
example : (Src.fromSlice [3, 4, 5] : Src Int).collectToMap ⟨false⟩ (fun x => (x.tmod 3, x)) = .ok [(0, 3), (1, 4), (2, 5)] := rfl
example : (Src.fromSlice [3, 4, 6] : Src Int).collectToMapOverrideDuplicates ⟨false⟩ (fun x => x.tmod 3) = .ok [(0, 6), (1, 4)] := rfl
example : (Src.fromSlice [3, 4, 6] : Src Int).collectCountGroupedBy ⟨false⟩ (fun x => x.tmod 3) = .ok [(0, 2), (1, 1)] := rfl

end Collectors

/-! ## Part E — random sampling -/

section Sampling
variable {α : Type}

/-- **Reservoir sampling, for EVERY oracle** (any function at all as the sequence of `rand.Intn` answers):
the sample has length `min k n`, is a sub-multiset of the input (a permutation of a sublist), and IS the
input when `n ≤ k`.  `k ≤ 0` yields the empty sample without materialising the stream. -/
theorem C04x_sample (s : Src α) (ctx : Ctx) (k : Int) (oracle : Nat → Nat) (h : Runs s ctx) (hf : s.fail = none) :
    ∃ r, s.collectRandomSample ctx k oracle = .ok r ∧
      r.length = min k.toNat s.elems.length ∧
      (∃ p, r.Perm p ∧ p.Sublist s.elems) ∧
      (s.elems.length ≤ k.toNat → r = s.elems) := by
  by_cases hk : k ≤ 0
  · refine ⟨[], by simp [Src.collectRandomSample, hk], ?_, ⟨[], List.Perm.refl _, List.nil_sublist _⟩, ?_⟩
    · have : k.toNat = 0 := by omega
      simp [this]
    · intro hle
      have : k.toNat = 0 := by omega
      rw [this] at hle
      exact (List.length_eq_zero_iff.1 (by omega)).symm
  · have inv := sampleInv_foldl k.toNat oracle s.elems [] ([], 0) (sampleInv_init k.toNat)
    simp only [List.nil_append] at inv
    obtain ⟨_, i2, i3, i4⟩ := inv
    refine ⟨(s.elems.foldl (Src.sampleStep k.toNat oracle) ([], 0)).1, ?_, i2, i3, i4⟩
    simp only [Src.collectRandomSample, hk, if_false, consume_eq, h.1, h.ctxErr, hf]

/-- The stream form RandomSample(k) delivers exactly what CollectRandomSample returns (the collector runs in Open). -/
theorem C04x_randomSample_stream (s : Src α) (ctx : Ctx) (k : Int) (oracle : Nat → Nat) :
    outcome (s.randomSample ctx k oracle) ctx =
      (match ctx.err with | some e => (match s.collectRandomSample ctx k oracle with | .error e' => .error e' | .ok _ => .error e)
                          | none => s.collectRandomSample ctx k oracle) := by
  simp only [Src.randomSample, outcome]
  rcases s.collectRandomSample ctx k oracle with e | l <;> cases ctx.err <;> rfl

/-- A failing or cancelled stream: the error (but not for `k ≤ 0`, where the stream is never touched). -/
theorem C04x_sample_error (s : Src α) (ctx : Ctx) (k : Int) (oracle : Nat → Nat) (e : Err) (hk : 0 < k)
    (h : outcome s ctx = .error e) : s.collectRandomSample ctx k oracle = .error e := by
  have hk' : ¬ k ≤ 0 := by omega
  simp only [Src.collectRandomSample, hk', if_false, consume_eq]
  simp only [outcome] at h
  cases ho : s.openErr <;> cases hc : ctx.err <;> cases hf : s.fail <;> simp_all

example : (Src.fromSlice [10, 20, 30, 40, 50] : Src Int).collectRandomSample ⟨false⟩ 2 (fun i => i - 2) = .ok [30, 40] := rfl
example : (Src.fromSlice [10, 20] : Src Int).collectRandomSample ⟨false⟩ 5 (fun _ => 0) = .ok [10, 20] := rfl
example : (Src.error (.user 1) : Src Int).collectRandomSample ⟨false⟩ 0 (fun _ => 0) = .ok [] := rfl

end Sampling

/-! ## Part F — Iterator / IndexedIterator -/

section Iterator
variable {α : Type}

/-- `for v := range s.Iterator { seen = append(seen, v); if n == j { break }; n++ }`:
the loop body sees exactly the first `j+1` delivered elements (all of them without a break), `yield` is never
called again after it returned false, and the loop panics (MustGetOptional) iff it ran into the stream's
error before breaking. -/
theorem C04x_iterator (s : Src α) (j : Option Nat) :
    (s.openErr = none →
      (s.iterator (recBody j) []).1 = (match j with | none => s.elems | some j => s.elems.take (j + 1))) ∧
    (s.iterator (recBody j) []).2 =
      (match s.openErr with
       | some e => .panic e
       | none =>
         match s.fail with
         | none => .ret ()
         | some e => if (match j with | none => true | some j => decide (s.elems.length ≤ j)) then .panic e else .ret ()) := by
  cases ho : s.openErr with
  | some e => simp [Src.iterator, ho]
  | none =>
    cases j with
    | none =>
      simp only [Src.iterator, ho, iterFirst_noBreak, List.nil_append, forall_const]
      cases s.fail <;> simp
    | some j =>
      obtain ⟨h1, h2⟩ := iterFirst_break j s.elems s.fail [] (by simp)
      simp only [List.length_nil, Nat.sub_zero, List.nil_append] at h1 h2
      rcases hc : Src.iterFirst (recBody (some j)) s.elems s.fail [] with ⟨st, r⟩
      rw [hc] at h1 h2; simp only at h1 h2
      subst h1
      simp only [Src.iterator, ho, hc, forall_const]
      by_cases hle : s.elems.length ≤ j
      · simp only [hle, if_true] at h2
        subst h2
        cases s.fail <;> simp [hle]
      · simp only [hle, if_false] at h2
        subst h2
        cases s.fail <;> simp [hle]


/-- where an arbitrary (stateful) loop body stops: the index of the first element at which `yield` returns
false, threading the body's state through the elements before it -/
def stopIndex {σ : Type} (yield : σ → α → σ × Bool) : List α → σ → Option Nat
  | [], _ => none
  | x :: xs, st => if (yield st x).2 then (stopIndex yield xs (yield st x).1).map (· + 1) else some 0

/-- **Iterator, any loop body**: `yield` is called on the delivered elements in order, exactly up to and
including the first one for which it returns false (never again afterwards); the stream's error is reached
(and panics) only if the body never broke. -/
theorem C04x_iterator_general {σ : Type} (yield : σ → α → σ × Bool) (xs : List α) (fail : Option Err) (st : σ) :
    Src.iterFirst yield xs fail st =
      (match stopIndex yield xs st with
       | none => (xs.foldl (fun s x => (yield s x).1) st,
                  match fail with | some e => .error e | none => .ok none)
       | some j => ((xs.take (j + 1)).foldl (fun s x => (yield s x).1) st, .ok xs[j]?)) := by
  induction xs generalizing st with
  | nil => simp only [Src.iterFirst, stopIndex, List.foldl_nil]; cases fail <;> rfl
  | cons x xs ih =>
    simp only [Src.iterFirst, stopIndex]
    by_cases hy : (yield st x).2 = true
    · simp only [hy, if_true, ih]
      cases stopIndex yield xs (yield st x).1 <;> simp
    · simp [hy]

/-- IndexedIterator: the same prefix, numbered 0, 1, 2, … -/
theorem C04x_indexedIterator (s : Src α) (j : Option Nat) (h : s.openErr = none) :
    ((s.indexedIterator (recBodyIdx j) []).1).map (·.2) = (s.iterator (recBody j) []).1 ∧
    ((s.indexedIterator (recBodyIdx j) []).1).map (·.1) = List.range (s.indexedIterator (recBodyIdx j) []).1.length ∧
    (s.indexedIterator (recBodyIdx j) []).2 = (s.iterator (recBody j) []).2 := by
  obtain ⟨k1, k2, k3⟩ := iterFirst_idx j s.elems s.fail [] [] rfl rfl
  simp only [List.length_nil] at k1 k2 k3
  simp only [Src.indexedIterator, Src.iterator, h]
  rcases hh : Src.iterFirst (fun (q : List (Nat × α) × Nat) v =>
      (((recBodyIdx j q.1 q.2 v).1, q.2 + 1), (recBodyIdx j q.1 q.2 v).2)) s.elems s.fail (([] : List (Nat × α)), 0) with ⟨st, r⟩
  rw [hh] at k1 k2 k3
  simp only at k1 k2 k3
  rcases hr : Src.iterFirst (recBody j) s.elems s.fail [] with ⟨st', r'⟩
  rw [hr] at k1 k3
  simp only at k1 k3
  subst k3
  cases r <;> exact ⟨k1, k2, rfl⟩

example : ((Src.fromSlice [5, 6, 7, 8] : Src Int).iterator (recBody (some 1)) []).1 = [5, 6] := rfl
example : (({ elems := [5, 6], fail := some (.user 2) } : Src Int).iterator (recBody (some 1)) []) = ([5, 6], .ret ()) := rfl
example : (({ elems := [5, 6], fail := some (.user 2) } : Src Int).iterator (recBody (some 2)) []) = ([5, 6], .panic (.user 2)) := rfl

end Iterator

end ShpanVerif.Props.C04Ext
