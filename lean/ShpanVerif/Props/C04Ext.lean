import ShpanVerif.Model.Lazy
import ShpanVerif.Model.LazyDsl
import ShpanVerif.Model.Terminals
import ShpanVerif.Proofs.C04ExtLemmas
/-
C04, second part: the lazy package, FromLazy, the terminals, the collectors, random sampling, Iterator and
the remaining sources agree with plain options / lists.

Part A  Lazy combinators = `Except Err (Option α)` terms, which supplier each keeps, algebraic laws,
        `C04x_lazy_tree` (every well-formed combinator tree of the DSL, every context).
Part B  FromLazy and the sources.
Part C  terminals = list functions of what the stream delivers.
Part D  collectors (association semantics, duplicate-key error iff a duplicate exists, group counts).
Part E  random sampling, for EVERY oracle: length = min k n, sub-multiset, identity when n ≤ k.
Part F  Iterator / IndexedIterator: the loop body sees exactly the prefix up to the break.
-/
namespace ShpanVerif.Props.C04Ext
open ShpanVerif.Model.Lazy ShpanVerif.Model.LazyDsl ShpanVerif.Model.Terminals ShpanVerif.Proofs.C04Ext

/-! ## Part A — Lazy -/

section LazyLaws
variable {α β γ : Type}

/-- the option-level meaning of `Get`: the fetched value, or the lazy's own empty-value error -/
def getSpec (r : Except Err (Option α)) (emptyErr : Err) : Except Err α :=
  r >>= fun o => match o with | some v => pure v | none => throw emptyErr

/-- Get / GetOptional / OrElse / OrElseGet / IsEmpty and the Must forms as terms over the fetch result. -/
theorem C04x_lazy_readers (l : Lazy α) (ctx : Ctx) (d : α) :
    l.get ctx = getSpec (l.fetcher ctx) l.emptyErr ∧
    l.getOptional ctx = l.fetcher ctx ∧
    l.orElse ctx d = (l.fetcher ctx).map (·.getD d) ∧
    (l.orElseGet ctx (fun _ => d)).1 = (l.fetcher ctx).map (·.getD d) ∧
    ((l.orElseGet ctx (fun _ => d)).2 = 1 ↔ l.fetcher ctx = .ok none) ∧
    l.isEmpty ctx = (l.fetcher ctx).map (·.isNone) ∧
    l.mustGet = (match l.get .background with | .ok v => .ret v | .error e => .panic e) ∧
    l.mustGetOptional = (match l.fetcher .background with | .ok v => .ret v | .error e => .panic e) ∧
    l.mustOrElse d = (match l.orElse .background d with | .ok v => .ret v | .error e => .panic e) ∧
    (l.mustOrElseGet (fun _ => d)).1 = (match l.orElse .background d with | .ok v => .ret v | .error e => .panic e) ∧
    l.mustIsEmpty = (match l.isEmpty .background with | .ok v => .ret v | .error e => .panic e) := by
  refine ⟨?_, rfl, ?_, ?_, ?_, ?_, ?_, ?_, ?_, ?_, ?_⟩
  all_goals
    simp only [Lazy.get, Lazy.orElse, Lazy.orElseGet, Lazy.isEmpty, Lazy.getOptional, Lazy.mustGet,
      Lazy.mustGetOptional, Lazy.mustOrElse, Lazy.mustOrElseGet, Lazy.mustIsEmpty, getSpec]
    rcases h : l.fetcher ctx with e | (_ | v) <;> rcases h' : l.fetcher Ctx.background with e' | (_ | v') <;>
      simp [Except.map, bind, Except.bind, pure, Except.pure, throw, throwThe, MonadExceptOf.throw]

/-- `Get` fails with the lazy's OWN empty-value error exactly when the fetch succeeds with no value. -/
theorem C04x_lazy_get_empty (l : Lazy α) (ctx : Ctx) (h : l.fetcher ctx = .ok none) :
    l.get ctx = .error l.emptyErr := by
  simp [Lazy.get, h]

/-- Map / MapWithErr / MapWithErrAndCtx. -/
theorem C04x_lazy_map (l : Lazy α) (ctx : Ctx) (f : α → β) (fe : α → Except Err β)
    (fc : Ctx → α → Except Err β) :
    (l.map f).fetcher ctx = (l.fetcher ctx).map (Option.map f) ∧
    (l.mapWithErr fe).fetcher ctx = (l.fetcher ctx >>= Option.mapM fe) ∧
    (l.mapWithErrAndCtx fc).fetcher ctx = (l.fetcher ctx >>= Option.mapM (fc ctx)) := by
  refine ⟨?_, ?_, ?_⟩ <;>
    simp only [Lazy.map, Lazy.mapWithErr, Lazy.mapWithErrAndCtx, Lazy.newLazy, Lazy.getOptional] <;>
    rcases l.fetcher ctx with e | (_ | v) <;>
    simp [Except.map, bind, Except.bind, Option.mapM, pure, Except.pure, Functor.map]
  · rcases fe v with e | b <;> rfl
  · rcases fc ctx v with e | b <;> rfl

/-- Filter / FilterWithErr / FilterWithErrAndCtx: the value is kept iff the predicate says true; an empty
lazy never calls the predicate. -/
theorem C04x_lazy_filter (l : Lazy α) (ctx : Ctx) (p : α → Bool) (pe : α → Except Err Bool)
    (pc : Ctx → α → Except Err Bool) :
    (l.filter p).fetcher ctx = (l.fetcher ctx).map (Option.filter p) ∧
    (l.filterWithErr pe).fetcher ctx =
      (l.fetcher ctx >>= fun o => match o with
        | none => pure none
        | some v => pe v >>= fun b => pure (if b then some v else none)) ∧
    (l.filterWithErrAndCtx pc).fetcher ctx =
      (l.fetcher ctx >>= fun o => match o with
        | none => pure none
        | some v => pc ctx v >>= fun b => pure (if b then some v else none)) := by
  refine ⟨?_, ?_, ?_⟩ <;>
    simp only [Lazy.filter, Lazy.filterWithErr, Lazy.filterWithErrAndCtx, Lazy.newLazy] <;>
    rcases l.fetcher ctx with e | (_ | v) <;>
    simp [Except.map, bind, Except.bind, pure, Except.pure, Option.filter]
  · cases p v <;> rfl
  · rcases pe v with e | (_ | _) <;> rfl
  · rcases pc ctx v with e | (_ | _) <;> rfl

/-- MapWhileFiltering (three variants) and FlatMap. -/
theorem C04x_lazy_mwf_flatMap (l : Lazy α) (ctx : Ctx) (f : α → Option β) (fe : α → Except Err (Option β))
    (fc : Ctx → α → Except Err (Option β)) (g : α → Lazy β) :
    (l.mapWhileFiltering f).fetcher ctx = (l.fetcher ctx).map (·.bind f) ∧
    (l.mapWhileFilteringWithErr fe).fetcher ctx =
      (l.fetcher ctx >>= fun o => match o with | none => pure none | some v => fe v) ∧
    (l.mapWhileFilteringWithErrAndCtx fc).fetcher ctx =
      (l.fetcher ctx >>= fun o => match o with | none => pure none | some v => fc ctx v) ∧
    (l.flatMap g).fetcher ctx =
      (l.fetcher ctx >>= fun o => match o with | none => pure none | some v => (g v).fetcher ctx) := by
  refine ⟨?_, ?_, ?_, ?_⟩ <;>
    simp only [Lazy.mapWhileFiltering, Lazy.mapWhileFilteringWithErr, Lazy.mapWhileFilteringWithErrAndCtx,
      Lazy.flatMap, Lazy.newLazy, Lazy.getOptional] <;>
    rcases l.fetcher ctx with e | (_ | v) <;>
    simp [Except.map, bind, Except.bind, pure, Except.pure]

/-- Or: the receiver's value if it has one, its error if it fails, otherwise whatever the alternative gives. -/
theorem C04x_lazy_or (l alt : Lazy α) (ctx : Ctx) :
    (l.or alt).fetcher ctx = (l.fetcher ctx >>= fun o => if o.isSome then pure o else alt.fetcher ctx) := by
  simp only [Lazy.or, Lazy.newLazy]
  rcases l.fetcher ctx with e | (_ | v) <;> simp [bind, Except.bind, pure, Except.pure]

/-- Which empty-value error supplier every constructor / combinator keeps. -/
theorem C04x_lazy_suppliers (l alt : Lazy α) (sup : Err) (v : α) (ov : Option α) (oe : Option Err) (e : Err)
    (f : Ctx → Except Err (Option α)) (fn : Ctx → Except Err α)
    (p : Ctx → α → Except Err Bool) (m : Ctx → α → Except Err β) (w : Ctx → α → Except Err (Option β))
    (g : α → Lazy β) :
    (Lazy.newLazyOptional f).emptyErr = .emptyDefault ∧
    (Lazy.newLazyOptionalOrElseThrow f sup).emptyErr = sup ∧
    (Lazy.new fn).emptyErr = .emptyDefault ∧
    (Lazy.just v).emptyErr = .emptyDefault ∧ (Lazy.justWithErr v oe).emptyErr = .emptyDefault ∧
    (Lazy.justOptional ov).emptyErr = .emptyDefault ∧ (Lazy.justOptionalWithErr ov oe).emptyErr = .emptyDefault ∧
    (Lazy.justOptionalOrElseThrow ov sup).emptyErr = sup ∧
    (Lazy.empty : Lazy α).emptyErr = .emptyDefault ∧ (Lazy.error e : Lazy α).emptyErr = .emptyDefault ∧
    (l.orElseThrow sup).emptyErr = sup ∧
    (l.filterWithErrAndCtx p).emptyErr = l.emptyErr ∧
    (l.mapWithErrAndCtx m).emptyErr = l.emptyErr ∧
    (l.mapWhileFilteringWithErrAndCtx w).emptyErr = l.emptyErr ∧
    (l.flatMap g).emptyErr = l.emptyErr ∧
    (l.or alt).emptyErr = alt.emptyErr := by
  simp [Lazy.newLazyOptional, Lazy.newLazyOptionalOrElseThrow, Lazy.new, Lazy.just, Lazy.justWithErr,
    Lazy.justOptional, Lazy.justOptionalWithErr, Lazy.justOptionalOrElseThrow, Lazy.empty, Lazy.error,
    Lazy.orElseThrow, Lazy.filterWithErrAndCtx, Lazy.mapWithErrAndCtx, Lazy.mapWhileFilteringWithErrAndCtx,
    Lazy.flatMap, Lazy.or, Lazy.newLazy]

theorem Lazy.ext' {a b : Lazy α} (h1 : ∀ c, a.fetcher c = b.fetcher c) (h2 : a.emptyErr = b.emptyErr) : a = b := by
  cases a; cases b; simp only [Lazy.mk.injEq]; exact ⟨funext h1, h2⟩

/-- Algebraic laws (equalities of lazies: fetcher AND supplier), where they are true. -/
theorem C04x_lazy_laws (l a b c : Lazy α) (f : α → β) (g : β → γ) (p q : α → Bool) (e : Err) (v : α)
    (h : α → Lazy β) (k : β → Lazy γ) :
    l.map id = l ∧
    (l.map f).map g = l.map (g ∘ f) ∧
    (Lazy.empty : Lazy α).map f = Lazy.empty ∧
    (Lazy.error e : Lazy α).map f = Lazy.error e ∧
    (Lazy.just v).map f = Lazy.just (f v) ∧
    (Lazy.empty : Lazy α).filter p = Lazy.empty ∧
    (Lazy.error e : Lazy α).filter p = Lazy.error e ∧
    l.filter (fun _ => true) = l ∧
    (l.filter p).filter q = l.filter (fun x => p x && q x) ∧
    (Lazy.empty : Lazy α).or a = a ∧
    (Lazy.just v).or a = (Lazy.just v).orElseThrow a.emptyErr ∧
    (Lazy.error e : Lazy α).or a = (Lazy.error e : Lazy α).orElseThrow a.emptyErr ∧
    (a.or b).or c = a.or (b.or c) ∧
    l.or Lazy.empty = l.orElseThrow .emptyDefault ∧
    l.flatMap Lazy.just = l ∧
    (l.flatMap h).flatMap k = l.flatMap (fun x => (h x).flatMap k) ∧
    (Lazy.just v).flatMap h = ((h v).orElseThrow .emptyDefault) ∧
    l.mapWhileFiltering (fun x => some (f x)) = l.map f ∧
    l.mapWhileFiltering (fun x => if p x then some x else none) = l.filter p := by
  refine ⟨?_, ?_, ?_, ?_, ?_, ?_, ?_, ?_, ?_, ?_, ?_, ?_, ?_, ?_, ?_, ?_, ?_, ?_, ?_⟩
  all_goals
    apply Lazy.ext'
    · intro ctx
      simp only [Lazy.map, Lazy.filter, Lazy.or, Lazy.flatMap, Lazy.mapWithErrAndCtx, Lazy.filterWithErrAndCtx,
        Lazy.mapWhileFilteringWithErrAndCtx, Lazy.mapWhileFiltering, Lazy.newLazy, Lazy.getOptional, Lazy.empty,
        Lazy.error, Lazy.just, Lazy.orElseThrow, Function.comp, id]
      try rfl
      try (rcases l.fetcher ctx with e' | (_ | v') <;> simp <;> (try cases p v' <;> simp))
      try (rcases a.fetcher ctx with e' | (_ | v') <;> simp)
    · simp [Lazy.map, Lazy.filter, Lazy.or, Lazy.flatMap, Lazy.mapWithErrAndCtx, Lazy.filterWithErrAndCtx,
        Lazy.mapWhileFilteringWithErrAndCtx, Lazy.mapWhileFiltering, Lazy.newLazy, Lazy.empty,
        Lazy.error, Lazy.just, Lazy.orElseThrow]


/-! ### every combinator tree of the DSL -/

theorem Pred.eval_pure (p : Pred) (h : p.level = 0) (c : Ctx) (x : Int) : p.eval c x = .ok (p.pure x) := by
  cases p <;> simp [Pred.level] at h <;> rfl
theorem Pred.eval_bg (p : Pred) (h : p.level ≤ 1) (c : Ctx) (x : Int) : p.eval c x = p.eval .background x := by
  cases p <;> simp [Pred.level] at h <;> rfl
theorem Fn.eval_pure (f : Fn) (h : f.level = 0) (c : Ctx) (x : Int) : f.eval c x = .ok (f.pure x) := by
  cases f <;> simp [Fn.level] at h <;> rfl
theorem Fn.eval_bg (f : Fn) (h : f.level ≤ 1) (c : Ctx) (x : Int) : f.eval c x = f.eval .background x := by
  cases f <;> simp [Fn.level] at h <;> rfl
theorem PFn.eval_pure (f : PFn) (h : f.level = 0) (c : Ctx) (x : Int) : f.eval c x = .ok (f.pure x) := by
  cases f <;> simp [PFn.level] at h <;> rfl
theorem PFn.eval_bg (f : PFn) (h : f.level ≤ 1) (c : Ctx) (x : Int) : f.eval c x = f.eval .background x := by
  cases f <;> simp [PFn.level] at h <;> rfl
theorem LFn.eval_den (f : LFn) (x : Int) (c : Ctx) : (f.eval x).fetcher c = f.den x := by
  cases f <;> simp [LFn.eval, LFn.den, Lazy.just, Lazy.empty, Lazy.error, Lazy.justOptionalOrElseThrow, Lazy.newLazy]
  split <;> rfl

theorem LExpr.wf_iff (e : LExpr) : e.wf = true ↔ e.WF := by
  induction e <;> simp_all [LExpr.wf, LExpr.WF]

/-- **Every well-formed lazy expression tree** (any nesting of OrElseThrow / Filter* / Map* /
MapWhileFiltering* / FlatMap / Or over all the constructors), in every context: the model lazy built with the
mirrored combinators fetches exactly the option-level meaning `den`, and reports `sup` as its empty-value
error.  (The three API variants of a combinator therefore agree whenever the user function fits all of them.) -/
theorem C04x_lazy_tree (e : LExpr) (h : e.WF) (ctx : Ctx) :
    e.build.fetcher ctx = e.den ctx ∧ e.build.emptyErr = e.sup := by
  induction e with
  | just v => exact ⟨rfl, rfl⟩
  | jwe v e => cases e <;> exact ⟨rfl, rfl⟩
  | jopt v => exact ⟨rfl, rfl⟩
  | jowe v e => cases e <;> exact ⟨rfl, rfl⟩
  | joet v t => exact ⟨rfl, rfl⟩
  | new r => rcases r with e | v <;> exact ⟨rfl, rfl⟩
  | newc =>
    refine ⟨?_, rfl⟩
    simp only [LExpr.build, Lazy.new, Lazy.newLazy, LExpr.den]
    cases ctx.err <;> rfl
  | nopt r => exact ⟨rfl, rfl⟩
  | noet r t => exact ⟨rfl, rfl⟩
  | empty => exact ⟨rfl, rfl⟩
  | error e => exact ⟨rfl, rfl⟩
  | oet t x ih => exact ⟨(ih h).1, rfl⟩
  | filter v p x ih =>
    obtain ⟨hl, hx⟩ := h
    obtain ⟨ih1, ih2⟩ := ih hx
    have key : ∀ (q : Ctx → Int → Except Err Bool), (∀ y, q ctx y = p.eval ctx y) →
        (x.build.filterWithErrAndCtx q).fetcher ctx = (LExpr.filter v p x).den ctx := by
      intro q hq
      rw [(C04x_lazy_filter x.build ctx (fun _ => true) (fun _ => .ok true) q).2.2, ih1]
      simp only [LExpr.den]
      congr 1; funext o; cases o with
      | none => rfl
      | some y => simp only [LExpr.optFilterM, hq]
    cases v with
    | plain =>
      refine ⟨?_, ih2⟩
      simp only [LExpr.build, Lazy.filter]
      exact key _ (fun y => (Pred.eval_pure p (by simpa [Variant.level] using hl) ctx y).symm)
    | err =>
      refine ⟨?_, ih2⟩
      simp only [LExpr.build, Lazy.filterWithErr]
      exact key _ (fun y => (Pred.eval_bg p (by simpa [Variant.level] using hl) ctx y).symm)
    | ctx => exact ⟨key _ (fun _ => rfl), ih2⟩
  | map v f x ih =>
    obtain ⟨hl, hx⟩ := h
    obtain ⟨ih1, ih2⟩ := ih hx
    have key : ∀ (q : Ctx → Int → Except Err Int), (∀ y, q ctx y = f.eval ctx y) →
        (x.build.mapWithErrAndCtx q).fetcher ctx = (LExpr.map v f x).den ctx := by
      intro q hq
      rw [(C04x_lazy_map x.build ctx id (fun y => .ok y) q).2.2, ih1]
      simp only [LExpr.den]
      congr 1; funext o; cases o with
      | none => rfl
      | some y => simp only [Option.mapM, hq]
    cases v with
    | plain =>
      refine ⟨?_, ih2⟩
      simp only [LExpr.build, Lazy.map]
      exact key _ (fun y => (Fn.eval_pure f (by simpa [Variant.level] using hl) ctx y).symm)
    | err =>
      refine ⟨?_, ih2⟩
      simp only [LExpr.build, Lazy.mapWithErr]
      exact key _ (fun y => (Fn.eval_bg f (by simpa [Variant.level] using hl) ctx y).symm)
    | ctx => exact ⟨key _ (fun _ => rfl), ih2⟩
  | mwf v f x ih =>
    obtain ⟨hl, hx⟩ := h
    obtain ⟨ih1, ih2⟩ := ih hx
    have key : ∀ (q : Ctx → Int → Except Err (Option Int)), (∀ y, q ctx y = f.eval ctx y) →
        (x.build.mapWhileFilteringWithErrAndCtx q).fetcher ctx = (LExpr.mwf v f x).den ctx := by
      intro q hq
      rw [(C04x_lazy_mwf_flatMap x.build ctx (fun _ => none) (fun _ => .ok none) q (fun _ => Lazy.empty)).2.2.1, ih1]
      simp only [LExpr.den]
      congr 1; funext o; cases o with
      | none => rfl
      | some y => simp only [hq]
    cases v with
    | plain =>
      refine ⟨?_, ih2⟩
      simp only [LExpr.build, Lazy.mapWhileFiltering]
      exact key _ (fun y => (PFn.eval_pure f (by simpa [Variant.level] using hl) ctx y).symm)
    | err =>
      refine ⟨?_, ih2⟩
      simp only [LExpr.build, Lazy.mapWhileFilteringWithErr]
      exact key _ (fun y => (PFn.eval_bg f (by simpa [Variant.level] using hl) ctx y).symm)
    | ctx => exact ⟨key _ (fun _ => rfl), ih2⟩
  | flatMap f x ih =>
    obtain ⟨ih1, ih2⟩ := ih h
    refine ⟨?_, ih2⟩
    simp only [LExpr.build]
    rw [(C04x_lazy_mwf_flatMap x.build ctx (fun _ => (none : Option Int)) (fun _ => .ok none) (fun _ _ => .ok none) f.eval).2.2.2, ih1]
    simp only [LExpr.den]
    congr 1; funext o; cases o with
    | none => rfl
    | some y => simp only [LFn.eval_den]
  | or x y ihx ihy =>
    obtain ⟨hx, hy⟩ := h
    refine ⟨?_, (ihy hy).2⟩
    simp only [LExpr.build]
    rw [C04x_lazy_or, (ihx hx).1, (ihy hy).1]
    rfl

/-- Non-vacuity: a depth-3 tree mixing all variant kinds is well formed; `Or` reports the ALTERNATIVE's
empty-value error even when the receiver carries its own. -/
example : (LExpr.or (.oet 3 (.filter .err .failodd (.map .plain .add1 (.just 1)))) (.mwf .ctx .ctx (.joet none 4))).WF :=
  (LExpr.wf_iff _).1 rfl
example : (LExpr.or (.oet 3 .empty) (.joet none 4)).build.get ⟨false⟩ = .error (.emptyCustom 4) := rfl
example : (LExpr.or (.oet 3 .empty) .empty).build.get ⟨false⟩ = .error .emptyDefault := rfl

/-- The law `l.Or(Empty()) = l` does NOT hold for `Get`: the receiver's supplier is lost (Or keeps alt's). -/
theorem C04x_lazy_or_empty_right_supplier_lost :
    ∃ l : Lazy Int, (l.or Lazy.empty).get ⟨false⟩ ≠ l.get ⟨false⟩ ∧
      ∀ c, (l.or Lazy.empty).getOptional c = l.getOptional c :=
  ⟨(Lazy.empty : Lazy Int).orElseThrow (.emptyCustom 1), ⟨(by intro h; cases h), fun _ => rfl⟩⟩

/-- Likewise FlatMap reports the SOURCE's empty-value error, also when it is the inner lazy that is empty. -/
theorem C04x_lazy_flatMap_supplier_is_source :
    ((Lazy.just (1 : Int)).flatMap (fun _ => Lazy.justOptionalOrElseThrow (none : Option Int) (.emptyCustom 5))).get ⟨false⟩
      = .error .emptyDefault := rfl

/-- Consume*: the consumer is called with the value iff there is one (never on empty / error), and its error
is what Consume returns. -/
theorem C04x_lazy_consume (l : Lazy α) (ctx : Ctx) (f : Ctx → α → Option Err) :
    l.consumeWithErrAndCtx ctx f =
      (match l.fetcher ctx with
       | .error e => ([], some e)
       | .ok o => (o.toList, o.bind (f ctx))) ∧
    l.consume ctx = (match l.fetcher ctx with | .error e => ([], some e) | .ok o => (o.toList, none)) ∧
    l.mustConsume = (match l.fetcher .background with | .error e => ([], .panic e) | .ok o => (o.toList, .ret ())) := by
  refine ⟨?_, ?_, ?_⟩ <;> simp only [Lazy.consumeWithErrAndCtx, Lazy.consume, Lazy.mustConsume]
  · rcases l.fetcher ctx with e | (_ | v) <;> rfl
  · rcases l.fetcher ctx with e | (_ | v) <;> rfl
  · rcases l.fetcher Ctx.background with e | (_ | v) <;> rfl

end LazyLaws

end ShpanVerif.Props.C04Ext
