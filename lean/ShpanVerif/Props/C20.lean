/-
C20 — JSON and file adapters are faithful and their elements stay valid.

JSON (Model/JsonFrame.lean)
  * `C20_writer`              : both writer helpers write exactly "[" e1 "," e2 … "]" ("[]" for the empty stream);
                                the init hook runs exactly once
  * `C20_write_read_id`       : ReadJsonArray over what the writers wrote = the stream (any codec with dec∘enc = id,
                                any decoder that tokenises framed documents — `LexFrames`, stated explicitly)
  * `C20_read_object_order`   : ReadJsonObject yields the entries in document order (duplicates kept)
  * `C20_scanner_exact`       : the element scanner of the reader model returns exactly the element, for EVERY
                                well-formed JSON text (Model/JsonText.lean: nested, strings with escapes, inner white space)
  * `C20_read_array_document`, `C20_read_object_document` : reading any well-formed array / object document (white
                                space at every legal position) yields exactly its elements / entries
  * `C20_write_read_id_json`  : write-then-read identity with the concrete lexer for every stream of well-formed
                                JSON texts (no tokenisation assumption left)
  * `C20_read_array_ws`, `C20_read_object_ws` : … for the documents the harness builds, every white-space pattern
  * `C20_lazy_roundtrip`      : unmarshal (marshal l) behaves like l under Get and GetOptional (value and empty)
File (Model/FileScan.lean)
  * `C20_forward_lines`       : forward scan = the file's lines when every raw line is below the limit
  * `C20_reverse_lines_single_read`, `C20_reverse_lines` : reverse scan = reverse of the file's lines (no hypothesis
                                on carriage returns since the repair 4d4d438; `C20_reverse_exact`: on files below the
                                line-length bound the statement fails exactly for F1)
  * `C20_elements_stable`     : (heap/slice model, Model/FileHeap.lean) every element read after the whole stream was
                                pulled has the value it was yielded with
  * witnesses of the known findings F1, F2 and of the repaired defects D19, D20, F4 (`C20_witness_reverse_trim_all_cr`)
-/
import ShpanVerif.Model.JsonFrame
import ShpanVerif.Model.FileScan
import ShpanVerif.Proofs.FileScanLemmas
import ShpanVerif.Proofs.ReverseScanInv
import ShpanVerif.Proofs.JsonLexLemmas
import ShpanVerif.Proofs.JsonScanLemmas
import ShpanVerif.Proofs.JsonParseComplete
import ShpanVerif.Proofs.FileHeapLemmas


set_option autoImplicit false
namespace ShpanVerif.Props.C20
open List ShpanVerif.Model

deriving instance DecidableEq for Except

/-! # JSON writers -/
section writers
open ShpanVerif.Model.JsonFrame

variable {α : Type}

/-- "," e for every further element -/
def tailBytes (es : List Bytes) : Bytes := (es.map (fun e => [bComma] ++ e)).flatten

theorem joinBytes_cons (e : Bytes) (es : List Bytes) :
    joinBytes [bComma] (e :: es) = e ++ tailBytes es := by
  induction es generalizing e with
  | nil => simp [joinBytes, tailBytes]
  | cons e2 es ih =>
    have : joinBytes [bComma] (e :: e2 :: es) = e ++ [bComma] ++ joinBytes [bComma] (e2 :: es) := by
      simp [joinBytes]
    rw [this, ih e2]
    simp [tailBytes, flatten_cons]

/-- The callback of `StreamJsonToWriterWithInit` on the elements after the first. -/
theorem consume_withInit_rest (enc : α → Bytes) (xs : List α) (out : Bytes) (n : Nat) :
    consume (stepWithInit true (fun x => some (enc x))) { first := false, out := out, initCalls := n } xs =
      ({ first := false, out := out ++ tailBytes (xs.map enc), initCalls := n }, none) := by
  induction xs generalizing out with
  | nil => simp [consume, tailBytes]
  | cons x xs ih =>
    simp only [consume, stepWithInit, Bool.false_eq_true, if_false]
    rw [ih]
    simp [tailBytes, flatten_cons, append_assoc]

theorem consume_asReader_rest (enc : α → Bytes) (xs : List α) (out : Bytes) (n : Nat) :
    consume (stepAsReader (fun x => some (enc x))) { first := false, out := out, initCalls := n } xs =
      ({ first := false, out := out ++ tailBytes (xs.map enc), initCalls := n }, none) := by
  induction xs generalizing out with
  | nil => simp [consume, tailBytes]
  | cons x xs ih =>
    simp only [consume, stepAsReader, Bool.false_eq_true, if_false]
    rw [ih]
    simp [tailBytes, flatten_cons, append_assoc]

/-- **C20_writer (StreamJsonToWriter / StreamJsonToWriterWithInit / StreamJsonToHttpResponseWriter)**: for every
stream `xs` and every total element encoder, the bytes written are the JSON array of the encoded elements, the
init hook ran exactly once, and no error is returned. -/
theorem C20_writer_with_init (enc : α → Bytes) (xs : List α) :
    writeWithInit true (fun x => some (enc x)) xs = (frame (xs.map enc), 1, none) := by
  cases xs with
  | nil => simp [writeWithInit, consume, frame, joinBytes]
  | cons x xs =>
    have h1 : consume (stepWithInit true (fun x => some (enc x))) {} (x :: xs) =
        consume (stepWithInit true (fun x => some (enc x)))
          { first := false, out := [bLBr] ++ enc x, initCalls := 1 } xs := by
      simp [consume, stepWithInit]
    simp only [writeWithInit, h1, consume_withInit_rest]
    simp [frame, map_cons, joinBytes_cons, append_assoc]

/-- **C20_writer (StreamJsonAsReaderAndReturn / ExecuteStreamingHttpPostRequest)**: the bytes the consumer reads from
the pipe are the JSON array of the encoded elements. -/
theorem C20_writer_as_reader (enc : α → Bytes) (xs : List α) :
    writeAsReader (fun x => some (enc x)) xs = (frame (xs.map enc), none) := by
  cases xs with
  | nil => simp [writeAsReader, consume, frame, joinBytes]
  | cons x xs =>
    have h1 : consume (stepAsReader (fun x => some (enc x))) {} (x :: xs) =
        consume (stepAsReader (fun x => some (enc x)))
          { first := false, out := [bLBr] ++ enc x, initCalls := 0 } xs := by
      simp [consume, stepAsReader]
    simp only [writeAsReader, h1, consume_asReader_rest]
    simp [frame, map_cons, joinBytes_cons, append_assoc]

/-- The empty stream gives the valid document "[]". -/
theorem C20_writer_empty (enc : α → Bytes) :
    (writeWithInit true (fun x => some (enc x)) ([] : List α)).1 = [bLBr, bRBr] ∧
    (writeAsReader (fun x => some (enc x)) ([] : List α)).1 = [bLBr, bRBr] := by
  simp [writeWithInit, writeAsReader, consume]

/-- **C20_writer**: both helpers, every stream. -/
theorem C20_writer (enc : α → Bytes) (xs : List α) :
    writeWithInit true (fun x => some (enc x)) xs = (frame (xs.map enc), 1, none) ∧
    writeAsReader (fun x => some (enc x)) xs = (frame (xs.map enc), none) :=
  ⟨C20_writer_with_init enc xs, C20_writer_as_reader enc xs⟩

/-- non-vacuity: three elements, decimal-digit encoder -/
example : (writeWithInit true (fun (n : Nat) => some [UInt8.ofNat (48 + n)]) [1, 2, 3]).1
    = [0x5B, 0x31, 0x2C, 0x32, 0x2C, 0x33, 0x5D] := by decide

/-- The error branches keep what was written: an element that cannot be marshalled stops the output after its
delimiter and no closing bracket follows (both helpers). -/
example : writeWithInit true (fun (n : Nat) => if n = 9 then none else some [UInt8.ofNat (48 + n)]) [1, 9, 3]
    = ([0x5B, 0x31, 0x2C], 1, some .marshal) := by decide
example : writeAsReader (fun (n : Nat) => if n = 9 then none else some [UInt8.ofNat (48 + n)]) [9]
    = ([0x5B], some .marshal) := by decide
/-- a failing init hook: nothing is written, for the empty stream as well -/
example : writeWithInit false (fun (n : Nat) => some [UInt8.ofNat (48 + n)]) [1, 2] = ([], 1, some .init) := by decide
example : writeWithInit false (fun (n : Nat) => some [UInt8.ofNat (48 + n)]) [] = ([], 1, some .init) := by decide

end writers

/-! # JSON readers -/
section readers
open ShpanVerif.Model.JsonFrame

variable {α : Type}

theorem arrayLoop_vals (enc : α → Bytes) (dec : Bytes → Option α) (hcodec : ∀ x, dec (enc x) = some x)
    (xs : List α) (rest : List Tok) (acc : List α) :
    arrayLoop dec ((xs.map (fun x => Tok.val (enc x))) ++ Tok.arrClose :: rest) acc = .ok (acc.reverse ++ xs) := by
  induction xs generalizing acc with
  | nil => simp [arrayLoop]
  | cons x xs ih =>
    simp only [map_cons, cons_append, arrayLoop, hcodec]
    rw [ih]; simp

/-- The tokenisation assumption, stated explicitly: the decoder `lex` sees a framed document of encoded elements
as "[", one value token per element, "]". -/
def LexFrames (lex : Bytes → List Tok) (enc : α → Bytes) : Prop :=
  ∀ xs : List α, lex (frame (xs.map enc)) = Tok.arrOpen :: (xs.map (fun x => Tok.val (enc x))) ++ [Tok.arrClose]

/-- **C20_write_read_id**: write-then-read is the identity, for both writer helpers, every stream, every codec with
`dec ∘ enc = id`, every decoder that tokenises framed documents. -/
theorem C20_write_read_id (enc : α → Bytes) (dec : Bytes → Option α) (lex : Bytes → List Tok)
    (hcodec : ∀ x, dec (enc x) = some x) (hlex : LexFrames lex enc) (xs : List α) :
    readArray dec (lex (writeWithInit true (fun x => some (enc x)) xs).1) = .ok xs ∧
    readArray dec (lex (writeAsReader (fun x => some (enc x)) xs).1) = .ok xs := by
  rw [C20_writer_with_init, C20_writer_as_reader]
  simp only [hlex xs, readArray]
  have := arrayLoop_vals enc dec hcodec xs [] []
  simpa using this

/-- The tokenisation assumption holds for the driver's concrete lexer `jsonLex` whenever the encoder produces scalar
tokens (`Proofs/JsonLexLemmas.lean`: any non-empty run of bytes without delimiter / quote / bracket / white space —
also tokens that are no JSON); strings and nested values: `lexFrames_jsonLex_json` below. -/
theorem lexFrames_jsonLex (enc : α → Bytes) (hs : ∀ x, Proofs.JsonLex.ScalarElem (enc x)) : LexFrames jsonLex enc := by
  intro xs
  have := Proofs.JsonLex.jsonLex_frames (xs.map enc) (by
    intro e he
    obtain ⟨x, _, rfl⟩ := mem_map.mp he
    exact hs x)
  simpa [map_map, Function.comp_def] using this

/-- `C20_write_read_id` with the concrete lexer, scalar encoders: no assumption left but `dec ∘ enc = id`.
(Kept as the scalar special case; the full-strength statement is `C20_write_read_id_json`.) -/
theorem C20_write_read_id_jsonLex (enc : α → Bytes) (dec : Bytes → Option α)
    (hcodec : ∀ x, dec (enc x) = some x) (hs : ∀ x, Proofs.JsonLex.ScalarElem (enc x)) (xs : List α) :
    readArray dec (jsonLex (writeWithInit true (fun x => some (enc x)) xs).1) = .ok xs ∧
    readArray dec (jsonLex (writeAsReader (fun x => some (enc x)) xs).1) = .ok xs :=
  C20_write_read_id enc dec jsonLex hcodec (lexFrames_jsonLex enc hs) xs

/-- non-vacuity: the codec of JSON booleans ("true" / "false") meets both hypotheses, for every stream of booleans -/
def encBool (b : Bool) : Bytes := if b then [0x74, 0x72, 0x75, 0x65] else [0x66, 0x61, 0x6C, 0x73, 0x65]
def decBool (e : Bytes) : Option Bool :=
  if e = [0x74, 0x72, 0x75, 0x65] then some true else if e = [0x66, 0x61, 0x6C, 0x73, 0x65] then some false else none

example (xs : List Bool) :
    readArray decBool (jsonLex (writeWithInit true (fun x => some (encBool x)) xs).1) = .ok xs :=
  (C20_write_read_id_jsonLex encBool decBool (by decide) (by decide) xs).1

/-- ReadJsonArray yields the document's elements in document order (token level). -/
theorem C20_read_array_order (enc : α → Bytes) (dec : Bytes → Option α) (hcodec : ∀ x, dec (enc x) = some x)
    (xs : List α) (rest : List Tok) :
    readArray dec (Tok.arrOpen :: (xs.map (fun x => Tok.val (enc x))) ++ Tok.arrClose :: rest) = .ok xs := by
  simp only [readArray, cons_append]
  have := arrayLoop_vals enc dec hcodec xs rest []
  simpa using this

/-- the tokens of an object document with the entries `kvs` -/
def objTokens (enc : α → Bytes) (kvs : List (Bytes × α)) : List Tok :=
  kvs.flatMap (fun kv => [Tok.key kv.1, Tok.val (enc kv.2)])

theorem objectLoop_entries (enc : α → Bytes) (dec : Bytes → Option α) (hcodec : ∀ x, dec (enc x) = some x)
    (kvs : List (Bytes × α)) (rest : List Tok) (acc : List (Bytes × α)) :
    objectLoop dec (objTokens enc kvs ++ Tok.objClose :: rest) acc = .ok (acc.reverse ++ kvs) := by
  induction kvs generalizing acc with
  | nil => simp [objTokens, objectLoop]
  | cons kv kvs ih =>
    have : objTokens enc (kv :: kvs) = Tok.key kv.1 :: Tok.val (enc kv.2) :: objTokens enc kvs := by
      simp [objTokens]
    rw [this]
    simp only [cons_append, objectLoop, hcodec]
    rw [ih]; simp

/-- **C20_read_object_order**: ReadJsonObject yields every entry of the document, in document order, duplicates
included. -/
theorem C20_read_object_order (enc : α → Bytes) (dec : Bytes → Option α) (hcodec : ∀ x, dec (enc x) = some x)
    (kvs : List (Bytes × α)) (rest : List Tok) :
    readObject dec (Tok.objOpen :: objTokens enc kvs ++ Tok.objClose :: rest) = .ok kvs := by
  simp only [readObject, cons_append]
  have := objectLoop_entries enc dec hcodec kvs rest []
  simpa using this

/-- non-vacuity on the driver's concrete lexer: writer output, lexed, read back; nested values, strings holding
delimiters -/
example :
    let es : List Bytes := [[0x31], [0x22, 0x61, 0x2C, 0x5D, 0x5C, 0x22, 0x22], [0x5B, 0x7B, 0x22, 0x6B, 0x22, 0x3A, 0x5B, 0x32, 0x2C, 0x22, 0x7D, 0x22, 0x5D, 0x7D, 0x2C, 0x33, 0x5D], [0x6E, 0x75, 0x6C, 0x6C]]
    readArray some (jsonLex (writeWithInit true some es).1) = .ok es := by decide

example :
    readObject some (jsonLex [0x7B, 0x20, 0x22, 0x62, 0x22, 0x20, 0x3A, 0x20, 0x31, 0x20, 0x2C, 0x20, 0x22, 0x61, 0x22, 0x3A, 0x5B, 0x22, 0x7D, 0x22, 0x5D, 0x2C, 0x20, 0x22, 0x62, 0x22, 0x3A, 0x7B, 0x7D, 0x20, 0x7D])
      = .ok [([0x22, 0x62, 0x22], [0x31]), ([0x22, 0x61, 0x22], [0x5B, 0x22, 0x7D, 0x22, 0x5D]),
             ([0x22, 0x62, 0x22], [0x7B, 0x7D])] := by decide

/-- error branches: not an array / truncated inside / wrong closer are errors; a document cut right after an element
ends the array stream WITHOUT an error (Token()'s io.EOF is returned unwrapped, json_array_stream_provider.go:83-85),
the object reader wraps it and fails. -/
example : readArray (α := Bytes) some (jsonLex [0x7B, 0x7D]) = .error .openErr := by decide
example : readArray (α := Bytes) some (jsonLex [0x5B, 0x31, 0x2C]) = .error .emitErr := by decide
example : readArray (α := Bytes) some (jsonLex [0x5B, 0x31, 0x2C, 0x32, 0x7D]) = .error .emitErr := by decide
example : readArray some (jsonLex [0x5B, 0x31, 0x2C, 0x32]) = .ok [[0x31], [0x32]] := by decide
example : readObject (α := Bytes) some (jsonLex [0x7B, 0x22, 0x61, 0x22, 0x3A, 0x31]) = .error .emitErr := by decide

end readers

/-! # JSON readers at full strength: every well-formed JSON text -/
section json_full
open ShpanVerif.Model.JsonFrame ShpanVerif.Model.JsonText ShpanVerif.Proofs.JsonScan

variable {α : Type}

/-- **C20_scanner_exact**: the element scanner of the reader model — bracket-depth counting, string state with
backslash escapes, scalar run — returns exactly the element and leaves exactly the rest, for EVERY well-formed JSON
text `render v` (`v.wf`: RFC 8259 numbers and strings, any nesting, any insignificant white space inside) followed by
a byte that can follow a value inside an array or object (white space, `,`, `]`, `}`). -/
theorem C20_scanner_exact (v : JT) (h : v.wf = true) (c : UInt8) (tl : Bytes) (hc : isScalarEnd c = true) :
    scanValue (render v ++ c :: tl) = some (render v, c :: tl) :=
  scanValue_render v h c tl hc

/-- … and the key scanner: a key with escapes is delimited exactly. -/
theorem C20_key_scanner_exact (k : Bytes) (h : strBodyOk k = true) (rest : Bytes) :
    scanStr (k ++ bQuote :: rest) [bQuote] = some (bQuote :: k ++ [bQuote], rest) := by
  have := scanStr_spec k.length k (Nat.le_refl _) (strScanOk_of_body h) rest [bQuote]
  simpa using this

theorem arrayLoop_texts (dec : Bytes → Option α) (f : JT → α) (vs : List JT)
    (h : ∀ v ∈ vs, dec (render v) = some (f v)) (rest : List Tok) (acc : List α) :
    arrayLoop dec (vs.map (fun v => Tok.val (render v)) ++ Tok.arrClose :: rest) acc = .ok (acc.reverse ++ vs.map f) := by
  induction vs generalizing acc with
  | nil => simp [arrayLoop]
  | cons v vs ih =>
    simp only [map_cons, cons_append, arrayLoop, h v (by simp)]
    rw [ih (fun v' hv' => h v' (by simp [hv']))]; simp

/-- **C20_read_array_document**: for EVERY well-formed JSON array text — any elements (nested arrays / objects,
strings holding brackets, commas, quotes, escapes; numbers in any RFC form), insignificant white space at every legal
position inside and around, white space before the document, anything after it — `ReadJsonArray` yields exactly the
elements, in document order: the decoder is applied to exactly each element's text. -/
theorem C20_read_array_document (dec : Bytes → Option α) (f : JT → α) (pre w0 : Bytes) (is : JItems) (post : Bytes)
    (hpre : allWs pre = true) (hwf : (JT.arr w0 is).wf = true)
    (hdec : ∀ v ∈ is.values, dec (render v) = some (f v)) :
    readArray dec (jsonLex (pre ++ render (.arr w0 is) ++ post)) = .ok (is.values.map f) := by
  rw [jsonLex_array pre w0 is post hpre hwf]
  simp only [readArray, cons_append]
  have := arrayLoop_texts dec f is.values hdec [] []
  simpa using this

/-- `json.RawMessage` elements: the element texts themselves (inner white space kept, outer dropped). -/
theorem C20_read_array_document_raw (pre w0 : Bytes) (is : JItems) (post : Bytes)
    (hpre : allWs pre = true) (hwf : (JT.arr w0 is).wf = true) :
    readArray some (jsonLex (pre ++ render (.arr w0 is) ++ post)) = .ok (is.values.map render) :=
  C20_read_array_document some render pre w0 is post hpre hwf (fun _ _ => rfl)

theorem objectLoop_texts (dec : Bytes → Option α) (f : JT → α) (kvs : List (Bytes × JT))
    (h : ∀ kv ∈ kvs, dec (render kv.2) = some (f kv.2)) (rest : List Tok) (acc : List (Bytes × α)) :
    objectLoop dec (kvs.flatMap (fun kv => [Tok.key kv.1, Tok.val (render kv.2)]) ++ Tok.objClose :: rest) acc =
      .ok (acc.reverse ++ kvs.map (fun kv => (kv.1, f kv.2))) := by
  induction kvs generalizing acc with
  | nil => simp [objectLoop]
  | cons kv kvs ih =>
    simp only [flatMap_cons, cons_append, nil_append, objectLoop, h kv (by simp)]
    rw [ih (fun kv' hkv' => h kv' (by simp [hkv']))]; simp

/-- **C20_read_object_document**: for EVERY well-formed JSON object text (keys with escapes, repeated keys, white
space around keys, colons, values and commas) `ReadJsonObject` yields exactly the entries, in document order,
duplicates kept: (key text, decoded value). The key text is handed to the key decoder (`JsonText.decodeKey`). -/
theorem C20_read_object_document (dec : Bytes → Option α) (f : JT → α) (pre w0 : Bytes) (es : JEnts) (post : Bytes)
    (hpre : allWs pre = true) (hwf : (JT.obj w0 es).wf = true)
    (hdec : ∀ kv ∈ es.entries, dec (render kv.2) = some (f kv.2)) :
    readObject dec (jsonLex (pre ++ render (.obj w0 es) ++ post)) = .ok (es.entries.map (fun kv => (kv.1, f kv.2))) := by
  rw [jsonLex_object pre w0 es post hpre hwf]
  simp only [readObject, cons_append, entToks]
  have := objectLoop_texts dec f es.entries hdec [] []
  simpa using this

theorem C20_read_object_document_raw (pre w0 : Bytes) (es : JEnts) (post : Bytes)
    (hpre : allWs pre = true) (hwf : (JT.obj w0 es).wf = true) :
    readObject some (jsonLex (pre ++ render (.obj w0 es) ++ post)) =
      .ok (es.entries.map (fun kv => (kv.1, render kv.2))) :=
  C20_read_object_document some render pre w0 es post hpre hwf (fun _ _ => rfl)

/-- **C20_isJsonText_iff**: well-formedness is a decidable predicate on BYTES — `isJsonText e` holds exactly when `e` is
the text of a well-formed tree (soundness by construction, completeness: `Proofs/JsonParseComplete.lean`). The
hypotheses `isJsonText (enc x) = true` below therefore exclude nothing of the grammar. -/
theorem C20_isJsonText_iff (e : Bytes) : isJsonText e = true ↔ ∃ t : JT, t.wf = true ∧ render t = e :=
  Proofs.JsonParse.isJsonText_iff e

/-- `jsonLex` tokenises the framed document of ANY well-formed JSON texts. -/
theorem jsonLex_frame_json (es : List Bytes) (h : ∀ e ∈ es, isJsonText e = true) :
    jsonLex (frame es) = Tok.arrOpen :: es.map Tok.val ++ [Tok.arrClose] := by
  obtain ⟨ts, hts, rfl⟩ := witness_list es h
  rw [frame_eq_render]
  have := jsonLex_array [] [] (JItems.ofList ts) [] rfl (by simpa [JT.wf, allWs] using ofList_wf ts hts)
  simp only [nil_append, append_nil] at this
  rw [this, ofList_values]
  simp [map_map, Function.comp_def]

/-- The tokenisation assumption of `C20_write_read_id` holds for the concrete lexer and EVERY encoder that produces
well-formed JSON texts (`isJsonText`, decidable) — strings, nested arrays and objects included. -/
theorem lexFrames_jsonLex_json (enc : α → Bytes) (h : ∀ x, isJsonText (enc x) = true) : LexFrames jsonLex enc := by
  intro xs
  have := jsonLex_frame_json (xs.map enc) (by
    intro e he
    obtain ⟨x, _, rfl⟩ := mem_map.mp he
    exact h x)
  simpa [map_map, Function.comp_def] using this

theorem arrayLoop_vals_mem (enc : α → Bytes) (dec : Bytes → Option α) (xs : List α)
    (hcodec : ∀ x ∈ xs, dec (enc x) = some x) (rest : List Tok) (acc : List α) :
    arrayLoop dec ((xs.map (fun x => Tok.val (enc x))) ++ Tok.arrClose :: rest) acc = .ok (acc.reverse ++ xs) := by
  induction xs generalizing acc with
  | nil => simp [arrayLoop]
  | cons x xs ih =>
    simp only [map_cons, cons_append, arrayLoop, hcodec x (by simp)]
    rw [ih (fun x' hx' => hcodec x' (by simp [hx']))]; simp

/-- **C20_write_read_id_json** (full strength): for every stream `xs` whose elements encode to well-formed JSON texts
and decode back (`dec (enc x) = x` on the elements of the stream), reading what either writer helper wrote — with the
concrete lexer, no tokenisation assumption — yields exactly `xs`. -/
theorem C20_write_read_id_json (enc : α → Bytes) (dec : Bytes → Option α) (xs : List α)
    (hcodec : ∀ x ∈ xs, dec (enc x) = some x) (hjson : ∀ x ∈ xs, isJsonText (enc x) = true) :
    readArray dec (jsonLex (writeWithInit true (fun x => some (enc x)) xs).1) = .ok xs ∧
    readArray dec (jsonLex (writeAsReader (fun x => some (enc x)) xs).1) = .ok xs := by
  rw [C20_writer_with_init, C20_writer_as_reader]
  have hl := jsonLex_frame_json (xs.map enc) (by
    intro e he
    obtain ⟨x, hx, rfl⟩ := mem_map.mp he
    exact hjson x hx)
  simp only [hl, readArray, map_map, Function.comp_def, cons_append]
  have := arrayLoop_vals_mem enc dec xs hcodec [] []
  simpa using this

/-- The same on trees: every list of well-formed JSON values, written by either helper and read back as raw
messages, comes back as exactly the texts of the values. -/
theorem C20_write_read_id_values (ts : List JT) (h : ∀ t ∈ ts, t.wf = true) :
    readArray some (jsonLex (writeWithInit true (fun t => some (render t)) ts).1) = .ok (ts.map render) ∧
    readArray some (jsonLex (writeAsReader (fun t => some (render t)) ts).1) = .ok (ts.map render) := by
  rw [C20_writer_with_init, C20_writer_as_reader, frame_eq_render]
  have := C20_read_array_document_raw [] [] (JItems.ofList ts) [] rfl (by simpa [JT.wf, allWs] using ofList_wf ts h)
  simp only [nil_append, append_nil, ofList_values] at this
  exact ⟨this, this⟩

/-- **C20_read_array_ws**: the documents the harness builds — white space `wsf i` (any white-space-valued function of
the position: before "[", before and after every element, inside the empty array, after "]") around ANY well-formed
element texts — read back as exactly the element texts. -/
theorem C20_read_array_ws (wsf : Nat → Bytes) (hws : ∀ i, allWs (wsf i) = true) (es : List Bytes)
    (h : ∀ e ∈ es, isJsonText e = true) :
    readArray some (jsonLex (arrDoc wsf es)) = .ok es := by
  obtain ⟨ts, hts, rfl⟩ := witness_list es h
  rw [arrDoc_eq]
  have hwf : (JT.arr (if ts.isEmpty then wsf 3 else []) (itemsAt wsf 0 ts)).wf = true := by
    simp only [JT.wf, Bool.and_eq_true]
    refine ⟨?_, itemsAt_wf wsf hws ts 0 hts⟩
    split
    · exact hws 3
    · rfl
  have := C20_read_array_document_raw (wsf 7) _ (itemsAt wsf 0 ts) (wsf 5) (hws 7) hwf
  rw [this, itemsAt_values]

/-- **C20_read_object_ws**: … and the object documents: entries = (key body in escaped form, value text); the reader
yields (key text, value text) for every entry, in order, repeated keys kept. -/
theorem C20_read_object_ws (wsf : Nat → Bytes) (hws : ∀ i, allWs (wsf i) = true) (es : List (Bytes × Bytes))
    (h : ∀ kv ∈ es, strBodyOk kv.1 = true ∧ isJsonText kv.2 = true) :
    readObject some (jsonLex (objDoc wsf es)) = .ok (es.map (fun kv => (bQuote :: kv.1 ++ [bQuote], kv.2))) := by
  obtain ⟨kts, hts, rfl⟩ := witness_entries es (fun kv hkv => (h kv hkv).2)
  have hk : ∀ kv ∈ kts, strBodyOk kv.1 = true ∧ kv.2.wf = true := by
    intro kv hkv
    refine ⟨?_, hts kv hkv⟩
    have := (h (kv.1, render kv.2) (mem_map.mpr ⟨kv, hkv, rfl⟩)).1
    simpa using this
  rw [objDoc_eq]
  have hwf : (JT.obj (if kts.isEmpty then wsf 3 else []) (entsAt wsf 0 kts)).wf = true := by
    simp only [JT.wf, Bool.and_eq_true]
    refine ⟨?_, entsAt_wf wsf hws kts 0 hk⟩
    split
    · exact hws 3
    · rfl
  have := C20_read_object_document_raw (wsf 7) _ (entsAt wsf 0 kts) (wsf 5) (hws 7) hwf
  rw [this, entsAt_entries]
  simp [map_map, Function.comp_def]

/-- the four white-space patterns of the generator (`rdarr <ws>` / `rdobj <ws>` cases) -/
theorem C20_read_array_harness (ws : Nat) (es : List Bytes) (h : ∀ e ∈ es, isJsonText e = true) :
    readArray some (jsonLex (arrDoc (wsOf ws) es)) = .ok es :=
  C20_read_array_ws (wsOf ws) (wsOf_allWs ws) es h

theorem C20_read_object_harness (ws : Nat) (es : List (Bytes × Bytes))
    (h : ∀ kv ∈ es, strBodyOk kv.1 = true ∧ isJsonText kv.2 = true) :
    readObject some (jsonLex (objDoc (wsOf ws) es)) = .ok (es.map (fun kv => (bQuote :: kv.1 ++ [bQuote], kv.2))) :=
  C20_read_object_ws (wsOf ws) (wsOf_allWs ws) es h

/-! ### non-vacuity -/

/-- depth 9, white space of all four kinds inside, empty array and object, keys with escapes, exponent number:
`{"a" : [ [ [ [ [ [ { "k\"]" : [ ] , "\u00e9\\" : { } } ] ] ,[]] ] ] , -1.5E+3 ],\t"b":\r\n null}` -/
def exDeep : Bytes := [0x7B, 0x22, 0x61, 0x22, 0x20, 0x3A, 0x20, 0x5B, 0x20, 0x5B, 0x20, 0x5B, 0x20, 0x5B, 0x20, 0x5B, 0x20, 0x5B, 0x20, 0x7B, 0x20, 0x22, 0x6B, 0x5C, 0x22, 0x5D, 0x22, 0x20, 0x3A, 0x20, 0x5B, 0x20, 0x5D, 0x20, 0x2C, 0x20, 0x22, 0x5C, 0x75, 0x30, 0x30, 0x65, 0x39, 0x5C, 0x5C, 0x22, 0x20, 0x3A, 0x20, 0x7B, 0x20, 0x7D, 0x20, 0x7D, 0x20, 0x5D, 0x20, 0x5D, 0x20, 0x2C, 0x5B, 0x5D, 0x5D, 0x20, 0x5D, 0x20, 0x5D, 0x20, 0x2C, 0x20, 0x2D, 0x31, 0x2E, 0x35, 0x45, 0x2B, 0x33, 0x20, 0x5D, 0x2C, 0x09, 0x22, 0x62, 0x22, 0x3A, 0x0D, 0x0A, 0x20, 0x6E, 0x75, 0x6C, 0x6C, 0x7D]
/-- a string with every escape kind, a surrogate pair, and every delimiter: `"q\"b\\s\/\b\f\n\r\t\u2028\ud83d\ude00 [,]{}:"` -/
def exEsc : Bytes := [0x22, 0x71, 0x5C, 0x22, 0x62, 0x5C, 0x5C, 0x73, 0x5C, 0x2F, 0x5C, 0x62, 0x5C, 0x66, 0x5C, 0x6E, 0x5C, 0x72, 0x5C, 0x74, 0x5C, 0x75, 0x32, 0x30, 0x32, 0x38, 0x5C, 0x75, 0x64, 0x38, 0x33, 0x64, 0x5C, 0x75, 0x64, 0x65, 0x30, 0x30, 0x20, 0x5B, 0x2C, 0x5D, 0x7B, 0x7D, 0x3A, 0x22]
/-- `-0.0e-7` -/
def exNum : Bytes := [0x2D, 0x30, 0x2E, 0x30, 0x65, 0x2D, 0x37]

example : isJsonText exDeep = true ∧ isJsonText exEsc = true ∧ isJsonText exNum = true := by decide +kernel
example : (witness exDeep).map JT.depth = some 9 := by decide +kernel
/-- rejected: unbalanced, control byte in a string, bad escape, leading zero, trailing comma, bare word -/
example : isJsonText [0x5B, 0x5B, 0x5D] = false ∧ isJsonText [0x22, 0x0A, 0x22] = false ∧
    isJsonText [0x22, 0x5C, 0x78, 0x22] = false ∧ isJsonText [0x30, 0x31] = false ∧
    isJsonText [0x5B, 0x31, 0x2C, 0x5D] = false ∧ isJsonText [0x6E, 0x75, 0x6C] = false := by decide +kernel

/-- `C20_read_array_harness` applies to these elements under the richest white-space pattern … -/
example : readArray some (jsonLex (arrDoc (wsOf 3) [exDeep, exEsc, [0x5B, 0x5D], exNum, [0x7B, 0x7D]])) =
    .ok [exDeep, exEsc, [0x5B, 0x5D], exNum, [0x7B, 0x7D]] :=
  C20_read_array_harness 3 _ (by decide +kernel)
/-- … `C20_write_read_id_json` to the stream of these texts (codec = identity on texts) … -/
example : readArray some (jsonLex (writeWithInit true (fun x => some (id x)) [exDeep, exEsc, exNum]).1) =
    .ok [exDeep, exEsc, exNum] :=
  (C20_write_read_id_json id some [exDeep, exEsc, exNum] (fun _ _ => rfl) (by decide +kernel)).1
/-- … and `C20_read_object_harness` to entries with escaped and repeated keys: `k\"\u0041]`, the empty key. -/
example : readObject some (jsonLex (objDoc (wsOf 2) [([0x6B, 0x5C, 0x22, 0x5C, 0x75, 0x30, 0x30, 0x34, 0x31, 0x5D], exDeep), ([], exEsc), ([0x6B, 0x5C, 0x22, 0x5C, 0x75, 0x30, 0x30, 0x34, 0x31, 0x5D], exNum)])) =
    .ok [(bQuote :: [0x6B, 0x5C, 0x22, 0x5C, 0x75, 0x30, 0x30, 0x34, 0x31, 0x5D] ++ [bQuote], exDeep), ([bQuote, bQuote], exEsc), (bQuote :: [0x6B, 0x5C, 0x22, 0x5C, 0x75, 0x30, 0x30, 0x34, 0x31, 0x5D] ++ [bQuote], exNum)] :=
  C20_read_object_harness 2 _ (by decide +kernel)
/-- the decoded keys (what `ReadJsonObject` reports as `Entry.Key`): `k"A]`; a lone surrogate → U+FFFD -/
example : decodeKey [0x6B, 0x5C, 0x22, 0x5C, 0x75, 0x30, 0x30, 0x34, 0x31, 0x5D] = [0x6B, 0x22, 0x41, 0x5D] := by decide +kernel
example : decodeKey [0x5C, 0x75, 0x64, 0x38, 0x33, 0x64, 0x5C, 0x75, 0x64, 0x65, 0x30, 0x30] = [0xF0, 0x9F, 0x98, 0x80] ∧
    decodeKey [0x5C, 0x75, 0x64, 0x38, 0x33, 0x64, 0x78] = [0xEF, 0xBF, 0xBD, 0x78] := by decide +kernel

end json_full

/-! # Lazy -/
section lazy
open ShpanVerif.Model.JsonFrame

variable {α : Type}

/-- **C20_lazy_roundtrip**: a Lazy holding a value or being empty, marshalled and unmarshalled into ANY receiver
(a fresh variable, a struct field, a Lazy already in use), behaves like the original under `Get` and `GetOptional`.
`enc v ≠ "null"` is needed: a value whose JSON text is `null` comes back as the empty Lazy
(`C20_lazy_null_collapses`). -/
theorem C20_lazy_roundtrip (enc : α → Bytes) (dec : Bytes → Option α)
    (hcodec : ∀ v, dec (enc v) = some v) (hnn : ∀ v, enc v ≠ nullLit)
    (o : Option α) (recv : Lazy α) :
    let l : Lazy α := { fetcher := .gives o, emptySup := true }
    ∃ data, l.marshal (fun v => some (enc v)) = .ok data ∧
      (Lazy.unmarshal dec recv data).2 = true ∧
      (Lazy.unmarshal dec recv data).1.get = l.get ∧
      (Lazy.unmarshal dec recv data).1.getOptional = l.getOptional := by
  cases o with
  | none =>
    refine ⟨nullLit, rfl, ?_, ?_, ?_⟩ <;> simp [Lazy.unmarshal, Lazy.get, Lazy.getOptional]
  | some v =>
    refine ⟨enc v, rfl, ?_, ?_, ?_⟩ <;> simp [Lazy.unmarshal, Lazy.get, Lazy.getOptional, hnn v, hcodec v]

/-- A failing fetcher fails the marshalling (nothing is written). -/
theorem C20_lazy_marshal_error (enc : α → Option Bytes) (b : Bool) :
    Lazy.marshal enc ({ fetcher := .fails, emptySup := b } : Lazy α) = .err := rfl

/-- Why `enc v ≠ "null"` is assumed. -/
theorem C20_lazy_null_collapses (dec : Bytes → Option α) (recv : Lazy α) :
    (Lazy.unmarshal dec recv nullLit).1.getOptional = .ok none := by
  simp [Lazy.unmarshal, Lazy.getOptional]

/-- non-vacuity (value, empty), into the zero value of `Lazy` -/
example : (Lazy.unmarshal some ({ fetcher := .nilFn, emptySup := false } : Lazy Bytes) [0x34, 0x32]).1.get = .ok [0x34, 0x32] := by
  decide
example : (Lazy.unmarshal some ({ fetcher := .nilFn, emptySup := false } : Lazy Bytes) nullLit).1.get = .emptyErr := by
  decide

/-- D19 witness (repaired): with a value receiver the decoded value is lost and `Get` hits the nil fetcher. -/
theorem C20_witness_D19 :
    (Lazy.unmarshalValueReceiver some ({ fetcher := .nilFn, emptySup := false } : Lazy Bytes) [0x34, 0x32]).1.get = .panic := by
  decide

end lazy

/-! # Files -/
section files
open ShpanVerif.Model.FileScan ShpanVerif.Proofs.FileScan

/-! ## forward -/

theorem forwardGo_ok (limit : Nat) (ls : List Bytes) (h : ∀ l ∈ ls, l.length < limit) :
    forwardGo limit ls = (ls.map dropCR, none) := by
  induction ls with
  | nil => rfl
  | cons l ls ih =>
    have hl : ¬ limit ≤ l.length := by have := h l (by simp); omega
    simp only [forwardGo, hl, if_false, ih (fun l' hl' => h l' (by simp [hl']))]
    rfl

/-- **C20_forward_lines**: for every file whose raw lines are all shorter than the limit, the forward scan yields
exactly the file's lines, in order, without an error (any number of lines, any file size, with or without a
final newline, CRLF or LF). -/
theorem C20_forward_lines (limit : Nat) (f : Bytes) (h : ∀ l ∈ rawLines f, l.length < limit) :
    forwardScan limit f = (fileLines f, none) := by
  unfold forwardScan fileLines
  exact forwardGo_ok limit _ h

/-- The limit is real (F2, forward): a raw line of `limit` bytes or more makes the scan fail. -/
theorem C20_forward_too_long (limit : Nat) (f : Bytes) (h : ∃ l ∈ rawLines f, limit ≤ l.length) :
    (forwardScan limit f).2 = some .tooLong := by
  unfold forwardScan
  generalize rawLines f = ls at h
  induction ls with
  | nil => obtain ⟨l, hl, _⟩ := h; simp at hl
  | cons l ls ih =>
    by_cases hl : limit ≤ l.length
    · simp [forwardGo, hl]
    · obtain ⟨l', hl', hlen⟩ := h
      have : l' ∈ ls := by
        rcases mem_cons.mp hl' with rfl | h'
        · exact absurd hlen hl
        · exact h'
      simp only [forwardGo, hl, if_false]
      exact ih ⟨l', this, hlen⟩

/-- The lines of a file: an empty file has none, a final line without newline counts, a final newline does not open
another line. -/
example : fileLines [] = [] := by decide
example : fileLines [97, 13, 10, 98] = [[97], [98]] := by decide
example : fileLines [97, 10, 10] = [[97], []] := by decide
/-- non-vacuity of `C20_forward_lines` and the limit -/
example : forwardScan 5 [97, 98, 99, 13, 10, 10, 100] = ([[97, 98, 99], [], [100]], none) := by decide
example : forwardScan 4 [97, 10, 97, 98, 99, 100, 10] = ([[97]], some .tooLong) := by decide

/-! ## reverse -/

theorem rawLines_terminated (g0 : Bytes) : rawLines (g0 ++ [NL]) = splitNL g0 := by
  unfold rawLines
  have h : splitNL (g0 ++ [NL]) = splitNL g0 ++ [[]] := by
    have := splitNL_snoc (a := g0) (b := []) (by simp)
    simpa using this
  simp [h]

/-- The initial state of the scanner satisfies the invariant: nothing read (`P = f`), nothing pending. -/
theorem newScanner_LI (D M : Nat) (hD : 0 < D) (f : Bytes) :
    LI f M D (newScanner D M f.length) f [] := by
  unfold newScanner
  refine ⟨rfl, rfl, rfl, rfl, rfl, ⟨[], by simp⟩, rfl, Nat.le_refl _, Nat.le_refl _, ?_, by simp, ?_, ?_⟩
  · by_cases hf : f.length = 0
    · left; simp [hf]; omega
    · right; refine ⟨rfl, rfl, ?_⟩; simp only; split <;> omega
  · simp only; split <;> omega
  · intro hne
    have : 0 < f.length := length_pos_iff.mpr hne
    simp only; split <;> omega

/-- `reverseScan` is `reverseScanV false`: the scanner it starts from is `newScanner`. -/
theorem reverseScan_eq (D M : Nat) (f : Bytes) :
    reverseScan D M f =
      collect f (f.length + 2) (f.length + 2) (scan f (f.length + 2) (newScanner D M f.length)).1 := rfl

/-- The general statement: what `StreamFromFile(path, true)` yields for a newline-terminated file. -/
theorem reverseScan_terminated (D M : Nat) (hD : 0 < D) (g0 : Bytes) (hne : g0 ≠ [])
    (hsafe : (g0 ++ [NL]).length ≤ D ∨ ShortRuns M (g0 ++ [NL])) :
    reverseScan D M (g0 ++ [NL]) = (revSpec g0, none) := by
  generalize hf : g0 ++ [NL] = f at hsafe
  have hli := newScanner_LI D M hD f
  have hsafe0 : Safe M (newScanner D M f.length) f [] := by
    rcases hsafe with h | h
    · left; unfold newScanner; simp only; split <;> omega
    · right; simpa using h
  have hfuel : f.length - (newScanner D M f.length).start < f.length + 2 := by omega
  obtain ⟨h1, _, _⟩ := scanLoop_spec (f.length + 2) _ f [] hli hsafe0 hfuel
  obtain ⟨s1, P1, w1, hs1, _, hli1, hst1, hpw, hsafe1⟩ :=
    h1 g0 [] (by rw [← hf]; simp) (by simp) (Or.inl hne)
  have hscan : scan f (f.length + 2) (newScanner D M f.length) = (s1, true) := by
    rw [scan_eq_loop hli.notDone hli.noErr]; exact hs1
  have hlen : (P1 ++ w1).length + 2 ≤ f.length + 2 := by rw [hpw, ← hf]; simp
  rw [reverseScan_eq, hscan]
  simp only
  rw [collect_spec (f.length + 2) (by omega) (f.length + 2) s1 P1 w1 hli1 hst1 hsafe1 hlen, hpw]

/-- The file that is a single '\n' (one empty line): Open's discarded `Scan()` consumes it, nothing is yielded. -/
theorem reverseScan_single_NL (D M : Nat) (hD : 0 < D) : reverseScan D M [NL] = ([], none) := by
  have hli := newScanner_LI D M hD [NL]
  have hstart : (newScanner D M [NL].length).start = 1 := by
    unfold newScanner; simp only [length_singleton]; split <;> omega
  have hsafe0 : Safe M (newScanner D M [NL].length) [NL] [] := by
    left; rw [hstart]; simp
  obtain ⟨_, h2, _⟩ := scanLoop_spec ([NL].length + 2) _ [NL] [] hli hsafe0 (by rw [hstart]; simp)
  obtain ⟨s1, hs1, _, hdone, herr⟩ := h2 (Or.inr ⟨[], rfl, by simp, rfl⟩) (by simp)
  have hscan : scan [NL] ([NL].length + 2) (newScanner D M [NL].length) = (s1, true) := by
    rw [scan_eq_loop hli.notDone hli.noErr]; exact hs1
  rw [reverseScan_eq, hscan]
  exact collect_false (scan_done hdone) (by simpa using herr)

/-- **C20_reverse_lines** (all buffer sizes, with buffer growth; the code as repaired by commit 4d4d438): for every
default buffer size `D > 0`, every maximal token size `M`, every newline-terminated file whose first byte is not '\n'
(excludes F1) and that either fits the first buffer or whose '\n'-free stretches are shorter than `M/2 - 1` (excludes
F2; for the real `M = 65536`: raw lines up to 32766 bytes), the reverse scan yields exactly the file's lines (the
'\n' and at most one '\r' before it removed — the same lines the forward scan yields) in reverse order, without an
error.  No hypothesis on carriage returns: lines may start with '\r', end with several, or consist of them. -/
theorem C20_reverse_lines (D M : Nat) (hD : 0 < D) (x : UInt8) (xs : Bytes) (hx : x ≠ NL)
    (hsafe : (x :: xs ++ [NL]).length ≤ D ∨ ShortRuns M (x :: xs ++ [NL])) :
    asResult (reverseScan D M (x :: xs ++ [NL])) = .ok (fileLines (x :: xs ++ [NL])).reverse := by
  rw [reverseScan_terminated D M hD (x :: xs) (by simp) hsafe, revSpec_of_head hx]
  simp only [asResult, fileLines, map_reverse, rawLines_terminated]

/-- **C20_reverse_lines_single_read**: the special case the buffer holds the whole file (`bufSize ≥ file size`): no
hypothesis on the line lengths at all. -/
theorem C20_reverse_lines_single_read (D M : Nat) (hD : 0 < D) (x : UInt8) (xs : Bytes) (hx : x ≠ NL)
    (hfit : (x :: xs ++ [NL]).length ≤ D) :
    asResult (reverseScan D M (x :: xs ++ [NL])) = .ok (fileLines (x :: xs ++ [NL])).reverse :=
  C20_reverse_lines D M hD x xs hx (Or.inl hfit)

/-- **Both directions agree**: on the domain of `C20_reverse_lines` (and raw lines below the forward limit) the
reverse stream is the reversed forward stream — for every file, whatever carriage returns it holds. -/
theorem C20_reverse_is_reversed_forward (D M limit : Nat) (hD : 0 < D) (x : UInt8) (xs : Bytes) (hx : x ≠ NL)
    (hsafe : (x :: xs ++ [NL]).length ≤ D ∨ ShortRuns M (x :: xs ++ [NL]))
    (hlim : ∀ l ∈ rawLines (x :: xs ++ [NL]), l.length < limit) :
    asResult (reverseScan D M (x :: xs ++ [NL])) = .ok (forwardScan limit (x :: xs ++ [NL])).1.reverse := by
  rw [C20_reverse_lines D M hD x xs hx hsafe, C20_forward_lines limit _ hlim]

/-- The property as stated ("any line lengths and file size", no hypothesis at all — since commit 4d4d438 also none
on carriage returns), for reference.  It does NOT hold for the code; its ONLY counterexamples are the two known
findings: F1 (the file starts with '\n': `C20_reverse_full_statement_fails`, `C20_reverse_exact`) and F2 (a line too
long for the buffer cap: `C20_reverse_full_statement_fails_F2`); everywhere else it is proved
(`C20_reverse_full_statement_modulo_known`). -/
def C20_reverse_full_statement (D M : Nat) : Prop :=
  ∀ g0 : Bytes, asResult (reverseScan D M (g0 ++ [NL])) = .ok (fileLines (g0 ++ [NL])).reverse

/-- A '\n'-free prefix stays inside the first segment. -/
theorem splitNL_prefix_noNL (r y : Bytes) (hr : NL ∉ r) : ∃ s ss, splitNL (r ++ y) = (r ++ s) :: ss := by
  induction r with
  | nil =>
    cases h : splitNL y with
    | nil => exact absurd h (splitNL_ne_nil y)
    | cons s ss => exact ⟨s, ss, by simpa using h⟩
  | cons c r ih =>
    have hc : ¬ (c == NL) = true := by
      intro hc; have : c = NL := by simpa using hc
      exact hr (by simp [this])
    obtain ⟨s, ss, h⟩ := ih (fun hm => hr (mem_cons_of_mem _ hm))
    exact ⟨s, ss, by rw [cons_append, splitNL_cons, h]; simp [splitStep, hc]⟩

/-- Every '\n'-free stretch of `g` lies inside one segment. -/
theorem run_in_segment (x r y : Bytes) (hr : NL ∉ r) : ∃ l ∈ splitNL (x ++ r ++ y), r.length ≤ l.length := by
  induction x with
  | nil =>
    obtain ⟨s, ss, h⟩ := splitNL_prefix_noNL r y hr
    exact ⟨r ++ s, by simp [h], by simp⟩
  | cons c x ih =>
    obtain ⟨l, hl, hle⟩ := ih
    simp only [cons_append, splitNL_cons]
    by_cases hc : (c == NL) = true
    · exact ⟨l, by simp only [append_assoc] at hl; simp [splitStep, hc, hl], hle⟩
    · cases h : splitNL (x ++ (r ++ y)) with
      | nil => exact absurd h (splitNL_ne_nil _)
      | cons s ss =>
        simp only [append_assoc, h, mem_cons] at hl
        rcases hl with rfl | hl
        · exact ⟨c :: l, by simp [splitStep, hc, h], by simp; omega⟩
        · exact ⟨l, by simp [splitStep, hc, h, hl], hle⟩

/-- `ShortRuns` is a condition on the line lengths: it holds when every raw line (the segments between newlines,
'\r' included) has `length + 1 < M / 2`. -/
theorem shortRuns_of_lines (M : Nat) (g : Bytes) (h : ∀ l ∈ splitNL g, l.length + 1 < M / 2) : ShortRuns M g := by
  intro x r y hg hr
  obtain ⟨l, hl, hle⟩ := run_in_segment x r y hr
  have := h l (by rw [hg]; exact hl)
  omega

/-! ## non-vacuity and witnesses -/

/-- "abcdefghijkl\nxy\r\n\nq\n" = 'a' :: demoBody ++ "\n" -/
def demoBody : Bytes := [98, 99, 100, 101, 102, 103, 104, 105, 106, 107, 108, 10, 120, 121, 13, 10, 10, 113]

/-- "\ra\r\r\n\r\n\r\r\r\n\rxy\rz\r\n" = '\r' :: crBody ++ "\n": lines that start with '\r', end with two, are a lone
'\r' (CRLF-terminated: the line "\r\r"), hold one inside -/
def crBody : Bytes := [97, 13, 13, 10, 13, 10, 13, 13, 13, 10, 13, 120, 121, 13, 122, 13]

/-- `C20_reverse_lines` applies to a file five times the default buffer size 4, with a 12-byte line (the buffer has
to grow twice), a CRLF line and an empty line … -/
example : asResult (reverseScan 4 64 (97 :: demoBody ++ [NL])) = .ok (fileLines (97 :: demoBody ++ [NL])).reverse :=
  C20_reverse_lines 4 64 (by decide) 97 demoBody (by decide) (Or.inr (shortRuns_of_lines _ _ (by decide)))
/-- … and this is what it yields. -/
example : reverseScan 4 64 (97 :: demoBody ++ [NL]) =
    ([[113], [], [120, 121], [97, 98, 99, 100, 101, 102, 103, 104, 105, 106, 107, 108]], none) := by
  decide
/-- … and to a file full of stray carriage returns (4-byte buffer: tokens are cut across reads) … -/
example : asResult (reverseScan 4 64 (13 :: crBody ++ [NL])) = .ok (fileLines (13 :: crBody ++ [NL])).reverse :=
  C20_reverse_lines 4 64 (by decide) 13 crBody (by decide) (Or.inr (shortRuns_of_lines _ _ (by decide)))
/-- … whose lines are "\ra\r", "", "\r\r", "\rxy\rz": -/
example : reverseScan 4 64 (13 :: crBody ++ [NL]) =
    ([[13, 120, 121, 13, 122], [13, 13], [], [13, 97, 13]], none) ∧
    forwardScan 64 (13 :: crBody ++ [NL]) = ([[13, 97, 13], [], [13, 13], [13, 120, 121, 13, 122]], none) := by
  decide +kernel
/-- single read: the real buffer sizes -/
example : asResult (reverseScan 4096 65536 (97 :: demoBody ++ [NL])) = .ok (fileLines (97 :: demoBody ++ [NL])).reverse :=
  C20_reverse_lines_single_read 4096 65536 (by decide) 97 demoBody (by decide) (by decide)
example : asResult (reverseScan 4096 65536 (13 :: crBody ++ [NL])) = .ok (fileLines (13 :: crBody ++ [NL])).reverse :=
  C20_reverse_lines_single_read 4096 65536 (by decide) 13 crBody (by decide) (by decide)

/-- **F4 (repaired by commit 4d4d438) — witness on the scanner as it was**: with `bytes.Trim(…, "\r\n")` as token
function the file "\ra\r\r\n" (one line, "\ra\r") came out as "a" in reverse; "a\r\r\n\r\n" (lines "a\r", "") as "", "a";
the repaired scanner yields the file's lines.  Real buffer sizes. -/
theorem C20_witness_reverse_trim_all_cr :
    reverseScanTrimAll 4096 65536 [13, 97, 13, 13, 10] = ([[97]], none) ∧
    reverseScan 4096 65536 [13, 97, 13, 13, 10] = ([[13, 97, 13]], none) ∧
    fileLines [13, 97, 13, 13, 10] = [[13, 97, 13]] ∧
    reverseScanTrimAll 4096 65536 [97, 13, 13, 10, 13, 10] = ([[], [97]], none) ∧
    reverseScan 4096 65536 [97, 13, 13, 10, 13, 10] = ([[], [97, 13]], none) ∧
    fileLines [97, 13, 13, 10, 13, 10] = [[97, 13], []] := by decide +kernel

/-- The two token functions differ exactly on carriage returns at the ends: without any '\r' next to the ends
they agree (why the defect was invisible to generators whose line contents never hold a '\r'). -/
example : trim [10, 97, 13, 98, 13] = [97, 13, 98] ∧ trimLine [10, 97, 13, 98, 13] = [97, 13, 98] ∧
    trim [10, 13, 97, 13, 13] = [97] ∧ trimLine [10, 13, 97, 13, 13] = [13, 97, 13] ∧
    trimLine [10] = [] ∧ trimLine [10, 13] = [] ∧ trimLine [13] = [] ∧ trimLine [] = [] ∧ trimLine [10, 10] = [10] := by
  decide

/-- **F1 (known finding)**: with the real buffer sizes, the file "\na\n" (lines "", "a") yields only "a": the leading
empty line is lost. -/
theorem C20_witness_F1 :
    reverseScan 4096 65536 [10, 97, 10] = ([[97]], none) ∧ fileLines [10, 97, 10] = [[], [97]] := by decide

/-- … so the property as stated fails for the code. -/
theorem C20_reverse_full_statement_fails : ¬ C20_reverse_full_statement 4096 65536 := by
  intro h
  have := h [10, 97]
  revert this; decide

/-- In general: from a newline-terminated file starting with '\n' the first (empty) line is never yielded — one
element fewer than the file has lines (all buffer sizes for which the scan succeeds by `reverseScan_terminated`). -/
theorem C20_F1_general (D M : Nat) (hD : 0 < D) (xs : Bytes)
    (hsafe : (NL :: xs ++ [NL]).length ≤ D ∨ ShortRuns M (NL :: xs ++ [NL])) :
    (reverseScan D M (NL :: xs ++ [NL])).1.length + 1 = (fileLines (NL :: xs ++ [NL])).length := by
  rw [reverseScan_terminated D M hD (NL :: xs) (by simp) hsafe]
  simp only [fileLines, length_map, rawLines_terminated]
  have h : splitNL (NL :: xs) = [] :: splitNL xs := by simp [splitNL_cons, splitStep]
  simp [revSpec, h]

/-- **The property as stated holds outside the two known findings**: every newline-terminated file that does not start
with '\n' (not F1) and fits the first buffer or has short '\n'-free stretches (not F2). -/
theorem C20_reverse_full_statement_modulo_known (D M : Nat) (hD : 0 < D) (g0 : Bytes)
    (hF1 : (g0 ++ [NL]).head? ≠ some NL)
    (hF2 : (g0 ++ [NL]).length ≤ D ∨ ShortRuns M (g0 ++ [NL])) :
    asResult (reverseScan D M (g0 ++ [NL])) = .ok (fileLines (g0 ++ [NL])).reverse := by
  cases g0 with
  | nil => exact absurd rfl hF1
  | cons x xs =>
    have hx : x ≠ NL := by intro e; apply hF1; simp [e]
    exact C20_reverse_lines D M hD x xs hx hF2

/-- **Exactly F1**: among the newline-terminated files below the line-length bound (not F2), the reverse scan yields
the reversed lines if and only if the file does not start with '\n'. -/
theorem C20_reverse_exact (D M : Nat) (hD : 0 < D) (g0 : Bytes)
    (hF2 : (g0 ++ [NL]).length ≤ D ∨ ShortRuns M (g0 ++ [NL])) :
    asResult (reverseScan D M (g0 ++ [NL])) = .ok (fileLines (g0 ++ [NL])).reverse ↔
      (g0 ++ [NL]).head? ≠ some NL := by
  constructor
  · intro h hhead
    have hlen : (reverseScan D M (g0 ++ [NL])).1.length = (fileLines (g0 ++ [NL])).length := by
      have : (reverseScan D M (g0 ++ [NL])).2 = none := by
        cases he : (reverseScan D M (g0 ++ [NL])).2 with
        | none => rfl
        | some e => simp [asResult, he] at h
      simp only [asResult, this] at h
      have h' := Except.ok.inj h
      rw [h']; simp
    cases g0 with
    | nil =>
      rw [show ([] : Bytes) ++ [NL] = [NL] from rfl, reverseScan_single_NL D M hD] at hlen
      revert hlen; decide
    | cons x xs =>
      have hx : x = NL := by simpa using hhead
      subst hx
      have := C20_F1_general D M hD xs hF2
      omega
  · exact fun h => C20_reverse_full_statement_modulo_known D M hD g0 h hF2

/-- **F2 (known finding), reverse**: (default buffer 4, maximal token 8) a line of 8 bytes that is not the first line
fails with ErrTooLong; as the first line of the file it is read (the `rOffset == 0` branch needs no growth). -/
theorem C20_witness_F2_reverse :
    reverseScan 4 8 [120, 10, 97, 97, 97, 97, 97, 97, 97, 97, 10] = ([], some .tooLong) ∧
    reverseScan 4 8 [97, 97, 97, 97, 97, 97, 97, 97, 10] = ([[97, 97, 97, 97, 97, 97, 97, 97]], none) := by decide

/-- … the second counterexample class of the property as stated (a file that does not start with '\n'). -/
theorem C20_reverse_full_statement_fails_F2 : ¬ C20_reverse_full_statement 4 8 := by
  intro h
  have := h [120, 10, 97, 97, 97, 97, 97, 97, 97, 97]
  revert this; decide

/-- **F2, reverse, below the maximal token size**: (default buffer 4, maximal token 16) lines of 1, 8, 7 and 3 bytes:
every line is shorter than 16, yet the scan fails — once the buffer has its maximal size a pending partial line of
half the buffer or more cannot be shifted (`end < bufSize/2` fails) and cannot grow. This is why `C20_reverse_lines`
asks for `length + 1 < M / 2`. -/
theorem C20_witness_F2_reverse_half :
    reverseScan 4 16 [97, 10, 98, 98, 98, 98, 98, 98, 98, 98, 10, 99, 99, 99, 99, 99, 99, 99, 10, 100, 100, 100, 10]
      = ([[100, 100, 100], [99, 99, 99, 99, 99, 99, 99]], some .tooLong) := by decide

/-- F2, forward: see `C20_forward_too_long`. -/
example : forwardScan 8 [120, 10, 97, 97, 97, 97, 97, 97, 97, 97, 10] = ([[120]], some .tooLong) := by decide

/-- A file without a final newline, read in reverse, loses its last line (Open's initial `Scan()` throws the last
token away whatever it is) — the property only speaks about newline-terminated files. -/
example : reverseScan 100 100 [97, 10, 98] = ([[97]], none) := by decide

/-- Empty file: nothing, in both directions. -/
example : reverseScan 4096 65536 [] = ([], none) ∧ forwardScan 65536 [] = ([], none) := by decide

end files

/-! ## elements stay valid -/
section stable
open ShpanVerif.Model.FileScan ShpanVerif.Model.FileHeap

/-- **C20_elements_stable** (reverse direction: the repository's own scanner, modelled with its buffer arrays): for
every file, every default buffer size and maximal token size — also when the scan ends with an error — every element
collected from `StreamFromFile(path, true)`, read AFTER the whole stream was pulled, has the value it was yielded with
(`Emit` hands out `bytes.Clone` of the token: an array the scanner never writes to).
Forward direction: `bufio.Scanner` is not modelled operationally; there stability rests on the same `bytes.Clone`
and is checked on the real code only (stable flag of every file case). -/
theorem C20_elements_stable (D M : Nat) (f : Bytes) :
    elementsAfter true D M f = (reverseScan D M f).1 :=
  Proofs.FileHeap.elementsAfter_clone D M f

/-- **D20 witness (repaired)**: without the clone the elements are views into the buffer the scanner keeps
overwriting: "ab\ncd\nef\n" with a 4-byte buffer collects "bc","cd","ab" instead of "ef","cd","ab". -/
theorem C20_witness_D20 :
    elementsAfter false 4 64 [97, 98, 10, 99, 100, 10, 101, 102, 10] = [[98, 99], [99, 100], [97, 98]] ∧
    elementsAfter true 4 64 [97, 98, 10, 99, 100, 10, 101, 102, 10] = [[101, 102], [99, 100], [97, 98]] := by decide

/-- the views are right at the moment they are handed out: with a buffer that holds the whole file nothing is
overwritten and the unrepaired variant reads the same -/
example : elementsAfter false 100 100 [97, 98, 99, 10, 104, 105, 13, 10, 106, 10] = [[106], [104, 105], [97, 98, 99]] := by
  decide

end stable

end ShpanVerif.Props.C20
