/-
Full-strength statements of the sequential-pipeline properties (C01, C03, C04, C18) over the model
`ShpanVerif.Model.Pipe`.  They are `def … : Prop` here so that they stay visible and can never be
weakened silently; `Props/C01.lean` etc. prove `theorem C01_bracket : C01_statement` and so on
(or a `_partial` version, saying what is missing).

Reading guide: `consume fuel c p w` is one terminal operation (ConsumeWithErrAndCtx) of the operator object
`p` in world `w`; the world carries the fault plan (ANY single fault: error / io.EOF-as-error / panic(error)
/ panic(value) / cancel, at ANY call position), the cancellation flag, the open set and the sticky `bad`
flag (a resource opened while open, closed or pulled while not open).  `Res.oof`/`Outcome.oof` = the model
ran out of fuel; every statement is "out of fuel, or …", and `*_terminates` says enough fuel exists.
-/
import ShpanVerif.Model.PipeWF
import ShpanVerif.Spec.PipeSpec

namespace ShpanVerif.Props
open ShpanVerif.Model.Pipe ShpanVerif

/-- **C01**: for every pipeline (all operator compositions of the model), every terminal consumer, and every
world — i.e. every fault kind at every call position (Open, Emit, mapper, predicate, cluster factory,
consumer), with or without cancellation —, a materialisation that starts with the pipeline's resources
closed ends with them closed again, never having opened an open resource, closed a closed one or pulled a
closed one (`bad`): every successful Open is matched by exactly one Close, a failed or never attempted
Open by none, and all Closes have happened when the terminal returns. The operator object is `Closed`
again afterwards (so the statement applies to the next materialisation too). -/
def C01_statement : Prop :=
  ∀ (fuel : Nat) (c : Consumer) (p : Pipe) (w : World),
    Closed p → (ids p).Nodup → w.bad = false → (∀ r ∈ ids p, w.isOpen r = false) →
    (consume fuel c p w).1 = .oof ∨
      ((consume fuel c p w).2.2.bad = false ∧
       (∀ r, (consume fuel c p w).2.2.isOpen r = w.isOpen r) ∧
       Closed (consume fuel c p w).2.1)

/-- **C04**: for every pipeline built from the ordered operators whose list-level meaning is defined
(`Spec.eval p = some l`: cluster/merge inputs sorted, window parameters valid), in its initial (`Ready`)
state, in a fault-free world, every terminal delivers exactly the list-level meaning. (Limit(n)/FindFirst/
Page are pipelines themselves: `take n` = `.limit n 1 p`.) -/
def C04_statement : Prop :=
  ∀ (fuel : Nat) (c : Consumer) (p : Pipe) (l : List V) (w : World),
    Ready p → Spec.eval p = some l → w.Clean →
    (consume fuel c p w).1 = .oof ∨ (consume fuel c p w).1 = .ok l

/-- enough fuel exists (the model's recursion terminates on every pipeline) -/
def C04_terminates_statement : Prop :=
  ∀ (c : Consumer) (p : Pipe) (w : World), Ready p → w.Clean →
    ∃ fuel0, ∀ fuel, fuel0 ≤ fuel → (consume fuel c p w).1 ≠ .oof

/-- **C03 (surfacing)**: if the fault plan fires (its call position is reached) and the fault is not a
cancellation, the terminal returns an error whose root is the injected error (for a panic with a
non-error value: the recovered-value error) — never success, never another error. -/
def C03_surface_statement : Prop :=
  ∀ (fuel : Nat) (c : Consumer) (p : Pipe) (w : World) (pos : Nat) (k : FaultKind),
    w.fault = some (pos, k) → k ≠ .cancel → w.fired = false →
    (consume fuel c p w).1 = .oof ∨
      ((consume fuel c p w).2.2.fired = true →
        ∃ d, (consume fuel c p w).1 = .err (expectedRoot k) d)

/-- **C03 (prefix)**: whatever the fault (kind and position), the elements delivered before it are a prefix
of what the same materialisation delivers without the fault: nothing is invented, nothing reordered. -/
def C03_prefix_statement : Prop :=
  ∀ (fuel : Nat) (c : Consumer) (p : Pipe) (w : World) (pos : Nat) (k : FaultKind),
    w.fault = none →
    (consume fuel c p w).1 = .oof ∨ (consume fuel c p { w with fault := some (pos, k) }).1 = .oof ∨
      (consume fuel c p { w with fault := some (pos, k) }).1.delivered <+: (consume fuel c p w).1.delivered

/-- one earlier materialisation of a history: fuel, consumer, optional `Limit(n)` wrapper (early stop),
and an arbitrary world (any fault plan, cancellation) -/
structure PastRun where
  fuel : Nat
  consumer : Consumer
  take : Option Int
  world : World

/-- run a history on the operator object; `none` if the model ran out of fuel somewhere -/
def afterHistory : Pipe → List PastRun → Option Pipe
  | p, [] => some p
  | p, r :: rs =>
    match r.take with
    | none =>
      match consume r.fuel r.consumer p r.world with
      | (.oof, _, _) => none
      | (_, p', _) => afterHistory p' rs
    | some n =>
      match consume r.fuel r.consumer (.limit n 1 p) r.world with
      | (.oof, _, _) => none
      | (_, .limit _ _ p', _) => afterHistory p' rs
      | (_, _, _) => none

/-- **C18**: a stream over the reusable subset delivers its list-level meaning on every fault-free
materialisation, whatever the earlier materialisations of the same operator object were (any number, each
ended by exhaustion, early stop, any fault or cancellation). -/
def C18_statement : Prop :=
  ∀ (p p' : Pipe) (l : List V) (hist : List PastRun) (fuel : Nat) (c : Consumer) (w : World),
    Reusable p → Closed p → (ids p).Nodup → Spec.eval p = some l →
    (∀ r ∈ hist, r.world.bad = false ∧ ∀ x ∈ ids p, r.world.isOpen x = false) →
    afterHistory p hist = some p' → w.Clean →
    (consume fuel c p' w).1 = .oof ∨ (consume fuel c p' w).1 = .ok l

end ShpanVerif.Props
