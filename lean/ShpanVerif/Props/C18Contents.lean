/-
C18 for the static pipeline family over sources whose contents change between the materialisations (`srcv` of the case
grammar; `setSrc` / `setSrcAll` of Model/PipeSetSrc.lean, which the drivers use as `pipeAt`).

`C18_rematerialise` (Props/C18.lean) is about ONE description: every run sees the same contents.  Here every run of the
history may see different contents of any of its sources (`RunV.sets`), and so may the final run (`cs`):

    C18_rematerialise_any_contents : after ANY such history, a fault-free materialisation over contents `cs` delivers
                                     `Spec.eval` of the description with those contents

for every pipeline of the reusable shape (`Reusable`: src, lc, map, filter, concat, zip, merge, arbitrarily nested - not
limit / skip / window / cluster, whose closures keep state across materialisations).  Proof: `setSrc` on an operator
object changes only `xs` of the matching `src` nodes, so ids, `Reusable` and `Closed` are untouched
(Proofs/PipeSetSrc.lean) and it commutes with erasing operator state (`shape_setSrc`); every run keeps the description
(`consume_shape`) and leaves the object `Closed` (`C01_bracket`) - both through `afterHistory_inv` of Props/C18.lean; then
`Closed ∧ Reusable → Ready` and C04 (`C04_pipe`) for the final run.
-/
import ShpanVerif.Props.C18
import ShpanVerif.Proofs.PipeSetSrc

namespace ShpanVerif.Props.C18Contents
open ShpanVerif.Model.Pipe ShpanVerif ShpanVerif.Props ShpanVerif.Proofs.PipeShape ShpanVerif.Proofs.PipeSetSrc

/-- one earlier materialisation over changed contents: what the sources named in `sets` hold during it (the others keep
    what they held), then an arbitrary run (fuel, consumer, optional early stop, any world) -/
structure RunV where
  sets : List (Nat × List Int)
  run : PastRun

/-- run such a history on the operator object; `none` if the model ran out of fuel somewhere -/
def afterRuns : Pipe → List RunV → Option Pipe
  | p, [] => some p
  | p, r :: rs =>
    match afterHistory (setSrcAll r.sets p) [r.run] with
    | none => none
    | some p' => afterRuns p' rs

/-- the description after the history: every source holds what it was last set to -/
def contentsAfter : Pipe → List RunV → Pipe
  | p, [] => p
  | p, r :: rs => contentsAfter (setSrcAll r.sets p) rs

theorem contentsAfter_shape_congr : ∀ (rs : List RunV) {p q : Pipe}, shape p = shape q →
    shape (contentsAfter p rs) = shape (contentsAfter q rs)
  | [], _, _, h => h
  | r :: rs, _, _, h => contentsAfter_shape_congr rs (shape_setSrcAll_congr r.sets h)

/-- **C18 over changing contents, the full statement** -/
def C18_any_contents_statement : Prop :=
  ∀ (p p' : Pipe) (l : List V) (hist : List RunV) (cs : List (Nat × List Int)) (fuel : Nat) (c : Consumer) (w : World),
    Reusable p → Closed p → (ids p).Nodup →
    (∀ r ∈ hist, r.run.world.bad = false ∧ ∀ x ∈ ids p, r.run.world.isOpen x = false) →
    afterRuns p hist = some p' →
    Spec.eval (setSrcAll cs (contentsAfter p hist)) = some l → w.Clean →
    (consume fuel c (setSrcAll cs p') w).1 = .oof ∨ (consume fuel c (setSrcAll cs p') w).1 = .ok l

/-- every run of such a history leaves the operator object `Closed`, `Reusable`, with the same resource ids, and with the
    description of the original one with every source holding what it was last set to -/
theorem afterRuns_inv : ∀ (hist : List RunV) (p p' : Pipe), Reusable p → Closed p → (ids p).Nodup →
    (∀ r ∈ hist, r.run.world.bad = false ∧ ∀ x ∈ ids p, r.run.world.isOpen x = false) →
    afterRuns p hist = some p' →
    shape p' = shape (contentsAfter p hist) ∧ Closed p' ∧ Reusable p' ∧ ids p' = ids p
  | [], p, p', hre, hcl, _, _, h => by
      simp only [afterRuns, Option.some.injEq] at h; subst h
      exact ⟨rfl, hcl, hre, rfl⟩
  | r :: rs, p, p', hre, hcl, hn, hw, h => by
      have hid : ids (setSrcAll r.sets p) = ids p := ids_setSrcAll r.sets p
      have hcl1 : Closed (setSrcAll r.sets p) := (closed_setSrcAll r.sets p).mpr hcl
      have hre1 : Reusable (setSrcAll r.sets p) := (reusable_setSrcAll r.sets p).mpr hre
      have hr := hw r (by simp)
      simp only [afterRuns] at h
      cases h1 : afterHistory (setSrcAll r.sets p) [r.run] with
      | none => simp [h1] at h
      | some p1 =>
        simp only [h1] at h
        obtain ⟨hs1, hc1⟩ := C18.afterHistory_inv (setSrcAll r.sets p) (hid ▸ hn) [r.run] (setSrcAll r.sets p) p1 rfl hcl1
          (by intro r' hr'; simp only [List.mem_singleton] at hr'; subst hr'; exact ⟨hr.1, hid ▸ hr.2⟩) h1
        have hre2 : Reusable p1 := reusable_of_shape hs1 hre1
        have hid2 : ids p1 = ids p := (ids_eq_of_shape hs1).trans hid
        obtain ⟨a, b, c, d⟩ := afterRuns_inv rs p1 p' hre2 hc1 (hid2 ▸ hn)
          (fun r' hr' => by rw [hid2]; exact hw r' (by simp [hr'])) h
        refine ⟨?_, b, c, d.trans hid2⟩
        rw [a]
        exact contentsAfter_shape_congr rs hs1

/-- **C18_rematerialise_any_contents**: for every pipeline of the reusable shape (src, lc, map, filter, concat, zip,
merge, arbitrarily nested), after ANY history of materialisations of the one operator object - any number, each in any
world (any fault kind at any call position, cancelled or not), ended by exhaustion, early stop (`take`), failure or
cancellation, each over ANY contents of any of its sources - a fault-free materialisation over contents `cs` delivers
exactly `Spec.eval` of the description with those contents (sources not named in `cs` hold what they were last set to), or
the model runs out of fuel. -/
theorem C18_rematerialise_any_contents : C18_any_contents_statement := by
  intro p p' l hist cs fuel c w hre hcl hn hw hafter hev hclean
  obtain ⟨hs, hc', hre', _⟩ := afterRuns_inv hist p p' hre hcl hn hw hafter
  have hready : Ready (setSrcAll cs p') :=
    ready_of_closed_reusable _ ((closed_setSrcAll cs p').mpr hc') ((reusable_setSrcAll cs p').mpr hre')
  have hev' : Spec.eval (setSrcAll cs p') = some l := by
    rw [eval_eq_of_shape (shape_setSrcAll_congr cs hs)]; exact hev
  exact C04.C04_pipe fuel c _ l w hready hev' hclean

/-- the form the C04 / C18 drivers evaluate (`pipeAt p r` = `setSrcAll r.setSrcs p` on the ORIGINAL description): when
the final contents `cs` name every source that any earlier run has set, the result is `Spec.eval (setSrcAll cs p)` -/
theorem contentsAfter_absorbed (cs : List (Nat × List Int)) : ∀ (hist : List RunV) (p : Pipe),
    (∀ r ∈ hist, ∀ x ∈ r.sets.map (·.1), x ∈ cs.map (·.1)) →
    setSrcAll cs (contentsAfter p hist) = setSrcAll cs p
  | [], _, _ => rfl
  | r :: rs, p, h => by
      rw [contentsAfter, contentsAfter_absorbed cs rs _ (fun r' hr' => h r' (by simp [hr'])),
        setSrcAll_absorb_all cs r.sets p (h r (by simp))]

theorem C18_rematerialise_any_contents_pipeAt (p p' : Pipe) (l : List V) (hist : List RunV)
    (cs : List (Nat × List Int)) (fuel : Nat) (c : Consumer) (w : World)
    (hre : Reusable p) (hcl : Closed p) (hn : (ids p).Nodup)
    (hw : ∀ r ∈ hist, r.run.world.bad = false ∧ ∀ x ∈ ids p, r.run.world.isOpen x = false)
    (hafter : afterRuns p hist = some p')
    (hcover : ∀ r ∈ hist, ∀ x ∈ r.sets.map (·.1), x ∈ cs.map (·.1))
    (hev : Spec.eval (setSrcAll cs p) = some l) (hclean : w.Clean) :
    (consume fuel c (setSrcAll cs p') w).1 = .oof ∨ (consume fuel c (setSrcAll cs p') w).1 = .ok l :=
  C18_rematerialise_any_contents p p' l hist cs fuel c w hre hcl hn hw hafter
    (by rw [contentsAfter_absorbed cs hist p hcover]; exact hev) hclean

/-! ### non-vacuity -/

/-- `Merge(Map(+1)(src 0), Zip(src 1, src 2))`-like nest over three sources; here: merge of a mapped source and a concat -/
def exPipe : Pipe :=
  .merge (.cons (.map (.add 1) (.src 0 [1, 3] 0)) (.cons (.concat (.cons (.src 1 [2] 0) (.cons (.src 2 [4] 0) .nil)) 0 false false) .nil)) 0 none

/-- two earlier runs: source 0 holds `[10, 30]` and the run stops after one element; then source 1 holds `[2, 3]`, source 0
    `[0]`, and the run is hit by an error at call position 3 -/
def exHist : List RunV :=
  [ { sets := [(0, [10, 30])], run := { fuel := 100, consumer := .collect, take := some 1, world := {} } },
    { sets := [(1, [2, 3]), (0, [0])], run := { fuel := 100, consumer := .user, take := none, world := { fault := some (3, .err) } } } ]

theorem exPipe_ok : Reusable exPipe ∧ Closed exPipe ∧ (ids exPipe).Nodup := by
  refine ⟨by simp [exPipe, Reusable, ReusableList], by simp [exPipe, Closed, ClosedList], by decide⟩

theorem exHist_ok : ∀ r ∈ exHist, r.run.world.bad = false ∧ ∀ x ∈ ids exPipe, r.run.world.isOpen x = false := by
  intro r hr
  simp only [exHist, List.mem_cons, List.not_mem_nil, or_false] at hr
  rcases hr with rfl | rfl <;> exact ⟨rfl, fun _ _ => rfl⟩

/-- the history runs (no fuel problem) and its second run really fails -/
example : (afterRuns exPipe exHist).isSome = true := by decide +kernel

/-- the theorem applied: the final run over `0 ↦ [0, 4]` (source 1 still holds `[2, 3]` from the second run, source 2 its
    original `[4]`) delivers the merge of `[1, 5]` and `[2, 3, 4]` -/
example : ∀ p', afterRuns exPipe exHist = some p' → ∀ fuel,
    (consume fuel .collect (setSrcAll [(0, [0, 4])] p') {}).1 = .oof ∨
    (consume fuel .collect (setSrcAll [(0, [0, 4])] p') {}).1 = .ok [.int 1, .int 2, .int 3, .int 4, .int 5] := by
  intro p' h fuel
  exact C18_rematerialise_any_contents exPipe p' _ exHist [(0, [0, 4])] fuel .collect {} exPipe_ok.1 exPipe_ok.2.1
    exPipe_ok.2.2 exHist_ok h
    (by simp [exPipe, exHist, contentsAfter, setSrcAll, setSrc, setSrcList, Spec.eval, Spec.evalList, Spec.sortedBy,
          V.key, Fn.app, List.mergeSort, List.MergeSort.Internal.splitInTwo])
    ⟨rfl, rfl⟩

/-- … and that is what the model does on that run with plenty of fuel (not out of fuel) -/
example : (match afterRuns exPipe exHist with
           | some p' =>
             match (consume 100 .collect (setSrcAll [(0, [0, 4])] p') {}).1 with
             | .ok d => some d
             | _ => none
           | none => none) = some [.int 1, .int 2, .int 3, .int 4, .int 5] := by decide +kernel

/-- the drivers' form: `[(0, [0, 4]), (1, [7])]` names every source the history has set -/
example : ∀ r ∈ exHist, ∀ x ∈ r.sets.map (·.1), x ∈ ([(0, [0, 4]), (1, [7])] : List (Nat × List Int)).map (·.1) := by
  decide

end ShpanVerif.Props.C18Contents
