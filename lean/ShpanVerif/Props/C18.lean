/-
C18 — reusable streams re-materialise identically, whatever happened before.

`C18_from_C04 : C04_statement → C18_statement` derives the property from
  * C01 (`C01_bracket`): after ANY materialisation (any fault, cancellation, early stop) the operator
    object is `Closed` again,
  * shape preservation (`consume_shape`): a materialisation only changes operator state, never the
    description, so ids / reusability / list-level meaning are unchanged,
  * `Closed ∧ Reusable → Ready`: for the reusable subset every piece of state that survives `Close`
    (source index, merge look-ahead slots, concat cursor) is reset by the next `Open`,
  * C04 from a `Ready` state.
`C18_rematerialise : C18_statement` instantiates it with the proved `C04_pipe`.
-/
import ShpanVerif.Props.PipeStatements
import ShpanVerif.Props.C01
import ShpanVerif.Props.C04
import ShpanVerif.Proofs.PipeShapeFacts

namespace ShpanVerif.Props.C18
open ShpanVerif.Model.Pipe ShpanVerif ShpanVerif.Props ShpanVerif.Proofs.PipeShape

/-- every materialisation of a history keeps the description and leaves the operator object closed -/
theorem afterHistory_inv (p0 : Pipe) (hn : (ids p0).Nodup) :
    ∀ (hist : List PastRun) (p p' : Pipe),
      shape p = shape p0 → Closed p →
      (∀ r ∈ hist, r.world.bad = false ∧ ∀ x ∈ ids p0, r.world.isOpen x = false) →
      afterHistory p hist = some p' → shape p' = shape p0 ∧ Closed p'
  | [], p, p', hs, hc, _, h => by
      simp only [afterHistory, Option.some.injEq] at h; subst h; exact ⟨hs, hc⟩
  | r :: rs, p, p', hs, hc, hw, h => by
      have hidp : ids p = ids p0 := ids_eq_of_shape hs
      have hr := hw r (by simp)
      have hws : ∀ r' ∈ rs, r'.world.bad = false ∧ ∀ x ∈ ids p0, r'.world.isOpen x = false :=
        fun r' hr' => hw r' (by simp [hr'])
      simp only [afterHistory] at h
      split at h
      · -- plain materialisation
        split at h
        · simp at h
        · rename_i o p1 w1 hne heq
          have hsh : shape p1 = shape p := by
            have := consume_shape r.fuel r.consumer p r.world; rw [heq] at this; exact this
          have hcl : Closed p1 := by
            rcases C01.C01_bracket r.fuel r.consumer p r.world hc (hidp ▸ hn) hr.1 (hidp ▸ hr.2) with h1 | h1
            · rw [heq] at h1; exact absurd h1 (by simpa using hne)
            · rw [heq] at h1; exact h1.2.2
          exact afterHistory_inv p0 hn rs p1 p' (hsh.trans hs) hcl hws h
      · -- stopped early: a fresh Limit(n) wrapper around the same operator object
        rename_i n hn'
        split at h
        · simp at h
        · rename_i o n' c' p1 w1 hne heq
          have hsh' : shape (Pipe.limit n' c' p1) = shape (Pipe.limit n 1 p) := by
            have := consume_shape r.fuel r.consumer (.limit n 1 p) r.world; rw [heq] at this; exact this
          have hsh : shape p1 = shape p := by
            simp only [shape, Pipe.limit.injEq] at hsh'; exact hsh'.2.2
          have hcl : Closed p1 := by
            have hc' : Closed (.limit n 1 p) := by simpa [Closed] using hc
            have hid' : ids (.limit n 1 p) = ids p0 := by simpa [ids] using hidp
            rcases C01.C01_bracket r.fuel r.consumer (.limit n 1 p) r.world hc' (hid' ▸ hn) hr.1
              (hid' ▸ hr.2) with h1 | h1
            · rw [heq] at h1; exact absurd h1 (by simpa using hne)
            · rw [heq] at h1; simpa [Closed] using h1.2.2
          exact afterHistory_inv p0 hn rs p1 p' (hsh.trans hs) hcl hws h
        · simp at h

/-- **C18**, given C04: see the file header. -/
theorem C18_from_C04 (h4 : C04_statement) : C18_statement := by
  intro p p' l hist fuel c w hre hcl hn hev hw hafter hclean
  obtain ⟨hs, hc'⟩ := afterHistory_inv p hn hist p p' rfl hcl hw hafter
  have hre' : Reusable p' := reusable_of_shape hs hre
  have hev' : Spec.eval p' = some l := by rw [eval_eq_of_shape hs]; exact hev
  exact h4 fuel c p' l w (ready_of_closed_reusable p' hc' hre') hev' hclean

/-- **C18** (unconditional): C04 is proved. -/
theorem C18_rematerialise : C18_statement := C18_from_C04 C04.C04_pipe

/-- In the property's words, for the two-step history that exposed the merge look-ahead defect (D8):
after a materialisation that stopped after one element, the merged stream still delivers everything. -/
example :
    let p : Pipe := .merge (.cons (.src 0 [1, 3] 0) (.cons (.src 1 [2, 4] 0) .nil)) 0 none
    ∀ p', afterHistory p [{ fuel := 100, consumer := .collect, take := some 1, world := {} }] = some p' →
      ∀ fuel, (consume fuel .collect p' {}).1 = .oof ∨
        (consume fuel .collect p' {}).1 = .ok [.int 1, .int 2, .int 3, .int 4] := by
  intro p p' h fuel
  exact C18_rematerialise p p' [.int 1, .int 2, .int 3, .int 4] _ fuel .collect {}
    (by simp [p, Reusable, ReusableList]) (by simp [p, Closed, ClosedList]) (by decide)
    (by simp [p, Spec.eval, Spec.evalList, Spec.sortedBy, V.key, List.mergeSort, List.MergeSort.Internal.splitInTwo])
    (by intro r hr; simp at hr; subst hr; exact ⟨rfl, fun _ _ => rfl⟩) h ⟨rfl, rfl⟩

end ShpanVerif.Props.C18
