/-
C06 — concurrent map / concurrent consume equal the sequential results up to order; parallelism is bounded.

Models: `Model/ConcMap.lean` (stream/concurrent_stream.go inside one materialisation) and `Model/ConcConsume.lean`
(stream/shpan_stream_concurrent.go).  Every theorem is about ALL reachable states of the transition system, i.e. all
stream lengths `n`, all concurrency levels `c ≥ 1`, all interleavings of producer / workers / consumer and all orders
in which the in-flight mapper (consumer) calls complete.  "Failure-free" is a condition on the *history* (ghost flags
`ctx0`, `faulted`, `stopped` never set), not a different system: bounds and "never twice, never invented" hold for
every history.

  concurrent map
  * `C06_parallelism`        never more than `c` mapper calls in flight            (every history)
  * `C06_chan_bounds`        |srcChan| ≤ c, |tgtChan| ≤ c                            (every history)
  * `C06_at_most_once`       no element is duplicated or invented anywhere in the stage; the mapper is invoked at
                             most once per source element                           (every history)
  * `C06_conservation`       failure-free: every pulled element is at exactly one place
                             (producer's hand / srcChan / in a mapper / held result / tgtChan / delivered)
  * `C06_eof_after_all`      failure-free: tgtChan is closed only after the source reached EOF, srcChan is closed and
                             drained and no worker holds an element; EOF reaches the consumer only with tgtChan empty too
  * `C06_exactly_once`       failure-free, terminal returned nil: delivered ~ map f source (as a permutation) and the
                             mapper was invoked exactly once per source element
  concurrent consume
  * `C06_consume_parallelism`, `C06_consume_chan_bound`, `C06_consume_at_most_once`   (every history)
  * `C06_consume_exactly_once` failure-free, terminal returned nil: the callback was invoked exactly once per element
                             (invocations ~ source as a permutation) and no invocation is still running
-/
import ShpanVerif.Proofs.ConcMapLive
import ShpanVerif.Proofs.ConcConsumeLive

namespace ShpanVerif.Props.C06
open ShpanVerif.Model.Conc
open ShpanVerif.Model
open ShpanVerif.Proofs

/-! ### list facts -/

theorem count_range (i n : Nat) : (List.range n).count i = if i < n then 1 else 0 := by
  induction n with
  | zero => simp
  | succ k ih =>
    rw [List.range_succ, List.count_append, ih]
    simp only [List.count_cons, List.count_nil, beq_iff_eq]
    grind

theorem perm_range_of_count {l : List Nat} {n : Nat} (h : ∀ i, l.count i = if i < n then 1 else 0) :
    l.Perm (List.range n) := by
  rw [List.perm_iff_count]
  intro i
  rw [h i, count_range]

/-- The values behind a list of source indices. -/
def valuesAt {α β : Type} (src : List α) (f : α → β) (idx : List Nat) : List β :=
  idx.filterMap (fun i => (src[i]?).map f)

theorem valuesAt_range'_aux {α β : Type} (f : α → β) : ∀ (ys xs : List α),
    (List.range' xs.length ys.length).filterMap (fun i => ((xs ++ ys)[i]?).map f) = ys.map f := by
  intro ys
  induction ys with
  | nil => intro xs; simp
  | cons y ys ih =>
    intro xs
    have h := ih (xs ++ [y])
    simp only [List.length_append, List.length_cons, List.length_nil, Nat.zero_add, List.append_assoc,
      List.cons_append, List.nil_append] at h
    simp only [List.length_cons, List.range'_succ, List.map_cons]
    rw [List.filterMap_cons]
    simp [h]

theorem valuesAt_range {α β : Type} (src : List α) (f : α → β) :
    valuesAt src f (List.range src.length) = src.map f := by
  have := valuesAt_range'_aux f src []
  simpa [valuesAt, List.range_eq_range'] using this

theorem valuesAt_perm {α β : Type} (src : List α) (f : α → β) {l : List Nat}
    (h : l.Perm (List.range src.length)) : (valuesAt src f l).Perm (src.map f) := by
  rw [← valuesAt_range]
  exact h.filterMap _

/-! ### concurrent map -/
section concmap
open ShpanVerif.Model.ConcMap ShpanVerif.Proofs.ConcMap

variable {cfg : ConcMap.Cfg} {s : ConcMap.St}

/-- At no moment are more than `c` mapper invocations in flight — under every schedule, fault and cancellation. -/
theorem C06_parallelism (hr : Reachable (ConcMap.sys cfg) s) : s.wMap.length ≤ cfg.c := by
  have := (ConcMap.basic hr).workers
  omega

theorem C06_chan_bounds (hr : Reachable (ConcMap.sys cfg) s) :
    s.srcChan.length ≤ cfg.c ∧ s.tgtChan.length ≤ cfg.c :=
  ⟨(ConcMap.basic hr).srcCap, (ConcMap.basic hr).tgtCap⟩

/-- Nothing is duplicated or invented (every history): each source index occurs at most once over all places of the
    stage, never before it was pulled; and the mapper is invoked at most once per index. -/
theorem C06_at_most_once (hr : Reachable (ConcMap.sys cfg) s) (i : Nat) :
    ConcMap.cnt i s ≤ (if i < s.cursor then 1 else 0) ∧ s.mapCalls.count i ≤ (if i < s.cursor then 1 else 0) := by
  have h := ConcMap.atMostOnce hr
  have h1 := h.le i
  have h2 := h.mapped i
  exact ⟨h1, by omega⟩

/-- Failure-free histories conserve elements: every pulled index is at exactly one place. -/
theorem C06_conservation (hr : Reachable (ConcMap.sys cfg) s) (hff : ConcMap.FF s) (i : Nat) :
    ConcMap.cnt i s = if i < s.cursor then 1 else 0 :=
  (ConcMap.exact hr hff).cons i

/-- Failure-free: `tgtChan` is closed only when the source reached EOF, `srcChan` is closed and drained, every worker
    has exited holding nothing; if moreover the terminal got its result, `tgtChan` is empty and the result is `nil`. -/
theorem C06_eof_after_all (hc : 0 < cfg.c) (hr : Reachable (ConcMap.sys cfg) s) (hff : ConcMap.FF s)
    (hcl : s.tgtClosed = true) :
    s.cursor = cfg.n ∧ s.eof = true ∧ s.srcChClosed = true ∧ s.srcChan = [] ∧ s.wMap = [] ∧ s.wHold = [] ∧
      s.wExit = cfg.c ∧ (s.res ≠ none → s.tgtChan = [] ∧ s.res = some .ok) := by
  have hb := ConcMap.basic hr
  have he := ConcMap.exact hr hff
  have hdone : s.prod = .done := hb.tgtCl.mp hcl
  have hex : s.wExit = cfg.c := hb.done_exit hdone
  have hw := hb.workers
  have heof : s.eof = true := he.prod_eof (Or.inr (Or.inr (Or.inr hdone)))
  refine ⟨(hb.eof_cursor heof).1, heof, hb.srcCh.mpr (Or.inr hdone), (he.exit_closed (by omega)).2,
    List.eq_nil_of_length_eq_zero (by omega), List.eq_nil_of_length_eq_zero (by omega), hex, ?_⟩
  intro hres
  exact ⟨(he.closing_done hres).2.1, (he.closing_done hres).2.2⟩

/-- Failure-free and the terminal's result is decided: it is `nil`, the delivered indices are a permutation of
    `0..n-1`, and the mapper was invoked exactly once per index. -/
theorem C06_exactly_once_idx (hc : 0 < cfg.c) (hr : Reachable (ConcMap.sys cfg) s) (hff : ConcMap.FF s)
    (hres : s.res ≠ none) :
    s.res = some .ok ∧ s.delivered.Perm (List.range cfg.n) ∧ s.mapCalls.Perm (List.range cfg.n) := by
  have hb := ConcMap.basic hr
  have he := ConcMap.exact hr hff
  obtain ⟨hdone, htg, hok⟩ := he.closing_done hres
  obtain ⟨hcur, _, _, hsc, hm, hh, _, _⟩ := C06_eof_after_all hc hr hff (hb.tgtCl.mpr hdone)
  have hcount : ∀ i, s.delivered.count i = if i < cfg.n then 1 else 0 := by
    intro i
    have := he.cons i
    simpa [ConcMap.cnt, ConcMap.inHand, hdone, hsc, hm, hh, htg, hcur] using this
  refine ⟨hok, perm_range_of_count hcount, perm_range_of_count ?_⟩
  intro i
  have := he.mapped i
  simp only [hm, hh, htg, List.count_nil, ConcMap.cntItems_nil, Nat.zero_add] at this
  rw [this, hcount i]

/-- **C06 for the concurrent map**, in terms of values: for every source list, mapper `f`, concurrency `c ≥ 1` and
    every schedule without failure, cancellation or early stop, when the terminal has its result the delivered values
    are exactly the multiset `map f source`. -/
theorem C06_exactly_once {α β : Type} (src : List α) (f : α → β) (hc : 0 < cfg.c) (hn : cfg.n = src.length)
    (hr : Reachable (ConcMap.sys cfg) s) (hff : ConcMap.FF s) (hres : s.res ≠ none) :
    s.res = some .ok ∧ (valuesAt src f s.delivered).Perm (src.map f) ∧ s.mapCalls.Perm (List.range src.length) := by
  obtain ⟨h1, h2, h3⟩ := C06_exactly_once_idx hc hr hff hres
  exact ⟨h1, valuesAt_perm src f (hn ▸ h2), hn ▸ h3⟩

/-- Non-vacuity: a complete failure-free schedule for n = 2, c = 1 (the second element overtakes nothing, both are
    mapped and delivered, EOF is seen, the terminal returns): the hypotheses of `C06_exactly_once` are met. -/
def demoSchedule : List ConcMap.Label :=
  [.pTop, .pEmitVal, .pSend, .wRecv, .pTop, .pEmitVal, .pSend, .wMapOk 0, .wSend (.val 0), .cCheck, .cRecv, .cNext,
   .wRecv, .wMapOk 1, .wSend (.val 1), .pTop, .pEmitEof, .pStop, .pCloseSrc, .wExitClosed, .pWait, .cCheck, .cRecv, .cNext,
   .cCheck, .cClosed, .cClose0, .cCloseW, .cCloseP, .cClose1, .cClose2]

example : ∃ s, Reachable (ConcMap.sys { n := 2, c := 1 }) s ∧
    (!s.ctx0 && !s.faulted && !s.stopped && s.res == some .ok && s.delivered == [0, 1] &&
      ConcMap.final { n := 2, c := 1 } s) = true :=
  checkRun_reachable (ls := demoSchedule) (by decide)

end concmap

/-! ### concurrent consume -/
section consume
open ShpanVerif.Model.ConcConsume ShpanVerif.Proofs.ConcConsume

variable {cfg : ConcConsume.Cfg} {s : ConcConsume.St}

theorem C06_consume_parallelism (hr : Reachable (ConcConsume.sys cfg) s) : s.wCb.length ≤ cfg.c := by
  have := (ConcConsume.basic hr).workers
  omega

theorem C06_consume_chan_bound (hr : Reachable (ConcConsume.sys cfg) s) : s.ch.length ≤ cfg.c :=
  (ConcConsume.basic hr).cap

/-- The callback is invoked at most once per element and never for an invented one (every history). -/
theorem C06_consume_at_most_once (hr : Reachable (ConcConsume.sys cfg) s) (i : Nat) :
    s.called.count i ≤ if i < s.cursor then 1 else 0 := by
  have := (ConcConsume.atMostOnce hr).le i
  simp only [ConcConsume.cnt] at this
  omega

/-- **C06 for concurrent consume**: failure-free and the terminal's result decided ⇒ the result is `nil`, the callback
    was invoked exactly once per source element and no invocation is still running. -/
theorem C06_consume_exactly_once (hc : 0 < cfg.c) (hr : Reachable (ConcConsume.sys cfg) s) (hff : ConcConsume.FF s)
    (hres : s.res ≠ none) :
    s.res = some .ok ∧ s.called.Perm (List.range cfg.n) ∧ s.wCb = [] := by
  have hb := ConcConsume.basic hr
  have he := ConcConsume.exact hr hff
  have ht1 : s.term ≠ .waitWg := fun h => hres (hb.res_iff.mpr (Or.inl h))
  have ht2 : s.term ≠ .waitProd := fun h => hres (hb.res_iff.mpr (Or.inr (Or.inl h)))
  have hdone := hb.term_prod ht1 ht2
  have hex := hb.term_wg ht1
  obtain ⟨hall, hcb⟩ := complete_of_joined hc hb he hdone hex
  have hok : s.res = some .ok := he.res_ok hres
  refine ⟨hok, perm_range_of_count ?_, hcb⟩
  intro i
  by_cases hi : i < cfg.n
  · simp [hi, hall i hi]
  · have := C06_consume_at_most_once hr i
    have hcur : s.cursor = cfg.n := he.prod_eof (Or.inr hdone)
    simp only [hcur, hi, ↓reduceIte] at this
    simp only [hi, ↓reduceIte]
    omega

end consume

end ShpanVerif.Props.C06
