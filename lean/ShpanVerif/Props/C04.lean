/-
C04 — ordered operators and terminals agree with the in-memory list model.

Main theorem (all operator compositions of the model, both consumers, any fuel):
  * `C04_pipe : C04_statement` — a pipeline in its initial state whose list-level meaning is defined
    (`Spec.eval p = some l`) delivers, in a fault-free world, exactly `l` (or the model is out of fuel).

Per-operator corollaries in the property's words (each for an ARBITRARY sub pipeline `p` with meaning `l`,
so they hold under every composition): `C04_filter_map`, `C04_limit`, `C04_skip`, `C04_page`,
`C04_findFirst`, `C04_concat`, `C04_zip`, `C04_merge`, `C04_window` (+ `C04_window_which`,
`C04_window_full_length`), `C04_cluster` (+ `C04_cluster_partition`, `C04_cluster_outputs`,
`C04_cluster_prev_is_true_last`), `C04_terminals`.

Termination: `C04_terminates : C04_terminates_statement` (enough fuel exists; count-only invariant `Term`,
Proofs/PipeC04Term*.lean) and `C04_total` (from some fuel on the terminal returns exactly `ok l`).

Proof architecture (Proofs/PipeC04*.lean): a structural invariant `Den p l` ("the opened operator state `p`
will yield exactly `l` and then EOF for ever"), preserved by every provider call (`emitOK_all`), established
by Open (`openOK_all`); both proved simultaneously by induction on fuel over the whole mutual block.
-/
import ShpanVerif.Props.PipeStatements
import ShpanVerif.Proofs.PipeC04Main
import ShpanVerif.Proofs.PipeC04Spec
import ShpanVerif.Proofs.PipeC04TermMain

namespace ShpanVerif.Props.C04
open ShpanVerif.Model.Pipe ShpanVerif ShpanVerif.Proofs.PipeC04

/-- **C04** (full statement). -/
theorem C04_pipe : ShpanVerif.Props.C04_statement :=
  fun fuel c p l w hr he hw => consume_ok fuel c p l w hr he hw

/-- **C04, termination** (full statement): enough fuel exists. Proved without using `Ready` and without any
    precondition on the operators: `consume_terminates` holds for every operator object in every clean world
    (unsorted cluster input / invalid window parameters end in a library error, which is not `oof`). -/
theorem C04_terminates : ShpanVerif.Props.C04_terminates_statement :=
  fun c p w _ hw => consume_terminates c p w hw

/-- the two together, without fuel in the conclusion: from some fuel on the terminal returns `ok l` -/
theorem C04_total (c : Consumer) (p : Pipe) (l : List V) (w : World)
    (hr : Ready p) (he : Spec.eval p = some l) (hw : w.Clean) :
    ∃ fuel0, ∀ fuel, fuel0 ≤ fuel → (consume fuel c p w).1 = .ok l := by
  obtain ⟨fuel0, h⟩ := C04_terminates c p w hr hw
  refine ⟨fuel0, fun fuel hf => ?_⟩
  rcases C04_pipe fuel c p l w hr he hw with h' | h'
  · exact absurd h' (h fuel hf)
  · exact h'

/-- the shape all corollaries have: out of fuel, or success with exactly `l` delivered -/
def Delivers (fuel : Nat) (c : Consumer) (p : Pipe) (w : World) (l : List V) : Prop :=
  (consume fuel c p w).1 = .oof ∨ (consume fuel c p w).1 = .ok l

theorem delivers_of_eval {fuel : Nat} {c : Consumer} {p : Pipe} {w : World} {l : List V}
    (hr : Ready p) (he : Spec.eval p = some l) (hw : w.Clean) : Delivers fuel c p w l :=
  C04_pipe fuel c p l w hr he hw

section corollaries
variable (fuel : Nat) (c : Consumer) (w : World) (hw : w.Clean)
include hw

/-- Map after Filter = `List.map` after `List.filter` -/
theorem C04_filter_map (f : Fn) (g : Pred) (p : Pipe) (l : List V) (hr : Ready p) (he : Spec.eval p = some l) :
    Delivers fuel c (.map f (.filter g p)) w ((l.filter g.app).map f.app) :=
  delivers_of_eval (by simpa [Ready] using hr) (by simp [Spec.eval, he]) hw

/-- `Limit(n)` = the first `n` elements (none for `n ≤ 0`) -/
theorem C04_limit (n : Int) (p : Pipe) (l : List V) (hr : Ready p) (he : Spec.eval p = some l) :
    Delivers fuel c (.limit n 1 p) w (l.take n.toNat) := by
  refine delivers_of_eval (by simpa [Ready] using hr) ?_ hw
  rw [Spec.eval, he]
  by_cases hn : n ≤ 0
  · have : n.toNat = 0 := by omega
    simp [hn, this]
  · simp [hn]

/-- `Skip(n)` = all but the first `n` elements -/
theorem C04_skip (n : Nat) (p : Pipe) (l : List V) (hr : Ready p) (he : Spec.eval p = some l) :
    Delivers fuel c (.skip n false p) w (l.drop n) :=
  delivers_of_eval (by simpa [Ready] using hr) (by simp [Spec.eval, he]) hw

/-- `Page(off, size)` = Skip then Limit, also beyond the end -/
theorem C04_page (off : Nat) (size : Int) (p : Pipe) (l : List V) (hr : Ready p) (he : Spec.eval p = some l) :
    Delivers fuel c (.limit size 1 (.skip off false p)) w ((l.drop off).take size.toNat) := by
  have hr' : Ready (.skip off false p) := by simpa [Ready] using hr
  have he' : Spec.eval (.skip off false p) = some (l.drop off) := by simp [Spec.eval, he]
  exact C04_limit fuel c w hw size _ _ hr' he'

/-- `FindFirst` (= `Limit(1)`) delivers the head, if any -/
theorem C04_findFirst (p : Pipe) (l : List V) (hr : Ready p) (he : Spec.eval p = some l) :
    Delivers fuel c (.limit 1 1 p) w l.head?.toList := by
  have := C04_limit fuel c w hw 1 p l hr he
  cases l <;> simpa using this

/-- `ConcatStreams` = concatenation, in order, each input exactly once -/
theorem C04_concat (ps : PipeList) (ls : List (List V)) (hr : ReadyList ps) (he : Spec.evalList ps = some ls) :
    Delivers fuel c (.concat ps 0 false false) w ls.flatten :=
  delivers_of_eval (by simpa [Ready] using hr) (by simp [Spec.eval, he]) hw

/-- `ZipN` = one row per index present in every input (`Spec.zipRows`, see `C04_zip_rows`) -/
theorem C04_zip (ps : PipeList) (ls : List (List V)) (hr : ReadyList ps) (he : Spec.evalList ps = some ls) :
    Delivers fuel c (.zip ps 0) w (Spec.zipRows ls) :=
  delivers_of_eval (by simpa [Ready] using hr) (by simp [Spec.eval, he]) hw

/-- `MergeSortedStreams` inside a pipeline = stable sort of the concatenation (inputs sorted by key) -/
theorem C04_merge (ps : PipeList) (ls : List (List V)) (hr : ReadyList ps) (he : Spec.evalList ps = some ls)
    (hs : ls.all (Spec.sortedBy V.key) = true) :
    Delivers fuel c (.merge ps 0 none) w (ls.flatten.mergeSort (fun a b => a.key ≤ b.key)) :=
  delivers_of_eval (by simpa [Ready] using hr) (by simp [Spec.eval, he, hs]) hw

/-- `Window(size, step, omitLastPartial)` (valid parameters) emits `Spec.windows` of the source,
    each window flattened; which windows these are: `C04_window_which`. -/
theorem C04_window (s st : Nat) (o : Bool) (p : Pipe) (l : List V) (hp : windowParamsOk s st = true)
    (hr : Ready p) (he : Spec.eval p = some l) :
    Delivers fuel c (.window s st o [] false false p) w
      ((Spec.windows s st o (l.length + 1) l).map (fun x => V.arr (x.flatMap V.flat))) :=
  delivers_of_eval (by simpa [Ready] using hr) (by simp [Spec.eval, he, hp]) hw

/-- `ClusterSortedStream` over a classifier-sorted source: one output per maximal run of equal
    classifier, for EVERY factory (`first`, `sum`, `firstk j` for every `j`, `none`, `firstprev`), i.e.
    however little of its cluster the factory consumed. What the outputs are: `C04_cluster_outputs`. -/
theorem C04_cluster (k : Int) (fac : Fac) (nxt : Option V) (cls : Int) (p : Pipe) (l : List V) (hk : 0 < k)
    (hs : Spec.sortedBy (classify k) l = true) (hr : Ready p) (he : Spec.eval p = some l) :
    Delivers fuel c (.cluster k fac nxt cls none false p) w (Spec.clusterOut k fac none (Spec.runs k l)) :=
  delivers_of_eval (by simpa [Ready] using hr) (by simp [Spec.eval, he, hk, hs]) hw

/-- terminals: whatever is computed from the delivered elements (Count = `length`, FindLast = `getLast?`,
    IsEmpty, Reduce = `foldl`, collectors, …) equals the same function of the list-level meaning -/
theorem C04_terminals {β : Type} (t : List V → β) (p : Pipe) (l : List V) (hr : Ready p) (he : Spec.eval p = some l) :
    (consume fuel c p w).1 = .oof ∨ t (consume fuel c p w).1.delivered = t l := by
  rcases C04_pipe fuel c p l w hr he hw with h | h
  · exact Or.inl h
  · exact Or.inr (by rw [h]; rfl)

end corollaries

/-! ### what the list-level results are, in the property's words -/

/-- **Window**: window `i` is the run of `size` elements starting at source index `i * step` while a full
    run is available; the first position with fewer than `size` elements left contributes the non-empty
    leftovers iff partial windows are not omitted and `step ≠ 1`; nothing else is emitted. -/
theorem C04_window_which (s st : Nat) (o : Bool) (hp : windowParamsOk s st = true) (l : List V) (i : Nat) :
    (Spec.windows s st o (l.length + 1) l)[i]? =
      if s ≤ (l.drop (i * st)).length then some ((l.drop (i * st)).take s)
      else if (i = 0 ∨ s ≤ (l.drop ((i - 1) * st)).length) ∧ l.drop (i * st) ≠ [] ∧ o = false ∧ st ≠ 1
        then some (l.drop (i * st))
      else none := by
  obtain ⟨hs, hst, _⟩ := (windowParamsOk_iff s st).mp hp
  exact windows_getElem? s st o hs hst _ l (Nat.lt_succ_self _) i

/-- every window except possibly the last one has exactly `size` elements -/
theorem C04_window_full_length (s st : Nat) (o : Bool) (hp : windowParamsOk s st = true) (l : List V) (i : Nat)
    (x x' : List V) (h : (Spec.windows s st o (l.length + 1) l)[i]? = some x)
    (h' : (Spec.windows s st o (l.length + 1) l)[i + 1]? = some x') : x.length = s := by
  obtain ⟨hs, hst, _⟩ := (windowParamsOk_iff s st).mp hp
  exact windows_length_of_not_last s st o hs hst l i x x' h h'

/-- **Cluster, partition**: the runs are non-empty, concatenate to the source (every element in exactly one
    cluster, order kept), are constant in the classifier, and maximal (the next run starts with a
    different classifier). -/
theorem C04_cluster_partition (k : Int) (l : List V) :
    (Spec.runs k l).flatten = l ∧
    (∀ g ∈ Spec.runs k l, g ≠ []) ∧
    (∀ g ∈ Spec.runs k l, ∀ a ∈ g.head?, ∀ b ∈ g, classify k b = classify k a) ∧
    (∀ (i : Nat) g g', (Spec.runs k l)[i]? = some g → (Spec.runs k l)[i+1]? = some g' →
      ∀ a ∈ g.head?, ∀ b ∈ g'.head?, classify k b ≠ classify k a) :=
  ⟨runs_flatten k l, runs_ne_nil k l, runs_same_class k l, runs_maximal k l⟩

/-- **Cluster, outputs**: one output per run; output `i` is the factory's result on (classifier of run `i`,
    the part of run `i` the factory asked for, `prev`) where `prev` is nothing for the first run and
    otherwise the last element of run `i-1` (see `C04_cluster_prev_is_true_last`). -/
theorem C04_cluster_outputs (k : Int) (fac : Fac) (l : List V) (i : Nat) :
    (Spec.clusterOut k fac none (Spec.runs k l)).length = (Spec.runs k l).length ∧
    (Spec.clusterOut k fac none (Spec.runs k l))[i]? =
      (Spec.runs k l)[i]?.map (fun g =>
        facResult fac (match g with | x :: _ => classify k x | [] => 0) (takeWant (facWant fac) g)
          (if i = 0 then none else ((Spec.runs k l)[i-1]?.bind List.getLast?))) :=
  ⟨clusterOut_length k fac _ none, clusterOut_getElem? k fac _ none i⟩

/-- **Cluster, previous item**: with the factory that reports (first element of its cluster, previous item),
    output `i+1` carries the TRUE LAST element of run `i` — although that factory read only the first
    element of run `i`. -/
theorem C04_cluster_prev_is_true_last (k : Int) (l : List V) (i : Nat) (g g' : List V) (x y : V)
    (hg : (Spec.runs k l)[i]? = some g) (hg' : (Spec.runs k l)[i+1]? = some g')
    (hx : g'.head? = some x) (hy : g.getLast? = some y) :
    (Spec.clusterOut k .firstprev none (Spec.runs k l))[i+1]? = some (.arr (x.flat ++ y.flat)) := by
  rw [(C04_cluster_outputs k .firstprev l (i+1)).2, hg']
  simp only [Option.map_some, Nat.add_one_ne_zero, if_false, Nat.add_sub_cancel, hg, Option.bind_some, hy]
  cases g' with
  | nil => simp at hx
  | cons a t =>
    simp only [List.head?_cons, Option.some.injEq] at hx
    subst hx
    simp [facResult, facWant, takeWant]

/-- the same for a factory that reads only the first `j` elements of its cluster (any `j`), and sums them -/
theorem C04_cluster_prev_firstk (k : Int) (j : Int) (l : List V) (i : Nat) (g g' : List V) (y : V)
    (hg : (Spec.runs k l)[i]? = some g) (hg' : (Spec.runs k l)[i+1]? = some g') (hy : g.getLast? = some y) :
    (Spec.clusterOut k (.firstk j) none (Spec.runs k l))[i+1]? =
      some (.arr (((g'.take j.toNat).map (fun v => v.flat.sum)).sum :: y.flat)) := by
  rw [(C04_cluster_outputs k (.firstk j) l (i+1)).2, hg']
  simp [hg, hy, facResult, facWant, takeWant]

/-- **ZipN**: as many rows as the shortest input has elements; row `i` = the `i`-th elements in input order -/
theorem C04_zip_rows (ls : List (List V)) :
    (∀ l ∈ ls, (Spec.zipRows ls).length ≤ l.length) ∧
    (∀ i, i < (Spec.zipRows ls).length →
      (Spec.zipRows ls)[i]? = some (V.arr ((ls.map (fun l => (l[i]?.map V.flat).getD [])).flatten))) :=
  ⟨fun l hl => zipRows_length_le ls l hl, fun i hi => zipRows_getElem? ls i hi⟩

/-! ### non-vacuity: concrete pipelines meet the hypotheses and run to the expected literal -/

/-- Window(3, 2) over Concat(Skip(1) of [1,2,3,4], [5,6]) -/
def exWindow : Pipe :=
  .window 3 2 false [] false false
    (.concat (.cons (.skip 1 false (.src 0 [1,2,3,4] 0)) (.cons (.src 1 [5,6] 0) .nil)) 0 false false)

example : Ready exWindow := by simp [exWindow, Ready, ReadyList]
example : Spec.eval exWindow = some [.arr [2,3,4], .arr [4,5,6], .arr [6]] := by decide
example : World.Clean {} := ⟨rfl, rfl⟩
example : (consume 40 .collect exWindow {}).1 = .ok [.arr [2,3,4], .arr [4,5,6], .arr [6]] := by
  simp [consume, exWindow, openP, emitP, pullLoop, windowFill, skipLoop, closeP, openRes, emitRes,
    closeRes, World.call, windowParamsOk, PipeList.get?, PipeList.set, PipeList.length, upd, V.flat]

/-- a cluster (classifier = key / 10) whose factory reads only the first element and reports the
    previous cluster's last item -/
def exCluster : Pipe := .cluster 10 .firstprev none 0 none false (.src 0 [1, 2, 3, 11, 12, 25] 0)

example : Ready exCluster := by simp [exCluster, Ready]
example : Spec.eval exCluster = some [.arr [1], .arr [11, 3], .arr [25, 12]] := by decide
example : (consume 40 .user exCluster {}).1 = .ok [.arr [1], .arr [11, 3], .arr [25, 12]] := by
  simp [consume, exCluster, openP, emitP, pullLoop, clusterRead, clusterSkip, clusterSkipLoop, closeP, openRes,
    emitRes, closeRes, userCall, World.call, upd, V.flat, V.key, classify, facWant, facResult]

/-- termination is not vacuous: the statement applies to the examples (and gives a fuel-free result) -/
example : ∃ fuel0, ∀ fuel, fuel0 ≤ fuel →
    (consume fuel .user exCluster {}).1 = .ok [.arr [1], .arr [11, 3], .arr [25, 12]] :=
  C04_total .user exCluster _ {} (by simp [exCluster, Ready]) (by decide) ⟨rfl, rfl⟩

/-- an unsorted cluster source terminates too (with the library's error) -/
example : (consume 40 .collect (.cluster 10 .first none 0 none false (.src 0 [11, 12, 1] 0)) {}).1 =
    .err (.lib "cluster-not-sorted") [] := by
  simp [consume, openP, emitP, pullLoop, clusterRead, clusterSkip, clusterSkipLoop, closeP, openRes,
    emitRes, closeRes, userCall, World.call, upd, V.key, classify, facWant]

/-- Page beyond the end, FindFirst on an empty stream -/
example : Spec.eval (.limit 5 1 (.skip 3 false (.src 0 [1,2,3,4] 0))) = some [.int 4] := by decide
example : Spec.eval (.limit 1 1 (.filter (.lt 0) (.src 0 [1,2] 0))) = some [] := by decide

end ShpanVerif.Props.C04
