/-
C01 for the asynchronous stages (Buffered, concurrent map, concurrent consume, JSON pipe): the source provider whose Open
succeeded is closed exactly once, however the materialisation ends — over every schedule, early stop, failure and
cancellation of the transition systems of `Model/Conc*.lean`, `Buffered.lean`, `JsonPipe.lean`.

`closes` is a ghost counter incremented by the step that calls P.Close.  In every reachable state it is at most one
(never closed twice); in every FINAL state (terminal returned and every goroutine gone) it is exactly one when the
provider was opened and zero when its Open failed.  Every run reaches a final state (`C07_terminates_*`), so together:
opened ⇒ closed exactly once.  (The sequential operators are `C01_bracket`; the correspondence for these stages is the
`ASYNC` case family of the C01 check, which observes the real provider after quiescence.)
-/
import ShpanVerif.Proofs.ConcMapLive
import ShpanVerif.Proofs.ConcConsumeLive
import ShpanVerif.Proofs.BufferedLive
import ShpanVerif.Proofs.JsonPipeInv

namespace ShpanVerif.Props.C01
open ShpanVerif.Model.Conc
open ShpanVerif.Model
open ShpanVerif.Proofs

/-- Buffered: never closed twice; at the end closed exactly once iff opened. -/
theorem C01_async_buffered {cfg : Buffered.Cfg} {s : Buffered.St} (hr : Reachable (Buffered.sys cfg) s) :
    s.closes ≤ 1 ∧ (Buffered.final s = true → s.closes = if s.pOpened then 1 else 0) := by
  have hb := Buffered.basic hr
  have hc := hb.closes_eq
  refine ⟨by rw [hc]; split <;> omega, fun hf => ?_⟩
  have hd : s.f = .done := by
    simp only [Buffered.final, Bool.and_eq_true, decide_eq_true_eq] at hf
    exact hf.2
  have hp := hb.post (by simp [hd, Buffered.postPc])
  rw [hc, hp]

/-- JSON pipe. -/
theorem C01_async_pipe {cfg : JsonPipe.Cfg} {s : JsonPipe.St} (hr : Reachable (JsonPipe.sys cfg) s) :
    s.closes ≤ 1 ∧ (JsonPipe.final s = true → s.closes = if s.pOpened then 1 else 0) := by
  have hb := JsonPipe.basic hr
  have hc := hb.closes_eq
  refine ⟨by rw [hc]; split <;> omega, fun hf => ?_⟩
  have hd : s.w = .done := by
    simp only [JsonPipe.final, Bool.and_eq_true, decide_eq_true_eq] at hf
    exact hf.2
  have hp := hb.post (by simp [hd, JsonPipe.postPc])
  rw [hc, hp]

/-- Concurrent map (the source was opened by the open sequence before the first state): never closed twice; closed
    exactly once when the terminal has returned. -/
theorem C01_async_concmap {cfg : ConcMap.Cfg} {s : ConcMap.St} (hr : Reachable (ConcMap.sys cfg) s) :
    s.closes ≤ 1 ∧ (s.cons = .ret → s.closes = 1) := by
  have hb := ConcMap.basic hr
  have hc := hb.closes_eq
  refine ⟨by rw [hc]; split <;> omega, fun hf => ?_⟩
  have := hb.closed_iff.mpr (Or.inr (Or.inr hf))
  simp [hc, this]

/-- Concurrent consume. -/
theorem C01_async_consume {cfg : ConcConsume.Cfg} {s : ConcConsume.St} (hr : Reachable (ConcConsume.sys cfg) s) :
    s.closes ≤ 1 ∧ (s.term = .ret → s.closes = 1) := by
  have hb := ConcConsume.basic hr
  have hc := hb.closes_eq
  refine ⟨by rw [hc]; split <;> omega, fun hf => ?_⟩
  have := hb.closed_iff.mpr (Or.inr hf)
  simp [hc, this]

/-- non-vacuity: an early-stopped Buffered run reaches a final state with the provider opened and closed once; a run
    whose inner Open fails ends with no Close at all -/
example : ∃ s, Reachable (Buffered.sys { n := 3, size := 2 }) s ∧
    (Buffered.final s && s.pOpened && s.closes == 1 && s.stopped) = true :=
  checkRun_reachable
    (ls := [.fOpenOk, .fCheck, .fEmitVal, .fSend, .cCheck, .cRecv, .fCheck, .cStop, .cClose2, .fEmitVal, .fSkip,
            .fCheck, .fCloseP, .fClosed, .fDropFin, .fCloseCh, .cJoin]) (by decide)

example : ∃ s, Reachable (Buffered.sys { n := 3, size := 2, e := 1 }) s ∧
    (Buffered.final s && !s.pOpened && s.closes == 0) = true :=
  checkRun_reachable
    (ls := [.fOpenErr, .fSendFin, .fCloseCh, .cCheck, .cRecv, .cClose2, .cJoin]) (by decide)

end ShpanVerif.Props.C01
