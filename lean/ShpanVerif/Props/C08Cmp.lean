/-
C08 — the comparator enters the merge only through the sign of its answers, and nothing is assumed about the element
type (corollaries of `Props/C08.lean`, written down because the correspondence check exercises exactly these
instantiations: `mergeD` / `mergeS` comparators answering differences / ±7, `mergeZ` elements of a zero-size type).

  * `ltOfCmp`                  how a Go comparator `func(a, b T) int` becomes the model's `lt`: `cmp a b < 0`
  * `C08_cmp_sign_only`        two comparators whose answers have the same sign wherever they are negative give the
                               same merge, on all inputs (sorted or not)
  * `C08_cmp_stable_sort`      a comparator that orders by an integer key (`cmp a b < 0 ↔ key a < key b`), whatever
                               the magnitude of its answers, gives the stable sort by that key
  * `C08_all_ties`             a comparator that answers 0 for every pair (e.g. on a zero-size element type): the
                               merge is the concatenation of the inputs in input order - in particular it has as many
                               elements as the inputs hold
-/
import ShpanVerif.Props.C08

namespace ShpanVerif.Props.C08
open List ShpanVerif.Model.Merge ShpanVerif.Proofs

variable {α : Type}

/-- the model's `lt` of a Go comparator -/
def ltOfCmp (cmp : α → α → Int) : α → α → Bool := fun a b => decide (cmp a b < 0)

/-- **C08 (only the sign of the comparator's answers matters)**. -/
theorem C08_cmp_sign_only (c1 c2 : α → α → Int) (h : ∀ a b, c1 a b < 0 ↔ c2 a b < 0) (ins : List (List α)) :
    mergeStreams (ltOfCmp c1) ins = mergeStreams (ltOfCmp c2) ins := by
  have : ltOfCmp c1 = ltOfCmp c2 := by
    funext a b
    simp only [ltOfCmp]
    exact decide_eq_decide.2 (h a b)
  rw [this]

/-- a comparator that orders by an integer key is a strict weak order in the model's sense -/
theorem strictWeak_of_key (cmp : α → α → Int) (key : α → Int) (h : ∀ a b, cmp a b < 0 ↔ key a < key b) :
    StrictWeak (ltOfCmp cmp) where
  asymm := by
    intro a b hab
    simp only [ltOfCmp, decide_eq_true_eq, decide_eq_false_iff_not] at *
    rw [h] at hab; rw [h]; omega
  le_trans := by
    intro a b c h1 h2
    simp only [ltOfCmp, decide_eq_false_iff_not] at *
    rw [h] at h1 h2 ⊢; omega

/-- **C08 (any comparator ordering by a key)**: difference comparators, ±7 comparators, `cmp.Compare` - the merge of
inputs sorted by the key is the stable sort of their concatenation. -/
theorem C08_cmp_stable_sort (cmp : α → α → Int) (key : α → Int) (h : ∀ a b, cmp a b < 0 ↔ key a < key b)
    (ins : List (List α)) (hs : ∀ l ∈ ins, l.Pairwise (fun a b => key a ≤ key b)) :
    mergeStreams (ltOfCmp cmp) ins = mergeSort ins.flatten (leOf (ltOfCmp cmp)) := by
  apply C08_eq_stable_sort (strictWeak_of_key cmp key h)
  intro l hl
  refine (hs l hl).imp ?_
  intro a b hab
  simp only [leOf, ltOfCmp, Bool.not_eq_true', decide_eq_false_iff_not]
  rw [h]; omega

/-- **C08 (all ties)**: under a comparator that never answers "smaller" the merge is the concatenation of the inputs, in
input order (so no element is lost or invented even when the elements are indistinguishable, e.g. `struct{}`). -/
theorem C08_all_ties (cmp : α → α → Int) (h : ∀ a b, ¬ cmp a b < 0) (ins : List (List α)) :
    mergeStreams (ltOfCmp cmp) ins = ins.flatten := by
  have hlt : ∀ a b, ltOfCmp cmp a b = false := by
    intro a b; simp [ltOfCmp, h a b]
  have sw : StrictWeak (ltOfCmp cmp) :=
    { asymm := fun a b hab => by rw [hlt] at hab; cases hab
      le_trans := fun a _ c _ _ => hlt c a }
  rw [C08_eq_stable_sort sw ins (by
    intro l _
    exact List.pairwise_of_forall (by intro a b; simp [leOf, hlt]))]
  -- a stable sort under "everything is ≤ everything" changes nothing
  have hsorted : ins.flatten.Pairwise (fun a b => leOf (ltOfCmp cmp) a b = true) :=
    List.pairwise_of_forall (by intro a b; simp [leOf, hlt])
  exact List.mergeSort_of_pairwise hsorted

theorem C08_all_ties_length (cmp : α → α → Int) (h : ∀ a b, ¬ cmp a b < 0) (ins : List (List α)) :
    (mergeStreams (ltOfCmp cmp) ins).length = (ins.map List.length).sum := by
  rw [C08_all_ties cmp h ins, List.length_flatten]

/-- non-vacuity: a difference comparator scaled by 3 on tagged integers, and the all-ties comparator on `Unit` -/
example : mergeStreams (ltOfCmp (fun (a b : Int × Nat) => 3 * (a.1 - b.1))) [[(1, 0), (4, 1)], [(1, 2), (2, 3)]] =
    [(1, 0), (1, 2), (2, 3), (4, 1)] := by decide
example : (mergeStreams (ltOfCmp (fun (_ _ : Unit) => 0)) [[(), ()], [], [()]]).length = 3 := by decide

end ShpanVerif.Props.C08
