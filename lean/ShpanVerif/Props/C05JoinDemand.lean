/-
C05 — demand of the N-way inner join (`JoinMultipleSortedStreams`, stream/join_multiple_streams.go:40-146), the theorems
behind the `T jni` cases (Drive/C05Demand.lean).  Model: `Model/JoinDemand.lean` (the operational model `innerLoop` of
Model/Join.lean with a pull counter per input and the inputs' state kept when the join ends).

  (a) `C05_join_demand_refines`      erasing the counters, the counting copy under `Limit(k)` produces exactly the first k rows
                                     of the operational model `joinMultiple` - for EVERY list of inputs (sorted or not) and every k
      `C05_join_demand_rows`         hence, for strictly increasing inputs, the first k rows of the relational join (`C09_joinN_inner`)
  (b) `C05_join_demand_lockstep`     THE DEMAND BOUND, list level, every k, every list of inputs (no sortedness needed):
                                     for any two inputs i, j and any key B with (all keys of input j) ≤ B
                                         out i  ≤  1 + |input j| + #(elements of input i with key < B)
      `C05_join_demand_bound`        the same on what the harness observes (`demandInnerN`), by index
      `C05_join_demand_bound_last`   with B = the last key of a non-decreasing input j:
                                         out i  ≤  1 + |input j| + #(elements of input i with key < last key of j)
      `C05_join_demand_limit0`       `Limit(0)` pulls nothing

  WHY THIS SHAPE and not "at most (elements with key ≤ K) + 1 for a key K".  Every bound of the key shape that the code meets
  is also met by the seeded variant (`for` instead of `if` in the advance step, join_multiple:127): that variant reads a
  lagging input up to its first element ≥ the current maximum M, i.e. never past the first element whose key exceeds M,
  exactly the "+ 1" - in the seeded scenario ([0..20], [0], [1000], k = 1) M = 1000 is the largest buffered key of the
  round in which input 1 ends, the key bound is 22 and the variant's 21 pulls meet it.  What the code has and the variant
  has not is the LOCKSTEP: a lagging input advances ONE element per round, and a round in which some input advances costs
  every other input either an element of its own (it lags too, or a row is emitted) or sits on that input's head being
  larger (then the advancing input's element was below it).  Hence input i can be handed at most one element per element of
  input j, plus those of its elements that j's keys can overtake, plus the first pull.  In the seeded scenario (i = 0, j = 1,
  B = 0) the bound is 1 + 1 + 0 = 2 = what the code does (`outs = [2,1,1]`); the variant's 21 violates it
  (`seeded_variant_violates`).  For the case that k rows exist the key statement is kept as
  `C05_join_demand_rows_key_statement`, proved as `C05_join_demand_rows_key` (every input has handed out exactly its
  elements with key ≤ the key of the k-th row; the bound (b) holds in that case too).
-/
import ShpanVerif.Proofs.JoinDemandLemmas
import ShpanVerif.Proofs.JoinDemandKey
import ShpanVerif.Props.C09

namespace ShpanVerif.Props.C05JoinDemand
open List ShpanVerif.Model.Join ShpanVerif.Model.JoinDemand ShpanVerif.Model.JoinSpec ShpanVerif.Proofs.JoinDemand

variable {α : Type} (key : α → Int)

/-! ## (a) refinement -/

theorem src_init_fill (l : List α) : (pfill (PS.init l)).src = fill { buf := none, last := none, rest := l } := by
  rw [src_pfill]; rfl

/-- **C05 (join demand, refinement)**: for every list of inputs and every k, the rows the counting copy produces under
    `Limit(k)` are the first k rows of the operational model of `JoinMultipleSortedStreams`. -/
theorem C05_join_demand_refines (k : Nat) (ins : List (List α)) :
    (demandN key k ins).1 = ((joinMultiple key ins).1).take k := by
  unfold demandN
  by_cases hk : k = 0
  · simp [hk]
  · simp only [hk, if_false]
    obtain ⟨k', rfl⟩ : ∃ k', k = k' + 1 := ⟨k - 1, by omega⟩
    rw [pcollect_src]
    unfold joinMultiple
    by_cases he : ins.isEmpty = true
    · have : ins = [] := by simpa using he
      subst this
      simp [collect, emitInnerN, initBufs, innerLoop, refillOrEof, firstUnsorted, headKeys, maxKey]
    · simp only [he, Bool.false_eq_true, if_false]
      -- the first call: both start from the inputs after one pull each
      have hsrcs : (ins.map (fun l => pfill (PS.init l))).map PS.src = (initN ins).srcs.map fill := by
        simp only [initN, map_map]
        apply map_congr_left
        intro l _
        exact src_init_fill l
      have hemit : emitInnerN key (initN ins)
          = emitInnerN key { inited := true, lastLeftKey := none, srcs := (initN ins).srcs.map fill } := by
        simp [emitInnerN, initBufs, initN]
      rw [hsrcs]
      simp only [collect, hemit]

/-- for strictly increasing inputs: the first k rows of the relational inner join -/
theorem C05_join_demand_rows (k : Nat) (ins : List (List α)) (hs : ∀ l ∈ ins, StrictInc key l) :
    (demandN key k ins).1 = (innerJoinN key ins).take k := by
  rw [C05_join_demand_refines, ShpanVerif.Props.C09.C09_joinN_inner key ins hs]

/-! ## (b) the demand bound -/

/-- invariant / bound carried by the outcome of one `emitJoin` call -/
def Good : PStep α → Prop
  | .row _ ss => Inv key ss
  | .eof ss => Bound key ss
  | .err _ ss => Bound key ss

theorem pinner_good : ∀ (fuel : Nat) (ss : List (PS α)), Inv key ss → Good key (pinner key fuel ss)
  | 0, ss, h => bound_of_inv key h
  | fuel+1, ss, h => by
    rw [pinner]
    have h1 := inv_prefill key h
    have hf := prefill_filled ss
    rcases hp : prefill ss with ⟨ss1, ok⟩
    rw [hp] at h1 hf
    cases ok with
    | false => exact bound_of_inv key h1
    | true =>
      simp only []
      have hf1 := hf rfl
      cases hu : firstUnsorted key 0 (ss1.map PS.src) with
      | some i => exact bound_of_inv key h1
      | none =>
        simp only []
        cases hm : maxKey (headKeys key (ss1.map PS.src)) with
        | none => exact bound_of_inv key h1
        | some m =>
          simp only []
          by_cases hall : ((headKeys key (ss1.map PS.src)).all fun k => k == m) = true
          · simp only [hall, if_true]
            exact inv_ptake key h1 hf1
          · simp only [hall, Bool.false_eq_true, if_false]
            have h2 := inv_padv key m h1 hf1
            have h3 := bound_padv_partial key m h1 hf1
            rcases ha : padv key m ss1 with ⟨ss2, ok2⟩
            rw [ha] at h2 h3
            cases ok2 with
            | false => exact h3
            | true => exact pinner_good fuel ss2 (h2 rfl)

theorem pcollect_bound : ∀ (fuel want : Nat) (ss : List (PS α)), Inv key ss → Bound key (pcollect key fuel want ss).2
  | fuel, 0, ss, h => by cases fuel <;> exact bound_of_inv key h
  | 0, want+1, ss, h => bound_of_inv key h
  | fuel+1, want+1, ss, h => by
    rw [pcollect]
    have hg := pinner_good key (totalRest (ss.map PS.src) + 1) ss h
    rw [← pemit] at hg
    cases he : pemit key ss with
    | eof ss' => rw [he] at hg; exact hg
    | err e ss' => rw [he] at hg; exact hg
    | row v ss' => rw [he] at hg; exact pcollect_bound fuel want ss' hg

theorem inv_init (ins : List (List α)) (f : PS α → PS α)
    (hf : ∀ s, e (f s) = e s ∧ rem (f s) = rem s ∧ (f s).orig = s.orig) :
    Inv key (ins.map (fun l => f (PS.init l))) := by
  have hinit : ∀ l : List α, e (f (PS.init l)) = 1 ∧ rem (f (PS.init l)) = l ∧ (f (PS.init l)).orig = l := by
    intro l
    obtain ⟨h1, h2, h3⟩ := hf (PS.init l)
    exact ⟨by rw [h1]; simp [e, PS.init], by rw [h2]; simp [rem, PS.init], by rw [h3]; rfl⟩
  constructor
  · intro s hs
    obtain ⟨l, _, rfl⟩ := mem_map.mp hs
    obtain ⟨_, h2, h3⟩ := hinit l
    intro x hx
    rw [h3]; rw [h2] at hx; exact hx
  · intro a ha b hb B _
    obtain ⟨la, _, rfl⟩ := mem_map.mp ha
    obtain ⟨lb, _, rfl⟩ := mem_map.mp hb
    obtain ⟨a1, a2, a3⟩ := hinit la
    obtain ⟨_, b2, b3⟩ := hinit lb
    rw [a1, a2, a3, b2, b3]
    omega

/-! the inputs' lists travel unchanged -/

theorem prefill_orig : ∀ ss : List (PS α), (prefill ss).1.map (·.orig) = ss.map (·.orig)
  | [] => rfl
  | s :: ss => by
    have ho : (pfill s).orig = s.orig := (pfill_facts s).2.2
    cases h : (pfill s).buf with
    | none => rw [prefill_cons_none s ss h]; simp [ho]
    | some b => rw [prefill_cons_some s ss b h]; simp [ho, prefill_orig ss]

theorem padv_orig (m : Int) : ∀ ss : List (PS α), (padv key m ss).1.map (·.orig) = ss.map (·.orig)
  | [] => rfl
  | s :: ss => by
    have ih := padv_orig m ss
    rcases s with ⟨buf, last, rest, out, orig⟩
    cases buf with
    | none => simp [padv, ih]
    | some b =>
      by_cases hlt : key b < m
      · cases rest with
        | nil => simp [padv, hlt]
        | cons x xs => simp [padv, hlt, ih]
      · simp [padv, hlt, ih]

def PStep.state : PStep α → List (PS α)
  | .eof ss => ss
  | .err _ ss => ss
  | .row _ ss => ss

theorem pinner_orig : ∀ (fuel : Nat) (ss : List (PS α)),
    (PStep.state (pinner key fuel ss)).map (·.orig) = ss.map (·.orig)
  | 0, ss => rfl
  | fuel+1, ss => by
    rw [pinner]
    have h1 := prefill_orig ss
    rcases hp : prefill ss with ⟨ss1, ok⟩
    rw [hp] at h1
    cases ok with
    | false => exact h1
    | true =>
      simp only []
      cases hu : firstUnsorted key 0 (ss1.map PS.src) with
      | some i => exact h1
      | none =>
        simp only []
        cases hm : maxKey (headKeys key (ss1.map PS.src)) with
        | none => exact h1
        | some m =>
          simp only []
          by_cases hall : ((headKeys key (ss1.map PS.src)).all fun k => k == m) = true
          · simp only [hall, if_true, PStep.state, map_map]
            rw [← h1, ← map_map]
            simp [ptake]
          · simp only [hall, Bool.false_eq_true, if_false]
            have h2 := padv_orig key m ss1
            rcases ha : padv key m ss1 with ⟨ss2, ok2⟩
            rw [ha] at h2
            cases ok2 with
            | false => exact h2.trans h1
            | true => exact (pinner_orig fuel ss2).trans (h2.trans h1)

theorem pcollect_orig : ∀ (fuel want : Nat) (ss : List (PS α)),
    (pcollect key fuel want ss).2.map (·.orig) = ss.map (·.orig)
  | fuel, 0, ss => by cases fuel <;> rfl
  | 0, want+1, ss => rfl
  | fuel+1, want+1, ss => by
    rw [pcollect]
    have hg := pinner_orig key (totalRest (ss.map PS.src) + 1) ss
    rw [← pemit] at hg
    cases he : pemit key ss with
    | eof ss' => rw [he] at hg; exact hg
    | err e ss' => rw [he] at hg; exact hg
    | row v ss' => rw [he] at hg; exact (pcollect_orig fuel want ss').trans hg

theorem demandN_orig (k : Nat) (ins : List (List α)) : (demandN key k ins).2.map (·.orig) = ins := by
  unfold demandN
  by_cases hk : k = 0
  · simp only [hk, if_true, map_map]
    calc ins.map ((fun s : PS α => s.orig) ∘ PS.init) = ins.map id := by
          apply map_congr_left; intro l _; rfl
      _ = ins := by simp
  · simp only [hk, if_false]
    rw [pcollect_orig]
    simp only [map_map]
    have : ∀ l : List α, (pfill (PS.init l)).orig = l := fun l => (pfill_facts (PS.init l)).2.2
    calc ins.map ((fun s : PS α => s.orig) ∘ fun l => pfill (PS.init l)) = ins.map id := by
          apply map_congr_left; intro l _; exact this l
      _ = ins := by simp

/-- **C05 (join demand, lockstep bound)**: for every k and every list of inputs, in the final state of the inputs after
    `Limit(k)` over the join, for any two inputs `a`, `b` and any key `B` that bounds the keys of `b`'s list:
    `a` handed out at most `1 + |b's list| + #(elements of a's list with key < B)` elements.  The final states carry the
    input lists in input order (`orig`). -/
theorem C05_join_demand_lockstep (k : Nat) (ins : List (List α)) :
    Bound key (demandN key k ins).2 ∧ (demandN key k ins).2.map (·.orig) = ins := by
  refine ⟨?_, demandN_orig key k ins⟩
  unfold demandN
  by_cases hk : k = 0
  · simp only [hk, if_true]
    exact bound_of_inv key (inv_init key ins id (fun s => ⟨rfl, rfl, rfl⟩))
  · simp only [hk, if_false]
    exact pcollect_bound key _ _ _ (inv_init key ins pfill pfill_facts)

/-- the same on the harness' observation, by index: `outs[i] ≤ 1 + |ins[j]| + #(x ∈ ins[i], key x < B)`. -/
theorem C05_join_demand_bound (k : Nat) (ins : List (List α)) (i j : Nat) (li lj : List α) (o : Nat)
    (hi : ins[i]? = some li) (hj : ins[j]? = some lj) (ho : (demandInnerN key k ins).2[i]? = some o)
    (B : Int) (hB : ∀ x ∈ lj, key x ≤ B) :
    o ≤ 1 + lj.length + below key B li := by
  obtain ⟨hbound, horig⟩ := C05_join_demand_lockstep key k ins
  simp only [demandInnerN, getElem?_map, Option.map_eq_some_iff] at ho
  obtain ⟨a, ha, rfl⟩ := ho
  have hao : a.orig = li := by
    have : ((demandN key k ins).2.map (·.orig))[i]? = some a.orig := by simp [getElem?_map, ha]
    rw [horig, hi] at this
    exact (Option.some.inj this).symm
  have hjlt : j < (demandN key k ins).2.length := by
    have : j < ins.length := by
      rcases Nat.lt_or_ge j ins.length with h | h
      · exact h
      · rw [getElem?_eq_none h] at hj; cases hj
    have hl : ((demandN key k ins).2.map (·.orig)).length = ins.length := by rw [horig]
    rw [length_map] at hl; omega
  have hb : (demandN key k ins).2[j]? = some ((demandN key k ins).2[j]) := getElem?_eq_getElem hjlt
  have hbo : ((demandN key k ins).2[j]).orig = lj := by
    have : ((demandN key k ins).2.map (·.orig))[j]? = some ((demandN key k ins).2[j]).orig := by
      simp [getElem?_map, hb]
    rw [horig, hj] at this
    exact (Option.some.inj this).symm
  have := hbound a (mem_of_getElem? ha) _ (mem_of_getElem? hb) B (by rw [hbo]; exact hB)
  rw [hao, hbo] at this
  omega

/-- with `B` = the last key of a non-decreasing input `j` -/
theorem C05_join_demand_bound_last (k : Nat) (ins : List (List α)) (i j : Nat) (li lj : List α) (z : α) (o : Nat)
    (hi : ins[i]? = some li) (hj : ins[j]? = some (lj ++ [z])) (hs : NonDec key (lj ++ [z]))
    (ho : (demandInnerN key k ins).2[i]? = some o) :
    o ≤ 1 + (lj ++ [z]).length + below key (key z) li := by
  apply C05_join_demand_bound key k ins i j li (lj ++ [z]) o hi hj ho
  intro x hx
  rcases mem_append.mp hx with hx | hx
  · have := (pairwise_append.mp hs).2.2 x hx z (by simp)
    exact this
  · simp only [mem_singleton] at hx
    subst hx
    exact Int.le_refl _

/-- **C05 (join demand, Limit(0))**: nothing is pulled from any input. -/
theorem C05_join_demand_limit0 (ins : List (List α)) :
    demandInnerN key 0 ins = (0, ins.map (fun _ => 0)) := by
  simp [demandInnerN, demandN, PS.init]

/-- The key-shaped statement for the case that the k-th row exists (proved below, `C05_join_demand_rows_key`): every input
    has handed out exactly its elements with key ≤ the key `K` of the k-th row, in particular at most that many + 1. -/
def C05_join_demand_rows_key_statement : Prop :=
  ∀ (k : Nat) (ins : List (List α)) (row : List α) (K : Int),
    (∀ l ∈ ins, StrictInc key l) → 1 ≤ k → (innerJoinN key ins)[k - 1]? = some row → (∀ x ∈ row, key x = K) →
    ∀ s ∈ (demandN key k ins).2, s.out = (s.orig.filter (fun x => decide (key x ≤ K))).length

/-- in a strictly increasing list the elements with key ≤ the key of an element are the prefix that ends with it -/
theorem filter_le_prefix (h : List α) (b : α) (rest : List α) (K : Int) (hs : StrictInc key (h ++ b :: rest))
    (hb : key b = K) : ((h ++ b :: rest).filter (fun x => decide (key x ≤ K))).length = h.length + 1 := by
  have hp := pairwise_append.mp hs
  have h1 : h.filter (fun x => decide (key x ≤ K)) = h := by
    apply filter_eq_self.mpr
    intro a ha
    have := hp.2.2 a ha b (by simp)
    simp only [decide_eq_true_eq]; omega
  have h2 : rest.filter (fun x => decide (key x ≤ K)) = [] := by
    apply filter_eq_nil_iff.mpr
    intro c hc
    have := (pairwise_cons.mp hp.2.1).1 c hc
    simp only [decide_eq_true_eq]; omega
  simp [filter_append, h1, h2, hb]

/-- **C05 (join demand, key shape)**: strictly increasing inputs, `Limit(k)` with k ≥ 1, and the k-th row of the relational
    join exists and has key `K`: in the final state EVERY input has handed out exactly its elements with key ≤ `K` - the run
    stops on the k-th row (`pcollect_done`: the final state is `map ptake` of the state that produced it), each input's
    slot held its element of that row, and what an input has handed out is always a prefix of its list that ends with the
    buffered element (`Wf`, threaded through `pfill` / `prefill` / `padv` / `pinner` / `pcollect`). -/
theorem C05_join_demand_rows_key : C05_join_demand_rows_key_statement key := by
  intro k ins row K hs hk hrow hK s hsmem
  obtain ⟨k', rfl⟩ : ∃ k', k = k' + 1 := ⟨k - 1, by omega⟩
  simp only [Nat.add_sub_cancel] at hrow
  have hrows := C05_join_demand_rows key (k' + 1) ins hs
  have horig := demandN_orig key (k' + 1) ins
  have hlt : k' < (innerJoinN key ins).length := by
    rcases Nat.lt_or_ge k' (innerJoinN key ins).length with h | h
    · exact h
    · rw [getElem?_eq_none h] at hrow; cases hrow
  have hl : (demandN key (k' + 1) ins).1.length = k' + 1 := by rw [hrows, length_take]; omega
  have hlast : (demandN key (k' + 1) ins).1.getLast? = some row := by
    rw [getLast?_eq_getElem?, hl, hrows, Nat.add_sub_cancel, getElem?_take]
    simp [hrow]
  have hwf : ∀ s ∈ ins.map (fun l => pfill (PS.init l)), Wf s := by
    intro s hs
    obtain ⟨l, _, rfl⟩ := mem_map.mp hs
    exact wf_pfill (wf_init l)
  have hso : s.orig ∈ ins := by
    rw [← horig]; exact mem_map_of_mem hsmem
  simp only [demandN, Nat.succ_ne_zero, if_false] at hl hlast hsmem
  obtain ⟨row', hr', hdone⟩ := pcollect_done key _ k' _ hwf hl
  rw [hlast] at hr'
  cases hr'
  obtain ⟨_, h, b, ho, hout, hb⟩ := hdone s hsmem
  have hst := hs _ hso
  rw [ho] at hst ⊢
  rw [hout, filter_le_prefix key h b s.rest K hst (hK b hb)]

/-! ## (c) non-vacuity -/

/-- the seeded scenario: `[0..20]`, `[0]`, `[1000]`, `k = 1` -/
def long : List Int := (List.range 21).map Int.ofNat
def scenario : List (List Int) := [long, [0], [1000]]

/-- the code: no row; input 0 was handed 2 elements (the first pull and ONE advance), the others 1 each -/
example : demandInnerN id 1 scenario = (0, [2, 1, 1]) := by decide +kernel

/-- the bound of `C05_join_demand_bound_last` for input 0 against input 1 (`B` = 0): 1 + 1 + 0 = 2 - tight -/
example : 1 + ([] ++ [(0 : Int)]).length + below id (id (0 : Int)) long = 2 := by decide +kernel

/-- ... and the hypotheses of that theorem hold for the scenario (instance, not a computation) -/
example : ∀ o, (demandInnerN id 1 scenario).2[0]? = some o → o ≤ 1 + ([] ++ [(0 : Int)]).length + below id (id (0 : Int)) long :=
  fun o ho => C05_join_demand_bound_last id 1 scenario 0 1 long [] 0 o rfl rfl (by simp [NonDec]) ho

/-- the seeded variant (`for` instead of `if`: the lagging input 0 is read on until it catches up with 1000, i.e. to its
    end) hands out 21 elements of input 0: above the bound 2 -/
theorem seeded_variant_violates : ¬ (21 ≤ 1 + ([] ++ [(0 : Int)]).length + below id (id (0 : Int)) long) := by
  decide +kernel

/-- ... while it meets the key-shaped bound for K = 1000, the largest buffered key of the round in which input 1 ends:
    (elements of input 0 with key ≤ 1000) + 1 = 22 -/
example : 21 ≤ (long.filter (fun x => decide (x ≤ 1000))).length + 1 := by decide +kernel

/-- rows exist: `[1,2,3,5]`, `[0,2,5,9]`, `[2,4,5]`: common keys 2 and 5 -/
def three : List (List Int) := [[1, 2, 3, 5], [0, 2, 5, 9], [2, 4, 5]]
example : (demandN id 1 three).1 = [[2, 2, 2]] := by decide +kernel
example : demandInnerN id 1 three = (1, [2, 2, 1]) := by decide +kernel
example : demandInnerN id 2 three = (2, [4, 3, 3]) := by decide +kernel
/-- a third row is asked for: input 0 is exhausted by the refill, the others are not touched again -/
example : demandInnerN id 3 three = (2, [4, 3, 3]) := by decide +kernel
example : (joinMultiple id three).1 = [[2, 2, 2], [5, 5, 5]] := by decide +kernel
example : demandInnerN id 0 three = (0, [0, 0, 0]) := by decide +kernel
/-- a lagging long input next to inputs that go on: one element per round for BOTH lagging inputs (lockstep) -/
example : demandInnerN id 1 [long, [0, 1, 2, 3], [1000]] = (0, [5, 4, 1]) := by decide +kernel

/-- the key-shaped theorem on `three`: its hypotheses hold for k = 1 (row `[2,2,2]`, K = 2) and k = 2 (row `[5,5,5]`, K = 5),
    and what it says is what is observed: outs `[2,2,1]` and `[4,3,3]` = elements with key ≤ 2 / ≤ 5 per input -/
theorem three_strict : ∀ l ∈ three, StrictInc id l := by
  intro l hl
  simp only [three, mem_cons, not_mem_nil, or_false] at hl
  rcases hl with rfl | rfl | rfl <;> simp [StrictInc]
example : (innerJoinN id three)[2 - 1]? = some [5, 5, 5] ∧ ∀ x ∈ [(5 : Int), 5, 5], id x = 5 := by decide +kernel
example : ∀ s ∈ (demandN id 2 three).2, s.out = (s.orig.filter (fun x => decide (id x ≤ 5))).length :=
  C05_join_demand_rows_key id 2 three [5, 5, 5] 5 three_strict (by omega) (by decide +kernel) (by decide)
example : three.map (fun l => (l.filter (fun x => decide (id x ≤ 5))).length) = [4, 3, 3] ∧
    three.map (fun l => (l.filter (fun x => decide (id x ≤ 2))).length) = [2, 2, 1] := by decide +kernel

end ShpanVerif.Props.C05JoinDemand
