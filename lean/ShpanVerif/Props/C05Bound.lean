/-
C05 — pipelines are lazy and pull no more than they need: the GENERAL pull bound, proved for all operator
trees of the model.

* `C05_pull_bound : C05_pull_bound_statement` (the full statement of Props/C05.lean): for every pipeline `p`
  (all compositions of src / lc / map / filter / limit / skip / concat / zip / merge / window / cluster) in its
  initial state, in a fault-free world, with a defined list-level meaning `l` and `Spec.demand p (|l|+1) = some f`,
  every terminal (both consumers, any fuel) is out of fuel or leaves `pulls r ≤ pulls before + f r` for EVERY
  probe source `r` (also for ids that occur several times or not at all).
* `C05_pull_bound_total`: with C04's termination theorem — from some fuel on the bound holds outright.
* `C05_call_bound` / `C05_open_bound`: the two invariants behind it, usable on their own: one provider call
  pays for its pulls out of a potential (`SD`), Open turns `Spec.demand` into that potential.
* corollaries in the property's words: `C05_findFirst_lazy`, `C05_limit_filter_lazy`.

Proof (Proofs/PipeC05{Defs,Emit,Cluster,Main}.lean): potential argument on top of C04's denotation invariant.
-/
import ShpanVerif.Props.C05
import ShpanVerif.Props.C04
import ShpanVerif.Proofs.PipeC05Main

namespace ShpanVerif.Props.C05
open ShpanVerif.Model.Pipe ShpanVerif ShpanVerif.Proofs.PipeC05 ShpanVerif.Proofs.PipeC04

/-- **C05 (general bound)** — the full statement. -/
theorem C05_pull_bound : C05_pull_bound_statement :=
  fun fuel c p w l f r hr hw he hd => consume_pull fuel c p w l f r hr hw he hd

/-- the bound without fuel in the conclusion: from some fuel on the terminal has returned and every source
    was pulled at most `f r` times -/
theorem C05_pull_bound_total (c : Consumer) (p : Pipe) (w : World) (l : List V) (f : Nat → Nat)
    (hr : Ready p) (hw : w.Clean) (he : Spec.eval p = some l)
    (hd : Spec.demand p (Spec.terminalCalls l) = some f) :
    ∃ fuel0, ∀ fuel, fuel0 ≤ fuel → (consume fuel c p w).1 = .ok l ∧
      ∀ r, pulls (consume fuel c p w).2.2.trace r ≤ pulls w.trace r + f r := by
  obtain ⟨fuel0, h⟩ := Props.C04.C04_total c p l w hr he hw
  refine ⟨fuel0, fun fuel hf => ⟨h fuel hf, fun r => ?_⟩⟩
  rcases C05_pull_bound fuel c p w l f r hr hw he hd with h' | h'
  · rw [h fuel hf] at h'; cases h'
  · exact h'

/-- **one provider call** (any opened state `p` denoting `l`, any operator tree, clean world): if `k` bounds the
    pulls of source `r` for the next `n+1` calls (`SD r p (n+1) k`), the call returns a state with a bound `k'`
    for the next `n` calls and `pulls after + k' ≤ pulls before + k`. -/
theorem C05_call_bound (r fuel : Nat) (p : Pipe) (l : List V) (w : World) (n k : Nat)
    (hd : Den p l) (hs : SD r p (n+1) k) (hw : w.Clean) :
    PullStep r (emitP fuel p w) w n k :=
  pullOK_all r fuel p l w n k hd hs hw

/-- **Open** of a ready pipeline with `Spec.demand p (n+1) = some f`: the opened state has a bound `k'` for the
    next `n+1` calls with `pulls after + k' ≤ pulls before + f r` (Cluster's Open spends one pull). -/
theorem C05_open_bound (r fuel : Nat) (p : Pipe) (l : List V) (w : World) (n : Nat) (f : Nat → Nat)
    (hr : Ready p) (he : Spec.eval p = some l) (hd : Spec.demand p (n+1) = some f) (hw : w.Clean) :
    OpenPullStep r (openP fuel p w) w (n+1) (f r) :=
  openPullOK_all r fuel p l w n (f r) ⟨hr, he⟩ ⟨f, hd, Nat.le_refl _⟩ hw

/-! ### the property's words -/

/-- `FindFirst` (= `Limit(1)`) over ANY pipeline `p` that has a first element pulls every source at most as
    often as ONE provider call of `p` needs (`Spec.demand p 1`): the terminal's second pull is answered by
    Limit's counter. Nothing depends on how long the sources are beyond that. -/
theorem C05_findFirst_lazy (fuel : Nat) (c : Consumer) (p : Pipe) (w : World) (x : V) (xs : List V)
    (f : Nat → Nat) (r : Nat) (hr : Ready p) (hw : w.Clean) (he : Spec.eval p = some (x :: xs))
    (hd : Spec.demand p 1 = some f) :
    (consume fuel c (.limit 1 1 p) w).1 = .oof ∨
      pulls (consume fuel c (.limit 1 1 p) w).2.2.trace r ≤ pulls w.trace r + f r := by
  refine C05_pull_bound fuel c (.limit 1 1 p) w [x] f r (by simpa [Ready] using hr) hw
    (by simp [Spec.eval, he]) ?_
  simp [Spec.demand, Spec.terminalCalls, he, hd]

/-- `Limit(m)` over `Filter(g)` over a probe source: the source is pulled at most up to and including its
    `m`-th match (`Spec.filterCalls`), wherever the source ends after that. -/
theorem C05_limit_filter_lazy (fuel : Nat) (c : Consumer) (m : Nat) (g : Pred) (x : Nat) (xs : List Int)
    (idx : Nat) (w : World) (hw : w.Clean) (hm : 0 < m)
    (hlen : m ≤ ((xs.map V.int).filter g.app).length) :
    (consume fuel c (.limit m 1 (.filter g (.src x xs idx))) w).1 = .oof ∨
      pulls (consume fuel c (.limit m 1 (.filter g (.src x xs idx))) w).2.2.trace x ≤
        pulls w.trace x + Spec.filterCalls g.app (xs.map V.int) m := by
  have hm' : ¬ ((m : Int) ≤ 0) := by omega
  have key := C05_pull_bound fuel c (.limit m 1 (.filter g (.src x xs idx))) w
    (((xs.map V.int).filter g.app).take m)
    (fun y => if y = x then Spec.filterCalls g.app (xs.map V.int) m else 0) x
    (by simp [Ready]) hw (by rw [Spec.eval, if_neg hm']; simp [Spec.eval]) ?_
  · simpa using key
  · simp only [Spec.demand, Spec.eval, Option.map_some, hm', if_false, Spec.terminalCalls, Int.toNat_natCast,
      List.length_take]
    have h1 : ¬ (min m ((xs.map V.int).filter g.app).length + 1 ≤ m) := by omega
    rw [if_neg h1, if_pos hlen]

/-! ### non-vacuity: concrete pipelines meet the hypotheses; the bound is attained -/

/-- Window(3, 2) over Concat(Skip(1) of [1,2,3,4], [5,6]): 3 outputs, 4 provider calls; the bound is
    5 pulls for source 0 (4 elements + EOF) and 3 for source 1, and that is what the run makes -/
example : Ready Props.C04.exWindow := by simp [Props.C04.exWindow, Ready, ReadyList]
example : Spec.eval Props.C04.exWindow = some [.arr [2,3,4], .arr [4,5,6], .arr [6]] := by decide
example : (Spec.demand Props.C04.exWindow (Spec.terminalCalls [.arr [2,3,4], .arr [4,5,6], .arr [6]])).map
    (fun f => (f 0, f 1, f 2)) = some (5, 3, 0) := by decide
example : (fun tr => (pulls tr 0, pulls tr 1)) (consume 40 .collect Props.C04.exWindow {}).2.2.trace = (5, 3) := by
  decide +kernel

/-- a cluster whose factory reads only the first element of each run: all 6 elements + EOF are pulled -/
example : (Spec.demand Props.C04.exCluster (Spec.terminalCalls [.arr [1], .arr [11, 3], .arr [25, 12]])).map
    (fun f => f 0) = some 7 := by decide
example : pulls (consume 40 .user Props.C04.exCluster {}).2.2.trace 0 = 7 := by decide +kernel

/-- laziness: `Limit(2)` over a filter over a 40-element source — the bound (and the run) stops at the second
    match, 4 pulls, whatever follows -/
def exLazy : Pipe := .limit 2 1 (.filter (.mod 2 1) (.src 0 ((List.range 40).map Int.ofNat) 0))
example : Ready exLazy := by simp [exLazy, Ready]
example : Spec.eval exLazy = some [.int 1, .int 3] := by decide
example : (Spec.demand exLazy (Spec.terminalCalls [.int 1, .int 3])).map (fun f => f 0) = some 4 := by decide
example : pulls (consume 60 .collect exLazy {}).2.2.trace 0 = 4 := by decide +kernel

/-- ZipN of a short and a long source under FindFirst: one pull each -/
def exZip : Pipe := .limit 1 1 (.zip (.cons (.src 0 [1, 2] 0) (.cons (.src 1 ((List.range 30).map Int.ofNat) 0) .nil)) 0)
example : Ready exZip := by simp [exZip, Ready, ReadyList]
example : (Spec.demand exZip 2).map (fun f => (f 0, f 1)) = some (1, 1) := by decide
example : (fun tr => (pulls tr 0, pulls tr 1)) (consume 40 .collect exZip {}).2.2.trace = (1, 1) := by
  decide +kernel

end ShpanVerif.Props.C05
