/-
C15 — delta and rate conserve the underlying change.

  * `C15_telescope`, `_int`, `_rat`   DeltaStream on strictly increasing instants = the consecutive differences,
                                      each stamped with the later timestamp; they sum to last − first
  * `C15_delta_rejects`               DeltaStream fails with "not after previous" iff the instants do not strictly increase
  * `C15_align_telescope`, `_int`, `_rat`   AlignDeltaStream's deltas sum to last reading − first reading; stamps
  * `C15_rate`                        rate = delta / elapsed seconds × perSeconds (exact arithmetic)
  * `C15_counter_rule`, `C15_nonneg`  the non-negative variants: reset rule, dropped negatives, every value ≥ 0
  * `C15_repr_independent_align`, `_delta`   results depend on the instants only
-/
import ShpanVerif.Model.Delta
import ShpanVerif.Proofs.ClusterLemmas1415
import ShpanVerif.Proofs.DeltaLemmas

namespace ShpanVerif.Props.C15
open List ShpanVerif.Model.TsB ShpanVerif.Model.Reduce ShpanVerif.Model.Delta ShpanVerif.Proofs.Cl1415
open ShpanVerif.Proofs.Dl

variable {ν δ : Type}

/-- **C15_telescope** (any carrier with the group laws `SubLaws`): on strictly increasing instants DeltaStream
succeeds, emits exactly the consecutive differences — one per consecutive pair, stamped with the later
timestamp — and they sum to the last value minus the first. -/
theorem C15_telescope (N : Num ν δ) (hN : SubLaws N) (x0 : Rec ν) (rest : List (Rec ν)) (hs : StrictFrom x0 rest) :
    deltaStream N (x0 :: rest, none) = (diffs N x0 rest, none) ∧
    (diffs N x0 rest).map (·.ts) = rest.map (·.ts) ∧
    vsum N ((diffs N x0 rest).map (·.v)) = N.sub (lastOf x0 rest).v x0.v := by
  refine ⟨?_, diffs_stamps N rest x0, diffs_telescope N hN rest x0⟩
  simp [deltaStream, deltaGo, deltaGo_strict N rest x0 hs]

theorem vsum_int (D : Dec δ) (l : List Int) : vsum (Num.int D) l = l.sum := by
  induction l with
  | nil => rfl
  | cons a l ih => simp only [vsum, foldr_cons, sum_cons] at ih ⊢; rw [ih]; rfl

theorem vsum_rat (l : List Rat) : vsum (Num.dec Dec.rat) l = l.sum := by
  induction l with
  | nil => rfl
  | cons a l ih => simp only [vsum, foldr_cons, sum_cons] at ih ⊢; rw [ih]; rfl

/-- **C15_telescope (int64)**: `(deltas xs).sum = last − first`. -/
theorem C15_telescope_int (D : Dec δ) (x0 : Rec Int) (rest : List (Rec Int)) (hs : StrictFrom x0 rest) :
    ∃ ds, deltaStream (Num.int D) (x0 :: rest, none) = (ds, none) ∧ ds.map (·.ts) = rest.map (·.ts) ∧
      (ds.map (·.v)).sum = (lastOf x0 rest).v - x0.v := by
  obtain ⟨h1, h2, h3⟩ := C15_telescope (Num.int D) (subLaws_int D) x0 rest hs
  exact ⟨_, h1, h2, by rw [← vsum_int D, h3]; rfl⟩

/-- **C15_telescope (decimal, exact arithmetic)**. -/
theorem C15_telescope_rat (x0 : Rec Rat) (rest : List (Rec Rat)) (hs : StrictFrom x0 rest) :
    ∃ ds, deltaStream (Num.dec Dec.rat) (x0 :: rest, none) = (ds, none) ∧ ds.map (·.ts) = rest.map (·.ts) ∧
      (ds.map (·.v)).sum = (lastOf x0 rest).v - x0.v := by
  obtain ⟨h1, h2, h3⟩ := C15_telescope (Num.dec Dec.rat) subLaws_rat x0 rest hs
  exact ⟨_, h1, h2, by rw [← vsum_rat, h3]; rfl⟩

/-- **C15_delta_rejects**: DeltaStream ends normally iff every record is strictly later than the one before;
otherwise it fails with "item timestamp … is not after previous item timestamp". -/
theorem C15_delta_rejects (N : Num ν δ) (x0 : Rec ν) (rest : List (Rec ν)) :
    ((deltaStream N (x0 :: rest, none)).2 = none ↔ StrictFrom x0 rest) ∧
    ((deltaStream N (x0 :: rest, none)).2 = none ∨ (deltaStream N (x0 :: rest, none)).2 = some .notAfter) := by
  obtain ⟨h1, h2⟩ := deltaGo_err_iff N rest x0
  have e : (deltaStream N (x0 :: rest, none)).2 = (deltaGo N (some x0) rest).2 := by
    simp only [deltaStream, deltaGo]
    cases (deltaGo N (some x0) rest).2 <;> rfl
  rw [e]
  exact ⟨h1, h2⟩

/-- **C15_align_telescope.**  For every series with strictly increasing instants and every tiling period,
AlignDeltaStream succeeds and its deltas sum to the LAST reading minus the FIRST reading (interior aligned
values are interpolations and cancel); the deltas are stamped with the starts of the non-first periods that
contain input, followed — when the last reading is neither on a period boundary nor the only one — by the
end of the last reading's period. -/
theorem C15_align_telescope (N : Num ν δ) (hN : SubLaws N) (D : Dec δ) {p : Period} (hT : Tiles p)
    (x0 : Rec ν) (rest : List (Rec ν)) (hs : StrictFrom x0 rest) :
    ∃ ds, alignDelta N D p (x0 :: rest) = (ds, none) ∧
      vsum N (ds.map (·.v)) = N.sub (lastOf x0 rest).v x0.v ∧
      ds.map (·.ts.inst) =
        ((runs (fun (r : Rec ν) => p.start r.ts.inst) (x0 :: rest)).map (·.1)).drop 1 ++
          (if (lastOf x0 rest).ts.inst ≠ p.start (lastOf x0 rest).ts.inst ∧ (lastOf x0 rest).ts.inst ≠ x0.ts.inst
           then [p.end_ (lastOf x0 rest).ts.inst] else []) := by
  -- notation
  let key := fun (r : Rec ν) => p.start r.ts.inst
  let xn := lastOf x0 rest
  have hstrict := pairwise_of_strictFrom rest x0 hs
  have hsorted : (x0 :: rest).Pairwise (fun a b => a.ts.inst ≤ b.ts.inst) := hstrict.imp (fun {a b} (h : a.ts.inst < b.ts.inst) => (by omega : a.ts.inst ≤ b.ts.inst))
  have hinv := runsInv_init hT (x0 :: rest) hsorted
  obtain ⟨g0, rs', hruns⟩ := runs_head key x0 rest
  obtain ⟨A, hA, hrel⟩ := aligned_ok N D hT (runs key (x0 :: rest)) none hinv
  have hxn_last : (x0 :: rest).getLast? = some xn := (lastOf_eq_getLast rest x0).symm
  have hxn_mem : xn ∈ x0 :: rest := mem_of_getLast? hxn_last
  have hrne : ∀ kg ∈ runs key (x0 :: rest), kg.2 ≠ [] := fun kg hkg => (hinv.1 kg hkg).1
  -- the shared cells
  have hgf : (attachPrev none (runs key (x0 :: rest))).head?.bind (fun c => c.2.2.head?) = some x0 := by
    rw [hruns]; simp [attachPrev]
  have hgl : (attachPrev none (runs key (x0 :: rest))).getLast?.bind (fun c => c.2.2.getLast?) = some xn := by
    have h1 := flatMap_getLast (runs key (x0 :: rest)) hrne
    rw [runs_flatten, hxn_last] at h1
    have h2 : (attachPrev none (runs key (x0 :: rest))).getLast?.bind (fun c => c.2.2.getLast?)
        = (runs key (x0 :: rest)).getLast?.bind (fun kg => kg.2.getLast?) := by
      conv => rhs; rw [← attachPrev_map_items none (runs key (x0 :: rest))]
      rw [getLast?_map]
      cases (attachPrev none (runs key (x0 :: rest))).getLast? <;> rfl
    rw [h2, ← h1]
  -- the first aligned record carries the first reading
  rw [hruns] at hrel hA
  simp only [attachPrev] at hrel hA
  cases hrel with
  | @cons a0 c0 A' cs' hr0 hrel' =>
    have ha0ts : a0.ts = ⟨key x0, p.loc⟩ := hr0.1
    have ha0v : a0.v = x0.v := hr0.2 x0 rfl (Or.inl rfl)
    -- stamps of the aligned records = keys of the runs
    have hkeysA : (a0 :: A').map (·.ts.inst) = (runs key (x0 :: rest)).map (·.1) := by
      have := All2.map_eq (fun (a : Rec ν) => a.ts.inst) (fun (c : Int × Option (Rec ν) × List (Rec ν)) => c.1)
        (All2.cons hr0 hrel') (fun a c h => by rw [h.1])
      rw [this, hruns]
      simp [attachPrev_keys]
    have hkeys_lt : ((runs key (x0 :: rest)).map (·.1)).Pairwise (· < ·) := hinv.2.1
    -- every run key is at most the key of the last reading
    have hkey_le : ∀ k ∈ (runs key (x0 :: rest)).map (·.1), k ≤ key xn := by
      intro k hk
      obtain ⟨kg, hkg, rfl⟩ := mem_map.mp hk
      obtain ⟨hne, hall⟩ := hinv.1 kg hkg
      obtain ⟨y, hy⟩ := exists_mem_of_ne_nil _ hne
      have hyx : y ∈ x0 :: rest := mem_of_mem_runs key _ kg hkg y hy
      rw [← hall y hy]
      apply tiles_mono' hT
      -- y ≤ xn in time: xn is the last element
      have : ∀ (l : List (Rec ν)) (z : Rec ν), l.Pairwise (fun a b => a.ts.inst ≤ b.ts.inst) → l.getLast? = some z →
          ∀ y ∈ l, y.ts.inst ≤ z.ts.inst := by
        intro l
        induction l with
        | nil => intro z _ h; simp at h
        | cons a l ih =>
          intro z hp hl y hy
          cases l with
          | nil => simp at hl hy; subst hl; subst hy; omega
          | cons b l' =>
            rw [getLast?_cons_cons] at hl
            rcases mem_cons.mp hy with rfl | hy
            · exact (pairwise_cons.mp hp).1 z (mem_of_getLast? hl)
            · exact ih z (pairwise_cons.mp hp).2 hl y hy
      exact this _ xn hsorted hxn_last y hyx
    -- the data stream
    have hdata : alignDelta N D p (x0 :: rest) =
        deltaStream N ((a0 :: A') ++ adTail p (some x0) (some xn), none) := by
      unfold alignDelta
      simp only [clustersAll_eq_runs]
      rw [hgf, hgl]
      rw [hruns]
      simp only [attachPrev, hA]
    -- the appended element
    have htail : adTail p (some x0) (some xn) =
        if xn.ts.inst ≠ p.start xn.ts.inst ∧ xn.ts.inst ≠ x0.ts.inst then [⟨p.endTime xn.ts, xn.v⟩] else [] := by
      simp only [adTail, bne_iff_ne, ne_eq, Bool.and_eq_true]
    -- strictly increasing stamps of aligned ++ tail
    have hpw : ((a0 :: A') ++ adTail p (some x0) (some xn)).Pairwise (fun a b => a.ts.inst < b.ts.inst) := by
      rw [pairwise_append]
      refine ⟨?_, ?_, ?_⟩
      · have := hkeys_lt
        rw [← hkeysA, pairwise_map] at this
        exact this
      · rw [htail]; split <;> simp
      · intro a ha b hb
        rw [htail] at hb
        split at hb
        · simp only [mem_singleton] at hb
          subst hb
          have h1 : a.ts.inst ∈ (runs key (x0 :: rest)).map (·.1) := by
            rw [← hkeysA]; exact mem_map.mpr ⟨a, ha, rfl⟩
          have h2 := hkey_le _ h1
          have h3 := hT.start_le xn.ts.inst
          have h4 := hT.lt_end xn.ts.inst
          simp only [Period.endTime]
          show a.ts.inst < p.end_ xn.ts.inst
          have : key xn = p.start xn.ts.inst := rfl
          omega
        · simp at hb
    have hstrictA : StrictFrom a0 (A' ++ adTail p (some x0) (some xn)) :=
      strictFrom_of_pairwise _ a0 (by simpa using hpw)
    refine ⟨diffs N a0 (A' ++ adTail p (some x0) (some xn)), ?_, ?_, ?_⟩
    · rw [hdata]
      simp only [deltaStream, cons_append, deltaGo, deltaGo_strict N _ a0 hstrictA]
    · rw [diffs_telescope N hN, ha0v]
      congr 1
      -- the value carried by the last element of aligned ++ tail is the last reading
      rw [htail]
      split
      · rw [lastOf_append_singleton]
      · rename_i hcond
        simp only [append_nil]
        -- no element appended: the last reading is on a boundary, or it is the only one
        have hlastA := lastOf_eq_getLast A' a0
        obtain ⟨cl, hcl⟩ : ∃ cl, ((key x0, (none : Option (Rec ν)), x0 :: g0) ::
            attachPrev (x0 :: g0).getLast? rs').getLast? = some cl := by
          cases h : ((key x0, (none : Option (Rec ν)), x0 :: g0) :: attachPrev (x0 :: g0).getLast? rs').getLast? with
          | none => simp at h
          | some cl => exact ⟨cl, rfl⟩
        obtain ⟨al, hal, hRl⟩ := All2.getLast (All2.cons hr0 hrel') cl hcl
        rw [← hlastA] at hal
        simp only [Option.some.injEq] at hal
        subst hal
        have hcl' : (attachPrev none (runs key (x0 :: rest))).getLast? = some cl := by
          rw [hruns]; simpa [attachPrev] using hcl
        obtain ⟨hlastrun, hfirst⟩ := attachPrev_getLast _ hrne none cl hcl'
        -- the last run ends with the last reading
        have hgl' := flatMap_getLast (runs key (x0 :: rest)) hrne
        rw [runs_flatten, hxn_last, hlastrun] at hgl'
        simp only [Option.bind_some] at hgl'
        have hclmem : (cl.1, cl.2.2) ∈ runs key (x0 :: rest) := mem_of_getLast? hlastrun
        obtain ⟨hclne, hclkeys⟩ := hinv.1 _ hclmem
        obtain ⟨lf, gl', hglf⟩ := exists_cons_of_ne_nil hclne
        simp only at hglf
        have hxn_in : xn ∈ cl.2.2 := mem_of_getLast? hgl'.symm
        have hkxn : key xn = cl.1 := hclkeys xn hxn_in
        by_cases hsingle : rest = []
        · -- a single reading
          subst hsingle
          have hr : runs key [x0] = [(key x0, [x0])] := rfl
          rw [hr] at hruns
          simp only [cons.injEq, Prod.mk.injEq, true_and] at hruns
          obtain ⟨hg0, hrs'⟩ := hruns
          rw [← hg0, ← hrs'] at hcl
          simp only [attachPrev, getLast?_singleton, Option.some.injEq] at hcl
          subst hcl
          exact hRl.2 x0 rfl (Or.inl rfl)
        · -- at least two readings: the last one is strictly later than the first, hence on its boundary
          have hx0lt : x0.ts.inst < xn.ts.inst := by
            obtain ⟨y, ys, hrest⟩ := exists_cons_of_ne_nil hsingle
            have hmem : xn ∈ rest := by
              have := hxn_last
              rw [hrest, getLast?_cons_cons] at this
              rw [hrest]; exact mem_of_getLast? this
            exact (pairwise_cons.mp hstrict).1 xn hmem
          have hbnd : xn.ts.inst = p.start xn.ts.inst := by
            have h3 := hcond
            simp only [ne_eq, not_and, Decidable.not_not] at h3
            by_cases hb : xn.ts.inst = p.start xn.ts.inst
            · exact hb
            · have := h3 hb; omega
          -- every record of the last run has the instant of the boundary, so the run is the single last reading
          have hrun_strict : cl.2.2.Pairwise (fun a b => a.ts.inst < b.ts.inst) := by
            have hsub : cl.2.2.Sublist (x0 :: rest) := by
              have : cl.2.2.Sublist ((runs key (x0 :: rest)).flatMap (·.2)) := by
                obtain ⟨l1, l2, hsplit⟩ := append_of_mem hclmem
                rw [hsplit, flatMap_append, flatMap_cons]
                exact (sublist_append_left _ _).trans (sublist_append_right _ _)
              rw [runs_flatten] at this
              exact this
            exact hstrict.sublist hsub
          have hlf_eq : lf = xn := by
            rw [hglf] at hrun_strict hxn_in hclkeys
            rcases mem_cons.mp hxn_in with h | h
            · exact h.symm
            · exfalso
              have h1 := (pairwise_cons.mp hrun_strict).1 xn h
              have h2 := hclkeys lf (by simp)
              have h3 := hT.start_le lf.ts.inst
              simp only [key] at hkxn
              omega
          have hv := hRl.2 lf (by rw [hglf]; rfl) (Or.inr (by
            rw [hlf_eq]; simp only [key] at hkxn; omega))
          rw [hv, hlf_eq]
    · have hst : (diffs N a0 (A' ++ adTail p (some x0) (some xn))).map (·.ts.inst)
          = (A' ++ adTail p (some x0) (some xn)).map (·.ts.inst) := by
        have := congrArg (List.map (fun (t : Time) => t.inst)) (diffs_stamps N (A' ++ adTail p (some x0) (some xn)) a0)
        simpa [map_map, Function.comp_def] using this
      rw [hst, map_append, ← hkeysA, map_cons, drop_one, tail_cons, htail]
      congr 1
      split <;> simp [Period.endTime] <;> rfl

/-- **C15_align_telescope (int64)**. -/
theorem C15_align_telescope_int (D : Dec δ) {p : Period} (hT : Tiles p) (x0 : Rec Int) (rest : List (Rec Int))
    (hs : StrictFrom x0 rest) :
    ∃ ds, alignDelta (Num.int D) D p (x0 :: rest) = (ds, none) ∧
      (ds.map (·.v)).sum = (lastOf x0 rest).v - x0.v := by
  obtain ⟨ds, h1, h2, _⟩ := C15_align_telescope (Num.int D) (subLaws_int D) D hT x0 rest hs
  exact ⟨ds, h1, by rw [← vsum_int D, h2]; rfl⟩

/-- **C15_align_telescope (decimal, exact arithmetic)**. -/
theorem C15_align_telescope_rat {p : Period} (hT : Tiles p) (x0 : Rec Rat) (rest : List (Rec Rat))
    (hs : StrictFrom x0 rest) :
    ∃ ds, alignDelta (Num.dec Dec.rat) Dec.rat p (x0 :: rest) = (ds, none) ∧
      (ds.map (·.v)).sum = (lastOf x0 rest).v - x0.v := by
  obtain ⟨ds, h1, h2, _⟩ := C15_align_telescope (Num.dec Dec.rat) subLaws_rat Dec.rat hT x0 rest hs
  exact ⟨ds, h1, by rw [← vsum_rat, h2]; rfl⟩

/-- **C15_counter_rule**: `newNonNegativeCounterDeltaFunc` (both variants): a negative reading is dropped; a
decrease is a reset — the current value, or `(max − prev) + curr` when a maximum is given; otherwise the
difference; and for `0 ≤ curr` and `prev ≤ max` (when given) the emitted delta is never negative. -/
theorem C15_counter_rule (mx curr prev : Rat) :
    nonNegDelta Dec.rat mx curr prev =
      (if curr < 0 then (0, false)
       else if curr < prev then (if 0 < mx then (mx - prev) + curr else curr, true)
       else (curr - prev, true)) ∧
    (0 ≤ curr → (0 < mx → prev ≤ mx) →
      (nonNegDelta Dec.rat mx curr prev).2 = true ∧ 0 ≤ (nonNegDelta Dec.rat mx curr prev).1) :=
  ⟨nonNegDelta_rule mx curr prev, nonNegDelta_nonneg mx curr prev⟩

/-- **C15_nonneg (delta filter)**: with the non-negative option, for well-typed readings that never exceed the
maximum counter value (when one is given), the filter never fails, emits exactly one value per NON-NEGATIVE
reading after the first (negative readings are dropped), stamped with that reading's timestamp, and every
emitted value is ≥ 0 and of the declared type. -/
theorem C15_nonneg (dt : DType) (hnum : dt.isNumeric = true) (mx : Rat) :
    ∀ (xs : List (Rec (Val Rat))) (pr : Rec (Val Rat)),
      (∀ x ∈ pr :: xs, x.v.dtype = dt) → (∀ x ∈ pr :: xs, 0 < mx → valQ x.v ≤ mx) →
      ∃ out, deltaFilterGo Dec.rat dt true mx (some pr) xs = (out, none) ∧
        (∀ r ∈ out, r.v.dtype = dt ∧ 0 ≤ valQ r.v) ∧
        out.map (·.ts) = (xs.filter (fun x => decide (0 ≤ valQ x.v))).map (·.ts) := by
  intro xs
  induction xs with
  | nil => intro pr _ _; exact ⟨[], rfl, by simp, rfl⟩
  | cons x xs ih =>
    intro pr hty hb
    have hx := toFloat64_rat dt hnum x.v (hty x (by simp))
    have hp := toFloat64_rat dt hnum pr.v (hty pr (by simp))
    simp only [deltaFilterGo, if_true, hx, hp]
    by_cases hneg : valQ x.v < 0
    · -- dropped: the previous reading stays
      have hd := nonNegDelta_drop mx (valQ x.v) (valQ pr.v) hneg
      simp only [hd, Bool.not_false, if_true]
      obtain ⟨out, h1, h2, h3⟩ := ih pr (fun y hy => hty y (by
        rcases mem_cons.mp hy with rfl | hy <;> simp [*])) (fun y hy => hb y (by
        rcases mem_cons.mp hy with rfl | hy <;> simp [*]))
      refine ⟨out, h1, h2, ?_⟩
      have : decide (0 ≤ valQ x.v) = false := by simp only [decide_eq_false_iff_not]; grind
      simp [this, h3]
    · have hnn : 0 ≤ valQ x.v := by grind
      obtain ⟨hemit, hval⟩ := nonNegDelta_nonneg mx (valQ x.v) (valQ pr.v) hnn (hb pr (by simp))
      obtain ⟨out, h1, h2, h3⟩ := ih x (fun y hy => hty y (by simp [hy])) (fun y hy => hb y (by simp [hy]))
      have hfilt : decide (0 ≤ valQ x.v) = true := by simpa using hnn
      simp only [hemit, Bool.not_true, Bool.false_eq_true, if_false]
      by_cases hreset : valQ x.v < valQ pr.v
      · obtain ⟨v, hv1, hv2, hv3⟩ := fromFloat64_rat dt hnum _ hval
        have : Dec.rat.lt (valQ x.v) (valQ pr.v) = true := by simpa [Dec.rat] using hreset
        simp only [this, if_true, hv1, h1]
        refine ⟨_, rfl, ?_, by simp [hfilt, h3]⟩
        intro r hr
        rcases mem_cons.mp hr with rfl | hr
        · exact ⟨hv2, hv3⟩
        · exact h2 r hr
      · obtain ⟨v, hv1, hv2, hv3⟩ := subVal_rat dt hnum x.v pr.v (hty x (by simp)) (hty pr (by simp))
        have : Dec.rat.lt (valQ x.v) (valQ pr.v) = false := by simpa [Dec.rat] using hreset
        simp only [this, Bool.false_eq_true, if_false, hv1, h1]
        refine ⟨_, rfl, ?_, by simp [hfilt, h3]⟩
        intro r hr
        rcases mem_cons.mp hr with rfl | hr
        · exact ⟨hv2, by rw [hv3]; grind⟩
        · exact h2 r hr


/-- the rates of consecutive records: (later − earlier) / elapsed seconds × perSeconds, stamped with the later -/
def rates (ps : Int) : Rec (Val Rat) → List (Rec (Val Rat)) → List (Rec (Val Rat))
  | _, [] => []
  | pr, x :: xs =>
    { ts := x.ts,
      v := .d ((valQ x.v - valQ pr.v) / (((x.ts.inst - pr.ts.inst : Int) : Rat) / 1000000000) * (ps : Rat)) }
      :: rates ps x xs

/-- consecutive records never share an instant -/
def DistinctFrom : Rec (Val Rat) → List (Rec (Val Rat)) → Prop
  | _, [] => True
  | pr, x :: xs => pr.ts.inst ≠ x.ts.inst ∧ DistinctFrom x xs

/-- **C15_rate**: without the non-negative option the rate filter emits, for each consecutive pair of well-typed
records at different instants, `delta / elapsed seconds × perSeconds` as a decimal, stamped with the later
timestamp (exact arithmetic). -/
theorem C15_rate (dt : DType) (hnum : dt.isNumeric = true) (ps : Int) (mx : Rat) :
    ∀ (xs : List (Rec (Val Rat))) (pr : Rec (Val Rat)), (∀ x ∈ pr :: xs, x.v.dtype = dt) → DistinctFrom pr xs →
      rateGo Dec.rat dt ps false mx (some pr) xs = (rates ps pr xs, none) := by
  intro xs
  induction xs with
  | nil => intro pr _ _; rfl
  | cons x xs ih =>
    intro pr hty hd
    obtain ⟨hne, hd'⟩ := hd
    have hx := toFloat64_rat dt hnum x.v (hty x (by simp))
    have hp := toFloat64_rat dt hnum pr.v (hty pr (by simp))
    have hsec : secs Dec.rat (x.ts.inst - pr.ts.inst) ≠ 0 := by
      rw [secs_rat]
      have : ((x.ts.inst - pr.ts.inst : Int) : Rat) ≠ 0 := by
        intro h
        have : x.ts.inst - pr.ts.inst = 0 := by exact_mod_cast h
        omega
      grind
    have hz : ∀ s : Rat, s ≠ 0 → (!Dec.rat.lt s Dec.rat.zero && !Dec.rat.lt Dec.rat.zero s) = false := by
      intro s hs
      simp only [Dec.rat, Bool.and_eq_false_iff, Bool.not_eq_false', decide_eq_true_eq]
      grind
    have hz' := hz _ hsec
    simp only [rateGo, hx, hp, Bool.false_eq_true, if_false, Bool.not_true, hz',
      ih x (fun y hy => hty y (by simp [hy])) hd', rates]
    rw [secs_rat]
    simp [Dec.rat, Rat.intCast_sub]

/-- **C15_repr_independent (AlignDeltaStream)**: two inputs with the same instants and values give the same result. -/
theorem C15_repr_independent_align (N : Num ν δ) (D : Dec δ) (p : Period) (xs ys : List (Rec ν)) (h : xs.map er = ys.map er) :
    alignDelta N D p xs = alignDelta N D p ys := by
  rw [← alignDelta_er N D p xs, ← alignDelta_er N D p ys, h]


/-- **C15_repr_independent (DeltaStream)**. -/
theorem C15_repr_independent_delta (N : Num ν δ) (xs ys : List (Rec ν)) (h : xs.map er = ys.map er) :
    (deltaStream N (xs, none)).1.map er = (deltaStream N (ys, none)).1.map er ∧
    (deltaStream N (xs, none)).2 = (deltaStream N (ys, none)).2 := by
  have hx := deltaGo_er N xs none
  have hy := deltaGo_er N ys none
  simp only [Option.map_none] at hx hy
  rw [h] at hx
  rw [hx] at hy
  simp only [deltaStream, Prod.mk.injEq] at hy ⊢
  constructor
  · exact hy.1
  · rw [hy.2]

/-! ### Non-vacuity: concrete inputs meeting the hypotheses, and the D15 witness -/

def exSeries : List (Rec Int) := [⟨⟨4, 1⟩, 7⟩, ⟨⟨12, 0⟩, 12⟩, ⟨⟨27, 2⟩, 20⟩]
example : StrictFrom (⟨⟨1, 0⟩, 5⟩ : Rec Int) exSeries := by simp [StrictFrom, exSeries]
-- DeltaStream: differences stamped with the later timestamp (Location carried along), telescoping to 20 - 5
example : deltaStream (Num.int Dec.rat) (⟨⟨1, 0⟩, 5⟩ :: exSeries, none)
    = ([⟨⟨4, 1⟩, 2⟩, ⟨⟨12, 0⟩, 5⟩, ⟨⟨27, 2⟩, 8⟩], none) := by decide
example : deltaStream (Num.int Dec.rat) ([⟨⟨1, 0⟩, 5⟩, ⟨⟨1, 3⟩, 6⟩], none) = ([], some .notAfter) := by decide
-- AlignDeltaStream over three periods of length 10: the deltas sum to 20 - 5 = 15
example : ∃ ds, alignDelta (Num.int Dec.rat) Dec.rat (fixedPeriod 10 0) (⟨⟨1, 0⟩, 5⟩ :: exSeries) = (ds, none) ∧
    (ds.map (·.v)).sum = 15 :=
  C15_align_telescope_int Dec.rat (tiles_fixed 10 (by decide) 0) ⟨⟨1, 0⟩, 5⟩ exSeries (by simp [StrictFrom, exSeries])
-- D15 witness: a last reading exactly on a period boundary (instant 20) carried in another Location (id 3)
-- gives the same result as in the period's own Location: nothing is appended for it
example : alignDelta (Num.int Dec.rat) Dec.rat (fixedPeriod 10 0) [⟨⟨1, 0⟩, 5⟩, ⟨⟨20, 3⟩, 9⟩]
    = alignDelta (Num.int Dec.rat) Dec.rat (fixedPeriod 10 0) [⟨⟨1, 0⟩, 5⟩, ⟨⟨20, 0⟩, 9⟩] :=
  C15_repr_independent_align _ _ _ _ _ rfl
example : adTail (fixedPeriod 10 0) (some (⟨⟨1, 0⟩, 5⟩ : Rec Int)) (some ⟨⟨20, 3⟩, 9⟩) = [] := by decide
example : adTail (fixedPeriod 10 0) (some (⟨⟨1, 0⟩, 5⟩ : Rec Int)) (some ⟨⟨27, 3⟩, 9⟩) = [⟨⟨30, 0⟩, 9⟩] := by decide
-- the counter rule: reset without / with a maximum, dropped negative reading
example : nonNegDelta Dec.rat 0 2 7 = (2, true) := by
  rw [nonNegDelta_rule]
  have h1 : ¬ ((2:Rat) < 0) := by grind
  have h2 : (2:Rat) < 7 := by grind
  have h3 : ¬ ((0:Rat) < 0) := by grind
  simp only [h1, h2, h3, if_true, if_false]
example : nonNegDelta Dec.rat 10 2 7 = (5, true) := by
  rw [nonNegDelta_rule]
  have h1 : ¬ ((2:Rat) < 0) := by grind
  have h2 : (2:Rat) < 7 := by grind
  have h3 : (0:Rat) < 10 := by grind
  simp only [h1, h2, h3, if_true, if_false]
  congr 1; grind
example : (nonNegDelta Dec.rat 10 (-1) 7).2 = false := nonNegDelta_drop _ _ _ (by grind)

end ShpanVerif.Props.C15
