/-
Substrate of the sequential pipeline model (DESIGN.md §4): values, user-function DSL, errors,
the probe world (open set, fault plan, call positions, trace).  Core Lean only.

The Go harness (`harness/run/pipe_*.go`) implements exactly these probes around the real library:
* a probe *source* (`stream.NewStream(probe)`): Open / Emit / Close, behaves like `stream.Just`
  (Open and Close reset the index), every Open and Emit is a numbered *call position*;
* a probe *lifecycle* (`WithAdditionalLifecycle(probe)`): Open is a call position;
* user callbacks (mapper, predicate, cluster factory, consumer): each invocation is a call position.
A fault plan `(pos, kind)` makes the call with that number fail: `err` returns an error,
`panicErr`/`panicVal` panic with an error / a plain value, `cancel` cancels the caller's context
at that moment and lets the call proceed.
-/
namespace ShpanVerif.Model.Pipe

/-- Stream elements: integers, or one level of slices (windows, zip rows, cluster results). -/
inductive V where
  | int (n : Int)
  | arr (xs : List Int)
  deriving DecidableEq, Repr, Inhabited

def V.flat : V → List Int
  | .int n => [n]
  | .arr xs => xs

def V.key : V → Int
  | .int n => n
  | .arr xs => xs.headD 0

/-- Named mappers of the DSL (total on `V`). -/
inductive Fn where
  | id | add (k : Int) | mul (k : Int) | sum | len
  deriving DecidableEq, Repr

def Fn.app : Fn → V → V
  | .id, v => v
  | .add k, .int n => .int (n + k)
  | .add k, .arr xs => .arr (xs.map (· + k))
  | .mul k, .int n => .int (n * k)
  | .mul k, .arr xs => .arr (xs.map (· * k))
  | .sum, v => .int v.flat.sum
  | .len, v => .int v.flat.length

/-- Named predicates of the DSL. `mod k r`: key mod k = r (k ≠ 0, Go `%` semantics on the harness side
are avoided by keeping k > 0 and using Euclidean remainder on both sides). -/
inductive Pred where
  | tt | ff | mod (k r : Int) | lt (k : Int)
  deriving DecidableEq, Repr

def Pred.app : Pred → V → Bool
  | .tt, _ => true
  | .ff, _ => false
  | .mod k r, v => v.key.emod k == r
  | .lt k, v => v.key < k

/-- Cluster factories: how much of its cluster the factory reads (DESIGN C04). -/
inductive Fac where
  | first            -- clusterStream.FindFirst().Get(ctx)
  | sum              -- Reduce over the whole cluster; reports the sum and lastItemOnPreviousCluster
  | firstk (j : Int) -- clusterStream.Limit(j).Collect(ctx), summed; also reports lastItemOnPreviousCluster
  | none             -- reads nothing, returns the classifier
  | firstprev        -- first element together with lastItemOnPreviousCluster
  deriving DecidableEq, Repr

inductive FaultKind where
  | err | panicErr | panicVal | cancel
  /-- a user callback returns `io.EOF` itself (must not be taken for end of stream); identical to `err`
      in the model because mapper / predicate / factory errors are wrapped and Open errors are wrapped -/
  | errEof
  deriving DecidableEq, Repr

/-- Error class = what survives canonicalisation: the root cause. Wrapping keeps the root. -/
inductive Root where
  | user      -- the injected error is in the chain (errors.Is)
  | ctx       -- context.Canceled is in the chain
  | panicVal  -- a recovered non-error panic value ("stream recovered error value")
  | lib (tag : String)
  deriving DecidableEq, Repr

/-- Result of a provider call. `oof` (out of fuel) only exists in the model: it is propagated
unchanged to the top and never handled, so theorems read "`oof` or …". -/
inductive Res (α : Type) where
  | val (a : α)
  | eof
  | fail (e : Root)
  | panic (isErr : Bool)   -- payload is the injected error (true) or a plain value (false)
  | oof
  deriving Repr

inductive Event where
  | openOk (r : Nat) | openFail (r : Nat) | emit (r : Nat) | close (r : Nat) | call (pos : Nat)
  deriving DecidableEq, Repr

def upd (f : Nat → Bool) (r : Nat) (b : Bool) : Nat → Bool := fun x => if x = r then b else f x

structure World where
  isOpen : Nat → Bool := fun _ => false
  /-- sticky: a resource was opened while open, closed while not open, or pulled while not open -/
  bad : Bool := false
  calls : Nat := 0
  fault : Option (Nat × FaultKind) := none
  cancelled : Bool := false
  /-- ghost: the fault plan has fired (its call position was reached) -/
  fired : Bool := false
  trace : List Event := []

inductive Hit where
  | none | err | panic (isErr : Bool)
  deriving DecidableEq, Repr

/-- Every probe call: take the next call position and see whether the fault plan hits it. -/
def World.call (w : World) : Hit × World :=
  let w' := { w with calls := w.calls + 1, trace := w.trace ++ [Event.call w.calls] }
  match w.fault with
  | some (pos, k) =>
    if pos = w.calls then
      let w' := { w' with fired := true }
      match k with
      | .err => (.err, w')
      | .errEof => (.err, w')
      | .panicErr => (.panic true, w')
      | .panicVal => (.panic false, w')
      | .cancel => (.none, { w' with cancelled := true })
    else (.none, w')
  | none => (.none, w')

/-- Probe `Open` (source provider or lifecycle element). -/
def openRes (r : Nat) (w : World) : Res Unit × World :=
  match w.call with
  | (.none, w) => (.val (), { w with isOpen := upd w.isOpen r true, bad := w.bad || w.isOpen r,
                                      trace := w.trace ++ [Event.openOk r] })
  | (.err, w) => (.fail .user, { w with trace := w.trace ++ [Event.openFail r] })
  | (.panic b, w) => (.panic b, { w with trace := w.trace ++ [Event.openFail r] })

/-- Probe `Close`. -/
def closeRes (r : Nat) (w : World) : World :=
  { w with isOpen := upd w.isOpen r false, bad := w.bad || !w.isOpen r, trace := w.trace ++ [Event.close r] }

/-- Probe source `Emit`: a call position; pulling a source that is not open is `bad`. -/
def emitRes (r : Nat) (w : World) : Hit × World :=
  match w.call with
  | (h, w) => (h, { w with bad := w.bad || !w.isOpen r, trace := w.trace ++ [Event.emit r] })

/-- User callback invocation (mapper / predicate / factory / consumer). -/
def userCall (w : World) : Hit × World := w.call

/-- Go's `recover` in the terminal operation: a panic becomes an error. -/
def recovered (isErr : Bool) : Root := if isErr then .user else .panicVal

end ShpanVerif.Model.Pipe
