/-
Model of the gap filler (C16):
  utils/timeseries/ts_gap_filler_stream.go                       (NewTsGapFillerStream)
  utils/timeseries/tsquery/datasource/aligner_filter.go:95-108   (fill wrapper of the datasource filter)
  utils/timeseries/tsquery/report/aligner_report_filter.go:92-104 (fill wrapper of the report filter)

Every time comparison in ts_gap_filler_stream.go is `After` / `Equal` (instants only) and the emitted
timestamps are observed as instants, so a record here is `(instant, value)`.
State = the five captured variables of the closure + the not yet pulled rest of the source stream
(`stream.Just`: no source errors).  The outer `for {}` of the emit function returns on every path of its
first iteration, so one `Emit` is a straight-line function; the inner "advance" loop consumes source items
and is structurally recursive on the rest of the source.  Only `Collect` needs fuel.
-/
import ShpanVerif.Model.Align

namespace ShpanVerif.Model.GapFill
open ShpanVerif.Model.Align

/-- `FillMode` (fill_mode.go); `other` = any other string. -/
inductive FillMode where
  | linear | forwardFill | other
  deriving DecidableEq, Repr

abbrev Pt (β : Type) := Int × β

structure GState (β : Type) where
  prev : Option (Pt β)        -- prevPoint
  next : Option (Pt β)        -- nextPoint
  expected : Int              -- expectedTs
  initialized : Bool
  exhausted : Bool
  src : List (Pt β)

def ginit {β} (xs : List (Pt β)) : GState β := ⟨none, none, 0, false, false, xs⟩

section
variable {β : Type}

/-- The advance loop (ts_gap_filler_stream.go:51-63): consume points whose timestamp is not after `e`. -/
def advance (e : Int) : Option (Pt β) → Option (Pt β) → List (Pt β) →
    Option (Pt β) × Option (Pt β) × List (Pt β)
  | prev, none, src => (prev, none, src)
  | prev, some n, src =>
    if n.1 ≤ e then                                               -- !nextPoint.Timestamp.After(expectedTs)
      match src with
      | [] => (some n, none, [])                                  -- :55-56 EOF
      | x :: xs => advance e (some n) (some x) xs                 -- :61
    else (prev, some n, src)

/-- One `Emit` of the gap filler (ts_gap_filler_stream.go:33-110).  `none` = io.EOF.
`interp target t1 v1 t2 v2` is `interpolateFn`, `copy` is `copyFn`. -/
def gemit (P : Period) (mode : FillMode)
    (interp : Int → Int → β → Int → β → Except Err β) (copy : β → β)
    (s : GState β) : Option (Except Err (Pt β)) × GState β :=
  -- :35-43 initialise on the first call
  let s0 : Option (GState β) :=
    if s.initialized then some s
    else
      match s.src with
      | [] => none                                                -- :37-39 source EOF is returned as is
      | f :: rest => some { s with next := some f, expected := f.1, initialized := true, src := rest }
  match s0 with
  | none => (none, s)
  | some s =>
    if s.exhausted then (none, s)                                 -- :46-48
    else
      let (prev, next, src) := advance s.expected s.prev s.next s.src
      let s := { s with prev := prev, next := next, src := src }
      -- :66-74 exact match
      let exact : Option (Pt β) :=
        match prev with
        | some p => if p.1 = s.expected then some p else none
        | none => none
      match exact with
      | some p =>
        (some (.ok (s.expected, p.2)),
          { s with expected := P.stop s.expected, exhausted := s.exhausted || next.isNone })
      | none =>
        match next with
        | none => (none, s)                                       -- :77-79
        | some n =>
          match prev with
          | none => (none, s)                                     -- :107-108 ("should not reach here")
          | some p =>
            match mode with                                       -- :85-101
            | .linear =>
              match interp s.expected p.1 p.2 n.1 n.2 with
              | .error e => (some (.error e), s)
              | .ok v => (some (.ok (s.expected, v)), { s with expected := P.stop s.expected })
            | .forwardFill =>
              (some (.ok (s.expected, copy p.2)), { s with expected := P.stop s.expected })
            | .other => (some (.error .badMode), s)

/-- `Limit(budget).Collect`: the collected records and whether EOF was reached within the budget
(`false` = the step budget ran out: the stream may be endless). -/
def gcollect (P : Period) (mode : FillMode)
    (interp : Int → Int → β → Int → β → Except Err β) (copy : β → β) :
    Nat → GState β → Except Err (List (Pt β) × Bool)
  | 0, _ => .ok ([], false)
  | fuel+1, s =>
    match gemit P mode interp copy s with
    | (none, _) => .ok ([], true)
    | (some (.error e), _) => .error e
    | (some (.ok r), s') =>
      match gcollect P mode interp copy fuel s' with
      | .ok (l, fin) => .ok (r :: l, fin)
      | .error e => .error e

/-- `NewTsGapFillerStream(Just(xs...), P, mode, interp, copy)` consumed under a step budget. -/
def gapFill (P : Period) (mode : FillMode)
    (interp : Int → Int → β → Int → β → Except Err β) (copy : β → β)
    (budget : Nat) (xs : List (Pt β)) : Except Err (List (Pt β) × Bool) :=
  gcollect P mode interp copy budget (ginit xs)

end

/-! ## The fill wrappers of the two tsquery filters: aligner, then gap filler with the filter's own
`timeWeightedAverage` as `interpolateFn` -/
section filters
variable {V : Type} (A : Arith V)

def toPts {β} (l : List (Rec β)) : List (Pt β) := l.map (fun r => (r.ts.inst, r.val))

/-- datasource `NewInterpolatingAlignerFilter(P, mode).Filter` (copyFn = identity). -/
def fillField (dt : DType) (P : Period) (mode : FillMode) (budget : Nat) (xs : List (Rec (Cell V))) :
    Except Err (List (Pt (Cell V)) × Bool) :=
  match alignField A dt P xs with
  | .error e => .error e
  | .ok al => gapFill P mode (twa (coreField A dt)) id budget (toPts al)

/-- report `NewInterpolatingAlignerFilter(P, mode).Filter` (copyFn = fresh copy of the row: same value). -/
def fillRows (dts : List DType) (P : Period) (mode : FillMode) (budget : Nat)
    (xs : List (Rec (List (Cell V)))) : Except Err (List (Pt (List (Cell V))) × Bool) :=
  match alignRows A dts P xs with
  | .error e => .error e
  | .ok al => gapFill P mode (twa (fun di dt => coreRow A di dt dts)) id budget (toPts al)

end filters

end ShpanVerif.Model.GapFill
