/-
Model of `stream.Buffered(s, size)` (`stream/buffered_stream.go`) inside one materialisation by the sequential
terminal, as a small-step transition system.  Pipeline:  source provider P → Buffered(size) → downstream + terminal.

Goroutines: the filler (buffered_stream.go:53-79), which runs a complete *inner* sequential terminal over the source
(`s.Consume(ctx, cb)` :57 → shpan_stream.go:97-151: open P, loop {ctx check; P.Emit; callback}, deferred close of P)
and therefore is the only goroutine that ever touches P; and the consumer goroutine running the outer terminal, whose
pulls are `FromChannel`'s select (channel_stream_provider.go:21-32) followed by Buffered's unpacking
(buffered_stream.go:25-37, with the repair of D7 at :28-32).

Contexts: ctx0 = caller ctx (outer terminal's check shpan_stream.go:134 and the pull's select);
ctx1 = the outer materialisation ctx (doOpenStream, shpan_stream.go:300), handed to the lifecycle Open :42 and hence
to the filler: inner ctx check, P.Emit(ctx1), the callback's select :59-62 and the final select :67-77 all use it.
ctx1 is cancelled by ctx0 or by the outer terminal's close sequence.  Buffered's lifecycle Close (`stopBuffering`, fix B2)
cancels the filler's context and WAITS until the filler goroutine has finished; only then the terminal's deferred
cancelFunc runs (shpan_stream.go:129) and the terminal returns.  In the model `term1` is the filler's cancellation by the
close sequence (label `cClose2`), and `cJoin` is the wait: it is enabled only when the filler is `done`.

Channel: capacity size-1, created by the lifecycle Open of every materialisation (:47-50, fix 342661a: the stream value
can be materialised again).  The filler's last send is the EOF marker or the upstream error (:65-78) and nothing
is sent after it, so the channel content is kept as `ch` (values, FIFO) followed by the optional final item `fin`.
-/
import ShpanVerif.Model.ConcCore

namespace ShpanVerif.Model.Buffered
open ShpanVerif.Model.Conc

/-- The filler's final item: `Result{Err: io.EOF}` (marker) or `Result{Err: upstream error}`. -/
inductive Fin
  | marker | err
  deriving DecidableEq, Repr, Hashable

/-- Filler goroutine. -/
inductive FPc
  | opening            -- inner doOpenStream: P.Open pending
  | check              -- inner shpan_stream.go:134 `ctx.Err()`
  | inEmit             -- inside P.Emit(ctx1)
  | cb (i : Nat)       -- callback buffered_stream.go:59-62 `select { bufferChan <- v; <-ctx.Done() }`
  | closeP (ok : Bool) -- inner deferred close: P.Close pending; `ok` = the inner terminal's result is nil
  | closed (ok : Bool) -- P closed, inner cancelFunc; buffered_stream.go:66 `if err != nil`
  | sendFin (it : Fin) -- :67-70 / :74-77 `select { bufferChan <- it; <-ctx.Done() }`
  | closeCh            -- deferred close(bufferChan) :55
  | done
  deriving DecidableEq, Repr, Hashable

inductive CPc
  | check | sel | got | close2 | join | ret
  deriving DecidableEq, Repr, Hashable

inductive Res
  | ok | errCtx | errOther
  deriving DecidableEq, Repr, Hashable

structure Cfg where
  n : Nat
  size : Nat       -- ≥ 2 (size 1 returns the source unchanged :16-18, size ≤ 0 is an error stream :13-15)
  e : Nat := 0
  /-- `true` = the code as it is (buffered_stream.go:28-32, fix f074f78): a closed channel without the marker while
      ctx is cancelled is the context's error; `false` = the earlier behaviour (EOF), kept for the D7 witness. -/
  fix7 : Bool := true
  /-- `true` = the code as it is (fix f9673b7: the lifecycle Close cancels the filler's context and waits for the filler);
      `false` = the earlier code, whose Close did nothing: the terminal returned right after cancelling. -/
  fixJoin : Bool := true
  deriving DecidableEq, Repr

def Cfg.cap (cfg : Cfg) : Nat := cfg.size - 1

structure St where
  cursor : Nat
  emitting : Nat
  closes : Nat              -- ghost: number of calls of P.Close (C01: exactly one per successful Open)
  pOpened : Bool
  pClosed : Bool
  badWindow : Bool          -- sticky: an Emit started before Open returned or after Close was called
  badOverlap : Bool         -- sticky: Close was called while an Emit was running
  f : FPc
  ch : List Nat
  fin : Option Fin
  chClosed : Bool
  ctx0 : Bool
  term1 : Bool
  cons : CPc
  delivered : List Nat
  res : Option Res
  errBudget : Nat
  stopped : Bool
  faulted : Bool
  dropped : Bool            -- ghost: the callback took the ctx.Done branch with an element in hand
  deriving DecidableEq, Repr, Hashable

@[inline] def St.ctx1 (s : St) : Bool := s.ctx0 || s.term1
@[inline] def St.chLen (s : St) : Nat := s.ch.length + (if s.fin.isSome then 1 else 0)

inductive Label
  | fOpenOk | fOpenErr | fCheck | fEmitVal | fEmitEof | fEmitErr | fSend | fSkip | fCloseP | fClosed
  | fSendFin | fDropFin | fCloseCh
  | cOpenFail | cCheck | cSelCtx | cRecv | cClosed | cNext | cRepull | cStop | cFail | cClose2 | cJoin
  | cancel
  deriving DecidableEq, Repr

def init (cfg : Cfg) : St :=
  { cursor := 0, emitting := 0, closes := 0, pOpened := false, pClosed := false, badWindow := false, badOverlap := false,
    f := .opening, ch := [], fin := none, chClosed := false, ctx0 := false, term1 := false,
    cons := .check, delivered := [], res := none, errBudget := cfg.e, stopped := false, faulted := false,
    dropped := false }

def step (cfg : Cfg) (s : St) : Label → Option St
  | .fOpenOk => if s.f = .opening then some { s with f := .check, pOpened := true } else none
  | .fOpenErr =>   -- inner doOpenStream failed: Consume returns the error, nothing to close
    if s.f = .opening ∧ 0 < s.errBudget then
      some { s with f := .sendFin .err, faulted := true, errBudget := s.errBudget - 1 }
    else none
  | .fCheck =>
    if s.f = .check then
      if s.ctx1 then some { s with f := .closeP false }
      else some { s with f := .inEmit, emitting := s.emitting + 1,
                         badWindow := s.badWindow || !s.pOpened || s.pClosed }
    else none
  | .fEmitVal =>
    if s.f = .inEmit ∧ s.cursor < cfg.n then
      some { s with f := .cb s.cursor, cursor := s.cursor + 1, emitting := s.emitting - 1 }
    else none
  | .fEmitEof =>
    if s.f = .inEmit ∧ s.cursor = cfg.n then some { s with f := .closeP true, emitting := s.emitting - 1 } else none
  | .fEmitErr =>
    if s.f = .inEmit ∧ 0 < s.errBudget then
      some { s with f := .closeP false, emitting := s.emitting - 1, faulted := true, errBudget := s.errBudget - 1 }
    else none
  | .fSend =>
    match s.f with
    | .cb i => if s.chLen < cfg.cap then some { s with f := .check, ch := s.ch ++ [i] } else none
    | _ => none
  | .fSkip =>      -- the callback returns without having sent; the inner loop's next ctx check ends the inner terminal
    match s.f with
    | .cb _ => if s.ctx1 then some { s with f := .check, dropped := true } else none
    | _ => none
  | .fCloseP =>
    match s.f with
    | .closeP ok => some { s with f := .closed ok, pClosed := true, closes := s.closes + 1, badOverlap := s.badOverlap || decide (0 < s.emitting) }
    | _ => none
  | .fClosed =>
    match s.f with
    | .closed ok => some { s with f := .sendFin (if ok then .marker else .err) }
    | _ => none
  | .fSendFin =>
    match s.f with
    | .sendFin it => if s.chLen < cfg.cap then some { s with f := .closeCh, fin := some it } else none
    | _ => none
  | .fDropFin =>
    match s.f with
    | .sendFin _ => if s.ctx1 then some { s with f := .closeCh } else none
    | _ => none
  | .fCloseCh => if s.f = .closeCh then some { s with f := .done, chClosed := true } else none
  | .cOpenFail =>  -- a lifecycle element placed AFTER Buffered fails to open (shpan_stream.go:317-331, error or panic):
                   -- the filler was already started by Buffered's own element; doOpenStream closes the opened elements
                   -- (no-ops here), cancels the materialisation ctx and the terminal returns the error without pulling
    if s.cons = .check ∧ s.delivered = [] then
      some { s with cons := .close2, res := some .errOther, stopped := true }
    else none
  | .cCheck =>
    if s.cons = .check then
      if s.ctx0 then some { s with cons := .close2, res := some .errCtx } else some { s with cons := .sel }
    else none
  | .cSelCtx => if s.cons = .sel ∧ s.ctx0 then some { s with cons := .close2, res := some .errCtx } else none
  | .cRecv =>      -- channel_stream_provider.go:25; buffered_stream.go:36 Unpack
    if s.cons = .sel then
      match s.ch, s.fin with
      | i :: r, _ => some { s with cons := .got, ch := r, delivered := s.delivered ++ [i] }
      | [], some .marker => some { s with cons := .close2, fin := none, res := some .ok }
      | [], some .err => some { s with cons := .close2, fin := none, res := some .errOther }
      | [], none => none
    else none
  | .cClosed =>    -- channel closed and drained without the marker: channel_stream_provider.go:26-29, buffered_stream.go:27-33
    if s.cons = .sel ∧ s.ch = [] ∧ s.fin = none ∧ s.chClosed then
      if cfg.fix7 ∧ s.ctx0 then some { s with cons := .close2, res := some .errCtx }
      else some { s with cons := .close2, res := some .ok }
    else none
  | .cNext => if s.cons = .got then some { s with cons := .check } else none
  | .cRepull => if s.cons = .got then some { s with cons := .sel } else none
  | .cStop => if s.cons = .got then some { s with cons := .close2, res := some .ok, stopped := true } else none
  | .cFail => if s.cons = .got then some { s with cons := .close2, res := some .errOther, stopped := true } else none
  | .cClose2 =>
    if s.cons = .close2 then some { s with cons := if cfg.fixJoin then .join else .ret, term1 := true } else none
  | .cJoin =>      -- buffered_stream.go `stopBuffering`: `<-bufferingDone`, closed by the filler's first deferred call
    if s.cons = .join ∧ s.f = .done then some { s with cons := .ret } else none
  | .cancel => if s.ctx0 then none else some { s with ctx0 := true }

def sys (cfg : Cfg) : Sys St Label := { init := init cfg, step := step cfg }

def final (s : St) : Bool := s.cons = .ret && s.f = .done

def inHand (i : Nat) : FPc → Nat
  | .cb j => if i = j then 1 else 0
  | _ => 0

def cnt (i : Nat) (s : St) : Nat := inHand i s.f + s.ch.count i + s.delivered.count i

def internalLabels (_s : St) : List Label :=
  [.cCheck, .cRecv, .cClosed, .cSelCtx, .cClose2, .cJoin,
   .fOpenOk, .fCheck, .fSend, .fSkip, .fCloseP, .fClosed, .fSendFin, .fDropFin, .fCloseCh]

end ShpanVerif.Model.Buffered
