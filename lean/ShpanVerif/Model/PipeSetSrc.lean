/-
Sources whose contents change between materialisations (`srcv` of the case grammar, harness/run/pipe.go): the operator
object is the same stream value, the slice behind a probe source holds different elements in different runs.
`setSrc r xs p` = the operator object `p` with the contents of every probe source with resource id `r` replaced by `xs`;
everything else - every piece of operator state included - is left as it is.  (Moved here from Drive/PipeCommon.lean so
that theorems can speak about it: Props/C18Contents.lean.)
-/
import ShpanVerif.Model.Pipe

namespace ShpanVerif.Model.Pipe

mutual
/-- replace the contents of the probe source `r` (the operator object is at rest: its cursor is 0) -/
def setSrc (r : Nat) (xs : List Int) : Pipe → Pipe
  | .src r' ys idx => if r' == r then .src r' xs idx else .src r' ys idx
  | .lc q p => .lc q (setSrc r xs p)
  | .map f p => .map f (setSrc r xs p)
  | .filter g p => .filter g (setSrc r xs p)
  | .limit n c p => .limit n c (setSrc r xs p)
  | .skip n d p => .skip n d (setSrc r xs p)
  | .concat ps a b c => .concat (setSrcList r xs ps) a b c
  | .zip ps o => .zip (setSrcList r xs ps) o
  | .merge ps o sl => .merge (setSrcList r xs ps) o sl
  | .window a b c d e f p => .window a b c d e f (setSrc r xs p)
  | .cluster a b c d e f p => .cluster a b c d e f (setSrc r xs p)
def setSrcList (r : Nat) (xs : List Int) : PipeList → PipeList
  | .nil => .nil
  | .cons p ps => .cons (setSrc r xs p) (setSrcList r xs ps)
end

/-- the contents of several sources at once, in list order (a later entry for the same source wins) -/
def setSrcAll (cs : List (Nat × List Int)) (p : Pipe) : Pipe := cs.foldl (fun p (rid, xs) => setSrc rid xs p) p

end ShpanVerif.Model.Pipe
