/-
JSON *texts* (RFC 8259 grammar over bytes) for property C20: the elements / entries that travel through
`StreamJsonToWriter`, `ReadJsonArray`, `ReadJsonObject`.

  * `JT` / `JItems` / `JEnts` — a JSON text as a tree: null / bool / number token / string body (escaped form, the
    bytes between the quotes) / array / object.  Arrays and objects carry the *insignificant white space* of the text
    at every legal position (after the opening bracket, before and after every value, around the colon), so
    `render : JT → Bytes` reaches EVERY well-formed JSON text, not only the compact form; the compact form
    (`json.Marshal`) is the special case "all white-space fields empty" (`JT.compact`).
  * `JT.wf` — decidable well-formedness of the tree: number tokens match the RFC number grammar (`isNumber`),
    string bodies match the RFC string grammar (`strBodyOk`: no raw quote, no control byte, every backslash opens
    one of `\" \\ \/ \b \f \n \r \t \uXXXX`), white-space fields hold only the four white-space bytes.
    No UTF-8 validity is asked for (the element scanner of `encoding/json` does not ask for it either).
  * `isJsonText : Bytes → Bool` — the decidable predicate on BYTES: a witness parser `parseV` proposes a tree, the
    predicate accepts when the tree is well-formed and renders to exactly the given bytes.  Soundness
    (`isJsonText e = true → ∃ t, t.wf ∧ render t = e`) holds by construction, whatever the parser does; completeness
    (`t.wf → isJsonText (render t) = true`) is `Proofs/JsonParseComplete.lean`.  The driver evaluates it on every
    element of every generated case, so every compared document lies inside the domain of the theorems.
  * `unescape` — decoding of an object key (`Decoder.Token()` returns the key as a Go string): Go's `unquote`
    for well-formed bodies whose raw bytes are valid UTF-8.

What is assumed about encoding/json (and only validated by the correspondence run):
  (M) `json.Marshal` of nil / bool / float64 / string / []any / map[string]any emits a compact well-formed JSON text
      (i.e. some `render t` with `t.wf`, all white-space fields empty).  The byte-level choices of Marshal - the characters
      less-than, greater-than, ampersand written as backslash-u-003c / -003e / -0026; U+2028 / U+2029 as backslash-u-2028 /
      -2029; control bytes as `\n` `\r` `\t` `\b` `\f` or backslash-u-00XX; invalid UTF-8 as backslash-u-fffd; floats in
      exponent form `1e+21` / `1e-7` - are all instances
      of `strBodyOk` / `isNumber`, so nothing about them has to be assumed separately: the theorems hold for ANY
      well-formed text.
  (D) `Decoder.Decode(&json.RawMessage)` hands out the bytes of the next value verbatim (inner white space
      included); `Decoder.Token()` returns delimiters and the decoded key; `More()` looks at the next non-space
      byte.  That is what `JsonFrame.jsonLex` models.
-/
import ShpanVerif.Model.JsonFrame

set_option autoImplicit false
namespace ShpanVerif.Model.JsonText
open ShpanVerif.Model.JsonFrame

/-! ## trees -/

mutual
/-- a JSON text -/
inductive JT where
  | null
  | bool (b : Bool)
  | num (tok : Bytes)                      -- the number token as written
  | str (body : Bytes)                     -- the bytes between the quotes (escapes not decoded)
  | arr (w0 : Bytes) (items : JItems)      -- "[" w0 items "]"
  | obj (w0 : Bytes) (ents : JEnts)        -- "{" w0 entries "}"
/-- items of an array: leading white space, value, trailing white space; "," between items -/
inductive JItems where
  | nil
  | cons (l : Bytes) (v : JT) (t : Bytes) (rest : JItems)
/-- entries of an object: l "key" m ":" c value t ; "," between entries -/
inductive JEnts where
  | nil
  | cons (l : Bytes) (k : Bytes) (m : Bytes) (c : Bytes) (v : JT) (t : Bytes) (rest : JEnts)
end

def JItems.isNil : JItems → Bool
  | .nil => true
  | .cons .. => false

def JEnts.isNil : JEnts → Bool
  | .nil => true
  | .cons .. => false

def trueLit : Bytes := [0x74, 0x72, 0x75, 0x65]
def falseLit : Bytes := [0x66, 0x61, 0x6C, 0x73, 0x65]

/-- "," unless the last item was rendered -/
def sepOf (last : Bool) : Bytes := if last then [] else [bComma]

mutual
/-- the text of a tree -/
def render : JT → Bytes
  | .null => nullLit
  | .bool b => if b then trueLit else falseLit
  | .num tok => tok
  | .str body => bQuote :: body ++ [bQuote]
  | .arr w0 is => bLBr :: w0 ++ renderItems is ++ [bRBr]
  | .obj w0 es => bLBc :: w0 ++ renderEnts es ++ [bRBc]
def renderItems : JItems → Bytes
  | .nil => []
  | .cons l v t rest => l ++ render v ++ t ++ sepOf rest.isNil ++ renderItems rest
def renderEnts : JEnts → Bytes
  | .nil => []
  | .cons l k m c v t rest =>
    l ++ (bQuote :: k ++ [bQuote]) ++ m ++ [bColon] ++ c ++ render v ++ t ++ sepOf rest.isNil ++ renderEnts rest
end

/-! ## well-formedness (decidable) -/

def allWs (w : Bytes) : Bool := w.all isWs

def isDigit (b : UInt8) : Bool := decide (0x30 ≤ b) && decide (b ≤ 0x39)
def isDigit19 (b : UInt8) : Bool := decide (0x31 ≤ b) && decide (b ≤ 0x39)

/-- RFC 8259 §6: `-? (0 | [1-9][0-9]*) (\.[0-9]+)? ([eE][+-]?[0-9]+)?` as an automaton -/
inductive NumSt where
  | start | minus | zero | int | dot | frac | e | esign | exp
  deriving DecidableEq, Repr

def isE (b : UInt8) : Bool := b == 0x65 || b == 0x45
def isSign (b : UInt8) : Bool := b == 0x2B || b == 0x2D

def numStep : NumSt → UInt8 → Option NumSt
  | .start, b => if b == 0x2D then some .minus else if b == 0x30 then some .zero else if isDigit19 b then some .int else none
  | .minus, b => if b == 0x30 then some .zero else if isDigit19 b then some .int else none
  | .zero, b => if b == 0x2E then some .dot else if isE b then some .e else none
  | .int, b => if isDigit b then some .int else if b == 0x2E then some .dot else if isE b then some .e else none
  | .dot, b => if isDigit b then some .frac else none
  | .frac, b => if isDigit b then some .frac else if isE b then some .e else none
  | .e, b => if isSign b then some .esign else if isDigit b then some .exp else none
  | .esign, b => if isDigit b then some .exp else none
  | .exp, b => if isDigit b then some .exp else none

def numRun : NumSt → Bytes → Option NumSt
  | s, [] => some s
  | s, b :: r => match numStep s b with | some s' => numRun s' r | none => none

def NumSt.accepting : NumSt → Bool
  | .zero | .int | .frac | .exp => true
  | _ => false

/-- the token is a JSON number -/
def isNumber (tok : Bytes) : Bool :=
  match numRun .start tok with
  | some s => s.accepting
  | none => false

def isHex (b : UInt8) : Bool :=
  (decide (0x30 ≤ b) && decide (b ≤ 0x39)) || (decide (0x41 ≤ b) && decide (b ≤ 0x46)) || (decide (0x61 ≤ b) && decide (b ≤ 0x66))

/-- the byte after a backslash, other than `u`: `" \ / b f n r t` -/
def isSimpleEsc (b : UInt8) : Bool :=
  b == 0x22 || b == 0x5C || b == 0x2F || b == 0x62 || b == 0x66 || b == 0x6E || b == 0x72 || b == 0x74

/-- RFC 8259 §7 on the bytes between the quotes: no raw quote, no control byte, every backslash opens a complete
escape.  (Bytes ≥ 0x80 are accepted as they are: no UTF-8 validation.) -/
def strBodyOk : Bytes → Bool
  | [] => true
  | b :: r =>
    if b == bBackslash then
      match r with
      | [] => false
      | c :: r' =>
        if c == 0x75 then
          match r' with
          | h1 :: h2 :: h3 :: h4 :: r'' => isHex h1 && isHex h2 && isHex h3 && isHex h4 && strBodyOk r''
          | _ => false
        else isSimpleEsc c && strBodyOk r'
    else b != bQuote && decide (0x20 ≤ b) && strBodyOk r

mutual
def JT.wf : JT → Bool
  | .null => true
  | .bool _ => true
  | .num tok => isNumber tok
  | .str body => strBodyOk body
  | .arr w0 is => allWs w0 && is.wf
  | .obj w0 es => allWs w0 && es.wf
def JItems.wf : JItems → Bool
  | .nil => true
  | .cons l v t rest => allWs l && v.wf && allWs t && rest.wf
def JEnts.wf : JEnts → Bool
  | .nil => true
  | .cons l k m c v t rest => allWs l && strBodyOk k && allWs m && allWs c && v.wf && allWs t && rest.wf
end

mutual
/-- no white space anywhere: the form `json.Marshal` emits -/
def JT.compact : JT → Bool
  | .arr w0 is => w0.isEmpty && is.compact
  | .obj w0 es => w0.isEmpty && es.compact
  | _ => true
def JItems.compact : JItems → Bool
  | .nil => true
  | .cons l v t rest => l.isEmpty && v.compact && t.isEmpty && rest.compact
def JEnts.compact : JEnts → Bool
  | .nil => true
  | .cons l _ m c v t rest => l.isEmpty && m.isEmpty && c.isEmpty && v.compact && t.isEmpty && rest.compact
end

mutual
/-- nesting depth (scalars 0) -/
def JT.depth : JT → Nat
  | .arr _ is => is.depth + 1
  | .obj _ es => es.depth + 1
  | _ => 0
def JItems.depth : JItems → Nat
  | .nil => 0
  | .cons _ v _ rest => max v.depth rest.depth
def JEnts.depth : JEnts → Nat
  | .nil => 0
  | .cons _ _ _ _ v _ rest => max v.depth rest.depth
end

/-- the values of the items, in order -/
def JItems.values : JItems → List JT
  | .nil => []
  | .cons _ v _ rest => v :: rest.values

/-- (raw key text with its quotes, value) of the entries, in order -/
def JEnts.entries : JEnts → List (Bytes × JT)
  | .nil => []
  | .cons _ k _ _ v _ rest => (bQuote :: k ++ [bQuote], v) :: rest.entries

/-- compact items from a list of values -/
def JItems.ofList : List JT → JItems
  | [] => .nil
  | v :: vs => .cons [] v [] (JItems.ofList vs)

/-- compact entries from a list of (key body, value) -/
def JEnts.ofList : List (Bytes × JT) → JEnts
  | [] => .nil
  | (k, v) :: r => .cons [] k [] [] v [] (JEnts.ofList r)

/-! ## a witness parser and the decidable predicate on bytes

The parser is NOT part of the trusted base: `isJsonText` re-renders the proposed tree and compares; that it finds a
tree for every well-formed text is proved in `Proofs/JsonParseComplete.lean`. -/

def takeWs : Bytes → Bytes × Bytes
  | [] => ([], [])
  | b :: r => if isWs b then let p := takeWs r; (b :: p.1, p.2) else ([], b :: r)

/-- after the opening quote: (body, rest after the closing quote) -/
def takeStr : Bytes → Option (Bytes × Bytes)
  | [] => none
  | b :: r =>
    if b == bQuote then some ([], r)
    else if b == bBackslash then
      match r with
      | [] => none
      | c :: r' => match takeStr r' with | some p => some (b :: c :: p.1, p.2) | none => none
    else match takeStr r with | some p => some (b :: p.1, p.2) | none => none

def takeScalar : Bytes → Bytes × Bytes
  | [] => ([], [])
  | b :: r => if isScalarEnd b then ([], b :: r) else let p := takeScalar r; (b :: p.1, p.2)

def scalarOf (tok : Bytes) : JT :=
  if tok = nullLit then .null else if tok = trueLit then .bool true else if tok = falseLit then .bool false else .num tok

mutual
def parseV : Nat → Bytes → Option (JT × Bytes)
  | 0, _ => none
  | _ + 1, [] => none
  | f + 1, b :: r =>
    if b == bQuote then
      match takeStr r with | some p => some (.str p.1, p.2) | none => none
    else if b == bLBr then
      let p := takeWs r
      match p.2 with
      | [] => none
      | c :: r2 =>
        if c == bRBr then some (.arr p.1 .nil, r2)
        else match parseItems f (c :: r2) with | some q => some (.arr p.1 q.1, q.2) | none => none
    else if b == bLBc then
      let p := takeWs r
      match p.2 with
      | [] => none
      | c :: r2 =>
        if c == bRBc then some (.obj p.1 .nil, r2)
        else match parseEnts f (c :: r2) with | some q => some (.obj p.1 q.1, q.2) | none => none
    else
      let p := takeScalar (b :: r)
      some (scalarOf p.1, p.2)
/-- items up to and including the closing "]" -/
def parseItems : Nat → Bytes → Option (JItems × Bytes)
  | 0, _ => none
  | f + 1, inp =>
    let p := takeWs inp
    match parseV f p.2 with
    | none => none
    | some (v, r2) =>
      let q := takeWs r2
      match q.2 with
      | [] => none
      | c :: r4 =>
        if c == bRBr then some (.cons p.1 v q.1 .nil, r4)
        else if c == bComma then
          match parseItems f r4 with | some s => some (.cons p.1 v q.1 s.1, s.2) | none => none
        else none
/-- entries up to and including the closing "}" -/
def parseEnts : Nat → Bytes → Option (JEnts × Bytes)
  | 0, _ => none
  | f + 1, inp =>
    let p := takeWs inp
    match p.2 with
    | [] => none
    | q0 :: r1 =>
      if q0 == bQuote then
        match takeStr r1 with
        | none => none
        | some (k, r2) =>
          let m := takeWs r2
          match m.2 with
          | [] => none
          | col :: r3 =>
            if col == bColon then
              let c := takeWs r3
              match parseV f c.2 with
              | none => none
              | some (v, r4) =>
                let t := takeWs r4
                match t.2 with
                | [] => none
                | d :: r5 =>
                  if d == bRBc then some (.cons p.1 k m.1 c.1 v t.1 .nil, r5)
                  else if d == bComma then
                    match parseEnts f r5 with | some s => some (.cons p.1 k m.1 c.1 v t.1 s.1, s.2) | none => none
                  else none
            else none
      else none
end

/-- the witness tree of a text, if the parser finds one that is well-formed and renders to exactly the text -/
def witness (e : Bytes) : Option JT :=
  match parseV (e.length + 1) e with
  | some (t, []) => if t.wf && render t == e then some t else none
  | _ => none

/-- **the decidable predicate on bytes**: `e` is a well-formed JSON text -/
def isJsonText (e : Bytes) : Bool := (witness e).isSome

/-! ## decoding an object key (Go: `unquote`), for well-formed bodies whose raw bytes are valid UTF-8 -/

def hexVal (b : UInt8) : Nat :=
  if b ≤ 0x39 then b.toNat - 0x30 else if b ≤ 0x46 then b.toNat - 0x41 + 10 else b.toNat - 0x61 + 10

def utf8Enc (r : Nat) : Bytes :=
  if r < 0x80 then [UInt8.ofNat r]
  else if r < 0x800 then [UInt8.ofNat (0xC0 + r / 64), UInt8.ofNat (0x80 + r % 64)]
  else if r < 0x10000 then [UInt8.ofNat (0xE0 + r / 4096), UInt8.ofNat (0x80 + r / 64 % 64), UInt8.ofNat (0x80 + r % 64)]
  else [UInt8.ofNat (0xF0 + r / 262144), UInt8.ofNat (0x80 + r / 4096 % 64), UInt8.ofNat (0x80 + r / 64 % 64),
        UInt8.ofNat (0x80 + r % 64)]

/-- `getu4`: the input starts with `\uXXXX` -/
def getu4 : Bytes → Option Nat
  | b :: u :: h1 :: h2 :: h3 :: h4 :: _ =>
    if b == bBackslash && u == 0x75 && isHex h1 && isHex h2 && isHex h3 && isHex h4 then
      some (((hexVal h1 * 16 + hexVal h2) * 16 + hexVal h3) * 16 + hexVal h4)
    else none
  | _ => none

def simpleEscVal (c : UInt8) : UInt8 :=
  if c == 0x62 then 0x08 else if c == 0x66 then 0x0C else if c == 0x6E then 0x0A else if c == 0x72 then 0x0D
  else if c == 0x74 then 0x09 else c

/-- encoding/json decode.go `unquoteBytes`: `\uXXXX` → UTF-8 of the code point; a high surrogate followed by an
escaped low surrogate → the combined code point; any other surrogate → U+FFFD. -/
def unescape : Nat → Bytes → Bytes
  | 0, _ => []
  | _ + 1, [] => []
  | f + 1, b :: r =>
    if b == bBackslash then
      match r with
      | [] => []
      | c :: r' =>
        if c == 0x75 then
          match getu4 (b :: r) with
          | none => []
          | some rr =>
            let r'' := r'.drop 4
            if 0xD800 ≤ rr && rr < 0xE000 then
              match getu4 r'' with
              | some rr1 =>
                if rr < 0xDC00 && 0xDC00 ≤ rr1 && rr1 < 0xE000 then
                  utf8Enc ((rr - 0xD800) * 1024 + (rr1 - 0xDC00) + 0x10000) ++ unescape f (r''.drop 6)
                else utf8Enc 0xFFFD ++ unescape f r''
              | none => utf8Enc 0xFFFD ++ unescape f r''
            else utf8Enc rr ++ unescape f r''
        else simpleEscVal c :: unescape f r'
    else b :: unescape f r

/-- the Go string of a key body -/
def decodeKey (body : Bytes) : Bytes := unescape (body.length + 1) body

/-! ## the documents the harness builds (`c20buildArrDoc` / `c20buildObjDoc` in harness/run/c20.go)

`wsf i` = the white space put at position `i` of the document; the patterns `wsOf 0 … 3` are the ones the generator
uses (3 = all four white-space bytes, runs of up to four, position-dependent). -/

def wsOf (ws : Nat) (i : Nat) : Bytes :=
  match ws with
  | 0 => []
  | 1 => [0x20]
  | 2 => match i % 4 with | 0 => [0x0A, 0x09] | 1 => [] | 2 => [0x20, 0x20, 0x0D] | _ => [0x09]
  | _ => match (i * 5 + i / 4) % 6 with
    | 0 => [0x20] | 1 => [0x0D, 0x0A] | 2 => [0x09, 0x20, 0x0A, 0x0D] | 3 => [] | 4 => [0x0A] | _ => [0x0D]

/-- ws e ws "," ws e ws … -/
def arrDocGo (wsf : Nat → Bytes) : Nat → List Bytes → Bytes
  | _, [] => []
  | i, [e] => wsf i ++ e ++ wsf (i + 1)
  | i, e :: r => wsf i ++ e ++ wsf (i + 1) ++ [bComma] ++ arrDocGo wsf (i + 2) r

/-- ws "[" (ws e ws ",")* "]" ws -/
def arrDoc (wsf : Nat → Bytes) (es : List Bytes) : Bytes :=
  wsf 7 ++ [bLBr] ++ arrDocGo wsf 0 es ++ (if es.isEmpty then wsf 3 else []) ++ [bRBr] ++ wsf 5

/-- ws "key" ws ":" ws value ws -/
def objEnt (wsf : Nat → Bytes) (i : Nat) (kv : Bytes × Bytes) : Bytes :=
  wsf i ++ [bQuote] ++ kv.1 ++ [bQuote] ++ wsf (i + 1) ++ [bColon] ++ wsf (i + 2) ++ kv.2 ++ wsf (i + 3)

def objDocGo (wsf : Nat → Bytes) : Nat → List (Bytes × Bytes) → Bytes
  | _, [] => []
  | i, [e] => objEnt wsf i e
  | i, e :: r => objEnt wsf i e ++ [bComma] ++ objDocGo wsf (i + 4) r

/-- entries are (key body — the escaped form between the quotes, value text) -/
def objDoc (wsf : Nat → Bytes) (es : List (Bytes × Bytes)) : Bytes :=
  wsf 7 ++ [bLBc] ++ objDocGo wsf 0 es ++ (if es.isEmpty then wsf 3 else []) ++ [bRBc] ++ wsf 5

end ShpanVerif.Model.JsonText
