/-
Demand of the N-way inner join: a pull-counting copy of `joinMultipleSortedStreamsProvider.emitJoin`
(stream/join_multiple_streams.go:40-146) - the spec of the `T jni` cases of C05 (Drive/C05Demand.lean).

The operational model of the same function is `emitInnerN` / `innerLoop` of Model/Join.lean.  That model has no counters
and loses the operator's state when the join ends (`Step.eof` carries nothing), so it cannot say how far the inputs were
read by a run that ends.  This file repeats it with
  * `out`  : per input, the number of elements handed out so far (what the harness' counting source reports; an input
             that answers EOF hands out nothing),
  * `orig` : per input, the list the source was built over (never changes; it lets the theorems speak about "the
             elements of input i" without indices),
  * the state returned in every outcome (`PStep.eof ss`, `PStep.err e ss`).
Everything else - order of the pulls, the first EOF ends the call, the sortedness assertion, the maximum scan, the
all-match test, ONE element per lagging input per round, the fuel of the loop - is the operational model's, literally
(`firstUnsorted`, `maxKey`, `headKeys` are reused on the erased state), so that erasing the counters gives back
`innerLoop` (`Props/C05JoinDemand.lean`, `C05_join_demand_refines`).
-/
import ShpanVerif.Model.Join

namespace ShpanVerif.Model.JoinDemand
open ShpanVerif.Model.Join

/-- one input: `nextBuffer[i]`, `lastKeys[i]`, the un-pulled rest of source `i`, the pull counter, the source's list -/
structure PS (α : Type) where
  buf : Option α
  last : Option α
  rest : List α
  out : Nat
  orig : List α

section
variable {α : Type} (key : α → Int)

/-- erasing the counters: the operational model's `Src` -/
def PS.src (s : PS α) : Src α := { buf := s.buf, last := s.last, rest := s.rest }

/-- a fresh counting source over `l` -/
def PS.init (l : List α) : PS α := { buf := none, last := none, rest := l, out := 0, orig := l }

/-- pull once into an empty slot; an element handed out is counted, EOF is not -/
def pfill (s : PS α) : PS α :=
  match s.buf, s.rest with
  | none, x :: xs => { s with buf := some x, rest := xs, out := s.out + 1 }
  | _, _ => s

/-- join_multiple:63-78: pull into the empty slots in input order; stops at the first input that answers EOF
    (`false`; the inputs after it are not touched) -/
def prefill : List (PS α) → List (PS α) × Bool
  | [] => ([], true)
  | s :: ss =>
    let s' := pfill s
    match s'.buf with
    | none => (s' :: ss, false)
    | some _ => let r := prefill ss; (s' :: r.1, r.2)

/-- join_multiple:126-143: every input behind `m` advances by ONE element, in input order; stops at the first EOF -/
def padv (m : Int) : List (PS α) → List (PS α) × Bool
  | [] => ([], true)
  | s :: ss =>
    match s.buf with
    | some b =>
      if key b < m then
        match s.rest with
        | [] => (s :: ss, false)
        | x :: xs =>
          let r := padv m ss
          ({ s with buf := some x, last := some b, rest := xs, out := s.out + 1 } :: r.1, r.2)
      else let r := padv m ss; (s :: r.1, r.2)
    | none => let r := padv m ss; (s :: r.1, r.2)

/-- join_multiple:114-118 for one input: `lastKeys[i] = nextBuffer[i]; nextBuffer[i] = nil` -/
def ptake (s : PS α) : PS α := { s with last := s.buf, buf := none }

/-- result of one `emitJoin` call, with the inputs' state in every case -/
inductive PStep (α : Type) where
  | eof (ss : List (PS α))
  | err (e : JErr) (ss : List (PS α))
  | row (v : List α) (ss : List (PS α))

/-- join_multiple:61-144, the `for` loop of `emitJoin` (= `innerLoop` of Model/Join.lean with counters) -/
def pinner : Nat → List (PS α) → PStep α
  | 0, ss => .err .fuel ss
  | fuel+1, ss =>
    match prefill ss with                                              -- :63-78
    | (ss, false) => .eof ss
    | (ss, true) =>
      match firstUnsorted key 0 (ss.map PS.src) with                   -- :86-92
      | some i => .err (.streamUnsorted i) ss
      | none =>
        match maxKey (headKeys key (ss.map PS.src)) with               -- :95-100
        | none => .eof ss
        | some m =>
          if (headKeys key (ss.map PS.src)).all (fun k => k == m) then -- :103-109
            .row (ss.filterMap (fun s => s.buf)) (ss.map ptake)        -- :111-123
          else
            match padv key m ss with                                   -- :126-143
            | (ss, false) => .eof ss
            | (ss, true) => pinner fuel ss

/-- `emitJoin` on an initialised provider (fuel of the loop as in `emitInnerN`) -/
def pemit (ss : List (PS α)) : PStep α := pinner key (totalRest (ss.map PS.src) + 1) ss

/-- `Limit(want)` over the join: `emitJoin` is called until `want` rows exist or the join ends (`fuel` bounds the number
    of calls, as in `Join.collect`); returns the rows and the inputs' final state -/
def pcollect : Nat → Nat → List (PS α) → List (List α) × List (PS α)
  | _, 0, ss => ([], ss)
  | 0, _, ss => ([], ss)
  | fuel+1, want+1, ss =>
    match pemit key ss with
    | .row v ss' => let r := pcollect fuel want ss'; (v :: r.1, r.2)
    | .eof ss' => ([], ss')
    | .err _ ss' => ([], ss')

/-- `JoinMultipleSortedStreams(ins…).Limit(k).Collect()` over counting sources: (rows, final state of the inputs).
    `Limit(0)` is the empty stream: nothing is opened, nothing pulled.  Otherwise the first call pulls every input once,
    whatever the answers (join_multiple:42-57), then runs the loop. -/
def demandN (k : Nat) (ins : List (List α)) : List (List α) × List (PS α) :=
  if k = 0 then ([], ins.map PS.init)
  else pcollect key (total ins + 1) k (ins.map (fun l => pfill (PS.init l)))

/-- what the harness observes: number of rows, elements handed out per input -/
def demandInnerN (k : Nat) (ins : List (List α)) : Nat × List Nat :=
  let r := demandN key k ins
  (r.1.length, r.2.map (fun s => s.out))

end

end ShpanVerif.Model.JoinDemand
