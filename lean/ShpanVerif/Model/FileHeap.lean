/-
Slices and arrays for the "elements stay valid" clause of C20 (reverse direction, the repository's own scanner).

Go hands out `[]byte` slices = (array, offset, length).  The scanner's token (`Scanner.Bytes()`) is a slice of the
scanner's buffer array; `Scan` overwrites that array in place (read, shift) and allocates a new one only when it
grows.  `rawFileStreamProvider.Emit` (file_raw_stream_provider.go:98-101) returns `bytes.Clone(token)` = a slice of a
freshly allocated array (the D20 repair); before the repair it returned the token itself (`clone = false` below).

The heap is a list of arrays (index = array id).  The value of an element "after the whole stream was read" is
what its slice reads from the FINAL heap.
-/
import ShpanVerif.Model.FileScan


set_option autoImplicit false
namespace ShpanVerif.Model.FileHeap
open ShpanVerif.Model.FileScan

structure Slice where
  arr : Nat
  off : Nat
  len : Nat
  deriving DecidableEq, Repr

abbrev Heap := List Bytes

def readSlice (h : Heap) (s : Slice) : Bytes := ((h.getD s.arr []).drop s.off).take s.len

/-- The scanner together with the heap; `cur` = the array `rs.buf` lives in.  Array 0 stands for the nil buffer
the scanner starts with. -/
structure HS where
  rs : RS
  heap : Heap
  cur : Nat

def initHS (rs : RS) : HS := { rs := rs, heap := [[]], cur := 0 }

/-- One `Scan()`: the buffer array is overwritten in place; if the buffer was (re)allocated during the call
(first read, growth — its length changed) the scanner moves to a new array and the old one keeps its last content. -/
def scanH (f : Bytes) (fuel : Nat) (h : HS) : HS × Bool :=
  if (scan f fuel h.rs).1.buf.length == h.rs.buf.length then
    ({ rs := (scan f fuel h.rs).1, heap := h.heap.set h.cur (scan f fuel h.rs).1.buf, cur := h.cur }, (scan f fuel h.rs).2)
  else
    ({ rs := (scan f fuel h.rs).1, heap := h.heap ++ [(scan f fuel h.rs).1.buf], cur := h.heap.length }, (scan f fuel h.rs).2)

/-- Where the token of the last successful `Scan` lies: `ScanLines` returns `trimLine(data[i:])` with `i` = the new
`end`; the final token (`done`) is `trimLine(buf[0:end])`: it starts after the leading '\n' if there is one (variant
`trimAll`: after all leading '\r' / '\n').  An empty token is the nil slice. -/
def tokenSlice (cur : Nat) (s : RS) : Slice :=
  if s.token.isEmpty then { arr := cur, off := 0, len := 0 }
  else
    let i := if s.done then 0 else s.stop
    let skip := if s.trimAll then ((s.buf.drop i).takeWhile isCRLF).length
      else if (s.buf.drop i).head? == some NL then 1 else 0
    { arr := cur, off := i + skip, len := s.token.length }

/-- One `Emit`: `clone = true` is the code as it is (bytes.Clone), `clone = false` the code before the D20 repair. -/
def emitH (clone : Bool) (f : Bytes) (fuel : Nat) (h : HS) : HS × Option Slice :=
  match scanH f fuel h with
  | (h', true) =>
    if clone then
      ({ h' with heap := h'.heap ++ [h'.rs.token] }, some { arr := h'.heap.length, off := 0, len := h'.rs.token.length })
    else (h', some (tokenSlice h'.cur h'.rs))
  | (h', false) => (h', none)

/-- The Emit loop: the yielded slices and the final state. -/
def collectH (clone : Bool) (f : Bytes) (fuel : Nat) : Nat → HS → List Slice × HS
  | 0, h => ([], h)
  | n + 1, h =>
    match emitH clone f fuel h with
    | (h', some s) =>
      let r := collectH clone f fuel n h'
      (s :: r.1, r.2)
    | (h', none) => ([], h')

/-- `StreamFromFile(path, true).Collect`, then every collected element is read: its value after the whole stream
was pulled. -/
def elementsAfter (clone : Bool) (defBuf maxTok : Nat) (f : Bytes) : List Bytes :=
  let fuel := f.length + 2
  let h0 := initHS (newScanner defBuf maxTok f.length)
  let h1 := (scanH f fuel h0).1                       -- Open's Scan(), result ignored
  let r := collectH clone f fuel (f.length + 2) h1
  r.1.map (readSlice r.2.heap)

end ShpanVerif.Model.FileHeap
