/-
Model of the concurrent map (`stream/concurrent_stream.go`, reached through `Map(..., WithConcurrentMapOption(c))`)
inside one materialisation by the sequential terminal (`stream/shpan_stream.go:97-151`), as a small-step
transition system.  Pipeline:  source provider P  →  concurrent map (c workers)  →  downstream + terminal.

Goroutines: one producer (concurrent_stream.go:99-143), c workers (:56-96), the consumer (the goroutine that runs the
terminal; it executes `Emit` :148-165 and, when returning, the deferred close sequence shpan_stream.go:127-130 →
unsafe_stream_provider.go:81-112 → shpan_stream.go:337-341).

Contexts (all `context.WithCancel` children of the caller ctx):
  ctx0  caller ctx, the one the terminal checks (shpan_stream.go:134) and passes to `Emit` (:139)
  ctx1  materialisation ctx made by doOpenStream (shpan_stream.go:300); workers and producer select on it and the
        producer passes it to the source's Emit (concurrent_stream.go:117).  Cancelled by ctx0 or by the terminal's
        deferred cancelFunc (shpan_stream.go:129) — *after* the lifecycle elements were closed.
  eofCtx  cancelled by the producer when the source returns io.EOF (concurrent_stream.go:123)
(the sub-stream ctx made by openSubStreamUnsafe is cancelled at `close1`; nobody selects on it.)

Elements are identified by their source index `i`; the mapped value of element `i` is `f (src[i])`, so a list of
indices stands for a list of mapped values.  Workers are anonymous (they run the same code and share nothing but the
channels), so their local states are kept as counters / lists: idle, inside the mapper, holding a result.

The environment may at any time: complete the source's Emit (value / EOF / error), complete any in-flight mapper call
(ok / error), cancel ctx0, and decide what the downstream of the map does with a received element (continue through
the terminal's loop, re-pull directly like Filter does, stop like Limit, fail).

The model starts after `Open` succeeded: Open is sequential (down_stream.go:160-167: the source sub-stream is opened,
then concurrent Open spawns the goroutines), nothing is spawned when it fails.
-/
import ShpanVerif.Model.ConcCore

namespace ShpanVerif.Model.ConcMap
open ShpanVerif.Model.Conc

/-- What travels on `srcChan` / `tgtChan`: `Result{Value}` for source index `i`, or `Result{Err}`. -/
inductive Item
  | val (i : Nat)
  | err
  deriving DecidableEq, Repr, Hashable

/-- Producer goroutine (concurrent_stream.go:99-143). -/
inductive PPc
  | top       -- :111 `select { case <-ctx.Done(): return; default: pull }`
  | inEmit    -- :117 inside the source's Emit (the provider may block here)
  | have (it : Item) -- :129 / :136 `select { case srcChan <- it; case <-ctx.Done(): return }`
  | closing   -- deferred :105 close(srcChan) pending
  | waiting   -- :107 wg.Wait()
  | done      -- :108 close(tgtChan) executed, goroutine exited
  deriving DecidableEq, Repr, Hashable

/-- The goroutine running the terminal. -/
inductive CPc
  | check   -- shpan_stream.go:134 `if ctx.Err() != nil`
  | sel     -- concurrent_stream.go:149 `select { case <-ctx.Done(); case r, ok := <-tgtChan }`
  | got     -- Emit returned a value; downstream operators / the terminal's callback run
  | close0  -- deferred close sequence: source provider Close pending (sub-streams are closed first)
  | close1  -- source Close returned; cancel of the sub-stream ctx pending (unsafe_stream_provider.go:41)
  | close2  -- cancelFunc of the materialisation ctx pending (shpan_stream.go:129)
  | ret     -- terminal returned
  deriving DecidableEq, Repr, Hashable

inductive Res
  | ok       -- nil
  | errCtx   -- the context's error
  | errOther -- any other error (source error, mapper error, consumer error, "closed prematurely")
  deriving DecidableEq, Repr, Hashable

structure Cfg where
  n : Nat          -- number of elements the source yields before io.EOF
  c : Nat          -- concurrency (≥ 1: mapStreamConcurrently rejects ≤ 0, concurrent_stream.go:30)
  e : Nat := 0     -- how many times the source's Emit may fail with a non-EOF error (fault budget)
  /-- variant switch: `true` is the code as it is (concurrent_stream.go:154-165, after fix 619e47e: when tgtChan is
      closed Emit looks at ctx.Err() before eofCtx.Err()); `false` is the earlier order (eofCtx first), kept to show
      on a witness schedule that `C07_cancel_error` depends on that order (finding D24). -/
  fix24 : Bool := true
  deriving DecidableEq, Repr

structure St where
  -- source provider P (ghost observations for C02)
  cursor : Nat              -- next source index
  emitting : Nat            -- goroutines currently inside P.Emit
  srcClosed : Bool          -- P.Close has been called
  badWindow : Bool          -- sticky: an Emit started after Close was called
  badOverlap : Bool         -- sticky: Close was called while an Emit was running
  -- producer
  prod : PPc
  srcChan : List Item       -- capacity c
  srcChClosed : Bool
  -- workers (anonymous): c = wIdle + |wMap| + |wHold| + wExit
  wIdle : Nat               -- at the top-level select :59
  wMap : List Nat           -- inside the mapper for index i (:78)
  wHold : List Item         -- at `select { tgtChan <- r; <-ctx.Done() }` (:69/:80/:87)
  wExit : Nat               -- returned (wg.Done ran)
  tgtChan : List Item       -- capacity c
  tgtClosed : Bool
  eof : Bool                -- eofCtx cancelled
  ctx0 : Bool               -- caller ctx cancelled
  term1 : Bool              -- the terminal's cancelFunc ran
  -- consumer
  cons : CPc
  delivered : List Nat      -- indices whose mapped value `Emit` returned, in order
  res : Option Res
  -- ghost history
  mapCalls : List Nat       -- indices the mapper was invoked for, in invocation order
  errBudget : Nat           -- remaining source failures the environment may inject
  drained : Bool            -- the consumer's pull observed tgtChan closed and empty (it drained the stage)
  stopped : Bool            -- the downstream ended the materialisation (Limit / FindFirst / consumer error)
  faulted : Bool            -- a source or mapper failure was injected
  deriving DecidableEq, Repr, Hashable

/-- ctx1 is a child of ctx0, additionally cancelled by the terminal's deferred cancelFunc. -/
@[inline] def St.ctx1 (s : St) : Bool := s.ctx0 || s.term1

inductive Label
  -- producer
  | pTop | pEmitVal | pEmitEof | pEmitErr | pSend | pDrop | pCloseSrc | pWait
  -- workers
  | wRecv | wExitClosed | wExitCtx | wMapOk (i : Nat) | wMapErr (i : Nat) | wSend (it : Item) | wDrop (it : Item)
  -- consumer
  | cCheck | cSelCtx | cRecv | cClosed | cNext | cRepull | cStop | cFail | cClose0 | cClose1 | cClose2
  -- environment
  | cancel
  deriving DecidableEq, Repr

def init (cfg : Cfg) : St :=
  { cursor := 0, emitting := 0, srcClosed := false, badWindow := false, badOverlap := false,
    prod := .top, srcChan := [], srcChClosed := false,
    wIdle := cfg.c, wMap := [], wHold := [], wExit := 0, tgtChan := [], tgtClosed := false,
    eof := false, ctx0 := false, term1 := false,
    cons := .check, delivered := [], res := none, mapCalls := [], errBudget := cfg.e, drained := false,
    stopped := false, faulted := false }

def step (cfg : Cfg) (s : St) : Label → Option St
  /- producer ------------------------------------------------------------------------------------------------ -/
  | .pTop =>       -- :111-117
    if s.prod = .top then
      if s.ctx1 then some { s with prod := .closing }
      else some { s with prod := .inEmit, emitting := s.emitting + 1, badWindow := s.badWindow || s.srcClosed }
    else none
  | .pEmitVal =>   -- the source returns its next element
    if s.prod = .inEmit ∧ s.cursor < cfg.n then
      some { s with prod := .have (.val s.cursor), cursor := s.cursor + 1, emitting := s.emitting - 1 }
    else none
  | .pEmitEof =>   -- :119-124 io.EOF: eofCancelFunc(); return
    if s.prod = .inEmit ∧ s.cursor = cfg.n then
      some { s with prod := .closing, eof := true, emitting := s.emitting - 1 }
    else none
  | .pEmitErr =>   -- :126-132 any other error (source failure, recovered panic, ctx error of a ctx-honouring provider)
    if s.prod = .inEmit ∧ 0 < s.errBudget then
      some { s with prod := .have .err, emitting := s.emitting - 1, faulted := true, errBudget := s.errBudget - 1 }
    else none
  | .pSend =>      -- :129 / :136 send branch; afterwards the loop continues (also after an error)
    match s.prod with
    | .have it => if s.srcChan.length < cfg.c then some { s with prod := .top, srcChan := s.srcChan ++ [it] } else none
    | _ => none
  | .pDrop =>      -- :130 / :137 ctx.Done branch: return (the item in hand is dropped)
    match s.prod with
    | .have _ => if s.ctx1 then some { s with prod := .closing } else none
    | _ => none
  | .pCloseSrc =>  -- :105
    if s.prod = .closing then some { s with prod := .waiting, srcChClosed := true } else none
  | .pWait =>      -- :107-108 wg.Wait() returns when every worker ran wg.Done; then close(tgtChan)
    if s.prod = .waiting ∧ s.wExit = cfg.c then some { s with prod := .done, tgtClosed := true } else none
  /- workers ------------------------------------------------------------------------------------------------- -/
  | .wRecv =>      -- :63 receive; value → mapper call :78, error → forward :69
    if 0 < s.wIdle then
      match s.srcChan with
      | .val i :: r => some { s with wIdle := s.wIdle - 1, srcChan := r, wMap := s.wMap ++ [i], mapCalls := s.mapCalls ++ [i] }
      | .err :: r => some { s with wIdle := s.wIdle - 1, srcChan := r, wHold := s.wHold ++ [.err] }
      | [] => none
    else none
  | .wExitClosed => -- :64-66 srcChan closed and drained
    if 0 < s.wIdle ∧ s.srcChan = [] ∧ s.srcChClosed then some { s with wIdle := s.wIdle - 1, wExit := s.wExit + 1 } else none
  | .wExitCtx =>   -- :60-62
    if 0 < s.wIdle ∧ s.ctx1 then some { s with wIdle := s.wIdle - 1, wExit := s.wExit + 1 } else none
  | .wMapOk i =>   -- mapper returned a value
    if i ∈ s.wMap then some { s with wMap := s.wMap.erase i, wHold := s.wHold ++ [.val i] } else none
  | .wMapErr i =>  -- mapper returned an error / panicked (recovered by callRecovering :178-185)
    if i ∈ s.wMap then some { s with wMap := s.wMap.erase i, wHold := s.wHold ++ [.err], faulted := true } else none
  | .wSend it =>   -- :70 / :82 / :88 send branch
    if it ∈ s.wHold ∧ s.tgtChan.length < cfg.c then
      some { s with wHold := s.wHold.erase it, tgtChan := s.tgtChan ++ [it], wIdle := s.wIdle + 1 }
    else none
  | .wDrop it =>   -- :71 / :83 / :89 ctx.Done branch: return
    if it ∈ s.wHold ∧ s.ctx1 then some { s with wHold := s.wHold.erase it, wExit := s.wExit + 1 } else none
  /- consumer ------------------------------------------------------------------------------------------------ -/
  | .cCheck =>     -- shpan_stream.go:134-138
    if s.cons = .check then
      if s.ctx0 then some { s with cons := .close0, res := some .errCtx } else some { s with cons := .sel }
    else none
  | .cSelCtx =>    -- concurrent_stream.go:150-151
    if s.cons = .sel ∧ s.ctx0 then some { s with cons := .close0, res := some .errCtx } else none
  | .cRecv =>      -- :152, :164 Unpack
    if s.cons = .sel then
      match s.tgtChan with
      | .val i :: r => some { s with cons := .got, tgtChan := r, delivered := s.delivered ++ [i] }
      | .err :: r => some { s with cons := .close0, tgtChan := r, res := some .errOther }
      | [] => none
    else none
  | .cClosed =>    -- :154-162 channel closed and drained
    if s.cons = .sel ∧ s.tgtChan = [] ∧ s.tgtClosed then
      if cfg.fix24 ∧ s.ctx0 then some { s with cons := .close0, res := some .errCtx, drained := true }
      else if s.eof then some { s with cons := .close0, res := some .ok, drained := true }
      else if s.ctx0 then some { s with cons := .close0, res := some .errCtx, drained := true }
      else some { s with cons := .close0, res := some .errOther, drained := true }
    else none
  | .cNext =>      -- the element reached the terminal's callback, which returned nil: next loop iteration
    if s.cons = .got then some { s with cons := .check } else none
  | .cRepull =>    -- a downstream operator pulls again without going through the terminal (Filter, Skip, …)
    if s.cons = .got then some { s with cons := .sel } else none
  | .cStop =>      -- a downstream operator ends the stream (Limit, FindFirst): terminal returns nil
    if s.cons = .got then some { s with cons := .close0, res := some .ok, stopped := true } else none
  | .cFail =>      -- downstream / consumer error
    if s.cons = .got then some { s with cons := .close0, res := some .errOther, stopped := true } else none
  | .cClose0 =>    -- unsafe_stream_provider.go:81-90 → shpan_stream.go:337-341: P.Close() is called
    if s.cons = .close0 then
      some { s with cons := .close1, srcClosed := true, badOverlap := s.badOverlap || decide (0 < s.emitting) }
    else none
  | .cClose1 =>    -- unsafe_stream_provider.go:41 cancel of the sub-stream ctx; :108-110 provider Close (no-op :20)
    if s.cons = .close1 then some { s with cons := .close2 } else none
  | .cClose2 =>    -- shpan_stream.go:129 cancelFunc()
    if s.cons = .close2 then some { s with cons := .ret, term1 := true } else none
  /- environment --------------------------------------------------------------------------------------------- -/
  | .cancel => if s.ctx0 then none else some { s with ctx0 := true }

def sys (cfg : Cfg) : Sys St Label := { init := init cfg, step := step cfg }

/-- Terminal returned and every library goroutine of the materialisation exited. -/
def final (cfg : Cfg) (s : St) : Bool := s.cons = .ret && s.prod = .done && s.wExit = cfg.c

/-- Occurrences of the mapped value of source index `i` anywhere between the source and the consumer. -/
def Item.isVal (i : Nat) : Item → Bool
  | .val j => i == j
  | .err => false

def cntItems (i : Nat) (l : List Item) : Nat := l.countP (Item.isVal i)

def inHand (i : Nat) : PPc → Nat
  | .have it => if Item.isVal i it then 1 else 0
  | _ => 0

def cnt (i : Nat) (s : St) : Nat :=
  inHand i s.prod + cntItems i s.srcChan + s.wMap.count i + cntItems i s.wHold + cntItems i s.tgtChan + s.delivered.count i

/-- Library-internal labels in the fixed priority order the driver uses to run the model to quiescence. -/
def internalLabels (s : St) : List Label :=
  [.cCheck, .cRecv, .cClosed, .cSelCtx, .cClose0, .cClose1, .cClose2,
   .wRecv, .wExitClosed, .wExitCtx] ++ s.wHold.map .wSend ++ s.wHold.map .wDrop ++
  [.pSend, .pDrop, .pTop, .pCloseSrc, .pWait]

end ShpanVerif.Model.ConcMap
