/-
Model of the concurrent map (`stream/concurrent_stream.go`, reached through `Map(..., WithConcurrentMapOption(c))`)
inside one materialisation by the sequential terminal (`stream/shpan_stream.go:97-151`), as a small-step
transition system.  Pipeline:  source provider P  →  concurrent map (c workers)  →  downstream + terminal.

Goroutines: one producer (concurrent_stream.go:122-168), c workers (:72-115), the consumer (the goroutine that runs the
terminal; it executes `Emit` :173-193 and, when returning, the deferred close sequence shpan_stream.go:127-130 →
unsafe_stream_provider.go:81-112 → shpan_stream.go:337-341 over the *guarded* source :44-47: first the guard's Close
`stopProducer` :52-58 = cancelProducer(); <-producerStopped, then the source's own lifecycle elements).

Contexts (all `context.WithCancel` children of the caller ctx):
  ctx0  caller ctx, the one the terminal checks (shpan_stream.go:134) and passes to `Emit` (:139)
  ctx1  materialisation ctx made by doOpenStream (shpan_stream.go:300); the workers select on it and pass it to the
        mapper.  Cancelled by ctx0 or by the terminal's deferred cancelFunc (shpan_stream.go:129) — *after* the
        lifecycle elements were closed.
  producerCtx  child of ctx1 (:117), additionally cancelled by stopProducer; the producer selects on it and passes it
        to the source's Emit (:142)  (fix 784d281; in the earlier code the producer used ctx1 and nobody waited for it)
  eofCtx  cancelled by the producer when the source returns io.EOF (concurrent_stream.go:148)
(the sub-stream ctx made by openSubStreamUnsafe is cancelled at `close1`; nobody selects on it.)

Elements are identified by their source index `i`; the mapped value of element `i` is `f (src[i])`, so a list of
indices stands for a list of mapped values.  Workers are anonymous (they run the same code and share nothing but the
channels), so their local states are kept as counters / lists: idle, inside the mapper, holding a result.

The environment may at any time: complete the source's Emit (value / EOF / error), complete any in-flight mapper call
(ok / error), cancel ctx0, and decide what the downstream of the map does with a received element (continue through
the terminal's loop, re-pull directly like Filter does, stop like Limit, fail).

The model starts after `Open` succeeded: Open is sequential (down_stream.go:160-167: the source sub-stream is opened,
then concurrent Open spawns the goroutines), nothing is spawned when it fails.
-/
import ShpanVerif.Model.ConcCore

namespace ShpanVerif.Model.ConcMap
open ShpanVerif.Model.Conc

/-- What travels on `srcChan` / `tgtChan`: `Result{Value}` for source index `i`, or `Result{Err}`. -/
inductive Item
  | val (i : Nat)
  | err
  deriving DecidableEq, Repr, Hashable

/-- Producer goroutine (concurrent_stream.go:122-168). -/
inductive PPc
  | top       -- :136 `select { case <-producerCtx.Done(): return; default: pull }`
  | inEmit    -- :142 inside the source's Emit (the provider may block here)
  | have (it : Item) -- :154 / :161 `select { case srcChan <- it; case <-producerCtx.Done(): return }`
  | stopping  -- deferred :134 close(producerStopped) pending (runs first: declared last)
  | closing   -- deferred :128 close(srcChan) pending
  | waiting   -- :130 wg.Wait()
  | done      -- :131 close(tgtChan) executed, goroutine exited
  deriving DecidableEq, Repr, Hashable

/-- The goroutine running the terminal. -/
inductive CPc
  | check   -- shpan_stream.go:134 `if ctx.Err() != nil`
  | sel     -- concurrent_stream.go:174 `select { case <-ctx.Done(); case r, ok := <-tgtChan }`
  | got     -- Emit returned a value; downstream operators / the terminal's callback run
  | close0  -- deferred close sequence reached the guarded source: stopProducer's cancelProducer() pending (:54)
  | closeW  -- :55 `<-c.producerStopped`
  | closeP  -- source provider Close pending
  | close1  -- source Close returned; cancel of the sub-stream ctx pending (unsafe_stream_provider.go:41)
  | close2  -- cancelFunc of the materialisation ctx pending (shpan_stream.go:129)
  | ret     -- terminal returned
  deriving DecidableEq, Repr, Hashable

inductive Res
  | ok       -- nil
  | errCtx   -- the context's error
  | errOther -- any other error (source error, mapper error, consumer error, "closed prematurely")
  deriving DecidableEq, Repr, Hashable

structure Cfg where
  n : Nat          -- number of elements the source yields before io.EOF
  c : Nat          -- concurrency (≥ 1: mapStreamConcurrently rejects ≤ 0, concurrent_stream.go:30)
  e : Nat := 0     -- how many times the source's Emit may fail with a non-EOF error (fault budget)
  /-- variant switch: `true` is the code as it is (fix 784d281: the guard element stops and joins the producer before
      the source's own elements are closed); `false` is the earlier code (no guard, the producer runs on ctx1), kept to
      show the close/emit overlap of finding D5 on a witness schedule. -/
  fix5 : Bool := true
  /-- variant switch: `true` is the code as it is (concurrent_stream.go:179-190, after fix 619e47e: when tgtChan is
      closed Emit looks at ctx.Err() before eofCtx.Err()); `false` is the earlier order (eofCtx first), kept to show
      on a witness schedule that `C07_cancel_error` depends on that order (finding D24). -/
  fix24 : Bool := true
  deriving DecidableEq, Repr

structure St where
  -- source provider P (ghost observations for C02)
  cursor : Nat              -- next source index
  emitting : Nat            -- goroutines currently inside P.Emit
  closes : Nat              -- ghost: number of calls of P.Close (the source was opened by the open sequence before `init`)
  srcClosed : Bool          -- P.Close has been called
  badWindow : Bool          -- sticky: an Emit started after Close was called
  badOverlap : Bool         -- sticky: Close was called while an Emit was running
  -- producer
  prod : PPc
  srcChan : List Item       -- capacity c
  srcChClosed : Bool
  pStopped : Bool           -- producerStopped is closed
  pcancel : Bool            -- cancelProducer was called
  -- workers (anonymous): c = wIdle + |wMap| + |wHold| + wExit
  wIdle : Nat               -- at the top-level select :77
  wMap : List Nat           -- inside the mapper for index i (:96)
  wHold : List Item         -- at `select { tgtChan <- r; <-ctx.Done() }` (:87/:98/:105)
  wExit : Nat               -- returned (wg.Done ran)
  tgtChan : List Item       -- capacity c
  tgtClosed : Bool
  eof : Bool                -- eofCtx cancelled
  ctx0 : Bool               -- caller ctx cancelled
  term1 : Bool              -- the terminal's cancelFunc ran
  -- consumer
  cons : CPc
  delivered : List Nat      -- indices whose mapped value `Emit` returned, in order
  res : Option Res
  -- ghost history
  mapCalls : List Nat       -- indices the mapper was invoked for, in invocation order
  errBudget : Nat           -- remaining source failures the environment may inject
  drained : Bool            -- the consumer's pull observed tgtChan closed and empty (it drained the stage)
  stopped : Bool            -- the downstream ended the materialisation (Limit / FindFirst / consumer error)
  faulted : Bool            -- a source or mapper failure was injected
  deriving DecidableEq, Repr, Hashable

/-- ctx1 is a child of ctx0, additionally cancelled by the terminal's deferred cancelFunc. -/
@[inline] def St.ctx1 (s : St) : Bool := s.ctx0 || s.term1
/-- producerCtx is a child of ctx1, additionally cancelled by stopProducer. -/
@[inline] def St.pctx (s : St) : Bool := s.ctx0 || s.term1 || s.pcancel

inductive Label
  -- producer
  | pTop | pEmitVal | pEmitEof | pEmitErr | pSend | pDrop | pStop | pCloseSrc | pWait
  -- workers
  | wRecv | wExitClosed | wExitCtx | wMapOk (i : Nat) | wMapErr (i : Nat) | wSend (it : Item) | wDrop (it : Item)
  -- consumer
  | cOpenFail | cCheck | cSelCtx | cRecv | cClosed | cNext | cRepull | cStop | cFail | cClose0 | cCloseW | cCloseP | cClose1 | cClose2
  -- environment
  | cancel
  deriving DecidableEq, Repr

def init (cfg : Cfg) : St :=
  { cursor := 0, emitting := 0, closes := 0, srcClosed := false, badWindow := false, badOverlap := false,
    prod := .top, srcChan := [], srcChClosed := false, pStopped := false, pcancel := false,
    wIdle := cfg.c, wMap := [], wHold := [], wExit := 0, tgtChan := [], tgtClosed := false,
    eof := false, ctx0 := false, term1 := false,
    cons := .check, delivered := [], res := none, mapCalls := [], errBudget := cfg.e, drained := false,
    stopped := false, faulted := false }

def step (cfg : Cfg) (s : St) : Label → Option St
  /- producer ------------------------------------------------------------------------------------------------ -/
  | .pTop =>       -- :136-142
    if s.prod = .top then
      if s.pctx then some { s with prod := .stopping }
      else some { s with prod := .inEmit, emitting := s.emitting + 1, badWindow := s.badWindow || s.srcClosed }
    else none
  | .pEmitVal =>   -- the source returns its next element
    if s.prod = .inEmit ∧ s.cursor < cfg.n then
      some { s with prod := .have (.val s.cursor), cursor := s.cursor + 1, emitting := s.emitting - 1 }
    else none
  | .pEmitEof =>   -- :144-149 io.EOF: eofCancelFunc(); return
    if s.prod = .inEmit ∧ s.cursor = cfg.n then
      some { s with prod := .stopping, eof := true, emitting := s.emitting - 1 }
    else none
  | .pEmitErr =>   -- :150-157 any other error (source failure, recovered panic, ctx error of a ctx-honouring provider)
    if s.prod = .inEmit ∧ 0 < s.errBudget then
      some { s with prod := .have .err, emitting := s.emitting - 1, faulted := true, errBudget := s.errBudget - 1 }
    else none
  | .pSend =>      -- :154 / :161 send branch; afterwards the loop continues (also after an error)
    match s.prod with
    | .have it => if s.srcChan.length < cfg.c then some { s with prod := .top, srcChan := s.srcChan ++ [it] } else none
    | _ => none
  | .pDrop =>      -- :155 / :162 producerCtx.Done branch: return (the item in hand is dropped)
    match s.prod with
    | .have _ => if s.pctx then some { s with prod := .stopping } else none
    | _ => none
  | .pStop =>      -- :134 close(producerStopped): the source is not used any more
    if s.prod = .stopping then some { s with prod := .closing, pStopped := true } else none
  | .pCloseSrc =>  -- :128
    if s.prod = .closing then some { s with prod := .waiting, srcChClosed := true } else none
  | .pWait =>      -- :130-131 wg.Wait() returns when every worker ran wg.Done; then close(tgtChan)
    if s.prod = .waiting ∧ s.wExit = cfg.c then some { s with prod := .done, tgtClosed := true } else none
  /- workers ------------------------------------------------------------------------------------------------- -/
  | .wRecv =>      -- :81 receive; value → mapper call :96, error → forward :87
    if 0 < s.wIdle then
      match s.srcChan with
      | .val i :: r => some { s with wIdle := s.wIdle - 1, srcChan := r, wMap := s.wMap ++ [i], mapCalls := s.mapCalls ++ [i] }
      | .err :: r => some { s with wIdle := s.wIdle - 1, srcChan := r, wHold := s.wHold ++ [.err] }
      | [] => none
    else none
  | .wExitClosed => -- :82-84 srcChan closed and drained
    if 0 < s.wIdle ∧ s.srcChan = [] ∧ s.srcChClosed then some { s with wIdle := s.wIdle - 1, wExit := s.wExit + 1 } else none
  | .wExitCtx =>   -- :78-80
    if 0 < s.wIdle ∧ s.ctx1 then some { s with wIdle := s.wIdle - 1, wExit := s.wExit + 1 } else none
  | .wMapOk i =>   -- mapper returned a value
    if i ∈ s.wMap then some { s with wMap := s.wMap.erase i, wHold := s.wHold ++ [.val i] } else none
  | .wMapErr i =>  -- mapper returned an error / panicked (recovered by callRecovering :205-212)
    if i ∈ s.wMap then some { s with wMap := s.wMap.erase i, wHold := s.wHold ++ [.err], faulted := true } else none
  | .wSend it =>   -- :88 / :100 / :106 send branch
    if it ∈ s.wHold ∧ s.tgtChan.length < cfg.c then
      some { s with wHold := s.wHold.erase it, tgtChan := s.tgtChan ++ [it], wIdle := s.wIdle + 1 }
    else none
  | .wDrop it =>   -- :89 / :101 / :107 ctx.Done branch: return
    if it ∈ s.wHold ∧ s.ctx1 then some { s with wHold := s.wHold.erase it, wExit := s.wExit + 1 } else none
  /- consumer ------------------------------------------------------------------------------------------------ -/
  | .cOpenFail =>  -- a lifecycle element placed AFTER the concurrent map fails to open (shpan_stream.go:317-331, error or
                   -- panic): doOpenStream closes the already opened elements — the concurrent map's close sequence —
                   -- cancels the materialisation ctx and the terminal returns the error without ever pulling
    if s.cons = .check ∧ s.delivered = [] then
      some { s with cons := .close0, res := some .errOther, stopped := true }
    else none
  | .cCheck =>     -- shpan_stream.go:134-138
    if s.cons = .check then
      if s.ctx0 then some { s with cons := .close0, res := some .errCtx } else some { s with cons := .sel }
    else none
  | .cSelCtx =>    -- concurrent_stream.go:175-176
    if s.cons = .sel ∧ s.ctx0 then some { s with cons := .close0, res := some .errCtx } else none
  | .cRecv =>      -- :177, :191 Unpack
    if s.cons = .sel then
      match s.tgtChan with
      | .val i :: r => some { s with cons := .got, tgtChan := r, delivered := s.delivered ++ [i] }
      | .err :: r => some { s with cons := .close0, tgtChan := r, res := some .errOther }
      | [] => none
    else none
  | .cClosed =>    -- :179-190 channel closed and drained
    if s.cons = .sel ∧ s.tgtChan = [] ∧ s.tgtClosed then
      if cfg.fix24 ∧ s.ctx0 then some { s with cons := .close0, res := some .errCtx, drained := true }
      else if s.eof then some { s with cons := .close0, res := some .ok, drained := true }
      else if s.ctx0 then some { s with cons := .close0, res := some .errCtx, drained := true }
      else some { s with cons := .close0, res := some .errOther, drained := true }
    else none
  | .cNext =>      -- the element reached the terminal's callback, which returned nil: next loop iteration
    if s.cons = .got then some { s with cons := .check } else none
  | .cRepull =>    -- a downstream operator pulls again without going through the terminal (Filter, Skip, …)
    if s.cons = .got then some { s with cons := .sel } else none
  | .cStop =>      -- a downstream operator ends the stream (Limit, FindFirst): terminal returns nil
    if s.cons = .got then some { s with cons := .close0, res := some .ok, stopped := true } else none
  | .cFail =>      -- downstream / consumer error
    if s.cons = .got then some { s with cons := .close0, res := some .errOther, stopped := true } else none
  | .cClose0 =>    -- unsafe_stream_provider.go:81-90 → shpan_stream.go:337-341 over the guarded source: first element =
                   -- the guard, stopProducer :52-58: cancelProducer()
    if s.cons = .close0 then
      if cfg.fix5 then some { s with cons := .closeW, pcancel := true } else some { s with cons := .closeP }
    else none
  | .cCloseW =>    -- :55 <-producerStopped
    if s.cons = .closeW ∧ s.pStopped then some { s with cons := .closeP } else none
  | .cCloseP =>    -- the source's own lifecycle elements: P.Close() is called
    if s.cons = .closeP then
      some { s with cons := .close1, srcClosed := true, closes := s.closes + 1, badOverlap := s.badOverlap || decide (0 < s.emitting) }
    else none
  | .cClose1 =>    -- unsafe_stream_provider.go:41 cancel of the sub-stream ctx; :108-110 provider Close (no-op :20)
    if s.cons = .close1 then some { s with cons := .close2 } else none
  | .cClose2 =>    -- shpan_stream.go:129 cancelFunc()
    if s.cons = .close2 then some { s with cons := .ret, term1 := true } else none
  /- environment --------------------------------------------------------------------------------------------- -/
  | .cancel => if s.ctx0 then none else some { s with ctx0 := true }

def sys (cfg : Cfg) : Sys St Label := { init := init cfg, step := step cfg }

/-- Terminal returned and every library goroutine of the materialisation exited. -/
def final (cfg : Cfg) (s : St) : Bool := s.cons = .ret && s.prod = .done && s.wExit = cfg.c

/-- Occurrences of the mapped value of source index `i` anywhere between the source and the consumer. -/
def Item.isVal (i : Nat) : Item → Bool
  | .val j => i == j
  | .err => false

def cntItems (i : Nat) (l : List Item) : Nat := l.countP (Item.isVal i)

def inHand (i : Nat) : PPc → Nat
  | .have it => if Item.isVal i it then 1 else 0
  | _ => 0

def cnt (i : Nat) (s : St) : Nat :=
  inHand i s.prod + cntItems i s.srcChan + s.wMap.count i + cntItems i s.wHold + cntItems i s.tgtChan + s.delivered.count i

/-- Library-internal labels in the fixed priority order the driver uses to run the model to quiescence. -/
def internalLabels (s : St) : List Label :=
  [.cCheck, .cRecv, .cClosed, .cSelCtx, .cClose0, .cCloseW, .cCloseP, .cClose1, .cClose2,
   .wRecv, .wExitClosed, .wExitCtx] ++ s.wHold.map .wSend ++ s.wHold.map .wDrop ++
  [.pSend, .pDrop, .pTop, .pStop, .pCloseSrc, .pWait]

end ShpanVerif.Model.ConcMap
