/-
Model of `integrations/file` (StreamFromFile).

Forward (file_raw_stream_provider.go:62, :82-109): `bufio.NewScanner(file)` with the default split function
`bufio.ScanLines` and the default limit `bufio.MaxScanTokenSize`.  `bufio` is not modelled operationally;
its documented contract is written down as a pure function (`forwardScan`): lines are split on '\n', one
trailing '\r' is dropped per line, a final line without newline is still yielded when it is not empty, an
empty file yields nothing, and a stretch of `limit` or more bytes without '\n' makes the scan fail with
`bufio.ErrTooLong` (the lines before it were already yielded).

Reverse (reverse_scanner.go): the repository's own `Scanner`, modelled operationally — fields
`buf/bufSize/start/end/rOffset/done/err/token`, one loop iteration of `Scan` (:56-188) = `fill` (the
read into `buf[0:start)`), `ScanLines` (:259-266), the `advance > 0 || token != nil` test, the
`rOffset == 0` tail handling, the shift when `end < bufSize/2`, buffer doubling up to `maxTokenSize`
(as repaired by commit 45707cd: pending data stays contiguous, free space ≤ what is left to read), the token
function `trimLine` (:246-257, as repaired by commit 4d4d438: the leading '\n' and at most ONE trailing '\r' are
stripped; before that commit `bytes.Trim(…, "\r\n")` stripped every '\r' and '\n' at both ends — kept as the variant
`trimAll = true` for the witness of that defect only) — plus
`rawFileStreamProvider.Open`'s initial `Scan()` (:58-60) that throws away the last token, and `Emit`
(:98-107, `bytes.Clone` of the token).

The file is a byte list; `ReadAt(p, off)` returns `len(p)` bytes, or fails with io.EOF if the file is shorter.
`defaultBufSize` (4096) and `maxTokenSize` (65536) are parameters.
-/

set_option autoImplicit false
namespace ShpanVerif.Model.FileScan

abbrev Bytes := List UInt8

def NL : UInt8 := 10
def CR : UInt8 := 13

/-! ## Lines of a file (list-level spec) -/

/-- One step of `splitNL`, right to left. -/
def splitStep (x : UInt8) (acc : List Bytes) : List Bytes :=
  if x == NL then [] :: acc
  else match acc with
    | s :: ss => (x :: s) :: ss
    | [] => [[x]]

/-- Split on '\n': k newlines give k+1 segments. (`foldr`: compiled to a loop, no deep recursion.) -/
def splitNL (l : Bytes) : List Bytes := l.foldr splitStep [[]]

/-- `bufio.dropCR`: drop one trailing '\r'. -/
def dropCR (l : Bytes) : Bytes :=
  match l.getLast? with
  | some c => if c == CR then l.dropLast else l
  | none => l

/-- The raw lines of a file (without '\n', with a possible '\r'): all segments, the last one only if it is
not empty (bufio.ScanLines at EOF). -/
def rawLines (f : Bytes) : List Bytes :=
  let segs := splitNL f
  match segs.getLast? with
  | some [] => segs.dropLast
  | _ => segs

/-- The file's lines. -/
def fileLines (f : Bytes) : List Bytes := (rawLines f).map dropCR

inductive ScanErr where
  | tooLong     -- bufio.ErrTooLong / reverse ErrTooLong
  | readEOF     -- ReadAt returned io.EOF (short read)
  | fuel        -- model artefact: loop bound exhausted (never happens with the bounds used)
  deriving DecidableEq, Repr

/-! ## Forward -/

/-- Lines yielded before the first over-long one, and the error if there is one. -/
def forwardGo (limit : Nat) : List Bytes → List Bytes × Option ScanErr
  | [] => ([], none)
  | l :: ls =>
    if limit ≤ l.length then ([], some .tooLong)
    else
      let (out, e) := forwardGo limit ls
      (dropCR l :: out, e)

/-- `bufio.Scanner` over the file with `ScanLines`. -/
def forwardScan (limit : Nat) (f : Bytes) : List Bytes × Option ScanErr :=
  forwardGo limit (rawLines f)

/-! ## Reverse: `bytes` helpers -/

def isCRLF (b : UInt8) : Bool := b == CR || b == NL

def trimRight (l : Bytes) : Bytes := (l.reverse.dropWhile isCRLF).reverse
def trimLeft (l : Bytes) : Bytes := l.dropWhile isCRLF

/-- `bytes.Trim(s, "\r\n")` = trimLeft (trimRight s); the result is `nil` exactly when it is empty.
(The token function BEFORE commit 4d4d438; used only by the variant `trimAll = true`.) -/
def trim (l : Bytes) : Bytes := trimLeft (trimRight l)

/-- `trimLine` (reverse_scanner.go:246-257), the token function of the code as it is:
`if len(line) > 0 && line[0] == '\n' { line = line[1:] }` — the newline that ends the PREVIOUS line;
`if len(line) > 0 && line[len(line)-1] == '\r' { line = line[:len(line)-1] }` — one trailing '\r' (= `dropCR`);
`if len(line) == 0 { return nil }` — the model does not tell nil from empty: `[]` stands for the nil token, and the
only place the difference matters (`token != nil`, :128) is modelled as `!token.isEmpty`. -/
def trimLine (line : Bytes) : Bytes :=
  let line := match line with
    | c :: r => if c == NL then r else c :: r
    | [] => []
  dropCR line

/-- The token cut out of `data`: the code as it is (`trimAll = false`: `trimLine`) or the code before commit 4d4d438
(`trimAll = true`: `bytes.Trim(data, "\r\n")`). -/
def lineToken (trimAll : Bool) (data : Bytes) : Bytes := if trimAll then trim data else trimLine data

def lastIdxStep (x : UInt8) (acc : Option Nat) : Option Nat :=
  match acc with
  | some i => some (i + 1)
  | none => if x == NL then some 0 else none

/-- `bytes.LastIndexByte(l, '\n')`. -/
def lastIdxNL (l : Bytes) : Option Nat := l.foldr lastIdxStep none

/-- `ScanLines` (reverse_scanner.go:259-266): (advance, token) = `(i, trimLine(data[i:]))` at the last '\n',
`(0, nil)` when there is none. -/
def scanLines (trimAll : Bool) (data : Bytes) : Nat × Bytes :=
  match lastIdxNL data with
  | some i => (i, lineToken trimAll (data.drop i))
  | none => (0, [])

/-! ## Reverse: the scanner -/

structure RS where
  maxTokenSize : Nat
  defBuf : Nat            -- defaultBufSize (used only when bufSize = 0 has to grow)
  trimAll : Bool := false -- NOT a field of the Go struct: `true` = the split function before commit 4d4d438 (witness only)
  token : Bytes := []
  buf : Bytes := []       -- len(buf) = 0 until the first read
  bufSize : Nat
  start : Nat
  stop : Nat              -- `end`
  rOffset : Nat
  err : Option ScanErr := none
  done : Bool := false
  deriving Repr

/-- `NewReverseScanner(r, readerSize)` (:23-39). -/
def newScanner (defBuf maxTok size : Nat) : RS :=
  let bufSize := if size < defBuf then size else defBuf
  { maxTokenSize := maxTok, defBuf := defBuf, bufSize := bufSize, start := bufSize, stop := bufSize,
    rOffset := size }

/-- `r.ReadAt(p, off)` with `len(p) = n` on an `os.File`. -/
def readAt (f : Bytes) (off n : Nat) : Option Bytes :=
  if off + n ≤ f.length then some ((f.drop off).take n) else none

/-- :68-106 — the read into `buf[0:start)`. -/
def fill (f : Bytes) (s : RS) : RS :=
  if s.start > 0 then
    let off := s.rOffset - s.start                                   -- decreaseOffset (clamps at 0)
    let buf0 := if s.buf.length == 0 then List.replicate s.bufSize 0 else s.buf
    match readAt f off s.start with
    | none => { s with rOffset := off, buf := buf0, err := some .readEOF }
    | some d => { s with rOffset := off, buf := d ++ buf0.drop s.start, start := 0 }
  else s

/-- :149-157 — move the pending data to the right to make room before it. -/
def shift (s : RS) : RS :=
  if s.stop < s.bufSize / 2 then
    let d0 := s.bufSize - s.stop
    let d := if s.rOffset < d0 then s.rOffset else d0
    let data := (s.buf.drop s.start).take (s.stop - s.start)
    { s with buf := s.buf.take (s.start + d) ++ data ++ s.buf.drop (s.stop + d),
             start := s.start + d, stop := s.stop + d }
  else s

/-- :160-186 — double the buffer (repaired version). `none` = ErrTooLong. -/
def grow (s : RS) : Option RS :=
  if s.start == 0 then
    if s.bufSize ≥ s.maxTokenSize then none
    else
      let newSize := s.bufSize * 2
      let newSize := if newSize == 0 then s.defBuf else newSize
      let newSize := if newSize > s.maxTokenSize then s.maxTokenSize else newSize
      let dataLen := s.stop - s.start
      let newStart := newSize - dataLen
      let newStart := if newStart > s.rOffset then s.rOffset else newStart
      let data := (s.buf.drop s.start).take dataLen
      some { s with buf := List.replicate newStart 0 ++ data ++ List.replicate (newSize - (newStart + dataLen)) 0,
                    start := newStart, stop := newStart + dataLen, bufSize := newSize }
  else some s

/-- The `for` loop of `Scan` (:66-187). Returns the scanner and `Scan`'s result. -/
def scanLoop (f : Bytes) : Nat → RS → RS × Bool
  | 0, s => ({ s with err := some .fuel }, false)
  | fuel + 1, s =>
    let s := fill f s
    if s.err.isSome then (s, false)
    else
      let data := (s.buf.drop s.start).take (s.stop - s.start)
      let (advance, token) := scanLines s.trimAll data            -- :108 bs.split
      let s := { s with token := token }
      if advance > 0 || !token.isEmpty then                       -- :128 (token != nil ⇔ not empty)
        ({ s with stop := s.start + advance }, true)
      else if s.rOffset == 0 then                                 -- :133
        if s.start < s.stop then ({ s with token := lineToken s.trimAll data, done := true }, true)   -- :135 trimLine
        else ({ s with token := [], done := true }, false)
      else
        match grow (shift s) with
        | none => ({ s with err := some .tooLong }, false)
        | some s' => scanLoop f fuel s'

/-- `Scan()` (:56-188). -/
def scan (f : Bytes) (fuel : Nat) (s : RS) : RS × Bool :=
  if s.done || s.err.isSome then ({ s with token := [], start := s.bufSize, stop := s.bufSize }, false)
  else scanLoop f fuel s

/-- `Emit` until EOF (`Collect`): every `Scan() = true` yields a clone of the token; `false` ends the stream
with the scanner's error, if any. -/
def collect (f : Bytes) (fuel : Nat) : Nat → RS → List Bytes × Option ScanErr
  | 0, _ => ([], some .fuel)
  | n + 1, s =>
    match scan f fuel s with
    | (s', true) =>
      let (out, e) := collect f fuel n s'
      (s'.token :: out, e)
    | (s', false) =>
      -- Emit returns `scanner.Err()`; io.EOF (a short ReadAt) would be taken for the end of the stream
      ([], if s'.err == some .readEOF then none else s'.err)

/-- `StreamFromFile(path, true).Collect`: Open creates the scanner and calls `Scan()` once, ignoring its
result (:58-60); then the Emit loop.  `trimAll` selects the token function (see `lineToken`). -/
def reverseScanV (trimAll : Bool) (defBuf maxTok : Nat) (f : Bytes) : List Bytes × Option ScanErr :=
  let fuel := f.length + 2
  let s0 := { newScanner defBuf maxTok f.length with trimAll := trimAll }
  let (s1, _) := scan f fuel s0
  collect f fuel (f.length + 2) s1

/-- The code as it is. -/
def reverseScan (defBuf maxTok : Nat) (f : Bytes) : List Bytes × Option ScanErr :=
  reverseScanV false defBuf maxTok f

/-- The code before commit 4d4d438 (`ScanLines` and the `rOffset == 0` tail used `bytes.Trim(…, "\r\n")`). -/
def reverseScanTrimAll (defBuf maxTok : Nat) (f : Bytes) : List Bytes × Option ScanErr :=
  reverseScanV true defBuf maxTok f

/-- Collect's result: the elements, or the error alone. -/
def asResult (r : List Bytes × Option ScanErr) : Except ScanErr (List Bytes) :=
  match r.2 with
  | some e => .error e
  | none => .ok r.1

end ShpanVerif.Model.FileScan
