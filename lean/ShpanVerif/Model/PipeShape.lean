/-
`shape p` = the stream *description* with all mutable operator state erased (reset to the initial values).
Running a pipeline never changes its shape; `ids`, `Reusable` and the list-level meaning `Spec.eval` depend
on the shape only.  (Definitions + the easy "depends only on shape" facts; preservation by the interpreter
is proved in Proofs/.)
-/
import ShpanVerif.Model.PipeWF
import ShpanVerif.Spec.PipeSpec

namespace ShpanVerif.Model.Pipe

mutual
def shape : Pipe → Pipe
  | .src r xs _ => .src r xs 0
  | .lc r p => .lc r (shape p)
  | .map f p => .map f (shape p)
  | .filter g p => .filter g (shape p)
  | .limit n _ p => .limit n 1 (shape p)
  | .skip n _ p => .skip n false (shape p)
  | .concat ps _ _ _ => .concat (shapeList ps) 0 false false
  | .zip ps _ => .zip (shapeList ps) 0
  | .merge ps _ _ => .merge (shapeList ps) 0 none
  | .window s st o _ _ _ p => .window s st o [] false false (shape p)
  | .cluster k fac _ _ _ _ p => .cluster k fac none 0 none false (shape p)
def shapeList : PipeList → PipeList
  | .nil => .nil
  | .cons p ps => .cons (shape p) (shapeList ps)
end

end ShpanVerif.Model.Pipe
