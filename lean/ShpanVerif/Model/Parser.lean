/-
Model of the OpenAPI query-document parser, `utils/timeseries/tsquery/queryopenapi/openapi_parser*.go`
together with the generated union helpers of `openapi_generated.gen.go`.

The model starts at the *decoded JSON tree* (`Json`); `encoding/json`'s tokenizer is trusted glue.
It has three parts.

* **Typed decoding** (`asStr`, `asInt64`, … , `member`): what `json.Unmarshal` into the generated `Api*`
  structs accepts, for the member kinds that occur: a missing member and `null` give the Go zero value,
  a value of the wrong JSON type is an `UnmarshalTypeError` (→ `reject`), an integer member rejects
  literals with a fraction or outside int64, union members (`json.RawMessage`) accept anything and are
  decoded lazily when the parser visits them (`Discriminator()` / `ValueByDiscriminator()`).
  NOT modelled: case-insensitive key matching, duplicate keys (the first one is used here, the last
  one by Go), RFC 3339 validation of timestamps, float range errors, string escapes.
* **The parser** (`parsePeriod`, `parseAligner`, `parseQField`, `parseFilter`, `parseDS`, `parseMDS`,
  `parseRField`, `parseRFilter`, `parseRDS`, `parseRMDS`): the discriminator switch per node kind, the
  recursive descent in the order of the Go code, and every validation that can reject at parse time.
  The result is the typed tree of decoded constructor arguments (`DS`, `MDS`, `RDS`, `RMDS`, …).
  The only planning-time panic reachable from a document is `timeseries.NewFixedAlignmentPeriod`
  (`duration <= 0`); it is modelled as the third outcome `Outcome.panic`, with the duration computed in
  wrapping int64 arithmetic exactly as `time.Duration(ms) * time.Millisecond`.
  `time.LoadLocation` is the parameter `zoneOk`.
* **Serialisation** (`serDS`, …): the JSON the generated `From*` helpers + `json.Marshal` produce for a
  typed tree (member names, `omitempty`, the discriminator written by `From*`).
-/
namespace ShpanVerif.Model.Parser

/-! ### JSON and outcomes -/

/-- A decoded JSON value.  `num m e` is the literal `m·10^(-e)`; `e = 0` ⇔ written as an integer. -/
inductive Json where
  | null
  | bool (b : Bool)
  | num (m : Int) (e : Nat)
  | str (s : String)
  | arr (l : List Json)
  | obj (kv : List (String × Json))
  deriving Inhabited

/-- Result of a modelled call: value, returned error, or panic. -/
inductive Outcome (α : Type) where
  | ok (a : α)
  | reject
  | panic
  deriving Inhabited

namespace Outcome
variable {α β : Type}

def bind : Outcome α → (α → Outcome β) → Outcome β
  | ok a, f => f a
  | reject, _ => reject
  | panic, _ => panic

instance : Monad Outcome where
  pure := ok
  bind := bind

@[simp] theorem ok_bind (a : α) (f : α → Outcome β) : (ok a >>= f) = f a := rfl
@[simp] theorem reject_bind (f : α → Outcome β) : (reject >>= f) = reject := rfl
@[simp] theorem panic_bind (f : α → Outcome β) : (panic >>= f) = panic := rfl
@[simp] theorem pure_eq (a : α) : (pure a : Outcome α) = ok a := rfl

/-- `mapM` with explicit recursion (left to right, stops at the first non-`ok`). -/
def mapList (f : α → Outcome β) : List α → Outcome (List β)
  | [] => ok []
  | a :: t => f a >>= fun b => mapList f t >>= fun bs => ok (b :: bs)

def isPanic : Outcome α → Bool
  | panic => true
  | _ => false

end Outcome

open Outcome

abbrev Obj := List (String × Json)

/-- Member lookup in a decoded object; a missing member behaves like `null` (Go zero value). -/
def member (kv : Obj) (k : String) : Json := (kv.lookup k).getD .null

/-! ### typed decoding of members (what `json.Unmarshal` into the generated structs accepts) -/

def minInt64 : Int := -9223372036854775808
def maxInt64 : Int := 9223372036854775807

def asStr : Json → Outcome String
  | .null => ok ""
  | .str s => ok s
  | _ => reject

def asOptStr : Json → Outcome (Option String)      -- `*string`-like members (`fillMode`)
  | .null => ok none
  | .str s => ok (some s)
  | _ => reject

def asBool : Json → Outcome Bool
  | .null => ok false
  | .bool b => ok b
  | _ => reject

def asInt64 : Json → Outcome Int
  | .null => ok 0
  | .num m 0 => if minInt64 ≤ m ∧ m ≤ maxInt64 then ok m else reject
  | _ => reject

def asOptInt : Json → Outcome (Option Int)        -- `*int` (`perSeconds`)
  | .null => ok none
  | .num m 0 => if minInt64 ≤ m ∧ m ≤ maxInt64 then ok (some m) else reject
  | _ => reject

/-- A decoded `float64` member, kept as its decimal literal. -/
structure Dec where
  m : Int
  e : Nat
  deriving Inhabited

def asDec : Json → Outcome Dec
  | .null => ok ⟨0, 0⟩
  | .num m e => ok ⟨m, e⟩
  | _ => reject

def asStrElem : Json → Outcome String := asStr

def asStrList : Json → Outcome (List String)      -- `[]string`
  | .null => ok []
  | .arr l => mapList asStrElem l
  | _ => reject

def asList : Json → Outcome (List Json)            -- `[]T` for union / struct / any elements
  | .null => ok []
  | .arr l => ok l
  | _ => reject

def asMeta : Json → Outcome Obj                     -- `map[string]interface{}`
  | .null => ok []
  | .obj kv => ok kv
  | _ => reject

def asStruct : Json → Outcome Obj                   -- a nested (non-union) struct member
  | .null => ok []
  | .obj kv => ok kv
  | _ => reject

def asTime : Json → Outcome String                  -- `time.Time` (format not validated here)
  | .null => ok ""
  | .str s => ok s
  | _ => reject

/-- `Discriminator()` of a union value: the raw message must be an object (or `null`, which gives the
    empty discriminator and is then unknown); `type` must be a string. -/
def discriminator : Json → Outcome (String × Obj)
  | .obj kv => asStr (member kv "type") >>= fun t => ok (t, kv)
  | _ => reject

/-! ### typed trees (decoded constructor arguments) -/

/-- `ApiQueryFieldMeta` -/
structure FieldMeta where
  uri : String
  dataType : String
  required : Bool
  unit : String
  custom : Obj
  deriving Inhabited

/-- `ApiAddFieldMeta` → `tsquery.AddFieldMeta` (`ParseAddFieldMeta`, openapi_parser_filter.go:163-169) -/
structure AddMeta where
  uri : String
  overrideUnit : String
  custom : Obj
  deriving Inhabited

/-- `ApiAlignmentPeriod` -/
inductive Period where
  | custom (durationMs : Int) (zone : String)
  | calendar (kind : String) (zone : String)
  deriving Inhabited

/-- `ApiAlignerFilter` (`fillMode = none` ↦ `NewAlignerFilter`, `some m` ↦ `NewInterpolatingAlignerFilter`) -/
structure Aligner where
  period : Period
  fillMode : Option String
  deriving Inhabited

/-- `ApiQueryFieldValue` -/
inductive QField where
  | constant (dataType : String) (value : Json) (required : Bool) (unit : String)
  | condition (op : String) (a b : QField)
  | logical (op : String) (a b : QField)
  | ref
  | selector (sel t f : QField)
  | nvl (src alt : QField)
  | cast (src : QField) (target : String)
  | numeric (op : String) (a b : QField)
  | unary (op : String) (a : QField)
  | nil (dataType : String) (unit : String)
  deriving Inhabited

/-- `ApiReportFieldValue` -/
inductive RField where
  | constant (dataType : String) (value : Json) (required : Bool) (unit : String)
  | condition (op : String) (a b : RField)
  | logical (op : String) (a b : RField)
  | ref (urn : String)
  | selector (sel t f : RField)
  | nvl (src alt : RField)
  | cast (src : RField) (target : String)
  | numeric (op : String) (a b : RField)
  | unary (op : String) (a : RField)
  | reduce (urns : List String) (reductionType : String)
  | nil (dataType : String) (unit : String)
  deriving Inhabited

/-- `ApiQueryFilter` -/
inductive Filter where
  | aligner (a : Aligner)
  | condition (f : QField)
  | fieldValue (f : QField) (m : AddMeta)
  | overrideMeta (urn unit : String) (custom : Obj)
  | delta (nonNegative : Bool) (maxCounter : Dec)
  | rate (overrideUnit : String) (perSeconds : Option Int) (nonNegative : Bool) (maxCounter : Dec)
  deriving Inhabited

/-- `ApiReportFilter` -/
inductive RFilter where
  | aligner (a : Aligner)
  | condition (f : RField)
  | appendField (f : RField) (m : AddMeta)
  | dropFields (urns : List String)
  | singleField (f : RField) (m : AddMeta)
  | projection (urns : List String)
  deriving Inhabited

/-- `ApiMeasurementValue` -/
structure Point where
  ts : String
  value : Json
  deriving Inhabited

/-- `ApiReportMeasurementRow` -/
structure Row where
  ts : String
  values : List Json
  deriving Inhabited

mutual
/-- `ApiQueryDatasource` -/
inductive DS where
  | static (fieldMeta : FieldMeta) (data : List Point)
  | filtered (ds : DS) (filters : List Filter)
  | reduction (reductionType : String) (al : Aligner) (mds : MDS) (fieldMeta : AddMeta) (empty : Option QField)
  | fromReport (rds : RDS) (urn : String)
/-- `ApiMultiDatasource` -/
inductive MDS where
  | list (l : List DS)
  | filtered (m : MDS) (filters : List Filter)
/-- `ApiReportDatasource` -/
inductive RDS where
  | static (fieldsMeta : List FieldMeta) (rows : List Row)
  | join (joinType : String) (m : RMDS)
  | fromDatasource (ds : DS)
  | filtered (r : RDS) (filters : List RFilter)
/-- `ApiReportMultiDatasource` -/
inductive RMDS where
  | list (l : List RDS)
  | fromMulti (m : MDS)
  | filtered (m : RMDS) (filters : List RFilter)
end

instance : Inhabited DS := ⟨.static default []⟩
instance : Inhabited RDS := ⟨.static [] []⟩

/-! ### the parser -/

section parser

-- `zoneOk zoneId` : `time.LoadLocation(zoneId)` succeeds.
variable (zoneOk : String → Bool)

/-- two's-complement wrap-around of an int64 result -/
def wrap64 (x : Int) : Int := (x + 9223372036854775808) % 18446744073709551616 - 9223372036854775808

/-- `int64(time.Millisecond)` -/
def nsPerMs : Int := 1000000

/-- `timeseries.NewFixedAlignmentPeriod(d, loc)`: panics for `d <= 0` (alignment_period.go:71-79). -/
def newFixedAlignmentPeriod (d : Int) (p : Period) : Outcome Period :=
  if d ≤ 0 then panic else ok p

/-- `parseCustomAlignmentPeriod`, openapi_parser_filter.go:147-161. -/
def parseCustomPeriod (ms : Int) (zone : String) : Outcome Period :=
  if !zoneOk zone then reject                                   -- :148-151 LoadLocation
  else if ms ≤ 0 then reject                                    -- :152-154
  else if ms > maxInt64 / nsPerMs then reject                   -- :155-158 (the D21 repair)
  else newFixedAlignmentPeriod (wrap64 (wrap64 ms * nsPerMs)) (.custom ms zone)   -- :159

def calendarKinds : List String :=
  ["month", "week", "day", "hour", "quarterHour", "quarter", "year", "halfYear"]

/-- `parseCalendarAlignmentPeriod`, openapi_parser_filter.go:120-145.
    "hour" and "quarterHour" call `NewFixedAlignmentPeriod` with positive constants. -/
def parseCalendarPeriod (kind zone : String) : Outcome Period :=
  if !zoneOk zone then reject
  else if kind = "hour" then newFixedAlignmentPeriod 3600000000000 (.calendar kind zone)
  else if kind = "quarterHour" then newFixedAlignmentPeriod 900000000000 (.calendar kind zone)
  else if kind ∈ calendarKinds then ok (.calendar kind zone)
  else reject

/-- `ParseAlignmentPeriod`, openapi_parser_filter.go:104-118. -/
def parsePeriod (j : Json) : Outcome Period :=
  discriminator j >>= fun (t, kv) =>
  if t = "calendar" then
    asStr (member kv "alignmentPeriodType") >>= fun kind =>
    asStr (member kv "zoneId") >>= fun zone =>
    parseCalendarPeriod zoneOk kind zone
  else if t = "custom" then
    asInt64 (member kv "durationInMillis") >>= fun ms =>
    asStr (member kv "zoneId") >>= fun zone =>
    parseCustomPeriod zoneOk ms zone
  else reject

def fillModes : List String := ["linear", "forwardFill"]

/-- `parseAlignerFilter` / `parseAlignerReportFilter` on the decoded `ApiAlignerFilter` struct
    (openapi_parser_filter.go:87-102, openapi_parser_report_filter.go:77-93). -/
def parseAligner (kv : Obj) : Outcome Aligner :=
  asOptStr (member kv "fillMode") >>= fun fm =>
  asStr (member kv "type") >>= fun _ =>
  parsePeriod zoneOk (member kv "alignerPeriod") >>= fun p =>
  match fm with
  | none => ok ⟨p, none⟩
  | some m => if m ∈ fillModes then ok ⟨p, some m⟩ else reject

/-- `ParseAddFieldMeta` on the decoded `ApiAddFieldMeta` struct. -/
def parseAddMeta (j : Json) : Outcome AddMeta :=
  asStruct j >>= fun kv =>
  asMeta (member kv "customMetadata") >>= fun c =>
  asStr (member kv "overrideUnit") >>= fun u =>
  asStr (member kv "uri") >>= fun uri =>
  ok ⟨uri, u, c⟩

def dataTypes : List String := ["integer", "decimal", "string", "boolean", "timestamp"]

/-- Decoding of `ApiQueryFieldMeta` followed by `tsquery.NewFieldMetaWithCustomData`
    (time_series_query.go:53-75): empty URN and unknown data types are rejected. -/
def parseFieldMeta (j : Json) : Outcome FieldMeta :=
  asStruct j >>= fun kv =>
  asMeta (member kv "customMetadata") >>= fun c =>
  asStr (member kv "dataType") >>= fun dt =>
  asBool (member kv "required") >>= fun r =>
  asStr (member kv "unit") >>= fun u =>
  asStr (member kv "uri") >>= fun uri =>
  if uri = "" then reject
  else if dt ∈ dataTypes then ok ⟨uri, dt, r, u, c⟩
  else reject

/-- `ParseQueryField`, openapi_parser_field.go:9-40 (+ the per-kind functions :42-158). -/
def parseQField : Nat → Json → Outcome QField
  | 0, _ => reject
  | n + 1, j =>
    discriminator j >>= fun (t, kv) =>
    if t = "constant" then
      asStr (member kv "dataType") >>= fun dt =>
      asBool (member kv "required") >>= fun r =>
      asStr (member kv "unit") >>= fun u =>
      ok (.constant dt (member kv "fieldValue") r u)
    else if t = "condition" then
      asStr (member kv "operatorType") >>= fun op =>
      parseQField n (member kv "operand1") >>= fun a =>
      parseQField n (member kv "operand2") >>= fun b =>
      ok (.condition op a b)
    else if t = "logicalExpression" then
      asStr (member kv "logicalOperatorType") >>= fun op =>
      parseQField n (member kv "operand1") >>= fun a =>
      parseQField n (member kv "operand2") >>= fun b =>
      ok (.logical op a b)
    else if t = "ref" then ok .ref
    else if t = "selector" then
      parseQField n (member kv "selectorBooleanField") >>= fun s =>
      parseQField n (member kv "trueField") >>= fun a =>
      parseQField n (member kv "falseField") >>= fun b =>
      ok (.selector s a b)
    else if t = "nvl" then
      parseQField n (member kv "source") >>= fun s =>
      parseQField n (member kv "altField") >>= fun a =>
      ok (.nvl s a)
    else if t = "cast" then
      asStr (member kv "targetType") >>= fun tt =>
      parseQField n (member kv "source") >>= fun s =>
      ok (.cast s tt)
    else if t = "numericExpression" then
      asStr (member kv "op") >>= fun op =>
      parseQField n (member kv "op1") >>= fun a =>
      parseQField n (member kv "op2") >>= fun b =>
      ok (.numeric op a b)
    else if t = "unaryNumericOperator" then
      asStr (member kv "op") >>= fun op =>
      parseQField n (member kv "operand") >>= fun a =>
      ok (.unary op a)
    else if t = "nil" then
      asStr (member kv "dataType") >>= fun dt =>
      asStr (member kv "unit") >>= fun u =>
      ok (.nil dt u)
    else reject            -- `ValueByDiscriminator`: unknown discriminator value

/-- `ParseReportField`, openapi_parser_report_field.go:10-43 (+ :45-176). -/
def parseRField : Nat → Json → Outcome RField
  | 0, _ => reject
  | n + 1, j =>
    discriminator j >>= fun (t, kv) =>
    if t = "constant" then
      asStr (member kv "dataType") >>= fun dt =>
      asBool (member kv "required") >>= fun r =>
      asStr (member kv "unit") >>= fun u =>
      ok (.constant dt (member kv "fieldValue") r u)
    else if t = "condition" then
      asStr (member kv "operatorType") >>= fun op =>
      parseRField n (member kv "operand1") >>= fun a =>
      parseRField n (member kv "operand2") >>= fun b =>
      ok (.condition op a b)
    else if t = "logicalExpression" then
      asStr (member kv "logicalOperatorType") >>= fun op =>
      parseRField n (member kv "operand1") >>= fun a =>
      parseRField n (member kv "operand2") >>= fun b =>
      ok (.logical op a b)
    else if t = "ref" then
      asStr (member kv "urn") >>= fun u => ok (.ref u)
    else if t = "selector" then
      parseRField n (member kv "selectorBooleanField") >>= fun s =>
      parseRField n (member kv "trueField") >>= fun a =>
      parseRField n (member kv "falseField") >>= fun b =>
      ok (.selector s a b)
    else if t = "nvl" then
      parseRField n (member kv "source") >>= fun s =>
      parseRField n (member kv "altField") >>= fun a =>
      ok (.nvl s a)
    else if t = "cast" then
      asStr (member kv "targetType") >>= fun tt =>
      parseRField n (member kv "source") >>= fun s =>
      ok (.cast s tt)
    else if t = "numericExpression" then
      asStr (member kv "op") >>= fun op =>
      parseRField n (member kv "op1") >>= fun a =>
      parseRField n (member kv "op2") >>= fun b =>
      ok (.numeric op a b)
    else if t = "unaryNumericOperator" then
      asStr (member kv "op") >>= fun op =>
      parseRField n (member kv "operand") >>= fun a =>
      ok (.unary op a)
    else if t = "reduce" then
      asStrList (member kv "fieldUrns") >>= fun us =>
      asStr (member kv "reductionType") >>= fun rt =>
      ok (.reduce us rt)
    else if t = "nil" then
      asStr (member kv "dataType") >>= fun dt =>
      asStr (member kv "unit") >>= fun u =>
      ok (.nil dt u)
    else reject

/-- The counter rule of `parseDeltaFilter` / `parseRateFilter` (openapi_parser_filter.go:65-85):
    `maxCounterValue > 0 && !nonNegative` is rejected. -/
def counterRuleOk (nonNeg : Bool) (mx : Dec) : Bool := !(decide (mx.m > 0) && !nonNeg)

/-- `ParseFilter`, openapi_parser_filter.go:12-33.  `n` bounds the depth of the field expressions. -/
def parseFilter (n : Nat) (j : Json) : Outcome Filter :=
  discriminator j >>= fun (t, kv) =>
  if t = "aligner" then
    parseAligner zoneOk kv >>= fun a => ok (.aligner a)
  else if t = "condition" then
    parseQField n (member kv "booleanField") >>= fun f => ok (.condition f)
  else if t = "fieldValue" then
    parseAddMeta (member kv "fieldMeta") >>= fun m =>            -- struct decode (As…) comes first
    parseQField n (member kv "fieldValue") >>= fun f =>
    ok (.fieldValue f m)
  else if t = "overrideFieldMetadata" then
    asMeta (member kv "updatedCustomMeta") >>= fun c =>
    asStr (member kv "updatedUnit") >>= fun unit =>
    asStr (member kv "updatedUrn") >>= fun urn =>
    ok (.overrideMeta urn unit c)
  else if t = "delta" then
    asDec (member kv "maxCounterValue") >>= fun mx =>
    asBool (member kv "nonNegative") >>= fun nn =>
    if counterRuleOk nn mx then ok (.delta nn mx) else reject
  else if t = "rate" then
    asDec (member kv "maxCounterValue") >>= fun mx =>
    asBool (member kv "nonNegative") >>= fun nn =>
    asStr (member kv "overrideUnit") >>= fun u =>
    asOptInt (member kv "perSeconds") >>= fun ps =>
    if counterRuleOk nn mx then ok (.rate u ps nn mx) else reject
  else reject

/-- `ParseReportFilter`, openapi_parser_report_filter.go:10-30. -/
def parseRFilter (n : Nat) (j : Json) : Outcome RFilter :=
  discriminator j >>= fun (t, kv) =>
  if t = "aligner" then
    parseAligner zoneOk kv >>= fun a => ok (.aligner a)
  else if t = "condition" then
    parseRField n (member kv "booleanField") >>= fun f => ok (.condition f)
  else if t = "appendField" then
    parseAddMeta (member kv "fieldMeta") >>= fun m =>
    parseRField n (member kv "fieldValue") >>= fun f =>
    ok (.appendField f m)
  else if t = "dropFields" then
    asStrList (member kv "fieldUrns") >>= fun us =>
    if us.isEmpty then reject else ok (.dropFields us)           -- :49-51
  else if t = "singleField" then
    parseAddMeta (member kv "fieldMeta") >>= fun m =>
    parseRField n (member kv "fieldValue") >>= fun f =>
    ok (.singleField f m)
  else if t = "projection" then
    asStrList (member kv "fieldUrns") >>= fun us =>
    if us.isEmpty then reject else ok (.projection us)           -- :63-65
  else reject

def parsePoint (j : Json) : Outcome Point :=
  asStruct j >>= fun kv =>
  asTime (member kv "timestamp") >>= fun ts =>
  ok ⟨ts, member kv "value"⟩

def parseRow (j : Json) : Outcome Row :=
  asStruct j >>= fun kv =>
  asTime (member kv "timestamp") >>= fun ts =>
  asList (member kv "values") >>= fun vs =>
  ok ⟨ts, vs⟩

def joinTypes : List String := ["inner", "left", "full"]

/-- `report.NewStaticDatasource` (static_report_datasource.go:16-35): no fields / duplicate URNs rejected. -/
def staticReportMetaOk (ms : List FieldMeta) : Bool :=
  !ms.isEmpty && decide ((ms.map (·.uri)).Nodup)

mutual
/-- `ParseDatasource`, openapi_parser_datasource.go:12-35. -/
def parseDS : Nat → Json → Outcome DS
  | 0, _ => reject
  | n + 1, j =>
    discriminator j >>= fun (t, kv) =>
    if t = "static" then                                         -- parseStaticDatasource :37-64
      asList (member kv "data") >>= fun dl =>
      mapList parsePoint dl >>= fun data =>
      parseFieldMeta (member kv "fieldMeta") >>= fun fm =>
      ok (.static fm data)
    else if t = "filtered" then                                  -- parseFilteredDatasource :153-175
      asList (member kv "filters") >>= fun fl =>
      parseDS n (member kv "datasource") >>= fun ds =>
      if fl.isEmpty then ok ds
      else mapList (parseFilter zoneOk n) fl >>= fun fs => ok (.filtered ds fs)
    else if t = "reduction" then                                 -- parseReductionDatasource :107-151
      asStruct (member kv "aligner") >>= fun akv =>                -- typed decode of the struct first
      parseAddMeta (member kv "fieldMeta") >>= fun fm =>
      asStr (member kv "reductionType") >>= fun rt =>
      parseAligner zoneOk akv >>= fun al =>
      parseMDS n (member kv "multiDatasource") >>= fun m =>
      match member kv "emptyDatasourceValue" with
      | .null => ok (.reduction rt al m fm none)
      | ej => parseQField n ej >>= fun e => ok (.reduction rt al m fm (some e))
    else if t = "fromReport" then                                -- parseFromReportDatasource :177-190
      asStr (member kv "fieldUrn") >>= fun urn =>
      parseRDS n (member kv "reportDatasource") >>= fun r =>
      ok (.fromReport r urn)
    else reject

/-- `ParseMultiDatasource`, openapi_parser_datasource.go:66-79. -/
def parseMDS : Nat → Json → Outcome MDS
  | 0, _ => reject
  | n + 1, j =>
    discriminator j >>= fun (t, kv) =>
    if t = "list" then                                           -- parseListMultiDatasource :95-105
      asList (member kv "datasources") >>= fun dl =>
      parseDSs n dl >>= fun l => ok (.list l)
    else if t = "filtered" then                                  -- parseFilteredMultiDatasource :81-93
      asList (member kv "filters") >>= fun fl =>
      parseMDS n (member kv "multiDatasource") >>= fun m =>
      mapList (parseFilter zoneOk n) fl >>= fun fs => ok (.filtered m fs)
    else reject

def parseDSs : Nat → List Json → Outcome (List DS)
  | _, [] => ok []
  | n, j :: t => parseDS n j >>= fun d => parseDSs n t >>= fun l => ok (d :: l)

/-- `ParseReportDatasource`, openapi_parser_report_datasource.go:12-33. -/
def parseRDS : Nat → Json → Outcome RDS
  | 0, _ => reject
  | n + 1, j =>
    discriminator j >>= fun (t, kv) =>
    if t = "static" then                                         -- parseStaticReportDatasource :35-68
      asList (member kv "data") >>= fun dl =>
      mapList parseRow dl >>= fun rows =>
      asList (member kv "fieldsMeta") >>= fun ml =>
      mapList parseFieldMeta ml >>= fun ms =>
      if staticReportMetaOk ms then ok (.static ms rows) else reject
    else if t = "join" then                                      -- parseJoinReportDatasource :70-89
      asStr (member kv "joinType") >>= fun jt =>
      if jt ∈ joinTypes then
        parseRMDS n (member kv "multiDatasource") >>= fun m => ok (.join jt m)
      else reject
    else if t = "fromDatasource" then                            -- :141-152
      parseDS n (member kv "datasource") >>= fun d => ok (.fromDatasource d)
    else if t = "filtered" then                                  -- parseFilteredReportDatasource :154-176
      asList (member kv "filters") >>= fun fl =>
      parseRDS n (member kv "reportDatasource") >>= fun r =>
      mapList (parseRFilter zoneOk n) fl >>= fun fs => ok (.filtered r fs)
    else reject

/-- `ParseReportMultiDatasource`, openapi_parser_report_datasource.go:104-123. -/
def parseRMDS : Nat → Json → Outcome RMDS
  | 0, _ => reject
  | n + 1, j =>
    discriminator j >>= fun (t, kv) =>
    if t = "list" then
      asList (member kv "datasources") >>= fun dl =>
      parseRDSs n dl >>= fun l => ok (.list l)
    else if t = "fromMultiDatasource" then
      parseMDS n (member kv "multiDatasource") >>= fun m => ok (.fromMulti m)
    else if t = "filtered" then
      asList (member kv "filters") >>= fun fl =>
      parseRMDS n (member kv "reportMultiDatasource") >>= fun m =>
      mapList (parseRFilter zoneOk n) fl >>= fun fs => ok (.filtered m fs)
    else reject

def parseRDSs : Nat → List Json → Outcome (List RDS)
  | _, [] => ok []
  | n, j :: t => parseRDS n j >>= fun d => parseRDSs n t >>= fun l => ok (d :: l)
end

end parser

/-! ### depth (fuel) -/

mutual
def Json.depth : Json → Nat
  | .arr l => depthList l + 1
  | .obj kv => depthObj kv + 1
  | _ => 1
def depthList : List Json → Nat
  | [] => 0
  | j :: t => max j.depth (depthList t)
def depthObj : List (String × Json) → Nat
  | [] => 0
  | (_, j) :: t => max j.depth (depthObj t)
end

/-- A query-datasource document (`json.Unmarshal` into `ApiQueryDatasource`, then `ParseDatasource`). -/
def parseDatasourceDoc (zoneOk : String → Bool) (j : Json) : Outcome DS := parseDS zoneOk (j.depth + 1) j

/-- A report-datasource document. -/
def parseReportDoc (zoneOk : String → Bool) (j : Json) : Outcome RDS := parseRDS zoneOk (j.depth + 1) j

/-! ### planning-time panic of the drop filter (report/drop_fields_filter.go:27-45, D23) -/

/-- `make([]int, 0, max(0, len(fieldsMeta) - len(set)))`: `makeslice` panics on a negative capacity. -/
def makeSliceCap (cap : Int) : Outcome Unit := if cap < 0 then panic else ok ()

/-- Planning step of `DropFieldsFilter.Filter`: the kept field URNs or an error. -/
def planDrop (fields : List String) (urns : List String) : Outcome (List String) :=
  let set := urns.eraseDups
  makeSliceCap (max 0 ((fields.length : Int) - (set.length : Int))) >>= fun _ =>
  let keep := fields.filter (fun f => !set.contains f)
  let found := (fields.filter (fun f => set.contains f)).length
  if keep.isEmpty then reject                                    -- "cannot drop all fields"
  else if found ≠ set.length then reject                         -- "do not exist"
  else ok keep

/-! ### serialisation: what `From*` + `json.Marshal` write -/

/-- a member with `omitempty` -/
def optKV (present : Bool) (k : String) (v : Json) : Obj := if present then [(k, v)] else []

def serDec (d : Dec) : Json := .num d.m d.e

def serStrs (l : List String) : Json := .arr (l.map .str)

def serFieldMeta (m : FieldMeta) : Json :=
  .obj (optKV (!m.custom.isEmpty) "customMetadata" (.obj m.custom) ++
    [("dataType", .str m.dataType), ("required", .bool m.required)] ++
    optKV (m.unit != "") "unit" (.str m.unit) ++ [("uri", .str m.uri)])

def serAddMeta (m : AddMeta) : Json :=
  .obj (optKV (!m.custom.isEmpty) "customMetadata" (.obj m.custom) ++
    optKV (m.overrideUnit != "") "overrideUnit" (.str m.overrideUnit) ++ [("uri", .str m.uri)])

def serPeriod : Period → Json
  | .custom ms zone => .obj [("durationInMillis", .num ms 0), ("type", .str "custom"), ("zoneId", .str zone)]
  | .calendar kind zone =>
    .obj [("alignmentPeriodType", .str kind), ("type", .str "calendar"), ("zoneId", .str zone)]

/-- members of `ApiAlignerFilter`; `ty` is "aligner" when written by `FromApiAlignerFilter`, and the
    caller's value (normally "") when the struct is the `aligner` member of a reduction datasource. -/
def serAlignerKV (ty : String) (a : Aligner) : Obj :=
  [("alignerPeriod", serPeriod a.period)] ++
  (match a.fillMode with | none => [] | some m => [("fillMode", Json.str m)]) ++ [("type", .str ty)]

def serQField : QField → Json
  | .constant dt v r u =>
    .obj ([("dataType", .str dt), ("fieldValue", v), ("required", .bool r), ("type", .str "constant")] ++
      optKV (u != "") "unit" (.str u))
  | .condition op a b =>
    .obj [("operand1", serQField a), ("operand2", serQField b), ("operatorType", .str op), ("type", .str "condition")]
  | .logical op a b =>
    .obj [("logicalOperatorType", .str op), ("operand1", serQField a), ("operand2", serQField b),
      ("type", .str "logicalExpression")]
  | .ref => .obj [("type", .str "ref")]
  | .selector s t f =>
    .obj [("falseField", serQField f), ("selectorBooleanField", serQField s), ("trueField", serQField t),
      ("type", .str "selector")]
  | .nvl s a => .obj [("altField", serQField a), ("source", serQField s), ("type", .str "nvl")]
  | .cast s tt => .obj [("source", serQField s), ("targetType", .str tt), ("type", .str "cast")]
  | .numeric op a b =>
    .obj [("op", .str op), ("op1", serQField a), ("op2", serQField b), ("type", .str "numericExpression")]
  | .unary op a => .obj [("op", .str op), ("operand", serQField a), ("type", .str "unaryNumericOperator")]
  | .nil dt u => .obj ([("dataType", .str dt), ("type", .str "nil")] ++ optKV (u != "") "unit" (.str u))

def serRField : RField → Json
  | .constant dt v r u =>
    .obj ([("dataType", .str dt), ("fieldValue", v), ("required", .bool r), ("type", .str "constant")] ++
      optKV (u != "") "unit" (.str u))
  | .condition op a b =>
    .obj [("operand1", serRField a), ("operand2", serRField b), ("operatorType", .str op), ("type", .str "condition")]
  | .logical op a b =>
    .obj [("logicalOperatorType", .str op), ("operand1", serRField a), ("operand2", serRField b),
      ("type", .str "logicalExpression")]
  | .ref urn => .obj [("type", .str "ref"), ("urn", .str urn)]
  | .selector s t f =>
    .obj [("falseField", serRField f), ("selectorBooleanField", serRField s), ("trueField", serRField t),
      ("type", .str "selector")]
  | .nvl s a => .obj [("altField", serRField a), ("source", serRField s), ("type", .str "nvl")]
  | .cast s tt => .obj [("source", serRField s), ("targetType", .str tt), ("type", .str "cast")]
  | .numeric op a b =>
    .obj [("op", .str op), ("op1", serRField a), ("op2", serRField b), ("type", .str "numericExpression")]
  | .unary op a => .obj [("op", .str op), ("operand", serRField a), ("type", .str "unaryNumericOperator")]
  | .reduce us rt =>
    .obj (optKV (!us.isEmpty) "fieldUrns" (serStrs us) ++ [("reductionType", .str rt), ("type", .str "reduce")])
  | .nil dt u => .obj ([("dataType", .str dt), ("type", .str "nil")] ++ optKV (u != "") "unit" (.str u))

def serFilter : Filter → Json
  | .aligner a => .obj (serAlignerKV "aligner" a)
  | .condition f => .obj [("booleanField", serQField f), ("type", .str "condition")]
  | .fieldValue f m => .obj [("fieldMeta", serAddMeta m), ("fieldValue", serQField f), ("type", .str "fieldValue")]
  | .overrideMeta urn unit c =>
    .obj ([("type", Json.str "overrideFieldMetadata")] ++ optKV (!c.isEmpty) "updatedCustomMeta" (.obj c) ++
      optKV (unit != "") "updatedUnit" (.str unit) ++ optKV (urn != "") "updatedUrn" (.str urn))
  | .delta nn mx =>
    .obj (optKV (mx.m != 0) "maxCounterValue" (serDec mx) ++ optKV nn "nonNegative" (.bool nn) ++
      [("type", .str "delta")])
  | .rate u ps nn mx =>
    .obj (optKV (mx.m != 0) "maxCounterValue" (serDec mx) ++ optKV nn "nonNegative" (.bool nn) ++
      optKV (u != "") "overrideUnit" (.str u) ++
      (match ps with | none => [] | some p => [("perSeconds", Json.num p 0)]) ++ [("type", .str "rate")])

def serRFilter : RFilter → Json
  | .aligner a => .obj (serAlignerKV "aligner" a)
  | .condition f => .obj [("booleanField", serRField f), ("type", .str "condition")]
  | .appendField f m => .obj [("fieldMeta", serAddMeta m), ("fieldValue", serRField f), ("type", .str "appendField")]
  | .dropFields us => .obj [("fieldUrns", serStrs us), ("type", .str "dropFields")]
  | .singleField f m => .obj [("fieldMeta", serAddMeta m), ("fieldValue", serRField f), ("type", .str "singleField")]
  | .projection us => .obj [("fieldUrns", serStrs us), ("type", .str "projection")]

def serPoint (p : Point) : Json := .obj [("timestamp", .str p.ts), ("value", p.value)]
def serRow (r : Row) : Json := .obj [("timestamp", .str r.ts), ("values", .arr r.values)]

mutual
def serDS : DS → Json
  | .static fm data =>
    .obj [("data", .arr (data.map serPoint)), ("fieldMeta", serFieldMeta fm), ("type", .str "static")]
  | .filtered ds fs =>
    .obj [("datasource", serDS ds), ("filters", .arr (fs.map serFilter)), ("type", .str "filtered")]
  | .reduction rt al m fm e =>
    .obj ([("aligner", Json.obj (serAlignerKV "" al))] ++
      (match e with | none => [] | some f => [("emptyDatasourceValue", serQField f)]) ++
      [("fieldMeta", serAddMeta fm), ("multiDatasource", serMDS m), ("reductionType", .str rt),
       ("type", .str "reduction")])
  | .fromReport r urn =>
    .obj [("fieldUrn", .str urn), ("reportDatasource", serRDS r), ("type", .str "fromReport")]
def serMDS : MDS → Json
  | .list l => .obj [("datasources", .arr (serDSs l)), ("type", .str "list")]
  | .filtered m fs =>
    .obj [("filters", .arr (fs.map serFilter)), ("multiDatasource", serMDS m), ("type", .str "filtered")]
def serDSs : List DS → List Json
  | [] => []
  | d :: t => serDS d :: serDSs t
def serRDS : RDS → Json
  | .static ms rows =>
    .obj [("data", .arr (rows.map serRow)), ("fieldsMeta", .arr (ms.map serFieldMeta)), ("type", .str "static")]
  | .join jt m => .obj [("joinType", .str jt), ("multiDatasource", serRMDS m), ("type", .str "join")]
  | .fromDatasource d => .obj [("datasource", serDS d), ("type", .str "fromDatasource")]
  | .filtered r fs =>
    .obj [("filters", .arr (fs.map serRFilter)), ("reportDatasource", serRDS r), ("type", .str "filtered")]
def serRMDS : RMDS → Json
  | .list l => .obj [("datasources", .arr (serRDSs l)), ("type", .str "list")]
  | .fromMulti m => .obj [("multiDatasource", serMDS m), ("type", .str "fromMultiDatasource")]
  | .filtered m fs =>
    .obj [("filters", .arr (fs.map serRFilter)), ("reportMultiDatasource", serRMDS m), ("type", .str "filtered")]
def serRDSs : List RDS → List Json
  | [] => []
  | d :: t => serRDS d :: serRDSs t
end

/-! ### normal form: what the parser builds for a tree -/

/- `parseFilteredDatasource` returns the inner datasource itself when the filter list is empty
   (openapi_parser_datasource.go:161-163); every other node is built as written. -/
mutual
def normDS : DS → DS
  | .static fm data => .static fm data
  | .filtered ds fs => if fs.isEmpty then normDS ds else .filtered (normDS ds) fs
  | .reduction rt al m fm e => .reduction rt al (normMDS m) fm e
  | .fromReport r urn => .fromReport (normRDS r) urn
def normMDS : MDS → MDS
  | .list l => .list (normDSs l)
  | .filtered m fs => .filtered (normMDS m) fs
def normDSs : List DS → List DS
  | [] => []
  | d :: t => normDS d :: normDSs t
def normRDS : RDS → RDS
  | .static ms rows => .static ms rows
  | .join jt m => .join jt (normRMDS m)
  | .fromDatasource d => .fromDatasource (normDS d)
  | .filtered r fs => .filtered (normRDS r) fs
def normRMDS : RMDS → RMDS
  | .list l => .list (normRDSs l)
  | .fromMulti m => .fromMulti (normMDS m)
  | .filtered m fs => .filtered (normRMDS m) fs
def normRDSs : List RDS → List RDS
  | [] => []
  | d :: t => normRDS d :: normRDSs t
end

end ShpanVerif.Model.Parser
